#!/bin/bash
# The repository's pinned suite with the verif guard OFF (same command as BASELINE.json).
. "$(dirname "$0")/env.sh"
cd /repo && go1.26.8 test -json -vet=off -count=1 -timeout 25m ./...
