# CHECKS[id] = (category, technique, level text, level note); NA[id] = reason
CHECKS['C25'] = ('exploration', 'runtime monitor: engine vs math/big reference over boundary/random operands',
  'Every integer type pair (10x10) x {+,-,*} over boundary values and seeded random values as typed columns, integer literals, unary minus, DIV/%/MOD// incl. zero divisors, and DECIMAL + - * on literals and columns are executed by the real engine and compared with an exact math/big oracle; held means no wrong number on the executions listed in the evidence file.',
  'Trusted: math/big, the harness value canonicaliser. Not covered: operands reached through implicit string/float conversion; DECIMAL beyond 30 digits.')
