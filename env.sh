# shell environment for every build/run of the harness (offline, pinned toolchain)
export GOFLAGS=-mod=mod GOPROXY=off GOSUMDB=off GOTOOLCHAIN=local
export PATH="$PATH:/opt/veriftools/go1.26.8/bin"
