#!/usr/bin/env python3
"""Regenerates MANIFEST.json from the table below. A property is claimed iff harness/cmd/<id>/ exists
and it has an entry in CHECKS; everything else is listed under not_applicable with its reason."""
import json, os, subprocess
V = os.path.dirname(os.path.abspath(__file__))
props = [json.loads(l) for l in open(os.path.join(V, 'properties.jsonl'))]

# id -> (category, technique, level text, level note)
CHECKS = {}
NA = {}
exec(open(os.path.join(V, 'checks_table.py')).read())

def hook_commits():
    try:
        out = subprocess.check_output(['git', '-C', '/repo', 'log', '--format=%h %s'], text=True)
        return [l.split()[0] for l in out.splitlines() if 'verif hook' in l]
    except Exception:
        return []

checks, na = [], []
for p in props:
    i = p['id']
    d = os.path.join(V, 'harness', 'cmd', i.lower())
    if i in CHECKS and os.path.isdir(d):
        cat, tech, text, note = CHECKS[i]
        checks.append({
            'property_id': i,
            'quick_cmd': f'./check {i} quick',
            'thorough_cmd': f'./check {i} thorough',
            'evidence_file': f'evidence/{i}.json',
            'replay_cmd_template': f'./check {i} quick --replay {{path}}',
            'engine': 'vmon',
            'level_claimed': {'category': cat, 'text': text, 'design_ref': f'DESIGN.md §4 {i}'},
            'level_note': note,
            'technique': tech,
        })
    else:
        na.append({'property_id': i, 'reason': NA.get(i, 'no monitor built for it in the time available; nothing is claimed')})
m = {
    'version': 1,
    'setup_cmd': './setup.sh',
    'hooks': {
        'guard': 'verif',
        'enable': 'go build -tags verif (harness module replaces github.com/dolthub/go-mysql-server => /repo)',
        'baseline_off_cmd': './baseline_off.sh',
        'source_commits': hook_commits(),
        'add_only': True,
    },
    'engines': [{'name': 'vmon', 'path': 'harness/', 'serves_properties': [c['property_id'] for c in checks],
                 'kind_free_text': 'Go runtime monitors (one binary per property) driving the real engine built from /repo with -tags verif; oracles: reference models, metamorphic relations, law checkers, porcupine history checking, Go race detector'}],
    'checks': checks,
    'not_applicable': na,
    'notes': 'Technique family: runtime monitoring and sanitizers. Known genuine defects are listed in KNOWN_FINDINGS.txt; see DESIGN.md.',
}
json.dump(m, open(os.path.join(V, 'MANIFEST.json'), 'w'), indent=1)
print('claimed', len(checks), 'not_applicable', len(na))
