package main

import (
	"verif/harness/core"
	g "verif/harness/g6alib"
)

func matchKnown(q g.Query, base, other obs, all []obs, mode string) string { return "" }

func pinned(r *core.Run) {}
