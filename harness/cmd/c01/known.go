package main

import (
	"regexp"
	"sort"
	"strings"

	"verif/harness/core"
	g "verif/harness/g6alib"
)

// ---- known findings (via=signature) ---------------------------------------------------------------------
//
// Each known defect is tied to a *plan trigger*: a structural feature of the physical plan under which the
// defect can show. A disagreement is attributed to a known finding only when
//   (1) at least one configuration's plan carries no trigger at all, and all such "untainted"
//       configurations agree with each other (they form the reference), and
//   (2) every configuration that disagrees with that reference carries the trigger of ONE common finding
//       (plus that finding's condition on the query text).
// Anything else — untainted configurations disagreeing among themselves, a disagreeing configuration
// without trigger — is reported as a new violation.

type trigger struct {
	sig  string
	has  func(q g.Query, plan string) bool
	what string
}

var tupleCmpRe = regexp.MustCompile(`MergeJoin\n[^\n]*cmp: \(\([^()\n]*, [^()\n]*\) = \(`)

// rangeHeapOnIndex: a [LeftOuter]RangeHeapJoin whose value side (first relational child) is not a Sort,
// i.e. the order comes from an index scan that replaced the child (and with it the child's filters).
func rangeHeapOnIndex(plan string) bool {
	lines := strings.Split(plan, "\n")
	for i, l := range lines {
		if !strings.Contains(l, "RangeHeapJoin") {
			continue
		}
		// children are the following lines one level deeper; the first is the join condition
		seenCond := false
		for _, c := range lines[i+1:] {
			t := strings.TrimLeft(c, " │├└─")
			if t == "" {
				continue
			}
			if !seenCond {
				seenCond = true
				continue
			}
			if !strings.HasPrefix(t, "Sort(") {
				return true
			}
			break
		}
	}
	return false
}

var accessRe = regexp.MustCompile(`IndexedTableAccess\((\w+)\)|name: (\w+)`)

// sameTableTwice: some base table is read by two or more access nodes of the plan (self join, or a table
// that also appears inside a subquery).
func sameTableTwice(plan string) bool {
	n := map[string]int{}
	for _, m := range accessRe.FindAllStringSubmatch(plan, -1) {
		t := m[1] + m[2]
		n[t]++
		if n[t] >= 2 {
			return true
		}
	}
	return false
}

var triggers = []trigger{
	{"not-in-null-merge-or-lookup-join", func(q g.Query, p string) bool {
		return q.Has("sub:not-in") && (strings.Contains(p, "LeftOuterMergeJoin") || strings.Contains(p, "LeftOuterLookupJoin"))
	},
		"x NOT IN (subquery) planned as LeftOuterMergeJoin / LeftOuterLookupJoin + IS NULL filter (these two have no ExcludingNulls variant) returns the unmatched outer rows even when the subquery yields a NULL (DESIGN F9)"},
	{"rangeheap-indexscan-drops-filter", func(q g.Query, p string) bool { return rangeHeapOnIndex(p) },
		"RangeHeapJoin whose value side is read in index order (sort eliminated) loses that side's single-table WHERE/ON filters"},
	{"mergejoin-multicol-key-null", func(q g.Query, p string) bool { return tupleCmpRe.MatchString(p) },
		"MergeJoin on a multi-column key loses matches after a row with NULL in a non-leading key column"},
	{"sort-eliminated-by-other-alias-index", func(q g.Query, p string) bool {
		return q.Has("order-by-all") && !strings.Contains(p, "Sort(") && !strings.Contains(p, "TopN(") && sameTableTwice(p)
	},
		"ORDER BY x.col on a query that reads the same table under two aliases: the Sort is dropped because ANOTHER alias of that table is read in index order of col"},
	{"concat-lookup-drops-filter", func(q g.Query, p string) bool { return strings.Contains(p, "Concat") },
		"lookup join with an OR condition (Concat of two index lookups) on a table that also has a single-table WHERE filter: the filter disappears"},
}

func taintsOf(q g.Query, plan string) []string {
	var out []string
	for _, t := range triggers {
		if t.has(q, plan) {
			out = append(out, t.sig)
		}
	}
	return out
}

func sameOutcome(q g.Query, a, b g.Outcome) bool {
	if !a.SameMultiset(b) {
		return false
	}
	if q.Ordered && a.OK() && !core.SameStrings(a.Seq, b.Seq) {
		return false
	}
	return true
}

// matchKnown attributes a disagreement to a known finding (see the rule above) or returns "".
func matchKnown(q g.Query, base, other obs, all []obs, mode string) string {
	var ref *obs
	for i := range all {
		if len(taintsOf(q, all[i].Plan)) > 0 {
			continue
		}
		if ref == nil {
			ref = &all[i]
		} else if !sameOutcome(q, ref.Out, all[i].Out) {
			return "" // untainted configurations disagree: new violation
		}
	}
	if ref == nil || !ref.Out.OK() {
		return ""
	}
	common := map[string]int{}
	ndiff := 0
	for i := range all {
		if sameOutcome(q, ref.Out, all[i].Out) {
			continue
		}
		if all[i].Out.Panic != nil {
			return ""
		}
		ndiff++
		for _, t := range taintsOf(q, all[i].Plan) {
			common[t]++
		}
	}
	var sigs []string
	for s, n := range common {
		if n == ndiff {
			sigs = append(sigs, s)
		}
	}
	if ndiff == 0 || len(sigs) == 0 {
		return ""
	}
	sort.Strings(sigs)
	return sigs[0]
}
