// C01 — query results do not depend on the physical plan chosen.
//
// One case = one schema (2-4 tables with a common column set, NULLs, duplicated join keys) in three index
// layouts (A: primary key + secondary indexes, B: primary key only, C: no keys), and a few generated
// read-only queries. Every query is executed under many plan configurations:
//
//	default coster · the memo's six exported biased costers · seeded random costers installed through
//	Analyzer.Coster (cost = hash(seed, RelExpr)) · join hints (JOIN_ORDER permutations, LOOKUP/HASH/MERGE/
//	INNER/SEMI/ANTI_JOIN, LEFT_DEEP, NO_MERGE_JOIN) · SET @@disable_merge_join=1 · the other index layouts.
//
// Oracle: every configuration returns the same row multiset as the default configuration on layout A (the
// same sequence when ORDER BY lists every output column); failures are compared by class.
package main

import (
	"fmt"
	"hash/fnv"
	"math/rand"
	"sort"
	"strings"
	"sync"

	"github.com/dolthub/go-mysql-server/sql"
	"github.com/dolthub/go-mysql-server/sql/memo"
	"github.com/dolthub/go-mysql-server/verifhook"

	"verif/harness/core"
	g "verif/harness/g6alib"
)

// randCoster gives every memo expression a pseudo-random cost, so optimizeMemoGroup picks an arbitrary
// member of every expression group.
type randCoster struct{ seed uint64 }

func (c randCoster) EstimateCost(ctx *sql.Context, n memo.RelExpr, _ sql.StatsProvider) (float64, error) {
	h := fnv.New64a()
	fmt.Fprintf(h, "%d|%T|%s", c.seed, n, n.String())
	return float64(h.Sum64()%100000) / 100.0, nil
}

type config struct {
	Name   string
	Kind   string // default biased random hint sessvar layout
	Layout int    // 0 = A, 1 = B, 2 = C
	Coster func() memo.Coster
	Hint   string
	NoMJ   bool // SET @@disable_merge_join = 1
}

func biased() []config {
	return []config{
		{Name: "coster:inner-biased", Kind: "biased", Coster: memo.NewInnerBiasedCoster},
		{Name: "coster:hash-biased", Kind: "biased", Coster: memo.NewHashBiasedCoster},
		{Name: "coster:lookup-biased", Kind: "biased", Coster: memo.NewLookupBiasedCoster},
		{Name: "coster:merge-biased", Kind: "biased", Coster: memo.NewMergeBiasedCoster},
		{Name: "coster:partial-biased", Kind: "biased", Coster: memo.NewPartialBiasedCoster},
		{Name: "coster:rangeheap-biased", Kind: "biased", Coster: memo.NewRangeHeapBiasedCoster},
	}
}

func randomCoster(seed uint64, layout int) config {
	return config{Name: fmt.Sprintf("coster:random-%d@%c", seed, 'A'+layout), Kind: "random", Layout: layout,
		Coster: func() memo.Coster { return randCoster{seed} }}
}

// hintConfigs draws the hint sets for one query (a fixed number per tier).
func hintConfigs(rnd *rand.Rand, q g.Query, n int) []config {
	al := q.Aliases
	var all []string
	if len(al) >= 2 {
		perm := func() string {
			p := rnd.Perm(len(al))
			var s []string
			for _, i := range p {
				s = append(s, al[i])
			}
			return "JOIN_ORDER(" + strings.Join(s, ",") + ")"
		}
		pair := func() (string, string) {
			i := rnd.Intn(len(al))
			j := rnd.Intn(len(al) - 1)
			if j >= i {
				j++
			}
			return al[i], al[j]
		}
		a, b := pair()
		all = append(all, perm(), perm(),
			fmt.Sprintf("LOOKUP_JOIN(%s,%s)", a, b), fmt.Sprintf("HASH_JOIN(%s,%s)", a, b),
			fmt.Sprintf("MERGE_JOIN(%s,%s)", a, b), fmt.Sprintf("INNER_JOIN(%s,%s)", a, b),
			"LEFT_DEEP", "NO_MERGE_JOIN", "JOIN_FIXED_ORDER",
			perm()+" "+fmt.Sprintf("HASH_JOIN(%s,%s)", a, b), perm()+" "+fmt.Sprintf("LOOKUP_JOIN(%s,%s)", b, a),
			fmt.Sprintf("LEFT_OUTER_LOOKUP_JOIN(%s,%s)", a, b))
	}
	if q.Depth > 0 {
		// subquery aliases are q1, q2 ...
		o := al[rnd.Intn(len(al))]
		all = append(all, fmt.Sprintf("SEMI_JOIN(%s,q1)", o), fmt.Sprintf("ANTI_JOIN(%s,q1)", o),
			fmt.Sprintf("MERGE_JOIN(%s,q1)", o), fmt.Sprintf("HASH_JOIN(%s,q1)", o), fmt.Sprintf("LOOKUP_JOIN(%s,q1)", o),
			fmt.Sprintf("JOIN_ORDER(q1,%s)", strings.Join(al, ",")), "NO_MERGE_JOIN")
	}
	rnd.Shuffle(len(all), func(i, j int) { all[i], all[j] = all[j], all[i] })
	if len(all) > n {
		all = all[:n]
	}
	var out []config
	for _, h := range all {
		out = append(out, config{Name: "hint:" + h, Kind: "hint", Hint: h})
	}
	return out
}

type layoutEng struct {
	e *core.Eng
	s *core.Sess
}

type obs struct {
	Cfg  config
	Out  g.Outcome
	Plan string
	FP   string
}

type stats struct {
	mu        sync.Mutex
	ops       map[string]int
	queries   int
	multiPlan int // queries with >= 2 distinct plan fingerprints on layout A
	fpTotal   map[string]struct{}
	kinds     map[string]int
	shapes    map[string]int
	feats     map[string]int
}

func main() {
	r := core.NewRun("C01", "exploration",
		"each evaluation is one (query, plan configuration) pair whose result (row multiset; sequence when ORDER BY lists all output columns; failure class) is compared with the default-coster run on the indexed layout; distinct = distinct physical plan fingerprints (operator skeleton + access paths) observed")
	r.Fold(8, 3)
	r.Assume("no floating-point columns; LIMIT only under an ORDER BY listing every output column; no user variables or non-deterministic functions")
	r.Assume("bulk of the queries: <= 3 tables, subquery depth <= 1 (long tail of genuine multi-join defects, DESIGN 1.3); a fixed minority goes to 4 tables / depth 2 in thorough")
	st := &stats{ops: map[string]int{}, fpTotal: map[string]struct{}{}, kinds: map[string]int{}, shapes: map[string]int{}, feats: map[string]int{}}

	nSchemas := r.N(50, 600)
	perSchema := 5
	nRandom := r.N(3, 8)
	nHints := r.N(4, 12)
	c0 := verifhook.Counters()
	r.Parallel("schemas", nSchemas, func(i int) {
		rnd := r.Rand("schemas", i)
		deep := !r.Quick() && i%5 == 0 // fixed minority of deeper shapes (thorough only)
		nt := 3
		if deep {
			nt = 4
		}
		tabs := g.GenJoinSchema(rnd, nt, 12)
		var lay [3]layoutEng
		for l := 0; l < 3; l++ {
			e := core.NewEng("d")
			defer e.Close()
			s := e.NewSess()
			for _, t := range tabs {
				tt := t
				switch l {
				case 1:
					tt = t.WithoutSecondary()
				case 2:
					tt = t.Twin(t.Name)
				}
				g.SetupAll(s, tt.Setup())
			}
			lay[l] = layoutEng{e, s}
		}
		for qi := 0; qi < perSchema; qi++ {
			o := g.QueryOpts{MaxTables: 3, MaxDepth: 1}
			if deep {
				o = g.QueryOpts{MaxTables: 4, MaxDepth: 2}
			}
			q := g.GenQuery(rnd, tabs, o)
			cfgs := []config{{Name: "default", Kind: "default"}}
			cfgs = append(cfgs, biased()...)
			for k := 1; k <= nRandom; k++ {
				cfgs = append(cfgs, randomCoster(uint64(rnd.Int63n(1<<30)), 0))
			}
			cfgs = append(cfgs, hintConfigs(rnd, q, nHints)...)
			cfgs = append(cfgs, config{Name: "sessvar:disable_merge_join", Kind: "sessvar", NoMJ: true})
			cfgs = append(cfgs, config{Name: "layout:B-pk-only", Kind: "layout", Layout: 1},
				config{Name: "layout:B+hash-biased", Kind: "layout", Layout: 1, Coster: memo.NewHashBiasedCoster},
				randomCoster(uint64(rnd.Int63n(1<<30)), 1),
				config{Name: "layout:C-no-keys", Kind: "layout", Layout: 2})
			if !r.Quick() {
				cfgs = append(cfgs, randomCoster(uint64(rnd.Int63n(1<<30)), 2),
					config{Name: "layout:B+merge-biased", Kind: "layout", Layout: 1, Coster: memo.NewMergeBiasedCoster},
					config{Name: "layout:B+sessvar:disable_merge_join", Kind: "layout", Layout: 1, NoMJ: true})
			}
			oneQuery(r, st, tabs, lay, q, cfgs, i, qi)
		}
	})
	c1 := verifhook.Counters()
	for k, v := range c1 {
		if d := v - c0[k]; d > 0 {
			r.Count("hook:"+k, int64(d))
		}
	}
	mergeBattery(r)
	rangeBattery(r)
	pinned(r)

	r.Floor(st.queries > 0 && st.multiPlan*100 >= st.queries*60, fmt.Sprintf("fewer than 60%% of the queries were seen under >= 2 distinct plan fingerprints (%d of %d)", st.multiPlan, st.queries))
	need := []string{"LookupJoin", "HashJoin", "MergeJoin", "RangeHeapJoin", "CrossJoin", "InnerJoin", "LeftOuterJoin", "LeftOuterHashJoin", "LeftOuterLookupJoin", "LeftOuterMergeJoin"}
	if !r.Quick() {
		for _, op := range need {
			r.Floor(st.ops[op] > 0, "join operator never seen in a plan: "+op)
		}
	}
	semi, anti := 0, 0
	for op, n := range st.ops {
		if strings.HasPrefix(op, "Semi") {
			semi += n
		}
		if strings.HasPrefix(op, "Anti") {
			anti += n
		}
	}
	r.Floor(semi > 0, "no semi-join operator seen in any plan")
	r.Floor(anti > 0, "no anti-join operator seen in any plan")
	r.Floor(st.ops["HashJoin"] > 0 && st.ops["LookupJoin"] > 0 && st.ops["MergeJoin"] > 0, "hash / lookup / merge join not all seen")
	r.Extra("operator_histogram", st.ops)
	r.Extra("queries", st.queries)
	r.Extra("queries_with_2plus_plans_on_layout_A", st.multiPlan)
	r.Extra("config_kinds", st.kinds)
	r.Extra("query_shapes", st.shapes)
	r.Extra("query_features", st.feats)
	r.Finish()
}

// runCfg executes the query under one configuration on its layout's engine and returns the observation.
func runCfg(lay [3]layoutEng, q g.Query, c config) obs {
	le := lay[c.Layout]
	if c.Coster != nil {
		le.e.E.Analyzer.Coster = c.Coster()
	} else {
		le.e.E.Analyzer.Coster = memo.NewDefaultCoster()
	}
	s := le.s
	if c.NoMJ {
		s.MustExec("SET @@disable_merge_join = 1")
		defer s.MustExec("SET @@disable_merge_join = 0")
	}
	text := q.SQL(c.Hint)
	o := obs{Cfg: c}
	o.Out = g.Run(s, text)
	o.Plan = s.Plan(text)
	o.FP = g.Fingerprint(o.Plan)
	le.e.E.Analyzer.Coster = memo.NewDefaultCoster()
	return o
}

func setup(tabs []*g.Table) []string {
	var out []string
	for _, t := range tabs {
		out = append(out, t.Setup()...)
	}
	return out
}

func oneQuery(r *core.Run, st *stats, tabs []*g.Table, lay [3]layoutEng, q g.Query, cfgs []config, ci, qi int) {
	base := runCfg(lay, q, cfgs[0])
	if base.Out.Class == "timeout" {
		r.Inconclusive("timeout")
		return
	}
	all := []obs{base}
	for _, c := range cfgs[1:] {
		all = append(all, runCfg(lay, q, c))
	}
	// evidence: plans
	fpsA := map[string]bool{}
	st.mu.Lock()
	st.queries++
	st.shapes[q.Shape]++
	for _, f := range q.Features {
		st.feats[f]++
	}
	for _, o := range all {
		if o.Cfg.Layout == 0 {
			fpsA[o.FP] = true
		}
		st.fpTotal[o.FP] = struct{}{}
		for _, op := range g.Operators(o.Plan) {
			if strings.Contains(op, "Join") {
				st.ops[op]++
			}
		}
	}
	if len(fpsA) >= 2 {
		st.multiPlan++
	}
	st.mu.Unlock()
	for _, o := range all {
		r.Distinct(o.FP)
	}

	allFail := !base.Out.OK()
	for _, o := range all {
		if o.Out.OK() {
			allFail = false
		}
	}
	if allFail {
		same := true
		for _, o := range all {
			if o.Out.Class != base.Out.Class {
				same = false
			}
		}
		if same {
			r.Inconclusive("all-configurations-fail:" + base.Out.Class)
			return
		}
	}
	for _, o := range all[1:] {
		if o.Out.Class == "timeout" {
			r.Inconclusive("timeout")
			continue
		}
		r.Eval(1)
		st.mu.Lock()
		st.kinds[o.Cfg.Kind]++
		st.mu.Unlock()
		mode := ""
		switch {
		case o.Out.Panic != nil && base.Out.Panic == nil:
			mode = "config-" + o.Out.Panic.Sig()
		case o.Out.Class != base.Out.Class:
			mode = "error-asymmetry:" + base.Out.Class + "-vs-" + o.Out.Class
		case !o.Out.OK():
			// same failure class on both sides
		case !core.SameStrings(o.Out.Sorted, base.Out.Sorted):
			mode = "rows-differ"
		case q.Ordered && !core.SameStrings(o.Out.Seq, base.Out.Seq):
			mode = "sequence-differs-under-total-order"
		}
		if mode == "" {
			continue
		}
		w := map[string]any{
			"setup_layout_A": setup(tabs), "query": q.SQL(""), "case": ci, "q": qi, "features": q.Features,
			"base_config": "default@A", "base_plan": base.Plan, "base_rows": base.Out.Brief(),
			"other_config": o.Cfg.Name, "other_layout": string(rune('A' + o.Cfg.Layout)), "other_query": q.SQL(o.Cfg.Hint), "other_plan": o.Plan, "other_rows": o.Out.Brief(),
		}
		if mode == "rows-differ" {
			ob, oo := g.MultisetDiff(base.Out.Sorted, o.Out.Sorted)
			w["only_base"], w["only_other"] = core.ClipStrings(ob, 20), core.ClipStrings(oo, 20)
		}
		// which configurations agree with which: helps triage
		var agree, differ []string
		for _, p := range all[1:] {
			if p.Out.SameMultiset(base.Out) {
				agree = append(agree, p.Cfg.Name)
			} else {
				differ = append(differ, p.Cfg.Name)
			}
		}
		w["configs_agreeing_with_base"], w["configs_differing"] = agree, differ
		var per []string
		for _, p := range all {
			var js []string
			for _, op := range g.Operators(p.Plan) {
				if strings.Contains(op, "Join") {
					js = append(js, op)
				}
			}
			n := -1
			if p.Out.OK() {
				n = len(p.Out.Sorted)
			}
			per = append(per, fmt.Sprintf("%s: rows=%d same-as-base=%v joins=%s taints=%v", p.Cfg.Name, n, p.Out.SameMultiset(base.Out), strings.Join(js, "+"), taintsOf(q, p.Plan)))
		}
		w["per_config"] = per
		sig := classify(q, base, o, all, mode)
		r.Violation(sig, w)
		return // one report per query
	}
	if ci%10 == 0 && qi == 0 {
		var fps []string
		for f := range fpsA {
			fps = append(fps, f)
		}
		sort.Strings(fps)
		r.Sample(map[string]any{"query": q.SQL(""), "configs": len(all), "distinct_plans_layout_A": len(fpsA), "rows": len(base.Out.Sorted), "a_plan": core.Clip(base.Plan, 400)})
	}
}

// classify builds the violation signature: known matchers first, else mode + query shape + the join /
// subquery features of the query.
func classify(q g.Query, base, other obs, all []obs, mode string) string {
	if k := matchKnown(q, base, other, all, mode); k != "" {
		return k
	}
	var fs []string
	for _, f := range q.Features {
		if strings.HasPrefix(f, "join:") || strings.HasPrefix(f, "sub:") || strings.HasPrefix(f, "on:") || strings.HasPrefix(f, "derived") || f == "cte" || strings.HasPrefix(f, "agg:") {
			fs = append(fs, f)
		}
	}
	return mode + ":" + q.Shape + "[" + strings.Join(fs, ",") + "]"
}
