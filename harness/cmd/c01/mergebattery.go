package main

import (
	"fmt"
	"strings"

	"verif/harness/core"
)

// mergeBattery drives the join operators on the shape random queries reach too rarely: two tables with
// heavily duplicated join keys (and NULL keys), indexes on both join columns, INNER and LEFT joins whose ON
// clause is an equality plus a residual non-equality predicate, each executed under the join hints
// (MERGE_JOIN, LOOKUP_JOIN, HASH_JOIN, INNER_JOIN, none) and compared with the same query on key-free
// copies of the tables. Merge joins keep per-group state (matched flags, look-ahead) that only duplicate
// keys with a partially matching residual predicate exercise.
func mergeBattery(r *core.Run) {
	n := r.N(60, 1500)
	var mergePlans, leftMergePlans int64
	r.Parallel("merge-battery", n, func(i int) {
		rnd := r.Rand("merge-battery", i)
		e := core.NewEng("d")
		defer e.Close()
		s := e.NewSess()
		s.MustExec("CREATE TABLE l (id INT PRIMARY KEY, k INT, a INT, KEY lk (k))")
		s.MustExec("CREATE TABLE r (id INT PRIMARY KEY, k INT, b INT, KEY rk (k))")
		s.MustExec("CREATE TABLE l0 (id INT, k INT, a INT)")
		s.MustExec("CREATE TABLE r0 (id INT, k INT, b INT)")
		val := func(nullPct int) string {
			if rnd.Intn(100) < nullPct {
				return "NULL"
			}
			return fmt.Sprint(rnd.Intn(3))
		}
		nl, nr := 2+rnd.Intn(6), 2+rnd.Intn(6)
		for k := 1; k <= nl; k++ {
			row := fmt.Sprintf("(%d, %s, %d)", k, val(10), rnd.Intn(4))
			s.MustExec("INSERT INTO l VALUES " + row)
			s.MustExec("INSERT INTO l0 VALUES " + row)
		}
		for k := 1; k <= nr; k++ {
			row := fmt.Sprintf("(%d, %s, %d)", k, val(10), rnd.Intn(4))
			s.MustExec("INSERT INTO r VALUES " + row)
			s.MustExec("INSERT INTO r0 VALUES " + row)
		}
		for q := 0; q < 4; q++ {
			jt := []string{"JOIN", "LEFT JOIN", "LEFT JOIN"}[rnd.Intn(3)]
			resid := []string{"", " AND l.a > r.b", " AND l.a < r.b", " AND l.a >= r.b", " AND l.a <> r.b", " AND l.a = r.b"}[rnd.Intn(6)]
			body := func(lt, rt, hint string) string {
				return fmt.Sprintf("SELECT %sl.id, l.k, l.a, r.id, r.b FROM %s l %s %s r ON l.k = r.k%s", hint, lt, jt, rt, resid)
			}
			ref := s.Exec(body("l0", "r0", ""))
			if ref.Failed() {
				r.Inconclusive("merge-battery:reference-failed:" + ref.ErrClass())
				continue
			}
			want := core.SortedRows(ref.Rows)
			for _, hint := range []string{"", "/*+ MERGE_JOIN(l,r) */ ", "/*+ LOOKUP_JOIN(l,r) */ ", "/*+ HASH_JOIN(l,r) */ ", "/*+ INNER_JOIN(l,r) */ ", "/*+ JOIN_ORDER(r,l) MERGE_JOIN(l,r) */ "} {
				sqlq := body("l", "r", hint)
				plan := s.Plan(sqlq)
				res := s.Exec(sqlq)
				if res.Panic != nil {
					r.Violation(res.Panic.Sig(), map[string]any{"sql": sqlq, "panic": res.Panic.Value})
					continue
				}
				if res.Failed() {
					r.Violation("merge-battery:error-under-hint:"+res.ErrClass(), map[string]any{"sql": sqlq, "err": fmt.Sprint(res.Err), "plan": core.Clip(plan, 500)})
					continue
				}
				op := "other"
				switch {
				case strings.Contains(plan, "LeftOuterMergeJoin"):
					op = "LeftOuterMergeJoin"
					r.Count("merge-battery.left-merge-plans", 1)
					r.Count("merge-battery.merge-plans", 1)
				case strings.Contains(plan, "MergeJoin"):
					op = "MergeJoin"
					r.Count("merge-battery.merge-plans", 1)
				case strings.Contains(plan, "LookupJoin"):
					op = "LookupJoin"
				case strings.Contains(plan, "HashJoin"):
					op = "HashJoin"
				}
				r.Eval(1)
				r.Distinct(fmt.Sprintf("merge-battery|%s|%s|resid=%v", op, jt, resid != ""))
				got := core.SortedRows(res.Rows)
				if !core.SameStrings(got, want) {
					r.Violation("merge-battery:rows-differ-from-keyfree-twin:"+op, map[string]any{"sql": sqlq, "plan": core.Clip(plan, 600),
						"l": core.SortedRows(s.Exec("SELECT * FROM l").Rows), "r": core.SortedRows(s.Exec("SELECT * FROM r").Rows), "expected": want, "got": got})
				}
			}
		}
	})
	_ = mergePlans
	_ = leftMergePlans
	r.Floor(r.Counter("merge-battery.left-merge-plans") > 0, "merge battery never ran under a LeftOuterMergeJoin plan")
	r.Floor(r.Counter("merge-battery.merge-plans") > 0, "merge battery never ran under a MergeJoin plan")
}
