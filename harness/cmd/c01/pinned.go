package main

import (
	"strings"

	"github.com/dolthub/go-mysql-server/sql/memo"

	"verif/harness/core"
	g "verif/harness/g6alib"
)

type pin struct {
	sig   string
	what  string
	setup []string
	body  string // after SELECT
	a, b  config
	want  []string // when set: config a's sorted canonical rows must equal this (b unused)
}

var pins = []pin{
	{"not-in-null-merge-or-lookup-join", "t.a NOT IN (SELECT u.a FROM u) with a NULL in u.a: merge-biased plan (LeftOuterMergeJoin + IS NULL) returns the unmatched rows 2,3; hash plan (LeftOuterHashJoinExcludingNulls) returns none",
		[]string{"CREATE TABLE t (id INT PRIMARY KEY, a INT, KEY ka (a))", "CREATE TABLE u (id INT PRIMARY KEY, a INT, KEY ka (a))",
			"INSERT INTO t VALUES (1,1),(2,2),(3,3)", "INSERT INTO u VALUES (1,1),(2,NULL)"},
		"t.id FROM t WHERE t.a NOT IN (SELECT u.a FROM u)",
		config{Name: "coster:merge-biased", Coster: memo.NewMergeBiasedCoster}, config{Name: "coster:hash-biased", Coster: memo.NewHashBiasedCoster}, nil},
	{"rangeheap-indexscan-drops-filter", "x JOIN y ON x.b BETWEEN y.lo AND y.hi WHERE x.lo = 2 with an index on x.b: the default RangeHeapJoin plan reads x in index order and drops the filter x.lo = 2 (6 rows instead of 4)",
		[]string{"CREATE TABLE x (id INT PRIMARY KEY, b INT, lo INT, KEY kb (b))", "CREATE TABLE y (id INT PRIMARY KEY, lo INT, hi INT)",
			"INSERT INTO x VALUES (1,1,1),(2,2,2),(3,3,3),(4,4,2)", "INSERT INTO y VALUES (1,0,2),(2,2,5),(3,4,4)"},
		"x.id, y.id FROM x INNER JOIN y ON x.b BETWEEN y.lo AND y.hi WHERE x.lo = 2",
		config{Name: "default"}, config{Name: "coster:inner-biased", Coster: memo.NewInnerBiasedCoster}, nil},
	{"mergejoin-multicol-key-null", "m x JOIN m y ON x.a = y.a AND x.b = y.b over rows (NULL,4),(1,4),(3,4) with KEY(b,a): MergeJoin on ((x.b,x.a) = (y.b,y.a)) returns no row, hash join returns 2|2, 3|3",
		[]string{"CREATE TABLE m (id INT PRIMARY KEY, a INT, b INT, KEY kba (b, a))", "INSERT INTO m VALUES (1,NULL,4),(2,1,4),(3,3,4)"},
		"x.id, y.id FROM m x INNER JOIN m y ON x.a = y.a AND x.b = y.b",
		config{Name: "hint:MERGE_JOIN(x,y)", Hint: "MERGE_JOIN(x,y)"}, config{Name: "hint:HASH_JOIN(x,y)", Hint: "HASH_JOIN(x,y)"}, nil},
	{"sort-eliminated-by-other-alias-index", "SELECT x.id FROM t x WHERE x.b IN (SELECT q1.b FROM t q1) AND x.b >= 4 ORDER BY 1 under the inner-biased coster: no Sort node (alias q1 of the same table is read through the primary key), rows come back in the order of index t.b",
		[]string{"CREATE TABLE t (id INT PRIMARY KEY, a INT, b INT, KEY kb (b), KEY ka (a))", "INSERT INTO t VALUES (1,1,5),(2,1,4),(3,0,5),(4,NULL,4)"},
		"x.id FROM t x WHERE x.b IN (SELECT q1.b FROM t q1) AND x.b >= 4 ORDER BY 1",
		config{Name: "coster:inner-biased", Coster: memo.NewInnerBiasedCoster}, config{Name: "default"}, nil},
	{"concat-lookup-drops-filter", "x LEFT JOIN y ON x.id = y.b JOIN z ON (x.a = z.a OR x.b = z.b) WHERE x.id IS NULL (id is the primary key: no row qualifies): with z as the driving table and x looked up through Concat(index b, index a) the filter on x disappears",
		[]string{"CREATE TABLE t2 (id INT PRIMARY KEY, a INT, b INT, KEY k0 (a), KEY k5 (b, a))", "CREATE TABLE t1 (id INT PRIMARY KEY, a INT, b INT, KEY k1 (b))",
			"INSERT INTO t2 VALUES (1,2,0),(2,3,0)", "INSERT INTO t1 VALUES (1,1,4),(2,3,4),(3,NULL,0)"},
		"x.id, y.id, z.id FROM t2 x LEFT JOIN t1 y ON x.id = y.b INNER JOIN t2 z ON (x.a = z.a OR x.b = z.b) WHERE x.id IS NULL",
		config{Name: "hint:JOIN_ORDER(z,x,y)", Hint: "JOIN_ORDER(z,x,y)"}, config{}, []string{}},
	{"where-or-across-three-tables", "t2 x CROSS JOIN t2 y JOIN t1 z ON y.a = z.a AND y.b = z.b WHERE z.a <=> 3 OR y.b <> x.b: the disjunction is attached to the x-y join although it references z (2 rows, or a field-index error, instead of 6)",
		[]string{"CREATE TABLE t1 (id INT PRIMARY KEY, a INT, b INT, KEY k0 (a), KEY k5 (b, a))", "CREATE TABLE t2 (id INT PRIMARY KEY, a INT, b INT, KEY k1 (b), KEY k5 (b, a))",
			"INSERT INTO t1 VALUES (1,NULL,NULL),(2,3,2),(3,NULL,1),(4,3,NULL),(5,3,4),(6,NULL,4),(7,NULL,4),(8,2,0),(9,0,NULL)",
			"INSERT INTO t2 VALUES (1,1,NULL),(2,1,NULL),(3,3,1),(4,2,5),(5,3,4),(6,NULL,4)"},
		"x.id, y.id, z.id FROM t2 x CROSS JOIN t2 y INNER JOIN t1 z ON y.a = z.a AND y.b = z.b WHERE z.a <=> 3 OR y.b <> x.b",
		config{Name: "hint:NO_MERGE_JOIN", Hint: "NO_MERGE_JOIN"}, config{Name: "coster:inner-biased", Coster: memo.NewInnerBiasedCoster}, nil},
	{"nse-join-transitive-equality", "n1 x JOIN n2 y ON x.a <=> y.a JOIN n3 z ON x.a <=> z.a, each table holding (1,NULL),(2,1): the planner infers y.a = z.a from the two null-safe equalities and loses the all-NULL combination 1|1|1",
		[]string{"CREATE TABLE n1 (id INT PRIMARY KEY, a INT)", "CREATE TABLE n2 (id INT PRIMARY KEY, a INT)", "CREATE TABLE n3 (id INT PRIMARY KEY, a INT)",
			"INSERT INTO n1 VALUES (1,NULL),(2,1)", "INSERT INTO n2 VALUES (1,NULL),(2,1)", "INSERT INTO n3 VALUES (1,NULL),(2,1)"},
		"x.id, y.id, z.id FROM n1 x INNER JOIN n2 y ON x.a <=> y.a INNER JOIN n3 z ON x.a <=> z.a",
		config{Name: "default"}, config{}, []string{"1|1|1", "2|2|2"}},
}

// pinned replays the pinned witnesses of the known findings on every run.
func pinned(r *core.Run) {
	for _, p := range pins {
		e := core.NewEng("d")
		s := e.NewSess()
		g.SetupAll(s, p.setup)
		var lay [3]layoutEng
		lay[0] = layoutEng{e, s}
		q := g.Query{Head: "SELECT", Body: p.body}
		q.Ordered = strings.Contains(p.body, "ORDER BY")
		oa := runCfg(lay, q, p.a)
		var ob obs
		var fails bool
		if p.want != nil {
			fails = !oa.Out.OK() || !core.SameStrings(oa.Out.Sorted, p.want)
			ob.Out = g.Outcome{Class: "rows", Sorted: p.want}
		} else {
			ob = runCfg(lay, q, p.b)
			fails = !sameOutcome(q, oa.Out, ob.Out)
		}
		e.Close()
		r.Pinned(p.sig, p.what, fails, map[string]any{"setup": p.setup, "query": q.SQL(""), "config_a": p.a.Name, "rows_a": oa.Out.Brief(), "plan_a": oa.Plan, "config_b": p.b.Name, "rows_b": ob.Out.Brief(), "plan_b": ob.Plan})
	}
}
