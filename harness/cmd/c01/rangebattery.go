package main

import (
	"fmt"
	"strings"

	"verif/harness/core"
)

// rangeBattery: joins whose condition bounds a column of one table between two columns of the other, in all four
// strictness combinations and with values sitting exactly on the bounds. The planner turns these into a RangeHeapJoin by
// default; the same query under INNER_JOIN / HASH_JOIN / LOOKUP_JOIN hints and against cross-joined copies with the
// condition in WHERE must return the same rows.
func rangeBattery(r *core.Run) {
	n := r.N(40, 600)
	r.Parallel("range-battery", n, func(i int) {
		rnd := r.Rand("range-battery", i)
		e := core.NewEng("d")
		defer e.Close()
		s := e.NewSess()
		s.MustExec("CREATE TABLE vals (id INT PRIMARY KEY, v INT, KEY vv (v))")
		s.MustExec("CREATE TABLE rngs (id INT PRIMARY KEY, lo INT, hi INT, KEY rlo (lo))")
		s.MustExec("CREATE TABLE vals0 (id INT, v INT)")
		s.MustExec("CREATE TABLE rngs0 (id INT, lo INT, hi INT)")
		val := func() string {
			if rnd.Intn(8) == 0 {
				return "NULL"
			}
			return fmt.Sprint(rnd.Intn(8))
		}
		for k := 1; k <= 3+rnd.Intn(6); k++ {
			row := fmt.Sprintf("(%d, %s)", k, val())
			s.MustExec("INSERT INTO vals VALUES " + row)
			s.MustExec("INSERT INTO vals0 VALUES " + row)
		}
		for k := 1; k <= 2+rnd.Intn(5); k++ {
			row := fmt.Sprintf("(%d, %s, %s)", k, val(), val())
			s.MustExec("INSERT INTO rngs VALUES " + row)
			s.MustExec("INSERT INTO rngs0 VALUES " + row)
		}
		for q := 0; q < 4; q++ {
			ge := []string{"<=", "<"}[rnd.Intn(2)]
			le := []string{"<=", "<"}[rnd.Intn(2)]
			cond := fmt.Sprintf("r.lo %s v.v AND v.v %s r.hi", ge, le)
			if rnd.Intn(3) == 0 {
				cond = fmt.Sprintf("v.v %s r.hi AND r.lo %s v.v", le, ge)
			}
			jt := []string{"JOIN", "JOIN", "LEFT JOIN"}[rnd.Intn(3)]
			ref := s.Exec(fmt.Sprintf("SELECT v.id, r.id FROM vals0 v %s rngs0 r ON %s", jt, cond))
			if ref.Failed() {
				r.Inconclusive("range-battery:reference-failed:" + ref.ErrClass())
				continue
			}
			want := core.SortedRows(ref.Rows)
			for _, hint := range []string{"", "/*+ INNER_JOIN(v,r) */ ", "/*+ HASH_JOIN(v,r) */ ", "/*+ LOOKUP_JOIN(v,r) */ ", "/*+ JOIN_ORDER(r,v) */ "} {
				sqlq := fmt.Sprintf("SELECT %sv.id, r.id FROM vals v %s rngs r ON %s", hint, jt, cond)
				plan := s.Plan(sqlq)
				res := s.Exec(sqlq)
				if res.Panic != nil {
					r.Violation(res.Panic.Sig(), map[string]any{"sql": sqlq, "panic": res.Panic.Value})
					continue
				}
				if res.Failed() {
					r.Violation("range-battery:error-under-hint:"+res.ErrClass(), map[string]any{"sql": sqlq, "err": fmt.Sprint(res.Err), "plan": core.Clip(plan, 500)})
					continue
				}
				op := "other"
				for _, o := range []string{"RangeHeapJoin", "LookupJoin", "HashJoin", "MergeJoin", "InnerJoin", "LeftOuterJoin", "CrossJoin"} {
					if strings.Contains(plan, o) {
						op = o
						break
					}
				}
				if op == "RangeHeapJoin" {
					r.Count("range-battery.range-heap-plans", 1)
				}
				r.Eval(1)
				r.Distinct(fmt.Sprintf("range-battery|%s|%s|lo%s|hi%s", op, jt, ge, le))
				if got := core.SortedRows(res.Rows); !core.SameStrings(got, want) {
					r.Violation("range-battery:rows-differ-from-keyfree-twin:"+op, map[string]any{"sql": sqlq, "plan": core.Clip(plan, 600),
						"vals": core.SortedRows(s.Exec("SELECT * FROM vals").Rows), "rngs": core.SortedRows(s.Exec("SELECT * FROM rngs").Rows), "expected": want, "got": got})
				}
			}
		}
	})
	r.Floor(r.Counter("range-battery.range-heap-plans") > 0, "range battery never ran under a RangeHeapJoin plan")
}
