package main

import (
	_ "embed"
	"encoding/json"
	"strings"

	"verif/harness/core"
	"verif/harness/g7lib"
)

// Known findings of C02 (see /verif/findings/C02.md). Each is kept from re-alarming either by a
// domain exclusion of the generator (input predicate only; switched on here) or by a signature
// matcher (input class AND observed failure mode), and its pinned witness is replayed on every run.

// applyExclusions switches on the generator's domain exclusions for findings listed via=domain.
func applyExclusions(qc *g7lib.QCfg) {
	qc.NoHavingExprKey = true   // having-scope-table-not-found
	qc.NoHavingOtherTab = true  // having-scope-table-not-found
	qc.NoHavingAliasSort = true // having-orderby-alias-false-error
	qc.NoDistinctOrdinal = true // distinct-orderby-ordinal
	qc.NoInSubNullItem = true   // in-subquery-null-literal-item
	qc.NoCoalesceDecMix = true  // coalesce-decimal-args-forced-to-one-scale
	qc.NoConstFalseOnSub = true // constant-false-on-with-subquery
	qc.NoOuterOnlyInSub = true  // subquery-outer-only-conjunct-hoisted
	qc.NoHashDecScaleMix = true // hash-equality-decimal-scale
	qc.NoIntDecEquality = true  // lookup-join-int-index-decimal-key-rounded
	qc.NoDecScaleCompare = true // decimal-compare-right-operand-rounded-to-left-scale
	qc.NoNullArith = true       // (guard, not a finding) NULL literal arithmetic is typed DOUBLE
	qc.NoOnNullableInner = true // inner-join-on-nullable-side-conjunct-lost (F17)
	qc.NoInnerAfterOuter = true // join-after-outer-join-filter-misplaced (F17 family)
	qc.NoRangeJoinOn = true     // range-heap-join-drops-where-filter
}

// schemaExclusions switches on the schema generator's exclusions.
func schemaExclusions(c *g7lib.Cfg) {
	c.NoDecIndex = true // decimal-index-not-equal-drops-filter
}

func hasFeature(w *witness, f string) bool {
	for _, x := range w.Features {
		if x == f {
			return true
		}
	}
	return false
}

// classify gives a disagreement its signature: the failure mode plus the input class (join /
// subquery / grouping / set-operator features). Known findings have dedicated matchers first.
func classify(q *g7lib.Query, d *g7lib.Diff, w *witness, ev *g7lib.Evaluator, env *g7lib.Env) string {
	// merge-join-wrong-result: the plan uses a [LeftOuter]MergeJoin and the same query on the same
	// session with @@disable_merge_join = 1 agrees with the reference.
	if strings.Contains(w.Plan, "MergeJoin") {
		env.Sess.Exec("SET @@disable_merge_join = 1")
		res := env.Sess.Exec(w.SQL)
		env.Sess.Exec("SET @@disable_merge_join = 0")
		if !res.Failed() {
			if ref, err := ev.Query(q); err == nil && g7lib.Compare(q, res.Rows, ref) == nil {
				return "merge-join-wrong-result"
			}
		}
	}
	// sort-elided-wrong-order: ORDER BY present, the plan has neither a Sort nor a TopN node (the sort
	// was replaced by an index-ordered scan below a join) and the rows are the right multiset in the
	// wrong order (or, under LIMIT, a wrong slice of the right multiset).
	if q.SetOp == "" && len(q.OrderBy) > 0 && !strings.Contains(w.Plan, "Sort(") && !strings.Contains(w.Plan, "TopN(") {
		if d.Mode == "order" {
			return "sort-elided-wrong-order"
		}
		if d.Mode == "sequence" {
			q0 := *q
			q0.Offset, q0.Limit = -1, -1
			if full, err := ev.Query(&q0); err == nil {
				cnt := map[string]int{}
				for _, k := range g7lib.RowKeys(full) {
					cnt[k]++
				}
				ok := true
				for _, k := range d.Extra {
					if cnt[k] == 0 {
						ok = false
					}
					cnt[k]--
				}
				if ok {
					return "sort-elided-wrong-order"
				}
			}
		}
	}
	// setop-offset-before-sort: a set operation with ORDER BY .. LIMIT n OFFSET m>0 whose engine
	// result has the right length min(n, max(0, total-m)), is sorted on the keys and is a sub-multiset
	// of the un-limited reference result, but is not the slice [m, m+n) (the engine skips m rows before
	// it sorts).
	if q.SetOp != "" && q.Limit >= 0 && q.Offset > 0 && d.Mode == "sequence" {
		q0 := *q
		q0.Offset, q0.Limit = -1, -1
		if full, err := ev.Query(&q0); err == nil {
			try := func(keys []string) bool {
				want := len(keys) - q.Offset
				if want < 0 {
					want = 0
				}
				if want > q.Limit {
					want = q.Limit
				}
				cnt := map[string]int{}
				for _, k := range keys {
					cnt[k]++
				}
				ok := len(d.Extra) == want
				for _, k := range d.Extra { // Extra = engine sequence in this mode
					if cnt[k] == 0 {
						ok = false
					}
					cnt[k]--
				}
				return ok && g7lib.SortedOnKeys(q, w.rawRows)
			}
			keys := g7lib.RowKeys(full)
			if try(keys) {
				return "setop-offset-before-sort"
			}
			if q.SetOp == "EXCEPT" && q.Width() == 1 {
				for i, k := range keys {
					if k == "''" {
						if try(append(append([]string{}, keys[:i]...), keys[i+1:]...)) {
							return "except-phantom-empty-row+offset-before-sort"
						}
						break
					}
				}
			}
		}
	}
	// except-phantom-empty-row: single-column EXCEPT [ALL] that loses exactly one row '' (the empty
	// string) and nothing else: ExceptIter also hashes the nil row it gets with io.EOF.
	if q.SetOp == "EXCEPT" && q.Width() == 1 && len(d.Extra) == 0 && len(d.Missing) == 1 && d.Missing[0] == "''" && d.Mode == "missing-rows" {
		return "except-phantom-empty-row"
	}
	if q.SetOp == "EXCEPT" && q.Width() == 1 && d.Mode == "sequence" {
		// the same under LIMIT: the engine sequence is the un-limited reference sequence minus one '' , sliced
		q0 := *q
		q0.Offset, q0.Limit = -1, -1
		if full, err := ev.Query(&q0); err == nil {
			keys := g7lib.RowKeys(full)
			for i, k := range keys {
				if k == "''" {
					keys = append(append([]string{}, keys[:i]...), keys[i+1:]...)
					off := 0
					if q.Offset > 0 {
						off = q.Offset
					}
					if off > len(keys) {
						off = len(keys)
					}
					keys = keys[off:]
					if len(keys) > q.Limit {
						keys = keys[:q.Limit]
					}
					if core.SameStrings(keys, d.Extra) {
						return "except-phantom-empty-row"
					}
					break
				}
			}
		}
	}
	return "mismatch:" + d.Mode + ":" + featureClass(w.Features)
}

// classifyError gives an engine error on a valid query of the fragment its signature.
func classifyError(q *g7lib.Query, err error, w *witness) string {
	msg := err.Error()
	switch {
	case strings.HasPrefix(msg, "table not found: x") && hasFeature(w, "having"):
		// residual of the domain exclusion (e.g. inside a subquery block)
		return "having-scope-table-not-found"
	case strings.HasPrefix(msg, "Out of range value for column of Decimal type") && onHasNegativeDecimal(q):
		return "outer-join-on-negative-decimal-literal:out-of-range-error"
	case strings.Contains(msg, "unable to find field with index") && (maxFrom(q) >= 3 || hasFeature(w, "subquery-in-on")):
		return "planner:field-index-error"
	case strings.Contains(msg, "failed to replan join: unknown type for rel output cols: *memo.TableAlias") && q.Depth() >= 2:
		return "nested-subquery:replan-join-tablealias-error"
	}
	return "error:" + core.StripVolatile(msg)
}

// onHasNegativeDecimal reports whether some ON condition of an outer join compares with a negative
// DECIMAL literal.
func onHasNegativeDecimal(q *g7lib.Query) bool {
	hit := false
	var visit func(x *g7lib.Query)
	visit = func(x *g7lib.Query) {
		if x.SetOp != "" {
			visit(x.L)
			visit(x.R)
			return
		}
		for _, f := range x.From {
			if f.On != nil && (f.Join == "LEFT" || f.Join == "RIGHT") {
				f.On.Walk(func(e *g7lib.Expr) {
					if e.Op == "lit" && e.V.K == g7lib.KDec && e.V.N.Sign() < 0 {
						hit = true
					}
				})
			}
		}
		x.DirectSubqueries(visit)
	}
	visit(q)
	return hit
}

// maxFrom is the largest FROM list of the query, nested blocks included.
func maxFrom(q *g7lib.Query) int {
	m := 0
	var visit func(x *g7lib.Query)
	visit = func(x *g7lib.Query) {
		if x.SetOp != "" {
			visit(x.L)
			visit(x.R)
			return
		}
		if len(x.From) > m {
			m = len(x.From)
		}
		x.DirectSubqueries(visit)
	}
	visit(q)
	return m
}

// classifyPanic maps a panic to its signature (signatures in the findings file cannot contain blanks).
func classifyPanic(p *core.PanicInfo) string {
	if p.Site == "sql/analyzer.replanJoin.func1" && strings.Contains(p.Value, "index out of range") {
		return "panic:analyzer.replanJoin:index-out-of-range"
	}
	return strings.ReplaceAll(p.Sig(), " ", "_")
}

// ---- pinned witnesses ----

var pinSetup = []string{
	"CREATE TABLE t (id INT NOT NULL, a INT, b INT, d DECIMAL(8,2), s VARCHAR(8) COLLATE utf8mb4_0900_bin, PRIMARY KEY (id))",
	"CREATE TABLE u (id INT NOT NULL, a INT, b INT, d DECIMAL(8,2), s VARCHAR(8) COLLATE utf8mb4_0900_bin, PRIMARY KEY (id), KEY ka (a))",
	"INSERT INTO t VALUES (1,1,1,1.50,'a')", "INSERT INTO t VALUES (2,NULL,2,NULL,'A')", "INSERT INTO t VALUES (3,2,2,2.25,NULL)",
	"INSERT INTO t VALUES (4,10,3,10.00,'a ')", "INSERT INTO t VALUES (5,5,3,0.05,'b')",
	"INSERT INTO u VALUES (1,1,1,1.50,'a')", "INSERT INTO u VALUES (2,NULL,2,NULL,'B')", "INSERT INTO u VALUES (3,3,2,2.25,NULL)",
	"INSERT INTO u VALUES (4,7,7,7.00,'')",
	"CREATE TABLE v (id INT NOT NULL, d DECIMAL(8,2), PRIMARY KEY (id), KEY kd (d))",
	"INSERT INTO v VALUES (1,1.50)", "INSERT INTO v VALUES (2,NULL)", "INSERT INTO v VALUES (3,2.25)", "INSERT INTO v VALUES (4,10.00)",
	"CREATE TABLE w (id INT NOT NULL, a INT, b INT, d DECIMAL(8,2), s VARCHAR(8) COLLATE utf8mb4_0900_bin, PRIMARY KEY (id), KEY k0 (a), KEY k2 (a, b), KEY k3 (s))",
	"INSERT INTO w VALUES (-2, -1, -1, 0.05, 'b')", "INSERT INTO w VALUES (-1, 2, 10, 2.25, 'a')", "INSERT INTO w VALUES (0, NULL, 10, 1.00, '1')", "INSERT INTO w VALUES (1, 2, -1, NULL, '1')",
	"INSERT INTO w VALUES (2, 3, NULL, 2.00, '')", "INSERT INTO w VALUES (4, 1, NULL, 2.00, '0')", "INSERT INTO w VALUES (5, 0, 3, 10.00, 'ab')", "INSERT INTO w VALUES (6, 1, 0, 10.00, 'Ab')",
}

type pin struct {
	sig, what string
	w         witness
}

func pins() []pin {
	mk := func(sig, what, sql string, seq bool, expected ...string) pin {
		return pin{sig, what, witness{Case: "pinned:" + sig, Setup: pinSetup, SQL: sql, Expected: expected, Sequence: seq}}
	}
	return []pin{
		mk("having-scope-table-not-found", "HAVING over an aggregate of a table other than the first of the FROM list (or over a GROUP BY key that is an expression) fails with 'table not found'",
			"SELECT MAX(x.s) AS c0 FROM t x INNER JOIN u y ON (x.a = y.a) GROUP BY x.s HAVING (MAX(y.a) IS NOT NULL)", false, "'a'"),
		mk("having-orderby-alias-false-error", "grouped query with HAVING sorted by the alias of an expression item is rejected (false ONLY_FULL_GROUP_BY error)",
			"SELECT x.a AS c0, (MAX(x.id) - 1) AS c1 FROM t x GROUP BY x.a HAVING (COUNT(*) > 0) ORDER BY c1, c0 LIMIT 10", true, "1|0", "NULL|1", "2|2", "10|3", "5|4"),
		mk("distinct-orderby-ordinal", "SELECT DISTINCT sorted by ordinal: wrong order / wrong LIMIT slice / 'unable to sort' error",
			"SELECT DISTINCT ((x.d * x.d) + 1.10) AS c0 FROM t x ORDER BY 1 DESC LIMIT 1", true, "101.1"),
		mk("setop-offset-before-sort", "UNION [ALL] with ORDER BY .. LIMIT n OFFSET m skips the m rows before sorting",
			"(SELECT x.a AS c0 FROM t x) UNION ALL (SELECT y.b AS c0 FROM t y) ORDER BY c0 LIMIT 2 OFFSET 1", true, "1", "1"),
		mk("in-subquery-null-literal-item", "x NOT IN (SELECT NULL FROM ..) is TRUE instead of NULL",
			"SELECT x.id AS c0 FROM t x WHERE (NOT (x.b IN (SELECT NULL AS c0 FROM u y)))", false),
		mk("coalesce-decimal-args-forced-to-one-scale", "COALESCE over DECIMAL arguments of different precision/scale rounds the value to one argument's type (or fails with out-of-range)",
			"SELECT x.id AS c0 FROM t x WHERE (COALESCE(x.d, 0.0) = 2.25)", false, "3"),
		mk("subquery-outer-only-conjunct-hoisted", "a subquery WHERE conjunct that references only outer columns is evaluated as a filter of the outer query (wrong for NOT IN / NOT EXISTS / scalar aggregates / NULL)",
			"SELECT x.id AS c0 FROM u x WHERE (x.b IN (SELECT (COUNT(*) + 1) AS c0 FROM t y WHERE (x.s = 'zzz')))", false, "1"),
		mk("hash-equality-decimal-scale", "IN (subquery), set operations and DISTINCT compare DECIMAL values of different scale (2.25 vs 2.2500) and INT vs BOOLEAN as unequal",
			"SELECT x.id AS c0 FROM t x WHERE (x.d IN (SELECT (y.d * 1.00) AS c0 FROM u y))", false, "1", "3"),
		mk("lookup-join-int-index-decimal-key-rounded", "INT column = DECIMAL column as a join condition: the lookup into the integer index rounds the decimal key (2 matches 1.50 and 2.25)",
			"SELECT x.id AS c0, y.id AS c1 FROM t x INNER JOIN u y ON (x.id = y.d)", false),
		mk("decimal-compare-right-operand-rounded-to-left-scale", "DECIMAL(8,2) column compared with a decimal value of larger scale: the right operand is rounded to the left operand's scale (0.05 = 0.0525 is TRUE)",
			"SELECT x.id AS c0 FROM t x WHERE (x.d = ((x.d * x.d) + x.d))", false),
		mk("inner-join-on-nullable-side-conjunct-lost", "a LEFT JOIN b .. INNER JOIN c ON (.. AND <predicate on b>): join reordering drops the conjunct on the nullable table (F17)",
			"SELECT x.id AS c0, z.id AS c1 FROM t x LEFT JOIN u y ON (x.b = y.b) INNER JOIN u z ON ((x.id = z.b) AND (y.a <> y.d))", false, "1|1", "2|2", "2|3"),
		mk("decimal-index-not-equal-drops-filter", "dec_col <> literal (or NOT (dec_col = literal)) on a DECIMAL column with a secondary index: the index range becomes (NULL, inf) and the conjunct disappears, so the row equal to the literal is returned",
			"SELECT x.id AS c0 FROM v x WHERE (x.d <> 2.25)", false, "1", "4"),
		mk("outer-join-on-negative-decimal-literal:out-of-range-error", "LEFT/RIGHT JOIN whose ON has col = <negative DECIMAL literal> next to an equi-join key fails with 'Out of range value for column of Decimal type'",
			"SELECT x.id AS c0, y.id AS c1 FROM u x LEFT JOIN t y ON ((x.id = y.b) AND (y.d = (-1.50)))", false, "1|NULL", "2|NULL", "3|NULL", "4|NULL"),
		mk("merge-join-wrong-result", "[LeftOuter]MergeJoin over two index scans returns wrong rows / wrong order (agrees with the reference once @@disable_merge_join = 1)",
			"SELECT x6.s AS c0, (x6.b * x6.a) AS c1, x6.d AS c2, COALESCE(x7.s, x6.s) AS c3 FROM w x6 INNER JOIN w x7 ON (x6.s = x7.s) WHERE (x6.d IN (10.00, 0.05, 3.00)) ORDER BY 1 DESC", false, "'b'|1|0.05|'b'", "'ab'|0|10|'ab'", "'Ab'|0|10|'Ab'"),
		mk("join-after-outer-join-filter-misplaced", "(a CROSS JOIN b) RIGHT JOIN c ON .. WHERE p(a,b): the WHERE conjunct is pushed below the outer join, NULL-padded rows that WHERE must remove survive (F17 family)",
			"SELECT z.id AS c0, x.id AS c1 FROM t x CROSS JOIN u y RIGHT JOIN u z ON (y.d = z.d) WHERE (x.s = y.s)", false, "1|1"),
		mk("except-phantom-empty-row", "single-column EXCEPT [ALL] removes one row '' (empty string) too many: ExceptIter hashes the nil row returned with io.EOF",
			"(SELECT x.s AS c0 FROM u x) EXCEPT ALL (SELECT y.s AS c0 FROM t y)", false, "'B'", "''"),
		mk("constant-false-on-with-subquery", "a join whose ON condition is constant false combined with a subquery predicate fails ('failed to replan join: ... *memo.EmptyTable' / 'unable to find field with index')",
			"SELECT x.id AS c0 FROM t x LEFT JOIN u y ON (1 = 0) WHERE (NOT EXISTS (SELECT z.d AS c0 FROM u z WHERE (y.b = z.d)))", false, "1", "2", "3", "4", "5"),
	}
}

//go:embed pins.json
var pinsJSON []byte

// filePins are pinned witnesses that need their own generated schema (kept verbatim in pins.json).
func filePins() []pin {
	var raw []struct {
		Sig, What, Case, SQL string
		Setup, Expected     []string
		Sequence            bool
		OrderBy             []g7lib.OrderKey
	}
	if err := json.Unmarshal(pinsJSON, &raw); err != nil {
		panic("pins.json: " + err.Error())
	}
	var out []pin
	for _, x := range raw {
		out = append(out, pin{x.Sig, x.What, witness{Case: x.Case, Setup: x.Setup, SQL: x.SQL, Expected: x.Expected, Sequence: x.Sequence, OrderBy: x.OrderBy}})
	}
	return out
}

func pinned(r *core.Run) {
	for _, p := range append(pins(), filePins()...) {
		fails, got, errText := rerun(&p.w)
		w := p.w
		w.Actual, w.Error = got, errText
		what := p.what + " [" + p.w.SQL + "]"
		r.Pinned(p.sig, what, fails, &w)
		if !fails {
			r.Count("pinned-no-longer-failing:"+p.sig, 1)
		}
	}
}
