package main

import (
	"verif/harness/core"
	"verif/harness/g7lib"
)

// applyExclusions switches on the generator's domain exclusions for findings listed via=domain.
func applyExclusions(qc *g7lib.QCfg) {
	qc.NoHavingExprKey = true
	qc.NoInSubNullItem = true
	qc.NoCoalesceDecMix = true
}

// classify gives a disagreement its signature: the failure mode plus the input class (join /
// subquery / grouping / set-operator features). Known findings have dedicated matchers first.
func classify(q *g7lib.Query, d *g7lib.Diff, w *witness) string {
	return "mismatch:" + d.Mode + ":" + featureClass(w.Features)
}

func pinned(r *core.Run) {}
