package main

import (
	"strings"

	"verif/harness/core"
	"verif/harness/g7lib"
)

// Known findings of C02 (see /verif/findings/C02.md). Each is kept from re-alarming either by a
// domain exclusion of the generator (input predicate only; switched on here) or by a signature
// matcher (input class AND observed failure mode), and its pinned witness is replayed on every run.

// applyExclusions switches on the generator's domain exclusions for findings listed via=domain.
func applyExclusions(qc *g7lib.QCfg) {
	qc.NoHavingExprKey = true   // having-scope-table-not-found
	qc.NoHavingOtherTab = true  // having-scope-table-not-found
	qc.NoHavingAliasSort = true // having-orderby-alias-false-error
	qc.NoDistinctOrdinal = true // distinct-orderby-ordinal
	qc.NoInSubNullItem = true   // in-subquery-null-literal-item
	qc.NoCoalesceDecMix = true  // coalesce-decimal-args-forced-to-one-scale
	qc.NoConstFalseOnSub = true // constant-false-on-with-subquery
	qc.NoOuterOnlyInSub = true  // subquery-outer-only-conjunct-hoisted
	qc.NoHashDecScaleMix = true // hash-equality-decimal-scale
	qc.NoIntDecEquality = true  // lookup-join-int-index-decimal-key-rounded
	qc.NoDecScaleCompare = true // decimal-compare-right-operand-rounded-to-left-scale
	qc.NoNullArith = true       // (guard, not a finding) NULL literal arithmetic is typed DOUBLE
	qc.NoOnNullableInner = true // inner-join-on-nullable-side-conjunct-lost (F17)
}

func hasFeature(w *witness, f string) bool {
	for _, x := range w.Features {
		if x == f {
			return true
		}
	}
	return false
}

// classify gives a disagreement its signature: the failure mode plus the input class (join /
// subquery / grouping / set-operator features). Known findings have dedicated matchers first.
func classify(q *g7lib.Query, d *g7lib.Diff, w *witness, ev *g7lib.Evaluator) string {
	// setop-offset-before-sort: a set operation with ORDER BY .. LIMIT n OFFSET m>0 whose engine
	// result has the right length min(n, max(0, total-m)), is sorted on the keys and is a sub-multiset
	// of the un-limited reference result, but is not the slice [m, m+n) (the engine skips m rows before
	// it sorts).
	if q.SetOp != "" && q.Limit >= 0 && q.Offset > 0 && d.Mode == "sequence" {
		q0 := *q
		q0.Offset, q0.Limit = -1, -1
		if full, err := ev.Query(&q0); err == nil {
			want := len(full) - q.Offset
			if want < 0 {
				want = 0
			}
			if want > q.Limit {
				want = q.Limit
			}
			cnt := map[string]int{}
			for _, k := range g7lib.RowKeys(full) {
				cnt[k]++
			}
			ok := len(d.Extra) == want
			for _, k := range d.Extra { // Extra = engine sequence in this mode
				if cnt[k] == 0 {
					ok = false
				}
				cnt[k]--
			}
			if ok && g7lib.SortedOnKeys(q, w.rawRows) {
				return "setop-offset-before-sort"
			}
		}
	}
	// except-phantom-empty-row: single-column EXCEPT [ALL] that loses exactly one row '' (the empty
	// string) and nothing else: ExceptIter also hashes the nil row it gets with io.EOF.
	if q.SetOp == "EXCEPT" && q.Width() == 1 && len(d.Extra) == 0 && len(d.Missing) == 1 && d.Missing[0] == "''" && d.Mode == "missing-rows" {
		return "except-phantom-empty-row"
	}
	return "mismatch:" + d.Mode + ":" + featureClass(w.Features)
}

// classifyError gives an engine error on a valid query of the fragment its signature.
func classifyError(q *g7lib.Query, err error, w *witness) string {
	msg := err.Error()
	switch {
	case strings.HasPrefix(msg, "table not found: x") && hasFeature(w, "having"):
		// residual of the domain exclusion (e.g. inside a subquery block)
		return "having-scope-table-not-found"
	}
	return "error:" + core.StripVolatile(msg)
}

// ---- pinned witnesses ----

var pinSetup = []string{
	"CREATE TABLE t (id INT NOT NULL, a INT, b INT, d DECIMAL(8,2), s VARCHAR(8) COLLATE utf8mb4_0900_bin, PRIMARY KEY (id))",
	"CREATE TABLE u (id INT NOT NULL, a INT, b INT, d DECIMAL(8,2), s VARCHAR(8) COLLATE utf8mb4_0900_bin, PRIMARY KEY (id), KEY ka (a))",
	"INSERT INTO t VALUES (1,1,1,1.50,'a')", "INSERT INTO t VALUES (2,NULL,2,NULL,'A')", "INSERT INTO t VALUES (3,2,2,2.25,NULL)",
	"INSERT INTO t VALUES (4,10,3,10.00,'a ')", "INSERT INTO t VALUES (5,5,3,0.05,'b')",
	"INSERT INTO u VALUES (1,1,1,1.50,'a')", "INSERT INTO u VALUES (2,NULL,2,NULL,'B')", "INSERT INTO u VALUES (3,3,2,2.25,NULL)",
	"INSERT INTO u VALUES (4,7,7,7.00,'')",
}

type pin struct {
	sig, what string
	w         witness
}

func pins() []pin {
	mk := func(sig, what, sql string, seq bool, expected ...string) pin {
		return pin{sig, what, witness{Case: "pinned:" + sig, Setup: pinSetup, SQL: sql, Expected: expected, Sequence: seq}}
	}
	return []pin{
		mk("having-scope-table-not-found", "HAVING over an aggregate of a table other than the first of the FROM list (or over a GROUP BY key that is an expression) fails with 'table not found'",
			"SELECT MAX(x.s) AS c0 FROM t x INNER JOIN u y ON (x.a = y.a) GROUP BY x.s HAVING (MAX(y.a) IS NOT NULL)", false, "'a'"),
		mk("having-orderby-alias-false-error", "grouped query with HAVING sorted by the alias of an expression item is rejected (false ONLY_FULL_GROUP_BY error)",
			"SELECT x.a AS c0, (MAX(x.id) - 1) AS c1 FROM t x GROUP BY x.a HAVING (COUNT(*) > 0) ORDER BY c1, c0 LIMIT 10", true, "1|0", "NULL|1", "2|2", "10|3", "5|4"),
		mk("distinct-orderby-ordinal", "SELECT DISTINCT sorted by ordinal: wrong order / wrong LIMIT slice / 'unable to sort' error",
			"SELECT DISTINCT ((x.d * x.d) + 1.10) AS c0 FROM t x ORDER BY 1 DESC LIMIT 1", true, "101.1"),
		mk("setop-offset-before-sort", "UNION [ALL] with ORDER BY .. LIMIT n OFFSET m skips the m rows before sorting",
			"(SELECT x.a AS c0 FROM t x) UNION ALL (SELECT y.b AS c0 FROM t y) ORDER BY c0 LIMIT 2 OFFSET 1", true, "1", "1"),
		mk("in-subquery-null-literal-item", "x NOT IN (SELECT NULL FROM ..) is TRUE instead of NULL",
			"SELECT x.id AS c0 FROM t x WHERE (NOT (x.b IN (SELECT NULL AS c0 FROM u y)))", false),
		mk("coalesce-decimal-args-forced-to-one-scale", "COALESCE over DECIMAL arguments of different precision/scale rounds the value to one argument's type (or fails with out-of-range)",
			"SELECT x.id AS c0 FROM t x WHERE (COALESCE(x.d, 0.0) = 2.25)", false, "3"),
		mk("subquery-outer-only-conjunct-hoisted", "a subquery WHERE conjunct that references only outer columns is evaluated as a filter of the outer query (wrong for NOT IN / NOT EXISTS / scalar aggregates / NULL)",
			"SELECT x.id AS c0 FROM t x WHERE (x.b >= (SELECT COUNT(*) AS c0 FROM u y WHERE (x.s <> 'a')))", false, "1", "3"),
		mk("hash-equality-decimal-scale", "IN (subquery), set operations and DISTINCT compare DECIMAL values of different scale (2.25 vs 2.2500) and INT vs BOOLEAN as unequal",
			"SELECT x.id AS c0 FROM t x WHERE (x.d IN (SELECT (y.d * 1.00) AS c0 FROM u y))", false, "1", "3"),
		mk("lookup-join-int-index-decimal-key-rounded", "INT column = DECIMAL column as a join condition: the lookup into the integer index rounds the decimal key (2 matches 1.50 and 2.25)",
			"SELECT x.id AS c0, y.id AS c1 FROM t x INNER JOIN u y ON (x.id = y.d)", false),
		mk("decimal-compare-right-operand-rounded-to-left-scale", "DECIMAL(8,2) column compared with a decimal value of larger scale: the right operand is rounded to the left operand's scale (0.05 = 0.0525 is TRUE)",
			"SELECT x.id AS c0 FROM t x WHERE (x.d = ((x.d * x.d) + x.d))", false),
		mk("inner-join-on-nullable-side-conjunct-lost", "a LEFT JOIN b .. INNER JOIN c ON (.. AND <predicate on b>): join reordering drops the conjunct on the nullable table (F17)",
			"SELECT x.id AS c0, z.id AS c1 FROM t x LEFT JOIN u y ON (x.b = y.b) INNER JOIN u z ON ((x.id = z.b) AND (y.a <> y.d))", false, "1|1", "2|2", "2|3"),
		mk("except-phantom-empty-row", "single-column EXCEPT [ALL] removes one row '' (empty string) too many: ExceptIter hashes the nil row returned with io.EOF",
			"(SELECT x.s AS c0 FROM u x) EXCEPT ALL (SELECT y.s AS c0 FROM t y)", false, "'B'", "''"),
		mk("constant-false-on-with-subquery", "a join whose ON condition is constant false combined with a subquery predicate fails ('failed to replan join: ... *memo.EmptyTable' / 'unable to find field with index')",
			"SELECT x.id AS c0 FROM t x LEFT JOIN u y ON (1 = 0) WHERE (NOT EXISTS (SELECT z.d AS c0 FROM u z WHERE (y.b = z.d)))", false, "1", "2", "3", "4", "5"),
	}
}

func pinned(r *core.Run) {
	for _, p := range pins() {
		fails, got, errText := rerun(&p.w)
		w := p.w
		w.Actual, w.Error = got, errText
		what := p.what + " [" + p.w.SQL + "]"
		r.Pinned(p.sig, what, fails, &w)
		if !fails {
			r.Count("pinned-no-longer-failing:"+p.sig, 1)
		}
	}
}
