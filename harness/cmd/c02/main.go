// C02 — query results match the SQL definition of the query.
// Oracle: the g7lib reference evaluator (naive nested loops, math/big, Kleene 3VL, MySQL NULL rules)
// evaluates the same generated AST over the rows the engine returned for SELECT * after setup; the
// engine's result must equal it as a multiset, be sorted on the ORDER BY keys, and be the exact
// sequence when LIMIT/OFFSET is present (the generator then orders by every output column).
package main

import (
	"encoding/json"
	"fmt"
	"os"
	"sort"
	"strconv"
	"strings"
	"sync"

	"github.com/dolthub/go-mysql-server/sql"

	"verif/harness/core"
	"verif/harness/g7lib"
)

const queriesPerDB = 8

// witness is everything needed to replay one case without the generator.
type witness struct {
	Case     string   `json:"case"`
	Setup    []string `json:"setup"`
	SQL      string   `json:"sql"`
	Expected []string `json:"expected"` // reference rows (canonical text), in reference order
	Actual   []string `json:"actual"`
	Sequence bool     `json:"sequence"` // LIMIT present: compare as sequences
	OrderBy  []g7lib.OrderKey `json:"orderby,omitempty"` // the engine rows must be sorted on these keys
	Approx   []bool   `json:"approx,omitempty"`
	Mode     string   `json:"mode"`
	Extra    []string `json:"extra,omitempty"`
	Missing  []string `json:"missing,omitempty"`
	Note     string   `json:"note,omitempty"`
	Error    string   `json:"error,omitempty"`
	Plan     string   `json:"plan,omitempty"`
	Features []string `json:"features,omitempty"`
	rawRows  []sql.Row
}

func main() {
	if len(os.Args) > 1 && os.Args[1] == "probe" {
		g7lib.Probe(os.Stdin, os.Stdout, len(os.Args) > 2 && os.Args[2] == "plan")
		return
	}
	if len(os.Args) > 3 && os.Args[1] == "xcheck" {
		n, _ := strconv.Atoi(os.Args[2])
		seed, _ := strconv.ParseInt(os.Args[3], 10, 64)
		g7lib.XCheck(os.Stdout, n, seed, len(os.Args) > 4 && os.Args[4] == "deep")
		return
	}
	r := core.NewRun("C02", "exploration",
		"each evaluation is one generated query (3VL filters, inner/left/right/cross joins, [NOT] IN / [NOT] EXISTS / scalar subqueries correlated or not, GROUP BY + COUNT/SUM/MIN/MAX/AVG + HAVING, DISTINCT, UNION/INTERSECT/EXCEPT [ALL], ORDER BY, LIMIT/OFFSET over INT, DECIMAL(8,2) and binary-collated VARCHAR columns with NULLs and duplicates) whose engine result is compared with an independent reference evaluation of the same AST over the rows read back from the engine; distinct = distinct syntactic feature sets of queries with a non-empty result")
	r.Fold(8, 3)
	r.Assume("the reference evaluator was cross-checked at construction time against SQLite 3.40 on the common fragment (17 600 generated queries, the only disagreement being a SQLite RIGHT JOIN defect)")
	r.Assume("six of every seven databases carry queries with <= 2 tables per FROM list and subquery depth <= 1; every seventh goes to <= 4 tables and depth <= 3 (DESIGN 1.3)")
	r.Assume("excluded by construction: division, floats, AVG outside the select list, implicit string<->number comparison, string literals compared with anything but a column, LIMIT without a total order, arithmetic mixing SUM(INT) with decimals, int column vs fractional literal (F10/F11)")
	r.Assume("input classes excluded from the core domain because of known findings (via=domain in findings/C02.txt; a new break confined to one of them is not seen, only its pinned witness is replayed): HAVING over an aggregate of a non-first table or over an expression key; ORDER BY <alias of an expression> in a grouped query with HAVING; SELECT DISTINCT sorted by ordinal; NULL literal / NULL-only expression as the item of an IN subquery; COALESCE over DECIMALs of different scale; a subquery leaf predicate referencing outer columns only; DECIMAL values of different scale (or INT vs BOOLEAN, DECIMAL vs SUM) in IN-subqueries, set operations, DISTINCT and comparisons; INT = DECIMAL column equality; secondary indexes led by a DECIMAL column; constant-false ON in a block with or inside a subquery; an inner / cross / right join after an outer join; x BETWEEN col AND col inside ON")
	r.Extra("excluded_input_classes", []string{"having-scope-table-not-found", "having-orderby-alias-false-error", "distinct-orderby-ordinal", "in-subquery-null-literal-item", "coalesce-decimal-args-forced-to-one-scale", "subquery-outer-only-conjunct-hoisted", "hash-equality-decimal-scale", "lookup-join-int-index-decimal-key-rounded", "decimal-compare-right-operand-rounded-to-left-scale", "decimal-index-not-equal-drops-filter", "constant-false-on-with-subquery", "inner-join-on-nullable-side-conjunct-lost", "join-after-outer-join-filter-misplaced", "range-heap-join-drops-where-filter"})
	if r.Replay != "" {
		replay(r, r.Replay)
		r.Finish()
	}
	n := r.N(250, 7500)
	r.Parallel("db", n, func(i int) { runDB(r, i) })
	setopBattery(r)
	pinned(r)
	floors(r)
	r.Finish()
}

func runDB(r *core.Run, i int) {
	rnd := r.Rand("db", i)
	deep := i%7 == 3
	cfg := g7lib.Cfg{Tables: 3, MaxRows: 8}
	qc := g7lib.QCfg{MaxFrom: 2, SubDepth: 1, SubFrom: 1}
	if deep {
		cfg = g7lib.Cfg{Tables: 4, MaxRows: 5}
		qc = g7lib.QCfg{MaxFrom: 4, SubDepth: 2 + rnd.Intn(2), SubFrom: 2}
	}
	applyExclusions(&qc)
	schemaExclusions(&cfg)
	sch := g7lib.GenSchema(rnd, cfg)
	env, err := g7lib.Load(sch)
	if err != nil {
		r.Violation("setup-failed", map[string]any{"case": i, "error": err.Error(), "setup": sch.Setup})
		return
	}
	defer env.Close()
	g := g7lib.NewGen(rnd, env.Ref, qc)
	ev := &g7lib.Evaluator{DB: env.Ref}
	for k := 0; k < queriesPerDB; k++ {
		q := g.Query()
		judge(r, env, ev, q, fmt.Sprintf("%s/%d/db%d/q%d", r.Tier, r.CaseSeed(), i, k), deep)
	}
}

func judge(r *core.Run, env *g7lib.Env, ev *g7lib.Evaluator, q *g7lib.Query, name string, deep bool) {
	text := q.SQL(g7lib.MySQL)
	ref, err := ev.Query(q)
	if err != nil {
		r.Inconclusive("reference-error")
		r.Count("reference-errors", 1)
		r.Sample(map[string]any{"reference-error": err.Error(), "sql": text})
		return
	}
	res := env.Sess.Exec(text)
	feats := q.Features()
	w := &witness{Case: name, Setup: env.Schema.Setup, SQL: text, Expected: g7lib.RowKeys(ref), Sequence: q.Limit >= 0, OrderBy: q.OrderBy, Approx: q.ApproxCols(), Features: feats}
	switch {
	case res.Panic != nil:
		r.Eval(1)
		w.Mode, w.Error = "panic", res.Panic.Value
		sig := classifyPanic(res.Panic)
		dump(sig, w)
		r.Violation(sig, w)
		return
	case res.TimedOut:
		r.Inconclusive("timeout")
		return
	case res.Err != nil:
		if g7lib.Unsupported(res.Err) {
			r.Inconclusive("unsupported:" + core.StripVolatile(res.Err.Error()))
			return
		}
		r.Eval(1)
		w.Mode, w.Error = "error", res.Err.Error()
		sig := classifyError(q, res.Err, w)
		dump(sig, w)
		r.Violation(sig, w)
		return
	}
	r.Eval(1)
	if deep {
		r.Count("queries-deep", 1)
	} else {
		r.Count("queries-shallow", 1)
	}
	d := g7lib.Compare(q, res.Rows, ref)
	if d == nil {
		for _, f := range feats {
			r.Count("feature:"+f, 1)
			if len(ref) > 0 {
				r.Count("nonempty:"+f, 1)
			}
		}
		if len(ref) > 0 {
			r.Distinct(strings.Join(feats, ","))
			r.Count("nonempty-results", 1)
		}
		if strings.HasSuffix(name, "q0") && strings.Contains(name, "db1") {
			r.Sample(map[string]any{"sql": text, "reference_rows": core.ClipStrings(w.Expected, 6), "engine_rows": core.ClipStrings(core.CanonRows(res.Rows), 6), "compared": "multiset (+ order keys / exact sequence under LIMIT)"})
		}
		return
	}
	w.Mode, w.Extra, w.Missing, w.Note = d.Mode, d.Extra, d.Missing, d.Note
	w.Actual = core.CanonRows(res.Rows)
	w.rawRows = res.Rows
	w.Plan = env.Sess.Plan(text)
	sig := classify(q, d, w, ev, env)
	dump(sig, w)
	r.Violation(sig, w)
}

var dumpMu sync.Mutex

// dump appends every violating case to $G7_DUMP (construction aid for clustering; off by default).
func dump(sig string, w *witness) {
	path := os.Getenv("G7_DUMP")
	if path == "" {
		return
	}
	dumpMu.Lock()
	defer dumpMu.Unlock()
	f, err := os.OpenFile(path, os.O_APPEND|os.O_CREATE|os.O_WRONLY, 0o644)
	if err != nil {
		return
	}
	defer f.Close()
	b, _ := json.Marshal(map[string]any{"signature": sig, "count": 1, "witness": w})
	f.Write(append(b, '\n'))
}

// featureClass is the part of a signature that names the input class: join kinds, subquery kinds,
// grouping / distinct / set operator.
func featureClass(feats []string) string {
	var keep []string
	for _, f := range feats {
		switch {
		case strings.HasPrefix(f, "join-"), strings.HasPrefix(f, "in-subquery"), strings.HasPrefix(f, "not-in-subquery"),
			strings.HasPrefix(f, "exists"), strings.HasPrefix(f, "not-exists"), strings.HasPrefix(f, "scalar-subquery"),
			f == "group-by", f == "agg-no-group", f == "having", f == "distinct", f == "limit",
			strings.HasPrefix(f, "union"), strings.HasPrefix(f, "intersect"), strings.HasPrefix(f, "except"),
			strings.HasPrefix(f, "subquery-in-"), strings.HasPrefix(f, "tables-"):
			keep = append(keep, f)
		}
	}
	sort.Strings(keep)
	return strings.Join(keep, "+")
}

func replay(r *core.Run, path string) {
	b, err := os.ReadFile(path)
	if err != nil {
		r.Inconclusive("replay-file-unreadable")
		return
	}
	var f struct {
		Signature string  `json:"signature"`
		Witness   witness `json:"witness"`
	}
	if err := json.Unmarshal(b, &f); err != nil || f.Witness.SQL == "" {
		r.Inconclusive("replay-file-not-a-C02-witness")
		return
	}
	fails, got, errText := rerun(&f.Witness)
	r.Eval(1)
	r.Distinct("replay")
	r.Distinct("replay:" + f.Signature)
	if fails {
		w := f.Witness
		w.Actual, w.Error = got, errText
		r.Violation(f.Signature, &w)
	}
}

// rerun executes a witness on a fresh engine and reports whether it still disagrees with the
// recorded reference rows.
func rerun(w *witness) (fails bool, got []string, errText string) {
	e := core.NewEng("d")
	defer e.Close()
	s := e.NewSess()
	for _, q := range w.Setup {
		if res := s.Exec(q); res.Failed() {
			return true, nil, "setup failed: " + q
		}
	}
	res := s.Exec(w.SQL)
	if res.Panic != nil {
		return true, nil, "panic: " + res.Panic.Value
	}
	if res.TimedOut {
		return true, nil, "timeout"
	}
	if res.Err != nil {
		return true, nil, res.Err.Error()
	}
	rows, ok := g7lib.EngineRows(res.Rows)
	if !ok {
		return true, core.CanonRows(res.Rows), "value outside the fragment"
	}
	mask := func(keys []string) []string {
		out := make([]string, len(keys))
		for i, k := range keys {
			parts := strings.Split(k, "|")
			for j := range parts {
				if j < len(w.Approx) && w.Approx[j] {
					parts[j] = "~"
				}
			}
			out[i] = strings.Join(parts, "|")
		}
		return out
	}
	a, b := mask(g7lib.RowKeys(rows)), mask(w.Expected)
	got = g7lib.RowKeys(rows)
	if !w.Sequence {
		a, b = append([]string{}, a...), append([]string{}, b...)
		sort.Strings(a)
		sort.Strings(b)
	}
	if !core.SameStrings(a, b) {
		return true, got, ""
	}
	if len(w.OrderBy) > 0 && !g7lib.SortedOnKeys(&g7lib.Query{OrderBy: w.OrderBy}, res.Rows) {
		return true, got, "rows are not sorted on the ORDER BY keys"
	}
	return false, got, ""
}

func floors(r *core.Run) {
	// mechanism-reached floors: every feature the property names was exercised with a non-empty result
	min := int64(r.N(5, 100))
	for _, f := range []string{"join-inner", "join-left", "join-right", "join-cross", "in-subquery", "not-in-subquery", "exists", "not-exists",
		"scalar-subquery", "in-subquery-correlated", "exists-correlated", "scalar-subquery-correlated", "group-by", "having", "distinct",
		"union", "union-all", "intersect", "intersect-all", "except", "except-all", "order-by", "limit", "offset",
		"agg-count", "agg-count-star", "agg-sum", "agg-min", "agg-max", "agg-avg", "is-null", "logic-not", "logic-or", "in-list", "not-in-list", "between", "nullsafe-eq"} {
		if got := r.Counter("nonempty:" + f); got < min {
			r.Floor(false, fmt.Sprintf("feature %s verified with a non-empty result only %d times (< %d)", f, got, min))
		}
	}
	r.Floor(r.Counter("reference-errors") == 0, "the reference evaluator failed on a generated query (harness defect)")
	r.Floor(r.Counter("queries-deep") > 0, "no query of the deeper minority reached a verdict")
}
