package main

import (
	"fmt"
	"sort"
	"strings"

	"verif/harness/core"
)

// setopBattery checks the six set operators on every multiplicity pair: value x occurs m times on the
// left and n times on the right for all m, n in 0..3 (x ranging over integers and NULL), in one- and
// two-column form and with the operands commuted. The expected multiplicity is the definition itself:
// UNION ALL m+n; UNION min(1, m+n); INTERSECT ALL min(m, n); INTERSECT [m>0 and n>0]; EXCEPT ALL max(m-n, 0);
// EXCEPT [m>0 and n=0]. Random queries reach the asymmetric pairs (left multiplicity above a non-zero
// right multiplicity) only rarely; this enumerates them.
func setopBattery(r *core.Run) {
	e := core.NewEng("d")
	defer e.Close()
	s := e.NewSess()
	s.MustExec("CREATE TABLE sl (id INT PRIMARY KEY, a INT, b INT)")
	s.MustExec("CREATE TABLE sr (id INT PRIMARY KEY, a INT, b INT)")
	type mn struct{ m, n int }
	mult := map[string]mn{}
	id := 0
	val := 0
	var keys []string
	for m := 0; m <= 3; m++ {
		for n := 0; n <= 3; n++ {
			if m == 0 && n == 0 {
				continue
			}
			val++
			lit := fmt.Sprint(val)
			if m == 2 && n == 1 {
				lit = "NULL" // NULLs are equal to each other for the set operators
			}
			keys = append(keys, lit)
			mult[lit] = mn{m, n}
			for k := 0; k < m; k++ {
				id++
				s.MustExec(fmt.Sprintf("INSERT INTO sl VALUES (%d, %s, 7)", id, lit))
			}
			for k := 0; k < n; k++ {
				id++
				s.MustExec(fmt.Sprintf("INSERT INTO sr VALUES (%d, %s, 7)", id, lit))
			}
		}
	}
	min := func(a, b int) int {
		if a < b {
			return a
		}
		return b
	}
	type op struct {
		sql string
		f   func(m, n int) int
	}
	b2i := func(b bool) int {
		if b {
			return 1
		}
		return 0
	}
	ops := []op{
		{"UNION ALL", func(m, n int) int { return m + n }},
		{"UNION", func(m, n int) int { return min(1, m+n) }},
		{"UNION DISTINCT", func(m, n int) int { return min(1, m+n) }},
		{"INTERSECT ALL", func(m, n int) int { return min(m, n) }},
		{"INTERSECT", func(m, n int) int { return b2i(m > 0 && n > 0) }},
		{"INTERSECT DISTINCT", func(m, n int) int { return b2i(m > 0 && n > 0) }},
		{"EXCEPT ALL", func(m, n int) int {
			if m > n {
				return m - n
			}
			return 0
		}},
		{"EXCEPT", func(m, n int) int { return b2i(m > 0 && n == 0) }},
		{"EXCEPT DISTINCT", func(m, n int) int { return b2i(m > 0 && n == 0) }},
	}
	for _, o := range ops {
		for _, cols := range []string{"a", "a, b"} {
			for _, commuted := range []bool{false, true} {
				l, rr := "sl", "sr"
				if commuted {
					l, rr = "sr", "sl"
				}
				q := fmt.Sprintf("SELECT %s FROM %s %s SELECT %s FROM %s", cols, l, o.sql, cols, rr)
				res := s.Exec(q)
				if res.Panic != nil {
					r.Violation(res.Panic.Sig(), map[string]any{"sql": q, "panic": res.Panic.Value})
					continue
				}
				if res.Failed() {
					r.Inconclusive("setop-battery:" + res.ErrClass())
					continue
				}
				var want []string
				for _, k := range keys {
					m, n := mult[k].m, mult[k].n
					if commuted {
						m, n = n, m
					}
					row := k
					if cols == "a, b" {
						row = k + "|7"
					}
					for c := 0; c < o.f(m, n); c++ {
						want = append(want, row)
					}
				}
				sort.Strings(want)
				got := core.SortedRows(res.Rows)
				r.Eval(1)
				r.Count("setop-battery.queries", 1)
				r.Distinct("setop-battery|" + o.sql + "|" + cols + fmt.Sprintf("|commuted=%v", commuted))
				if !core.SameStrings(got, want) {
					r.Violation("setop-battery:"+strings.ReplaceAll(strings.ToLower(o.sql), " ", "-")+":wrong-multiplicities",
						map[string]any{"sql": q, "left/right multiplicities per value": fmt.Sprint(mult), "expected": want, "got": got})
				}
			}
		}
	}
	r.Floor(r.Counter("setop-battery.queries") > 0, "set-operator multiplicity battery did not run")
}
