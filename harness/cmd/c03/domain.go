package main

import (
	"strings"

	"verif/harness/core"
	g "verif/harness/g6alib"
)

// ---- domain exclusions (via=domain): predicates on the INPUT only -------------------------------

// excluded names the excluded input class a filter belongs to, or "".
//
//   ci-collation-ignored-by-scan   IN / NOT IN list or <=> literal on a column with a case-insensitive
//                             collation: the engine's scan-side HASH IN and <=> compare bytewise,
//                             ignoring the column collation (DESIGN F5/F13), so the index-free
//                             comparand itself is wrong (the index path applies the collation).
//   u64-vs-maxint64-literal   BIGINT UNSIGNED column compared with the literal 9223372036854775807:
//                             the scan-side comparison clamps column values above 2^63-1 to that
//                             literal's type and calls them equal.
func excluded(tb *g.Table, p g.Pred) string {
	for _, a := range p.Atoms {
		ct := tb.Col(a.Col).T
		if ct.Kind == g.KStrCI && (a.Op == "in" || a.Op == "notin" || a.Op == "nse") {
			return "ci-collation-ignored-by-scan"
		}
		if ct.Name == "u64" {
			for _, l := range a.Lits {
				if l == "9223372036854775807" {
					return "u64-vs-maxint64-literal"
				}
			}
		}
	}
	return ""
}

// ---- outcome signatures (via=signature): predicates on the structured witness -------------------

func fractional(lit string) bool {
	k := strings.Index(lit, ".")
	if k < 0 || strings.ContainsAny(lit, "eE'") {
		return false
	}
	return strings.Trim(lit[k+1:], "0") != ""
}

// matchKnown returns the signature of the known finding a failing triple belongs to, or "".
//
//   ne-fractional-literal-nonint-index   a negated equality (<>, NOT IN, NOT (=/IN/<=>)) with a literal
//       that has a fractional part, on an indexed DECIMAL/FLOAT/DOUBLE column: the index path returns
//       EXTRA rows and every extra row is one whose column equals such a literal (the range builder
//       widens the lookup to "all non-NULL" as if the column were an integer and drops the filter).
func matchKnown(s *core.Sess, tb *g.Table, p g.Pred, t *triple, mode string) string {
	if mode == "rows-differ:index-returns-extra-rows" {
		var eqs []string
		for _, a := range p.Atoms {
			ct := tb.Col(a.Col).T
			if ct.Kind != g.KDecimal && ct.Kind != g.KFloat {
				continue
			}
			neg := a.Op == "ne" || a.Op == "notin" || (p.Shape == "not" && (a.Op == "eq" || a.Op == "in" || a.Op == "nse"))
			if !neg {
				continue
			}
			for _, l := range a.Lits {
				if fractional(l) {
					eqs = append(eqs, a.Col+" = "+l)
				}
			}
		}
		if len(eqs) > 0 {
			extra, _ := g.MultisetDiff(t.O1.Sorted, t.Ob.Sorted)
			o := g.Run(s, "SELECT id FROM t0 WHERE "+strings.Join(eqs, " OR "))
			if o.OK() {
				in := map[string]bool{}
				for _, id := range o.Sorted {
					in[id] = true
				}
				all := true
				for _, id := range extra {
					if !in[id] {
						all = false
					}
				}
				if all {
					return "ne-fractional-literal-nonint-index"
				}
			}
		}
	}
	return ""
}
