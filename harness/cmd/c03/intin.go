package main

import (
	"fmt"
	"math/big"
	"strings"

	"verif/harness/core"
)

// intInMixed judges one slice of the otherwise excluded out-of-domain class: `int_col IN (...)` lists that
// mix in-range literals with integer literals outside the column type's range, on single-column indexes of
// the 8- to 32-bit integer types, with rows sitting exactly on the type's boundaries. On this tree that
// slice is index/scan-clean (only lists made *solely* of out-of-range literals hit the known panic), and
// it is where a clamped or wrapped out-of-range key would surface as extra boundary rows.
func intInMixed(r *core.Run) {
	type ityp struct {
		sql      string
		min, max int64
	}
	typs := []ityp{
		{"TINYINT", -128, 127}, {"TINYINT UNSIGNED", 0, 255}, {"SMALLINT", -32768, 32767}, {"SMALLINT UNSIGNED", 0, 65535},
		{"MEDIUMINT", -8388608, 8388607}, {"MEDIUMINT UNSIGNED", 0, 16777215}, {"INT", -2147483648, 2147483647}, {"INT UNSIGNED", 0, 4294967295},
	}
	n := r.N(64, 1200)
	r.Parallel("int-in-mixed", n, func(i int) {
		rnd := r.Rand("int-in-mixed", i)
		t := typs[i%len(typs)]
		asPK := (i/len(typs))%4 == 2
		// multi: the integer column is the SECOND column of a two-column index whose leading column is pinned
		// by an equality; there an IN list made only of out-of-range literals is index/scan-clean on this tree
		// (it denotes no key at all) and is judged as well
		multi := (i/len(typs))%4 == 3
		e := core.NewEng("d")
		defer e.Close()
		s := e.NewSess()
		switch {
		case asPK:
			s.MustExec(fmt.Sprintf("CREATE TABLE t (c %s PRIMARY KEY, id INT, x INT)", t.sql))
		case multi:
			s.MustExec(fmt.Sprintf("CREATE TABLE t (id INT PRIMARY KEY, c %s, x INT, KEY kxc (x, c))", t.sql))
		default:
			s.MustExec(fmt.Sprintf("CREATE TABLE t (id INT PRIMARY KEY, c %s, x INT, KEY kc (c))", t.sql))
		}
		s.MustExec(fmt.Sprintf("CREATE TABLE t0 (id INT, c %s, x INT)", t.sql))
		vals := []int64{t.min, t.min + 1, t.max - 1, t.max, 0, 1, 5}
		for k := 0; k < 4; k++ {
			vals = append(vals, t.min+rnd.Int63n(t.max-t.min+1))
		}
		seen := map[int64]bool{}
		id := 0
		for _, v := range vals {
			if seen[v] {
				continue
			}
			seen[v] = true
			id++
			xv := id % 2
			if asPK {
				s.MustExec(fmt.Sprintf("INSERT INTO t VALUES (%d, %d, %d)", v, id, xv))
			} else {
				s.MustExec(fmt.Sprintf("INSERT INTO t VALUES (%d, %d, %d)", id, v, xv))
			}
			s.MustExec(fmt.Sprintf("INSERT INTO t0 VALUES (%d, %d, %d)", id, v, xv))
		}
		span := new(big.Int).Sub(big.NewInt(t.max), big.NewInt(t.min))
		span.Add(span, big.NewInt(1))
		ood := []string{
			fmt.Sprint(t.max + 1), fmt.Sprint(t.min - 1), fmt.Sprint(t.max + 45), fmt.Sprint(t.min - 872),
			new(big.Int).Add(big.NewInt(t.max), span).String(), // max + 2^w: wraps onto max
			new(big.Int).Sub(big.NewInt(t.min), span).String(), // min - 2^w: wraps onto min
			"3000000000000", "-3000000000000",
		}
		for q := 0; q < 6; q++ {
			var lits []string
			nin := 1 + rnd.Intn(3)
			if multi && q%2 == 1 {
				nin = 0 // every literal outside the type's range
			}
			for k := 0; k < nin; k++ {
				lits = append(lits, fmt.Sprint(vals[rnd.Intn(len(vals))]))
			}
			nout := 1 + rnd.Intn(2)
			for k := 0; k < nout; k++ {
				lits = append(lits, ood[rnd.Intn(len(ood))])
			}
			rnd.Shuffle(len(lits), func(a, b int) { lits[a], lits[b] = lits[b], lits[a] })
			pred := "c IN (" + strings.Join(lits, ", ") + ")"
			if multi {
				pred = fmt.Sprintf("x = %d AND %s", rnd.Intn(2), pred)
				if q == 5 {
					pred = fmt.Sprintf("(x = 0 AND c IN (%s)) OR (x = 1 AND c = %d)", strings.Join(lits, ", "), vals[rnd.Intn(len(vals))])
				}
			}
			qi := "SELECT id FROM t WHERE " + pred
			plan := s.Plan(qi)
			r.Count("int-in-mixed.filters", 1)
			if !strings.Contains(plan, "IndexedTableAccess") {
				r.Count("int-in-mixed.no-index", 1)
				continue
			}
			a := s.Exec(qi)
			b := s.Exec("SELECT id FROM t0 WHERE " + pred)
			if a.Panic != nil || b.Panic != nil {
				pi := a.Panic
				if pi == nil {
					pi = b.Panic
				}
				r.Violation(pi.Sig(), map[string]any{"type": t.sql, "filter": pred, "panic": pi.Value, "rows": len(seen)})
				continue
			}
			if a.Failed() && b.Failed() {
				r.Inconclusive("int-in-mixed:both-fail:" + a.ErrClass())
				continue
			}
			r.Eval(1)
			r.Count("verdicts", 1)
			r.Count("int-in-mixed.verdicts", 1)
			r.Distinct(fmt.Sprintf("int-in-mixed|%s|pk=%v|multi=%v|nin=%d|nout=%d", t.sql, asPK, multi, nin, nout))
			if a.Failed() != b.Failed() {
				r.Violation("int-in-mixed:error-asymmetry", map[string]any{"type": t.sql, "filter": pred, "indexed_err": fmt.Sprint(a.Err), "scan_err": fmt.Sprint(b.Err)})
				continue
			}
			ia, ib := core.SortedRows(a.Rows), core.SortedRows(b.Rows)
			if !core.SameStrings(ia, ib) {
				r.Violation("int-in-mixed:index-differs-from-scan", map[string]any{"type": t.sql, "as_primary_key": asPK, "filter": pred,
					"column_values": fmt.Sprint(vals), "via_index": ia, "via_scan": ib, "plan": core.Clip(plan, 400)})
			}
			if i < 2 && q == 0 {
				r.Sample(map[string]any{"type": t.sql, "filter": pred, "ids_via_index": ia, "ids_via_scan": ib})
			}
		}
	})
	r.Floor(r.Counter("int-in-mixed.verdicts") > 0, "no mixed in-range/out-of-range IN list was evaluated through an index")
}
