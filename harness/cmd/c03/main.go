// C03 — index lookups return exactly the rows a full scan would.
//
// Metamorphic oracle, three executions of "the same question" on identical rows:
//   (1) SELECT id FROM t  WHERE p          t has a primary key and 1-3 further indexes; counted only
//                                          when its plan shows IndexedTableAccess
//   (a) SELECT id, (p) IS TRUE FROM t      predicate in the projection: never reaches index selection
//   (b) SELECT id FROM t0 WHERE p          t0 = index-free, key-free copy with identical rows
// (b) is the property's comparand; (a) guards the comparand: when (a) and (b) disagree the case is a
// filter-vs-projection disagreement (C05's business) and is counted inconclusive here.
// Verdict: rows(1) must equal rows(b); if exactly one of (1) and the scans fails, that is an
// error-asymmetry violation; if all fail alike the case is inconclusive.
package main

import (
	"fmt"
	"os"
	"sort"
	"strings"
	"sync"

	"verif/harness/core"
	g "verif/harness/g6alib"
)

var (
	rangeMu  sync.Mutex
	rangeSet = map[string]struct{}{}
)

type triple struct {
	Q1, Qa, Qb string
	O1, Oa, Ob g.Outcome
	Plan       string
}

// evalTriple runs the three executions for predicate text p. planOnly=true stops after the plan when
// no index is used.
func evalTriple(s *core.Sess, p string) triple {
	var t triple
	t.Q1 = "SELECT id FROM t WHERE " + p
	t.Qa = "SELECT id, (" + p + ") IS TRUE FROM t"
	t.Qb = "SELECT id FROM t0 WHERE " + p
	t.Plan = s.Plan(t.Q1)
	return t
}

func (t *triple) run(s *core.Sess) {
	t.O1 = g.Run(s, t.Q1)
	oa := g.Run(s, t.Qa)
	if oa.OK() {
		// keep the ids whose predicate value is TRUE
		var keep []string
		for _, row := range oa.Seq {
			k := strings.LastIndex(row, "|")
			if row[k+1:] == "1" {
				keep = append(keep, row[:k])
			}
		}
		sort.Strings(keep)
		oa.Sorted, oa.Seq = keep, keep
	}
	t.Oa = oa
	t.Ob = g.Run(s, t.Qb)
}

// verdict classifies a triple: "" = held, "inconclusive:<why>", or a violation mode.
func (t *triple) verdict() string {
	for _, o := range []g.Outcome{t.O1, t.Oa, t.Ob} {
		if o.Class == "timeout" {
			return "inconclusive:timeout"
		}
	}
	if t.O1.Panic != nil {
		return "index-path-" + t.O1.Panic.Sig()
	}
	if !t.Oa.SameMultiset(t.Ob) {
		return "inconclusive:scan-evaluations-disagree(c05-type)"
	}
	if !t.Ob.OK() {
		if !t.O1.OK() {
			if t.O1.Class == t.Ob.Class {
				return "inconclusive:all-fail:" + t.Ob.Class
			}
			return "inconclusive:all-fail-different-classes"
		}
		return "error-asymmetry:scan-fails-index-answers:" + t.Ob.Class
	}
	if !t.O1.OK() {
		return "error-asymmetry:index-fails-scan-answers:" + t.O1.Class
	}
	if core.SameStrings(t.O1.Sorted, t.Ob.Sorted) {
		return ""
	}
	extra, missing := g.MultisetDiff(t.O1.Sorted, t.Ob.Sorted)
	switch {
	case len(extra) > 0 && len(missing) > 0:
		return "rows-differ:index-extra-and-missing"
	case len(extra) > 0:
		return "rows-differ:index-returns-extra-rows"
	}
	return "rows-differ:index-misses-rows"
}

func (t *triple) witness(tb *g.Table, extra map[string]any) map[string]any {
	w := map[string]any{
		"setup":          append(tb.Setup(), tb.Twin("t0").Setup()...),
		"indexed_query":  t.Q1,
		"projection":     t.Qa,
		"indexfree_copy": t.Qb,
		"plan":           t.Plan,
		"rows_index":     t.O1.Brief(),
		"rows_scan_t0":   t.Ob.Brief(),
		"rows_proj_true": t.Oa.Brief(),
	}
	for k, v := range extra {
		w[k] = v
	}
	return w
}

func atomSig(tb *g.Table, a g.Atom) string {
	return tb.Col(a.Col).T.Name + ":" + a.Op + ":" + a.LitClass
}

func predSig(tb *g.Table, p g.Pred) string {
	seen := map[string]bool{}
	var parts []string
	for _, a := range p.Atoms {
		k := atomSig(tb, a)
		if !seen[k] {
			seen[k] = true
			parts = append(parts, k)
		}
	}
	sort.Strings(parts)
	return p.Shape + "[" + strings.Join(parts, ",") + "]"
}

// focusCols picks the columns a filter is built over: the columns of one index (so conjunctions hit
// prefixes and gaps of multi-column indexes), sometimes plus one other column.
func focusCols(rnd interface{ Intn(int) int }, tb *g.Table) []g.Col {
	var sets [][]string
	sets = append(sets, tb.PK)
	for _, ix := range tb.Idx {
		sets = append(sets, ix.Cols)
	}
	var set []string
	if len(sets) > 1 && rnd.Intn(5) > 0 {
		set = sets[1+rnd.Intn(len(sets)-1)] // mostly a secondary index
	} else {
		set = sets[rnd.Intn(len(sets))]
	}
	var cols []g.Col
	for _, c := range set {
		cols = append(cols, tb.Col(c))
	}
	if rnd.Intn(4) == 0 {
		cols = append(cols, tb.Cols[rnd.Intn(len(tb.Cols))])
	}
	return cols
}

type stats struct {
	mu      sync.Mutex
	shapeOp map[string]bool
	shapes  map[string]int
	ops     map[string]int
	types   map[string]int
}

func main() {
	r := core.NewRun("C03", "exploration",
		"each evaluation is one filter p over indexed columns whose plan on the indexed table shows IndexedTableAccess: rows of SELECT id FROM t WHERE p must equal rows of the same WHERE on the index-free copy t0 (guarded by the projection evaluation (p) IS TRUE); distinct = (shape of the index used, operator, literal class, column type) of atoms on columns of the index used")
	r.Fold(8, 3)
	r.Assume("core domain: literals are values of the column's own type (in range, right scale, right temporal kind, ENUM members); the class index-literal-outside-column-domain is excluded via=domain, its pinned witnesses are replayed every run and an unjudged side stream measures it")
	r.Assume("tables hold 0-14 rows; values come from small per-type pools with boundaries, NULLs (20%) and duplicates; no trailing-space strings")
	r.Assume("an evaluation is counted only when the indexed query's plan contains IndexedTableAccess and both index-free evaluations (projection, index-free copy) agree with each other")

	st := &stats{shapeOp: map[string]bool{}, shapes: map[string]int{}, ops: map[string]int{}, types: map[string]int{}}
	nTables := r.N(600, 12000)
	perTable := 25
	explore(r, st, "core", nTables, perTable, false)
	// unjudged side stream over the excluded class
	explore(r, st, "ood", r.N(40, 600), 10, true)
	intInMixed(r)
	pinned(r)

	gen := r.Counter("filters-generated")
	idx := r.Counter("plans-with-index-access")
	r.Floor(idx*2 >= gen, fmt.Sprintf("fewer than 50%% of the generated filters used an index (%d of %d)", idx, gen))
	r.Floor(atomicEvals(r)*5 >= gen*2, "fewer than 40% of the generated filters reached a verdict")
	for _, sh := range []string{"pk1", "pkN", "unique", "sec1", "multi2", "multi3", "prefix"} {
		r.Floor(st.shapes[sh] > 0, "index shape never used by a plan: "+sh)
	}
	opsAll := []string{"eq", "ne", "lt", "le", "gt", "ge", "nse", "in", "notin", "isnull", "notnull", "between", "notbetween", "like", "nsenull"}
	for _, op := range opsAll {
		r.Floor(st.ops[op] > 0, "operator never evaluated through an index: "+op)
	}
	if !r.Quick() {
		for _, sh := range []string{"pk1", "pkN", "unique", "sec1", "multi2", "multi3", "prefix"} {
			for _, op := range opsAll {
				if op == "like" && (sh == "pk1") {
					continue // id is an integer column
				}
				r.Floor(st.shapeOp[sh+"|"+op], "index shape x operator pair never evaluated: "+sh+" x "+op)
			}
		}
	}
	r.Extra("index_shapes_used", st.shapes)
	r.Extra("operators_through_index", st.ops)
	r.Extra("column_types_through_index", st.types)
	rangeMu.Lock()
	r.Extra("distinct_range_strings", len(rangeSet))
	rangeMu.Unlock()
	r.Finish()
}

func atomicEvals(r *core.Run) int64 { return r.Counter("verdicts") }

func explore(r *core.Run, st *stats, label string, nTables, perTable int, ood bool) {
	r.Parallel(label, nTables, func(i int) {
		rnd := r.Rand(label, i)
		tb := g.GenTable(rnd, g.GenOpts{Name: "t", Types: corePalette(), MinCols: 2, MaxCols: 4, MaxRows: 14, NullPct: 20, Indexes: true, CompPK: true})
		tw := tb.Twin("t0")
		e := core.NewEng("d")
		defer e.Close()
		s := e.NewSess()
		g.SetupAll(s, tb.Setup())
		g.SetupAll(s, tw.Setup())
		// the twin must hold identical rows
		a, b := g.Run(s, "SELECT * FROM t"), g.Run(s, "SELECT * FROM t0")
		if !a.SameMultiset(b) {
			r.Violation("setup:twin-rows-differ", map[string]any{"setup": tb.Setup(), "t": a.Brief(), "t0": b.Brief()})
			return
		}
		for f := 0; f < perTable; f++ {
			p := g.GenPred(rnd, focusCols(rnd, tb), g.PredOpts{OOD: ood})
			if cls := excluded(tb, p); cls != "" {
				r.Count("excluded-from-domain:"+cls, 1)
				continue
			}
			if ood {
				oodCase(r, s, tb, p)
				continue
			}
			r.Count("filters-generated", 1)
			t := evalTriple(s, p.SQL)
			if !g.UsesIndex(t.Plan) {
				r.Count("plans-without-index-access", 1)
				continue
			}
			r.Count("plans-with-index-access", 1)
			t.run(s)
			v := t.verdict()
			if strings.HasPrefix(v, "inconclusive:") {
				r.Inconclusive(v[13:])
				if os.Getenv("C03_DEBUG") != "" {
					fmt.Fprintf(os.Stderr, "INCONCL %s | %s | %s | 1=%v a=%v b=%v\n", v, tb.DDL(), p.SQL, t.O1.Brief(), t.Oa.Brief(), t.Ob.Brief())
				}
				continue
			}
			r.Eval(1)
			r.Count("verdicts", 1)
			if t.Ob.OK() && len(t.Ob.Sorted) > 0 {
				r.Count("nonempty-results", 1)
			}
			record(r, st, tb, p, &t)
			if v == "" {
				if f == 0 && i%40 == 0 {
					r.Sample(map[string]any{"table": tb.DDL(), "rows": len(tb.Rows), "filter": p.SQL, "ranges": g.RangeStrings(t.Plan), "ids_index": t.O1.Brief(), "ids_scan": t.Ob.Brief()})
				}
				continue
			}
			extra := map[string]any{"case": i, "filter": p.SQL, "stream": label}
			if k := matchKnown(s, tb, p, &t, v); k != "" {
				r.Violation(k, t.witness(tb, extra))
				continue
			}
			// minimise: does a single atom of the filter already disagree?
			sig := v + ":" + predSig(tb, p)
			if len(p.Atoms) > 1 || p.Shape == "not" {
				for _, at := range p.Atoms {
					t1 := evalTriple(s, at.SQL)
					if !g.UsesIndex(t1.Plan) {
						continue
					}
					t1.run(s)
					v1 := t1.verdict()
					if v1 != "" && !strings.HasPrefix(v1, "inconclusive:") {
						sig = v1 + ":atom[" + atomSig(tb, at) + "]"
						extra["minimised_from"] = p.SQL
						extra["filter"] = at.SQL
						t = t1
						break
					}
				}
			}
			r.Violation(sig, t.witness(tb, extra))
		}
	})
}

// record notes what the evaluation exercised: the index used, and for every atom on a column of
// that index the (shape, operator, literal class, type) combination.
func record(r *core.Run, st *stats, tb *g.Table, p g.Pred, t *triple) {
	rangeMu.Lock()
	for _, rs := range g.RangeStrings(t.Plan) {
		rangeSet[rs] = struct{}{}
	}
	rangeMu.Unlock()
	for _, cols := range g.IndexesUsed(t.Plan) {
		sh := tb.ShapeOfIndexCols(cols)
		if sh == "" {
			sh = "other"
		}
		in := map[string]bool{}
		for _, c := range cols {
			in[c] = true
		}
		st.mu.Lock()
		st.shapes[sh]++
		st.mu.Unlock()
		for _, a := range p.Atoms {
			if !in[a.Col] {
				continue
			}
			ty := tb.Col(a.Col).T.Name
			r.Distinct(sh + "|" + a.Op + "|" + a.LitClass + "|" + ty)
			st.mu.Lock()
			st.shapeOp[sh+"|"+a.Op] = true
			st.ops[a.Op]++
			st.types[ty]++
			st.mu.Unlock()
		}
	}
}

// oodCase runs a filter with out-of-domain literals without judging it: the class is excluded from
// the core domain (DESIGN F10-F12); the counters document how it behaves on this tree.
func oodCase(r *core.Run, s *core.Sess, tb *g.Table, p g.Pred) {
	has := false
	for _, a := range p.Atoms {
		if a.LitClass == "ood" {
			has = true
		}
	}
	if !has {
		return
	}
	t := evalTriple(s, p.SQL)
	if !g.UsesIndex(t.Plan) {
		r.Count("ood-unjudged:no-index", 1)
		return
	}
	t.run(s)
	v := t.verdict()
	switch {
	case v == "":
		r.Count("ood-unjudged:agree", 1)
	case strings.HasPrefix(v, "inconclusive:"):
		r.Count("ood-unjudged:inconclusive", 1)
	default:
		k := v
		if j := strings.Index(k, ":"); j > 0 && !strings.HasPrefix(k, "error") && !strings.HasPrefix(k, "rows") {
			k = k[:j]
		}
		r.Count("ood-unjudged:disagree:"+core.Clip(k, 60), 1)
	}
}

func corePalette() []g.ColType { return g.Palette }
