package main

import (
	"strings"

	"verif/harness/core"
	g "verif/harness/g6alib"
)

type pin struct {
	sig    string
	what   string
	setup  []string // creates and fills t (indexed) and t0 (index-free copy)
	filter string
}

const pinSetupMixed = "CREATE TABLE t (id INT PRIMARY KEY, a INT, ti TINYINT, d DECIMAL(6,2), e ENUM('a','b','c'), y YEAR, dt DATE, b BIGINT, KEY(a), KEY(ti), KEY(d), KEY(e), KEY(y), KEY(dt), KEY(b))"
const pinRowsMixed = " VALUES (1,1,1,1.50,'a',2000,'2020-01-01',1),(2,2,127,9999.99,'b',2020,'2020-01-02',9223372036854775807),(3,3,-128,0.00,'c',1901,'2019-12-31',-1),(4,NULL,NULL,NULL,NULL,NULL,NULL,NULL)"
const pinTwinMixed = "CREATE TABLE t0 (id INT, a INT, ti TINYINT, d DECIMAL(6,2), e ENUM('a','b','c'), y YEAR, dt DATE, b BIGINT)"

func mixed(sig, what, filter string) pin {
	return pin{sig, what, []string{pinSetupMixed, "INSERT INTO t" + pinRowsMixed, pinTwinMixed, "INSERT INTO t0" + pinRowsMixed}, filter}
}

var pins = []pin{
	{"ne-fractional-literal-nonint-index", "dec_col <> 1.50 through an index on DECIMAL(6,2) returns the row holding 1.50",
		[]string{"CREATE TABLE t (id INT PRIMARY KEY, c DECIMAL(6,2), KEY ic (c))", "INSERT INTO t VALUES (1,1.50),(2,2.00),(3,NULL)",
			"CREATE TABLE t0 (id INT, c DECIMAL(6,2))", "INSERT INTO t0 VALUES (1,1.50),(2,2.00),(3,NULL)"}, "c <> 1.50"},
	{"ci-collation-ignored-by-scan", "c <=> 'b' on an _ai_ci column: index returns 'b' and 'B', the scan only 'b'",
		[]string{"CREATE TABLE t (id INT PRIMARY KEY, c VARCHAR(8) COLLATE utf8mb4_0900_ai_ci, KEY ic (c))", "INSERT INTO t VALUES (1,'b'),(2,'B'),(3,'a')",
			"CREATE TABLE t0 (id INT, c VARCHAR(8) COLLATE utf8mb4_0900_ai_ci)", "INSERT INTO t0 VALUES (1,'b'),(2,'B'),(3,'a')"}, "c <=> 'b'"},
	{"ci-collation-ignored-by-scan", "c IN ('b','z') on an _ai_ci column: index returns 'b' and 'B', the scan only 'b'",
		[]string{"CREATE TABLE t (id INT PRIMARY KEY, c VARCHAR(8) COLLATE utf8mb4_0900_ai_ci, KEY ic (c))", "INSERT INTO t VALUES (1,'b'),(2,'B'),(3,'a')",
			"CREATE TABLE t0 (id INT, c VARCHAR(8) COLLATE utf8mb4_0900_ai_ci)", "INSERT INTO t0 VALUES (1,'b'),(2,'B'),(3,'a')"}, "c IN ('b', 'z')"},
	{"u64-vs-maxint64-literal", "BIGINT UNSIGNED c = 9223372036854775807: the scan also returns the row holding 9223372036854775808",
		[]string{"CREATE TABLE t (id INT PRIMARY KEY, c BIGINT UNSIGNED, KEY ic (c))", "INSERT INTO t VALUES (1,9223372036854775807),(2,9223372036854775808),(3,2)",
			"CREATE TABLE t0 (id INT, c BIGINT UNSIGNED)", "INSERT INTO t0 VALUES (1,9223372036854775807),(2,9223372036854775808),(3,2)"}, "c = 9223372036854775807"},
	mixed("index-literal-outside-column-domain", "int_col IN (2.5) through an index panics (nil dereference)", "a IN (2.5)"),
	mixed("index-literal-outside-column-domain", "tinyint_col IN (128) through an index panics", "ti IN (128)"),
	mixed("index-literal-outside-column-domain", "dec62_col = 10000 through an index: out-of-range error, scan answers", "d = 10000"),
	mixed("index-literal-outside-column-domain", "enum_col = 'd' (non-member) through an index: error, scan answers", "e = 'd'"),
	mixed("index-literal-outside-column-domain", "year_col > 1900 through an index: error, scan answers", "y > 1900"),
	mixed("index-literal-outside-column-domain", "date_col > 20200101 through an index: error, scan answers", "dt > 20200101"),
	mixed("index-literal-outside-column-domain", "date_col <> '2020-01-01 10:00:00' through an index drops the row of 2020-01-01", "dt <> '2020-01-01 10:00:00'"),
	mixed("index-literal-outside-column-domain", "bigint_col = 9223372036854775808: index returns nothing, scan returns the row holding 9223372036854775807", "b = 9223372036854775808"),
}

// pinned replays the pinned witnesses of the known findings on every run.
func pinned(r *core.Run) {
	failing := map[string][]string{}
	wit := map[string]any{}
	order := []string{}
	for _, p := range pins {
		e := core.NewEng("d")
		s := e.NewSess()
		g.SetupAll(s, p.setup)
		t := evalTriple(s, p.filter)
		t.run(s)
		v := t.verdict()
		e.Close()
		if _, ok := failing[p.sig]; !ok {
			order = append(order, p.sig)
			failing[p.sig] = nil
		}
		if v != "" && !strings.HasPrefix(v, "inconclusive:") {
			failing[p.sig] = append(failing[p.sig], p.what+" ["+core.Clip(v, 80)+"]")
			if wit[p.sig] == nil {
				wit[p.sig] = map[string]any{"setup": p.setup, "filter": p.filter, "mode": v, "rows_index": t.O1.Brief(), "rows_scan_t0": t.Ob.Brief(), "plan": t.Plan}
			}
		}
	}
	for _, sig := range order {
		r.Pinned(sig, strings.Join(failing[sig], "; "), len(failing[sig]) > 0, wit[sig])
	}
}
