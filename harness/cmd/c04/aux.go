package main

import (
	"github.com/dolthub/go-mysql-server/sql/types"

	"verif/harness/core"
)

func timespanMicros(v any) (int64, bool) {
	if t, ok := v.(types.Timespan); ok {
		return t.AsMicroseconds(), true
	}
	return 0, false
}

func pinned(r *core.Run) {}
