package main

import (
	"fmt"
	"sort"
	"strings"

	"verif/harness/core"
)

// bigTables exercises the slice rule on results larger than the sorters' internal buffers: the TopN
// heap starts with a capacity of 1024 rows and the server batches at 128/512, so LIMIT/OFFSET windows
// that straddle 1024 on tables of more than 1024 rows are a boundary the small random tables never
// reach. v is a seeded permutation of 0..n-1 (a total order, so the exact slice is determined), w has
// heavy ties and NULLs and is judged on its key sequence.
func bigTables(r *core.Run) {
	nTab := r.N(2, 12)
	r.Parallel("bigtables", nTab, func(i int) {
		rnd := r.Rand("bigtables", i)
		n := 1030 + rnd.Intn(400)
		e := core.NewEng("d")
		defer e.Close()
		s := e.NewSess()
		indexed := i%2 == 1
		ddl := "CREATE TABLE b (id INT PRIMARY KEY, v INT, w INT)"
		if indexed {
			ddl = "CREATE TABLE b (id INT PRIMARY KEY, v INT, w INT, KEY kv (v))"
		}
		s.MustExec(ddl)
		perm := rnd.Perm(n)
		type row struct{ id, v int; w *int }
		rows := make([]row, n)
		var sb strings.Builder
		for k := 0; k < n; k++ {
			rows[k] = row{id: k + 1, v: perm[k]}
			ws := "NULL"
			if rnd.Intn(10) > 0 {
				x := rnd.Intn(7)
				rows[k].w = &x
				ws = fmt.Sprint(x)
			}
			if sb.Len() == 0 {
				sb.WriteString("INSERT INTO b VALUES ")
			} else {
				sb.WriteString(",")
			}
			fmt.Fprintf(&sb, "(%d,%d,%s)", k+1, perm[k], ws)
			if (k+1)%200 == 0 || k == n-1 {
				s.MustExec(sb.String())
				sb.Reset()
			}
		}
		type win struct{ lim, off int }
		wins := []win{{5, 0}, {1030, 0}, {5, 1022}, {10, 1050}, {2000, 0}, {1024, 0}, {1025, 0}, {1, 1023}, {1, 1024}, {100, 1000}, {n, 0}, {n + 5, 3}, {7, n - 3}}
		for k := 0; k < 4; k++ {
			wins = append(wins, win{1 + rnd.Intn(1300), rnd.Intn(1300)})
		}
		for _, desc := range []bool{false, true} {
			// total order on v
			exp := append([]row{}, rows...)
			sort.Slice(exp, func(a, b int) bool {
				if desc {
					return exp[a].v > exp[b].v
				}
				return exp[a].v < exp[b].v
			})
			dir := "ASC"
			if desc {
				dir = "DESC"
			}
			for _, wn := range wins {
				q := fmt.Sprintf("SELECT id, v FROM b ORDER BY v %s LIMIT %d OFFSET %d", dir, wn.lim, wn.off)
				res := s.Exec(q)
				if res.Failed() {
					if res.Panic != nil {
						r.Violation(res.Panic.Sig(), map[string]any{"sql": q, "rows_in_table": n, "panic": res.Panic.Value})
					} else {
						r.Violation("bigtable:query-failed:"+res.ErrClass(), map[string]any{"sql": q, "rows_in_table": n, "err": fmt.Sprint(res.Err)})
					}
					continue
				}
				lo := wn.off
				if lo > n {
					lo = n
				}
				hi := lo + wn.lim
				if hi > n {
					hi = n
				}
				r.Eval(1)
				cls := "below-1024"
				if wn.lim+wn.off > 1024 {
					cls = "straddles-1024"
				}
				r.Distinct(fmt.Sprintf("bigtable|%s|%s|indexed=%v", dir, cls, indexed))
				r.Count("bigtable.windows", 1)
				if len(res.Rows) != hi-lo {
					r.Violation("bigtable:limit-offset-wrong-length", map[string]any{"sql": q, "rows_in_table": n, "expected_rows": hi - lo, "got_rows": len(res.Rows), "indexed": indexed})
					continue
				}
				for k, row := range res.Rows {
					if core.Canon(row[0]) != fmt.Sprint(exp[lo+k].id) || core.Canon(row[1]) != fmt.Sprint(exp[lo+k].v) {
						r.Violation("bigtable:limit-offset-wrong-slice", map[string]any{"sql": q, "rows_in_table": n, "position": k, "expected": []int{exp[lo+k].id, exp[lo+k].v}, "got": core.CanonRow(row), "indexed": indexed})
						break
					}
				}
			}
			// ties and NULLs on w: the key sequence of the window is determined even though the rows are not
			keys := make([]string, n)
			for k, rw := range rows {
				if rw.w == nil {
					keys[k] = "NULL"
				} else {
					keys[k] = fmt.Sprint(*rw.w)
				}
			}
			rank := func(s string) int {
				if s == "NULL" {
					return -1
				}
				var x int
				fmt.Sscan(s, &x)
				return x
			}
			sort.SliceStable(keys, func(a, b int) bool {
				if desc {
					return rank(keys[a]) > rank(keys[b])
				}
				return rank(keys[a]) < rank(keys[b])
			})
			for _, wn := range wins[:8] {
				q := fmt.Sprintf("SELECT w FROM b ORDER BY w %s LIMIT %d OFFSET %d", dir, wn.lim, wn.off)
				res := s.Exec(q)
				if res.Failed() {
					r.Violation("bigtable:query-failed:"+res.ErrClass(), map[string]any{"sql": q, "rows_in_table": n, "err": fmt.Sprint(res.Err)})
					continue
				}
				lo := wn.off
				if lo > n {
					lo = n
				}
				hi := lo + wn.lim
				if hi > n {
					hi = n
				}
				r.Eval(1)
				r.Count("bigtable.windows", 1)
				got := make([]string, len(res.Rows))
				for k, row := range res.Rows {
					got[k] = core.Canon(row[0])
				}
				if !core.SameStrings(got, keys[lo:hi]) {
					r.Violation("bigtable:limit-offset-wrong-key-sequence", map[string]any{"sql": q, "rows_in_table": n, "expected_len": hi - lo, "got_len": len(got), "indexed": indexed})
				}
			}
		}
		if i == 0 {
			r.Sample(map[string]any{"bigtable_rows": n, "windows": len(wins), "example": fmt.Sprintf("SELECT id, v FROM b ORDER BY v DESC LIMIT %d OFFSET %d", wins[3].lim, wins[3].off)})
		}
	})
	r.Floor(r.Counter("bigtable.windows") > 0, "no LIMIT/OFFSET window beyond 1024 rows evaluated")
}
