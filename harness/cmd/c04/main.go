// C04 — ORDER BY output is ordered and LIMIT/OFFSET select the right slice.
//
// Each case is one generated table (typed columns, NULLs, heavy ties, with or without indexes whose
// prefix matches the sort keys) and a batch of queries
//     F: SELECT id, k1..kn FROM t [WHERE f] ORDER BY k1 [ASC|DESC], ... [, id]
//     L: F + LIMIT n [OFFSET m]
// The sort keys are selected as output columns, so the harness judges the order with its OWN
// comparators (numeric via exact rationals, dates chronologically, TIME by duration, binary strings
// bytewise, _ci strings case-folded over [0-9A-Za-z], ENUM by member index; NULL first ASC / last DESC).
// Checks: (1) F is sorted; (2) F is a permutation of the same SELECT without ORDER BY; (3) |L| =
// max(0, min(n, |F|-m)), the key sequence of L equals the key sequence of F[m:m+n] (uniquely determined even
// with ties), L is a sub-multiset of F; when the keys form a total order (id is a key) L = F[m:m+n] exactly.
package main

import (
	"fmt"
	"math/rand"
	"strings"
	"sync"

	"github.com/dolthub/go-mysql-server/sql"

	"verif/harness/core"
	g "verif/harness/g6alib"
)

// enumx has a member order that differs from the alphabetical order: ORDER BY sorts ENUMs by index.
var enumx = g.ColType{Name: "enumx", Decl: "ENUM('d','b','a','c')", Kind: g.KEnum, Pool: []string{"'a'", "'b'", "'c'", "'d'"}}
var enumxIndex = map[string]int{"d": 1, "b": 2, "a": 3, "c": 4}

func palette() []g.ColType {
	var out []g.ColType
	for _, t := range g.Palette {
		if t.Name == "enum" {
			continue
		}
		out = append(out, t)
	}
	// integers twice more so that expression keys (a+b, -a) are frequent
	out = append(out, g.Types("i32", "i16", "i8", "u8", "dec62", "vcbin", "vcaici")...)
	return append(out, enumx)
}

type key struct {
	SQL  string
	Cmp  string // num time timespan strbin strci bytes enumx
	Desc bool
	Name string // shape name for evidence
	Col  string // plain column name when the key is a column ("" for expressions)
}

var smallInt = map[string]bool{"i8": true, "u8": true, "i16": true, "u16": true, "i24": true, "u24": true, "i32": true}
var negatable = map[string]bool{"i8": true, "i16": true, "i24": true, "i32": true, "dec62": true, "f64": true}

func cmpOf(t g.ColType) string {
	if t.Name == "enumx" {
		return "enumx"
	}
	switch t.Kind {
	case g.KStrBin:
		return "strbin"
	case g.KStrCI:
		return "strci"
	case g.KBinary:
		return "bytes"
	case g.KDate, g.KDatetime:
		return "time"
	case g.KTime:
		return "timespan"
	}
	return "num"
}

// genKeys draws 1-3 sort keys: columns (preferring the leading columns of an index so that index-ordered
// access is reachable) and expressions (-a, a+b, LENGTH(s)); id is appended half of the time (total order).
func genKeys(rnd *rand.Rand, tb *g.Table) (keys []key, total bool) {
	n := 1 + rnd.Intn(3)
	used := map[string]bool{}
	var lead []string
	if len(tb.Idx) > 0 && rnd.Intn(3) > 0 {
		ix := tb.Idx[rnd.Intn(len(tb.Idx))]
		if ix.Prefix == nil {
			lead = ix.Cols
		}
	} else if len(tb.PK) > 1 && rnd.Intn(2) == 0 {
		lead = tb.PK
	}
	sameDir := rnd.Intn(3) > 0 // index order needs one direction for all keys
	dir := rnd.Intn(2) == 0
	for i := 0; i < n; i++ {
		var k key
		d := dir
		if !sameDir {
			d = rnd.Intn(2) == 0
		}
		if i < len(lead) && rnd.Intn(6) > 0 {
			c := tb.Col(lead[i])
			k = key{SQL: c.Name, Cmp: cmpOf(c.T), Name: c.T.Kind.String(), Col: c.Name}
			if c.Name == "id" {
				total = true
			}
		} else {
			c := tb.Cols[1+rnd.Intn(len(tb.Cols)-1)]
			k = key{SQL: c.Name, Cmp: cmpOf(c.T), Name: c.T.Kind.String(), Col: c.Name}
			switch e := rnd.Intn(10); {
			case e < 2 && negatable[c.T.Name]:
				k = key{SQL: "-" + c.Name, Cmp: "num", Name: "neg(" + c.T.Kind.String() + ")"}
			case e < 4 && smallInt[c.T.Name]:
				for _, c2 := range tb.Cols[1:] {
					if smallInt[c2.T.Name] && c2.Name != c.Name {
						k = key{SQL: c.Name + " + " + c2.Name, Cmp: "num", Name: "sum(int,int)"}
						break
					}
				}
			case e < 6 && (c.T.Kind == g.KStrBin || c.T.Kind == g.KStrCI || c.T.Kind == g.KBinary):
				k = key{SQL: "LENGTH(" + c.Name + ")", Cmp: "num", Name: "length(" + c.T.Kind.String() + ")"}
			}
		}
		if used[k.SQL] {
			continue
		}
		used[k.SQL] = true
		k.Desc = d
		keys = append(keys, k)
	}
	if !total && rnd.Intn(2) == 0 {
		d := dir
		if !sameDir {
			d = rnd.Intn(2) == 0
		}
		keys = append(keys, key{SQL: "id", Cmp: "num", Desc: d, Name: "id", Col: "id"})
		total = true
	}
	return
}

// genWhere draws an optional filter from the operators whose index/scan agreement C03 found clean.
func genWhere(rnd *rand.Rand, tb *g.Table) string {
	if rnd.Intn(10) >= 3 {
		return ""
	}
	ok := map[string]bool{"eq": true, "lt": true, "le": true, "gt": true, "ge": true, "between": true, "isnull": true, "notnull": true}
	for try := 0; try < 20; try++ {
		c := tb.Cols[rnd.Intn(len(tb.Cols))]
		a := g.GenAtom(rnd, c, g.PredOpts{})
		if !ok[a.Op] {
			continue
		}
		bad := false
		for _, l := range a.Lits {
			if c.T.Name == "u64" && l == "9223372036854775807" {
				bad = true
			}
		}
		if !bad {
			return a.SQL
		}
	}
	return ""
}

// ---- independent comparators -----------------------------------------------------------------------

func foldCI(s string) string { return strings.ToLower(s) }

// cmpVal compares two non-NULL values of a key under the key's comparator. ok=false: not comparable by
// the harness (unexpected Go type) -> the case is inconclusive.
func cmpVal(kind string, a, b any) (int, bool) {
	switch kind {
	case "num":
		ra, ok1 := core.Rat(core.Canon(a))
		rb, ok2 := core.Rat(core.Canon(b))
		if !ok1 || !ok2 {
			return 0, false
		}
		return ra.Cmp(rb), true
	case "time":
		sa, sb := core.Canon(a), core.Canon(b)
		if !strings.HasPrefix(sa, "t'") || !strings.HasPrefix(sb, "t'") {
			return 0, false
		}
		return strings.Compare(sa, sb), true
	case "timespan":
		ta, ok1 := timespanMicros(a)
		tb, ok2 := timespanMicros(b)
		if !ok1 || !ok2 {
			return 0, false
		}
		switch {
		case ta < tb:
			return -1, true
		case ta > tb:
			return 1, true
		}
		return 0, true
	case "enumx":
		// the engine may hand the member out as text or as its index number
		ia, ok1 := enumIdx(a)
		ib, ok2 := enumIdx(b)
		if !ok1 || !ok2 {
			return 0, false
		}
		return ia - ib, true
	case "strbin", "strci", "bytes":
		sa, ok1 := asString(a)
		sb, ok2 := asString(b)
		if !ok1 || !ok2 {
			return 0, false
		}
		switch kind {
		case "strci":
			return strings.Compare(foldCI(sa), foldCI(sb)), true
		}
		return strings.Compare(sa, sb), true
	}
	return 0, false
}

func enumIdx(v any) (int, bool) {
	if s, ok := asString(v); ok {
		i, ok := enumxIndex[s]
		return i, ok
	}
	if r, ok := core.Rat(core.Canon(v)); ok && r.IsInt() {
		i := int(r.Num().Int64())
		return i, i >= 1 && i <= 4
	}
	return 0, false
}

func asString(v any) (string, bool) {
	if w, ok := v.(sql.AnyWrapper); ok {
		u, err := w.UnwrapAny(nil)
		if err != nil {
			return "", false
		}
		v = u
	}
	switch x := v.(type) {
	case string:
		return x, true
	case []byte:
		return string(x), true
	}
	return "", false
}

// cmpKeyRow compares the key parts of two result rows (columns 1..len(keys)) under the ORDER BY.
func cmpKeyRow(keys []key, a, b sql.Row) (int, bool) {
	for i, k := range keys {
		x, y := a[1+i], b[1+i]
		c := 0
		switch {
		case x == nil && y == nil:
			c = 0
		case x == nil:
			c = -1 // NULL sorts first ascending
		case y == nil:
			c = 1
		default:
			var ok bool
			c, ok = cmpVal(k.Cmp, x, y)
			if !ok {
				return 0, false
			}
		}
		if k.Desc {
			c = -c
		}
		if c != 0 {
			return c, true
		}
	}
	return 0, true
}

// ---- the monitor ----------------------------------------------------------------------------------------

type pathStats struct {
	mu    sync.Mutex
	paths map[string]int
}

// sortPath classifies how the plan produces the order.
func sortPath(plan string) string {
	ops := " " + strings.Join(g.Operators(plan), " ") + " "
	switch {
	case strings.Contains(ops, " TopN "):
		return "topn"
	case strings.Contains(ops, " Sort "):
		return "sort"
	case strings.Contains(plan, "IndexedTableAccess(") && strings.Contains(plan, "reverse: true"):
		return "index-reverse"
	case strings.Contains(plan, "IndexedTableAccess("):
		return "index-forward"
	}
	return "other"
}

type query struct {
	Keys   []key
	Total  bool
	Where  string
	Limit  int // -1: none
	Offset int // -1: none
}

func (q query) selectList() string {
	parts := []string{"id"}
	for _, k := range q.Keys {
		parts = append(parts, k.SQL)
	}
	return strings.Join(parts, ", ")
}

func (q query) base() string {
	s := "SELECT " + q.selectList() + " FROM t"
	if q.Where != "" {
		s += " WHERE " + q.Where
	}
	return s
}

func (q query) orderBy(rnd *rand.Rand) string {
	var parts []string
	for i, k := range q.Keys {
		e := k.SQL
		if rnd != nil && rnd.Intn(8) == 0 {
			e = fmt.Sprint(i + 2) // ordinal reference to the select list
		}
		if k.Desc {
			parts = append(parts, e+" DESC")
		} else if rnd != nil && rnd.Intn(2) == 0 {
			parts = append(parts, e+" ASC")
		} else {
			parts = append(parts, e)
		}
	}
	return " ORDER BY " + strings.Join(parts, ", ")
}

func (q query) shape() string {
	var parts []string
	for _, k := range q.Keys {
		d := "A"
		if k.Desc {
			d = "D"
		}
		parts = append(parts, k.Name+":"+d)
	}
	return strings.Join(parts, ",")
}

func main() {
	r := core.NewRun("C04", "exploration",
		"each evaluation is one ORDER BY query (sortedness of the full result under harness comparators + permutation of the unordered result) or one LIMIT/OFFSET variant of it (length, key sequence = that of F[m:m+n], sub-multiset, exact slice under a total order); distinct = (sort path: sort/topn/index-forward/index-reverse, key shape with directions, limit class)")
	r.Fold(8, 3)
	r.Assume("sort keys are columns of the type palette and the expressions -a, a+b (small integers), LENGTH(s); strings contain only [0-9A-Za-z] without trailing spaces, so _ai_ci/_general_ci order equals case-folded ASCII order")
	r.Assume("optional WHERE filters use = < <= > >= BETWEEN IS [NOT] NULL with in-domain literals (operators C03 found index/scan-clean)")
	r.Assume("ENUM keys are judged by member index (MySQL: ENUM sorts by index number)")

	st := &pathStats{paths: map[string]int{}}
	nTables := r.N(800, 16000)
	perTable := 10
	r.Parallel("tables", nTables, func(i int) {
		rnd := r.Rand("tables", i)
		tb := g.GenTable(rnd, g.GenOpts{Name: "t", Types: palette(), MinCols: 2, MaxCols: 4, MaxRows: 20, NullPct: 20, Indexes: rnd.Intn(4) > 0, CompPK: true})
		e := core.NewEng("d")
		defer e.Close()
		s := e.NewSess()
		g.SetupAll(s, tb.Setup())
		for qi := 0; qi < perTable; qi++ {
			var q query
			q.Keys, q.Total = genKeys(rnd, tb)
			q.Where = genWhere(rnd, tb)
			q.Limit, q.Offset = -1, -1
			oneQuery(r, st, s, tb, rnd, q, i, qi)
		}
	})
	bigTables(r)
	pinned(r)

	tot := 0
	for _, n := range st.paths {
		tot += n
	}
	for _, p := range []string{"sort", "topn", "index-forward", "index-reverse"} {
		r.Floor(st.paths[p]*20 >= tot, fmt.Sprintf("sort path %s below 5%% of the judged plans (%d of %d)", p, st.paths[p], tot))
	}
	r.Extra("sort_paths", st.paths)
	r.Finish()
}

func limitChoices(rnd *rand.Rand, k int) (int, int) {
	pick := func() int {
		c := []int{0, 1, k - 1, k, k + 1, k + 5, rnd.Intn(k + 2), rnd.Intn(4)}
		v := c[rnd.Intn(len(c))]
		if v < 0 {
			v = 0
		}
		return v
	}
	n := pick()
	m := -1
	if rnd.Intn(2) == 0 {
		m = pick()
	}
	return n, m
}

func oneQuery(r *core.Run, st *pathStats, s *core.Sess, tb *g.Table, rnd *rand.Rand, q query, ci, qi int) {
	ob := q.orderBy(rnd)
	fq := q.base() + ob
	wit := func(extra map[string]any) map[string]any {
		w := map[string]any{"setup": tb.Setup(), "query": fq, "case": ci, "q": qi}
		for k, v := range extra {
			w[k] = v
		}
		return w
	}
	fres := s.Exec(fq)
	bres := s.Exec(q.base())
	// draw the LIMIT variants now so that the PRNG consumption does not depend on engine results
	type lim struct{ n, m int }
	var lims []lim
	for k := 0; k < 2; k++ {
		n, m := limitChoices(rnd, len(tb.Rows))
		lims = append(lims, lim{n, m})
	}
	if fres.Panic != nil {
		r.Violation("order-by-"+fres.Panic.Sig(), wit(map[string]any{"panic": fres.Panic.Value}))
		return
	}
	if fres.TimedOut || bres.TimedOut {
		r.Inconclusive("timeout")
		return
	}
	if fres.Err != nil || bres.Err != nil {
		if fres.Err != nil && bres.Err != nil {
			r.Inconclusive("query-fails-with-and-without-order-by:" + fres.ErrClass())
			return
		}
		r.Eval(1)
		r.Violation("error-asymmetry:order-by-vs-unordered:"+fres.ErrClass()+"/"+bres.ErrClass(), wit(map[string]any{"err_ordered": fmt.Sprint(fres.Err), "err_unordered": fmt.Sprint(bres.Err)}))
		return
	}
	F := fres.Rows
	fplan := s.Plan(fq)
	// (1) sortedness
	for j := 1; j < len(F); j++ {
		c, ok := cmpKeyRow(q.Keys, F[j-1], F[j])
		if !ok {
			r.Inconclusive("value-not-comparable-by-harness")
			return
		}
		if c > 0 {
			r.Eval(1)
			r.Violation("not-sorted:"+sortPath(fplan)+":"+q.shape(), wit(map[string]any{"plan": fplan, "rows": core.ClipStrings(core.CanonRows(F), 40), "first_inversion_at": j}))
			return
		}
	}
	// (2) permutation of the unordered result
	fs, bs := core.SortedRows(F), core.SortedRows(bres.Rows)
	if !core.SameStrings(fs, bs) {
		r.Eval(1)
		oa, ob2 := g.MultisetDiff(fs, bs)
		r.Violation("order-by-changes-row-multiset:"+sortPath(fplan), wit(map[string]any{"plan": fplan, "only_ordered": oa, "only_unordered": ob2}))
		return
	}
	r.Eval(1)
	fp := sortPath(fplan)
	st.mu.Lock()
	st.paths[fp]++
	st.mu.Unlock()
	r.Distinct(fp + "|" + q.shape() + "|nolimit")
	if len(F) >= 3 && ci%60 == 0 && qi == 0 {
		r.Sample(map[string]any{"table": tb.DDL(), "query": fq, "path": fp, "rows": core.ClipStrings(core.CanonRows(F), 8)})
	}
	// (3) LIMIT / OFFSET variants
	for _, l := range lims {
		lq := fq + fmt.Sprintf(" LIMIT %d", l.n)
		m := 0
		if l.m >= 0 {
			m = l.m
			if (l.n+l.m)%3 == 0 {
				lq = fq + fmt.Sprintf(" LIMIT %d, %d", l.m, l.n) // MySQL's LIMIT offset, count spelling
			} else {
				lq += fmt.Sprintf(" OFFSET %d", l.m)
			}
		}
		lres := s.Exec(lq)
		if lres.Panic != nil {
			r.Violation("limit-"+lres.Panic.Sig(), wit(map[string]any{"limit_query": lq, "panic": lres.Panic.Value}))
			continue
		}
		if lres.TimedOut {
			r.Inconclusive("timeout")
			continue
		}
		lplan := s.Plan(lq)
		lp := sortPath(lplan)
		if lres.Err != nil {
			r.Eval(1)
			r.Violation("error-asymmetry:limit-fails:"+lres.ErrClass(), wit(map[string]any{"limit_query": lq, "err": fmt.Sprint(lres.Err), "plan": lplan}))
			continue
		}
		L := lres.Rows
		lo := m
		if lo > len(F) {
			lo = len(F)
		}
		hi := lo + l.n
		if hi > len(F) {
			hi = len(F)
		}
		want := F[lo:hi]
		r.Eval(1)
		st.mu.Lock()
		st.paths[lp]++
		st.mu.Unlock()
		lclass := "mid"
		switch {
		case l.n == 0:
			lclass = "n0"
		case hi-lo < l.n:
			lclass = "past-end"
		case lo == 0:
			lclass = "head"
		}
		r.Distinct(lp + "|" + q.shape() + "|" + lclass)
		w := func(mode string) {
			r.Violation(mode+":"+lp, wit(map[string]any{"limit_query": lq, "plan": lplan, "full": core.ClipStrings(core.CanonRows(F), 40), "limited": core.ClipStrings(core.CanonRows(L), 40), "expected_slice": core.ClipStrings(core.CanonRows(want), 40)}))
		}
		if len(L) != len(want) {
			w("limit-wrong-length")
			continue
		}
		bad := false
		for j := range L {
			c, ok := cmpKeyRow(q.Keys, L[j], want[j])
			if !ok || c != 0 {
				bad = true
				break
			}
		}
		if bad {
			w("limit-wrong-key-sequence")
			continue
		}
		// sub-multiset of F
		lsorted := core.SortedRows(L)
		only, _ := g.MultisetDiff(lsorted, fs)
		if len(only) > 0 {
			w("limit-row-not-in-full-result")
			continue
		}
		if q.Total && !core.SameStrings(core.CanonRows(L), core.CanonRows(want)) {
			w("limit-wrong-slice-under-total-order")
			continue
		}
	}
}

