package main

import (
	"encoding/json"
	"fmt"
	"os"
	"regexp"
	"strings"

	"verif/harness/core"
	"verif/harness/g6blib"
)

// Known findings of C05 (see /verif/findings/C05.md). The input classes below are excluded from the core
// exploration (via=domain) and exercised here instead: each class has one pinned witness replayed on every
// run and a few seeded single-atom variants. A class violation is attributed to the known signature only
// when the class's repair rewrite (which avoids the defective mechanism and is equivalent under SQL) makes
// the same case hold; anything else in the class is reported under its own signature.

const (
	sigF9     = "in-subquery-null-antijoin-mergejoin"
	sigF14    = "inlist-int-decimal-literals-hash-in-rounds"
	sigF5     = "inlist-ci-string-ignores-collation"
	sigF10    = "inlist-all-fractional-on-indexed-int-panics"
	sigG1     = "neq-fractional-literal-on-indexed-decimal-keeps-equal-row"
	sigG2     = "decimal-lookup-key-into-int-index-rounds"
	sigF13    = "nullsafe-eq-ci-string-index-vs-select-list"
	sigIdAll  = "inlist-fractional-on-int-primary-key-returns-all-rows"
	sigNegZ   = "hash-in-negative-zero-decimal"
	sigLikeCI = "like-prefix-range-on-ci-function-compares-binary"
	sigG4     = "concat-lookup-join-drops-pushed-down-conjunct"
	sigOnSub  = "on-clause-correlated-subquery-in-hash-join-key"
	sigG6     = "rangeheap-join-drops-pushed-down-filter"
	sigG7     = "merge-join-on-expression-of-indexed-column"
	sigG8     = "hash-join-key-on-ci-function-hashes-binary"

	sigNullArith = "in-subquery-double-vs-decimal-select-list-says-false"
)

// rejected is the post-generation part of the core domain (a filter, so that adding a class does not
// reshuffle the seeded streams): it names the excluded input class or returns "".
func rejected(p *g6blib.Expr) string {
	why := ""
	p.Walk(func(e *g6blib.Expr) {
		if e.Op == "bin" || e.Op == "neg" {
			for _, a := range e.Args {
				if a.Op == "lit" && a.Name == "NULL" {
					// the engine types NULL-literal arithmetic as DOUBLE; a DOUBLE operand in IN (subquery) / hash
					// comparisons against DECIMAL is the known finding sigNullArith
					why = "arithmetic-over-null-literal"
				}
			}
		}
	})
	return why
}

var simpleMergeCmp = regexp.MustCompile(`^cmp: \(\w+\.\w+ = \w+\.\w+\)$`)

// classify gives a violation found by the core exploration its signature: one of the known via=signature
// findings when its matcher applies, else "c05:<clause>:<failure mode>:<skeleton of the minimised predicate>".
func classify(s *core.Sess, sc *g6blib.Schema, sh *shape, p *g6blib.Expr, o *outcome, f feats) (string, map[string]any) {
	psql := p.SQL()
	plans := ""
	exprMerge := false
	for _, k := range []string{"TRUE", "FALSE", "NULL"} {
		pl := s.Plan(o.queries[k])
		plans += pl
		for _, l := range strings.Split(pl, "\n") {
			t := strings.TrimLeft(l, " │├└─")
			if strings.HasPrefix(t, "cmp: ") && !simpleMergeCmp.MatchString(t) {
				exprMerge = true
			}
		}
	}
	// merge-join family: the same case holds with merge joins disabled
	if strings.Contains(plans, "MergeJoin") {
		s.MustExec("SET @@SESSION.disable_merge_join = 1")
		o2 := judge(s, sh, psql)
		s.MustExec("SET @@SESSION.disable_merge_join = 0")
		if o2.verdict == "held" {
			// F9: IN (subquery) negated into an anti-join run as LeftOuterMergeJoin; every discrepancy is "filter
			// keeps a row whose select-list value is NULL"
			if f.inSub && o.extraOnlyNull && !o.tlpOK {
				return sigF9, nil
			}
			// G7: the merge comparison is over an expression of the indexed column (input not sorted by it)
			if exprMerge {
				return sigG7, nil
			}
		}
	}
	// join-operator family: the same case holds when the join is forced to a plain nested-loop join by hint
	hintRepairs := false
	if strings.Contains(sh.ids, "x1.id") {
		var qs [][2]string
		for _, k := range []string{"Q", "TRUE", "FALSE", "NULL", "PROJ"} {
			qs = append(qs, [2]string{k, strings.Replace(o.queries[k], "SELECT ", "SELECT /*+ INNER_JOIN(x0,x1) */ ", 1)})
		}
		hintRepairs = judgeQueries(s, qs).verdict == "held"
		if hintRepairs {
			switch {
			case strings.Contains(plans, "Concat") && strings.Contains(plans, "LookupJoin"):
				return sigG4, nil
			case strings.Contains(plans, "RangeHeapJoin"):
				return sigG6, nil
			}
		}
	}
	// minimise predicate and rows; the signature names the minimised failing input class and the failure mode
	mp, msc, mo := minimize(s, sc, sh, p)
	extra := map[string]any{"minimized": map[string]any{"predicate": mp.SQL(), "setup": msc.Setup(), "queries": mo.queries, "results": mo.results, "mode": mo.mode}}
	if hintRepairs && strings.Contains(plans, "HashJoin") && ciFuncEquality(mp) {
		return sigG8, extra
	}
	return "c05:" + sh.clause + ":" + mo.mode + ":" + mp.Shape(), extra
}

// ciFuncEquality: the (minimised) predicate is an equality between case-insensitive strings one of which is
// a function result.
func ciFuncEquality(p *g6blib.Expr) bool {
	if p.Op != "cmp" || (p.Name != "=" && p.Name != "<=>") {
		return false
	}
	l, r := p.Args[0], p.Args[1]
	return l.Kind == g6blib.KCI && r.Kind == g6blib.KCI && (l.Op != "col" || r.Op != "col")
}

var tableShape = func(t string) *shape {
	return &shape{name: "table", clause: "WHERE", ids: "x0.id", from: "FROM " + t + " x0"}
}

type classCase struct {
	sig      string
	what     string
	setup    []string
	sh       *shape
	p        string
	repaired string // "" = no repair rewrite: the failure itself (with the stated mode) is the signature
	mode     string // required substring of the failure mode ("" = any)
}

// runClass judges one case of a known class. Returns whether it (still) fails with the known signature.
func runClass(r *core.Run, c classCase, pinnedCase bool) {
	e := core.NewEng("d")
	defer e.Close()
	s := e.NewSess()
	for _, q := range c.setup {
		s.MustExec(q)
	}
	o := judge(s, c.sh, c.p)
	w := map[string]any{"class": c.sig, "setup": c.setup, "predicate": c.p, "repaired": c.repaired, "queries": o.queries, "results": o.results, "mode": o.mode}
	known := false
	switch o.verdict {
	case "held":
		r.Eval(2)
	case "inconclusive":
		r.Inconclusive("class-probe:" + o.mode)
	case "panic":
		if c.sig == sigF10 && strings.HasPrefix(o.panicR.Panic.Sig(), "panic:sql/transform.Expr:runtime error: invalid memory address") {
			known = true
		} else {
			w["panic"] = o.panicR.Panic.Value
			w["stack"] = core.Clip(o.panicR.Panic.Stack, 3000)
			r.Violation("class:"+c.sig+":"+o.panicR.Panic.Sig(), w)
		}
	case "violated":
		r.Eval(2)
		ok := c.mode == "" || strings.Contains(o.mode, c.mode)
		if ok && c.repaired != "" {
			o2 := judge(s, c.sh, c.repaired)
			ok = o2.verdict == "held"
			w["repaired_verdict"] = o2.verdict + " " + o2.mode
		}
		if ok && c.sig != sigF10 {
			known = true
		} else {
			r.Violation("class:"+c.sig+":unexpected-mode:"+o.mode, w)
		}
	}
	if pinnedCase {
		r.Pinned(c.sig, c.what+" ["+c.p+" → "+o.mode+"]", known, w)
	} else if known {
		r.Violation(c.sig, w)
	}
	r.Count("class-probe."+c.sig, 1)
}

func orChain(left string, neg bool, vals []string) string {
	var parts []string
	for _, v := range vals {
		parts = append(parts, "("+left+" = "+v+")")
	}
	out := "(" + strings.Join(parts, " OR ") + ")"
	if neg {
		out = "(NOT " + out + ")"
	}
	return out
}

func pinnedCases() []classCase {
	tu := []string{
		"CREATE TABLE t (id INT PRIMARY KEY, a INT, b INT, d DECIMAL(8,2), c VARCHAR(16) COLLATE utf8mb4_0900_ai_ci, ci VARCHAR(16) COLLATE utf8mb4_0900_ai_ci, KEY ka (a), KEY kd (d), KEY kci (ci))",
		"INSERT INTO t VALUES (1,1,2,1.50,'a','a'),(2,2,NULL,2.50,'A','A'),(3,NULL,3,NULL,'b','b'),(4,3,3,3.00,NULL,NULL),(5,5,1,1.40,'B ','B ')",
		"CREATE TABLE u (id INT PRIMARY KEY, a INT, KEY ka (a))",
		"INSERT INTO u VALUES (1,1),(2,NULL),(3,3),(4,3),(5,3),(6,5),(7,3),(8,5)",
		"CREATE TABLE w (id INT PRIMARY KEY, a INT, d DECIMAL(8,2))",
		"INSERT INTO w VALUES (1,100,NULL),(2,7,0.00),(3,3,2.50),(4,4,1.40),(5,5,2.00)",
	}
	return []classCase{
		{sig: sigF9, what: "x NOT IN (subquery yielding NULL) evaluated as LeftOuterMergeJoin + IS NULL returns the rows whose NOT IN value is NULL", setup: tu,
			sh: tableShape("t"), p: "(x0.a IN (SELECT s1.a FROM u s1))", mode: "FALSE:filter-keeps-extra-rows"},
		{sig: sigF14, what: "integer operand IN (integer, fractional decimal …): the filter (HashInTuple keyed by the first element's type) rounds 2.5 to 3, the select list (InTuple) compares exactly", setup: tu,
			sh: tableShape("t"), p: "(x0.b IN (1, 2.5, 2, 5))", repaired: orChain("x0.b", false, []string{"1", "2.5", "2", "5"}), mode: "TRUE:filter-keeps-extra-rows"},
		{sig: sigF5, what: "IN list over an indexed _ai_ci column: the index range honours the collation, the select list (InTuple over literals) compares binary, so 'a' IN ('A','B') is kept by the filter and 0 in the select list (without an index both positions are consistently binary; C06/C07 pin that form)", setup: tu,
			sh: tableShape("t"), p: "(x0.ci IN ('A', 'B'))", repaired: orChain("x0.ci", false, []string{"'A'", "'B'"}), mode: "TRUE:filter-keeps-extra-rows"},
		{sig: sigF10, what: "indexed INT column IN (only fractional literals) panics with a nil dereference while building the index ranges", setup: tu,
			sh: tableShape("t"), p: "(x0.a IN (2.5))"},
		{sig: sigG1, what: "indexed DECIMAL column <> fractional literal: the index range is (NULL, inf), the row equal to the literal is returned", setup: tu,
			sh: tableShape("t"), p: "(x0.d <> 2.50)", repaired: "((x0.d < 2.50) OR (x0.d > 2.50))", mode: "TRUE:filter-keeps-extra-rows"},
		{sig: sigG2, what: "inner join ON decimal_col = int_pk executed as LookupJoin rounds the DECIMAL key to the integer index type (2.50 matches id 3, 1.40 matches id 1)", setup: tu,
			sh: &shape{name: "on", clause: "ON", ids: "x0.id, x1.id", from: "FROM w x0 CROSS JOIN u x1", onFrom: "FROM w x0 JOIN u x1 ON "},
			p:  "(x0.d = x1.id)", repaired: "((x0.d + 0) = (x1.id + 0))", mode: "TRUE:filter-keeps-extra-rows"},
		{sig: sigF13, what: "ci_col <=> 'B' in the select list compares binary ('b' <=> 'B' is 0) while the index lookup honours the collation", setup: tu,
			sh: tableShape("t"), p: "(x0.ci <=> 'B')", mode: "TRUE:filter-keeps-extra-rows"},
		{sig: sigNegZ, what: "IN list (HashInTuple) hashes a negative-zero DECIMAL differently from 0: (-1.50 * 0) IN (0.00) is not kept by the filter, 1 in the select list", setup: tu,
			sh: tableShape("w"), p: "(((x0.d - 2.50) * 0) IN (0.00))", repaired: "(((x0.d - 2.50) * 0) = 0.00)", mode: "TRUE:filter-loses-rows"},
		{sig: sigLikeCI, what: "LIKE 'a%' over a function of an _ai_ci column: the filter adds the prefix range (LEFT(c,2) >= 'a') which is compared binary, so 'A' is lost by the filter and 1 in the select list", setup: tu,
			sh: tableShape("t"), p: "(LEFT(x0.c, 2) LIKE 'a%')", mode: "TRUE:filter-loses-rows"},
		{sig: sigG4, what: "ON (x0.a = 5 OR x1.id = x0.id) AND x1.s = '' with KEY(s): the concat lookup join turns the pushed-down conjunct x1.s = '' into the lookup of the first disjunct and drops it as a filter",
			setup: []string{"CREATE TABLE t (id INT PRIMARY KEY, a INT, s VARCHAR(20) COLLATE utf8mb4_0900_bin, KEY ks (s))", "INSERT INTO t VALUES (1, 7, 'a'),(2,2,'')", "CREATE TABLE u (id INT PRIMARY KEY, a INT)", "INSERT INTO u VALUES (1, 2),(2,2)"},
			sh:    &shape{name: "on", clause: "ON", ids: "x0.id, x1.id", from: "FROM u x0 CROSS JOIN t x1", onFrom: "FROM u x0 JOIN t x1 ON "},
			p:     "(((x0.a = 5) OR (x1.id = x0.id)) AND (x1.s = ''))", mode: "TRUE:filter-keeps-extra-rows"},
		{sig: sigOnSub, what: "ON IF(EXISTS(subquery correlated to x0), 'b%', x1.c) = 'b%' becomes a HashJoin whose lookup key contains the subquery and is evaluated on the wrong side: pair 3|4 is lost",
			setup: []string{"CREATE TABLE t (id INT PRIMARY KEY, dt DATE, KEY kdt (dt))", "INSERT INTO t VALUES (1, '2020-02-29'), (2, NULL), (3, '2021-06-15')", "CREATE TABLE u (id INT PRIMARY KEY, c VARCHAR(20), dt DATE)", "INSERT INTO u VALUES (1, 'b%', '2000-01-01'), (2, 'a b', '2000-01-01'), (3, 'xyz', '2021-06-15'), (4, 'b', NULL)"},
			sh:    &shape{name: "on", clause: "ON", ids: "x0.id, x1.id", from: "FROM t x0 CROSS JOIN u x1", onFrom: "FROM t x0 JOIN u x1 ON "},
			p:     "(IF((EXISTS (SELECT 1 FROM u s1 WHERE (s1.dt = x0.dt))), 'b%', x1.c) = 'b%')", mode: "TRUE:filter-loses-rows"},
		{sig: sigG6, what: "ON (x1.id BETWEEN x0.b AND x0.id) AND x1.a = 7 planned as RangeHeapJoin: the single-table conjunct x1.a = 7 pushed below the join is dropped (right side becomes a bare IndexedTableAccess)",
			setup: []string{"CREATE TABLE t (id INT PRIMARY KEY, a INT, b SMALLINT)", "INSERT INTO t VALUES (2, 5, 1)", "CREATE TABLE u (id INT PRIMARY KEY, a INT, b SMALLINT)", "INSERT INTO u VALUES (4, -1, 2)"},
			sh:    &shape{name: "on", clause: "ON", ids: "x0.id, x1.id", from: "FROM u x0 CROSS JOIN t x1", onFrom: "FROM u x0 JOIN t x1 ON "},
			p:     "((x1.id BETWEEN x0.b AND x0.id) AND (x1.a = 7))", mode: "TRUE:filter-keeps-extra-rows"},
		{sig: sigG7, what: "(x0.a * (-1)) IN (SELECT a FROM t) with indexes on both a columns: MergeJoin cmp ((x0.a * -1) = s1.a) reads x0 in index order of a, not of the key expression, and misses matches",
			setup: []string{"CREATE TABLE t (id INT PRIMARY KEY, a INT, KEY ka (a))", "INSERT INTO t VALUES (1,-1),(2,-2),(3,-3),(4,-5),(5,-7)", "CREATE TABLE u (id INT PRIMARY KEY, a INT, KEY ka (a))", "INSERT INTO u VALUES (1,1),(2,2),(3,3),(4,4),(5,5),(6,6),(7,7)"},
			sh:    tableShape("u"), p: "((x0.a * (-1)) IN (SELECT s1.a FROM t s1))"},
		{sig: sigG8, what: "ON COALESCE(x1.c, 'A') = x0.c over _ai_ci columns planned as HashJoin: the key of the function side is hashed without the collation, 'A' and 'a' do not meet although '=' is TRUE",
			setup: []string{"CREATE TABLE t (id INT PRIMARY KEY, c VARCHAR(20) COLLATE utf8mb4_0900_ai_ci)", "INSERT INTO t VALUES (1, NULL), (3, 'a')", "CREATE TABLE u (id INT PRIMARY KEY, c VARCHAR(20) COLLATE utf8mb4_0900_ai_ci)", "INSERT INTO u VALUES (1, 'ab'), (2, 'ab'), (3, 'A'), (4, '10'), (5, '10')"},
			sh:    &shape{name: "on", clause: "ON", ids: "x0.id, x1.id", from: "FROM t x0 CROSS JOIN u x1", onFrom: "FROM t x0 JOIN u x1 ON "},
			p:     "(COALESCE(x1.c, 'A') = x0.c)", mode: "TRUE:filter-loses-rows"},
		{sig: sigNullArith, what: "COALESCE(NULL * 1, d) is typed DOUBLE; DOUBLE IN (SELECT decimal) is 0 in the select list (InSubquery hash) but the row is kept by the semi-join filter",
			setup: []string{"CREATE TABLE u (id INT PRIMARY KEY, d DECIMAL(8,2))", "INSERT INTO u VALUES (2, 100.00)"},
			sh:    tableShape("u"), p: "(COALESCE((NULL * 1), x0.d) IN (SELECT s1.d FROM u s1))", mode: "TRUE:filter-keeps-extra-rows"},
		{sig: sigIdAll, what: "INT primary key IN (fractional literal) returns every row", setup: tu,
			sh: tableShape("t"), p: "(x0.id IN (2.5))", repaired: "(x0.id = 2.5)", mode: "TRUE:filter-keeps-extra-rows"},
	}
}

func pinned(r *core.Run) {
	for _, c := range pinnedCases() {
		runClass(r, c, true)
	}
}

// classProbes runs seeded single-atom variants of the excluded classes.
func classProbes(r *core.Run) {
	n := r.N(40, 400)
	r.Parallel("class", n, func(i int) {
		rnd := r.Rand("class", i)
		sc := g6blib.GenSchema(rnd, g6blib.SchemaOpts{Tables: 2, NoJSON: true})
		t := sc.Tables[0]
		setup := sc.Setup()
		pick := func(p []string) string { return p[rnd.Intn(len(p))] }
		switch i % 3 {
		case 0: // F14: non-indexed integer operand, list starting anywhere with ints and fractional decimals
			left := pick([]string{"x0.b", "(x0.a + 0)", "(x0.b + 1)", "ABS(x0.b)"})
			if t.Col("b").Indexed {
				left = "(x0.b + 0)"
			}
			var vals []string
			for k := 0; k < 2+rnd.Intn(4); k++ {
				if rnd.Intn(2) == 0 {
					vals = append(vals, pick([]string{"1", "2", "3", "5", "10"}))
				} else {
					vals = append(vals, pick([]string{"0.5", "1.5", "2.5", "4.5", "9.5", "2.4"}))
				}
			}
			neg := rnd.Intn(3) == 0
			not := ""
			if neg {
				not = "NOT "
			}
			runClass(r, classCase{sig: sigF14, setup: setup, sh: tableShape("t"),
				p: "(" + left + " " + not + "IN (" + strings.Join(vals, ", ") + "))", repaired: orChain(left, neg, vals)}, false)
		case 1: // G1: indexed DECIMAL column <> / NOT = fractional literal
			if d := t.Col("d"); d == nil || !d.Indexed {
				return
			}
			v := pick([]string{"1.50", "2.50", "10.25", "(-1.50)"})
			p := "(x0.d <> " + v + ")"
			if rnd.Intn(2) == 0 {
				p = "(NOT (x0.d = " + v + "))"
			}
			runClass(r, classCase{sig: sigG1, setup: setup, sh: tableShape("t"), p: p, repaired: "((x0.d < " + v + ") OR (x0.d > " + v + "))", mode: "TRUE:filter-keeps-extra-rows"}, false)
		case 2: // F5 indexed variant: ci column with an index, IN list of strings
			c := t.Col("c")
			if c == nil || !c.Indexed {
				return
			}
			var vals []string
			for k := 0; k < 1+rnd.Intn(3); k++ {
				vals = append(vals, pick([]string{"'A'", "'a'", "'B'", "'b'", "'AB'", "'e'", "'XYZ'"}))
			}
			runClass(r, classCase{sig: sigF5, setup: setup, sh: tableShape("t"),
				p: "(x0.c IN (" + strings.Join(vals, ", ") + "))", repaired: orChain("x0.c", false, vals)}, false)
		}
	})
}

// replay re-judges the statements of a witness file written by this monitor.
func replay(r *core.Run) {
	b, err := os.ReadFile(r.Replay)
	if err != nil {
		fmt.Println("cannot read replay file:", err)
		os.Exit(2)
	}
	var doc struct {
		Signature string `json:"signature"`
		Witness   struct {
			Setup   []string          `json:"setup"`
			Queries map[string]string `json:"queries"`
		} `json:"witness"`
	}
	if err := json.Unmarshal(b, &doc); err != nil || len(doc.Witness.Queries) == 0 {
		fmt.Println("replay file has no queries:", err)
		os.Exit(2)
	}
	e := core.NewEng("d")
	defer e.Close()
	s := e.NewSess()
	for _, q := range doc.Witness.Setup {
		s.MustExec(q)
	}
	var qs [][2]string
	for _, k := range []string{"Q", "TRUE", "FALSE", "NULL", "PROJ"} {
		qs = append(qs, [2]string{k, doc.Witness.Queries[k]})
	}
	o := judgeQueries(s, qs)
	fmt.Printf("replay: verdict=%s mode=%s\n", o.verdict, o.mode)
	for k, v := range o.results {
		fmt.Printf("  %s: %v\n", k, v)
	}
	r.Eval(1)
	r.Distinct("replay")
	r.Distinct("replay2")
	if o.verdict == "violated" || o.verdict == "panic" {
		r.Violation("replay:"+doc.Signature, map[string]any{"setup": doc.Witness.Setup, "queries": o.queries, "results": o.results, "mode": o.mode})
	}
}
