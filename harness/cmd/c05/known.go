package main

import (
	"encoding/json"
	"fmt"
	"os"
	"strings"

	"verif/harness/core"
	"verif/harness/g6blib"
)

// Known findings of C05 (see /verif/findings/C05.md). The input classes below are excluded from the core
// exploration (via=domain) and exercised here instead: each class has one pinned witness replayed on every
// run and a few seeded single-atom variants. A class violation is attributed to the known signature only
// when the class's repair rewrite (which avoids the defective mechanism and is equivalent under SQL) makes
// the same case hold; anything else in the class is reported under its own signature.

const (
	sigF9    = "in-subquery-null-antijoin-mergejoin"
	sigF14   = "inlist-int-decimal-literals-hash-in-rounds"
	sigF5    = "inlist-ci-string-ignores-collation"
	sigF10   = "inlist-all-fractional-on-indexed-int-panics"
	sigG1    = "neq-fractional-literal-on-indexed-decimal-keeps-equal-row"
	sigG2    = "decimal-lookup-key-into-int-index-rounds"
	sigF13   = "nullsafe-eq-ci-string-index-vs-select-list"
	sigIdAll = "inlist-fractional-on-int-primary-key-returns-all-rows"
)

// matchKnown attributes a minimised violation found by the core exploration to a known class (none so far
// besides F9, which is matched before minimisation).
func matchKnown(sh *shape, mp *g6blib.Expr, msc *g6blib.Schema, mo *outcome) string { return "" }

var tableShape = func(t string) *shape {
	return &shape{name: "table", clause: "WHERE", ids: "x0.id", from: "FROM " + t + " x0"}
}

type classCase struct {
	sig      string
	what     string
	setup    []string
	sh       *shape
	p        string
	repaired string // "" = no repair rewrite: the failure itself (with the stated mode) is the signature
	mode     string // required substring of the failure mode ("" = any)
}

// runClass judges one case of a known class. Returns whether it (still) fails with the known signature.
func runClass(r *core.Run, c classCase, pinnedCase bool) {
	e := core.NewEng("d")
	defer e.Close()
	s := e.NewSess()
	for _, q := range c.setup {
		s.MustExec(q)
	}
	o := judge(s, c.sh, c.p)
	w := map[string]any{"class": c.sig, "setup": c.setup, "predicate": c.p, "repaired": c.repaired, "queries": o.queries, "results": o.results, "mode": o.mode}
	known := false
	switch o.verdict {
	case "held":
		r.Eval(2)
	case "inconclusive":
		r.Inconclusive("class-probe:" + o.mode)
	case "panic":
		if c.sig == sigF10 && strings.HasPrefix(o.panicR.Panic.Sig(), "panic:sql/transform.Expr:runtime error: invalid memory address") {
			known = true
		} else {
			w["panic"] = o.panicR.Panic.Value
			w["stack"] = core.Clip(o.panicR.Panic.Stack, 3000)
			r.Violation("class:"+c.sig+":"+o.panicR.Panic.Sig(), w)
		}
	case "violated":
		r.Eval(2)
		ok := c.mode == "" || strings.Contains(o.mode, c.mode)
		if ok && c.repaired != "" {
			o2 := judge(s, c.sh, c.repaired)
			ok = o2.verdict == "held"
			w["repaired_verdict"] = o2.verdict + " " + o2.mode
		}
		if ok && c.sig != sigF10 {
			known = true
		} else {
			r.Violation("class:"+c.sig+":unexpected-mode:"+o.mode, w)
		}
	}
	if pinnedCase {
		r.Pinned(c.sig, c.what+" ["+c.p+" → "+o.mode+"]", known, w)
	} else if known {
		r.Violation(c.sig, w)
	}
	r.Count("class-probe."+c.sig, 1)
}

func orChain(left string, neg bool, vals []string) string {
	var parts []string
	for _, v := range vals {
		parts = append(parts, "("+left+" = "+v+")")
	}
	out := "(" + strings.Join(parts, " OR ") + ")"
	if neg {
		out = "(NOT " + out + ")"
	}
	return out
}

func pinnedCases() []classCase {
	tu := []string{
		"CREATE TABLE t (id INT PRIMARY KEY, a INT, b INT, d DECIMAL(8,2), c VARCHAR(16) COLLATE utf8mb4_0900_ai_ci, ci VARCHAR(16) COLLATE utf8mb4_0900_ai_ci, KEY ka (a), KEY kd (d), KEY kci (ci))",
		"INSERT INTO t VALUES (1,1,2,1.50,'a','a'),(2,2,NULL,2.50,'A','A'),(3,NULL,3,NULL,'b','b'),(4,3,3,3.00,NULL,NULL),(5,5,1,1.40,'B ','B ')",
		"CREATE TABLE u (id INT PRIMARY KEY, a INT, KEY ka (a))",
		"INSERT INTO u VALUES (1,1),(2,NULL),(3,3),(4,3),(5,3),(6,5),(7,3),(8,5)",
		"CREATE TABLE w (id INT PRIMARY KEY, a INT, d DECIMAL(8,2))",
		"INSERT INTO w VALUES (1,100,NULL),(2,7,0.00),(3,3,2.50),(4,4,1.40),(5,5,2.00)",
	}
	return []classCase{
		{sig: sigF9, what: "x NOT IN (subquery yielding NULL) evaluated as LeftOuterMergeJoin + IS NULL returns the rows whose NOT IN value is NULL", setup: tu,
			sh: tableShape("t"), p: "(x0.a IN (SELECT s1.a FROM u s1))", mode: "FALSE:filter-keeps-extra-rows"},
		{sig: sigF14, what: "integer operand IN (integer, fractional decimal …): the filter (HashInTuple keyed by the first element's type) rounds 2.5 to 3, the select list (InTuple) compares exactly", setup: tu,
			sh: tableShape("t"), p: "(x0.b IN (1, 2.5, 2, 5))", repaired: orChain("x0.b", false, []string{"1", "2.5", "2", "5"}), mode: "TRUE:filter-keeps-extra-rows"},
		{sig: sigF5, what: "IN list over an indexed _ai_ci column: the index range honours the collation, the select list (InTuple over literals) compares binary, so 'a' IN ('A','B') is kept by the filter and 0 in the select list (without an index both positions are consistently binary; C06/C07 pin that form)", setup: tu,
			sh: tableShape("t"), p: "(x0.ci IN ('A', 'B'))", repaired: orChain("x0.ci", false, []string{"'A'", "'B'"}), mode: "TRUE:filter-keeps-extra-rows"},
		{sig: sigF10, what: "indexed INT column IN (only fractional literals) panics with a nil dereference while building the index ranges", setup: tu,
			sh: tableShape("t"), p: "(x0.a IN (2.5))"},
		{sig: sigG1, what: "indexed DECIMAL column <> fractional literal: the index range is (NULL, inf), the row equal to the literal is returned", setup: tu,
			sh: tableShape("t"), p: "(x0.d <> 2.50)", repaired: "((x0.d < 2.50) OR (x0.d > 2.50))", mode: "TRUE:filter-keeps-extra-rows"},
		{sig: sigG2, what: "inner join ON decimal_col = int_pk executed as LookupJoin rounds the DECIMAL key to the integer index type (2.50 matches id 3, 1.40 matches id 1)", setup: tu,
			sh: &shape{name: "on", clause: "ON", ids: "x0.id, x1.id", from: "FROM w x0 CROSS JOIN u x1", onFrom: "FROM w x0 JOIN u x1 ON "},
			p:  "(x0.d = x1.id)", repaired: "((x0.d + 0) = (x1.id + 0))", mode: "TRUE:filter-keeps-extra-rows"},
		{sig: sigF13, what: "ci_col <=> 'B' in the select list compares binary ('b' <=> 'B' is 0) while the index lookup honours the collation", setup: tu,
			sh: tableShape("t"), p: "(x0.ci <=> 'B')", mode: "TRUE:filter-keeps-extra-rows"},
		{sig: sigIdAll, what: "INT primary key IN (fractional literal) returns every row", setup: tu,
			sh: tableShape("t"), p: "(x0.id IN (2.5))", repaired: "(x0.id = 2.5)", mode: "TRUE:filter-keeps-extra-rows"},
	}
}

func pinned(r *core.Run) {
	for _, c := range pinnedCases() {
		runClass(r, c, true)
	}
}

// classProbes runs seeded single-atom variants of the excluded classes.
func classProbes(r *core.Run) {
	n := r.N(40, 400)
	r.Parallel("class", n, func(i int) {
		rnd := r.Rand("class", i)
		sc := g6blib.GenSchema(rnd, g6blib.SchemaOpts{Tables: 2, NoJSON: true})
		t := sc.Tables[0]
		setup := sc.Setup()
		pick := func(p []string) string { return p[rnd.Intn(len(p))] }
		switch i % 3 {
		case 0: // F14: non-indexed integer operand, list starting anywhere with ints and fractional decimals
			left := pick([]string{"x0.b", "(x0.a + 0)", "(x0.b + 1)", "ABS(x0.b)"})
			if t.Col("b").Indexed {
				left = "(x0.b + 0)"
			}
			var vals []string
			for k := 0; k < 2+rnd.Intn(4); k++ {
				if rnd.Intn(2) == 0 {
					vals = append(vals, pick([]string{"1", "2", "3", "5", "10"}))
				} else {
					vals = append(vals, pick([]string{"0.5", "1.5", "2.5", "4.5", "9.5", "2.4"}))
				}
			}
			neg := rnd.Intn(3) == 0
			not := ""
			if neg {
				not = "NOT "
			}
			runClass(r, classCase{sig: sigF14, setup: setup, sh: tableShape("t"),
				p: "(" + left + " " + not + "IN (" + strings.Join(vals, ", ") + "))", repaired: orChain(left, neg, vals)}, false)
		case 1: // G1: indexed DECIMAL column <> / NOT = fractional literal
			if d := t.Col("d"); d == nil || !d.Indexed {
				return
			}
			v := pick([]string{"1.50", "2.50", "10.25", "(-1.50)"})
			p := "(x0.d <> " + v + ")"
			if rnd.Intn(2) == 0 {
				p = "(NOT (x0.d = " + v + "))"
			}
			runClass(r, classCase{sig: sigG1, setup: setup, sh: tableShape("t"), p: p, repaired: "((x0.d < " + v + ") OR (x0.d > " + v + "))", mode: "TRUE:filter-keeps-extra-rows"}, false)
		case 2: // F5 indexed variant: ci column with an index, IN list of strings
			c := t.Col("c")
			if c == nil || !c.Indexed {
				return
			}
			var vals []string
			for k := 0; k < 1+rnd.Intn(3); k++ {
				vals = append(vals, pick([]string{"'A'", "'a'", "'B'", "'b'", "'AB'", "'e'", "'XYZ'"}))
			}
			runClass(r, classCase{sig: sigF5, setup: setup, sh: tableShape("t"),
				p: "(x0.c IN (" + strings.Join(vals, ", ") + "))", repaired: orChain("x0.c", false, vals)}, false)
		}
	})
}

// replay re-judges the statements of a witness file written by this monitor.
func replay(r *core.Run) {
	b, err := os.ReadFile(r.Replay)
	if err != nil {
		fmt.Println("cannot read replay file:", err)
		os.Exit(2)
	}
	var doc struct {
		Signature string `json:"signature"`
		Witness   struct {
			Setup   []string          `json:"setup"`
			Queries map[string]string `json:"queries"`
		} `json:"witness"`
	}
	if err := json.Unmarshal(b, &doc); err != nil || len(doc.Witness.Queries) == 0 {
		fmt.Println("replay file has no queries:", err)
		os.Exit(2)
	}
	e := core.NewEng("d")
	defer e.Close()
	s := e.NewSess()
	for _, q := range doc.Witness.Setup {
		s.MustExec(q)
	}
	var qs [][2]string
	for _, k := range []string{"Q", "TRUE", "FALSE", "NULL", "PROJ"} {
		qs = append(qs, [2]string{k, doc.Witness.Queries[k]})
	}
	o := judgeQueries(s, qs)
	fmt.Printf("replay: verdict=%s mode=%s\n", o.verdict, o.mode)
	for k, v := range o.results {
		fmt.Printf("  %s: %v\n", k, v)
	}
	r.Eval(1)
	r.Distinct("replay")
	r.Distinct("replay2")
	if o.verdict == "violated" || o.verdict == "panic" {
		r.Violation("replay:"+doc.Signature, map[string]any{"setup": doc.Witness.Setup, "queries": o.queries, "results": o.results, "mode": o.mode})
	}
}
