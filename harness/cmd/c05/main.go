// C05 — a predicate partitions rows into TRUE, FALSE and NULL parts.
//
// Oracle (metamorphic, the engine against itself on one database state):
//
//	(1) ternary-logic partitioning: rows(Q) = rows(Q filtered by p) ⊎ rows(Q filtered by NOT p) ⊎
//	    rows(Q filtered by p IS NULL) as multisets of row identities;
//	(2) filter vs. select list: with V = SELECT ids, (p) FROM Q, the rows kept by the filter p are exactly
//	    the rows of V whose p is TRUE, those kept by NOT p the rows whose p is FALSE, those kept by
//	    p IS NULL the rows whose p is NULL.
//
// The filter position is WHERE (table, inner/left join, derived table), HAVING (grouped query) or the ON
// clause of an inner join (Q = the cross join). Predicates come from the typed grammar in g6blib.
package main

import (
	"fmt"
	"os"
	"sort"
	"strings"

	"verif/harness/core"
	"verif/harness/g6blib"
)

type shape struct {
	name   string
	clause string // WHERE | HAVING | ON
	ids    string // select list identifying a row of Q
	from   string // FROM … (for ON: the cross join)
	onFrom string // for ON: "FROM t x0 JOIN u x1 ON "
	baseW  string // Q's own WHERE condition ("" if none)
	group  string // " GROUP BY …" for HAVING
	scope  []*g6blib.ColRef
	subs   []*g6blib.Table
	noSub  bool
}

func (sh *shape) base() string {
	q := "SELECT " + sh.ids + " " + sh.from
	if sh.baseW != "" {
		q += " WHERE " + sh.baseW
	}
	return q + sh.group
}

func (sh *shape) filt(p string) string {
	switch sh.clause {
	case "HAVING":
		return "SELECT " + sh.ids + " " + sh.from + sh.group + " HAVING " + p
	case "ON":
		return "SELECT " + sh.ids + " " + sh.onFrom + p
	}
	if sh.baseW != "" {
		return "SELECT " + sh.ids + " " + sh.from + " WHERE " + sh.baseW + " AND " + p
	}
	return "SELECT " + sh.ids + " " + sh.from + " WHERE " + p
}

func (sh *shape) proj(p string) string {
	q := "SELECT " + sh.ids + ", " + p + " " + sh.from
	if sh.baseW != "" {
		q += " WHERE " + sh.baseW
	}
	return q + sh.group
}

func joinCond(rnd interface{ Intn(int) int }, l, r string) string {
	switch rnd.Intn(5) {
	case 0:
		return l + ".a = " + r + ".id"
	case 1:
		return l + ".b = " + r + ".b"
	case 2:
		return l + ".id = " + r + ".a"
	}
	return l + ".a = " + r + ".a"
}

func genShape(rnd interface {
	Intn(int) int
	Float64() float64
}, sc *g6blib.Schema, g *g6blib.Gen) *shape {
	t, u := sc.Tables[0], sc.Tables[1]
	if rnd.Intn(2) == 0 {
		t, u = u, t
	}
	sh := &shape{clause: "WHERE", subs: sc.Tables}
	simple := func(scope []*g6blib.ColRef) string {
		sg := &g6blib.Gen{Rnd: g.Rnd, Scope: scope, NoSubquery: true, NoJSON: true, Domain: g.Domain}
		return sg.Bool(1).SQL()
	}
	switch k := rnd.Intn(20); {
	case k < 7:
		sh.name = "table"
		sh.ids = "x0.id"
		sh.from = "FROM " + t.Name + " x0"
		sh.scope = g6blib.Refs(t, "x0")
		if rnd.Intn(5) == 0 {
			sh.baseW = simple(sh.scope)
			sh.name = "table+where"
		}
	case k < 10:
		sh.name = "innerjoin"
		sh.ids = "x0.id, x1.id"
		sh.from = "FROM " + t.Name + " x0 JOIN " + u.Name + " x1 ON " + joinCond(rnd, "x0", "x1")
		sh.scope = append(g6blib.Refs(t, "x0"), g6blib.Refs(u, "x1")...)
		if rnd.Intn(3) == 0 { // predicate on one side only (push-down below the join)
			sh.name = "innerjoin-oneside"
			if rnd.Intn(2) == 0 {
				sh.scope = g6blib.Refs(t, "x0")
			} else {
				sh.scope = g6blib.Refs(u, "x1")
			}
		}
	case k < 12:
		sh.name = "leftjoin"
		sh.ids = "x0.id, x1.id"
		sh.from = "FROM " + t.Name + " x0 LEFT JOIN " + u.Name + " x1 ON " + joinCond(rnd, "x0", "x1")
		sh.scope = append(g6blib.Refs(t, "x0"), g6blib.Refs(u, "x1")...)
		for _, r := range sh.scope[len(sh.scope)-len(u.Cols)-1:] {
			r.Nullable = true
		}
		if rnd.Intn(3) == 0 {
			sh.name = "leftjoin-oneside"
			if rnd.Intn(2) == 0 {
				sh.scope = sh.scope[:len(t.Cols)+1]
			} else {
				sh.scope = sh.scope[len(t.Cols)+1:]
			}
		}
	case k < 14:
		sh.name = "derived"
		sh.ids = "x0.id"
		inner := "SELECT * FROM " + t.Name
		switch rnd.Intn(5) {
		case 0, 1:
			inner += " WHERE " + simple(g6blib.Refs(t, t.Name))
		case 2:
			// a LIMIT (total order) inside the derived table: an outer filter does not commute with it and
			// must not be pushed below it
			inner += fmt.Sprintf(" ORDER BY id LIMIT %d", 1+rnd.Intn(6))
			if rnd.Intn(2) == 0 {
				inner += fmt.Sprintf(" OFFSET %d", 1+rnd.Intn(3))
			}
			sh.name = "derived-limit"
		case 3:
			// a window function inside the derived table: row numbers / running sums are computed over all
			// rows, not over the rows an outer filter keeps
			inner = "SELECT " + t.Name + ".*, ROW_NUMBER() OVER (ORDER BY id) AS rn__, SUM(id) OVER (ORDER BY id) AS rs__ FROM " + t.Name
			sh.ids = "x0.id, x0.rn__, x0.rs__"
			sh.name = "derived-window"
		}
		sh.from = "FROM (" + inner + ") x0"
		sh.scope = g6blib.Refs(t, "x0")
	case k < 17:
		sh.name = "having"
		sh.clause = "HAVING"
		sh.noSub = true
		var keys []*g6blib.Col
		for _, c := range t.Cols {
			if c.Kind != g6blib.KJSON {
				keys = append(keys, c)
			}
		}
		key := keys[rnd.Intn(len(keys))]
		kref := &g6blib.ColRef{SQL: "x0." + key.Name, Kind: key.Kind, Nullable: key.Nullable, Table: t, Alias: "x0", Col: key}
		sh.scope = []*g6blib.ColRef{kref,
			{SQL: "COUNT(*)", Kind: g6blib.KInt}, {SQL: "MAX(x0.id)", Kind: g6blib.KInt}, {SQL: "SUM(x0.id)", Kind: g6blib.KDec}}
		for _, c := range t.Cols {
			if c == key || rnd.Intn(2) == 0 {
				continue
			}
			switch c.Kind {
			case g6blib.KInt:
				sh.scope = append(sh.scope, &g6blib.ColRef{SQL: []string{"MIN", "MAX", "COUNT"}[rnd.Intn(3)] + "(x0." + c.Name + ")", Kind: g6blib.KInt, Nullable: true})
			case g6blib.KDec:
				sh.scope = append(sh.scope, &g6blib.ColRef{SQL: []string{"MIN", "MAX", "SUM"}[rnd.Intn(3)] + "(x0." + c.Name + ")", Kind: g6blib.KDec, Nullable: true})
			case g6blib.KStr, g6blib.KDate:
				sh.scope = append(sh.scope, &g6blib.ColRef{SQL: []string{"MIN", "MAX"}[rnd.Intn(2)] + "(x0." + c.Name + ")", Kind: c.Kind, Nullable: true})
			}
		}
		var sel []string
		for _, r := range sh.scope {
			sel = append(sel, r.SQL)
		}
		sh.ids = strings.Join(sel, ", ")
		sh.from = "FROM " + t.Name + " x0"
		sh.group = " GROUP BY x0." + key.Name
	default:
		sh.name = "on"
		sh.clause = "ON"
		sh.noSub = true // subqueries inside an ON condition: known finding, see known.go
		sh.ids = "x0.id, x1.id"
		sh.from = "FROM " + t.Name + " x0 CROSS JOIN " + u.Name + " x1"
		sh.onFrom = "FROM " + t.Name + " x0 JOIN " + u.Name + " x1 ON "
		sh.scope = append(g6blib.Refs(t, "x0"), g6blib.Refs(u, "x1")...)
	}
	return sh
}

// outcome of judging one predicate under one shape.
type outcome struct {
	verdict string // held | violated | inconclusive | panic
	mode    string // failure mode for violated; reason for inconclusive
	parts   [3]int // rows in the TRUE / FALSE / NULL filter results
	queries map[string]string
	results map[string]any
	panicR  *core.Result
	tlpOK   bool
	projOK  bool
	// extraOnlyNull: every discrepancy is a filter keeping rows that the select list classifies as NULL
	// (the failure mode of NOT IN over a NULL-yielding subquery)
	extraOnlyNull bool
}

func diffMode(name string, got, want []string) string {
	// got = rows kept by the filter, want = rows the select list classifies the same way
	g, w := map[string]int{}, map[string]int{}
	for _, x := range got {
		g[x]++
	}
	for _, x := range want {
		w[x]++
	}
	extra, missing := 0, 0
	for k, n := range g {
		if n > w[k] {
			extra += n - w[k]
		}
	}
	for k, n := range w {
		if n > g[k] {
			missing += n - g[k]
		}
	}
	switch {
	case extra > 0 && missing > 0:
		return name + ":filter-extra+missing"
	case extra > 0:
		return name + ":filter-keeps-extra-rows"
	case missing > 0:
		return name + ":filter-loses-rows"
	}
	return ""
}

// judge runs the five queries of one predicate and evaluates both clauses of the oracle.
func judge(s *core.Sess, sh *shape, p string) *outcome {
	return judgeQueries(s, [][2]string{
		{"Q", sh.base()},
		{"TRUE", sh.filt(p)},
		{"FALSE", sh.filt("(NOT " + p + ")")},
		{"NULL", sh.filt("(" + p + " IS NULL)")},
		{"PROJ", sh.proj(p)},
	})
}

// judgeQueries evaluates the oracle on the five concrete statements of a case (also used by --replay).
func judgeQueries(s *core.Sess, qs [][2]string) *outcome {
	o := &outcome{queries: map[string]string{}, results: map[string]any{}}
	res := map[string]*core.Result{}
	var errs []string
	for _, q := range qs {
		r := s.Exec(q[1])
		res[q[0]] = r
		o.queries[q[0]] = q[1]
		if r.Panic != nil {
			o.verdict, o.mode, o.panicR = "panic", q[0], r
			return o
		}
		if r.TimedOut {
			o.verdict, o.mode = "inconclusive", "timeout"
			return o
		}
		if r.Err != nil {
			errs = append(errs, q[0]+":"+r.ErrClass())
			o.results[q[0]] = "ERROR[" + r.ErrClass() + "] " + core.Clip(r.Err.Error(), 200)
		}
	}
	if len(errs) > 0 {
		// DESIGN guard: any error makes the case inconclusive (error asymmetry between the filter and the
		// select list position is counted, not judged: evaluation order / short-circuit may legitimately differ)
		o.verdict = "inconclusive"
		first := ""
		for _, k := range []string{"TRUE", "FALSE", "NULL", "PROJ"} {
			if res[k].Err != nil {
				first = core.StripVolatile(res[k].Err.Error())
				break
			}
		}
		switch {
		case res["Q"].Err != nil:
			o.mode = "error-in-base-query"
		case len(errs) == len(qs)-1:
			o.mode = "all-positions-error:" + first
		default:
			o.mode = "error-asymmetry:" + first
		}
		return o
	}
	nid := len(res["Q"].Schema)
	all := core.SortedRows(res["Q"].Rows)
	part := map[string][]string{}
	for _, k := range []string{"TRUE", "FALSE", "NULL"} {
		part[k] = core.SortedRows(res[k].Rows)
		o.results[k] = core.ClipStrings(part[k], 40)
	}
	o.results["Q"] = core.ClipStrings(all, 40)
	o.parts = [3]int{len(part["TRUE"]), len(part["FALSE"]), len(part["NULL"])}
	union := append(append(append([]string{}, part["TRUE"]...), part["FALSE"]...), part["NULL"]...)
	sort.Strings(union)
	o.tlpOK = core.SameStrings(all, union)
	// select-list classification
	cls := map[string][]string{}
	var allP []string
	var projDump []string
	for _, row := range res["PROJ"].Rows {
		id := core.CanonRow(row[:nid])
		v := core.Canon(row[nid])
		projDump = append(projDump, id+" => "+v)
		k := "TRUE"
		switch v {
		case "NULL":
			k = "NULL"
		case "0":
			k = "FALSE"
		case "1":
		default:
			if rt, ok := core.Rat(v); ok {
				if rt.Sign() == 0 {
					k = "FALSE"
				}
			} else {
				o.verdict, o.mode = "inconclusive", "non-boolean-projection-value"
				return o
			}
		}
		cls[k] = append(cls[k], id)
		allP = append(allP, id)
	}
	sort.Strings(projDump)
	o.results["PROJ"] = core.ClipStrings(projDump, 60)
	sort.Strings(allP)
	var modes []string
	if !core.SameStrings(allP, all) {
		modes = append(modes, "select-list-query-returns-other-rows-than-Q")
	}
	o.extraOnlyNull = true
	nullSet := map[string]bool{}
	for _, id := range cls["NULL"] {
		nullSet[id] = true
	}
	for _, k := range []string{"TRUE", "FALSE", "NULL"} {
		sort.Strings(cls[k])
		if m := diffMode(k, part[k], cls[k]); m != "" {
			modes = append(modes, m)
			if !strings.HasSuffix(m, "filter-keeps-extra-rows") || k == "NULL" {
				o.extraOnlyNull = false
			} else {
				in := map[string]bool{}
				for _, id := range cls[k] {
					in[id] = true
				}
				for _, id := range part[k] {
					if !in[id] && !nullSet[id] {
						o.extraOnlyNull = false
					}
				}
			}
		}
	}
	o.projOK = len(modes) == 0
	if !o.tlpOK {
		modes = append([]string{"tlp"}, modes...)
	}
	if len(modes) == 0 {
		o.verdict = "held"
		return o
	}
	o.verdict = "violated"
	o.mode = strings.Join(modes, ",")
	return o
}

func main() {
	if len(os.Args) > 1 && os.Args[1] == "probe" {
		g6blib.ProbeMain()
		return
	}
	r := core.NewRun("C05", "exploration",
		"one evaluation = one oracle clause (ternary partitioning; filter vs. select-list value) decided for one generated predicate under one query shape on one seeded database; distinct = literal-free predicate skeleton x query shape, counted only when at least two of the three partitions are non-empty")
	r.Fold(8, 3)
	r.Assume("predicates are boolean-typed by construction; operands of a comparison have the same kind (INT/DECIMAL cross comparisons only between non-literal operands); no implicit string<->number comparison is generated")
	r.Assume("a case in which any of the five queries returns an error is inconclusive (counted by reason), a panic is a violation")
	r.Assume("core domain excludes (replayed as pinned witnesses / class probes instead): IN lists mixing integer and decimal literals, fractional literals against integer operands, IN lists over case-insensitive strings, indexes on case-insensitive columns")

	if r.Replay != "" {
		replay(r)
		r.Finish()
	}
	perCase := 10
	n := r.N(3000, 80000) / perCase
	only := map[int]bool{}
	for _, f := range strings.Split(os.Getenv("VERIF_CASES"), ",") {
		var k int
		if _, err := fmt.Sscan(f, &k); err == nil {
			only[k] = true
		}
	}
	r.Parallel("tlp", n, func(i int) {
		if len(only) == 0 || only[i] {
			runCase(r, i, perCase)
		}
	})
	classProbes(r)
	pinned(r)

	r.Floor(r.Counter("pred.with-constant-subexpr") > 0, "no predicate with a constant sub-expression (simplifyFilters)")
	r.Floor(r.Counter("pred.with-not-over-connective-or-comparison") > 0, "no NOT over AND/OR/comparison (pushNotFilters)")
	r.Floor(r.Counter("plan.indexed-table-access") > 0, "no filter reached an index (pushFilters / HandledFilters)")
	r.Floor(r.Counter("plan.filter-below-join") > 0, "no filter pushed below a join")
	r.Floor(r.Counter("shape.having") > 0 && r.Counter("shape.on") > 0, "HAVING or ON position not exercised")
	r.Finish()
}

// coreDomain: the input classes kept out of the core exploration (each is replayed by classProbes).
var coreDomain = g6blib.Domain{NoMixedInNum: true, NoFracOnInt: true, NoCIInList: true, NoDecKeyOnIntIndex: true, NoFracEqOnIndexedDec: true, NoArithInListLeft: true, NoLikeOnCIFunc: true}

func runCase(r *core.Run, i int, perCase int) {
	rnd := r.Rand("tlp", i)
	sc := g6blib.GenSchema(rnd, g6blib.SchemaOpts{Tables: 2, NoCIIndex: true})
	e := core.NewEng("d")
	defer e.Close()
	s := e.NewSess()
	setup := sc.Setup()
	for _, q := range setup {
		s.MustExec(q)
	}
	for k := 0; k < perCase; k++ {
		g := &g6blib.Gen{Rnd: rnd, Domain: coreDomain}
		sh := genShape(rnd, sc, g)
		g.Scope = sh.scope
		g.Subs = sh.subs
		g.NoSubquery = sh.noSub
		depth := 1 + rnd.Intn(3)
		p := g.Bool(depth)
		if why := rejected(p); why != "" {
			r.Count("domain-rejected."+why, 1)
			continue
		}
		evalPredicate(r, s, sc, sh, p, fmt.Sprintf("tlp/%d/%d", i, k))
	}
}

// features of a predicate that matter for evidence and for known-finding matching.
type feats struct {
	constSub, notPush, notInSub, inSub, exists, inList, between, like, caseIf, json, strFn, dateFn, arith bool
}

func features(p *g6blib.Expr) feats {
	var f feats
	p.Walk(func(e *g6blib.Expr) {
		switch e.Op {
		case "const":
			f.constSub = true
		case "not":
			switch e.Args[0].Op {
			case "and", "or", "cmp", "not", "between", "inlist":
				f.notPush = true
			}
		case "insub":
			f.inSub = true
			if e.Neg {
				f.notInSub = true
			}
		case "exists":
			f.exists = true
		case "inlist":
			f.inList = true
		case "between":
			f.between = true
		case "like":
			f.like = true
		case "case":
			f.caseIf = true
		case "bin", "neg":
			f.arith = true
		case "dateadd":
			f.dateFn = true
		case "func":
			switch e.Name {
			case "IF":
				f.caseIf = true
			case "JSON_EXTRACT", "JSON_CONTAINS", "JSON_LENGTH":
				f.json = true
			case "CONCAT", "UPPER", "LOWER", "TRIM", "SUBSTRING", "REPLACE", "LEFT", "RIGHT", "REVERSE", "LENGTH", "CHAR_LENGTH", "LOCATE":
				f.strFn = true
			case "YEAR", "MONTH", "DAYOFMONTH", "DATEDIFF", "LAST_DAY":
				f.dateFn = true
			}
		}
	})
	return f
}

func evalPredicate(r *core.Run, s *core.Sess, sc *g6blib.Schema, sh *shape, p *g6blib.Expr, caseID string) {
	setup := sc.Setup()
	psql := p.SQL()
	o := judge(s, sh, psql)
	f := features(p)
	witness := func() map[string]any {
		return map[string]any{"case": caseID, "shape": sh.name, "predicate": psql, "setup": setup, "queries": o.queries, "results": o.results,
			"mode": o.mode, "plan_TRUE": s.Plan(o.queries["TRUE"]), "plan_FALSE": s.Plan(o.queries["FALSE"])}
	}
	switch o.verdict {
	case "panic":
		w := witness()
		w["panic"] = o.panicR.Panic.Value
		w["stack"] = core.Clip(o.panicR.Panic.Stack, 3000)
		r.Violation(o.panicR.Panic.Sig(), w)
		return
	case "inconclusive":
		r.Inconclusive(o.mode)
		r.Count("inconclusive."+sh.name, 1)
		if os.Getenv("VERIF_DEBUG") != "" {
			fmt.Fprintf(os.Stderr, "INCONCLUSIVE %s shape=%s p=%s\n   results=%v\n", o.mode, sh.name, psql, o.results)
		}
		return
	}
	r.Eval(2)
	r.Count("shape."+strings.SplitN(sh.name, "-", 2)[0], 1)
	// evidence about the mechanisms reached
	cnt := func(b bool, name string) {
		if b {
			r.Count(name, 1)
		}
	}
	cnt(f.constSub, "pred.with-constant-subexpr")
	cnt(f.notPush, "pred.with-not-over-connective-or-comparison")
	cnt(f.inSub, "pred.with-in-subquery")
	cnt(f.notInSub, "pred.with-not-in-subquery")
	cnt(f.exists, "pred.with-exists")
	cnt(f.inList, "pred.with-in-list")
	cnt(f.between, "pred.with-between")
	cnt(f.like, "pred.with-like")
	cnt(f.caseIf, "pred.with-case-if")
	cnt(f.json, "pred.with-json")
	cnt(f.strFn, "pred.with-string-function")
	cnt(f.dateFn, "pred.with-date-function")
	cnt(f.arith, "pred.with-arithmetic")
	nonEmpty := 0
	for _, k := range o.parts {
		if k > 0 {
			nonEmpty++
		}
	}
	planT := ""
	if o.verdict == "violated" || nonEmpty >= 2 {
		planT = s.Plan(o.queries["TRUE"])
		if strings.Contains(planT, "IndexedTableAccess") {
			r.Count("plan.indexed-table-access", 1)
		}
		if filterBelowJoin(planT) {
			r.Count("plan.filter-below-join", 1)
		}
	}
	if nonEmpty >= 2 {
		r.Count("nontrivial-predicates", 1)
		r.Distinct(sh.name + "|" + p.Shape())
		if nonEmpty == 3 {
			r.Count("predicates-with-all-three-partitions", 1)
			r.Sample(map[string]any{"shape": sh.name, "predicate": core.Clip(psql, 300), "rows_TRUE_FALSE_NULL": o.parts, "filter_TRUE": core.Clip(o.queries["TRUE"], 400)})
		}
	}
	if o.verdict != "violated" {
		return
	}
	sig, extra := classify(s, sc, sh, p, o, f)
	w := witness()
	for k, v := range extra {
		w[k] = v
	}
	w["signature"] = sig
	r.Violation(sig, w)
}

// minimize shrinks the predicate (on the live session) and then the rows (fresh engines) of a violated case.
func minimize(s *core.Sess, sc *g6blib.Schema, sh *shape, p *g6blib.Expr) (*g6blib.Expr, *g6blib.Schema, *outcome) {
	mp := g6blib.Minimize(p, func(c *g6blib.Expr) bool { return judge(s, sh, c.SQL()).verdict == "violated" }, 400)
	psql := mp.SQL()
	cur := sc
	failsOn := func(c *g6blib.Schema) *outcome {
		e := core.NewEng("d")
		defer e.Close()
		s2 := e.NewSess()
		for _, q := range c.Setup() {
			if r := s2.Exec(q); r.Failed() {
				return &outcome{verdict: "inconclusive"}
			}
		}
		return judge(s2, sh, psql)
	}
	for ti := range cur.Tables {
		for ri := len(cur.Tables[ti].Rows) - 1; ri >= 0; ri-- {
			c := cur.WithoutRow(ti, ri)
			if failsOn(c).verdict == "violated" {
				cur = c
			}
		}
	}
	return mp, cur, failsOn(cur)
}

// filterBelowJoin reports whether the plan text has a Filter / IndexedTableAccess-with-filters node
// nested under a join node.
func filterBelowJoin(plan string) bool {
	joinDepth := -1
	for _, l := range strings.Split(plan, "\n") {
		t := strings.TrimLeft(l, " │├└─")
		depth := len([]rune(l)) - len([]rune(t))
		if strings.Contains(t, "Join") && !strings.HasPrefix(t, "cmp") {
			if joinDepth < 0 || depth < joinDepth {
				joinDepth = depth
			}
			continue
		}
		if joinDepth >= 0 && depth > joinDepth && (strings.HasPrefix(t, "Filter") || strings.HasPrefix(t, "filters:")) {
			return true
		}
	}
	return false
}
