package main

import (
	"verif/harness/core"
	"verif/harness/g6blib"
)

func classifyPanic(pc *pairCase, pn *core.PanicInfo) string {
	return "c06:" + pc.rule + ":" + pn.Sig()
}

// classify gives a violated group its signature: rule, which spellings differ, and the skeleton of the
// minimised predicate when the rule has one.
func classify(s *core.Sess, sc *g6blib.Schema, pc *pairCase, mode string) (string, map[string]any) {
	if pc.rebuild == nil || pc.pred == nil {
		return "c06:" + pc.rule + ":" + mode + ":" + pc.shape, nil
	}
	mp := g6blib.Minimize(pc.pred, func(c *g6blib.Expr) bool {
		v, _, _, _ := compare(s, pc.rebuild(c))
		return v == "violated"
	}, 300)
	sp := pc.rebuild(mp)
	_, m2, det, _ := compare(s, sp)
	extra := map[string]any{"minimized": map[string]any{"predicate": mp.SQL(), "mode": m2, "detail": det}}
	return "c06:" + pc.rule + ":" + m2 + ":" + mp.Shape(), extra
}

func pinned(r *core.Run) {}
