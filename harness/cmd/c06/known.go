package main

import (
	"strings"

	"verif/harness/core"
	"verif/harness/g6blib"
)

// Known findings of C06 (details: /verif/findings/C06.md).
const (
	sigF9         = "in-subquery-null-antijoin-mergejoin"        // same defect and matcher as C05
	sigF5         = "in-list-ignores-ci-collation"               // x IN ('A') over an _ai_ci column vs x = 'A'
	sigF14        = "inlist-int-decimal-literals-hash-in-rounds" // b IN (1, 2.5) vs b = 1 OR b = 2.5
	sigF10        = "inlist-all-fractional-on-indexed-int-panics"
	sigTupNull    = "tuple-in-null-component-not-three-valued"
	sigErrEmpty   = "c06:join-on-where:error-in-one-spelling:join-on:1105:failed-to-replan-join-unknown-type-for-rel-outpu"
	sigErrTupNil  = "c06:in-or:error-in-one-spelling:in-list:1105:value-not-nil"
	sigG1         = "neq-fractional-literal-on-indexed-decimal-keeps-equal-row" // C05's finding, reached through the OR-chain spelling
	sigHashCI     = "hash-join-key-on-ci-strings-hashes-binary"
	sigScalarAnti = "scalar-subquery-neq-antijoin-lost-under-semijoin"
)

func classifyPanic(pc *pairCase, pn *core.PanicInfo) string {
	// F10: the IN-list spelling over an indexed integer column whose list holds only fractional literals
	if pc.rule == "in-or" && strings.HasPrefix(pn.Sig(), "panic:sql/transform.Expr:runtime error: invalid memory address") {
		for _, n := range rewritten(pc.pred) {
			if n.Op == "inlist" && n.Args[0].Kind == g6blib.KInt {
				frac := true
				for _, a := range n.Args[1:] {
					frac = frac && g6blib.IsFracLit(a)
				}
				if frac {
					return sigF10
				}
			}
		}
	}
	return "c06:" + pc.rule + ":" + pn.Sig()
}

// rewritten collects the IN-list nodes of a predicate (including those inside subquery filters).
func rewritten(p *g6blib.Expr) []*g6blib.Expr {
	var out []*g6blib.Expr
	p.Walk(func(e *g6blib.Expr) {
		if e.Op == "inlist" || e.Op == "tuplein" {
			out = append(out, e)
		}
	})
	return out
}

func isIntLit(e *g6blib.Expr) bool {
	return e.Op == "lit" && e.Kind == g6blib.KInt && e.Name != "NULL"
}

// classify gives a violated group its signature: a known family when its matcher applies, else
// "c06:<rule>:<which spellings differ>:<skeleton of the minimised predicate or the group's shape>".
func classify(s *core.Sess, sc *g6blib.Schema, pc *pairCase, mode string) (string, map[string]any) {
	// F9 (via=signature): a spelling negates IN (subquery) into an anti-join run as LeftOuterMergeJoin; with
	// merge joins disabled all spellings agree.
	text, merge := "", false
	for _, sp := range pc.spells {
		text += sp.query
		if len(sp.pre) == 0 && strings.Contains(s.Plan(sp.query), "LeftOuterMergeJoin") {
			merge = true
		}
	}
	if merge && strings.Contains(text, " IN (SELECT ") {
		s.MustExec("SET @@SESSION.disable_merge_join = 1")
		v, _, _, _ := compare(s, pc.spells)
		s.MustExec("SET @@SESSION.disable_merge_join = 0")
		if v == "held" {
			return sigF9, nil
		}
	}
	if pc.rebuild == nil || pc.pred == nil {
		return "c06:" + pc.rule + ":" + mode + ":" + pc.shape, nil
	}
	mp := g6blib.Minimize(pc.pred, func(c *g6blib.Expr) bool {
		v, _, _, _ := compare(s, pc.rebuild(c))
		return v == "violated"
	}, 300)
	sp := pc.rebuild(mp)
	_, m2, det, _ := compare(s, sp)
	extra := map[string]any{"minimized": map[string]any{"predicate": mp.SQL(), "mode": m2, "detail": det}}
	if pc.rule == "in-or" {
		nodes := rewritten(mp)
		allCI, allMixed, allTuple := len(nodes) > 0, len(nodes) > 0, len(nodes) > 0
		for _, n := range nodes {
			ci := n.Args[0].Kind == g6blib.KCI || (n.Op == "tuplein" && n.Args[1].Kind == g6blib.KCI)
			if !ci {
				allCI = false
			}
			hasInt, hasFrac := false, false
			if n.Op == "inlist" {
				for _, a := range n.Args[1:] {
					hasInt = hasInt || isIntLit(a)
					hasFrac = hasFrac || g6blib.IsFracLit(a)
				}
			}
			if !(hasInt && hasFrac) && !(n.Op == "inlist" && n.Args[0].Kind == g6blib.KInt && hasFrac) {
				allMixed = false
			}
			if n.Op != "tuplein" || ci {
				allTuple = false
			}
		}
		allG1 := len(nodes) > 0
		for _, n := range nodes {
			l := n.Args[0]
			ok := n.Op == "inlist" && l.Op == "col" && l.Kind == g6blib.KDec && l.Ref != nil && l.Ref.Indexed
			if ok {
				ok = false
				for _, a := range n.Args[1:] {
					ok = ok || g6blib.IsFracLit(a)
				}
			}
			allG1 = allG1 && ok
		}
		switch {
		case allG1 && strings.Contains(m2, "in-list≠or-chain"):
			// the OR chain under NOT becomes d <> 2.50 on an indexed DECIMAL column (C05 finding)
			return sigG1, extra
		case allCI:
			return sigF5, extra
		case allMixed:
			return sigF14, extra
		case allTuple && tupleNullInvolved(s, pc, mp, det, sp):
			return sigTupNull, extra
		}
	}
	// a `<>` against a scalar subquery is unnested into an AntiJoin which is lost when an IN/EXISTS subquery of the
	// same conjunction is unnested into a SemiJoin on top of it; the other spelling keeps the subqueries as
	// filter expressions (plan-dependent wrong result, not caused by the rewrite rule itself)
	{
		neqScalar, semi := false, false
		mp.Walk(func(e *g6blib.Expr) {
			if e.Op == "cmp" && e.Name == "<>" && (e.Args[0].Op == "scalar" || e.Args[1].Op == "scalar") {
				neqScalar = true
			}
			if e.Op == "insub" || e.Op == "exists" {
				semi = true
			}
		})
		if neqScalar && semi {
			for _, x := range sp {
				if pl := s.Plan(x.query); strings.Contains(pl, "AntiJoin") && strings.Contains(pl, "SemiJoin") {
					return sigScalarAnti, extra
				}
			}
		}
	}
	if pc.rule == "join-on-where" {
		ciEq := false
		mp.Walk(func(e *g6blib.Expr) {
			if e.Op == "cmp" && (e.Name == "=" || e.Name == "<=>") && e.Args[0].Kind == g6blib.KCI && e.Args[1].Kind == g6blib.KCI {
				ciEq = true
			}
		})
		hashed := false
		for _, x := range sp {
			if strings.Contains(s.Plan(x.query), "HashLookup") {
				hashed = true
			}
		}
		if ciEq && hashed {
			var hinted []spelling
			for _, x := range sp {
				hinted = append(hinted, spelling{name: x.name, query: strings.Replace(x.query, "SELECT ", "SELECT /*+ INNER_JOIN(x0,x1) */ ", 1)})
			}
			if v, _, _, _ := compare(s, hinted); v == "held" {
				return sigHashCI, extra
			}
		}
	}
	return "c06:" + pc.rule + ":" + m2 + ":" + mp.Shape(), extra
}

// tupleNullInvolved: the minimised predicate is one tuple IN and every row on which the two spellings differ
// has a NULL component on the left or in the list.
func tupleNullInvolved(s *core.Sess, pc *pairCase, mp *g6blib.Expr, det map[string]any, sp []spelling) bool {
	n := mp
	if n.Op == "not" {
		n = n.Args[0]
	}
	if n.Op != "tuplein" {
		return false
	}
	for _, a := range n.Args[2:] {
		if a.Op == "lit" && a.Name == "NULL" {
			return true
		}
	}
	// ids on which the results differ
	a, _ := det[sp[0].name+".result"].([]string)
	b, _ := det[sp[1].name+".result"].([]string)
	key := func(row string) string {
		f := strings.Split(row, "|")
		if len(f) > pc.nid {
			f = f[:pc.nid]
		}
		return strings.Join(f, "|")
	}
	cnt := map[string]int{}
	for _, r := range a {
		cnt[r]++
	}
	for _, r := range b {
		cnt[r]--
	}
	diff := map[string]bool{}
	for r, c := range cnt {
		if c != 0 {
			diff[key(r)] = true
		}
	}
	// rows with a NULL left component, obtained through the same query shape
	isNull := &g6blib.Expr{Op: "or", Kind: g6blib.KBool, Args: []*g6blib.Expr{
		{Op: "isnull", Kind: g6blib.KBool, Args: []*g6blib.Expr{n.Args[0]}}, {Op: "isnull", Kind: g6blib.KBool, Args: []*g6blib.Expr{n.Args[1]}}}}
	res := exec(s, pc.rebuild(isNull)[0])
	if res.err != "" {
		return false
	}
	nulls := map[string]bool{}
	for _, r := range res.rows {
		if pc.pos == "filter" || strings.HasSuffix(r, "|1") {
			nulls[key(r)] = true
		}
	}
	for k := range diff {
		if !nulls[k] {
			return false
		}
	}
	return len(diff) > 0
}

type pinnedGroup struct {
	sig, what string
	setup     []string
	spells    []spelling
	wantPanic bool
}

func pinnedGroups() []pinnedGroup {
	tu := []string{
		"CREATE TABLE t (id INT PRIMARY KEY, a INT, b INT, s VARCHAR(20) COLLATE utf8mb4_0900_bin, c VARCHAR(20) COLLATE utf8mb4_0900_ai_ci, KEY ka (a))",
		"INSERT INTO t VALUES (1,1,2,'a','a'),(2,2,NULL,'A','A'),(3,NULL,3,NULL,'b'),(4,3,3,'b',NULL),(5,5,1,'B','B ')",
		"CREATE TABLE u (id INT PRIMARY KEY, a INT, KEY ka (a))",
		"INSERT INTO u VALUES (1,1),(2,NULL),(3,3),(4,3),(5,3),(6,5),(7,3),(8,5)",
	}
	q := func(n, s string) spelling { return spelling{name: n, query: s} }
	return []pinnedGroup{
		{sig: sigF5, what: "c IN ('A','B') over utf8mb4_0900_ai_ci returns 1 row, c = 'A' OR c = 'B' returns 3", setup: tu,
			spells: []spelling{q("in-list", "SELECT id FROM t WHERE c IN ('A', 'B')"), q("or-chain", "SELECT id FROM t WHERE (c = 'A' OR c = 'B')")}},
		{sig: sigF14, what: "b IN (1, 2.5, 2, 5) keeps b = 3 (2.5 hashed as 3), the OR chain does not", setup: tu,
			spells: []spelling{q("in-list", "SELECT id FROM t WHERE b IN (1, 2.5, 2, 5)"), q("or-chain", "SELECT id FROM t WHERE (b = 1 OR b = 2.5 OR b = 2 OR b = 5)")}},
		{sig: sigF10, what: "a IN (2.5) on an indexed INT column panics (nil dereference), a = 2.5 returns no row", setup: tu, wantPanic: true,
			spells: []spelling{q("in-list", "SELECT id FROM t WHERE a IN (2.5)"), q("or-chain", "SELECT id FROM t WHERE a = 2.5")}},
		{sig: sigTupNull, what: "(1, s) NOT IN ((1, 'B')) returns the row with s NULL (NOT ((1 = 1) AND (s = 'B')) is NULL there); (10, s) IN ((10, NULL)) returns the rows with s NULL", setup: tu,
			spells: []spelling{q("in-list", "SELECT id FROM t WHERE (1, s) NOT IN ((1, 'B'))"), q("or-chain", "SELECT id FROM t WHERE NOT ((1 = 1) AND (s = 'B'))")}},
		{sig: sigErrEmpty, what: "JOIN … ON FALSE WHERE EXISTS (subquery) fails with 'failed to replan join: unknown type for rel output cols: *memo.EmptyTable'; the comma-join spelling returns the empty result", setup: tu,
			spells: []spelling{q("join-on", "SELECT x0.id, x1.id FROM u x0 JOIN t x1 ON FALSE WHERE (EXISTS (SELECT 1 FROM u s1 WHERE (s1.a = x0.id)))"),
				q("comma-where", "SELECT x0.id, x1.id FROM u x0, t x1 WHERE FALSE AND (EXISTS (SELECT 1 FROM u s1 WHERE (s1.a = x0.id)))")}},
		{sig: sigErrTupNil, what: "(a, NULL) IN ((2, 1)) as a filter fails with 'value not nil'; (a = 2 AND NULL = 1) evaluates to NULL", setup: tu,
			spells: []spelling{q("in-list", "SELECT id FROM t WHERE ((a, NULL) IN ((2, 1), (3, 3)))"), q("or-chain", "SELECT id FROM t WHERE (((a = 2) AND (NULL = 1)) OR ((a = 3) AND (NULL = 3)))")}},
		{sig: sigG1, what: "d NOT IN (1.50) over an indexed DECIMAL column is right, NOT (d = 1.50) keeps the rows with d = 1.50 (index range (NULL, inf))",
			setup:  []string{"CREATE TABLE w (id INT PRIMARY KEY, d DECIMAL(8,2), KEY kd (d))", "INSERT INTO w VALUES (1, 1.50), (2, 2.50), (3, NULL), (4, 1.50)"},
			spells: []spelling{q("in-list", "SELECT id FROM w WHERE d NOT IN (1.50)"), q("or-chain", "SELECT id FROM w WHERE NOT (d = 1.50)")}},
		{sig: sigHashCI, what: "JOIN ON x0.b = x1.b AND x0.c = REVERSE(x1.c) over _ai_ci columns (HashJoin key (b, c)) misses ('b','B'); the comma join (HashJoin on b + Filter) finds it",
			setup:  []string{"CREATE TABLE t2 (id INT PRIMARY KEY, b INT NOT NULL, c VARCHAR(20) COLLATE utf8mb4_0900_ai_ci)", "INSERT INTO t2 VALUES (2, 10, 'B'), (3, -1, 'b%')", "CREATE TABLE u2 (id INT PRIMARY KEY, b INT NOT NULL, c VARCHAR(20) COLLATE utf8mb4_0900_ai_ci)", "INSERT INTO u2 VALUES (5, 10, 'b'), (6, 7, 'b%'), (3, 10, 'ab')"},
			spells: []spelling{q("join-on", "SELECT /*+ HASH_JOIN(x0,x1) */ x0.id, x1.id FROM u2 x0 JOIN t2 x1 ON ((x0.b = x1.b) AND (x0.c = REVERSE(x1.c)))"), q("comma-where", "SELECT x0.id, x1.id FROM u2 x0, t2 x1 WHERE ((x0.b = x1.b) AND (x0.c = REVERSE(x1.c)))")}},
		{sig: sigScalarAnti, what: "WHERE (5 <> (SELECT COUNT(a) FROM u)) AND d IN (SELECT d FROM t) [OR constant-false]: with the constant folded the plan is SemiJoin over AntiJoin(5 = count) and returns rows although 5 <> 5 is FALSE; with `10 BETWEEN 0 AND -1` unfolded the subqueries stay filter expressions and nothing is returned",
			setup: []string{"CREATE TABLE t3 (id INT PRIMARY KEY, d DECIMAL(8,2))", "INSERT INTO t3 VALUES (1, 100.00), (2, 1.50), (3, 100.00), (4, NULL)", "CREATE TABLE u3 (id INT PRIMARY KEY, a INT)", "INSERT INTO u3 VALUES (1, 3), (2, 3), (3, -1), (4, NULL), (5, -1), (6, 3)"},
			spells: []spelling{q("between", "SELECT x0.id FROM t3 x0 WHERE (((5 <> (SELECT COUNT(s2.a) FROM u3 s2)) AND (x0.d IN (SELECT s3.d FROM t3 s3))) OR (10 BETWEEN 0 AND (-1)))"),
				q("comparisons", "SELECT x0.id FROM t3 x0 WHERE (((5 <> (SELECT COUNT(s2.a) FROM u3 s2)) AND (x0.d IN (SELECT s3.d FROM t3 s3))) OR ((10 >= 0) AND (10 <= (-1))))")}},
		{sig: sigF9, what: "JOIN … ON … WHERE x0.id NOT IN (SELECT a FROM u) (LeftOuterMergeJoin + IS NULL) returns rows, the comma-join spelling (AntiJoin) returns none", setup: tu,
			spells: []spelling{q("join-on", "SELECT x0.id, x1.id FROM t x0 JOIN u x1 ON (x1.id <= 2) WHERE (x0.id NOT IN (SELECT s1.a FROM u s1))"),
				q("comma-where", "SELECT x0.id, x1.id FROM t x0, u x1 WHERE (x1.id <= 2) AND (x0.id NOT IN (SELECT s1.a FROM u s1))")}},
	}
}

func pinned(r *core.Run) {
	for _, pg := range pinnedGroups() {
		e := core.NewEng("d")
		s := e.NewSess()
		for _, q := range pg.setup {
			s.MustExec(q)
		}
		v, mode, det, pn := compare(s, pg.spells)
		still := v == "violated"
		if strings.HasPrefix(pg.sig, "c06:") {
			still = v == "error-asymmetry" && strings.HasSuffix(pg.sig, ":error-in-one-spelling:"+mode)
		}
		if pg.wantPanic {
			still = v == "panic" && strings.HasPrefix(pn.Sig(), "panic:sql/transform.Expr:runtime error: invalid memory address")
		}
		det["mode"] = mode
		det["setup"] = pg.setup
		r.Pinned(pg.sig, pg.what, still, det)
		r.Count("pinned."+pg.sig, 1)
		e.Close()
	}
}
