// C06 — equivalent SQL formulations return equal results.
//
// Oracle (metamorphic): one database state, k spellings of "the same question" produced by rewrite rules
// that SQL guarantees to be equivalences; all spellings must return the same multiset of canonical rows.
// Rules: IN (list) ↔ OR chain of equalities (also tuple IN, lists up to 40 elements), BETWEEN ↔ pair of
// comparisons (both in filter and in select-list position), IN (subquery) ↔ EXISTS ↔ semi-join through
// JOIN (SELECT DISTINCT …) for NOT NULL keys, JOIN … ON ↔ comma join + WHERE ↔ CROSS JOIN + WHERE,
// derived table ↔ CTE ↔ view ↔ inlined body, expression over literals ↔ the same expression over the
// columns of a one-row table declared with the literals' reported types.
// NOT IN ↔ NOT EXISTS is deliberately not a rule (NULL semantics differ).
package main

import (
	"fmt"
	"math/rand"
	"os"
	"strings"

	"verif/harness/core"
	"verif/harness/g6blib"
)

// spelling is one formulation: optional setup/teardown statements (views) and the query.
type spelling struct {
	name  string
	pre   []string
	query string
	post  []string
}

// pairCase is one generated group of equivalent spellings.
type pairCase struct {
	rule   string
	spells []spelling
	shape  string // literal-free description for evidence / signatures
	pred   *g6blib.Expr
	pos    string // filter | select-list (predicate rules)
	nid    int    // number of identifying columns in the result
	// rebuild re-renders the spellings for a (minimised) predicate; nil when the rule has no single predicate
	rebuild func(p *g6blib.Expr) []spelling
}

type result struct {
	rows  []string
	err   string
	panic *core.PanicInfo
}

func exec(s *core.Sess, sp spelling) result {
	for _, q := range sp.pre {
		if strings.HasPrefix(q, "@@create-one ") {
			if err := createOne(s, q); err != "" {
				return result{err: "setup:" + err}
			}
			continue
		}
		if r := s.Exec(q); r.Failed() {
			return result{err: "setup:" + r.ErrClass()}
		}
	}
	r := s.Exec(sp.query)
	for _, q := range sp.post {
		s.Exec(q)
	}
	switch {
	case r.Panic != nil:
		return result{panic: r.Panic, err: "panic"}
	case r.TimedOut:
		return result{err: "timeout"}
	case r.Err != nil:
		return result{err: r.ErrClass() + ":" + slug(core.StripVolatile(r.Err.Error()))}
	}
	return result{rows: core.SortedRows(r.Rows)}
}

// compare runs all spellings; returns verdict (held / violated / inconclusive / panic), the mode and details.
func compare(s *core.Sess, spells []spelling) (string, string, map[string]any, *core.PanicInfo) {
	res := make([]result, len(spells))
	det := map[string]any{}
	nerr := 0
	for i, sp := range spells {
		res[i] = exec(s, sp)
		det[sp.name+".sql"] = sp.query
		if res[i].panic != nil {
			det["panic.in"] = sp.name
			return "panic", sp.name, det, res[i].panic
		}
		if res[i].err != "" {
			nerr++
			det[sp.name+".result"] = "ERROR " + res[i].err
		} else {
			det[sp.name+".result"] = core.ClipStrings(res[i].rows, 40)
		}
	}
	if nerr == len(spells) {
		return "inconclusive", "all-spellings-error:" + res[0].err, det, nil
	}
	if nerr > 0 {
		// one spelling fails while an equivalent one answers: the failing spelling did not deliver the result
		// SQL prescribes (timeouts stay inconclusive)
		for i := range res {
			if res[i].err == "timeout" {
				return "inconclusive", "timeout", det, nil
			}
		}
		for i := range res {
			if res[i].err != "" {
				return "error-asymmetry", spells[i].name + ":" + res[i].err, det, nil
			}
		}
	}
	var modes []string
	for i := 1; i < len(res); i++ {
		if !core.SameStrings(res[0].rows, res[i].rows) {
			modes = append(modes, spells[0].name+"≠"+spells[i].name)
		}
	}
	if len(modes) == 0 {
		return "held", "", det, nil
	}
	return "violated", strings.Join(modes, ","), det, nil
}

func main() {
	if len(os.Args) > 1 && os.Args[1] == "probe" {
		g6blib.ProbeMain()
		return
	}
	r := core.NewRun("C06", "exploration",
		"one evaluation = one group of 2–4 equivalent spellings of a query (one rewrite rule applied to a generated query on a seeded database) whose result multisets are compared; distinct = (rule, literal-free shape of the rewritten construct) counted only when the result is non-empty")
	r.Fold(8, 3)
	r.Assume("rules are applied only where SQL guarantees equivalence: IN/EXISTS/semi-join only with NOT NULL keys in positive position; NOT IN <-> NOT EXISTS is not a rule; literal-vs-column gives the column the literal's reported type")
	r.Assume("a group in which every spelling returns an error is inconclusive; an error in one spelling while an equivalent spelling answers is a violation (signature = rule, failing spelling, error text), a panic is a violation")
	perCase := 10
	n := r.N(2500, 60000) / perCase
	only := map[int]bool{}
	for _, f := range strings.Split(os.Getenv("VERIF_CASES"), ",") {
		var k int
		if _, err := fmt.Sscan(f, &k); err == nil {
			only[k] = true
		}
	}
	r.Parallel("pairs", n, func(i int) {
		if len(only) == 0 || only[i] {
			runCase(r, i, perCase)
		}
	})
	rangeJoinBattery(r)
	pinned(r)
	r.Floor(r.Counter("plan.range-heap-join") > 0, "no spelling of the range-join battery was planned as a RangeHeapJoin")
	for _, rule := range []string{"range-join", "in-or", "between-cmp", "in-exists-semijoin", "join-on-where", "derived-cte-view", "literal-vs-column"} {
		r.Floor(r.Counter("rule."+rule) > 0, "rule never evaluated: "+rule)
	}
	r.Floor(r.Counter("plan.hash-in") > 0, "no HASH IN in any filter plan (applyHashIn)")
	r.Floor(r.Counter("long-in-lists") > 0, "no IN list with >= 10 elements")
	r.Finish()
}

func runCase(r *core.Run, i int, perCase int) {
	rnd := r.Rand("pairs", i)
	sc := g6blib.GenSchema(rnd, g6blib.SchemaOpts{Tables: 2, NoCIIndex: true, NotNullB: true})
	e := core.NewEng("d")
	defer e.Close()
	s := e.NewSess()
	setup := sc.Setup()
	for _, q := range setup {
		s.MustExec(q)
	}
	for k := 0; k < perCase; k++ {
		pc := genPair(rnd, sc, fmt.Sprintf("v%d_%d", i, k))
		if pc == nil {
			continue
		}
		evalPair(r, s, sc, pc, fmt.Sprintf("pairs/%d/%d", i, k))
	}
}

func evalPair(r *core.Run, s *core.Sess, sc *g6blib.Schema, pc *pairCase, caseID string) {
	verdict, mode, det, pn := compare(s, pc.spells)
	witness := func() map[string]any {
		w := map[string]any{"case": caseID, "rule": pc.rule, "shape": pc.shape, "setup": sc.Setup(), "mode": mode}
		for k, v := range det {
			w[k] = v
		}
		for _, sp := range pc.spells {
			if len(sp.pre) > 0 {
				w[sp.name+".pre"] = sp.pre
			}
		}
		return w
	}
	switch verdict {
	case "panic":
		w := witness()
		w["panic"] = pn.Value
		w["stack"] = core.Clip(pn.Stack, 3000)
		r.Violation(classifyPanic(pc, pn), w)
		return
	case "error-asymmetry":
		r.Eval(1)
		r.Count("rule."+pc.rule, 1)
		w := witness()
		sig := "c06:" + pc.rule + ":error-in-one-spelling:" + mode
		w["signature"] = sig
		r.Violation(sig, w)
		return
	case "inconclusive":
		r.Inconclusive(pc.rule + ":" + mode)
		if os.Getenv("VERIF_DEBUG") != "" {
			fmt.Fprintf(os.Stderr, "INCONCLUSIVE %s %s\n  %v\n", pc.rule, mode, det)
		}
		return
	}
	r.Eval(1)
	r.Count("rule."+pc.rule, 1)
	first := det[pc.spells[0].name+".result"]
	nonEmpty := false
	if rows, ok := first.([]string); ok && len(rows) > 0 {
		nonEmpty = true
	}
	if nonEmpty {
		r.Count("groups-with-non-empty-result", 1)
		r.Distinct(pc.rule + "|" + pc.shape)
	}
	if pc.rule == "in-or" {
		if pl := s.Plan(pc.spells[0].query); strings.Contains(pl, "HASH IN") {
			r.Count("plan.hash-in", 1)
		}
		pc.pred.Walk(func(e *g6blib.Expr) {
			if e.Op == "inlist" && len(e.Args) > 10 {
				r.Count("long-in-lists", 1)
			}
			if e.Op == "tuplein" {
				r.Count("tuple-in-lists", 1)
			}
		})
	}
	if verdict == "held" {
		if nonEmpty {
			r.Sample(map[string]any{"rule": pc.rule, "spellings": spellSQL(pc.spells), "rows": len(first.([]string))})
		}
		return
	}
	sig, extra := classify(s, sc, pc, mode)
	w := witness()
	for k, v := range extra {
		w[k] = v
	}
	w["signature"] = sig
	w["plans"] = plans(s, pc.spells)
	r.Violation(sig, w)
}

func spellSQL(sp []spelling) map[string]string {
	out := map[string]string{}
	for _, x := range sp {
		out[x.name] = core.Clip(x.query, 300)
	}
	return out
}

func plans(s *core.Sess, sp []spelling) map[string]string {
	out := map[string]string{}
	for _, x := range sp {
		if len(x.pre) == 0 {
			out[x.name] = s.Plan(x.query)
		}
	}
	return out
}

// slug makes an error text usable inside a signature token (no spaces).
func slug(s string) string {
	var b strings.Builder
	dash := false
	for _, c := range strings.ToLower(s) {
		if (c >= 'a' && c <= 'z') || (c >= '0' && c <= '9') {
			b.WriteRune(c)
			dash = false
		} else if !dash {
			b.WriteByte('-')
			dash = true
		}
	}
	out := strings.Trim(b.String(), "-")
	if len(out) > 48 {
		out = out[:48]
	}
	return strings.Trim(out, "-")
}

// createOne executes the pseudo statement "@@create-one <table> <lit> ||| <lit> …": a one-row table whose
// columns are declared with the types the engine reports for the literals.
func createOne(s *core.Sess, q string) string {
	f := strings.SplitN(strings.TrimPrefix(q, "@@create-one "), " ", 2)
	lits := strings.Split(f[1], " ||| ")
	r := s.Exec("SELECT " + strings.Join(lits, ", "))
	if r.Failed() || len(r.Schema) != len(lits) {
		return "literal-types:" + r.ErrClass()
	}
	var defs []string
	for i, c := range r.Schema {
		defs = append(defs, fmt.Sprintf("c%d %s", i+1, c.Type.String()))
	}
	if r := s.Exec("CREATE TABLE " + f[0] + " (" + strings.Join(defs, ", ") + ")"); r.Failed() {
		return "create:" + r.ErrClass() + ":" + strings.Join(defs, ", ")
	}
	if r := s.Exec("INSERT INTO " + f[0] + " VALUES (" + strings.Join(lits, ", ") + ")"); r.Failed() {
		s.Exec("DROP TABLE " + f[0])
		return "insert:" + r.ErrClass()
	}
	return ""
}

var _ = rand.Int
