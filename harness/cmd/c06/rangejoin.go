package main

// Range joins. A column bounded between two columns of the other table can be spelled with BETWEEN, with the two
// comparisons in either order, with either operand first in each comparison, in ON or in WHERE, against the table or a
// derived table / CTE; the planner recognises some of these spellings as a range-heap join and others not. All spellings
// of one (lower strictness, upper strictness) choice must return the same pairs, and those are computed in Go as well.

import (
	"fmt"
	"sort"
	"strings"

	"verif/harness/core"
)

func rangeJoinBattery(r *core.Run) {
	n := r.N(24, 240)
	r.Parallel("rangejoin", n, func(i int) {
		rnd := r.Rand("rangejoin", i)
		e := core.NewEng("d")
		defer e.Close()
		s := e.NewSess()
		s.MustExec("CREATE TABLE rt (id INT PRIMARY KEY, v INT)")
		s.MustExec("CREATE TABLE ru (id INT PRIMARY KEY, lo INT, hi INT)")
		type trow struct {
			id int
			v  *int
		}
		type urow struct {
			id     int
			lo, hi *int
		}
		val := func() *int {
			if rnd.Intn(7) == 0 {
				return nil
			}
			x := rnd.Intn(9)
			return &x
		}
		lit := func(p *int) string {
			if p == nil {
				return "NULL"
			}
			return fmt.Sprint(*p)
		}
		var ts []trow
		var us []urow
		var setup []string
		for k := 1; k <= 3+rnd.Intn(6); k++ {
			t := trow{k, val()}
			ts = append(ts, t)
			setup = append(setup, fmt.Sprintf("INSERT INTO rt VALUES (%d, %s)", k, lit(t.v)))
		}
		for k := 1; k <= 2+rnd.Intn(5); k++ {
			u := urow{k, val(), val()}
			us = append(us, u)
			setup = append(setup, fmt.Sprintf("INSERT INTO ru VALUES (%d, %s, %s)", k, lit(u.lo), lit(u.hi)))
		}
		for _, q := range setup {
			s.MustExec(q)
		}
		loStrict, hiStrict := rnd.Intn(3) == 0, rnd.Intn(3) == 0
		ge, le, gef, lef := ">=", "<=", "<=", ">=" // gef/lef: the flipped spelling with the bound on the left
		if loStrict {
			ge, gef = ">", "<"
		}
		if hiStrict {
			le, lef = "<", ">"
		}
		lower := []string{fmt.Sprintf("rt.v %s ru.lo", ge), fmt.Sprintf("ru.lo %s rt.v", gef)}
		upper := []string{fmt.Sprintf("rt.v %s ru.hi", le), fmt.Sprintf("ru.hi %s rt.v", lef)}
		var conds []string
		for _, l := range lower {
			for _, u := range upper {
				conds = append(conds, l+" AND "+u, u+" AND "+l)
			}
		}
		if !loStrict && !hiStrict {
			conds = append(conds, "rt.v BETWEEN ru.lo AND ru.hi")
		}
		type spell struct{ name, sql string }
		var spells []spell
		for k, c := range conds {
			spells = append(spells,
				spell{fmt.Sprintf("on-%d", k), "SELECT rt.id, ru.id FROM rt JOIN ru ON " + c},
				spell{fmt.Sprintf("where-%d", k), "SELECT rt.id, ru.id FROM rt, ru WHERE " + c})
			if k%3 == i%3 {
				spells = append(spells,
					spell{fmt.Sprintf("derived-%d", k), "SELECT rt.id, ru.id FROM rt JOIN (SELECT id, lo, hi FROM ru) ru ON " + c},
					spell{fmt.Sprintf("cte-%d", k), "WITH ru AS (SELECT id, lo, hi FROM ru) SELECT rt.id, ru.id FROM rt JOIN ru ON " + c},
					spell{fmt.Sprintf("swapped-%d", k), "SELECT rt.id, ru.id FROM ru JOIN rt ON " + c})
			}
		}
		// the definition
		var want []string
		for _, t := range ts {
			for _, u := range us {
				if t.v == nil || u.lo == nil || u.hi == nil {
					continue
				}
				okLo := *t.v >= *u.lo
				if loStrict {
					okLo = *t.v > *u.lo
				}
				okHi := *t.v <= *u.hi
				if hiStrict {
					okHi = *t.v < *u.hi
				}
				if okLo && okHi {
					want = append(want, fmt.Sprintf("%d|%d", t.id, u.id))
				}
			}
		}
		sort.Strings(want)
		for _, sp := range spells {
			res := s.Exec(sp.sql)
			r.Eval(1)
			r.Count("rule.range-join", 1)
			if res.TimedOut {
				r.Inconclusive("rangejoin-watchdog")
				continue
			}
			wit := map[string]any{"setup": setup, "sql": sp.sql, "expected": want, "seed": r.Seed, "case": i}
			if res.Panic != nil {
				wit["panic"] = res.Panic.Value
				r.Violation("range-join:panic:"+res.Panic.Site, wit)
				continue
			}
			if res.Err != nil {
				wit["error"] = res.Err.Error()
				r.Violation("range-join:error", wit)
				continue
			}
			got := core.SortedRows(res.Rows)
			if p := s.Plan(sp.sql); strings.Contains(p, "RangeHeapJoin") {
				r.Count("plan.range-heap-join", 1)
			}
			if !core.SameStrings(got, want) {
				wit["got"] = got
				kind := "rows-missing"
				if len(got) > len(want) {
					kind = "rows-extra"
				}
				r.Violation("range-join:spelling-differs-from-definition:"+kind, wit)
				continue
			}
			r.Distinct(fmt.Sprintf("range-join|%s|lo-strict=%v|hi-strict=%v|rows=%v", strings.SplitN(sp.name, "-", 2)[0], loStrict, hiStrict, len(want) > 0))
		}
	})
}
