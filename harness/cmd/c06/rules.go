package main

import (
	"fmt"
	"math/rand"
	"strings"

	"verif/harness/g6blib"
)

// baseDomain keeps the input classes that are C05's / C03's known findings out of C06's shared predicate
// material (they would only add noise: both spellings contain them). The IN-list classes that are C06's own
// targets (case-insensitive strings, mixed integer/decimal literals) are switched on for part of the in-or
// cases (targetDomain).
var baseDomain = g6blib.Domain{NoMixedInNum: true, NoFracOnInt: true, NoCIInList: true, NoDecKeyOnIntIndex: true, NoFracEqOnIndexedDec: true, NoArithInListLeft: true, NoLikeOnCIFunc: true, NoNegOnDateFunc: true}
var targetDomain = g6blib.Domain{NoFracOnInt: true, NoDecKeyOnIntIndex: true, NoFracEqOnIndexedDec: true, NoArithInListLeft: true, NoLikeOnCIFunc: true, NoNegOnDateFunc: true}

func genPair(rnd *rand.Rand, sc *g6blib.Schema, uniq string) *pairCase {
	switch k := rnd.Intn(20); {
	case k < 6:
		return genPredRule(rnd, sc, "in-or")
	case k < 9:
		return genPredRule(rnd, sc, "between-cmp")
	case k < 12:
		return genInExists(rnd, sc)
	case k < 15:
		return genJoinOnWhere(rnd, sc)
	case k < 18:
		return genDerived(rnd, sc, uniq)
	}
	return genLiteral(rnd, sc, uniq)
}

func pickTables(rnd *rand.Rand, sc *g6blib.Schema) (*g6blib.Table, *g6blib.Table) {
	t, u := sc.Tables[0], sc.Tables[1]
	if rnd.Intn(2) == 0 {
		t, u = u, t
	}
	return t, u
}

// ---- IN list <-> OR chain, BETWEEN <-> comparisons ------------------------------------------------

func genPredRule(rnd *rand.Rand, sc *g6blib.Schema, rule string) *pairCase {
	t, u := pickTables(rnd, sc)
	dom := baseDomain
	if rule == "in-or" && rnd.Intn(3) == 0 {
		dom = targetDomain
	}
	g := &g6blib.Gen{Rnd: rnd, Subs: sc.Tables, Domain: dom}
	var from, ids, shape string
	switch rnd.Intn(4) {
	case 0, 1:
		from, ids, shape = "FROM "+t.Name+" x0", "x0.id", "table"
		g.Scope = g6blib.Refs(t, "x0")
	case 2:
		from, ids, shape = "FROM "+t.Name+" x0 JOIN "+u.Name+" x1 ON x0.b = x1.b", "x0.id, x1.id", "innerjoin"
		g.Scope = append(g6blib.Refs(t, "x0"), g6blib.Refs(u, "x1")...)
	case 3:
		from, ids, shape = "FROM "+t.Name+" x0 LEFT JOIN "+u.Name+" x1 ON x0.a = x1.a", "x0.id, x1.id", "leftjoin"
		g.Scope = append(g6blib.Refs(t, "x0"), g6blib.Refs(u, "x1")...)
	}
	want := "inlist"
	if rule == "between-cmp" {
		want = "between"
	}
	var p *g6blib.Expr
	for try := 0; try < 6; try++ {
		p = g.Bool(1 + rnd.Intn(3))
		if p.Has(want) {
			break
		}
	}
	if !p.Has(want) {
		k := []g6blib.Kind{g6blib.KInt, g6blib.KInt, g6blib.KStr, g6blib.KDec, g6blib.KDate}[rnd.Intn(5)]
		var atom *g6blib.Expr
		if want == "inlist" {
			atom = g.InList(k, g.Value(k, 0), 1+rnd.Intn(5))
		} else {
			atom = &g6blib.Expr{Op: "between", Kind: g6blib.KBool, Neg: rnd.Intn(4) == 0, Args: []*g6blib.Expr{g.Value(k, 1), g.Lit(k), g.Lit(k)}}
		}
		p = &g6blib.Expr{Op: []string{"and", "or"}[rnd.Intn(2)], Kind: g6blib.KBool, Args: []*g6blib.Expr{p, atom}}
	}
	if rule == "in-or" {
		switch rnd.Intn(6) {
		case 0, 1: // long list: 10..40 elements (hash IN territory)
			p = &g6blib.Expr{Op: []string{"and", "or"}[rnd.Intn(2)], Kind: g6blib.KBool, Args: []*g6blib.Expr{longIn(rnd, g), p}}
			shape += "+long"
		case 2: // tuple IN
			p = &g6blib.Expr{Op: []string{"and", "or"}[rnd.Intn(2)], Kind: g6blib.KBool, Args: []*g6blib.Expr{tupleIn(rnd, g), p}}
			shape += "+tuple"
		}
	}
	pos := "filter"
	if rnd.Intn(3) == 0 {
		pos = "select-list"
	}
	names := [2]string{"in-list", "or-chain"}
	if rule == "between-cmp" {
		names = [2]string{"between", "comparisons"}
	}
	rebuild := func(q *g6blib.Expr) []spelling {
		var rw *g6blib.Expr
		if rule == "in-or" {
			rw, _ = g6blib.RewriteInLists(q)
		} else {
			rw, _ = g6blib.RewriteBetweens(q)
		}
		mk := func(e *g6blib.Expr) string {
			if pos == "filter" {
				return "SELECT " + ids + " " + from + " WHERE " + e.SQL()
			}
			return "SELECT " + ids + ", " + e.SQL() + " " + from
		}
		return []spelling{{name: names[0], query: mk(q)}, {name: names[1], query: mk(rw)}}
	}
	return &pairCase{rule: rule, spells: rebuild(p), shape: shape + "|" + pos + "|" + rewrittenShapes(p, want), pred: p, rebuild: rebuild, pos: pos, nid: 1 + strings.Count(ids, ",")}
}

// rewrittenShapes lists the skeletons of the nodes the rule rewrites.
func rewrittenShapes(p *g6blib.Expr, op string) string {
	seen := map[string]bool{}
	var out []string
	p.Walk(func(e *g6blib.Expr) {
		if e.Op == op || (op == "inlist" && e.Op == "tuplein") {
			s := e.Shape()
			if e.Op == "inlist" && len(e.Args) > 10 {
				s += "#long"
			}
			if !seen[s] {
				seen[s] = true
				out = append(out, s)
			}
		}
	})
	if len(out) > 3 {
		out = out[:3]
	}
	return strings.Join(out, ";")
}

func longIn(rnd *rand.Rand, g *g6blib.Gen) *g6blib.Expr {
	k := []g6blib.Kind{g6blib.KInt, g6blib.KInt, g6blib.KStr}[rnd.Intn(3)]
	left := g.Value(k, 0)
	if left.Op != "col" {
		k = g6blib.KInt
		left = g.Value(k, 0)
	}
	n := 10 + rnd.Intn(31)
	args := []*g6blib.Expr{left}
	for i := 0; i < n; i++ {
		var v string
		switch {
		case rnd.Intn(40) == 0:
			v = "NULL"
		case k == g6blib.KInt:
			v = fmt.Sprint(rnd.Intn(48) - 2)
			if strings.HasPrefix(v, "-") {
				v = "(" + v + ")"
			}
		default:
			v = "'" + string(rune('a'+rnd.Intn(4))) + []string{"", "b", "bc", " b", "B"}[rnd.Intn(5)] + "'"
		}
		args = append(args, &g6blib.Expr{Op: "lit", Kind: k, Name: v})
	}
	return &g6blib.Expr{Op: "inlist", Kind: g6blib.KBool, Neg: rnd.Intn(5) == 0, Args: args}
}

func tupleIn(rnd *rand.Rand, g *g6blib.Gen) *g6blib.Expr {
	l1, l2 := g.Value(g6blib.KInt, 0), g.Value(g6blib.KInt, 0)
	k2 := g6blib.KInt
	if rnd.Intn(2) == 0 {
		k2 = g6blib.KStr
		l2 = g.Value(k2, 0)
	}
	args := []*g6blib.Expr{l1, l2}
	for i := 0; i < 1+rnd.Intn(4); i++ {
		args = append(args, g.Lit(g6blib.KInt), g.Lit(k2))
	}
	return &g6blib.Expr{Op: "tuplein", Kind: g6blib.KBool, Neg: rnd.Intn(5) == 0, Args: args}
}

// ---- IN (subquery) <-> EXISTS <-> semi-join (NOT NULL integer keys, positive position) -------------

func genInExists(rnd *rand.Rand, sc *g6blib.Schema) *pairCase {
	t, u := pickTables(rnd, sc)
	if rnd.Intn(4) == 0 {
		u = t
	}
	outer := []string{"b", "id"}[rnd.Intn(2)]
	inner := []string{"b", "id"}[rnd.Intn(2)]
	simple := func(tb *g6blib.Table, alias string) string {
		if rnd.Intn(2) == 0 {
			return ""
		}
		sg := &g6blib.Gen{Rnd: rnd, Scope: g6blib.Refs(tb, alias), NoSubquery: true, NoJSON: true, Domain: baseDomain}
		return sg.Bool(1).SQL()
	}
	f := simple(u, "s")
	rest := simple(t, "x0")
	and := func(parts ...string) string {
		var p []string
		for _, x := range parts {
			if x != "" {
				p = append(p, x)
			}
		}
		return strings.Join(p, " AND ")
	}
	where := func(parts ...string) string {
		if w := and(parts...); w != "" {
			return " WHERE " + w
		}
		return ""
	}
	x, c := "x0."+outer, "s."+inner
	sp := []spelling{
		{name: "in-subquery", query: fmt.Sprintf("SELECT x0.id FROM %s x0 WHERE %s", t.Name, and(fmt.Sprintf("%s IN (SELECT %s FROM %s s%s)", x, c, u.Name, where(f)), rest))},
		{name: "exists", query: fmt.Sprintf("SELECT x0.id FROM %s x0 WHERE %s", t.Name, and(fmt.Sprintf("EXISTS (SELECT 1 FROM %s s WHERE %s)", u.Name, and(f, c+" = "+x)), rest))},
		{name: "semijoin-distinct", query: fmt.Sprintf("SELECT x0.id FROM %s x0 JOIN (SELECT DISTINCT %s AS k FROM %s s%s) d ON d.k = %s%s", t.Name, c, u.Name, where(f), x, where(rest))},
		{name: "join-distinct-id", query: fmt.Sprintf("SELECT DISTINCT x0.id FROM %s x0 JOIN %s s ON %s = %s%s", t.Name, u.Name, c, x, where(f, rest))},
	}
	shape := fmt.Sprintf("%s-in-%s|f=%v|rest=%v|self=%v", outer, inner, f != "", rest != "", t == u)
	return &pairCase{rule: "in-exists-semijoin", spells: sp, shape: shape}
}

// ---- JOIN ... ON p <-> comma join WHERE p <-> CROSS JOIN WHERE p ----------------------------------

func genJoinOnWhere(rnd *rand.Rand, sc *g6blib.Schema) *pairCase {
	t, u := pickTables(rnd, sc)
	scope := append(g6blib.Refs(t, "x0"), g6blib.Refs(u, "x1")...)
	g := &g6blib.Gen{Rnd: rnd, Scope: scope, Subs: sc.Tables, NoSubquery: true, Domain: baseDomain}
	var p *g6blib.Expr
	keys := [][2]string{{"a", "a"}, {"b", "b"}, {"a", "id"}, {"id", "b"}, {"id", "id"}}
	k := keys[rnd.Intn(len(keys))]
	eq := &g6blib.Expr{Op: "const", Kind: g6blib.KBool, Name: fmt.Sprintf("(x0.%s = x1.%s)", k[0], k[1])}
	pshape := "eq"
	switch rnd.Intn(4) {
	case 0:
		p = eq
	case 1, 2:
		p = &g6blib.Expr{Op: "and", Kind: g6blib.KBool, Args: []*g6blib.Expr{eq, g.Bool(1 + rnd.Intn(2))}}
		pshape = "eq-and-pred"
	default:
		p = g.Bool(1 + rnd.Intn(2))
		pshape = "pred"
	}
	q := ""
	if rnd.Intn(2) == 0 {
		gq := &g6blib.Gen{Rnd: rnd, Scope: scope, Subs: sc.Tables, Domain: baseDomain}
		q = gq.Bool(1 + rnd.Intn(2)).SQL()
	}
	rebuild := func(p *g6blib.Expr) []spelling {
		ps := p.SQL()
		wq, aq := "", ""
		if q != "" {
			wq, aq = " WHERE "+q, " AND "+q
		}
		return []spelling{
			{name: "join-on", query: fmt.Sprintf("SELECT x0.id, x1.id FROM %s x0 JOIN %s x1 ON %s%s", t.Name, u.Name, ps, wq)},
			{name: "comma-where", query: fmt.Sprintf("SELECT x0.id, x1.id FROM %s x0, %s x1 WHERE %s%s", t.Name, u.Name, ps, aq)},
			{name: "cross-join-where", query: fmt.Sprintf("SELECT x0.id, x1.id FROM %s x0 CROSS JOIN %s x1 WHERE %s%s", t.Name, u.Name, ps, aq)},
		}
	}
	return &pairCase{rule: "join-on-where", spells: rebuild(p), shape: fmt.Sprintf("%s|where=%v", pshape, q != ""), pred: p, rebuild: rebuild}
}

// ---- derived table <-> CTE <-> view <-> inlined body ------------------------------------------------

func genDerived(rnd *rand.Rand, sc *g6blib.Schema, uniq string) *pairCase {
	t, u := pickTables(rnd, sc)
	refs := g6blib.Refs(t, "d")
	gb := &g6blib.Gen{Rnd: rnd, Scope: refs, NoSubquery: true, NoJSON: true, Domain: baseDomain}
	f := ""
	if rnd.Intn(2) == 0 {
		f = gb.Bool(1).SQL()
	}
	wf := ""
	if f != "" {
		wf = " WHERE " + f
	}
	join := ""
	if rnd.Intn(3) == 0 {
		join = " JOIN " + u.Name + " x1 ON d.a = x1.a"
	}
	view := "vw_" + uniq
	if rnd.Intn(3) == 0 {
		// grouped body: derived / CTE / view only
		body := fmt.Sprintf("SELECT d.b AS g, COUNT(*) AS n, MAX(d.a) AS m FROM %s d%s GROUP BY d.b", t.Name, wf)
		oscope := []*g6blib.ColRef{{SQL: "d.g", Kind: g6blib.KInt}, {SQL: "d.n", Kind: g6blib.KInt}, {SQL: "d.m", Kind: g6blib.KInt, Nullable: true}}
		if join != "" {
			join = " JOIN " + u.Name + " x1 ON d.g = x1.b"
			oscope = append(oscope, g6blib.Refs(u, "x1")...)
		}
		go_ := &g6blib.Gen{Rnd: rnd, Scope: oscope, NoSubquery: true, NoJSON: true, Domain: baseDomain}
		og := ""
		if rnd.Intn(3) > 0 {
			og = " WHERE " + go_.Bool(1).SQL()
		}
		sel := "SELECT d.g, d.n, d.m"
		if join != "" {
			sel += ", x1.id"
		}
		sp := []spelling{
			{name: "derived", query: fmt.Sprintf("%s FROM (%s) d%s%s", sel, body, join, og)},
			{name: "cte", query: fmt.Sprintf("WITH d AS (%s) %s FROM d%s%s", body, sel, join, og)},
			{name: "view", pre: []string{"CREATE VIEW " + view + " AS " + body}, query: fmt.Sprintf("%s FROM %s d%s%s", sel, view, join, og), post: []string{"DROP VIEW " + view}},
		}
		return &pairCase{rule: "derived-cte-view", spells: sp, shape: fmt.Sprintf("grouped|f=%v|join=%v|outer=%v", f != "", join != "", og != "")}
	}
	// simple body with one computed column
	ek := []g6blib.Kind{g6blib.KInt, g6blib.KInt, g6blib.KStr}[rnd.Intn(3)]
	e := gb.Value(ek, 1+rnd.Intn(2))
	body := fmt.Sprintf("SELECT d.id, d.a, d.b, %s AS e1 FROM %s d%s", e.SQL(), t.Name, wf)
	oscope := []*g6blib.ColRef{refs[0], refs[1], refs[2], {SQL: "d.e1", Kind: ek, Nullable: true}}
	if join != "" {
		oscope = append(oscope, g6blib.Refs(u, "x1")...)
	}
	go_ := &g6blib.Gen{Rnd: rnd, Scope: oscope, NoSubquery: true, NoJSON: true, Domain: baseDomain}
	var og *g6blib.Expr
	if rnd.Intn(4) > 0 {
		og = go_.Bool(1 + rnd.Intn(2))
	}
	sel := "SELECT d.id, d.e1"
	selIn := "SELECT d.id, " + e.SQL()
	if join != "" {
		sel += ", x1.id"
		selIn += ", x1.id"
	}
	ow, inl := "", wf
	if og != nil {
		ow = " WHERE " + og.SQL()
		ogIn := og.SubstituteCol("d.e1", e).SQL()
		if f != "" {
			inl = " WHERE " + f + " AND " + ogIn
		} else {
			inl = " WHERE " + ogIn
		}
	}
	sp := []spelling{
		{name: "derived", query: fmt.Sprintf("%s FROM (%s) d%s%s", sel, body, join, ow)},
		{name: "cte", query: fmt.Sprintf("WITH d AS (%s) %s FROM d%s%s", body, sel, join, ow)},
		{name: "view", pre: []string{"CREATE VIEW " + view + " AS " + body}, query: fmt.Sprintf("%s FROM %s d%s%s", sel, view, join, ow), post: []string{"DROP VIEW " + view}},
		{name: "inlined", query: fmt.Sprintf("%s FROM %s d%s%s", selIn, t.Name, join, inl)},
	}
	return &pairCase{rule: "derived-cte-view", spells: sp, shape: fmt.Sprintf("simple:%s|f=%v|join=%v|outer=%v", e.Shape(), f != "", join != "", og != nil)}
}

// ---- expression over literals <-> the same expression over a one-row table ---------------------------

func genLiteral(rnd *rand.Rand, sc *g6blib.Schema, uniq string) *pairCase {
	n := 2 + rnd.Intn(3)
	kinds := []g6blib.Kind{g6blib.KInt, g6blib.KInt, g6blib.KDec, g6blib.KStr, g6blib.KDate}
	var refs []*g6blib.ColRef
	var lits []*g6blib.Expr
	lg := &g6blib.Gen{Rnd: rnd}
	for i := 0; i < n; i++ {
		k := kinds[rnd.Intn(len(kinds))]
		var l *g6blib.Expr
		for {
			l = lg.Lit(k)
			if l.Name != "NULL" {
				break
			}
		}
		if k == g6blib.KDate && !strings.HasPrefix(l.Name, "CAST") {
			l = &g6blib.Expr{Op: "lit", Kind: k, Name: "CAST(" + l.Name + " AS DATE)"}
		}
		refs = append(refs, &g6blib.ColRef{SQL: fmt.Sprintf("o.c%d", i+1), Kind: k})
		lits = append(lits, l)
	}
	g := &g6blib.Gen{Rnd: rnd, Scope: refs, NoSubquery: true, NoJSON: true, Domain: baseDomain}
	var e *g6blib.Expr
	if rnd.Intn(2) == 0 {
		e = g.Bool(1 + rnd.Intn(2))
	} else {
		e = g.Value(refs[rnd.Intn(len(refs))].Kind, 1+rnd.Intn(2))
	}
	tbl := "one_" + uniq
	rebuild := func(e *g6blib.Expr) []spelling {
		le := e
		for i, r := range refs {
			le = le.SubstituteCol(r.SQL, lits[i])
		}
		var litSQL []string
		for _, l := range lits {
			litSQL = append(litSQL, l.SQL())
		}
		return []spelling{
			{name: "literals", query: "SELECT " + le.SQL()},
			{name: "one-row-table", pre: []string{"@@create-one " + tbl + " " + strings.Join(litSQL, " ||| ")}, query: "SELECT " + e.SQL() + " FROM " + tbl + " o", post: []string{"DROP TABLE " + tbl}},
		}
	}
	return &pairCase{rule: "literal-vs-column", spells: rebuild(e), shape: e.Shape(), pred: e, rebuild: rebuild}
}
