package main

import (
	"fmt"

	"github.com/dolthub/go-mysql-server/sql"
	"github.com/dolthub/go-mysql-server/sql/hash"
	"github.com/dolthub/go-mysql-server/sql/types"
	"github.com/dolthub/vitess/go/sqltypes"

	"verif/harness/core"
)

// directLayer checks the hashing API itself: for values u, v of one type T (results of T.Convert) with
// T.Compare(u, v) == 0, hash.HashOf(schema{T}, row{u}) == hash.HashOf(…row{v}) and
// hash.HashOfSimple(u, T) == hash.HashOfSimple(v, T). Unequal values are not required to hash apart.
func directLayer(r *core.Run) {
	ctx := sql.NewEmptyContext()
	type group struct {
		name, class string
		typ         sql.Type
		raws        []any
	}
	var groups []group
	strs := []any{"a", "A", "á", "Á", "ä", "e", "é", "E", "b", "B", "ab", "AB", "Ab", "a ", "A ", "a  ", "ss", "ß", "", " ", "abc", "ABC"}
	it := sql.NewCollationsIterator()
	for {
		c, ok := it.Next()
		if !ok {
			break
		}
		if c.Sorter == nil || c.CharacterSet != sql.CharacterSet_utf8mb4 {
			continue
		}
		if r.Quick() {
			switch c.Name {
			case "utf8mb4_0900_ai_ci", "utf8mb4_0900_bin", "utf8mb4_general_ci", "utf8mb4_unicode_ci", "utf8mb4_0900_as_cs", "utf8mb4_bin":
			default:
				continue
			}
		}
		groups = append(groups, group{"varchar/" + c.Name, collClass(c.Name), types.MustCreateString(sqltypes.VarChar, 20, c.ID), strs})
	}
	nums := []any{int64(1), int8(1), uint64(1), float64(1), float32(1), "1", "1.0", "1.00", int64(0), float64(0), negZero(), "0.00", "-0.00", "-0", "1.5", float64(1.5), "1.50", int64(-1), "-1.0", int64(2)}
	groups = append(groups,
		group{"int64", "int", types.Int64, nums},
		group{"uint64", "int", types.Uint64, nums},
		group{"float64", "float", types.Float64, nums},
		group{"float32", "float", types.Float32, nums},
		group{"decimal(10,2)", "decimal", types.MustCreateDecimalType(10, 2), nums},
		group{"decimal(65,30)", "decimal", types.MustCreateDecimalType(65, 30), nums},
		group{"datetime(6)", "datetime", types.MustCreateDatetimeType(sqltypes.Datetime, 6), []any{"2020-01-01 00:00:00", "2020-01-01", "2020-01-01 00:00:00.000000", "2020-01-01 00:00:00.000001", "2020-01-01 10:00:00"}},
		group{"date", "date", types.Date, []any{"2020-01-01 00:00:00", "2020-01-01", "20200101", "2020-01-02"}},
		group{"json", "json", types.JSON, []any{`{"a": 1, "b": 2}`, `{"b": 2, "a": 1}`, `1`, `1.0`, `[1, 2]`, `[1,2]`, `"a"`}},
		group{"varbinary", "binary", types.MustCreateBinary(sqltypes.VarBinary, 10), []any{"a", "A", []byte("a"), "a ", []byte{0x61, 0}}},
	)
	for _, g := range groups {
		var vals []any
		var src []any
		for _, raw := range g.raws {
			v, inRange, err := safeConvert(ctx, g.typ, raw)
			if err != nil || !inRange || v == nil {
				continue
			}
			vals = append(vals, v)
			src = append(src, raw)
		}
		sch := sql.Schema{{Name: "v", Type: g.typ}}
		for i := range vals {
			for j := i + 1; j < len(vals); j++ {
				cmp, err := safeCompare(ctx, g.typ, vals[i], vals[j])
				if err != nil || cmp != 0 {
					continue
				}
				diffRepr := fmt.Sprintf("%T:%v", vals[i], vals[i]) != fmt.Sprintf("%T:%v", vals[j], vals[j])
				for _, api := range []string{"HashOf", "HashOfSimple"} {
					h1, e1 := safeHash(ctx, api, sch, g.typ, vals[i])
					h2, e2 := safeHash(ctx, api, sch, g.typ, vals[j])
					r.Eval(1)
					r.Count("direct.hashof-pairs", 1)
					if diffRepr {
						r.Distinct("direct|" + g.name + "|" + api)
					}
					w := map[string]any{"type": g.typ.String(), "api": "hash." + api, "u": fmt.Sprintf("%T %v (from %T %v)", vals[i], vals[i], src[i], src[i]), "v": fmt.Sprintf("%T %v (from %T %v)", vals[j], vals[j], src[j], src[j])}
					switch {
					case e1 != nil || e2 != nil:
						w["errors"] = fmt.Sprint(e1, " / ", e2)
						if p, ok := e1.(panicErr); ok {
							r.Violation("c07:direct:"+api+":"+g.class+":"+p.sig, w)
						} else if p, ok := e2.(panicErr); ok {
							r.Violation("c07:direct:"+api+":"+g.class+":"+p.sig, w)
						} else {
							r.Inconclusive("direct-hash-error:" + g.name)
						}
					case h1 != h2:
						r.Violation("c07:direct:"+api+":"+g.class+":compare-equal-values-hash-differently", w)
					}
				}
			}
		}
	}
}

func negZero() float64 {
	z := 0.0
	return -z
}

type panicErr struct{ sig string }

func (p panicErr) Error() string { return p.sig }

func guard(f func() error) (err error) {
	defer func() {
		if rec := recover(); rec != nil {
			err = panicErr{core.CapturePanic(rec).Sig()}
		}
	}()
	return f()
}

func safeConvert(ctx *sql.Context, t sql.Type, raw any) (v any, inRange bool, err error) {
	err = guard(func() error {
		var ir sql.ConvertInRange
		var e error
		v, ir, e = t.Convert(ctx, raw)
		inRange = ir == sql.InRange
		return e
	})
	return
}

func safeCompare(ctx *sql.Context, t sql.Type, a, b any) (c int, err error) {
	err = guard(func() error {
		var e error
		c, e = t.Compare(ctx, a, b)
		return e
	})
	return
}

func safeHash(ctx *sql.Context, api string, sch sql.Schema, t sql.Type, v any) (h uint64, err error) {
	err = guard(func() error {
		var e error
		if api == "HashOf" {
			h, e = hash.HashOf(ctx, sch, sql.Row{v})
		} else {
			h, _, e = hash.HashOfSimple(ctx, v, t)
		}
		return e
	})
	return
}
