package main

import (
	"fmt"
	"math/rand"
	"strings"

	"verif/harness/core"
)

// Known findings of C07 (details: /verif/findings/C07.md). A violation is attributed to a family only when
// its (operator, palette class, failure mode) lies inside the family's explicit cell set; everything else
// keeps the raw signature c07:<operator>:<class>:<mode>.

const (
	famDistinctCI = "distinct-family-ignores-ci-collation"         // F39
	famInListCI   = "in-list-ignores-ci-collation"                 // F5
	famSetOpType  = "set-operators-hash-without-common-type"       // INT ∪ DECIMAL, DECIMAL(10,1) ∪ DECIMAL(10,3), DECIMAL ∪ DOUBLE
	famNegZero    = "negative-zero-decimal-hashes-apart-from-zero" // -0.00 vs 0.00
	famNul        = "nul-byte-in-value-collides-with-column-separator"
	famComma      = "count-distinct-comma-separator-collision"
	famExceptNil  = "except-drops-empty-string-row"
	famHashJoinCI = "hash-join-multi-column-ci-key-misses-pairs"
	famDirectDec  = "hashof-decimal-text-depends-on-scale-and-sign"
	famTimeIn     = "time-column-in-list-of-string-literals-misses"
)

var ciClasses = map[string]bool{"str-ai_ci": true, "str-ci": true, "str-as_ci": true, "char-ai_ci": true, "text-ai_ci": true, "multi-str-ai_ci": true}
var crossNum = map[string]bool{"cross-int-decimal": true, "cross-decimal-scale": true, "cross-decimal-double": true, "cross-int-double": true}
var setOps = map[string]bool{"distinct": true, "union": true, "intersect": true, "except": true}

func family(op, class, mode string) string {
	raw := "c07:" + op + ":" + class + ":" + mode
	dedup := mode == "dedup-disagrees-with-eq"
	switch {
	case ciClasses[class] && ((setOps[op] && dedup) || (op == "count-distinct" && mode == "splits-equal-values")):
		return famDistinctCI
	case ciClasses[class] && (op == "in-list-filter" || op == "in-list-select") && mode == "misses-equal-values":
		return famInListCI
	case crossNum[class] && (op == "union" || op == "intersect" || op == "except") && dedup:
		return famSetOpType
	case class == "decimal-negzero" && ((setOps[op] && dedup) || ((op == "count-distinct" || op == "group-by" || op == "partition-by") && mode == "splits-equal-values") ||
		((op == "in-list-filter" || op == "in-subquery-select" || op == "in-subquery-filter") && mode == "misses-equal-values") || (op == "join-hash" && strings.HasPrefix(mode, "misses-equal-pairs:plan=HashJoin"))):
		return famNegZero
	case class == "float-negzero" && op == "in-list-filter" && mode == "misses-equal-values":
		return famNegZero
	case class == "multi-str-nul" && ((setOps[op] && dedup) || ((op == "group-by" || op == "count-distinct" || op == "partition-by") && mode == "merges-unequal-values")):
		return famNul
	case class == "multi-str-comma" && op == "count-distinct" && mode == "merges-unequal-values":
		return famComma
	case class == "str-bin-empty" && op == "except" && dedup:
		return famExceptNil
	case class == "time" && op == "in-list-filter" && mode == "misses-equal-values":
		return famTimeIn
	case class == "multi-str-ai_ci" && op == "join-hash" && mode == "misses-equal-pairs:plan=HashJoin":
		return famHashJoinCI
	}
	return raw
}

type pinnedCase struct {
	fam, what string
	palName   string
	a, b      [][]string
	op        string
}

func pinnedCases() []pinnedCase {
	v := func(xs ...string) [][]string { return one(xs...) }
	return []pinnedCase{
		{famDistinctCI, "SELECT DISTINCT v over utf8mb4_0900_ai_ci {'a','A','b'} returns 3 rows ('a' = 'A' is TRUE; GROUP BY gives 2 groups)", "VARCHAR(20)/utf8mb4_0900_ai_ci", v("'a'", "'A'", "'b'"), v("'B'"), "distinct"},
		{famDistinctCI, "COUNT(DISTINCT v) over utf8mb4_0900_ai_ci {'a','A','b'} is 3", "VARCHAR(20)/utf8mb4_0900_ai_ci", v("'a'", "'A'", "'b'"), v("'B'"), "count-distinct"},
		{famDistinctCI, "SELECT v FROM t UNION SELECT v FROM u over utf8mb4_0900_ai_ci {'a','A','b'} ∪ {'B'} returns 4 rows", "VARCHAR(20)/utf8mb4_0900_ai_ci", v("'a'", "'A'", "'b'"), v("'B'"), "union"},
		{famDistinctCI, "INTERSECT over utf8mb4_0900_ai_ci {'a','A','b'} ∩ {'B'} is empty", "VARCHAR(20)/utf8mb4_0900_ai_ci", v("'a'", "'A'", "'b'"), v("'B'"), "intersect"},
		{famDistinctCI, "EXCEPT over utf8mb4_0900_ai_ci {'a','A','b'} \\ {'B'} keeps 'b'", "VARCHAR(20)/utf8mb4_0900_ai_ci", v("'a'", "'A'", "'b'"), v("'B'"), "except"},
		{famInListCI, "v IN ('B') over utf8mb4_0900_ai_ci misses 'b' in the filter (HashInTuple)", "VARCHAR(20)/utf8mb4_0900_ai_ci", v("'a'", "'A'", "'b'"), v("'B'"), "in-list-filter"},
		{famInListCI, "v IN ('B') over utf8mb4_0900_ai_ci is 0 for 'b' in the select list (InTuple)", "VARCHAR(20)/utf8mb4_0900_ai_ci", v("'a'", "'A'", "'b'"), v("'B'"), "in-list-select"},
		{famSetOpType, "SELECT v FROM t(INT) UNION SELECT v FROM u(DECIMAL(10,2)) returns both 1 and 1.00", "intxdecimal", v("1", "2"), v("1.00", "2.50"), "union"},
		{famSetOpType, "INT {1,2} INTERSECT DECIMAL {1.00,2.50} is empty", "intxdecimal", v("1", "2"), v("1.00", "2.50"), "intersect"},
		{famSetOpType, "INT {1,2} EXCEPT DECIMAL {1.00,2.50} keeps 1", "intxdecimal", v("1", "2"), v("1.00", "2.50"), "except"},
		{famNegZero, "DECIMAL column holding 0.00 and (0.00 * -1): '=' says equal, GROUP BY makes two groups", "decimal-negzero", v("0.00", "(0.00 * -1)", "1.00"), v("0.00"), "group-by"},
		{famNegZero, "DOUBLE column 0e0: v IN (-0e0, 1.5) misses it in the filter", "double-negzero", v("0e0", "1.0"), v("-0e0", "1.5"), "in-list-filter"},
		{famNul, "GROUP BY v1, v2 merges ('a','\\0bc') and ('a\\0','bc')", "varchar-bin x2 with NUL", [][]string{{"'a'", "'\\0bc'"}, {"'a\\0'", "'bc'"}}, [][]string{{"'a'", "'bc'"}}, "group-by"},
		{famComma, "COUNT(DISTINCT v1, v2) counts ('a,','bc') and ('a',',bc') once", "varchar-bin x2 with comma", [][]string{{"'a,'", "'bc'"}, {"'a'", "',bc'"}}, [][]string{{"'a'", "'bc'"}}, "count-distinct"},
		{famExceptNil, "SELECT v FROM t EXCEPT SELECT v FROM u loses the row '' (ExceptIter hashes the nil row it gets at EOF)", "varchar-bin-empty", v("''", "'a'"), v("'b'"), "except"},
		{famTimeIn, "TIME column: v IN ('10:00:00') as a filter (HashInTuple) returns nothing although v = '10:00:00' is TRUE and the select-list IN is 1", "time", v("'10:00:00'", "'10:00:01'"), v("'10:00:00'"), "in-list-filter"},
		{famHashJoinCI, "HASH_JOIN on (v1, v2) of two _ai_ci columns misses ('A','BC') = ('a','bc')", "varchar-ci x2", [][]string{{"'A'", "'BC'"}, {"'a'", "'bc'"}}, [][]string{{"'a'", "'bc'"}}, "join-hash"},
	}
}

// pinned replays one fixed witness per known family and operator on every run.
func pinned(r *core.Run) {
	pals := map[string]*palette{}
	for _, p := range palettes(r) {
		pals[p.name] = p
	}
	for _, pc := range pinnedCases() {
		pal := pals[pc.palName]
		if pal == nil {
			panic("pinned: unknown palette " + pc.palName)
		}
		c := fixedCase(pal, pc.a, pc.b)
		e := core.NewEng("d")
		s := e.NewSess()
		still := false
		var w any
		func() {
			defer e.Close()
			for _, q := range c.setup {
				if res := s.Exec(q); res.Failed() {
					return
				}
			}
			if ok, _ := c.matrix(r, s); !ok {
				return
			}
			for _, ch := range c.operators(s, nil) {
				if ch.op == pc.op && ch.mode != "" && family(ch.op, pal.class, ch.mode) == pc.fam {
					still = true
					w = map[string]any{"setup": c.setup, "sql": ch.sql, "mode": ch.mode, "detail": ch.detail}
				}
			}
		}()
		r.Pinned(pc.fam, fmt.Sprintf("%s [%s]", pc.what, pc.op), still, w)
		r.Count("pinned."+pc.fam, 1)
	}
}

// fixedCase builds a case from explicit rows.
func fixedCase(pal *palette, a, b [][]string) *caseData {
	c := genCase(rand.New(rand.NewSource(1)), &palette{name: pal.name, class: pal.class, cols: pal.cols, colsB: pal.colsB, pool: a, poolB: b, index: pal.index, noNull: true, castLit: pal.castLit})
	// genCase samples; overwrite with the exact rows
	c.a = tableData{name: "t"}
	c.b = tableData{name: "u"}
	for k, row := range a {
		c.a.ids = append(c.a.ids, 1+k)
		c.a.rows = append(c.a.rows, row)
	}
	for k, row := range b {
		c.b.ids = append(c.b.ids, 101+k)
		c.b.rows = append(c.b.rows, row)
	}
	c.rebuild()
	return c
}
