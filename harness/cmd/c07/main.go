// C07 — grouping and de-duplication use the same equality as '='.
//
// Oracle (metamorphic): the engine's own '='. For a seeded value set stored in tables A (t) and B (u) the
// full pairwise matrix `SELECT a.id, b.id, a.v = b.v FROM … a, … b` (cross join + projection: nested loop, no
// hashing) defines the equality classes of the non-NULL values. Every grouping / de-duplicating / matching
// operator must then induce exactly those classes (member sets are compared, not only counts): GROUP BY,
// COUNT(DISTINCT), SELECT DISTINCT, UNION, INTERSECT, EXCEPT, IN (subquery) in filter and select-list
// position, IN (literal list), hash / lookup / merge joins, window PARTITION BY. If the matrix is not an
// equivalence relation the case is inconclusive here (that is C26/C29's business).
// Direct layer: hash.HashOf / hash.HashOfSimple agree on values with Type.Compare == 0.
package main

import (
	"fmt"
	"math/rand"
	"os"
	"sort"
	"strings"

	"verif/harness/core"
	"verif/harness/g6blib"
)

type tableData struct {
	name string
	ids  []int
	rows [][]string // SQL literals per column ("NULL" allowed)
}

type caseData struct {
	pal   *palette
	a, b  tableData
	setup []string
	lit   map[int][]string // id -> literals
	null  map[int]bool
	cls   map[int]int // id -> class representative (smallest id), non-null ids only
}

func main() {
	if len(os.Args) > 1 && os.Args[1] == "probe" {
		g6blib.ProbeMain()
		return
	}
	r := core.NewRun("C07", "exploration",
		"one evaluation = one operator (GROUP BY, COUNT(DISTINCT), DISTINCT, UNION, INTERSECT, EXCEPT, IN-subquery filter / select list, IN list, hash/lookup/merge join, PARTITION BY, or a direct hash.HashOf/HashOfSimple pair) compared with the classes of the engine's own pairwise '=' matrix on one seeded value set; distinct = (type/collation palette, operator) observed on a value set that has two '='-equal values with different representations")
	r.Fold(8, 3)
	r.Assume("the oracle is the engine's own '=' evaluated in the select list over a cross join (no hashing); a case whose matrix is not an equivalence relation is inconclusive")
	r.Assume("NULL rows: all NULLs form one group for GROUP BY / DISTINCT / set operators / PARTITION BY; NULL never matches in joins and IN")
	pals := palettes(r)
	n := r.N(400, 10000)
	r.Parallel("sets", n, func(i int) {
		rnd := r.Rand("sets", i)
		pal := pals[i%len(pals)]
		runCase(r, rnd, pal, fmt.Sprintf("sets/%d", i))
	})
	directLayer(r)
	pinned(r)
	for _, op := range []string{"group-by", "count-distinct", "distinct", "union", "intersect", "except", "in-subquery-filter", "in-subquery-select", "in-list-filter", "in-list-select", "join-hash", "join-lookup", "join-merge", "partition-by"} {
		r.Floor(r.Counter("op."+op) > 0, "operator never evaluated: "+op)
	}
	r.Floor(r.Counter("plan.HashJoin") > 0 && r.Counter("plan.LookupJoin") > 0 && r.Counter("plan.MergeJoin") > 0, "hash / lookup / merge join plans not all reached")
	r.Floor(r.Counter("direct.hashof-pairs") > 0, "direct hash layer not exercised")
	r.Finish()
}

func genCase(rnd *rand.Rand, pal *palette) *caseData {
	c := &caseData{pal: pal, lit: map[int][]string{}, null: map[int]bool{}, cls: map[int]int{}}
	mk := func(name string, base int, pool [][]string, n int) tableData {
		td := tableData{name: name}
		for k := 0; k < n; k++ {
			var row []string
			if !pal.noNull && rnd.Intn(8) == 0 {
				for range pal.cols {
					row = append(row, "NULL")
				}
			} else {
				row = pool[rnd.Intn(len(pool))]
			}
			td.ids = append(td.ids, base+k)
			td.rows = append(td.rows, row)
		}
		return td
	}
	poolB := pal.poolB
	if poolB == nil {
		poolB = pal.pool
	}
	c.a = mk("t", 1, pal.pool, 3+rnd.Intn(6))
	c.b = mk("u", 101, poolB, 2+rnd.Intn(5))
	c.rebuild()
	return c
}

// rebuild derives the setup statements and literal maps from c.a / c.b.
func (c *caseData) rebuild() {
	c.lit, c.null, c.cls = map[int][]string{}, map[int]bool{}, map[int]int{}
	colsB := c.pal.colsB
	if colsB == nil {
		colsB = c.pal.cols
	}
	create := func(name string, cols []string, idx bool) string {
		var defs []string
		defs = append(defs, "id INT PRIMARY KEY")
		var names []string
		for k, t := range cols {
			defs = append(defs, fmt.Sprintf("v%d %s", k+1, t))
			names = append(names, fmt.Sprintf("v%d", k+1))
		}
		if idx {
			defs = append(defs, "KEY kv ("+strings.Join(names, ", ")+")")
		}
		return fmt.Sprintf("CREATE TABLE %s (%s)", name, strings.Join(defs, ", "))
	}
	insert := func(name string, td tableData) string {
		var rs []string
		for k, row := range td.rows {
			rs = append(rs, fmt.Sprintf("(%d, %s)", td.ids[k], strings.Join(row, ", ")))
		}
		return fmt.Sprintf("INSERT INTO %s VALUES %s", name, strings.Join(rs, ", "))
	}
	c.setup = []string{create("t", c.pal.cols, false), create("u", colsB, false), insert("t", c.a), insert("u", c.b)}
	if c.pal.index {
		c.setup = append(c.setup, create("ti", c.pal.cols, true), create("ui", colsB, true), insert("ti", c.a), insert("ui", c.b))
	}
	for _, td := range []tableData{c.a, c.b} {
		for k, id := range td.ids {
			c.lit[id] = td.rows[k]
			if td.rows[k][0] == "NULL" {
				c.null[id] = true
			}
		}
	}
}

func (c *caseData) eq(l, r string) string {
	var parts []string
	for k := range c.pal.cols {
		parts = append(parts, fmt.Sprintf("%s.v%d = %s.v%d", l, k+1, r, k+1))
	}
	if len(parts) == 1 {
		return parts[0]
	}
	return "(" + strings.Join(parts, " AND ") + ")"
}

func (c *caseData) vlist(alias string) string {
	var parts []string
	for k := range c.pal.cols {
		p := fmt.Sprintf("v%d", k+1)
		if alias != "" {
			p = alias + "." + p
		}
		parts = append(parts, p)
	}
	return strings.Join(parts, ", ")
}

func atoi(s string) int {
	var n int
	fmt.Sscan(s, &n)
	return n
}

// matrix computes the '=' classes; ok=false when the relation is not an equivalence (or a query failed).
func (c *caseData) matrix(r *core.Run, s *core.Sess) (ok bool, why string) {
	m := map[[2]int]string{}
	for _, pr := range [][2]string{{"t", "t"}, {"t", "u"}, {"u", "t"}, {"u", "u"}} {
		q := fmt.Sprintf("SELECT a.id, b.id, %s FROM %s a, %s b", c.eq("a", "b"), pr[0], pr[1])
		res := s.Exec(q)
		if res.Failed() {
			return false, "matrix-query-failed:" + res.ErrClass()
		}
		if pl := s.Plan(q); strings.Contains(pl, "Hash") || strings.Contains(pl, "Lookup") || strings.Contains(pl, "Merge") {
			return false, "matrix-plan-not-nested-loop"
		}
		for _, row := range res.Rows {
			m[[2]int{atoi(core.Canon(row[0])), atoi(core.Canon(row[1]))}] = core.Canon(row[2])
		}
	}
	var ids []int
	for _, id := range append(append([]int{}, c.a.ids...), c.b.ids...) {
		if !c.null[id] {
			ids = append(ids, id)
		}
	}
	parent := map[int]int{}
	var find func(int) int
	find = func(x int) int {
		if parent[x] == x {
			return x
		}
		parent[x] = find(parent[x])
		return parent[x]
	}
	for _, id := range ids {
		parent[id] = id
	}
	for _, x := range ids {
		if m[[2]int{x, x}] != "1" {
			return false, "eq-not-reflexive"
		}
		for _, y := range ids {
			v := m[[2]int{x, y}]
			if v != m[[2]int{y, x}] {
				return false, "eq-not-symmetric"
			}
			if v == "1" {
				rx, ry := find(x), find(y)
				if rx < ry {
					parent[ry] = rx
				} else if ry < rx {
					parent[rx] = ry
				}
			} else if v != "0" {
				return false, "eq-not-boolean:" + v
			}
		}
	}
	for _, x := range ids {
		for _, y := range ids {
			same := find(x) == find(y)
			if same != (m[[2]int{x, y}] == "1") {
				return false, "eq-not-transitive"
			}
		}
	}
	for _, id := range ids {
		c.cls[id] = find(id)
	}
	return true, ""
}

// classSet returns the set of classes that have a member among ids.
func (c *caseData) classSet(ids []int) map[int]bool {
	out := map[int]bool{}
	for _, id := range ids {
		if !c.null[id] {
			out[c.cls[id]] = true
		}
	}
	return out
}

func (c *caseData) hasNull(ids []int) bool {
	for _, id := range ids {
		if c.null[id] {
			return true
		}
	}
	return false
}

// nontrivial: some class has two members whose literals differ (equal values, different representation).
func (c *caseData) nontrivial() bool {
	first := map[int]string{}
	for id, cl := range c.cls {
		l := strings.Join(c.lit[id], "|") + "@" + c.typeOf(id)
		if f, ok := first[cl]; ok && f != l {
			return true
		} else if !ok {
			first[cl] = l
		}
	}
	return false
}

func (c *caseData) typeOf(id int) string {
	if id > 100 && c.pal.colsB != nil {
		return "B"
	}
	return "A"
}

type opCheck struct {
	op      string
	sql     string
	mode    string // "" = agrees
	detail  any
	planOp  string
	fine    string
	inconcl string
}

func runCase(r *core.Run, rnd *rand.Rand, pal *palette, caseID string) {
	c := genCase(rnd, pal)
	e := core.NewEng("d")
	defer e.Close()
	s := e.NewSess()
	for _, q := range c.setup {
		if res := s.Exec(q); res.Failed() {
			if res.Panic != nil {
				r.Violation("c07:setup:"+res.Panic.Sig(), map[string]any{"case": caseID, "setup": c.setup, "stmt": q, "panic": res.Panic.Value})
				return
			}
			r.Inconclusive("setup-rejected:" + pal.name)
			return
		}
	}
	// read the stored values back: canonical text per id (what the engine stored, C27 is not our business)
	ok, why := c.matrix(r, s)
	if !ok {
		r.Inconclusive(why + ":" + pal.name)
		r.Count("matrix-inconclusive."+why, 1)
		return
	}
	nontriv := c.nontrivial()
	if nontriv {
		r.Count("value-sets-with-equal-but-different-representations", 1)
	}
	canon := c.canonByID(s)
	for _, ch := range c.operators(s, canon) {
		if ch.inconcl != "" {
			r.Inconclusive(ch.op + ":" + ch.inconcl)
			continue
		}
		r.Eval(1)
		r.Count("op."+ch.op, 1)
		if ch.planOp != "" {
			r.Count("plan."+ch.planOp, 1)
		}
		if nontriv {
			r.Distinct(pal.name + "|" + ch.op)
		}
		if ch.mode == "" {
			if nontriv && ch.op == "group-by" {
				r.Sample(map[string]any{"palette": pal.name, "A": c.a.rows, "B": c.b.rows, "classes": c.classDump(), "operator": ch.op, "sql": ch.sql})
			}
			continue
		}
		sig := family(ch.op, pal.class, ch.mode)
		r.Violation(sig, map[string]any{"case": caseID, "palette": pal.name, "setup": c.setup, "classes": c.classDump(), "operator": ch.op, "sql": ch.sql, "mode": ch.mode, "detail": ch.detail, "plan": s.Plan(ch.sql)})
	}
}

func (c *caseData) classDump() map[string][]string {
	out := map[string][]string{}
	for id, cl := range c.cls {
		k := fmt.Sprintf("class-of-%d", cl)
		out[k] = append(out[k], fmt.Sprintf("%d:%s", id, strings.Join(c.lit[id], ",")))
	}
	for k := range out {
		sort.Strings(out[k])
	}
	return out
}

// canonByID maps the canonical text of the stored value tuple to the ids holding it.
func (c *caseData) canonByID(s *core.Sess) map[string][]int {
	out := map[string][]int{}
	for _, t := range []string{"t", "u"} {
		res := s.Exec("SELECT id, " + c.vlist("") + " FROM " + t)
		if res.Failed() {
			continue
		}
		for _, row := range res.Rows {
			k := core.CanonRow(row[1:])
			out[k] = append(out[k], atoi(core.Canon(row[0])))
		}
	}
	return out
}
