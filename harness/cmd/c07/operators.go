package main

import (
	"fmt"
	"sort"
	"strings"

	"verif/harness/core"
)

func idsKey(ids []int) string {
	sort.Ints(ids)
	var p []string
	for _, id := range ids {
		p = append(p, fmt.Sprint(id))
	}
	return strings.Join(p, ",")
}

func (c *caseData) members(cl int, within []int) []int {
	var out []int
	for _, id := range within {
		if !c.null[id] && c.cls[id] == cl {
			out = append(out, id)
		}
	}
	return out
}

func (c *caseData) nullIDs(within []int) []int {
	var out []int
	for _, id := range within {
		if c.null[id] {
			out = append(out, id)
		}
	}
	return out
}

func fail(ch *opCheck, res *core.Result) bool {
	if res.Panic != nil {
		ch.mode = res.Panic.Sig()
		ch.detail = res.Panic.Value
		return true
	}
	if res.Failed() {
		ch.inconcl = "error:" + core.StripVolatile(res.Err.Error())
		if res.TimedOut {
			ch.inconcl = "timeout"
		}
		return true
	}
	return false
}

// operators evaluates every operator of the property on the case.
func (c *caseData) operators(s *core.Sess, canon map[string][]int) []opCheck {
	var out []opCheck
	vl := c.vlist("")
	all := append(append([]int{}, c.a.ids...), c.b.ids...)

	// ---- GROUP BY (member sets) on A and B
	for _, td := range []tableData{c.a, c.b} {
		ch := opCheck{op: "group-by", sql: fmt.Sprintf("SELECT GROUP_CONCAT(id ORDER BY id), COUNT(*) FROM %s GROUP BY %s", td.name, vl)}
		res := s.Exec(ch.sql)
		if !fail(&ch, res) {
			want := map[string]bool{}
			for cl := range c.classSet(td.ids) {
				want[idsKey(c.members(cl, td.ids))] = true
			}
			if n := c.nullIDs(td.ids); len(n) > 0 {
				want[idsKey(n)] = true
			}
			got := map[string]bool{}
			for _, row := range res.Rows {
				got[strings.Trim(core.Canon(row[0]), "'")] = true
			}
			ch.mode = c.groupMode(got, want)
			ch.detail = map[string]any{"groups": keys(got), "classes": keys(want)}
		}
		out = append(out, ch)
	}

	// ---- COUNT(DISTINCT)
	{
		ch := opCheck{op: "count-distinct", sql: fmt.Sprintf("SELECT COUNT(DISTINCT %s) FROM t", vl)}
		res := s.Exec(ch.sql)
		if !fail(&ch, res) && len(res.Rows) == 1 {
			got := atoi(core.Canon(res.Rows[0][0]))
			want := len(c.classSet(c.a.ids))
			if got > want {
				ch.mode = "splits-equal-values"
			} else if got < want {
				ch.mode = "merges-unequal-values"
			}
			ch.detail = map[string]any{"count": got, "classes": want}
		}
		out = append(out, ch)
	}

	// ---- value-returning de-duplicating operators, probed back with '=' over a cross join
	inA := c.classSet(c.a.ids)
	inB := c.classSet(c.b.ids)
	nullA, nullB := c.hasNull(c.a.ids), c.hasNull(c.b.ids)
	b2i := func(b bool) int {
		if b {
			return 1
		}
		return 0
	}
	type setop struct {
		op, sub  string
		expect   func(cl int) int
		nullRows int
	}
	sops := []setop{
		{"distinct", fmt.Sprintf("SELECT DISTINCT %s FROM t", vl), func(cl int) int { return b2i(inA[cl]) }, b2i(nullA)},
		{"union", fmt.Sprintf("SELECT %s FROM t UNION SELECT %s FROM u", vl, vl), func(cl int) int { return b2i(inA[cl] || inB[cl]) }, b2i(nullA || nullB)},
		{"intersect", fmt.Sprintf("SELECT %s FROM t INTERSECT SELECT %s FROM u", vl, vl), func(cl int) int { return b2i(inA[cl] && inB[cl]) }, b2i(nullA && nullB)},
		{"except", fmt.Sprintf("SELECT %s FROM t EXCEPT SELECT %s FROM u", vl, vl), func(cl int) int { return b2i(inA[cl] && !inB[cl]) }, b2i(nullA && !nullB)},
	}
	for _, so := range sops {
		ch := opCheck{op: so.op, sql: so.sub}
		direct := s.Exec(so.sub)
		if fail(&ch, direct) {
			out = append(out, ch)
			continue
		}
		hits := map[int]int{}
		bad := false
		for _, t := range []string{"t", "u"} {
			q := fmt.Sprintf("SELECT x.id, %s FROM %s x, (%s) d", c.eq("x", "d"), t, so.sub)
			res := s.Exec(q)
			if fail(&ch, res) {
				bad = true
				break
			}
			for _, row := range res.Rows {
				if core.Canon(row[1]) == "1" {
					hits[atoi(core.Canon(row[0]))]++
				}
			}
		}
		if bad {
			out = append(out, ch)
			continue
		}
		var modes []string
		addMode := func(m string) {
			for _, x := range modes {
				if x == m {
					return
				}
			}
			modes = append(modes, m)
		}
		wantRows := so.nullRows
		seen := map[int]bool{}
		for _, id := range all {
			if c.null[id] {
				continue
			}
			cl := c.cls[id]
			w := so.expect(cl)
			if !seen[cl] {
				seen[cl] = true
				wantRows += w
			}
			switch h := hits[id]; {
			case h > w && w == 0:
				addMode("keeps-class-that-must-be-absent")
			case h > w:
				addMode("splits-equal-values")
			case h < w:
				addMode("loses-class")
			}
		}
		if len(modes) == 0 && len(direct.Rows) != wantRows {
			addMode(fmt.Sprintf("row-count-%s", cmpWord(len(direct.Rows), wantRows)))
		}
		sort.Strings(modes)
		if len(modes) > 0 {
			ch.mode = "dedup-disagrees-with-eq"
		}
		ch.fine = strings.Join(modes, "+")
		ch.detail = map[string]any{"result": core.ClipStrings(core.SortedRows(direct.Rows), 30), "want_rows": wantRows, "hits_per_id": fmt.Sprint(hits), "modes": ch.fine}
		out = append(out, ch)
	}

	// ---- IN (subquery), filter and select-list position
	wantIn := map[int]bool{}
	for _, id := range c.a.ids {
		if !c.null[id] && inB[c.cls[id]] {
			wantIn[id] = true
		}
	}
	tupleL := vl
	if len(c.pal.cols) > 1 {
		tupleL = "(" + vl + ")"
	}
	{
		ch := opCheck{op: "in-subquery-filter", sql: fmt.Sprintf("SELECT id FROM t WHERE %s IN (SELECT %s FROM u)", tupleL, vl)}
		res := s.Exec(ch.sql)
		if !fail(&ch, res) {
			got := map[int]bool{}
			for _, row := range res.Rows {
				got[atoi(core.Canon(row[0]))] = true
			}
			ch.mode, ch.detail = matchMode(got, wantIn)
			ch.planOp = joinOp(s.Plan(ch.sql))
		}
		out = append(out, ch)
		ch = opCheck{op: "in-subquery-select", sql: fmt.Sprintf("SELECT id, %s IN (SELECT %s FROM u) FROM t", tupleL, vl)}
		res = s.Exec(ch.sql)
		if !fail(&ch, res) {
			got := map[int]bool{}
			for _, row := range res.Rows {
				if core.Canon(row[1]) == "1" {
					got[atoi(core.Canon(row[0]))] = true
				}
			}
			ch.mode, ch.detail = matchMode(got, wantIn)
		}
		out = append(out, ch)
	}

	// ---- IN (literal list): the literals of B's non-NULL rows; expectation from '=' against each literal
	{
		var lits, eqs []string
		seenLit := map[string]bool{}
		for k, id := range c.b.ids {
			if c.null[id] {
				continue
			}
			row := c.b.rows[k]
			if c.pal.castLit != "" {
				row = append([]string{}, row...)
				for j := range row {
					row[j] = "CAST(" + row[j] + " AS " + c.pal.castLit + ")"
				}
			}
			key := strings.Join(row, ",")
			if seenLit[key] {
				continue
			}
			seenLit[key] = true
			if len(row) == 1 {
				lits = append(lits, row[0])
				eqs = append(eqs, "(v1 = "+row[0]+")")
			} else {
				lits = append(lits, "("+strings.Join(row, ", ")+")")
				var p []string
				for j, l := range row {
					p = append(p, fmt.Sprintf("v%d = %s", j+1, l))
				}
				eqs = append(eqs, "("+strings.Join(p, " AND ")+")")
			}
		}
		if len(lits) > 0 && !c.pal.noInList {
			exp := s.Exec("SELECT id, " + strings.Join(eqs, ", ") + " FROM t")
			want := map[int]bool{}
			if !exp.Failed() {
				for _, row := range exp.Rows {
					for _, v := range row[1:] {
						if core.Canon(v) == "1" {
							want[atoi(core.Canon(row[0]))] = true
						}
					}
				}
			}
			for _, pos := range []string{"filter", "select"} {
				ch := opCheck{op: "in-list-" + pos}
				if pos == "filter" {
					ch.sql = fmt.Sprintf("SELECT id FROM t WHERE %s IN (%s)", tupleL, strings.Join(lits, ", "))
				} else {
					ch.sql = fmt.Sprintf("SELECT id, %s IN (%s) FROM t", tupleL, strings.Join(lits, ", "))
				}
				if exp.Failed() {
					ch.inconcl = "expectation-query-failed"
					out = append(out, ch)
					continue
				}
				res := s.Exec(ch.sql)
				if !fail(&ch, res) {
					got := map[int]bool{}
					for _, row := range res.Rows {
						if pos == "filter" || core.Canon(row[1]) == "1" {
							got[atoi(core.Canon(row[0]))] = true
						}
					}
					ch.mode, ch.detail = matchMode(got, want)
					if pos == "filter" && strings.Contains(s.Plan(ch.sql), "HASH IN") {
						ch.planOp = "HashIn"
					}
				}
				out = append(out, ch)
			}
		}
	}

	// ---- joins
	wantPairs := map[string]bool{}
	for _, x := range c.a.ids {
		for _, y := range c.b.ids {
			if !c.null[x] && !c.null[y] && c.cls[x] == c.cls[y] {
				wantPairs[fmt.Sprintf("%d|%d", x, y)] = true
			}
		}
	}
	type jn struct{ op, hint, l, r string }
	joins := []jn{{"join-hash", "HASH_JOIN(a,b)", "t", "u"}}
	if c.pal.index {
		joins = append(joins, jn{"join-lookup", "LOOKUP_JOIN(a,b)", "t", "ui"}, jn{"join-merge", "MERGE_JOIN(a,b)", "ti", "ui"})
	}
	for _, j := range joins {
		ch := opCheck{op: j.op, sql: fmt.Sprintf("SELECT /*+ %s */ a.id, b.id FROM %s a JOIN %s b ON %s", j.hint, j.l, j.r, c.eq("a", "b"))}
		res := s.Exec(ch.sql)
		if !fail(&ch, res) {
			got := map[string]bool{}
			dup := false
			for _, row := range res.Rows {
				k := core.CanonRow(row)
				if got[k] {
					dup = true
				}
				got[k] = true
			}
			miss, extra := 0, 0
			for k := range wantPairs {
				if !got[k] {
					miss++
				}
			}
			for k := range got {
				if !wantPairs[k] {
					extra++
				}
			}
			switch {
			case miss > 0 && extra > 0:
				ch.mode = "misses-equal-pairs+joins-unequal-pairs"
			case miss > 0:
				ch.mode = "misses-equal-pairs"
			case extra > 0:
				ch.mode = "joins-unequal-pairs"
			case dup:
				ch.mode = "duplicate-pairs"
			}
			ch.planOp = joinOp(s.Plan(ch.sql))
			if ch.mode != "" {
				ch.mode += ":plan=" + ch.planOp
			}
			ch.detail = map[string]any{"pairs": keys(got), "want": keys(wantPairs)}
		}
		out = append(out, ch)
	}

	// ---- window PARTITION BY
	{
		ch := opCheck{op: "partition-by", sql: fmt.Sprintf("SELECT id, MIN(id) OVER (PARTITION BY %s), COUNT(*) OVER (PARTITION BY %s) FROM t", vl, vl)}
		res := s.Exec(ch.sql)
		if !fail(&ch, res) {
			split, merge := false, false
			for _, row := range res.Rows {
				id := atoi(core.Canon(row[0]))
				var mem []int
				if c.null[id] {
					mem = c.nullIDs(c.a.ids)
				} else {
					mem = c.members(c.cls[id], c.a.ids)
				}
				sort.Ints(mem)
				cnt := atoi(core.Canon(row[2]))
				if cnt < len(mem) {
					split = true
				} else if cnt > len(mem) || atoi(core.Canon(row[1])) != mem[0] {
					merge = true
				}
			}
			switch {
			case split && merge:
				ch.mode = "splits-equal-values+merges-unequal-values"
			case split:
				ch.mode = "splits-equal-values"
			case merge:
				ch.mode = "merges-unequal-values"
			}
			ch.detail = core.ClipStrings(core.SortedRows(res.Rows), 30)
		}
		out = append(out, ch)
	}
	return out
}

func cmpWord(got, want int) string {
	if got > want {
		return "too-many"
	}
	return "too-few"
}

func keys(m map[string]bool) []string {
	var out []string
	for k := range m {
		out = append(out, k)
	}
	sort.Strings(out)
	return out
}

// groupMode compares result groups (id lists) with the expected classes.
func (c *caseData) groupMode(got, want map[string]bool) string {
	split, merge := false, false
	for g := range got {
		if want[g] {
			continue
		}
		// a group not equal to any class: spans classes → merge; strict subset → split
		cls := map[int]bool{}
		nulls := 0
		for _, f := range strings.Split(g, ",") {
			id := atoi(f)
			if c.null[id] {
				nulls++
			} else {
				cls[c.cls[id]] = true
			}
		}
		if len(cls)+b2iInt(nulls > 0) > 1 {
			merge = true
		} else {
			split = true
		}
	}
	for w := range want {
		if !got[w] && !split && !merge {
			split = true
		}
	}
	switch {
	case split && merge:
		return "splits-equal-values+merges-unequal-values"
	case split:
		return "splits-equal-values"
	case merge:
		return "merges-unequal-values"
	}
	return ""
}

func b2iInt(b bool) int {
	if b {
		return 1
	}
	return 0
}

func matchMode(got, want map[int]bool) (string, any) {
	miss, extra := []int{}, []int{}
	for id := range want {
		if !got[id] {
			miss = append(miss, id)
		}
	}
	for id := range got {
		if !want[id] {
			extra = append(extra, id)
		}
	}
	sort.Ints(miss)
	sort.Ints(extra)
	d := map[string]any{"missing_ids": miss, "extra_ids": extra}
	switch {
	case len(miss) > 0 && len(extra) > 0:
		return "misses-equal-values+matches-unequal-values", d
	case len(miss) > 0:
		return "misses-equal-values", d
	case len(extra) > 0:
		return "matches-unequal-values", d
	}
	return "", d
}

func joinOp(plan string) string {
	for _, op := range []string{"MergeJoin", "LookupJoin", "HashJoin", "SemiJoin", "RangeHeapJoin", "InnerJoin", "CrossJoin"} {
		if strings.Contains(plan, op) {
			if op == "SemiJoin" && strings.Contains(plan, "HashLookup") {
				return "SemiJoin+HashLookup"
			}
			return op
		}
	}
	return "other"
}
