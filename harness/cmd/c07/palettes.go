package main

import (
	"fmt"
	"strings"

	"github.com/dolthub/go-mysql-server/sql"

	"verif/harness/core"
)

// palette is one type/collation configuration and the pool of value tuples its cases sample from.
type palette struct {
	name     string     // e.g. varchar/utf8mb4_0900_ai_ci
	class    string     // coarse class used in signatures (str-ci, str-bin, decimal, …)
	cols     []string   // column types of table A (and of B unless colsB is set)
	colsB    []string   // column types of table B for cross-type palettes
	pool     [][]string // value tuples (SQL literals)
	poolB    [][]string
	index    bool // indexed twins ti / ui exist (lookup and merge joins)
	noNull   bool
	noInList bool
	castLit  string // IN-list literals are written CAST(<lit> AS castLit) (JSON: a bare string literal is not a JSON value)
}

func one(vals ...string) [][]string {
	var out [][]string
	for _, v := range vals {
		out = append(out, []string{v})
	}
	return out
}

// strPool: case / accent variants, trailing spaces, sharp s, empty string.
var strPool = one("'a'", "'A'", "'á'", "'Á'", "'ä'", "'e'", "'é'", "'E'", "'b'", "'B'", "'ab'", "'AB'", "'Ab'", "'a '", "'A '", "'a  '", "'ss'", "'ß'", "'abc'", "'ABC'", "'abd'")

func strPalette(typ, coll, class string, index bool) *palette {
	return &palette{name: typ + "/" + coll, class: class, cols: []string{fmt.Sprintf("%s COLLATE %s", typ, coll)}, pool: strPool, index: index}
}

// collClass classifies a collation for signatures.
func collClass(name string) string {
	switch {
	case strings.HasSuffix(name, "_bin") || name == "binary":
		return "str-bin"
	case strings.Contains(name, "_as_cs") || strings.HasSuffix(name, "_cs"):
		return "str-cs"
	case strings.Contains(name, "_ai_ci"):
		return "str-ai_ci"
	case strings.Contains(name, "_as_ci"):
		return "str-as_ci"
	}
	return "str-ci"
}

func palettes(r *core.Run) []*palette {
	ps := []*palette{
		{name: "int", class: "int", cols: []string{"INT"}, pool: one("1", "2", "3", "-1", "0", "1", "2", "100"), index: true},
		{name: "bigint-unsigned", class: "int", cols: []string{"BIGINT UNSIGNED"}, pool: one("0", "1", "18446744073709551615", "9223372036854775808", "1"), index: true},
		{name: "decimal(10,2)", class: "decimal", cols: []string{"DECIMAL(10,2)"}, pool: one("1.00", "1.0", "1", "1.50", "0.00", "-0.00", "0", "2.5", "2.50", "-1.5"), index: true},
		{name: "decimal(10,1)xdecimal(10,3)", class: "cross-decimal-scale", cols: []string{"DECIMAL(10,1)"}, colsB: []string{"DECIMAL(10,3)"},
			pool: one("1.0", "1.5", "0.0", "2.5", "-1.5", "10.0"), poolB: one("1.000", "1.500", "0.000", "2.500", "1.501", "-1.500", "10.000"), index: true},
		{name: "double", class: "float", cols: []string{"DOUBLE"}, pool: one("0e0", "1.0", "1.5", "1e0", "15e-1", "0.1", "1e-1", "-1.5"), index: true},
		{name: "double-negzero", class: "float-negzero", cols: []string{"DOUBLE"}, pool: one("0e0", "-0e0", "1.0", "-1.5"), index: true},
		{name: "decimal-negzero", class: "decimal-negzero", cols: []string{"DECIMAL(10,2)"}, pool: one("0.00", "-0.00", "(0.00 * -1)", "1.00", "(-1.50 * 0)"), index: true},
		{name: "float", class: "float", cols: []string{"FLOAT"}, pool: one("0e0", "1.0", "1.5", "0.5", "5e-1", "-1.5"), index: true},
		{name: "intxdecimal", class: "cross-int-decimal", cols: []string{"INT"}, colsB: []string{"DECIMAL(10,2)"},
			pool: one("1", "2", "0", "-1", "3"), poolB: one("1.00", "2.00", "0.00", "-1.00", "1.50", "2.50", "3.00"), index: true},
		{name: "intxdouble", class: "cross-int-double", cols: []string{"INT"}, colsB: []string{"DOUBLE"},
			pool: one("1", "2", "0", "-1", "3"), poolB: one("1.0", "2e0", "0e0", "-1.0", "1.5", "3.0"), index: true},
		{name: "decimalxdouble", class: "cross-decimal-double", cols: []string{"DECIMAL(10,2)"}, colsB: []string{"DOUBLE"},
			pool: one("1.00", "1.50", "0.00", "-1.50", "2.25"), poolB: one("1.0", "1.5", "0e0", "-1.5", "2.25", "2.5"), index: true},
		strPalette("VARCHAR(20)", "utf8mb4_0900_bin", "str-bin", true),
		strPalette("VARCHAR(20)", "utf8mb4_0900_ai_ci", "str-ai_ci", true),
		strPalette("VARCHAR(20)", "utf8mb4_general_ci", "str-ci", true),
		strPalette("VARCHAR(20)", "utf8mb4_unicode_ci", "str-ci", true),
		strPalette("VARCHAR(20)", "utf8mb4_0900_as_cs", "str-cs", true),
		strPalette("CHAR(5)", "utf8mb4_0900_ai_ci", "char-ai_ci", true),
		strPalette("TEXT", "utf8mb4_0900_ai_ci", "text-ai_ci", false),
		{name: "varbinary", class: "binary", cols: []string{"VARBINARY(10)"}, pool: one("'a'", "'A'", "x'6100'", "'a '", "x'61'", "'b'"), index: true},
		{name: "varchar-bin-empty", class: "str-bin-empty", cols: []string{"VARCHAR(20) COLLATE utf8mb4_0900_bin"}, pool: one("''", "' '", "'a'", "'b'", "''"), index: true},
		{name: "date", class: "date", cols: []string{"DATE"}, pool: one("'2020-01-01'", "'2020-02-29'", "'2020-01-01'", "'2019-12-31'", "'20200101'"), index: true},
		{name: "datetime(6)", class: "datetime", cols: []string{"DATETIME(6)"}, pool: one("'2020-01-01 00:00:00'", "'2020-01-01 00:00:00.000000'", "'2020-01-01 00:00:00.000001'", "'2020-01-01'", "'2020-01-01 10:00:00.5'", "'2020-01-01 10:00:00.500000'"), index: true},
		{name: "datexdatetime", class: "cross-date-datetime", cols: []string{"DATE"}, colsB: []string{"DATETIME"},
			pool: one("'2020-01-01'", "'2020-02-29'", "'2019-12-31'"), poolB: one("'2020-01-01 00:00:00'", "'2020-01-01 10:00:00'", "'2020-02-29 00:00:00'", "'2021-01-01 00:00:00'"), index: true},
		{name: "time", class: "time", cols: []string{"TIME"}, pool: one("'10:00:00'", "'10:00:00.000'", "'100000'", "'-01:00:00'", "'10:00:01'", "'-010000'"), index: true},
		{name: "year", class: "year", cols: []string{"YEAR"}, pool: one("2020", "2021", "'2020'", "1999", "2020"), index: true},
		{name: "enum", class: "enum", cols: []string{"ENUM('a','b','c','B2')"}, pool: one("'a'", "'b'", "'c'", "'a'", "'B2'", "1", "2"), index: true, noInList: false},
		{name: "set", class: "set", cols: []string{"SET('a','b','c')"}, pool: one("'a'", "'a,b'", "'b,a'", "'c'", "''", "'a,b,c'", "3"), index: true},
		{name: "json", class: "json", cols: []string{"JSON"}, pool: one(`'{"a": 1, "b": 2}'`, `'{"b": 2, "a": 1}'`, `'1'`, `'1.0'`, `'[1, 2]'`, `'[1,2]'`, `'"a"'`, `'"A"'`, `'null'`, `'{"a": 1}'`), index: false, castLit: "JSON"},
		{name: "bit(8)", class: "bit", cols: []string{"BIT(8)"}, pool: one("b'1'", "1", "b'10'", "2", "b'00000001'", "255"), index: true},
		{name: "tinyint-bool", class: "int", cols: []string{"BOOLEAN"}, pool: one("TRUE", "FALSE", "1", "0", "2"), index: true},
		// multi-column keys: separator collisions
		{name: "varchar-bin x2", class: "multi-str-bin", cols: []string{"VARCHAR(10) COLLATE utf8mb4_0900_bin", "VARCHAR(10) COLLATE utf8mb4_0900_bin"}, noNull: true, index: true,
			pool: [][]string{{"'a'", "'bc'"}, {"'ab'", "'c'"}, {"'abc'", "'x'"}, {"'x'", "'abc'"}, {"'a'", "'bc'"}, {"'a|'", "'bc'"}, {"'a'", "'|bc'"}, {"'a;'", "'bc'"}, {"'a'", "';bc'"}}},
		{name: "varchar-bin x2 with comma", class: "multi-str-comma", cols: []string{"VARCHAR(10) COLLATE utf8mb4_0900_bin", "VARCHAR(10) COLLATE utf8mb4_0900_bin"}, noNull: true, index: true,
			pool: [][]string{{"'a'", "'bc'"}, {"'a,'", "'bc'"}, {"'a'", "',bc'"}, {"'ab'", "'c'"}}},
		{name: "varchar-bin x2 with NUL", class: "multi-str-nul", cols: []string{"VARCHAR(10) COLLATE utf8mb4_0900_bin", "VARCHAR(10) COLLATE utf8mb4_0900_bin"}, noNull: true, index: true,
			pool: [][]string{{"'a'", "'bc'"}, {"'a\\0'", "'bc'"}, {"'a'", "'\\0bc'"}, {"'ab'", "'c'"}}},
		{name: "varchar-ci x2", class: "multi-str-ai_ci", cols: []string{"VARCHAR(10) COLLATE utf8mb4_0900_ai_ci", "VARCHAR(10) COLLATE utf8mb4_0900_ai_ci"}, noNull: true, index: true,
			pool: [][]string{{"'a'", "'bc'"}, {"'A'", "'BC'"}, {"'ab'", "'c'"}, {"'AB'", "'c'"}, {"'a'", "'Bc'"}, {"'á'", "'bc'"}}},
		{name: "int x2", class: "multi-int", cols: []string{"INT", "INT"}, noNull: true, index: true,
			pool: [][]string{{"1", "23"}, {"12", "3"}, {"1", "23"}, {"123", "0"}, {"0", "123"}, {"-1", "1"}, {"1", "-1"}}},
		{name: "int,decimal", class: "multi-int-decimal", cols: []string{"INT", "DECIMAL(10,2)"}, noNull: true, index: true,
			pool: [][]string{{"1", "1.00"}, {"1", "1.0"}, {"1", "1.50"}, {"2", "1.00"}, {"1", "1"}}},
	}
	if !r.Quick() {
		// thorough: every utf8mb4 collation that has a sorter
		have := map[string]bool{}
		for _, p := range ps {
			have[p.name] = true
		}
		it := sql.NewCollationsIterator()
		for {
			c, ok := it.Next()
			if !ok {
				break
			}
			if c.Sorter == nil || c.CharacterSet != sql.CharacterSet_utf8mb4 {
				continue
			}
			p := strPalette("VARCHAR(20)", c.Name, collClass(c.Name), true)
			if !have[p.name] {
				have[p.name] = true
				ps = append(ps, p)
			}
		}
	}
	r.Extra("palettes", len(ps))
	return ps
}
