package main

import (
	"regexp"
	"strings"

	"verif/harness/core"
	"verif/harness/g7lib"
)

// exclusions switches on the generator's domain exclusions for findings listed via=domain.
func exclusions() g7lib.Cfg08 {
	return g7lib.Cfg08{
		NoRangeNullKey: true, // range-frame-null-order-key (F21)
		NoRangeDesc:    true, // range-frame-descending-order-key
	}
}

var ntileRe = regexp.MustCompile(`NTILE\((\d+)\) (OVER \([^)]*\))`)

// every reports whether all disagreements are cell disagreements explained by f.
func every(q *g7lib.Query08, bad []g7lib.Bad08, f func(label string, exp g7lib.Cell, raw any) bool) bool {
	if len(bad) == 0 {
		return false
	}
	for _, b := range bad {
		if b.Col < 0 || !f(q.Labels[b.Col], q.Expected[b.Key][b.Col], b.Raw) {
			return false
		}
	}
	return true
}

func classify(q *g7lib.Query08, bad []g7lib.Bad08, w *witness) string {
	// window-sum-all-null-frame-returns-zero: SUM over a window frame without any non-NULL input is 0
	if every(q, bad, func(l string, exp g7lib.Cell, raw any) bool {
		ev, ok := g7lib.FromEngine(raw)
		return strings.HasPrefix(l, "SUM:") && strings.Contains(l, "|") && exp.V.IsNull() && ok && ev.IsNum() && ev.N.Sign() == 0
	}) {
		return "window-sum-all-null-frame-returns-zero"
	}
	// json-arrayagg-empty-input-returns-empty-array
	if every(q, bad, func(l string, exp g7lib.Cell, raw any) bool {
		return l == "JSON_ARRAYAGG" && exp.Null && g7lib.CellOK(raw, g7lib.Cell{Mode: "jsonset"})
	}) {
		return "json-arrayagg-empty-input-returns-empty-array"
	}
	// group-concat-skips-empty-string: the engine value is the expected one with the '' elements removed
	if every(q, bad, func(l string, exp g7lib.Cell, raw any) bool {
		if !strings.HasPrefix(l, "GROUP_CONCAT") {
			return false
		}
		return g7lib.GroupConcatWithoutEmpty(exp, raw)
	}) {
		return "group-concat-skips-empty-string"
	}
	// ntile-same-window-different-n: two NTILE calls over the same OVER clause with different n
	if every(q, bad, func(l string, exp g7lib.Cell, raw any) bool { return strings.HasPrefix(l, "NTILE") }) {
		over := map[string]string{}
		for _, m := range ntileRe.FindAllStringSubmatch(q.SQL, -1) {
			if n, ok := over[m[2]]; ok && n != m[1] {
				return "ntile-same-window-different-n-shares-result"
			}
			over[m[2]] = m[1]
		}
	}
	// the signature names the functions whose cells disagree
	fns := map[string]bool{}
	for _, b := range bad {
		if b.Col >= 0 {
			l := q.Labels[b.Col]
			fns[fnOf(l)+"/"+unitOf(l)] = true
		}
	}
	var names []string
	for f := range fns {
		names = append(names, f)
	}
	sortStrings(names)
	if len(names) == 0 {
		return "mismatch:rows"
	}
	return "mismatch:" + strings.ReplaceAll(strings.Join(names, "+"), " ", "_")
}

func classifyPanic(p *core.PanicInfo, q *g7lib.Query08) string {
	// F23: MIN / MAX over a ROWS frame that ends before it starts
	if (strings.Contains(p.Site, "MinAgg).Compute") || strings.Contains(p.Site, "MaxAgg).Compute")) && strings.Contains(p.Value, "slice bounds out of range") {
		return "panic:min-max-over-inverted-rows-frame:slice-bounds"
	}
	return strings.ReplaceAll(p.Sig(), " ", "_")
}

var pinSetup = []string{
	"CREATE TABLE w (id INT NOT NULL, p INT, o INT, k INT NOT NULL, v INT, d DECIMAL(8,2), s VARCHAR(8) COLLATE utf8mb4_0900_bin, PRIMARY KEY (id))",
	"INSERT INTO w VALUES (1, 0, 1, 1, 5, 1.50, 'a')", "INSERT INTO w VALUES (2, 0, 1, 2, NULL, 2.25, '')", "INSERT INTO w VALUES (3, 0, 2, 3, -1, NULL, NULL)",
	"INSERT INTO w VALUES (4, 1, NULL, 3, 2, 0.05, 'b')", "INSERT INTO w VALUES (5, 1, 3, 5, NULL, 10.00, '')",
}

type pin struct {
	sig, what string
	w         witness
}

func pins() []pin {
	mk := func(sig, what, sql string, keycols int, expected ...string) pin {
		return pin{sig, what, witness{Case: "pinned:" + sig, Setup: pinSetup, SQL: sql, KeyCols: keycols, Expected: expected}}
	}
	return []pin{
		mk("range-frame-null-order-key", "RANGE-framed (also default-framed) window aggregate whose ORDER BY key contains NULL returns the whole-partition value for every row (F21)",
			"SELECT id AS g0, SUM(v) OVER (ORDER BY o) AS c0 FROM w", 1, "4 => 2", "1 => 7", "2 => 7", "3 => 6", "5 => 6"),
		mk("range-frame-descending-order-key", "RANGE-framed (also default-framed) window aggregate with a DESC ordering key computes the wrong frame",
			"SELECT id AS g0, COUNT(*) OVER (ORDER BY k DESC) AS c0 FROM w", 1, "5 => 1", "3 => 3", "4 => 3", "2 => 4", "1 => 5"),
		mk("window-sum-all-null-frame-returns-zero", "SUM over a non-empty window frame whose inputs are all NULL returns 0 instead of NULL",
			"SELECT id AS g0, SUM(v) OVER (ORDER BY id ROWS BETWEEN 1 FOLLOWING AND 1 FOLLOWING) AS c0 FROM w", 1, "1 => NULL", "2 => -1", "3 => 2", "4 => NULL", "5 => NULL"),
		mk("json-arrayagg-empty-input-returns-empty-array", "JSON_ARRAYAGG over no rows returns [] instead of NULL",
			"SELECT JSON_ARRAYAGG(v) AS c0 FROM w WHERE id < 0", 0, " => NULL"),
		mk("group-concat-skips-empty-string", "GROUP_CONCAT skips empty strings as if they were NULL",
			"SELECT GROUP_CONCAT(s ORDER BY id) AS c0 FROM w", 0, " => 'a,,b,'"),
		mk("ntile-same-window-different-n-shares-result", "two NTILE(n) calls with different n over the same window: the second returns the values of the first",
			"SELECT id AS g0, NTILE(4) OVER (ORDER BY id) AS c0, NTILE(2) OVER (ORDER BY id) AS c1 FROM w", 1, "1 => 1 | 1", "2 => 1 | 1", "3 => 2 | 1", "4 => 3 | 2", "5 => 4 | 2"),
		mk("panic:min-max-over-inverted-rows-frame:slice-bounds", "MIN / MAX over a ROWS frame that ends before it starts panics (slice bounds out of range) instead of returning NULL (F23)",
			"SELECT id AS g0, MIN(v) OVER (ORDER BY id ROWS BETWEEN 2 PRECEDING AND 3 PRECEDING) AS c0 FROM w", 1, "1 => NULL", "2 => NULL", "3 => NULL", "4 => NULL", "5 => NULL"),
	}
}

func pinned(r *core.Run) {
	for _, p := range pins() {
		fails, got, errText := rerun(&p.w)
		w := p.w
		w.Actual, w.Error = got, errText
		r.Pinned(p.sig, p.what+" ["+p.w.SQL+"]", fails, &w)
		if !fails {
			r.Count("pinned-no-longer-failing:"+p.sig, 1)
		}
	}
}
