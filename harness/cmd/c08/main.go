// C08 — aggregate and window functions compute their defined values.
// Oracle: independent reference implementations (g7lib/agg08.go: exact rationals, naive partition /
// peer / frame arithmetic) over the rows the engine returned for SELECT * FROM w after setup. Every
// output cell of every group / row is compared: exactly, or within 1e-9 relative when the engine
// returns a DOUBLE (its SUM / AVG type), or within one unit of the last digit for decimal AVG;
// un-ordered GROUP_CONCAT and JSON_ARRAYAGG as multisets of their elements.
package main

import (
	"encoding/json"
	"fmt"
	"os"
	"strconv"
	"strings"
	"sync"

	"verif/harness/core"
	"verif/harness/g7lib"
)

const stmtsPerTable = 8

type witness struct {
	Case     string   `json:"case"`
	Setup    []string `json:"setup"`
	SQL      string   `json:"sql"`
	KeyCols  int      `json:"keycols"`
	Labels   []string `json:"labels"`
	Expected []string `json:"expected"` // "key => cell | cell .."
	Actual   []string `json:"actual"`
	Bad      []string `json:"bad,omitempty"`
	Error    string   `json:"error,omitempty"`
	Mode     string   `json:"mode"`
}

func main() {
	if len(os.Args) > 3 && os.Args[1] == "xcheck" {
		n, _ := strconv.Atoi(os.Args[2])
		seed, _ := strconv.ParseInt(os.Args[3], 10, 64)
		g7lib.XCheck08(os.Stdout, n, seed)
		return
	}
	r := core.NewRun("C08", "exploration",
		"each evaluation is one statement over a generated table w (0..12 rows, partitions of 0..9 rows, NULLs, ties, duplicates): either aggregates per group (COUNT/SUM/AVG/MIN/MAX [DISTINCT], GROUP_CONCAT [DISTINCT] [ORDER BY] [SEPARATOR], BIT_AND/OR/XOR, JSON_ARRAYAGG; with and without GROUP BY, over empty input) or 1-3 window functions per row (ROW_NUMBER, RANK, DENSE_RANK, PERCENT_RANK, NTILE, LAG/LEAD with offset and default, FIRST_VALUE/LAST_VALUE, SUM/COUNT/MIN/MAX/AVG over default, ROWS and RANGE frames in all 13 legal bound combinations, N in {0,1,2,3,20}); every cell is compared with an independent reference computation; distinct = (function, argument, partition/order/frame shape) labels verified")
	r.Fold(8, 3)
	r.Assume("the reference was cross-checked at construction time against SQLite 3.40 window functions and aggregates (2 400 statements, 14 574 cells, no disagreement)")
	r.Assume("window ORDER BY is made total (id appended) whenever the function depends on the order of peers (ROW_NUMBER, NTILE, LAG/LEAD, FIRST/LAST_VALUE, ROWS frames); RANGE / default frames are ordered by the NOT NULL key k (F21 exclusion); floats are not used as inputs")
	r.Assume("input classes excluded because of known findings (via=domain in findings/C08.txt): RANGE / default frames whose ordering key contains NULL (F21) or is DESC; only the pinned witnesses cover them")
	r.Extra("excluded_input_classes", []string{"range-frame-null-order-key", "range-frame-descending-order-key"})
	if r.Replay != "" {
		replay(r, r.Replay)
		r.Finish()
	}
	n := r.N(190, 5000)
	r.Parallel("table", n, func(i int) { runTable(r, i) })
	pinned(r)
	floors(r)
	r.Finish()
}

func runTable(r *core.Run, i int) {
	rnd := r.Rand("table", i)
	sch := g7lib.GenTable08(rnd)
	env, err := g7lib.Load(sch)
	if err != nil {
		r.Violation("setup-failed", map[string]any{"case": i, "error": err.Error(), "setup": sch.Setup})
		return
	}
	defer env.Close()
	g := g7lib.NewGen08(rnd, env.Ref.Tables["w"].Rows, exclusions())
	for k := 0; k < stmtsPerTable; k++ {
		var q *g7lib.Query08
		if k%8 < 3 {
			q = g.Group()
		} else {
			q = g.Win()
		}
		judge(r, env, q, fmt.Sprintf("%s/%d/t%d/q%d", r.Tier, r.CaseSeed(), i, k))
	}
}

func expectedText(q *g7lib.Query08) []string {
	var out []string
	for _, k := range q.Keys {
		var cs []string
		for _, c := range q.Expected[k] {
			cs = append(cs, c.String())
		}
		out = append(out, k+" => "+strings.Join(cs, " | "))
	}
	return out
}

func judge(r *core.Run, env *g7lib.Env, q *g7lib.Query08, name string) {
	res := env.Sess.Exec(q.SQL)
	w := &witness{Case: name, Setup: env.Schema.Setup, SQL: q.SQL, KeyCols: q.KeyCols, Labels: q.Labels, Expected: expectedText(q)}
	switch {
	case res.Panic != nil:
		r.Eval(1)
		w.Mode, w.Error = "panic", res.Panic.Value
		sig := classifyPanic(res.Panic, q)
		dump(sig, w)
		r.Violation(sig, w)
		return
	case res.TimedOut:
		r.Inconclusive("timeout")
		return
	case res.Err != nil:
		if g7lib.Unsupported(res.Err) {
			r.Inconclusive("unsupported:" + core.StripVolatile(res.Err.Error()))
			return
		}
		r.Eval(1)
		w.Mode, w.Error = "error", res.Err.Error()
		sig := "error:" + strings.ReplaceAll(core.StripVolatile(res.Err.Error()), " ", "_")
		dump(sig, w)
		r.Violation(sig, w)
		return
	}
	r.Eval(1)
	r.Count("statements-"+q.Kind, 1)
	r.Count("cells", int64(len(q.Keys)*len(q.Labels)))
	bad := g7lib.Compare08(q, res.Rows)
	if len(bad) == 0 {
		for _, l := range q.Labels {
			r.Count("fn:"+fnOf(l), 1)
			if len(q.Keys) > 0 {
				r.Distinct(l)
				r.Count("verified:"+fnOf(l)+":"+unitOf(l), 1)
			}
		}
		if strings.HasSuffix(name, "/t1/q0") || strings.HasSuffix(name, "/t1/q4") {
			r.Sample(map[string]any{"sql": q.SQL, "expected": core.ClipStrings(w.Expected, 5), "engine_rows": core.ClipStrings(core.CanonRows(res.Rows), 5), "compared": "every cell, keyed by the leading key column"})
		}
		return
	}
	var texts []string
	for _, b := range bad {
		texts = append(texts, b.Text)
	}
	w.Mode, w.Bad, w.Actual = "mismatch", core.ClipStrings(texts, 12), core.CanonRows(res.Rows)
	sig := classify(q, bad, w)
	dump(sig, w)
	r.Violation(sig, w)
}

// fnOf / unitOf split a label "FN:arg|part,order,ROWS:P..F".
func fnOf(label string) string {
	s := label
	if i := strings.Index(s, "|"); i >= 0 {
		s = s[:i]
	}
	if i := strings.Index(s, ":"); i >= 0 {
		s = s[:i]
	}
	return s
}

func unitOf(label string) string {
	switch {
	case strings.Contains(label, "ROWS:"):
		return "ROWS"
	case strings.Contains(label, "RANGE:"):
		return "RANGE"
	case strings.Contains(label, "default-frame"):
		return "default"
	}
	return "group"
}

var dumpMu sync.Mutex

func dump(sig string, w *witness) {
	path := os.Getenv("G7_DUMP")
	if path == "" {
		return
	}
	dumpMu.Lock()
	defer dumpMu.Unlock()
	f, err := os.OpenFile(path, os.O_APPEND|os.O_CREATE|os.O_WRONLY, 0o644)
	if err != nil {
		return
	}
	defer f.Close()
	b, _ := json.Marshal(map[string]any{"signature": sig, "count": 1, "witness": w})
	f.Write(append(b, '\n'))
}

// rerun executes a witness on a fresh engine: it still fails when the engine errors / panics or a
// row's canonical text differs from the recorded engine-independent expectation. Pinned witnesses
// carry exact expectations only (no approx / multiset cells), as "key => v | v".
func rerun(w *witness) (fails bool, got []string, errText string) {
	e := core.NewEng("d")
	defer e.Close()
	s := e.NewSess()
	for _, q := range w.Setup {
		if res := s.Exec(q); res.Failed() {
			return true, nil, "setup failed: " + q
		}
	}
	res := s.Exec(w.SQL)
	if res.Panic != nil {
		return true, nil, "panic: " + res.Panic.Value
	}
	if res.TimedOut {
		return true, nil, "timeout"
	}
	if res.Err != nil {
		return true, nil, res.Err.Error()
	}
	rows, ok := g7lib.EngineRows(res.Rows)
	if !ok {
		// JSON cells: fall back to canonical text
		got = core.CanonRows(res.Rows)
	} else {
		for _, r := range rows {
			k := g7lib.RowKey(r[:w.KeyCols])
			var cs []string
			for _, v := range r[w.KeyCols:] {
				cs = append(cs, v.Key())
			}
			got = append(got, k+" => "+strings.Join(cs, " | "))
		}
	}
	a, b := append([]string{}, got...), append([]string{}, w.Expected...)
	sortStrings(a)
	sortStrings(b)
	return !core.SameStrings(a, b), got, ""
}

func sortStrings(a []string) {
	for i := 1; i < len(a); i++ {
		for j := i; j > 0 && a[j] < a[j-1]; j-- {
			a[j], a[j-1] = a[j-1], a[j]
		}
	}
}

func replay(r *core.Run, path string) {
	b, err := os.ReadFile(path)
	if err != nil {
		r.Inconclusive("replay-file-unreadable")
		return
	}
	var f struct {
		Signature string  `json:"signature"`
		Witness   witness `json:"witness"`
	}
	if err := json.Unmarshal(b, &f); err != nil || f.Witness.SQL == "" {
		r.Inconclusive("replay-file-not-a-C08-witness")
		return
	}
	r.Eval(1)
	r.Distinct("replay")
	r.Distinct("replay:" + f.Signature)
	// the recorded engine rows are what failed; the case still fails while the engine reproduces them
	e := core.NewEng("d")
	defer e.Close()
	s := e.NewSess()
	for _, q := range f.Witness.Setup {
		s.Exec(q)
	}
	res := s.Exec(f.Witness.SQL)
	w := f.Witness
	switch {
	case res.Panic != nil:
		w.Error = res.Panic.Value
		r.Violation(f.Signature, &w)
	case res.Err != nil:
		w.Error = res.Err.Error()
		r.Violation(f.Signature, &w)
	default:
		got := core.CanonRows(res.Rows)
		if core.SameStrings(got, f.Witness.Actual) && len(f.Witness.Bad) > 0 {
			r.Violation(f.Signature, &w)
		}
	}
}

func floors(r *core.Run) {
	min := int64(r.N(3, 60))
	type fu struct{ fn, unit string }
	var want []fu
	for _, fn := range []string{"COUNT(*)", "COUNT", "COUNT DISTINCT", "SUM", "SUM DISTINCT", "AVG", "MIN", "MAX", "BIT_AND", "BIT_OR", "BIT_XOR", "JSON_ARRAYAGG"} {
		want = append(want, fu{fn, "group"})
	}
	for _, fn := range []string{"ROW_NUMBER", "RANK", "DENSE_RANK", "PERCENT_RANK", "NTILE", "LAG", "LEAD"} {
		want = append(want, fu{fn, "default"})
	}
	for _, fn := range []string{"FIRST_VALUE", "LAST_VALUE"} {
		want = append(want, fu{fn, "default"}, fu{fn, "ROWS"})
	}
	for _, fn := range []string{"SUM", "COUNT", "COUNT*", "MIN", "MAX", "AVG"} {
		want = append(want, fu{fn, "default"}, fu{fn, "ROWS"}, fu{fn, "RANGE"})
	}
	for _, x := range want {
		if got := r.Counter("verified:" + x.fn + ":" + x.unit); got < min {
			r.Floor(false, fmt.Sprintf("%s over %s verified only %d times (< %d)", x.fn, x.unit, got, min))
		}
	}
	gc := int64(0)
	for _, v := range []string{"GROUP_CONCAT", "GROUP_CONCAT DISTINCT", "GROUP_CONCAT ORDER BY", "GROUP_CONCAT DISTINCT ORDER BY", "GROUP_CONCAT SEPARATOR", "GROUP_CONCAT ORDER BY SEPARATOR", "GROUP_CONCAT DISTINCT SEPARATOR", "GROUP_CONCAT DISTINCT ORDER BY SEPARATOR"} {
		gc += r.Counter("verified:" + v + ":group")
	}
	r.Floor(gc >= min, fmt.Sprintf("GROUP_CONCAT verified only %d times", gc))
}
