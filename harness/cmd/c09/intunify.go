package main

import (
	"fmt"

	"verif/harness/core"
	"verif/harness/g7lib"
)

// intUnify checks the reported result type of constructs that must unify two integer types - CASE, IF,
// IFNULL, COALESCE and the column of a UNION read through a derived table - for every ordered pair of the ten
// integer column types, on rows holding each type's minimum and maximum: every returned value must be a
// member of the type the engine reports. Only membership kinds are judged here (nullability of these
// constructs is covered, with its known findings, by the typed stream).
func intUnify(r *core.Run) {
	typs := []struct{ name, sql, min, max string }{
		{"i8", "TINYINT", "-128", "127"}, {"u8", "TINYINT UNSIGNED", "0", "255"},
		{"i16", "SMALLINT", "-32768", "32767"}, {"u16", "SMALLINT UNSIGNED", "0", "65535"},
		{"i24", "MEDIUMINT", "-8388608", "8388607"}, {"u24", "MEDIUMINT UNSIGNED", "0", "16777215"},
		{"i32", "INT", "-2147483648", "2147483647"}, {"u32", "INT UNSIGNED", "0", "4294967295"},
		{"i64", "BIGINT", "-9223372036854775808", "9223372036854775807"}, {"u64", "BIGINT UNSIGNED", "0", "18446744073709551615"},
	}
	e := core.NewEng("d")
	defer e.Close()
	s := e.NewSess()
	ddl := "CREATE TABLE iu (id INT PRIMARY KEY"
	for _, t := range typs {
		ddl += fmt.Sprintf(", c_%s %s NOT NULL", t.name, t.sql)
	}
	s.MustExec(ddl + ")")
	for row, pick := range []func(i int) string{func(i int) string { return typs[i].min }, func(i int) string { return typs[i].max }, func(i int) string { return "1" }} {
		q := fmt.Sprintf("INSERT INTO iu VALUES (%d", row+1)
		for i := range typs {
			q += ", " + pick(i)
		}
		s.MustExec(q + ")")
	}
	for _, a := range typs {
		for _, b := range typs {
			ca, cb := "c_"+a.name, "c_"+b.name
			for _, c := range []struct{ kind, sql string }{
				{"case", fmt.Sprintf("SELECT CASE WHEN id %% 2 = 1 THEN %s ELSE %s END AS x FROM iu", ca, cb)},
				{"if", fmt.Sprintf("SELECT IF(id = 2, %s, %s) AS x FROM iu", ca, cb)},
				{"ifnull", fmt.Sprintf("SELECT IFNULL(NULLIF(%s, 1), %s) AS x FROM iu", ca, cb)},
				{"coalesce", fmt.Sprintf("SELECT COALESCE(NULLIF(%s, 1), %s) AS x FROM iu", ca, cb)},
				{"union-derived", fmt.Sprintf("SELECT x FROM (SELECT %s AS x FROM iu UNION ALL SELECT %s FROM iu) d", ca, cb)},
				{"union-cte", fmt.Sprintf("WITH d AS (SELECT %s AS x FROM iu UNION SELECT %s FROM iu) SELECT x FROM d", ca, cb)},
			} {
				res := s.Exec(c.sql)
				if res.Panic != nil {
					r.Violation(res.Panic.Sig(), map[string]any{"sql": c.sql, "panic": res.Panic.Value})
					continue
				}
				if res.Failed() {
					r.Count("int-unify.no-result", 1)
					continue
				}
				r.Eval(1)
				r.Count("int-unify.statements", 1)
				r.Distinct(fmt.Sprintf("int-unify|%s|%s|%s|%s", c.kind, a.name, b.name, res.Schema[0].Type.String()))
				for _, bad := range g7lib.CheckSchema(s.Ctx(), res.Schema, res.Rows) {
					if bad.Kind == "null-in-not-null" {
						continue
					}
					r.Violation(fmt.Sprintf("int-unify:%s:%s:%s+%s", bad.Kind, c.kind, a.name, b.name),
						map[string]any{"sql": c.sql, "reported_type": bad.Type, "value": bad.Value, "note": bad.Note})
				}
			}
		}
	}
	r.Floor(r.Counter("int-unify.statements") > 0, "integer type unification battery did not run")
}
