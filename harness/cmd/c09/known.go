package main

import (
	_ "embed"
	"encoding/json"
	"strings"

	"verif/harness/core"
	"verif/harness/g7lib"
)

// classify: failure kind, the expression kind of the offending column and - for the membership
// failures - the family of the reported type. Example: null-in-not-null:agg:SUM (SUM declared NOT NULL
// returned NULL), convert-fails:arith:decimal (an arithmetic result does not fit its reported DECIMAL).
func classify(b g7lib.SchemaBad, label string) string {
	sig := b.Kind + ":" + strings.ReplaceAll(kindOf(label), " ", "_")
	if b.Kind != "null-in-not-null" {
		fam := strings.ToLower(b.Type)
		if i := strings.Index(fam, "("); i >= 0 {
			fam = fam[:i]
		}
		sig += ":" + strings.ReplaceAll(strings.TrimSpace(fam), " ", "_")
	}
	return sig
}

//go:embed pins.json
var pinsJSON []byte

// pinned replays one witness per known finding (cmd/c09/pins.json, generated from observed cases).
func pinned(r *core.Run) {
	var pins []struct {
		Sig, What string
		W         witness
	}
	if err := json.Unmarshal(pinsJSON, &pins); err != nil {
		panic("pins.json: " + err.Error())
	}
	for _, p := range pins {
		fails, note := recheck(&p.W)
		w := p.W
		w.Note = note
		r.Pinned(p.Sig, p.What+" ["+core.Clip(p.W.SQL, 160)+"]", fails, &w)
		if !fails {
			r.Count("pinned-no-longer-failing:"+p.Sig, 1)
		}
	}
}
