// C09 — result values conform to the result schema.
// Law checked on observed executions: for every value v returned in column j with reported type T and
// nullability N: v is NULL only if N; T.SQL(v) succeeds; T.Convert(v) succeeds in range; and
// T.SQL(T.Convert(v)) prints the same text as T.SQL(v) (v is a member of T). Statement streams: the
// C02 query generator, the C08 aggregate / window generator, and C09's own typed stream (unions of
// differently typed branches, outer joins of NOT NULL columns, aggregates over empty input,
// CASE / IF / IFNULL / COALESCE / NULLIF with mixed branch types, arithmetic, casts, functions).
package main

import (
	"encoding/json"
	"fmt"
	"os"
	"strings"
	"sync"

	"verif/harness/core"
	"verif/harness/g7lib"
)

type witness struct {
	Case   string   `json:"case"`
	Setup  []string `json:"setup"`
	SQL    string   `json:"sql"`
	Column int      `json:"column"`
	Label  string   `json:"label"`
	Kind   string   `json:"kind"`
	Type   string   `json:"type"`
	Value  string   `json:"value"`
	Note   string   `json:"note,omitempty"`
	Schema []string `json:"schema,omitempty"`
}

func main() {
	r := core.NewRun("C09", "exploration",
		"each evaluation is one executed statement whose every returned value is checked against the reported result schema (NULL only in nullable columns; T.SQL(v) and T.Convert(v) succeed in range; T.SQL(T.Convert(v)) == T.SQL(v)); statements come from the C02 query generator, the C08 aggregate/window generator and a typed stream of unions of differently typed branches, outer joins, aggregates over empty input, CASE/IF/IFNULL/COALESCE/NULLIF, arithmetic, casts and functions over TINYINT..BIGINT [UNSIGNED], DECIMAL, VARCHAR, CHAR, ENUM, DATE, DOUBLE columns; distinct = (expression kind, reported type, nullable) triples seen with at least one value")
	r.Fold(8, 3)
	r.Assume("Go representation details are not checked (a bool in a tinyint(1) column is accepted because Convert and the wire encoder accept it); only membership and NULL-ness")
	r.Assume("a statement that the engine rejects contributes no evaluation (errors are C02's / C10's business); counted under counters.no-result")
	if r.Replay != "" {
		replay(r, r.Replay)
		r.Finish()
	}
	r.Parallel("c02gen", r.N(300, 7500), func(i int) { streamC02(r, i) })
	r.Parallel("c08gen", r.N(125, 3750), func(i int) { streamC08(r, i) })
	r.Parallel("own", r.N(130, 3000), func(i int) { streamOwn(r, i) })
	intUnify(r)
	pinned(r)
	r.Floor(r.Counter("statements:c02gen") > 0 && r.Counter("statements:c08gen") > 0 && r.Counter("statements:own") > 0, "a statement stream produced no checked result")
	for _, c := range []string{"union", "outer-join", "aggregate", "conditional", "expression"} {
		r.Floor(r.Counter("own-class:"+c) >= int64(r.N(40, 1000)), "own stream class "+c+" checked fewer times than the floor")
	}
	r.Floor(r.Counter("values") > 0, "no value was checked")
	r.Finish()
}

func streamC02(r *core.Run, i int) {
	rnd := r.Rand("c02gen", i)
	deep := i%7 == 3
	cfg := g7lib.Cfg{Tables: 3, MaxRows: 8}
	qc := g7lib.QCfg{MaxFrom: 2, SubDepth: 1, SubFrom: 1}
	if deep {
		cfg = g7lib.Cfg{Tables: 4, MaxRows: 5}
		qc = g7lib.QCfg{MaxFrom: 3, SubDepth: 2, SubFrom: 2}
	}
	sch := g7lib.GenSchema(rnd, cfg)
	env, err := g7lib.Load(sch)
	if err != nil {
		r.Inconclusive("setup-failed")
		return
	}
	defer env.Close()
	g := g7lib.NewGen(rnd, env.Ref, qc)
	for k := 0; k < 8; k++ {
		q := g.Query()
		var labels []string
		for j := 0; j < q.Width(); j++ {
			labels = append(labels, labelC02(q, j))
		}
		judge(r, env.Sess, sch.Setup, q.SQL(g7lib.MySQL), labels, "c02gen", fmt.Sprintf("%s/%d/c02gen%d/q%d", r.Tier, r.CaseSeed(), i, k))
	}
}

// labelC02 names the expression kind of output column j of a generated C02 query.
func labelC02(q *g7lib.Query, j int) string {
	if q.SetOp != "" {
		return strings.ToLower(q.SetOp) + "(" + labelC02(q.L, j) + "," + labelC02(q.R, j) + ")"
	}
	e := q.Items[j].E
	l := e.Op
	if e.Op == "agg" {
		l = "agg:" + e.Sym
		if e.Star {
			l = "agg:COUNT(*)"
		}
	}
	if e.Op == "col" {
		nullableSide := false
		for k, f := range q.From {
			if f.Alias == e.Tab && f.Join == "LEFT" {
				nullableSide = true
			}
			if f.Join == "RIGHT" {
				for _, p := range q.From[:k] {
					if p.Alias == e.Tab {
						nullableSide = true
					}
				}
			}
		}
		if nullableSide {
			l = "outer:col:" + e.Col
		} else {
			l = "col:" + e.Col
		}
	}
	if q.Grouped && e.Op != "agg" {
		l = "grouped:" + l
	}
	return l
}

func streamC08(r *core.Run, i int) {
	rnd := r.Rand("c08gen", i)
	sch := g7lib.GenTable08(rnd)
	env, err := g7lib.Load(sch)
	if err != nil {
		r.Inconclusive("setup-failed")
		return
	}
	defer env.Close()
	g := g7lib.NewGen08(rnd, env.Ref.Tables["w"].Rows, g7lib.Cfg08{NoRangeNullKey: true})
	for k := 0; k < 8; k++ {
		var q *g7lib.Query08
		if k%8 < 3 {
			q = g.Group()
		} else {
			q = g.Win()
		}
		var labels []string
		for j := 0; j < q.KeyCols; j++ {
			labels = append(labels, "key")
		}
		for _, l := range q.Labels {
			if p := strings.Index(l, "|"); p >= 0 {
				l = "window:" + l[:p]
			} else {
				l = "agg:" + l
			}
			if p := strings.Index(l[7:], ":"); p >= 0 && strings.HasPrefix(l, "window:") {
				l = l[:7+p]
			} else if strings.HasPrefix(l, "agg:") {
				if p := strings.Index(l[4:], ":"); p >= 0 {
					l = l[:4+p]
				}
			}
			labels = append(labels, l)
		}
		judge(r, env.Sess, sch.Setup, q.SQL, labels, "c08gen", fmt.Sprintf("%s/%d/c08gen%d/q%d", r.Tier, r.CaseSeed(), i, k))
	}
}

func streamOwn(r *core.Run, i int) {
	rnd := r.Rand("own", i)
	setup := g7lib.Setup09(rnd)
	e := core.NewEng("d")
	defer e.Close()
	s := e.NewSess()
	for _, q := range setup {
		if res := s.Exec(q); res.Failed() {
			r.Inconclusive("setup-failed")
			return
		}
	}
	for k := 0; k < 12; k++ {
		st := g7lib.Gen09(rnd)
		if judge(r, s, setup, st.SQL, st.Labels, "own", fmt.Sprintf("%s/%d/own%d/q%d", r.Tier, r.CaseSeed(), i, k)) {
			r.Count("own-class:"+st.Class, 1)
		}
	}
}

func judge(r *core.Run, s *core.Sess, setup []string, text string, labels []string, stream, name string) bool {
	res := s.Exec(text)
	if res.TimedOut {
		r.Inconclusive("timeout")
		return false
	}
	if res.Failed() {
		r.Count("no-result", 1)
		r.Count("no-result:"+stream, 1)
		return false
	}
	r.Eval(1)
	r.Count("statements:"+stream, 1)
	r.Count("values", int64(len(res.Rows)*len(res.Schema)))
	bad := g7lib.CheckSchema(s.Ctx(), res.Schema, res.Rows)
	if len(res.Rows) > 0 {
		for j, c := range res.Schema {
			l := "?"
			if j < len(labels) {
				l = labels[j]
			}
			r.Distinct(fmt.Sprintf("%s|%s|nullable=%v", kindOf(l), c.Type.String(), c.Nullable))
		}
	}
	if len(bad) == 0 {
		if strings.HasSuffix(name, "1/q0") {
			var sc []string
			for _, c := range res.Schema {
				sc = append(sc, fmt.Sprintf("%s %s nullable=%v", c.Name, c.Type.String(), c.Nullable))
			}
			r.Sample(map[string]any{"sql": core.Clip(text, 300), "schema": sc, "rows": len(res.Rows), "checked": "every value: NULL-ness, SQL(), Convert() in range, SQL(Convert(v)) == SQL(v)"})
		}
		return true
	}
	var sc []string
	for _, c := range res.Schema {
		sc = append(sc, fmt.Sprintf("%s %s nullable=%v", c.Name, c.Type.String(), c.Nullable))
	}
	for _, b := range bad {
		l := "?"
		if b.Col >= 0 && b.Col < len(labels) {
			l = labels[b.Col]
		}
		w := &witness{Case: name, Setup: setup, SQL: text, Column: b.Col, Label: l, Kind: b.Kind, Type: b.Type, Value: b.Value, Note: b.Note, Schema: sc}
		sig := classify(b, l)
		dump(sig, w)
		r.Violation(sig, w)
	}
	return true
}

// kindOf strips the operand detail from a label: "outer:col:bi" -> "outer:col".
func kindOf(l string) string {
	parts := strings.Split(l, ":")
	switch parts[0] {
	case "outer":
		if len(parts) > 1 {
			return parts[0] + ":" + parts[1]
		}
	case "col":
		return "col"
	case "grouped":
		if len(parts) > 1 {
			return "grouped:" + parts[1]
		}
	}
	if i := strings.Index(l, "("); i > 0 && (strings.HasPrefix(l, "union") || strings.HasPrefix(l, "intersect") || strings.HasPrefix(l, "except")) {
		return l[:i]
	}
	return l
}

var dumpMu sync.Mutex

func dump(sig string, w *witness) {
	path := os.Getenv("G7_DUMP")
	if path == "" {
		return
	}
	dumpMu.Lock()
	defer dumpMu.Unlock()
	f, err := os.OpenFile(path, os.O_APPEND|os.O_CREATE|os.O_WRONLY, 0o644)
	if err != nil {
		return
	}
	defer f.Close()
	b, _ := json.Marshal(map[string]any{"signature": sig, "count": 1, "witness": w})
	f.Write(append(b, '\n'))
}

// recheck runs a witness on a fresh engine and reports whether the recorded column still holds a
// value of the recorded failure kind.
func recheck(w *witness) (bool, string) {
	e := core.NewEng("d")
	defer e.Close()
	s := e.NewSess()
	for _, q := range w.Setup {
		if res := s.Exec(q); res.Failed() {
			return true, "setup failed: " + q
		}
	}
	res := s.Exec(w.SQL)
	if res.Failed() {
		return false, "statement no longer returns a result: " + res.ErrClass()
	}
	for _, b := range g7lib.CheckSchema(s.Ctx(), res.Schema, res.Rows) {
		if b.Col == w.Column && b.Kind == w.Kind {
			return true, b.Type + " " + b.Value
		}
	}
	return false, ""
}

func replay(r *core.Run, path string) {
	b, err := os.ReadFile(path)
	if err != nil {
		r.Inconclusive("replay-file-unreadable")
		return
	}
	var f struct {
		Signature string  `json:"signature"`
		Witness   witness `json:"witness"`
	}
	if err := json.Unmarshal(b, &f); err != nil || f.Witness.SQL == "" {
		r.Inconclusive("replay-file-not-a-C09-witness")
		return
	}
	r.Eval(1)
	r.Distinct("replay")
	r.Distinct("replay:" + f.Signature)
	if fails, _ := recheck(&f.Witness); fails {
		w := f.Witness
		r.Violation(f.Signature, &w)
	}
}
