package main

import (
	"sort"
	"strings"

	"github.com/dolthub/go-mysql-server/sql"
)

// An argument class is one SQL expression text standing for a family of hostile operands.
type class struct {
	Name string
	SQL  string
	Col  bool // references a column of d.tall: the statement needs FROM tall
	Core bool // member of the reduced set used for pair / triple products
}

var (
	allClasses  []class // every class (arity-1 sweep, star sweep)
	starClasses []class // all classes except most per-charset ones (one hostile position, pivots elsewhere)
	coreClasses []class // reduced set for full pair products
	miniClasses []class // smaller still, for OVER forms and quick pair products
	tinyClasses []class // ten maximally different classes, for triple products
	strClasses  []class // string-valued operands for the collation generator
	charsets    []string
	implCS      []string        // character sets with an encoder
	unimplCS    = map[string]bool{} // character sets the engine lists but has no encoder for
	collations  []string
	mixClasses  []class // all non-column classes minus the per-charset classes of unimplemented character sets (they all fail at one site)
)

func lit(name, sqltext string) class { return class{Name: name, SQL: sqltext} }
func core_(name, sqltext string) class {
	return class{Name: name, SQL: sqltext, Core: true}
}

func init() {
	// character sets and collations known to the engine
	seenCS := map[string]bool{}
	it := sql.NewCollationsIterator()
	for {
		c, ok := it.Next()
		if !ok {
			break
		}
		collations = append(collations, c.Name)
		cs := c.CharacterSet.Name()
		if !seenCS[cs] {
			seenCS[cs] = true
			charsets = append(charsets, cs)
		}
	}
	sort.Strings(collations)
	sort.Strings(charsets)
	for _, cs := range charsets {
		id, err := sql.ParseCharacterSet(cs)
		if err != nil || id.Encoder() == nil {
			unimplCS[cs] = true
		} else {
			implCS = append(implCS, cs)
		}
	}

	cl := []class{
		core_("null", "NULL"),
		core_("zero", "0"), core_("neg1", "-1"), core_("one", "1"), lit("two", "2"), lit("i8max", "127"), lit("i8over", "128"), lit("u8max", "255"), lit("u8over", "256"),
		lit("i16max", "32767"), lit("u16max", "65535"), lit("u16over", "65536"), core_("i32max", "2147483647"), lit("i32over", "2147483648"), lit("i32min", "-2147483648"), lit("u32max", "4294967295"),
		core_("i64max", "9223372036854775807"), core_("i64min", "-9223372036854775808"), lit("i64over", "9223372036854775808"), core_("u64max", "18446744073709551615"), lit("u64over", "18446744073709551616"),
		core_("half", "0.5"), lit("neghalf", "-0.5"), lit("dec1_5", "1.5"), lit("dec_small", "0.000000000000000000000000000001"),
		core_("dec65", "99999999999999999999999999999999999999999999999999999999999999999"),
		lit("dec_neg65", "-99999999999999999999999999999.999999999999999999999999999999"), lit("dec81", "1"+strings.Repeat("0", 81)),
		core_("dblmax", "1.7976931348623157e308"), lit("dblmin", "-1.7976931348623157e308"), lit("dbltiny", "4.9e-324"), lit("dblover", "1e309"), lit("flt", "1e10"), lit("negzero", "-0.0"),
		core_("s_nan", "'NaN'"), lit("s_inf", "'Infinity'"), lit("s_neginf", "'-inf'"), lit("s_1e400", "'1e400'"), lit("s_hexnum", "'0x10'"), lit("s_numjunk", "'  12abc'"), lit("s_num", "'12'"), lit("s_negnum", "'-3.7'"),
		core_("s_empty", "''"), lit("s_space", "' '"), lit("s_a", "'a'"), core_("s_abc", "'abc'"), lit("s_long", "'"+strings.Repeat("long string ", 30)+"'"),
		lit("s_repeat64k", "REPEAT('x', 70000)"), lit("s_quote", "'it''s \"q\" \\\\ %_'"), lit("s_nul", "'a\\0b'"), lit("s_newline", "'a\\nb\\r\\n'"),
		core_("x_ff", "X'FF'"), lit("x_c3", "X'C3'"), lit("x_e282", "X'E282'"), lit("x_f0288cbc", "X'F0288CBC'"), lit("x_00", "X'00'"), lit("x_empty", "X''"), lit("x_long", "X'"+strings.Repeat("FE", 40)+"'"),
		core_("u8_ff", "_utf8mb4 X'FF'"), lit("u8_e282", "CONVERT(X'E282' USING utf8mb4)"), lit("castchar_fffe", "CAST(X'FFFE' AS CHAR)"), lit("bin_abc", "CAST('abc' AS BINARY)"), lit("b_lit", "b'101'"), lit("hexnum", "0x4142"),
		core_("s_mb", "'日本語'"), lit("s_emoji", "'😀'"), lit("s_accent", "'é'"), lit("s_sharp", "'ß'"), lit("s_mix", "'aé日😀'"),
		core_("l1_mix", "CONVERT('aé日😀' USING latin1)"), lit("u16_mix", "CONVERT('aé日😀' USING utf16)"), lit("u32_a", "CONVERT('a' USING utf32)"), lit("ascii_mix", "CONVERT('aé' USING ascii)"), lit("bin_conv", "CONVERT('aé' USING binary)"),
		lit("coll_ci", "'Abc' COLLATE utf8mb4_0900_ai_ci"), lit("coll_bin", "'Abc' COLLATE utf8mb4_bin"), lit("coll_l1", "_latin1'abc' COLLATE latin1_general_cs"),
		core_("d_zero", "'0000-00-00'"), lit("d_0001", "'0000-01-01'"), lit("d_1000", "'1000-01-01'"), core_("d_max", "'9999-12-31'"), lit("dt_max", "'9999-12-31 23:59:59.999999'"), lit("d_over", "'10000-01-01'"),
		lit("d_feb30", "'2020-02-30'"), core_("d_lit", "DATE '2020-02-29'"), lit("ts_epoch", "TIMESTAMP '1970-01-01 00:00:00'"), lit("d_1969", "'1969-12-31'"), lit("ts_2038", "'2038-01-19 03:14:08'"),
		lit("d_num", "20200229"), lit("dt_num", "20200229123456"), lit("d_short", "'20-2-9'"), lit("d_junk", "'2020-02-29x'"),
		core_("t_max", "TIME '838:59:59'"), lit("t_negmax", "'-838:59:59'"), lit("t_over", "'839:00:00'"), lit("t_frac", "'12:34:56.7890123'"), lit("t_num", "-8385959"),
		core_("j_obj", "'{\"a\": [1, 2, {\"b\": null}], \"c\": \"d\"}'"), lit("j_empty_obj", "'{}'"), lit("j_arr", "'[1,[2,{\"b\":null}]]'"), lit("j_null", "'null'"), lit("j_bad", "'{\"a\":'"), lit("j_scalar", "'\"s\"'"),
		core_("j_cast", "CAST('{\"a\":[1,2]}' AS JSON)"), lit("j_arrfn", "JSON_ARRAY()"), lit("j_deep", "'"+strings.Repeat("[", 120)+strings.Repeat("]", 120)+"'"), lit("j_bignum", "CAST('123456789012345678901234567890' AS JSON)"),
		core_("p_root", "'$'"), lit("p_a", "'$.a'"), lit("p_idx", "'$[0]'"), lit("p_wild", "'$**.b'"), lit("p_last", "'$[last]'"), lit("p_bad", "'$.'"), lit("p_range", "'$[1 to 2]'"), lit("s_one", "'one'"), lit("s_all", "'all'"),
		core_("g_pt", "POINT(0,0)"), lit("g_ptbig", "POINT(1e308,-1e308)"), lit("g_line", "ST_GeomFromText('LINESTRING(0 0,1 1)')"), lit("g_poly", "ST_GeomFromText('POLYGON((0 0,0 1,1 1,0 0))')"),
		lit("g_wkt", "'POINT(1 1)'"), lit("g_wktbad", "'POLYGON((0 0,1 1))'"), lit("g_coll", "ST_GeomFromText('GEOMETRYCOLLECTION(POINT(1 1))')"), lit("g_raw", "X'000000000101000000000000000000F03F000000000000F03F'"),
		core_("g_shortwkb", "X'0101'"), lit("g_wkb", "X'0101000000000000000000F03F000000000000F03F'"), lit("g_srid", "ST_GeomFromText('POINT(1 1)', 4326)"), lit("g_mpt", "ST_GeomFromText('MULTIPOINT(0 0,1 1)')"),
		lit("g_mpoly", "ST_GeomFromText('MULTIPOLYGON(((0 0,0 1,1 1,0 0)))')"), lit("g_geojson", "'{\"type\":\"Point\",\"coordinates\":[1,2]}'"), lit("g_geojsonbad", "'{\"type\":\"Point\",\"coordinates\":[1]}'"), lit("g_hash", "'s0'"),
		core_("re_open", "'('"), lit("re_class", "'[a-'"), lit("re_any", "'.*'"), lit("re_big", "'a{100000}'"), lit("re_bs", "'\\\\'"), lit("re_flag", "'(?i)a'"),
		core_("f_date", "'%Y-%m-%d %H:%i:%s.%f'"), lit("f_pct", "'%'"), lit("f_pcts", "'%%%'"), lit("f_bad", "'%Q%1'"), lit("f_all", "'%a%b%c%D%d%e%f%H%h%I%i%j%k%l%M%m%p%r%S%s%T%U%u%V%v%W%w%X%x%Y%y'"),
		core_("b_true", "TRUE"), lit("cs_name", "'utf8mb4'"), lit("cs_l1", "'latin1'"), lit("tz_off", "'+00:00'"), lit("tz_utc", "'UTC'"), lit("tz_bad", "'-13:60'"), lit("tz_max", "'+14:00'"), lit("unit", "'YEAR'"),
		lit("uuid", "'6ccd780c-baba-1026-9564-5b8c656024db'"), lit("uuid_bin", "X'6CCD780CBABA102695645B8C656024DB'"), lit("b64bad", "'===='"), lit("ip4", "'1.2.3.4'"), lit("ip4bad", "'256.0.0.1'"), lit("ip6", "'::1'"), lit("ip6map", "'::ffff:1.2.3.4'"),
		lit("ip6bin", "X'00000000000000000000FFFF01020304'"), lit("vec", "'[1,2,3]'"), lit("vec_empty", "'[]'"), lit("vec_big", "'[1e400]'"), lit("vec_json", "CAST('[1,2,3]' AS JSON)"), lit("gtid", "'3E11FA47-71CA-11E1-9E33-C80AA9429562:1-5'"),
		core_("sq_one", "(SELECT 1)"), lit("sq_null", "(SELECT NULL)"), lit("sq_two", "(SELECT 1, 2)"), lit("sq_rows", "(SELECT id FROM d.t)"), lit("sq_empty", "(SELECT id FROM d.t WHERE FALSE)"), core_("tuple", "(1, 2)"), lit("uvar", "@nosuchvar"), lit("sysvar", "@@autocommit"),
		lit("star", "*"), lit("distinct1", "DISTINCT 1"), lit("dflt", "DEFAULT"), lit("interval", "INTERVAL 1 DAY"), lit("case", "CASE WHEN NULL THEN 1 END"), lit("exists", "EXISTS (SELECT 1)"),
		core_("c_unsigned", "CAST(1 AS UNSIGNED)"), lit("c_signed", "CAST(-1 AS SIGNED)"), core_("c_dec", "CAST(1.5 AS DECIMAL(65,30))"), core_("c_double", "CAST(1 AS DOUBLE)"), lit("c_float", "CAST(1 AS FLOAT)"),
		core_("c_date", "CAST('2020-01-01' AS DATE)"), core_("c_datetime", "CAST('2020-01-01 10:11:12.123456' AS DATETIME(6))"), core_("c_time", "CAST('10:00:00' AS TIME)"), lit("c_year", "CAST(2020 AS YEAR)"),
		lit("c_charl1", "CAST('a' AS CHAR CHARACTER SET latin1)"), lit("c_nchar", "CAST(1 AS NCHAR)"),
	}
	// columns of the fixture table (typed storage values instead of literals)
	for _, c := range []string{"c_ti", "c_tu", "c_si", "c_i", "c_iu", "c_bi", "c_bu", "c_dec", "c_dec65", "c_f", "c_d", "c_bit", "c_bool", "c_c", "c_vc", "c_vcci", "c_vcl1", "c_vcbin", "c_txt",
		"c_bin", "c_vb", "c_blob", "c_date", "c_dt", "c_ts", "c_time", "c_year", "c_enum", "c_set", "c_json", "c_pt", "c_geom"} {
		k := class{Name: "col_" + c, SQL: c, Col: true}
		switch c {
		case "c_bu", "c_dec65", "c_d", "c_bit", "c_vc", "c_vcl1", "c_blob", "c_dt", "c_time", "c_year", "c_enum", "c_set", "c_json", "c_geom":
			k.Core = true
		}
		cl = append(cl, k)
	}
	// one string per character set, converted (re-encoding path, F16)
	for _, cs := range charsets {
		cl = append(cl, lit("cs_"+cs, "CONVERT('aé日😀' USING "+cs+")"))
		cl = append(cl, lit("csx_"+cs, "CONVERT(X'61E697' USING "+cs+")"))
	}
	allClasses = cl
	for _, c := range cl {
		if c.Col || c.Name == "star" || c.Name == "distinct1" || c.Name == "s_repeat64k" {
			continue
		}
		if strings.HasPrefix(c.Name, "cs_") && unimplCS[c.Name[3:]] && c.Name != "cs_ujis" {
			continue
		}
		if strings.HasPrefix(c.Name, "csx_") && unimplCS[c.Name[4:]] {
			continue
		}
		mixClasses = append(mixClasses, c)
	}
	keepCS := map[string]bool{"latin1": true, "utf16": true, "utf32": true, "ascii": true, "binary": true, "sjis": true, "ucs2": true, "cp1256": true}
	for _, c := range cl {
		if strings.HasPrefix(c.Name, "cs_") && !keepCS[c.Name[3:]] {
			continue
		}
		if strings.HasPrefix(c.Name, "csx_") && !keepCS[c.Name[4:]] {
			continue
		}
		starClasses = append(starClasses, c)
	}
	for _, c := range cl {
		if c.Core {
			coreClasses = append(coreClasses, c)
		}
	}
	for _, n := range []string{"null", "zero", "neg1", "i64max", "u64max", "dec65", "s_empty", "s_abc", "x_ff", "s_mb", "d_max", "j_obj", "g_pt", "tuple", "col_c_json", "col_c_vc"} {
		for _, c := range cl {
			if c.Name == n {
				miniClasses = append(miniClasses, c)
			}
		}
	}
	for _, n := range []string{"null", "neg1", "u64max", "dec65", "s_empty", "s_abc", "x_ff", "j_obj", "g_pt", "tuple"} {
		for _, c := range cl {
			if c.Name == n {
				tinyClasses = append(tinyClasses, c)
			}
		}
	}
	for _, c := range cl {
		switch {
		case strings.HasPrefix(c.Name, "s_") && c.Name != "s_repeat64k", strings.HasPrefix(c.Name, "x_"), strings.HasPrefix(c.Name, "u8_"), c.Name == "null",
			c.Name == "col_c_vc", c.Name == "col_c_vcci", c.Name == "col_c_vcl1", c.Name == "col_c_vcbin", c.Name == "col_c_txt", c.Name == "col_c_c", c.Name == "col_c_blob", c.Name == "col_c_enum",
			c.Name == "col_c_i", c.Name == "col_c_json", c.Name == "i64max", c.Name == "d_lit":
			strClasses = append(strClasses, c)
		}
	}
}
