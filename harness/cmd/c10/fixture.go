package main

import (
	"verif/harness/core"
)

// fixtureSQL builds database d (the playground every generated statement runs against) and database
// zc (the canary table, never named by any generated statement).
var fixtureSQL = []string{
	`CREATE TABLE tall (
  id INT PRIMARY KEY,
  c_ti TINYINT, c_tu TINYINT UNSIGNED, c_si SMALLINT, c_i INT, c_iu INT UNSIGNED, c_bi BIGINT, c_bu BIGINT UNSIGNED,
  c_dec DECIMAL(20,5), c_dec65 DECIMAL(65,30), c_f FLOAT, c_d DOUBLE, c_bit BIT(8), c_bool BOOLEAN,
  c_c CHAR(10), c_vc VARCHAR(40), c_vcci VARCHAR(40) COLLATE utf8mb4_0900_ai_ci, c_vcl1 VARCHAR(40) CHARACTER SET latin1,
  c_vcbin VARCHAR(40) COLLATE utf8mb4_bin, c_txt TEXT, c_bin BINARY(4), c_vb VARBINARY(20), c_blob BLOB,
  c_date DATE, c_dt DATETIME(6), c_ts TIMESTAMP, c_time TIME(6), c_year YEAR,
  c_enum ENUM('a','b','c'), c_set SET('x','y','z'), c_json JSON, c_pt POINT, c_geom GEOMETRY,
  KEY k_i (c_i), KEY k_vc (c_vc), KEY k_dec (c_dec), KEY k_date (c_date), KEY k_ti (c_ti), UNIQUE KEY k_bi (c_bi), KEY k_multi (c_si, c_vcci))`,
	`INSERT INTO tall VALUES (1, -128, 0, -32768, -2147483648, 0, -9223372036854775808, 0,
  -999999999999999.99999, -99999999999999999999999999999999999.999999999999999999999999999999, -3.4e38, -1.7976931348623157e308, b'00000000', false,
  '', '', '', '', '', '', X'00000000', X'', X'',
  '1000-01-01', '1000-01-01 00:00:00.000000', '1970-01-01 00:00:01', '-838:59:59.000000', 1901,
  'a', '', '{}', POINT(0,0), POINT(0,0))`,
	`INSERT INTO tall VALUES (2, 127, 255, 32767, 2147483647, 4294967295, 9223372036854775807, 18446744073709551615,
  999999999999999.99999, 99999999999999999999999999999999999.999999999999999999999999999999, 3.4e38, 1.7976931348623157e308, b'11111111', true,
  'zzzzzzzzzz', 'The quick brown fox', 'Éa ß', 'latin1 text', 'Bin', 'long text long text long text', X'FFFFFFFF', X'FF00FF', X'C328A0A1',
  '9999-12-31', '9999-12-31 23:59:59.999999', '2038-01-19 03:14:07', '838:59:59.000000', 2155,
  'c', 'x,y,z', '{"a": [1, 2, {"b": null}], "c": "d"}', POINT(1e308,-1e308), ST_GeomFromText('POLYGON((0 0,0 4,4 4,4 0,0 0),(1 1,1 2,2 2,2 1,1 1))'))`,
	`INSERT INTO tall VALUES (3, NULL, NULL, NULL, NULL, NULL, NULL, NULL, NULL, NULL, NULL, NULL, NULL, NULL, NULL, NULL, NULL, NULL, NULL, NULL, NULL, NULL, NULL,
  NULL, NULL, NULL, NULL, NULL, NULL, NULL, NULL, NULL, NULL)`,
	`INSERT INTO tall VALUES (4, 1, 1, 1, 1, 1, 1, 1, 1.5, 0.000000000000000000000000000001, 1.5, 0.1, b'00000001', true,
  'abc', 'abc', 'ABC', 'abc', 'abc', 'abc', X'61626300', X'616263', X'616263',
  '2020-02-29', '2020-02-29 12:34:56.789012', '2020-02-29 12:34:56', '12:34:56.789012', 2020,
  'b', 'y', '[1, "two", 3.5, true, null]', POINT(1,2), ST_GeomFromText('LINESTRING(0 0,1 1,2 2)'))`,
	`INSERT INTO tall VALUES (5, 0, 128, 0, 0, 2147483648, 0, 9223372036854775808, 0, 0, 0, -0.0, b'10000000', false,
  '日本語', '日本語 😀 text', 'résumé', 'caf', 'ß', '', X'E697A5', X'F09F9880', X'E2',
  '0000-01-01', '0000-01-01 00:00:00', '2000-01-01 00:00:00', '00:00:00', 0,
  'a', 'z', '"scalar"', POINT(-180,-90), ST_GeomFromText('MULTIPOINT(0 0,1 1)'))`,
	`CREATE TABLE t (id INT PRIMARY KEY, a INT, b VARCHAR(20), c DECIMAL(10,2), KEY ka (a), KEY kb (b))`,
	`INSERT INTO t VALUES (1,1,'one',1.10),(2,2,'two',2.20),(3,NULL,NULL,NULL),(4,2,'deux',-4.00),(5,5,'five',5.55)`,
	`CREATE TABLE u (id INT PRIMARY KEY AUTO_INCREMENT, tid INT, v VARCHAR(20) NOT NULL DEFAULT 'dflt', w INT GENERATED ALWAYS AS (id * 2) STORED,
  CONSTRAINT fk_u FOREIGN KEY (tid) REFERENCES t (id) ON DELETE CASCADE, CONSTRAINT ck_u CHECK (tid < 1000), UNIQUE KEY uv (v))`,
	`INSERT INTO u (tid, v) VALUES (1,'x'),(2,'y'),(2,'z'),(NULL,'n')`,
	`CREATE TABLE ft (id INT PRIMARY KEY, doc TEXT, title VARCHAR(100), FULLTEXT KEY ftk (doc, title))`,
	`INSERT INTO ft VALUES (1,'the quick brown fox','animals'),(2,'lazy dog sleeps','animals too'),(3,NULL,NULL)`,
	`CREATE TABLE tlog (id INT PRIMARY KEY AUTO_INCREMENT, msg VARCHAR(100))`,
	`CREATE TRIGGER trg_t_ai AFTER INSERT ON t FOR EACH ROW INSERT INTO tlog (msg) VALUES (CONCAT('ins ', NEW.id))`,
	`CREATE TRIGGER trg_t_bu BEFORE UPDATE ON t FOR EACH ROW SET NEW.b = COALESCE(NEW.b, OLD.b)`,
	`CREATE VIEW v AS SELECT t.id, t.a, u.v FROM t LEFT JOIN u ON u.tid = t.id`,
	`CREATE PROCEDURE p1(IN x INT, OUT y INT) BEGIN DECLARE z INT DEFAULT 0; SET z = x + 1; IF z > 3 THEN SET y = z; ELSE SET y = -z; END IF; SELECT y; END`,
	`CREATE PROCEDURE p2(x INT) BEGIN DECLARE EXIT HANDLER FOR NOT FOUND SELECT 'handled'; INSERT INTO t VALUES (x, x, 'p2', 0); INSERT INTO t VALUES (x, x, 'p2', 0); END`,
	`CREATE TABLE geo (id INT PRIMARY KEY, g GEOMETRY NOT NULL SRID 0, SPATIAL KEY sg (g))`,
	`INSERT INTO geo VALUES (1, POINT(1,1)), (2, ST_GeomFromText('LINESTRING(0 0,2 2)')), (3, ST_GeomFromText('POLYGON((0 0,0 3,3 3,3 0,0 0))'))`,
	`CREATE DATABASE zc`,
	`CREATE TABLE zc.canary (id INT PRIMARY KEY, v BIGINT)`,
	`INSERT INTO zc.canary VALUES (1, 0)`,
}

// buildFixture prepares a fresh engine.
func buildFixture(e *core.Eng) {
	s := e.NewSess()
	for _, q := range fixtureSQL {
		s.MustExec(q)
	}
}
