package main

import (
	"math/rand"
	"strings"

	"github.com/dolthub/go-mysql-server/sql"

	"verif/harness/core"
)

// Generator 4: COLLATE / CHARACTER SET / CONVERT(… USING cs) decorations on string operands — the
// re-encoding path (encodings.Encode / Decode) and the collation sorters.
//
// A systematic part (every collation × fixed statement shapes, every character set × shapes × operand
// strings; identical in every stream) is followed by seeded random decorations.

var collateShapes = []string{
	"SELECT {A} = {B}, {A} < {B}, {A} <=> {B}, STRCMP({A}, {B})",
	"SELECT {A} LIKE {B}, {A} LIKE CONCAT({B}, '%'), {A} NOT LIKE '_%'",
	"SELECT {A} IN ({B}, {A}), {A} BETWEEN {B} AND {A}, GREATEST({A}, {B}), LEAST({A}, {B})",
	"SELECT UPPER({A}), LOWER({A}), REVERSE({A}), HEX({A}), LENGTH({A}), CHAR_LENGTH({A}), ORD({A}), ASCII({A}), QUOTE({A}), SOUNDEX({A})",
	"SELECT CONCAT({A}, {B}), CONCAT_WS({A}, {B}, {B}), REPLACE({A}, {B}, 'z'), LOCATE({B}, {A}), INSTR({A}, {B}), SUBSTRING({A}, 2, 2), LEFT({A}, 1), RIGHT({A}, 1), LPAD({A}, 6, {B}), RPAD({A}, 6, {B}), TRIM({B} FROM {A})",
	"SELECT c FROM (SELECT {A} AS c UNION SELECT {B} UNION SELECT {A}) x ORDER BY c",
	"SELECT DISTINCT c, COUNT(*) FROM (SELECT {A} AS c UNION ALL SELECT {B} UNION ALL SELECT {A}) x GROUP BY c ORDER BY c DESC",
	"SELECT MIN(c), MAX(c), GROUP_CONCAT(c ORDER BY c) FROM (SELECT {A} AS c UNION ALL SELECT {B}) x",
	"SELECT CASE WHEN {A} = {B} THEN {A} ELSE {B} END, COALESCE({A}, {B}), IF({A} < {B}, {A}, {B}), NULLIF({A}, {B}), FIELD({A}, {B}, {A}), FIND_IN_SET({A}, {B})",
	"SELECT {A} REGEXP {B}, REGEXP_REPLACE({A}, {B}, 'r'), REGEXP_INSTR({A}, 'a'), REGEXP_SUBSTR({A}, '.')",
	"SELECT TO_BASE64({A}), MD5({A}), SHA2({A}, 256), CRC32({A}), CHARSET({A}), COLLATION({A}), COERCIBILITY({A}), BIT_LENGTH({A})",
	"SELECT CAST({A} AS BINARY), CAST({A} AS CHAR), CAST({A} AS SIGNED), BINARY {A} = {B}, CONVERT({A} USING utf8mb4)",
	"SELECT c_vc = {A}, c_vcl1 = {A}, c_vcci < {B}, c_vcbin LIKE {A}, CONCAT(c_vc, {A}), CONCAT(c_vcl1, {B}), c_txt = {A}, c_blob = {A}, c_enum = {A}, c_set = {B} FROM tall",
	"SELECT id FROM tall WHERE c_vc = {A} OR c_vc > {B} ORDER BY c_vc",
	"SELECT id FROM t WHERE b = {A} OR b IN ({A}, {B}) OR b LIKE {B} ORDER BY b",
}

// DDL shapes: {CS} character set, {CO} a collation of that character set.
var collateDDL = [][]string{
	{"CREATE TABLE x (id INT PRIMARY KEY, s VARCHAR(20) CHARACTER SET {CS} COLLATE {CO}, KEY ks (s))", "INSERT INTO x VALUES (1, {A}), (2, {B}), (3, 'abc'), (4, 'ABC'), (5, NULL)", "SELECT id, s, HEX(s) FROM x WHERE s = {A} OR s > {B} ORDER BY s, id",
		"SELECT s, COUNT(*) FROM x GROUP BY s ORDER BY s", "SELECT x.id, t.id FROM x JOIN t ON t.b = x.s", "UPDATE x SET s = CONCAT(s, {A}) WHERE s LIKE {B}", "SELECT DISTINCT s FROM x", "SHOW CREATE TABLE x"},
	{"CREATE TABLE x (s CHAR(10) CHARACTER SET {CS} COLLATE {CO} PRIMARY KEY, u TEXT CHARACTER SET {CS})", "INSERT INTO x VALUES ({A}, {B}), ({B}, {A})", "INSERT INTO x VALUES ('abc', 'x'), ('ABC', 'y')", "SELECT s, u FROM x WHERE s IN ({A}, 'abc') ORDER BY s DESC",
		"ALTER TABLE x MODIFY s CHAR(10) CHARACTER SET utf8mb4", "SELECT s, HEX(s) FROM x ORDER BY s", "ALTER TABLE x CONVERT TO CHARACTER SET {CS}", "SELECT * FROM x"},
	{"CREATE TABLE x (id INT PRIMARY KEY, e ENUM('a', 'B', 'ß') CHARACTER SET {CS} COLLATE {CO}, st SET('a', 'B') CHARACTER SET {CS})", "INSERT INTO x VALUES (1, {A}, {B}), (2, 'b', 'A,b')", "SELECT e, st, e + 0 FROM x WHERE e = {A} OR st = {B} ORDER BY e"},
	{"SET NAMES {CS}", "SELECT {A}, {B}, c_vc, c_vcl1 FROM tall", "SET character_set_results = {CS}", "SELECT {A} = {B}, c_vc FROM tall", "SET collation_connection = {CO}", "SELECT 'abc' = 'ABC', {A} LIKE {B}", "SET NAMES {CS} COLLATE {CO}", "SELECT COLLATION('x'), CHARSET({A})"},
	{"CREATE DATABASE nd CHARACTER SET {CS} COLLATE {CO}", "CREATE TABLE nd.y (s VARCHAR(10), KEY (s))", "INSERT INTO nd.y VALUES ({A}), ({B}), ('abc')", "SELECT s FROM nd.y WHERE s >= {A} ORDER BY s", "SHOW CREATE TABLE nd.y", "SELECT y.s FROM nd.y y JOIN d.tall ON tall.c_vc = y.s"},
	{"CREATE TABLE x (id INT PRIMARY KEY, doc TEXT CHARACTER SET {CS} COLLATE {CO}, FULLTEXT KEY (doc))", "INSERT INTO x VALUES (1, {A}), (2, {B}), (3, 'quick brown Fox')", "SELECT id FROM x WHERE MATCH(doc) AGAINST ({A})", "SELECT id FROM x WHERE MATCH(doc) AGAINST ('fox QUICK')"},
}

var collateLits = []string{"'aé日😀'", "'abc'", "'ABC'", "'ß'", "''", "'a '", "X'FF'", "X'E697A5'", "X'61E697'", "X'C3'", "X'0061'", "X'D800'", "X'0000FFFF'", "'%_'", "NULL", "'Ǆ'", "'ﬁ'", "'İi'", "'ı'", "'\\0'", "X'80'", "X'A1A1'", "X'8140'", "X'F5'", "X'EDA080'"}

type collateGen struct {
	seed    int64
	tier    string
	sys     []genCase
	nRandom int
	colls   []sql.Collation
	byCS    map[string][]string
}

func newCollateGen(seed int64, tier string) *collateGen {
	g := &collateGen{seed: seed, tier: tier, nRandom: 2000, byCS: map[string][]string{}}
	if tier == "thorough" {
		g.nRandom = 8000
	}
	it := sql.NewCollationsIterator()
	for {
		c, ok := it.Next()
		if !ok {
			break
		}
		g.colls = append(g.colls, c)
		g.byCS[c.CharacterSet.Name()] = append(g.byCS[c.CharacterSet.Name()], c.Name)
	}
	// systematic: every collation × every shape, operands converted to the collation's character set
	for ci, c := range g.colls {
		cs := c.CharacterSet.Name()
		a := "CONVERT('aé日😀' USING " + cs + ") COLLATE " + c.Name
		b := "CONVERT('ABC ß' USING " + cs + ") COLLATE " + c.Name
		for si, sh := range collateShapes {
			if tier != "thorough" && (si+ci)%3 != 0 { // quick: a third of the (collation, shape) grid, fixed
				continue
			}
			g.sys = append(g.sys, genCase{Key: "coll:" + c.Name, Stmts: []string{fillAB(sh, a, b)}})
		}
		if tier == "thorough" || ci%4 == 0 {
			d := collateDDL[ci%len(collateDDL)]
			g.sys = append(g.sys, genCase{Key: "coll-ddl:" + c.Name, Stmts: fillDDL(d, cs, c.Name, "'aé日😀'", "X'61E697'")})
		}
	}
	// systematic: every character set × decoration form × operand literal (one shape each)
	for _, cs := range charsets {
		for li, l := range collateLits {
			forms := []string{"CONVERT(" + l + " USING " + cs + ")", "CAST(" + l + " AS CHAR CHARACTER SET " + cs + ")", "_" + cs + " " + l, "CONVERT(CONVERT(" + l + " USING " + cs + ") USING utf8mb4)",
				"CONVERT(CONVERT(" + l + " USING binary) USING " + cs + ")", "CHAR(228, 26085 USING " + cs + ")"}
			for fi, f := range forms {
				if tier != "thorough" && (fi+li)%2 != 0 {
					continue
				}
				sh := collateShapes[(li+fi)%len(collateShapes)]
				g.sys = append(g.sys, genCase{Key: "cs:" + cs, Stmts: []string{fillAB(sh, f, "'abc'")}})
				g.sys = append(g.sys, genCase{Key: "cs:" + cs, Stmts: []string{"SELECT " + f + ", HEX(" + f + "), LENGTH(" + f + "), CHAR_LENGTH(" + f + ")"}})
			}
		}
		for di, d := range collateDDL {
			if tier != "thorough" && di%2 != 0 {
				continue
			}
			co := cs + "_bin"
			if cs == "binary" {
				co = "binary"
			}
			if l := g.byCS[cs]; len(l) > 0 {
				co = l[di%len(l)]
			}
			g.sys = append(g.sys, genCase{Key: "cs-ddl:" + cs, Stmts: fillDDL(d, cs, co, collateLits[di%len(collateLits)], collateLits[(di+7)%len(collateLits)])})
		}
	}
	return g
}

func fillAB(s, a, b string) string {
	return strings.ReplaceAll(strings.ReplaceAll(s, "{A}", a), "{B}", b)
}

func fillDDL(d []string, cs, co, a, b string) []string {
	out := make([]string, len(d))
	for i, s := range d {
		s = strings.ReplaceAll(s, "{CS}", cs)
		s = strings.ReplaceAll(s, "{CO}", co)
		out[i] = fillAB(s, a, b)
	}
	return out
}

func (g *collateGen) Len() int { return len(g.sys) + g.nRandom }

func (g *collateGen) decorate(rnd *rand.Rand, x class) string {
	s := x.SQL
	cs := pick(rnd, implCS)
	if rnd.Intn(10) == 0 {
		cs = pick(rnd, charsets)
	}
	switch rnd.Intn(8) {
	case 0:
		return s + " COLLATE " + pick(rnd, collations)
	case 1:
		return "CONVERT(" + s + " USING " + cs + ")"
	case 2:
		return "CAST(" + s + " AS CHAR CHARACTER SET " + cs + ")"
	case 3:
		if !x.Col && (strings.HasPrefix(s, "'") || strings.HasPrefix(s, "X'")) {
			return "_" + cs + " " + s
		}
		return "CONVERT(" + s + " USING " + cs + ")"
	case 4:
		l := g.byCS[cs]
		if len(l) == 0 {
			return "CONVERT(" + s + " USING " + cs + ")"
		}
		return "CONVERT(" + s + " USING " + cs + ") COLLATE " + pick(rnd, l)
	case 5:
		return "CONVERT(CONVERT(" + s + " USING " + cs + ") USING " + pick(rnd, charsets) + ")"
	case 6:
		return "BINARY " + s
	}
	return s
}

func (g *collateGen) Case(i int) genCase {
	if i < len(g.sys) {
		return g.sys[i]
	}
	j := i - len(g.sys)
	rnd := core.RandFor(g.seed, "C10", g.tier+"/collate", j)
	a := g.decorate(rnd, pick(rnd, strClasses))
	b := g.decorate(rnd, pick(rnd, strClasses))
	needFrom := strings.Contains(a, "c_") || strings.Contains(b, "c_")
	if j%6 == 5 {
		cs := pick(rnd, charsets)
		co := pick(rnd, collations)
		if l := g.byCS[cs]; len(l) > 0 && rnd.Intn(4) != 0 {
			co = pick(rnd, l)
		}
		if needFrom { // DDL shapes take literal operands only
			a, b = pick(rnd, collateLits), pick(rnd, collateLits)
		}
		return genCase{Key: "random-ddl", Stmts: fillDDL(pick(rnd, collateDDL), cs, co, a, b)}
	}
	sh := collateShapes[j%len(collateShapes)]
	q := fillAB(sh, a, b)
	if needFrom && !strings.Contains(q, " FROM tall") {
		if strings.Contains(q, " FROM ") { // shapes with their own FROM take literal operands only
			q = fillAB(sh, g.decorate(rnd, class{SQL: pick(rnd, collateLits)}), g.decorate(rnd, class{SQL: pick(rnd, collateLits)}))
		} else {
			q += " FROM tall"
		}
	}
	return genCase{Key: "random-shape", Stmts: []string{q}}
}
