package main

import (
	"math/rand"
	"strings"

	"verif/harness/core"
)

// Generator 2: grammar-valid statements (the statement shapes of C02/C05/C13/C21–C24) whose operand
// holes are filled with type-hostile operands.
//
// Holes:  {E} hostile expression without column references     {X} hostile expression, may be a tall column
//         {C} column of tall   {TC} column of t   {N} hostile count / offset / frame bound
//         {T} column type      {CT} CAST target type           {AGG} aggregate / window function name
//         {OP} binary operator {CMP} comparison operator        {FR} window frame clause

type tmpl struct {
	name  string
	stmts []string
}

var colTall = []string{"id", "c_ti", "c_tu", "c_si", "c_i", "c_iu", "c_bi", "c_bu", "c_dec", "c_dec65", "c_f", "c_d", "c_bit", "c_bool", "c_c", "c_vc", "c_vcci", "c_vcl1", "c_vcbin", "c_txt",
	"c_bin", "c_vb", "c_blob", "c_date", "c_dt", "c_ts", "c_time", "c_year", "c_enum", "c_set", "c_json", "c_pt", "c_geom"}
var colT = []string{"id", "a", "b", "c"}
var hostileN = []string{"0", "1", "2", "3", "5", "18446744073709551615", "9223372036854775807", "9223372036854775808", "2147483648", "-1", "2.5", "'a'", "NULL", "@n", "1e3", "0x10", "(SELECT 1)", "1+1", "?"}
var colTypes = []string{"TINYINT", "TINYINT UNSIGNED", "SMALLINT", "INT", "INT UNSIGNED", "BIGINT", "BIGINT UNSIGNED", "DECIMAL(65,30)", "DECIMAL(3,3)", "DECIMAL(10,0)", "FLOAT", "DOUBLE", "BIT(64)", "BIT(1)",
	"CHAR(0)", "CHAR(255)", "VARCHAR(1)", "VARCHAR(16383)", "TEXT", "TINYTEXT", "LONGTEXT", "BINARY(1)", "VARBINARY(10)", "BLOB", "TINYBLOB", "DATE", "DATETIME(6)", "DATETIME", "TIMESTAMP", "TIMESTAMP(3)", "TIME(3)", "TIME",
	"YEAR", "ENUM('a','b')", "SET('x','y')", "JSON", "POINT", "GEOMETRY", "LINESTRING", "POLYGON", "VARCHAR(10) CHARACTER SET latin1", "VARCHAR(10) COLLATE utf8mb4_0900_ai_ci", "VARCHAR(10) CHARACTER SET utf16",
	"BOOLEAN", "INT ZEROFILL", "MEDIUMINT", "DOUBLE PRECISION", "CHAR(3) BINARY", "VARCHAR(10) CHARACTER SET binary", "DECIMAL(66,0)", "VARCHAR(0)", "VARCHAR(70000)", "BIT(65)", "DATETIME(7)", "ENUM('')", "SET('a,b')", "FLOAT(53)", "CHAR(256)"}
var castTypes = []string{"SIGNED", "UNSIGNED", "SIGNED INTEGER", "DECIMAL(65,30)", "DECIMAL(10)", "DECIMAL(1,1)", "DECIMAL", "CHAR", "CHAR(3)", "CHAR(0)", "NCHAR", "BINARY", "BINARY(2)", "BINARY(0)", "DATE", "DATETIME", "DATETIME(6)", "TIME", "TIME(6)", "YEAR",
	"JSON", "DOUBLE", "FLOAT", "REAL", "CHAR CHARACTER SET latin1", "CHAR CHARACTER SET utf16", "CHAR(3) CHARACTER SET binary", "POINT", "FLOAT(10)", "DECIMAL(65,31)", "DECIMAL(66,2)"}
var aggNames = []string{"SUM", "AVG", "MIN", "MAX", "COUNT", "BIT_AND", "BIT_OR", "BIT_XOR", "STD", "VARIANCE", "VAR_SAMP", "STDDEV_SAMP", "GROUP_CONCAT", "JSON_ARRAYAGG", "ANY_VALUE", "FIRST_VALUE", "LAST_VALUE", "FIRST", "LAST", "COUNT(DISTINCT", "SUM(DISTINCT"}
var binOps = []string{"+", "-", "*", "/", "DIV", "%", "MOD", "&", "|", "^", "<<", ">>", "AND", "OR", "XOR", "||", "&&", "->", "->>"}
var cmpOps = []string{"=", "<>", "!=", "<", "<=", ">", ">=", "<=>", "LIKE", "NOT LIKE", "REGEXP", "NOT REGEXP", "IS", "IS NOT", "SOUNDS LIKE", "MEMBER OF"}
var frameBounds = []string{"UNBOUNDED PRECEDING", "{N} PRECEDING", "CURRENT ROW", "{N} FOLLOWING", "UNBOUNDED FOLLOWING"}

var hostileTemplates = []tmpl{
	// ---- queries ----
	{"where-cmp", []string{"SELECT id, {C} FROM tall WHERE {C} {CMP} {E}"}},
	{"where-cmp-col", []string{"SELECT id FROM tall WHERE {C} {CMP} {C}"}},
	{"where-in", []string{"SELECT id FROM tall WHERE {C} IN ({E}, {E})"}},
	{"where-in1", []string{"SELECT id FROM tall WHERE {C} IN ({E})"}},
	{"where-notin", []string{"SELECT id FROM tall WHERE {C} NOT IN ({E}, {E}, NULL)"}},
	{"where-tuple-in", []string{"SELECT id FROM tall WHERE ({C}, {C}) IN (({E}, {E}), ({E}, {E}))"}},
	{"where-between", []string{"SELECT id FROM tall WHERE {C} BETWEEN {E} AND {E}"}},
	{"where-notbetween", []string{"SELECT id FROM tall WHERE {C} NOT BETWEEN {E} AND {C}"}},
	{"where-or", []string{"SELECT id FROM tall WHERE {C} < {E} OR {C} >= {E} OR {C} IS NULL"}},
	{"where-and-not", []string{"SELECT id FROM tall WHERE {C} IS NOT NULL AND NOT ({C} > {E}) AND {C} <=> {E}"}},
	{"where-like-escape", []string{"SELECT id FROM tall WHERE {C} LIKE {E} ESCAPE '|'"}},
	{"where-istrue", []string{"SELECT id FROM tall WHERE ({C} {CMP} {E}) IS NOT TRUE"}},
	{"where-t-index", []string{"SELECT id FROM t WHERE {TC} {CMP} {E}"}},
	{"where-t-in", []string{"SELECT id FROM t WHERE {TC} IN ({E}, {E})"}},
	{"where-t-range", []string{"SELECT id FROM t WHERE {TC} > {E} AND {TC} <= {E} ORDER BY {TC} DESC"}},
	{"where-t-or-index", []string{"SELECT id FROM t WHERE a = {E} OR b = {E} OR a IN ({E})"}},
	{"binop-lit", []string{"SELECT {E} {OP} {E}"}},
	{"binop-col", []string{"SELECT id, {C} {OP} {X} FROM tall"}},
	{"cmp-lit", []string{"SELECT {E} {CMP} {E}"}},
	{"unary", []string{"SELECT -{X}, ~{X}, !{X}, NOT {X}, BINARY {X}, +{X} FROM tall"}},
	{"unary-lit", []string{"SELECT - {E}, ~ {E}, ! {E}"}},
	{"cast-lit", []string{"SELECT CAST({E} AS {CT})"}},
	{"convert-lit", []string{"SELECT CONVERT({E}, {CT})"}},
	{"cast-col", []string{"SELECT id, CAST({C} AS {CT}) FROM tall"}},
	{"cast-chain", []string{"SELECT CAST(CAST({E} AS {CT}) AS {CT})"}},
	{"case", []string{"SELECT CASE {X} WHEN {E} THEN {X} WHEN {E} THEN {E} ELSE {X} END FROM tall"}},
	{"case-search", []string{"SELECT CASE WHEN {E} THEN {E} WHEN {E} {CMP} {E} THEN {E} END"}},
	{"if-coalesce", []string{"SELECT IF({X}, {X}, {E}), COALESCE({X}, {E}), NULLIF({X}, {E}), IFNULL({X}, {X}) FROM tall"}},
	{"interval-add", []string{"SELECT {X} + INTERVAL {E} {UNIT}, {X} - INTERVAL {E} {UNIT} FROM tall"}},
	{"date-add", []string{"SELECT DATE_ADD({E}, INTERVAL {E} {UNIT}), DATE_SUB({E}, INTERVAL {E} {UNIT})"}},
	{"timestampadd", []string{"SELECT TIMESTAMPADD({UNIT1}, {E}, {E}), TIMESTAMPDIFF({UNIT1}, {E}, {E})"}},
	{"extract", []string{"SELECT EXTRACT({UNIT} FROM {E})"}},
	{"substring-from", []string{"SELECT SUBSTRING({E} FROM {E} FOR {E}), SUBSTR({E} FROM {E})"}},
	{"trim-forms", []string{"SELECT TRIM(LEADING {E} FROM {E}), TRIM(BOTH {E} FROM {E}), TRIM(TRAILING FROM {E})"}},
	{"position", []string{"SELECT POSITION({E} IN {E})"}},
	{"char-using", []string{"SELECT CHAR({E}, {E} USING {CS})"}},
	{"convert-using", []string{"SELECT CONVERT({E} USING {CS})"}},
	{"group-concat", []string{"SELECT GROUP_CONCAT(DISTINCT {C} ORDER BY {C} DESC SEPARATOR {E}) FROM tall GROUP BY {C}"}},
	{"json-arrow", []string{"SELECT c_json -> {E}, c_json ->> {E} FROM tall"}},
	{"json-table", []string{"SELECT * FROM JSON_TABLE({E}, '$[*]' COLUMNS (a {T} PATH '$.a', b FOR ORDINALITY, c {T} PATH '$.c' DEFAULT '1' ON EMPTY, NESTED PATH '$.n[*]' COLUMNS (d {T} PATH '$'))) jt"}},
	{"json-table2", []string{"SELECT * FROM JSON_TABLE('[{\"a\":1,\"c\":\"x\"},{\"a\":null},{\"n\":[1,2]}]', {E} COLUMNS (a {T} PATH {E} ERROR ON ERROR)) jt"}},
	{"group-having", []string{"SELECT {C}, COUNT(*), {AGG}({C}) FROM tall GROUP BY {C} HAVING MAX({C}) > {E} ORDER BY {C} LIMIT {N} OFFSET {N}"}},
	{"group-expr", []string{"SELECT {X} AS g, {AGG}({X}) FROM tall GROUP BY g WITH ROLLUP"}},
	{"agg-noGroup", []string{"SELECT {AGG}({X}), {AGG}({X}) FROM tall WHERE {C} {CMP} {E}"}},
	{"agg-empty", []string{"SELECT {AGG}({X}) FROM tall WHERE FALSE"}},
	{"distinct-order", []string{"SELECT DISTINCT {C}, {C} FROM tall ORDER BY {C} DESC, {X}"}},
	{"order-limit", []string{"SELECT id FROM tall ORDER BY {X}, {C} LIMIT {N}"}},
	{"order-ordinal", []string{"SELECT {C}, {C} FROM tall ORDER BY {N}"}},
	{"limit-offset", []string{"SELECT id FROM t LIMIT {N}, {N}"}},
	{"window-frame", []string{"SELECT id, {AGG}({C}) OVER (PARTITION BY {C} ORDER BY {C}, id {FR}) FROM tall"}},
	{"window-frame-t", []string{"SELECT id, {AGG}(a) OVER (ORDER BY a, id {FR}) FROM t"}},
	{"window-named", []string{"SELECT id, {AGG}({C}) OVER w, ROW_NUMBER() OVER w FROM tall WINDOW w AS (PARTITION BY {C} ORDER BY {X} DESC)"}},
	{"window-lag", []string{"SELECT id, LAG({C}, {N}, {E}) OVER (ORDER BY {C}), LEAD({C}, {N}) OVER (ORDER BY id), NTILE({N}) OVER (ORDER BY id) FROM tall"}},
	{"window-rank", []string{"SELECT id, RANK() OVER (ORDER BY {X}), DENSE_RANK() OVER (PARTITION BY {X} ORDER BY {C}), PERCENT_RANK() OVER (ORDER BY {C}) FROM tall"}},
	{"window-value", []string{"SELECT id, FIRST_VALUE({X}) OVER (ORDER BY {C} {FR}), LAST_VALUE({X}) OVER (ORDER BY {C} {FR}) FROM tall"}},
	{"join-on", []string{"SELECT t.id, tall.id FROM t JOIN tall ON t.{TC} = tall.{C}"}},
	{"join-left", []string{"SELECT t.id, tall.{C} FROM t LEFT JOIN tall ON t.{TC} {CMP} tall.{C} AND tall.{C} {CMP} {E} WHERE tall.id IS NULL OR t.a > {E}"}},
	{"join-three", []string{"SELECT COUNT(*) FROM t JOIN u ON u.tid = t.id RIGHT JOIN tall ON tall.{C} = t.{TC} WHERE u.v {CMP} {E}"}},
	{"join-using", []string{"SELECT * FROM t JOIN u USING (id) NATURAL JOIN v WHERE t.a {CMP} {E}"}},
	{"join-lateral", []string{"SELECT t.id, x.m FROM t, LATERAL (SELECT MAX({C}) AS m FROM tall WHERE tall.{C} {CMP} t.{TC}) x"}},
	{"join-full", []string{"SELECT * FROM t FULL OUTER JOIN u ON t.id = u.tid AND t.{TC} {CMP} {E}"}},
	{"subq-scalar", []string{"SELECT id FROM tall WHERE {C} = (SELECT {C} FROM tall ORDER BY id LIMIT 1)"}},
	{"subq-scalar-many", []string{"SELECT id, (SELECT {C} FROM tall) FROM t"}},
	{"subq-in", []string{"SELECT id FROM tall WHERE {C} IN (SELECT {C} FROM tall WHERE {C} {CMP} {E})"}},
	{"subq-notin", []string{"SELECT id FROM t WHERE {TC} NOT IN (SELECT {C} FROM tall)"}},
	{"subq-exists", []string{"SELECT id FROM t WHERE EXISTS (SELECT 1 FROM tall WHERE tall.{C} {CMP} t.{TC}) AND NOT EXISTS (SELECT {E})"}},
	{"subq-any", []string{"SELECT id FROM t WHERE {TC} > ANY (SELECT {C} FROM tall) OR {TC} <= ALL (SELECT {C} FROM tall)"}},
	{"subq-from", []string{"SELECT * FROM (SELECT {C} AS a, {X} AS b FROM tall) s WHERE a {CMP} {E} ORDER BY b"}},
	{"subq-select-corr", []string{"SELECT id, (SELECT COUNT(*) FROM tall WHERE tall.{C} {CMP} t.{TC}) FROM t"}},
	{"setop-union", []string{"SELECT {C} FROM tall UNION SELECT {E} UNION ALL SELECT {C} FROM tall ORDER BY 1 LIMIT {N}"}},
	{"setop-intersect", []string{"SELECT {C} FROM tall INTERSECT SELECT {C} FROM tall EXCEPT SELECT {E}"}},
	{"setop-types", []string{"SELECT {E}, {E} UNION SELECT {E}, {E} UNION SELECT {C}, {C} FROM tall"}},
	{"cte", []string{"WITH c AS (SELECT {C} AS x, {X} AS y FROM tall) SELECT * FROM c c1 JOIN c c2 ON c1.x {CMP} c2.y"}},
	{"cte-recursive", []string{"WITH RECURSIVE c (n, s) AS (SELECT 1, {E} UNION ALL SELECT n + 1, CONCAT(s, {E}) FROM c WHERE n < 4) SELECT * FROM c"}},
	{"cte-recursive-seed", []string{"WITH RECURSIVE c (n) AS (SELECT {E} UNION ALL SELECT n + 1 FROM c WHERE n < 3) SELECT COUNT(*) FROM c"}},
	{"values-row", []string{"VALUES ROW({E}, {E}), ROW({E}, {E})"}},
	{"values-table", []string{"SELECT * FROM (VALUES ROW({E}, {E}), ROW({E}, {E})) v (a, b) ORDER BY a"}},
	{"match-against", []string{"SELECT id, MATCH(doc, title) AGAINST ({E}) FROM ft WHERE MATCH(doc, title) AGAINST ({E})"}},
	{"match-modes", []string{"SELECT id FROM ft WHERE MATCH(doc, title) AGAINST ({E} IN BOOLEAN MODE) OR MATCH(doc) AGAINST ({E} WITH QUERY EXPANSION)"}},
	{"spatial-filter", []string{"SELECT id FROM geo WHERE ST_Intersects(g, {E}) OR ST_Within({E}, g)"}},
	{"spatial-tall", []string{"SELECT id, ST_AsText(c_geom), ST_Distance(c_pt, {E}), ST_Contains(c_geom, {E}) FROM tall"}},
	{"explain", []string{"EXPLAIN SELECT id FROM tall WHERE {C} {CMP} {E}"}},
	{"explain-plan", []string{"EXPLAIN PLAN SELECT t.id FROM t JOIN tall ON t.{TC} = tall.{C} WHERE tall.{C} IN ({E}, {E})"}},
	{"explain-analyze", []string{"EXPLAIN ANALYZE SELECT {AGG}({C}) FROM tall GROUP BY {C}"}},
	{"explain-format", []string{"EXPLAIN FORMAT=TREE SELECT * FROM v WHERE a {CMP} {E}"}},
	{"describe", []string{"DESCRIBE tall", "SHOW FULL COLUMNS FROM tall LIKE {E}", "SHOW INDEX FROM tall WHERE Key_name {CMP} {E}"}},
	{"show-like", []string{"SHOW VARIABLES LIKE {E}", "SHOW TABLES LIKE {E}", "SHOW STATUS LIKE {E}", "SHOW DATABASES LIKE {E}", "SHOW COLLATION WHERE Charset = {E}"}},
	{"show-misc", []string{"SHOW CREATE TABLE tall", "SHOW CREATE VIEW v", "SHOW CREATE PROCEDURE p1", "SHOW TRIGGERS", "SHOW TABLE STATUS", "SHOW PROCESSLIST", "SHOW PROCEDURE STATUS", "SHOW CHARSET", "SHOW WARNINGS", "SHOW ENGINES", "SHOW GRANTS", "SHOW EVENTS", "SHOW PLUGINS", "SHOW CREATE TRIGGER trg_t_ai", "SHOW FULL TABLES", "SHOW CREATE DATABASE d"}},
	{"info-schema", []string{"SELECT table_name, column_name, data_type, column_default FROM information_schema.columns WHERE table_schema = 'd' AND column_name {CMP} {E} ORDER BY 1, 2"}},
	{"info-schema-misc", []string{"SELECT * FROM information_schema.{IS} LIMIT 50"}},
	{"info-schema-filter", []string{"SELECT COUNT(*) FROM information_schema.{IS} WHERE {E} {CMP} {E}"}},
	{"select-into-var", []string{"SELECT {E}, {E} INTO @v1, @v2", "SELECT @v1, @v2, @v1 {OP} @v2"}},
	{"set-uservar", []string{"SET @a = {E}, @b := {E}", "SELECT @a {OP} @b, @a {CMP} @b, @c := @a", "SELECT id FROM tall WHERE {C} {CMP} @a"}},
	{"prepare", []string{"PREPARE s FROM 'SELECT ? {OP} {C}, id FROM tall WHERE {C} {CMP} ?'", "SET @a = {E}, @b = {E}", "EXECUTE s USING @a, @b", "EXECUTE s USING @b", "DEALLOCATE PREPARE s", "EXECUTE s USING @a, @b"}},
	{"prepare-limit", []string{"PREPARE s FROM 'SELECT id FROM tall ORDER BY id LIMIT ? OFFSET ?'", "SET @a = {N}, @b = {E}", "EXECUTE s USING @a, @b"}},
	{"prepare-dml", []string{"PREPARE s FROM 'INSERT INTO t VALUES (?, ?, ?, ?)'", "SET @a = {E}, @b = {E}", "EXECUTE s USING @a, @b, @b, @a", "EXECUTE s USING @a, @b, @b, @a"}},
	{"set-session", []string{"SET {SV} = {E}", "SELECT @@{SV}", "SELECT {C} FROM tall ORDER BY 1 LIMIT 3", "INSERT INTO t VALUES (60, {E}, {E}, {E})"}},
	{"set-names", []string{"SET NAMES {CS}", "SELECT {E}, {C} FROM tall", "SET CHARACTER SET {CS}", "SELECT {C} FROM tall WHERE {C} = {E}"}},
	{"use-db", []string{"USE information_schema", "SELECT * FROM tall", "SELECT COUNT(*) FROM tables", "USE nosuchdb", "USE d", "SELECT COUNT(*) FROM tall"}},
	// ---- DML ----
	{"insert-col", []string{"INSERT INTO tall (id, {C}) VALUES (100, {E})", "SELECT id, {C} FROM tall WHERE id = 100"}},
	{"insert-two", []string{"INSERT INTO tall (id, {C}, {C}) VALUES (100, {E}, {E}), (101, {E}, DEFAULT)"}},
	{"insert-select", []string{"INSERT INTO tall (id, {C}) SELECT id + 100, {E} FROM t"}},
	{"insert-select-col", []string{"INSERT INTO tall (id, {C}) SELECT id + 100, {C} FROM tall"}},
	{"insert-ignore", []string{"INSERT IGNORE INTO tall (id, {C}) VALUES (1, {E}), (200, {E})", "SHOW WARNINGS"}},
	{"insert-set", []string{"INSERT INTO t SET id = {E}, a = {E}, b = {E}"}},
	{"insert-odku", []string{"INSERT INTO t VALUES ({E}, {E}, {E}, {E}) ON DUPLICATE KEY UPDATE a = {E}, b = VALUES(b), c = c + {E}"}},
	{"insert-odku-pk", []string{"INSERT INTO t VALUES (1, {E}, {E}, {E}) ON DUPLICATE KEY UPDATE a = {E}, b = {E}", "SELECT * FROM t WHERE id = 1"}},
	{"replace", []string{"REPLACE INTO t VALUES (1, {E}, {E}, {E})", "REPLACE INTO u (id, tid, v) VALUES (2, {E}, {E})"}},
	{"insert-autoinc", []string{"INSERT INTO u (id, tid, v) VALUES ({E}, 1, 'aa')", "INSERT INTO u (tid, v) VALUES (1, 'bb')", "SELECT LAST_INSERT_ID(), MAX(id) FROM u"}},
	{"insert-fk-check", []string{"INSERT INTO u (tid, v) VALUES ({E}, {E})"}},
	{"insert-generated", []string{"INSERT INTO u (tid, v, w) VALUES (1, 'gg', {E})"}},
	{"update-col", []string{"UPDATE tall SET {C} = {E} WHERE {C} {CMP} {E}", "SELECT id, {C} FROM tall"}},
	{"update-self", []string{"UPDATE tall SET {C} = {C} {OP} {E}, {C} = {C} ORDER BY {C} LIMIT {N}"}},
	{"update-pk", []string{"UPDATE t SET id = {E} WHERE id = 1", "UPDATE t SET id = id + 1", "UPDATE t SET id = id + 1 ORDER BY id DESC"}},
	{"update-join", []string{"UPDATE t JOIN u ON u.tid = t.id SET t.a = {E}, u.v = {E} WHERE t.{TC} {CMP} {E}"}},
	{"update-subq", []string{"UPDATE t SET a = (SELECT {C} FROM tall WHERE tall.id = t.id), b = {E} WHERE id IN (SELECT tid FROM u)"}},
	{"update-ignore", []string{"UPDATE IGNORE tall SET {C} = {E}", "SHOW WARNINGS"}},
	{"delete-where", []string{"DELETE FROM tall WHERE {C} {CMP} {E}", "SELECT COUNT(*) FROM tall"}},
	{"delete-limit", []string{"DELETE FROM t WHERE {TC} {CMP} {E} ORDER BY {TC} LIMIT {N}"}},
	{"delete-join", []string{"DELETE t FROM t JOIN u ON u.tid = t.id WHERE u.v {CMP} {E}", "DELETE t, u FROM t JOIN u ON u.tid = t.id"}},
	{"delete-subq", []string{"DELETE FROM t WHERE a IN (SELECT {C} FROM tall) OR id = {E}"}},
	{"delete-cascade", []string{"DELETE FROM t WHERE id {CMP} {E}", "SELECT COUNT(*) FROM u", "SELECT COUNT(*) FROM tlog"}},
	{"truncate", []string{"TRUNCATE TABLE u", "TRUNCATE TABLE t", "INSERT INTO u (tid, v) VALUES ({E}, {E})"}},
	{"tx-readonly", []string{"START TRANSACTION READ ONLY", "INSERT INTO t VALUES (70, {E}, {E}, {E})", "SELECT COUNT(*) FROM t", "COMMIT"}},
	{"tx-readonly-update", []string{"START TRANSACTION READ ONLY", "UPDATE t SET a = {E}", "DELETE FROM t WHERE a = {E}", "ROLLBACK"}},
	{"tx-savepoint", []string{"BEGIN", "UPDATE t SET a = {E} WHERE id = 1", "SAVEPOINT s1", "DELETE FROM t WHERE {TC} {CMP} {E}", "ROLLBACK TO s1", "RELEASE SAVEPOINT s1", "RELEASE SAVEPOINT nosuch", "COMMIT", "SELECT * FROM t"}},
	{"tx-autocommit", []string{"SET autocommit = 0", "INSERT INTO t VALUES (71, {E}, {E}, {E})", "ROLLBACK", "SELECT COUNT(*) FROM t", "COMMIT", "ROLLBACK TO nosuch"}},
	{"tx-nested", []string{"START TRANSACTION", "START TRANSACTION READ WRITE", "INSERT INTO t VALUES (72, {E}, NULL, NULL)", "COMMIT AND CHAIN", "ROLLBACK AND NO CHAIN", "COMMIT"}},
	{"lock-tables", []string{"LOCK TABLES t READ, u WRITE", "INSERT INTO t VALUES (73, {E}, NULL, NULL)", "UNLOCK TABLES"}},
	// ---- DDL ----
	{"create-default", []string{"CREATE TABLE x (id INT PRIMARY KEY, c {T} DEFAULT {E})", "INSERT INTO x (id) VALUES (1)", "INSERT INTO x VALUES (2, {E})", "SELECT * FROM x", "SHOW CREATE TABLE x"}},
	{"create-default-expr", []string{"CREATE TABLE x (id INT PRIMARY KEY, c {T} DEFAULT ({E}), d {T} DEFAULT (id {OP} {E}))", "INSERT INTO x (id) VALUES (1)", "SELECT * FROM x", "SHOW CREATE TABLE x"}},
	{"create-check", []string{"CREATE TABLE x (id INT PRIMARY KEY, c {T}, CONSTRAINT ck CHECK (c {CMP} {E}))", "INSERT INTO x VALUES (1, {E})", "INSERT INTO x VALUES (2, NULL)", "UPDATE x SET c = {E}"}},
	{"create-generated", []string{"CREATE TABLE x (id INT PRIMARY KEY, b {T}, c {T} GENERATED ALWAYS AS (b {OP} {E}) STORED, d {T} AS ({E}) VIRTUAL, KEY (c))", "INSERT INTO x (id, b) VALUES (1, {E})", "SELECT * FROM x WHERE c {CMP} {E}"}},
	{"create-pk-type", []string{"CREATE TABLE x (k {T} PRIMARY KEY, v INT)", "INSERT INTO x VALUES ({E}, 1), ({E}, 2)", "SELECT * FROM x WHERE k {CMP} {E}", "SELECT * FROM x ORDER BY k"}},
	{"create-unique-type", []string{"CREATE TABLE x (id INT PRIMARY KEY, k {T}, UNIQUE KEY uk (k))", "INSERT INTO x VALUES (1, {E}), (2, {E})", "SELECT id FROM x WHERE k IN ({E}, {E})", "UPDATE x SET k = {E}"}},
	{"create-prefix-index", []string{"CREATE TABLE x (id INT PRIMARY KEY, k {T}, KEY pk (k({N})))", "INSERT INTO x VALUES (1, {E})", "SELECT id FROM x WHERE k {CMP} {E}"}},
	{"create-as-select", []string{"CREATE TABLE x AS SELECT {E} AS a, {C}, {X} AS b FROM tall", "SELECT * FROM x", "SHOW CREATE TABLE x"}},
	{"create-like", []string{"CREATE TABLE x LIKE tall", "INSERT INTO x SELECT * FROM tall", "CREATE TABLE IF NOT EXISTS x LIKE t", "CREATE TEMPORARY TABLE x (a {T})", "INSERT INTO x VALUES ({E})", "SELECT * FROM x", "DROP TEMPORARY TABLE x", "DROP TABLE x"}},
	{"create-autoinc", []string{"CREATE TABLE x (id {T} AUTO_INCREMENT PRIMARY KEY, v INT) AUTO_INCREMENT = {N}", "INSERT INTO x (v) VALUES (1), (2)", "INSERT INTO x VALUES ({E}, 3)", "INSERT INTO x (v) VALUES (4)", "SELECT * FROM x", "ALTER TABLE x AUTO_INCREMENT = {N}"}},
	{"create-fk", []string{"CREATE TABLE x (id INT PRIMARY KEY, r {T}, FOREIGN KEY (r) REFERENCES tall ({C}) ON UPDATE CASCADE ON DELETE SET NULL)", "INSERT INTO x VALUES (1, {E})", "UPDATE tall SET {C} = {E}", "DELETE FROM tall"}},
	{"create-enum-set", []string{"CREATE TABLE x (id INT PRIMARY KEY, e ENUM('a', 'b', {E}) DEFAULT {E}, s SET('x', 'y', 'z') DEFAULT {E})", "INSERT INTO x VALUES (1, {E}, {E})", "SELECT e + 0, s + 0, e, s FROM x WHERE e {CMP} {E} OR s {CMP} {E}"}},
	{"alter-modify", []string{"ALTER TABLE tall MODIFY {C} {T}", "SELECT id, {C} FROM tall", "SHOW CREATE TABLE tall"}},
	{"alter-modify-t", []string{"ALTER TABLE t MODIFY {TC} {T} NOT NULL DEFAULT {E}", "SELECT * FROM t", "INSERT INTO t (id) VALUES (80)"}},
	{"alter-change", []string{"ALTER TABLE tall CHANGE {C} newc {T} FIRST", "SELECT newc FROM tall", "ALTER TABLE tall RENAME COLUMN newc TO {C}"}},
	{"alter-add-col", []string{"ALTER TABLE tall ADD COLUMN n {T} DEFAULT {E} AFTER {C}", "SELECT id, n FROM tall", "ALTER TABLE tall DROP COLUMN n"}},
	{"alter-add-notnull", []string{"ALTER TABLE t ADD COLUMN n {T} NOT NULL", "SELECT * FROM t", "ALTER TABLE t ADD COLUMN n2 {T} NOT NULL DEFAULT {E}, ADD KEY kn (n2)", "SELECT n2 FROM t WHERE n2 {CMP} {E}"}},
	{"alter-drop-col", []string{"ALTER TABLE tall DROP COLUMN {C}", "SELECT * FROM tall", "ALTER TABLE tall DROP COLUMN {C}, DROP COLUMN {C}"}},
	{"alter-index", []string{"ALTER TABLE tall ADD INDEX ni ({C}, {C})", "SELECT id FROM tall WHERE {C} {CMP} {E}", "ALTER TABLE tall DROP INDEX ni", "ALTER TABLE tall RENAME INDEX k_i TO k_j", "ALTER TABLE tall ADD UNIQUE uu ({C})"}},
	{"alter-pk", []string{"ALTER TABLE tall DROP PRIMARY KEY", "ALTER TABLE tall ADD PRIMARY KEY ({C})", "ALTER TABLE tall ADD PRIMARY KEY (id, {C})", "SELECT id FROM tall WHERE id = {E}"}},
	{"alter-default", []string{"ALTER TABLE tall ALTER COLUMN {C} SET DEFAULT {E}", "INSERT INTO tall (id) VALUES (300)", "ALTER TABLE tall ALTER COLUMN {C} DROP DEFAULT", "SELECT id, {C} FROM tall WHERE id = 300"}},
	{"alter-check-fk", []string{"ALTER TABLE tall ADD CONSTRAINT ckn CHECK ({C} {CMP} {E})", "ALTER TABLE u ADD CONSTRAINT fk2 FOREIGN KEY (w) REFERENCES tall ({C})", "ALTER TABLE u DROP FOREIGN KEY fk_u", "ALTER TABLE u DROP CHECK ck_u", "ALTER TABLE u DROP CONSTRAINT nosuch"}},
	{"alter-rename", []string{"ALTER TABLE t RENAME TO t9", "SELECT * FROM v", "RENAME TABLE t9 TO t, u TO u9", "SELECT * FROM v", "INSERT INTO u9 (tid, v) VALUES ({E}, {E})"}},
	{"alter-collate", []string{"ALTER TABLE tall MODIFY c_vc VARCHAR(40) CHARACTER SET {CS}", "SELECT c_vc FROM tall WHERE c_vc {CMP} {E} ORDER BY c_vc", "ALTER TABLE tall CONVERT TO CHARACTER SET {CS}", "ALTER TABLE tall COLLATE utf8mb4_bin"}},
	{"alter-multi", []string{"ALTER TABLE tall ADD COLUMN n {T}, MODIFY {C} {T}, DROP COLUMN {C}, ADD KEY kk (n), RENAME COLUMN {C} TO zz", "SELECT * FROM tall"}},
	{"create-index", []string{"CREATE INDEX ni ON tall ({C}({N}))", "CREATE UNIQUE INDEX nu ON tall ({C}, {C} DESC)", "SELECT id FROM tall WHERE {C} {CMP} {E}", "DROP INDEX ni ON tall"}},
	{"create-fulltext", []string{"CREATE FULLTEXT INDEX fi ON tall ({C}, {C})", "SELECT id FROM tall WHERE MATCH({C}) AGAINST ({E})", "ALTER TABLE ft DROP INDEX ftk", "SELECT id FROM ft WHERE MATCH(doc, title) AGAINST ({E})", "ALTER TABLE ft ADD FULLTEXT KEY f2 (title)", "INSERT INTO ft VALUES (9, {E}, {E})", "SELECT id FROM ft WHERE MATCH(title) AGAINST ({E})"}},
	{"create-spatial", []string{"CREATE SPATIAL INDEX si ON tall ({C})", "ALTER TABLE geo MODIFY g {T}", "INSERT INTO geo VALUES (9, {E})", "SELECT id FROM geo WHERE ST_Intersects(g, {E})"}},
	{"create-view", []string{"CREATE VIEW w AS SELECT {E} AS a, {C}, {X} AS b FROM tall WHERE {C} {CMP} {E}", "SELECT * FROM w", "SELECT a {OP} b FROM w ORDER BY 1", "SHOW CREATE VIEW w", "CREATE OR REPLACE VIEW w AS SELECT * FROM w", "DROP VIEW w, v"}},
	{"view-dml", []string{"INSERT INTO v VALUES ({E}, {E}, {E})", "UPDATE v SET a = {E}", "DELETE FROM v WHERE a {CMP} {E}", "ALTER TABLE t DROP COLUMN a", "SELECT * FROM v"}},
	{"create-trigger", []string{"CREATE TRIGGER trg BEFORE INSERT ON t FOR EACH ROW SET NEW.a = {E}, NEW.b = NEW.a {OP} {E}", "INSERT INTO t VALUES (50, 1, 'x', 1)", "SELECT * FROM t WHERE id = 50"}},
	{"create-trigger-upd", []string{"CREATE TRIGGER trg AFTER UPDATE ON t FOR EACH ROW INSERT INTO tlog (msg) VALUES (CONCAT(OLD.{TC}, {E}, NEW.{TC}))", "UPDATE t SET a = {E} WHERE id {CMP} {E}", "SELECT * FROM tlog"}},
	{"create-trigger-del", []string{"CREATE TRIGGER trg BEFORE DELETE ON t FOR EACH ROW BEGIN IF OLD.a {CMP} {E} THEN SIGNAL SQLSTATE '45000' SET MESSAGE_TEXT = 'no'; END IF; UPDATE u SET v = {E} WHERE tid = OLD.id; END", "DELETE FROM t WHERE id {CMP} {E}", "SELECT * FROM u"}},
	{"trigger-order", []string{"CREATE TRIGGER trg2 AFTER INSERT ON t FOR EACH ROW FOLLOWS trg_t_ai INSERT INTO tlog (msg) VALUES ({E})", "CREATE TRIGGER trg3 AFTER INSERT ON t FOR EACH ROW PRECEDES nosuch SET @x = 1", "INSERT INTO t VALUES (51, {E}, {E}, {E})", "DROP TRIGGER trg_t_ai", "DROP TRIGGER trg_t_ai", "SHOW TRIGGERS"}},
	{"trigger-self", []string{"CREATE TRIGGER trg BEFORE INSERT ON tlog FOR EACH ROW INSERT INTO tlog (msg) VALUES ({E})", "INSERT INTO t VALUES (52, 1, 'x', 1)"}},
	{"create-proc", []string{"CREATE PROCEDURE q(x {T}) BEGIN DECLARE v {T} DEFAULT {E}; SET v = x {OP} {E}; IF v {CMP} {E} THEN SELECT v; ELSEIF v IS NULL THEN SELECT 'null'; ELSE SELECT {E}; END IF; END", "CALL q({E})", "CALL q()", "CALL q({E}, {E})", "SHOW CREATE PROCEDURE q"}},
	{"proc-inout", []string{"SET @o = {E}", "CALL p1({E}, @o)", "SELECT @o", "CALL p1(@o, {E})", "CALL p1({E}, @nosuch)"}},
	{"proc-case", []string{"CREATE PROCEDURE q(x {T}) BEGIN CASE x WHEN {E} THEN SELECT 1; WHEN {E} THEN SELECT 2; END CASE; END", "CALL q({E})", "CALL q({E})"}},
	{"proc-cursor", []string{"CREATE PROCEDURE q() BEGIN DECLARE done INT DEFAULT 0; DECLARE x {T}; DECLARE cur CURSOR FOR SELECT {C} FROM tall ORDER BY id; DECLARE CONTINUE HANDLER FOR NOT FOUND SET done = 1; OPEN cur; FETCH cur INTO x; FETCH cur INTO x; FETCH cur INTO x; FETCH cur INTO x; FETCH cur INTO x; FETCH cur INTO x; CLOSE cur; SELECT x, done; END", "CALL q()"}},
	{"proc-cursor-misuse", []string{"CREATE PROCEDURE q() BEGIN DECLARE x, y {T}; DECLARE cur CURSOR FOR SELECT {C} FROM tall; FETCH cur INTO x; OPEN cur; OPEN cur; FETCH cur INTO x, y; CLOSE cur; CLOSE cur; END", "CALL q()"}},
	{"proc-counted-loop", []string{"CREATE PROCEDURE q() BEGIN DECLARE i INT DEFAULT 0; DECLARE acc {T} DEFAULT {E}; WHILE i < 3 DO SET i = i + 1; SET acc = acc {OP} {E}; INSERT INTO tlog (msg) VALUES (acc); END WHILE; SELECT acc; END", "CALL q()", "SELECT * FROM tlog"}},
	{"proc-signal", []string{"CREATE PROCEDURE q() BEGIN DECLARE c CONDITION FOR SQLSTATE '45001'; SIGNAL c SET MESSAGE_TEXT = {E}, MYSQL_ERRNO = {N}; END", "CALL q()", "SIGNAL SQLSTATE '01000'", "SIGNAL SQLSTATE {E}"}},
	{"proc-nested-call", []string{"CREATE PROCEDURE q(n INT) BEGIN IF n > 0 AND n < 4 THEN CALL q(n - 1); END IF; SELECT n; END", "CALL q(3)", "CALL q({E})"}},
	{"proc-dml", []string{"CREATE PROCEDURE q(x {T}) BEGIN INSERT INTO t VALUES (x, x, x, x); UPDATE t SET a = x WHERE id = x; DELETE FROM t WHERE id = x; SELECT ROW_COUNT(), FOUND_ROWS(); END", "CALL q({E})", "DROP PROCEDURE q", "DROP PROCEDURE q", "CALL q(1)"}},
	{"proc-exit-notfound", []string{"CREATE PROCEDURE q() BEGIN DECLARE x {T}; DECLARE EXIT HANDLER FOR NOT FOUND SELECT 'nf'; SELECT {C} INTO x FROM tall WHERE id = {E}; SELECT x; END", "CALL q()"}},
	{"create-event", []string{"CREATE EVENT ev ON SCHEDULE EVERY {N} DAY DO INSERT INTO tlog (msg) VALUES ({E})", "SHOW EVENTS", "ALTER EVENT ev DISABLE", "DROP EVENT ev", "DROP EVENT IF EXISTS ev"}},
	{"users", []string{"CREATE USER {E}@{E} IDENTIFIED BY {E}", "CREATE USER 'uu'@'%'", "GRANT SELECT ON d.* TO 'uu'@'%'", "GRANT {E} ON *.* TO 'uu'@'%'", "SHOW GRANTS FOR 'uu'@'%'", "REVOKE ALL ON *.* FROM 'uu'@'%'", "DROP USER 'uu'@'%', 'nosuch'@'%'", "CREATE ROLE r1", "GRANT r1 TO 'uu'@'%'"}},
	{"analyze", []string{"ANALYZE TABLE tall", "ANALYZE TABLE tall UPDATE HISTOGRAM ON {C}, {C} WITH {N} BUCKETS", "SELECT id FROM tall WHERE {C} {CMP} {E}", "ANALYZE TABLE tall DROP HISTOGRAM ON {C}", "ANALYZE TABLE nosuch"}},
	{"drop-things", []string{"DROP TABLE t", "SELECT * FROM v", "SELECT * FROM u", "INSERT INTO u (tid, v) VALUES (1, 'q')", "DROP TABLE IF EXISTS t, u, tall, nosuch", "DROP DATABASE d", "SELECT 1", "CREATE TABLE x (a INT)", "CREATE DATABASE d", "USE d", "CREATE TABLE x (a {T})", "INSERT INTO x VALUES ({E})"}},
	{"create-db", []string{"CREATE DATABASE nd CHARACTER SET {CS}", "CREATE TABLE nd.x (a VARCHAR(10), b {T})", "INSERT INTO nd.x VALUES ({E}, {E})", "SELECT * FROM nd.x JOIN d.t ON d.t.b = nd.x.a", "ALTER DATABASE nd COLLATE utf8mb4_bin", "DROP DATABASE nd"}},
	{"table-stmt", []string{"TABLE t", "TABLE tall ORDER BY {C} LIMIT {N}", "SELECT * FROM t AS OF {E}", "SELECT * FROM t PARTITION (p0)", "SELECT SQL_CALC_FOUND_ROWS id FROM t LIMIT 1", "SELECT FOUND_ROWS()"}},
	{"kill", []string{"KILL QUERY {N}", "KILL CONNECTION {N}", "KILL {E}"}},
	{"misc-stmts", []string{"DO {E}, {E}", "FLUSH PRIVILEGES", "CHECKSUM TABLE t", "OPTIMIZE TABLE t", "HANDLER t OPEN", "XA START 'x'", "RESET PERSIST", "CHECK TABLE t", "SELECT 1; SELECT 2", "/* c */ SELECT 1 -- x", "SELECT 1 /*!50000 + 1 */", "", ";", "SELECT", "(((", "SELECT 'unterminated", "SELECT `unterminated", "SELECT /* unterminated", "\\", "SELECT \x00", "SELECT 1 FROM", "SELECT * FROM t WHERE", "🙂", "SELECT '\xff\xfe'"}},
}

var isTables = []string{"tables", "columns", "schemata", "statistics", "table_constraints", "key_column_usage", "referential_constraints", "check_constraints", "views", "triggers", "routines", "parameters", "events",
	"character_sets", "collations", "collation_character_set_applicability", "engines", "processlist", "user_privileges", "schema_privileges", "table_privileges", "column_statistics", "st_spatial_reference_systems",
	"st_geometry_columns", "innodb_tables", "innodb_columns", "keywords", "files", "partitions", "plugins", "optimizer_trace", "profiling", "resource_groups", "role_table_grants", "tablespaces", "view_table_usage", "nosuch"}
var sessVars = []string{"sql_mode", "time_zone", "autocommit", "sql_select_limit", "max_execution_time", "group_concat_max_len", "foreign_key_checks", "unique_checks", "character_set_results", "collation_connection",
	"lc_time_names", "div_precision_increment", "default_week_format", "transaction_isolation", "cte_max_recursion_depth", "max_sp_recursion_depth", "sql_safe_updates", "net_write_timeout", "tx_read_only", "@@session.sql_mode",
	"strict_mysql_compatibility", "lock_wait_timeout", "auto_increment_increment", "auto_increment_offset", "character_set_client", "nosuch_variable", "innodb_autoinc_lock_mode", "block_encryption_mode", "explicit_defaults_for_timestamp"}
var units = []string{"MICROSECOND", "SECOND", "MINUTE", "HOUR", "DAY", "WEEK", "MONTH", "QUARTER", "YEAR", "SECOND_MICROSECOND", "MINUTE_MICROSECOND", "MINUTE_SECOND", "HOUR_MICROSECOND", "HOUR_SECOND", "HOUR_MINUTE", "DAY_MICROSECOND",
	"DAY_SECOND", "DAY_MINUTE", "DAY_HOUR", "YEAR_MONTH"}
var units1 = []string{"MICROSECOND", "SECOND", "MINUTE", "HOUR", "DAY", "WEEK", "MONTH", "QUARTER", "YEAR"}

type hostileGen struct {
	seed  int64
	tier  string
	n     int
	nonCo []class
}

func newHostileGen(seed int64, tier string) *hostileGen {
	g := &hostileGen{seed: seed, tier: tier, n: 3000}
	if tier == "thorough" {
		g.n = 15000
	}
	g.nonCo = mixClasses
	return g
}

func (g *hostileGen) Len() int { return g.n + len(stressStatements) }

func (g *hostileGen) Case(i int) genCase {
	if i >= g.n {
		s := stressStatements[i-g.n]
		return genCase{Key: "stress:" + s.name, Stmts: []string{s.build()}}
	}
	rnd := core.RandFor(g.seed, "C10", g.tier+"/hostile", i)
	// templates are visited round-robin so that every template gets the same share in every stream
	t := hostileTemplates[i%len(hostileTemplates)]
	out := make([]string, 0, len(t.stmts))
	// long statement lists (catalogues of independent statements) are sampled
	stmts := t.stmts
	if t.name == "misc-stmts" || t.name == "show-misc" || t.name == "show-like" {
		k := rnd.Intn(len(stmts))
		stmts = stmts[k : k+1]
	}
	// within one case a hole keeps drawing fresh operands, but the column holes of one statement list are
	// biased towards a "focus" column so that statements of the case talk about the same column
	focus := pick(rnd, colTall)
	for _, s := range stmts {
		out = append(out, g.fill(rnd, s, focus))
	}
	return genCase{Key: t.name, Stmts: out}
}

func (g *hostileGen) fill(rnd *rand.Rand, s string, focus string) string {
	var b strings.Builder
	for {
		k := strings.IndexByte(s, '{')
		if k < 0 {
			b.WriteString(s)
			break
		}
		e := strings.IndexByte(s[k:], '}')
		if e < 0 {
			b.WriteString(s)
			break
		}
		b.WriteString(s[:k])
		hole := s[k+1 : k+e]
		s = s[k+e+1:]
		switch hole {
		case "E":
			b.WriteString(pick(rnd, g.nonCo).SQL)
		case "X":
			if rnd.Intn(3) == 0 {
				b.WriteString(pick(rnd, colTall))
			} else {
				b.WriteString(pick(rnd, g.nonCo).SQL)
			}
		case "C":
			if rnd.Intn(2) == 0 {
				b.WriteString(focus)
			} else {
				b.WriteString(pick(rnd, colTall))
			}
		case "TC":
			b.WriteString(pick(rnd, colT))
		case "N":
			b.WriteString(pick(rnd, hostileN))
		case "T":
			b.WriteString(pick(rnd, colTypes))
		case "CT":
			b.WriteString(pick(rnd, castTypes))
		case "AGG":
			a := pick(rnd, aggNames)
			if strings.Contains(a, "(") { // COUNT(DISTINCT x) form: the template supplies "(x)"
				b.WriteString(strings.Split(a, "(")[0])
			} else {
				b.WriteString(a)
			}
		case "OP":
			b.WriteString(pick(rnd, binOps))
		case "CMP":
			b.WriteString(pick(rnd, cmpOps))
		case "FR":
			kind := pick(rnd, []string{"ROWS", "RANGE", "ROWS", "GROUPS"})
			lo := g.fill(rnd, pick(rnd, frameBounds), focus)
			hi := g.fill(rnd, pick(rnd, frameBounds), focus)
			if rnd.Intn(5) == 0 {
				b.WriteString(kind + " " + lo)
			} else {
				b.WriteString(kind + " BETWEEN " + lo + " AND " + hi)
			}
		case "UNIT":
			b.WriteString(pick(rnd, units))
		case "UNIT1":
			b.WriteString(pick(rnd, units1))
		case "CS":
			if rnd.Intn(8) == 0 {
				b.WriteString(pick(rnd, charsets))
			} else {
				b.WriteString(pick(rnd, implCS))
			}
		case "IS":
			b.WriteString(pick(rnd, isTables))
		case "SV":
			b.WriteString(pick(rnd, sessVars))
		default:
			b.WriteString("{" + hole + "}")
		}
	}
	return b.String()
}

// Structural stress statements (fixed list, every stream): nesting depth, list length, width.
type stress struct {
	name  string
	build func() string
}

var stressStatements = []stress{
	{"paren-depth-200", func() string { return "SELECT " + strings.Repeat("(", 200) + "1" + strings.Repeat(")", 200) }},
	{"paren-depth-3000", func() string { return "SELECT " + strings.Repeat("(", 3000) + "1" + strings.Repeat(")", 3000) }},
	{"not-chain-2000", func() string { return "SELECT " + strings.Repeat("NOT ", 2000) + "1" }},
	{"minus-chain-2000", func() string { return "SELECT " + strings.Repeat("- ", 2000) + "1" }},
	{"plus-chain-5000", func() string { return "SELECT 1" + strings.Repeat(" + 1", 5000) }},
	{"and-chain-3000", func() string { return "SELECT id FROM t WHERE a = 1" + strings.Repeat(" AND a = 1", 3000) }},
	{"or-chain-3000", func() string { return "SELECT id FROM t WHERE a = 0" + strings.Repeat(" OR a = 1", 3000) }},
	{"in-list-20000", func() string { return "SELECT id FROM t WHERE a IN (0" + strings.Repeat(", 1", 20000) + ")" }},
	{"concat-nest-500", func() string { return "SELECT " + strings.Repeat("CONCAT('a', ", 500) + "'b'" + strings.Repeat(")", 500) }},
	{"subquery-nest-60", func() string {
		return "SELECT " + strings.Repeat("(SELECT ", 60) + "1" + strings.Repeat(")", 60)
	}},
	{"derived-nest-40", func() string {
		s := "SELECT 1 AS a"
		for k := 0; k < 40; k++ {
			s = "SELECT a FROM (" + s + ") d" + strings.Repeat("x", 1)
		}
		return s
	}},
	{"union-300", func() string { return "SELECT 1" + strings.Repeat(" UNION SELECT 1", 300) }},
	{"union-all-300", func() string { return "SELECT 1" + strings.Repeat(" UNION ALL SELECT 2", 300) }},
	{"wide-select-3000", func() string { return "SELECT 1" + strings.Repeat(", 1", 3000) }},
	{"join-7", func() string {
		s := "SELECT COUNT(*) FROM t t0"
		for k := 1; k < 7; k++ {
			s += " JOIN t t" + string(rune('a'+k)) + " ON t" + string(rune('a'+k)) + ".id = t0.id"
		}
		return s
	}},
	{"case-when-2000", func() string { return "SELECT CASE 5" + strings.Repeat(" WHEN 1 THEN 2", 2000) + " END" }},
	{"long-literal-1MB", func() string { return "SELECT LENGTH('" + strings.Repeat("a", 1<<20) + "')" }},
	{"long-identifier", func() string { return "SELECT 1 AS `" + strings.Repeat("i", 5000) + "`" }},
	{"many-values-5000", func() string { return "INSERT INTO tlog (msg) VALUES ('a')" + strings.Repeat(", ('a')", 5000) }},
	{"many-columns-table", func() string {
		var b strings.Builder
		b.WriteString("CREATE TABLE wide (c0 INT")
		for k := 1; k < 1500; k++ {
			b.WriteString(", c" + itoa(k) + " INT")
		}
		b.WriteString(")")
		return b.String()
	}},
	{"json-depth-5000", func() string { return "SELECT JSON_DEPTH('" + strings.Repeat("[", 5000) + strings.Repeat("]", 5000) + "')" }},
	{"wkt-many-points", func() string {
		return "SELECT ST_NumPoints(ST_GeomFromText('LINESTRING(0 0" + strings.Repeat(",1 1", 20000) + ")'))"
	}},
	{"regexp-nested-quantifier", func() string { return "SELECT REGEXP_LIKE('" + strings.Repeat("a", 16) + "b', '(a+)+$')" }},
	{"comment-nest", func() string { return "SELECT 1 " + strings.Repeat("/* ", 500) + strings.Repeat("*/ ", 500) }},
	{"interval-chain-1000", func() string { return "SELECT '2020-01-01'" + strings.Repeat(" + INTERVAL 1 DAY", 1000) }},
	{"between-chain-500", func() string { return "SELECT 1" + strings.Repeat(" BETWEEN 0 AND 1", 500) }},
	{"cte-chain-100", func() string {
		s := "WITH c0 AS (SELECT 1 AS a)"
		for k := 1; k < 100; k++ {
			s += ", c" + itoa(k) + " AS (SELECT a FROM c" + itoa(k-1) + ")"
		}
		return s + " SELECT * FROM c99"
	}},
}

func itoa(k int) string {
	if k == 0 {
		return "0"
	}
	var d []byte
	for k > 0 {
		d = append([]byte{byte('0' + k%10)}, d...)
		k /= 10
	}
	return string(d)
}
