package main

import (
	"math/rand"

	"verif/harness/core"
	"verif/harness/g12lib"
)

// Generator 3: token-level mutations (delete / duplicate / swap / replace / insert tokens, splice two
// statements) of a corpus of valid statements over the fixture.

var corpus = []string{
	"SELECT id, a, b FROM t WHERE a = 2 AND b LIKE 't%' ORDER BY id DESC LIMIT 3 OFFSET 1",
	"SELECT a, COUNT(*) AS n, SUM(c), MAX(b) FROM t GROUP BY a HAVING COUNT(*) > 0 ORDER BY n DESC, a",
	"SELECT t.id, u.v FROM t LEFT JOIN u ON u.tid = t.id WHERE u.v IS NOT NULL OR t.a IN (1, 2, 5)",
	"SELECT t.id FROM t WHERE EXISTS (SELECT 1 FROM u WHERE u.tid = t.id) AND t.a NOT IN (SELECT tid FROM u WHERE tid IS NOT NULL)",
	"SELECT id, a, SUM(a) OVER (PARTITION BY b ORDER BY id ROWS BETWEEN 1 PRECEDING AND 1 FOLLOWING) AS s, ROW_NUMBER() OVER (ORDER BY a DESC, id) FROM t",
	"SELECT id, LAG(a, 1, 0) OVER w, RANK() OVER w FROM t WINDOW w AS (ORDER BY a)",
	"WITH c AS (SELECT a, COUNT(*) AS n FROM t GROUP BY a) SELECT c.a, c.n, t.b FROM c JOIN t ON t.a = c.a WHERE c.n >= 1",
	"WITH RECURSIVE r (n) AS (SELECT 1 UNION ALL SELECT n + 1 FROM r WHERE n < 5) SELECT n, n * n FROM r",
	"SELECT a FROM t UNION SELECT tid FROM u UNION ALL SELECT 7 ORDER BY 1 LIMIT 10",
	"SELECT a FROM t INTERSECT SELECT tid FROM u EXCEPT SELECT 2",
	"SELECT DISTINCT a, b FROM t WHERE a BETWEEN 1 AND 5 AND b <> 'x' AND c IS NOT NULL",
	"SELECT CASE WHEN a > 1 THEN 'big' WHEN a IS NULL THEN 'null' ELSE 'small' END AS k, COALESCE(b, 'none'), IF(c > 2, c, -c) FROM t",
	"SELECT CAST(a AS CHAR), CAST(b AS UNSIGNED), CONVERT(c, SIGNED), CAST('2020-01-01' AS DATE), CAST(c AS DECIMAL(10, 3)) FROM t",
	"SELECT CONCAT(b, '-', a), UPPER(b), SUBSTRING(b, 1, 2), LENGTH(b), REPLACE(b, 'o', '0'), LPAD(b, 6, '*'), TRIM(BOTH 'x' FROM b) FROM t WHERE b IS NOT NULL",
	"SELECT DATE_ADD(c_date, INTERVAL 1 MONTH), DATEDIFF(c_dt, c_date), DATE_FORMAT(c_dt, '%Y-%m-%d %H:%i'), EXTRACT(YEAR FROM c_dt), c_time + INTERVAL 1 HOUR FROM tall",
	"SELECT c_json -> '$.a', JSON_EXTRACT(c_json, '$.a[0]'), JSON_LENGTH(c_json), JSON_SET(c_json, '$.z', 1), JSON_UNQUOTE(c_json ->> '$.c') FROM tall WHERE c_json IS NOT NULL",
	"SELECT jt.* FROM JSON_TABLE('[{\"a\": 1, \"b\": \"x\"}, {\"a\": 2}]', '$[*]' COLUMNS (a INT PATH '$.a', b VARCHAR(10) PATH '$.b' DEFAULT '\"d\"' ON EMPTY)) AS jt",
	"SELECT ST_AsText(c_geom), ST_X(c_pt), ST_Distance(c_pt, POINT(0, 0)), ST_Contains(c_geom, c_pt) FROM tall WHERE c_geom IS NOT NULL",
	"SELECT id FROM geo WHERE ST_Intersects(g, ST_GeomFromText('POLYGON((0 0,0 2,2 2,2 0,0 0))'))",
	"SELECT id, MATCH(doc, title) AGAINST ('quick dog') AS score FROM ft WHERE MATCH(doc, title) AGAINST ('quick dog') ORDER BY score DESC",
	"SELECT c_vc, c_vcci FROM tall WHERE c_vcci = 'abc' COLLATE utf8mb4_0900_ai_ci ORDER BY c_vc COLLATE utf8mb4_bin",
	"SELECT c_bi + c_bu, c_dec * c_dec65, c_d / c_f, c_i DIV 7, c_bu % 5, -c_bi, c_ti << 3, c_bit & 7 FROM tall WHERE c_i IS NOT NULL",
	"SELECT id FROM tall WHERE c_date > '2000-01-01' AND c_dt <= '9999-12-31 23:59:59' AND c_year IN (2020, 2155) AND c_enum = 'b' AND FIND_IN_SET('y', c_set) > 0",
	"SELECT * FROM v WHERE a > 1 ORDER BY id",
	"SELECT x.a, (SELECT MAX(id) FROM u WHERE u.tid = x.id) AS m FROM (SELECT id, a FROM t WHERE a IS NOT NULL) AS x ORDER BY x.a, x.id",
	"SELECT t1.id, t2.id FROM t t1 CROSS JOIN t t2 WHERE t1.a < t2.a AND t1.id <> t2.id ORDER BY 1, 2",
	"SELECT t.id, s.m FROM t, LATERAL (SELECT MAX(u.id) AS m FROM u WHERE u.tid = t.id) s",
	"SELECT table_name, column_name FROM information_schema.columns WHERE table_schema = 'd' AND table_name = 't' ORDER BY ordinal_position",
	"VALUES ROW(1, 'a'), ROW(2, 'b')",
	"SELECT @x := 5, @x + 1, @y",
	"SET @a = 3, @b = 'text'",
	"SET SESSION sql_mode = 'STRICT_TRANS_TABLES,NO_ENGINE_SUBSTITUTION'",
	"SET NAMES utf8mb4 COLLATE utf8mb4_0900_ai_ci",
	"PREPARE s FROM 'SELECT id FROM t WHERE a = ? AND b = ?'",
	"EXPLAIN SELECT t.id FROM t JOIN u ON u.tid = t.id WHERE t.a = 2",
	"EXPLAIN PLAN SELECT a, COUNT(*) FROM t GROUP BY a",
	"SHOW CREATE TABLE u",
	"SHOW FULL COLUMNS FROM tall LIKE 'c_v%'",
	"SHOW INDEX FROM t",
	"SHOW VARIABLES LIKE 'sql_mode'",
	"SHOW TABLES FROM d WHERE Tables_in_d LIKE 't%'",
	"DESCRIBE t",
	"INSERT INTO t (id, a, b, c) VALUES (10, 10, 'ten', 10.10), (11, NULL, DEFAULT, 0)",
	"INSERT INTO t VALUES (1, 9, 'dup', 9.99) ON DUPLICATE KEY UPDATE a = VALUES(a) + t.a, b = CONCAT(b, '!')",
	"INSERT INTO u (tid, v) SELECT id, CONCAT('v', id) FROM t WHERE a IS NOT NULL",
	"INSERT IGNORE INTO u (tid, v) VALUES (99, 'x'), (1, 'new')",
	"REPLACE INTO t (id, a, b, c) VALUES (2, 22, 'repl', 2.22)",
	"UPDATE t SET a = a + 1, b = UPPER(b) WHERE id IN (1, 2) ORDER BY id DESC LIMIT 1",
	"UPDATE t JOIN u ON u.tid = t.id SET t.c = t.c * 2, u.v = CONCAT(u.v, '_') WHERE u.id > 1",
	"UPDATE tall SET c_json = JSON_SET(c_json, '$.k', c_i), c_dt = c_dt + INTERVAL 1 DAY, c_vc = NULL WHERE id = 4",
	"DELETE FROM t WHERE a = 2 ORDER BY id LIMIT 1",
	"DELETE u FROM u JOIN t ON t.id = u.tid WHERE t.a = 1",
	"DELETE FROM t WHERE id NOT IN (SELECT tid FROM u WHERE tid IS NOT NULL)",
	"TRUNCATE TABLE tlog",
	"CREATE TABLE n1 (id INT PRIMARY KEY AUTO_INCREMENT, s VARCHAR(30) NOT NULL DEFAULT 'x' COLLATE utf8mb4_bin, d DECIMAL(8, 3) DEFAULT 1.5, e ENUM('p', 'q') DEFAULT 'p', j JSON, ts TIMESTAMP DEFAULT CURRENT_TIMESTAMP, UNIQUE KEY us (s), KEY kd (d, e), CONSTRAINT c1 CHECK (d >= 0), CONSTRAINT f1 FOREIGN KEY (id) REFERENCES t (id))",
	"CREATE TABLE n2 (a INT, b INT GENERATED ALWAYS AS (a * 2) STORED, c VARCHAR(10) AS (CONCAT('v', a)) VIRTUAL, PRIMARY KEY (a, b)) CHARACTER SET latin1 COLLATE latin1_general_ci COMMENT 'cmt'",
	"CREATE TABLE n3 AS SELECT id, a, b FROM t WHERE a > 1",
	"CREATE TEMPORARY TABLE n4 LIKE t",
	"ALTER TABLE t ADD COLUMN d2 BIGINT UNSIGNED NOT NULL DEFAULT 7 AFTER a, ADD INDEX kd2 (d2), DROP COLUMN c",
	"ALTER TABLE t MODIFY COLUMN b VARCHAR(5) NOT NULL DEFAULT 'z', ALTER COLUMN a SET DEFAULT 9",
	"ALTER TABLE t CHANGE COLUMN b bb TEXT, RENAME COLUMN a TO aa, RENAME TO t2",
	"ALTER TABLE u DROP FOREIGN KEY fk_u, DROP CHECK ck_u, DROP INDEX uv, ADD PRIMARY KEY (id, tid)",
	"ALTER TABLE tall DROP PRIMARY KEY, ADD UNIQUE KEY (c_vc(5)), ADD FULLTEXT KEY (c_txt), AUTO_INCREMENT = 100",
	"CREATE UNIQUE INDEX ix ON t (b(3) DESC, a) COMMENT 'c'",
	"DROP INDEX ka ON t",
	"CREATE OR REPLACE VIEW v2 (x, y) AS SELECT a, COUNT(*) FROM t GROUP BY a WITH CHECK OPTION",
	"CREATE TRIGGER tr1 BEFORE UPDATE ON u FOR EACH ROW BEGIN IF NEW.tid IS NULL THEN SET NEW.v = CONCAT(OLD.v, '?'); END IF; INSERT INTO tlog (msg) VALUES (NEW.v); END",
	"CREATE TRIGGER tr2 AFTER DELETE ON t FOR EACH ROW FOLLOWS trg_t_ai DELETE FROM tlog WHERE msg = CONCAT('ins ', OLD.id)",
	"CREATE PROCEDURE p3 (IN n INT, INOUT acc VARCHAR(50)) BEGIN DECLARE k INT DEFAULT 0; DECLARE cur CURSOR FOR SELECT b FROM t ORDER BY id; DECLARE EXIT HANDLER FOR NOT FOUND SET acc = CONCAT(acc, '.'); OPEN cur; FETCH cur INTO acc; CLOSE cur; IF n > 1 THEN SELECT acc, k; ELSE SELECT n; END IF; END",
	"CREATE PROCEDURE p4 (x INT) BEGIN CASE x WHEN 1 THEN INSERT INTO tlog (msg) VALUES ('one'); WHEN 2 THEN SELECT 'two'; ELSE BEGIN DECLARE y INT; SET y = x * 2; SELECT y; END; END CASE; END",
	"CALL p1(5, @out)",
	"CALL p2(1)",
	"DROP PROCEDURE IF EXISTS p1",
	"DROP TABLE IF EXISTS u, tlog",
	"DROP VIEW v",
	"DROP TRIGGER trg_t_bu",
	"RENAME TABLE t TO t_old, u TO u_old",
	"CREATE DATABASE IF NOT EXISTS d2 CHARACTER SET utf8mb4 COLLATE utf8mb4_bin",
	"CREATE USER 'bob'@'localhost' IDENTIFIED BY 'pw'",
	"GRANT SELECT, INSERT ON d.t TO 'root'@'localhost' WITH GRANT OPTION",
	"START TRANSACTION READ ONLY",
	"START TRANSACTION WITH CONSISTENT SNAPSHOT, READ WRITE",
	"SAVEPOINT sp1",
	"ROLLBACK TO SAVEPOINT sp1",
	"COMMIT AND NO CHAIN",
	"LOCK TABLES t WRITE, u READ",
	"ANALYZE TABLE t UPDATE HISTOGRAM ON a, b WITH 4 BUCKETS",
	"SIGNAL SQLSTATE '45000' SET MESSAGE_TEXT = 'custom', MYSQL_ERRNO = 1644",
	"SELECT id FROM t WHERE (a, b) IN ((1, 'one'), (2, 'two')) AND (a, id) > (1, 1)",
	"SELECT a, b, GROUP_CONCAT(DISTINCT b ORDER BY b DESC SEPARATOR '|'), JSON_ARRAYAGG(id), JSON_OBJECTAGG(id, b), BIT_OR(a), STD(c) FROM t GROUP BY a, b WITH ROLLUP",
	"SELECT id FROM t WHERE b REGEXP '^t.*o$' OR b RLIKE '[aeiou]{2}' OR REGEXP_REPLACE(b, 'o', 'x') = 'twx'",
	"SELECT id FROM t WHERE a = ANY (SELECT tid FROM u) AND c > ALL (SELECT -1)",
	"SELECT 0x41, X'4142', b'0101', _utf8mb4'abc', _latin1 X'E9' COLLATE latin1_general_ci, N'nat', 1e3, .5, 1., -0, TRUE, NULL, '\\n\\t\\0\\'', \"dq\"",
	"SELECT `id` AS `my id`, t.`a` FROM `d`.`t` AS `t` WHERE `t`.`b` = 'one' /* comment */ -- trailing",
	"SELECT id FROM t FORCE INDEX (ka) WHERE a > 0",
	"SELECT SQL_CALC_FOUND_ROWS id FROM t LIMIT 2",
	"SELECT * FROM t AS OF '2020-01-01'",
	"SELECT id FROM t FOR UPDATE SKIP LOCKED",
	"SELECT a FROM t GROUP BY a ORDER BY COUNT(*) DESC, MIN(b) LIMIT 2",
	"SELECT COUNT(DISTINCT a, b), SUM(DISTINCT a), AVG(c), MIN(b), MAX(c), ANY_VALUE(id) FROM t",
	"SELECT CONVERT(b USING latin1), CONVERT(b USING utf16) COLLATE utf16_bin, CHAR(65, 66 USING ascii), CHARSET(b), COLLATION(CONVERT(b USING utf32)) FROM t",
	"SELECT FIRST_VALUE(b) OVER (PARTITION BY a ORDER BY id RANGE BETWEEN UNBOUNDED PRECEDING AND CURRENT ROW), NTILE(2) OVER (ORDER BY id), PERCENT_RANK() OVER (ORDER BY c), LEAD(b) OVER (ORDER BY id) FROM t",
}

// replacement tokens that are not in the corpus (punctuation and keywords that glue differently)
var insertTokens = []string{"(", ")", ",", ".", ";", "*", "=", "-", "+", "'", "`", "\"", "NULL", "NOT", "AND", "OR", "SELECT", "FROM", "WHERE", "AS", "BY", "IN", "IS", "ON", "ALL", "DISTINCT", "DEFAULT", "VALUES", "SET",
	"INTERVAL", "OVER", "JOIN", "UNION", "LIMIT", "?", "@", "@@", ":=", "->", "::", "/*", "*/", "--", "#", "0", "-1", "18446744073709551616", "1e999", "''", "X'F'", "0x", "`a`.`b`.`c`.`d`", "t.*", "\\", "%", "COLLATE", "BINARY", "CASE", "END", "BEGIN", "EXISTS", "BETWEEN", "LIKE", "ROW", "WITH", "RECURSIVE", "PARTITION", "UNBOUNDED", "PRECEDING", "CURRENT", "USING", "CHARACTER", "INTO", "TABLE", "INDEX", "KEY", "PRIMARY", "IF", "THEN", "ELSE", "DECLARE", "CURSOR", "HANDLER", "FOR", "CALL", "TRIGGER", "EACH", "NEW", "OLD"}

var mutOps = []string{"delete", "duplicate", "swap", "replace-from-corpus", "insert-token", "splice", "replace-literal", "delete-range", "transplant-range"}

type mutateGen struct {
	seed int64
	tier string
	n    int
	toks [][]string
}

func newMutateGen(seed int64, tier string) *mutateGen {
	g := &mutateGen{seed: seed, tier: tier, n: 6000}
	if tier == "thorough" {
		g.n = 40000
	}
	for _, s := range corpus {
		g.toks = append(g.toks, g12lib.Tokens(s))
	}
	return g
}

func (g *mutateGen) Len() int { return g.n + len(corpus) }

func isLiteralTok(t string) bool {
	if t == "" {
		return false
	}
	c := t[0]
	return c == '\'' || c == '"' || (c >= '0' && c <= '9')
}

func (g *mutateGen) Case(i int) genCase {
	if i < len(corpus) {
		return genCase{Key: "corpus-unmutated", Stmts: []string{corpus[i]}}
	}
	i -= len(corpus)
	rnd := core.RandFor(g.seed, "C10", g.tier+"/mutate", i)
	base := i % len(corpus) // every corpus statement gets the same share in every stream
	toks := append([]string{}, g.toks[base]...)
	nmut := 1 + rnd.Intn(3)
	key := ""
	for m := 0; m < nmut && len(toks) > 0; m++ {
		op := mutOps[rnd.Intn(len(mutOps))]
		if m == 0 {
			key = op
		}
		p := rnd.Intn(len(toks))
		switch op {
		case "delete":
			toks = append(toks[:p], toks[p+1:]...)
		case "duplicate":
			toks = append(toks[:p+1], toks[p:]...)
		case "swap":
			q := rnd.Intn(len(toks))
			toks[p], toks[q] = toks[q], toks[p]
		case "replace-from-corpus":
			o := g.toks[rnd.Intn(len(g.toks))]
			toks[p] = o[rnd.Intn(len(o))]
		case "insert-token":
			t := pick(rnd, insertTokens)
			toks = append(toks[:p], append([]string{t}, toks[p:]...)...)
		case "splice":
			o := g.toks[rnd.Intn(len(g.toks))]
			q := rnd.Intn(len(o))
			toks = append(append([]string{}, toks[:p]...), o[q:]...)
		case "replace-literal":
			// replace some literal token (or, when there is none, any token) by a hostile operand
			var lits []int
			for k, t := range toks {
				if isLiteralTok(t) {
					lits = append(lits, k)
				}
			}
			if len(lits) > 0 {
				p = lits[rnd.Intn(len(lits))]
			}
			toks[p] = pick(rnd, mixClasses).SQL
		case "delete-range":
			q := p + 1 + rnd.Intn(4)
			if q > len(toks) {
				q = len(toks)
			}
			toks = append(toks[:p], toks[q:]...)
		case "transplant-range":
			o := g.toks[rnd.Intn(len(g.toks))]
			a := rnd.Intn(len(o))
			b := a + 1 + rnd.Intn(6)
			if b > len(o) {
				b = len(o)
			}
			toks = append(toks[:p], append(append([]string{}, o[a:b]...), toks[p:]...)...)
		}
	}
	stmts := []string{g12lib.Join(toks)}
	// statements that need a predecessor to be meaningful get it (unmutated)
	switch g12lib.FirstWord(corpus[base]) {
	case "ROLLBACK", "SAVEPOINT", "COMMIT":
		stmts = []string{"START TRANSACTION", "SAVEPOINT sp1", stmts[0]}
	}
	return genCase{Key: key + "/" + g12lib.FirstWord(corpus[base]), Stmts: stmts}
}

var _ = rand.Int
