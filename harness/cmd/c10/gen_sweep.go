package main

import (
	"fmt"
	"math/rand"
	"sort"
	"strings"

	"github.com/dolthub/go-mysql-server/sql"
	"github.com/dolthub/go-mysql-server/sql/expression/function"

	"verif/harness/core"
)

// genCase is one unit of work: statements run in order on one fresh session.
type genCase struct {
	Key   string   // coverage key: function name / template name / mutation operator
	Stmts []string // the statements
	Skip  string   // non-empty: excluded from the domain for this reason (not executed)
}

type fnEntry struct {
	Name    string
	Arities []int
}

// registryFunctions lists every name in the function registry with the arities to try.
func registryFunctions() []fnEntry {
	var out []fnEntry
	seen := map[string]bool{}
	add := func(name string, ar []int) {
		if seen[name] {
			return
		}
		seen[name] = true
		out = append(out, fnEntry{name, ar})
	}
	for _, f := range function.BuiltIns {
		name := f.FunctionName()
		switch f.(type) {
		case sql.Function0:
			add(name, []int{0, 1})
		case sql.Function1:
			add(name, []int{1, 0, 2})
		case sql.Function2:
			add(name, []int{2, 1, 3})
		case sql.Function3:
			add(name, []int{3, 2})
		case sql.Function4:
			add(name, []int{4, 3})
		case sql.Function5:
			add(name, []int{5})
		case sql.Function6:
			add(name, []int{6})
		case sql.Function7:
			add(name, []int{7})
		case sql.FunctionN:
			add(name, []int{0, 1, 2, 3, 4})
		default:
			add(name, []int{0, 1, 2, 3})
		}
	}
	for _, n := range []string{"get_lock", "is_free_lock", "is_used_lock", "release_all_locks", "release_lock"} {
		switch n {
		case "get_lock":
			add(n, []int{2, 1})
		case "release_all_locks":
			add(n, []int{0, 1})
		default:
			add(n, []int{1, 2})
		}
	}
	sort.Slice(out, func(i, j int) bool { return out[i].Name < out[j].Name })
	return out
}

// Operands that by design block or sleep for as long as their value says are outside the domain
// (SLEEP(n), GET_LOCK(name, timeout)): for those positions only non-positive / non-numeric classes.
var nonWaiting = map[string]bool{"null": true, "zero": true, "neg1": true, "i64min": true, "s_empty": true, "s_abc": true, "s_a": true, "tuple": true,
	"sq_two": true, "star": true, "g_pt": true, "negzero": true, "neghalf": true, "i32min": true, "x_empty": true, "j_obj": true}

// Known finding (via=domain): REPEAT / SPACE / LPAD / RPAD have no max_allowed_packet bound, so a huge
// count operand makes them build gigabytes (SPACE even quadratically: it never returns). Count operands
// whose numeric value is 32767 or more are outside the generated domain; the pinned witness
// SELECT SPACE(2147483647) is replayed alone under a 10 s watchdog.
var amplifierPos = map[string]int{"repeat": 1, "space": 0, "lpad": 1, "rpad": 1}

var bigCount = map[string]bool{"i16max": true, "u16max": true, "u16over": true, "i32max": true, "i32over": true, "u32max": true, "i64max": true, "i64over": true, "u64max": true, "u64over": true,
	"dec65": true, "dec81": true, "dblmax": true, "dblover": true, "flt": true, "s_1e400": true, "s_inf": true, "d_num": true, "dt_num": true, "d_max": true, "dt_max": true, "d_over": true, "c_date": true, "c_datetime": true,
	"c_time": true, "d_lit": true, "ts_epoch": true, "t_max": true, "t_over": true, "x_long": true, "x_f0288cbc": true, "x_e282": true, "uuid_bin": true, "ip6bin": true, "g_raw": true, "g_wkb": true, "x_ff": false,
	"col_c_si": true, "col_c_i": true, "col_c_iu": true, "col_c_bi": true, "col_c_bu": true, "col_c_dec": true, "col_c_dec65": true, "col_c_f": true, "col_c_d": true, "col_c_date": true, "col_c_dt": true, "col_c_ts": true,
	"col_c_time": true, "col_c_vb": true, "col_c_blob": true, "col_c_bin": true, "col_c_year": false, "d_1000": true, "d_0001": false, "d_feb30": true, "ts_2038": true, "d_1969": true, "d_junk": true, "c_year": false,
	"j_bignum": true, "bin_abc": true, "bin_conv": true, "l1_mix": false, "castchar_fffe": true, "hexnum": false, "sysvar": false, "u8_e282": true, "s_repeat64k": false}

func classAllowed(fn string, pos int, c class) bool {
	if fn == "sleep" || (fn == "get_lock" && pos == 1) {
		return nonWaiting[c.Name]
	}
	if p, ok := amplifierPos[fn]; ok && p == pos {
		return !bigCount[c.Name]
	}
	return true
}

var pivots = [][]string{{"'abc'", "1", "NULL", "'2020-02-29'", "'$'", "2"}, {"1", "'abc'", "'$.a'", "NULL", "0", "''"}, {"NULL", "NULL", "NULL", "NULL", "NULL", "NULL"}}

// sweepBlock is one (function, arity, sub-sweep) block of consecutive case indexes.
type sweepBlock struct {
	fn    string
	ar    int
	kind  string // unary | star | pairs | triples | over | random | nullary
	count int
	start int
}

type sweepGen struct {
	blocks []sweepBlock
	total  int
	seed   int64
	tier   string
	npiv   int
	unary  []class // classes for one-argument calls
	star   []class // classes for the one-hostile-position sweep
	pairs  []class // classes for the full pair product
}

func newSweepGen(seed int64, tier string) *sweepGen {
	g := &sweepGen{seed: seed, tier: tier}
	thorough := tier == "thorough"
	nCore, nMini, nTiny := len(coreClasses), len(miniClasses), len(tinyClasses)
	// quick: one hostile position over the core classes, pairs over the ten tiny classes; thorough: one hostile
	// position over every class, pairs over the sixteen mini classes, triples over the tiny classes
	// the unary sweep covers every class in thorough and every class but the per-character-set ones of the
	// rarer character sets in quick
	g.unary, g.star, g.npiv, g.pairs = starClasses, coreClasses, 1, tinyClasses
	if thorough {
		g.unary, g.star, g.npiv, g.pairs = allClasses, starClasses, 1, miniClasses
	}
	add := func(fn string, ar int, kind string, count int) {
		if count <= 0 {
			return
		}
		g.blocks = append(g.blocks, sweepBlock{fn, ar, kind, count, g.total})
		g.total += count
	}
	for _, f := range registryFunctions() {
		nary := len(f.Arities) == 5
		for ai, ar := range f.Arities {
			primary := ai == 0 || nary // declared arity, or every arity of an N-ary function
			switch {
			case ar == 0:
				add(f.Name, 0, "nullary", 1)
			case ar == 1 && primary:
				add(f.Name, 1, "unary", len(g.unary))
			case !primary:
				// wrong arity for a fixed-arity function: a short probe is enough (argument count check)
				add(f.Name, ar, "random", 3)
			case !thorough && nary && ar == 4:
				add(f.Name, ar, "random", 12)
			default:
				add(f.Name, ar, "star", ar*len(g.star)*g.npiv)
				if ar == 2 {
					add(f.Name, ar, "pairs", len(g.pairs)*len(g.pairs))
				}
				if ar == 3 && thorough {
					add(f.Name, ar, "triples", nTiny*nTiny*nTiny)
				}
				if thorough {
					add(f.Name, ar, "random", 60)
				} else {
					add(f.Name, ar, "random", 8)
				}
			}
			if primary && (ar <= 1 || (ar == 2 && thorough)) {
				n := 1
				for k := 0; k < ar; k++ {
					n *= nMini
				}
				add(f.Name, ar, "over", n)
			}
		}
	}
	_ = nCore
	return g
}

func (g *sweepGen) Len() int { return g.total }

func (g *sweepGen) Case(i int) genCase {
	k := sort.Search(len(g.blocks), func(k int) bool { return g.blocks[k].start+g.blocks[k].count > i })
	b := g.blocks[k]
	j := i - b.start
	args := make([]class, b.ar)
	from := false
	suffix := ""
	switch b.kind {
	case "nullary":
	case "unary":
		args[0] = g.unary[j]
	case "star":
		n := len(g.star)
		pos := j / (n * g.npiv)
		rem := j % (n * g.npiv)
		c := g.star[rem/g.npiv]
		pv := pivots[rem%g.npiv]
		for p := range args {
			args[p] = class{Name: "pivot", SQL: pv[p%len(pv)]}
		}
		args[pos] = c
	case "pairs":
		set := g.pairs
		args[0], args[1] = set[j/len(set)], set[j%len(set)]
	case "triples":
		n := len(tinyClasses)
		args[0], args[1], args[2] = tinyClasses[j/(n*n)], tinyClasses[(j/n)%n], tinyClasses[j%n]
	case "over":
		n := len(miniClasses)
		jj := j
		for p := b.ar - 1; p >= 0; p-- {
			args[p] = miniClasses[jj%n]
			jj /= n
		}
		from = true
		suffix = " OVER (PARTITION BY c_bool ORDER BY id)"
		if j%2 == 1 {
			suffix = " OVER (ORDER BY c_i ROWS BETWEEN 1 PRECEDING AND CURRENT ROW)"
		}
	case "random":
		rnd := core.RandFor(g.seed, "C10", g.tier+"/sweep-random/"+b.fn+fmt.Sprint(b.ar), j)
		for p := range args {
			args[p] = allClasses[rnd.Intn(len(allClasses))]
		}
	}
	parts := make([]string, len(args))
	for p, a := range args {
		if !classAllowed(b.fn, p, a) {
			if _, amp := amplifierPos[b.fn]; amp {
				return genCase{Key: b.fn, Skip: "amplifier-count-over-32767"}
			}
			return genCase{Key: b.fn, Skip: "by-design-waiting-operand"}
		}
		parts[p] = a.SQL
		if a.Col {
			from = true
		}
	}
	q := "SELECT " + b.fn + "(" + strings.Join(parts, ", ") + ")" + suffix
	if from {
		q += " FROM tall"
	}
	return genCase{Key: b.fn, Stmts: []string{q}}
}

func pick[T any](rnd *rand.Rand, xs []T) T { return xs[rnd.Intn(len(xs))] }
