// C10 — no SQL input crashes the engine (panic / process-death / hang monitor).
//
// The supervisor (this process) re-executes itself as worker child processes. Every worker builds the
// fixture database, generates its chunk of the seeded case list, writes each statement to a journal
// before executing it, executes it under the watchdog with panics recovered, and after every error
// runs a canary query and a canary DML on the same session. A panic recovered in the statement's own
// goroutine is a violation with signature panic:<first /repo frame>:<stripped message>; a worker that
// dies (fatal error or panic in an engine-spawned goroutine) is attributed to the journaled statement
// (death:<frame>:<message>); a statement that exceeds the watchdog is re-run alone in a fresh process
// and is a hang when it exceeds the watchdog again.
package main

import (
	_ "embed"
	"encoding/json"
	"fmt"
	"os"
	"runtime"
	"sort"
	"strconv"
	"strings"
	"sync"
	"time"

	"verif/harness/core"
	"verif/harness/g12lib"
)

//go:embed pinned.json
var pinnedJSON []byte

type pinnedEntry struct {
	Sig      string   `json:"sig"`
	What     string   `json:"what"`
	Stmts    []string `json:"stmts"`
	Watchdog int      `json:"watchdog,omitempty"` // >0: hang witness, run alone under this watchdog (seconds)
}

var pinnedList []pinnedEntry

func init() {
	if err := json.Unmarshal(pinnedJSON, &pinnedList); err != nil {
		panic("pinned.json: " + err.Error())
	}
}

type pinnedGen struct{}

func (pinnedGen) Len() int { return len(pinnedList) }
func (pinnedGen) Case(i int) genCase {
	return genCase{Key: "pinned", Stmts: pinnedList[i].Stmts}
}

type hangCand struct {
	gen string
	i   int
}

func main() {
	if len(os.Args) > 1 && os.Args[1] == "probe" {
		g12lib.ProbeMain(buildFixture)
		return
	}
	if len(os.Args) > 2 && os.Args[1] == "count" {
		for _, gn := range []string{"sweep", "hostile", "mutate", "collate"} {
			g := makeGenerator(gn, 0, os.Args[2])
			fmt.Println(gn, g.Len(), "classes all/star/core/mini", len(allClasses), len(starClasses), len(coreClasses), len(miniClasses), "charsets", len(charsets), "collations", len(collations))
		}
		return
	}
	if len(os.Args) > 4 && os.Args[1] == "show" { // show <tier> <gen> <i> [seed]
		seed := int64(0)
		if len(os.Args) > 5 {
			seed, _ = strconv.ParseInt(os.Args[5], 10, 64)
		}
		g := makeGenerator(os.Args[3], seed, os.Args[2])
		i, _ := strconv.Atoi(os.Args[4])
		c := g.Case(i)
		fmt.Printf("-- key=%s skip=%s\n", c.Key, c.Skip)
		for _, q := range c.Stmts {
			fmt.Println(q)
		}
		return
	}
	if len(os.Args) > 1 && os.Args[1] == "sig" { // debugging aid: JSON array of statements on stdin -> signatures observed
		var stmts []string
		if err := json.NewDecoder(os.Stdin).Decode(&stmts); err != nil {
			fmt.Println("bad input:", err)
			os.Exit(9)
		}
		core.StmtTimeout = 20 * time.Second
		e := core.NewEng("d")
		buildFixture(e)
		s := e.NewSess()
		sigs := []string{}
		for _, q := range stmts {
			r := s.Exec(q)
			switch {
			case r.TimedOut:
				sigs = append(sigs, "hang")
				b, _ := json.Marshal(sigs)
				fmt.Println(string(b))
				os.Exit(0)
			case r.Panic != nil:
				sigs = append(sigs, panicSig(r.Panic))
			case r.Err != nil:
				var cr caseResult
				if ev := canary(s, &cr); ev != nil {
					sigs = append(sigs, ev.Sig)
				}
			}
		}
		b, _ := json.Marshal(sigs)
		fmt.Println(string(b))
		return
	}
	if ch := g12lib.ChildFromEnv(); ch != nil {
		workerMain(ch)
		return
	}
	r := core.NewRun("C10", "exploration",
		"every generated statement must return rows or an error through Engine.Query without a panic, a worker-process death or a hang (watchdog exceeded twice, the second time alone in a fresh process), and after every error SELECT 1 and a canary UPDATE succeed on the same session; distinct = (generator, function/template/mutation key, outcome class)")
	r.Fold(4, 2)
	r.Assume("domain exclusions decided on the statement text only: HANDLER FOR SQLEXCEPTION (known hang F31, replayed as pinned witness), SET GLOBAL/PERSIST (process-global state), INTO OUTFILE/LOAD DATA (file I/O), operands that wait by design (SLEEP(n>0), GET_LOCK timeouts), loop constructs inside token-mutated statements, count operands >= 32767 of REPEAT/SPACE/LPAD/RPAD (known finding hang:space-huge-count: no max_allowed_packet bound; pinned witness)")
	r.Assume("statements whose cost is exponential or unbounded by design are not generated (12-way self joins, catastrophic regular expressions, unbounded procedure recursion); the watchdog restatement of 'no hang' is 60 s exceeded twice, the second time alone in a fresh process")
	r.Assume("panic signatures name the frame that raised the panic (below the last panic() call of the recovered stack), because planbuilder.Parse and several analyzer rules recover and re-panic")
	r.Assume("the function sweep is a fixed enumeration (registry x arity x argument classes) independent of the seed; the seed selects the random argument tuples, the hostile-operand statements, the token mutations and the collation decorations")
	r.Assume("canary DML refused with error 1792 inside a read-only transaction opened by the case itself is the specified behaviour, not a violation")

	wd := 60
	if v, err := strconv.Atoi(os.Getenv("C10_WATCHDOG")); err == nil && v > 0 {
		wd = v
	}
	exe, err := os.Executable()
	if err != nil {
		exe = os.Args[0]
	}
	workers := runtime.NumCPU()
	if workers > 16 {
		workers = 16
	}
	if w := os.Getenv("VERIF_WORKERS"); w != "" {
		if v, err := strconv.Atoi(w); err == nil && v > 0 {
			workers = v
		}
	}

	var mu sync.Mutex
	var hangs []hangCand
	soloHang := map[string]event{}
	fnOK := map[string]bool{}
	pinnedSeen := map[int]map[string]event{}
	reencodeOK := 0

	pool := &g12lib.Pool{Exe: exe, Dir: r.Scratch(), Workers: workers, Watchdog: wd,
		Env: []string{"C10_SEED=" + fmt.Sprint(r.CaseSeed()), "C10_TIER=" + r.Tier}}

	if os.Getenv("C10_PROGRESS") != "" {
		pool.Progress = func(c g12lib.Chunk, code int, wall time.Duration, at g12lib.JournalEntry) {
			fmt.Fprintf(os.Stderr, "chunk %s [%d,%d) solo=%v exit=%d wall=%.1fs at=%d/%d %s\n", c.Gen, c.Lo, c.Hi, c.Solo, code, wall.Seconds(), at.Case, at.Stmt, core.Clip(at.SQL, 160))
		}
	}
	witness := func(gen string, i int, ev event) map[string]any {
		return map[string]any{"generator": gen, "case": i, "stream": r.CaseSeed(), "tier": r.Tier, "statement_index": ev.Stmt, "statement": ev.SQL, "case_statements": ev.Stmts, "observed": ev.Detail,
			"replay": "run the case statements in order on one session of a fresh engine with the fixture of cmd/c10/fixture.go (c10 probe < file)"}
	}
	pool.OnLine = func(c g12lib.Chunk, line []byte) {
		var res caseResult
		if json.Unmarshal(line, &res) != nil {
			return
		}
		mu.Lock()
		defer mu.Unlock()
		if c.Gen == "pinned" {
			m := pinnedSeen[res.I]
			if m == nil {
				m = map[string]event{}
				pinnedSeen[res.I] = m
			}
			for _, ev := range res.Ev {
				m[ev.Sig] = ev
			}
			return
		}
		for _, o := range res.O {
			if strings.HasPrefix(o, "skip:") {
				r.Count("excluded:"+o[5:], 1)
				continue
			}
			r.Count(c.Gen+".statements", 1)
			switch {
			case o == "ok":
				r.Count(c.Gen+".ok", 1)
				if c.Gen == "sweep" {
					fnOK[res.K] = true
				}
				if c.Gen == "collate" {
					reencodeOK++
				}
			case strings.HasPrefix(o, "e:"):
				r.Count(c.Gen+".error", 1)
			}
			if o != "timeout" && o != "memory" {
				r.Eval(1)
			}
			r.Distinct(c.Gen + "|" + res.K + "|" + o)
		}
		r.Count("canary.rounds", int64(res.C))
		r.Count("canary.readonly-tx-refusals", int64(res.RO))
		if res.C > 0 {
			r.Eval(res.C)
		}
		for _, ev := range res.Ev {
			switch ev.Kind {
			case "panic", "canary":
				r.Count("events."+ev.Kind, 1)
				if !c.Solo {
					mu.Unlock()
					r.Violation(ev.Sig, witness(c.Gen, res.I, ev))
					mu.Lock()
				}
			case "timeout":
				if c.Solo {
					soloHang[fmt.Sprintf("%s/%d", c.Gen, res.I)] = ev
				}
			case "memory":
				mu.Unlock()
				r.Violation(ev.Sig, witness(c.Gen, res.I, ev))
				mu.Lock()
			}
		}
		if len(res.Ev) == 0 && len(res.O) > 0 && res.O[0] == "ok" {
			mu.Unlock()
			r.Sample(map[string]any{"generator": c.Gen, "case": res.I, "key": res.K, "outcomes": res.O})
			mu.Lock()
		}
	}
	pool.OnStop = func(c g12lib.Chunk, code int, at g12lib.JournalEntry) {
		mu.Lock()
		defer mu.Unlock()
		if code == g12lib.ExitWatchdog && !c.Solo && c.Gen != "pinned" {
			hangs = append(hangs, hangCand{c.Gen, at.Case})
			r.Count("watchdog.first-pass", 1)
		}
	}
	pool.OnDeath = func(c g12lib.Chunk, d g12lib.Death) {
		sig := d.Sig(core.StripVolatile)
		if c.Gen == "pinned" {
			mu.Lock()
			m := pinnedSeen[d.At.Case]
			if m == nil {
				m = map[string]event{}
				pinnedSeen[d.At.Case] = m
			}
			m[sig] = event{Kind: "death", Sig: sig, SQL: d.At.SQL, Detail: d.Stderr}
			mu.Unlock()
			return
		}
		r.Count("worker.deaths", 1)
		r.Violation(sig, map[string]any{"generator": c.Gen, "case": d.At.Case, "stream": r.CaseSeed(), "tier": r.Tier, "statement_index": d.At.Stmt, "statement": clip(d.At.SQL),
			"kind": d.Kind, "message": d.Msg, "exit_code": d.ExitCode, "journal_valid": d.At.Valid, "stderr": d.Stderr})
	}

	// ---- the four generators ----
	type genPlan struct {
		name  string
		chunk int
	}
	total := 0
	for _, gp := range []genPlan{{"sweep", r.N(2500, 6000)}, {"hostile", r.N(400, 1500)}, {"mutate", r.N(400, 1500)}, {"collate", r.N(400, 1500)}} {
		if only := os.Getenv("C10_ONLY"); only != "" && only != gp.name {
			continue
		}
		g := makeGenerator(gp.name, r.CaseSeed(), r.Tier)
		n := g.Len()
		total += n
		r.Extra("cases."+gp.name, n)
		var chunks []g12lib.Chunk
		for lo := 0; lo < n; lo += gp.chunk {
			hi := lo + gp.chunk
			if hi > n {
				hi = n
			}
			chunks = append(chunks, g12lib.Chunk{Gen: gp.name, Lo: lo, Hi: hi})
		}
		pool.Run(chunks)
	}
	r.Extra("cases.total", total)

	// ---- hang confirmation: each candidate alone in a fresh process ----
	sort.Slice(hangs, func(a, b int) bool {
		if hangs[a].gen != hangs[b].gen {
			return hangs[a].gen < hangs[b].gen
		}
		return hangs[a].i < hangs[b].i
	})
	for _, h := range hangs {
		pool.RunSolo(g12lib.Chunk{Gen: h.gen, Lo: h.i, Hi: h.i + 1})
		key := fmt.Sprintf("%s/%d", h.gen, h.i)
		mu.Lock()
		ev, again := soloHang[key]
		mu.Unlock()
		if again {
			r.Eval(1)
			r.Violation(ev.Sig, witness(h.gen, h.i, ev))
		} else {
			r.Inconclusive("watchdog-fired-once-not-confirmed-alone")
		}
	}

	// ---- pinned witnesses of the known findings ----
	for i, p := range pinnedList {
		c := g12lib.Chunk{Gen: "pinned", Lo: i, Hi: i + 1, Watchdog: p.Watchdog}
		if p.Watchdog > 0 {
			pool.RunSolo(c)
		}
	}
	// the panic witnesses come first in pinned.json: a few per child process
	var rest []g12lib.Chunk
	nPlain := 0
	for _, p := range pinnedList {
		if p.Watchdog == 0 {
			nPlain++
		}
	}
	for lo := 0; lo < nPlain; lo += 6 {
		hi := lo + 6
		if hi > nPlain {
			hi = nPlain
		}
		rest = append(rest, g12lib.Chunk{Gen: "pinned", Lo: lo, Hi: hi})
	}
	pool.Run(rest)
	for i, p := range pinnedList {
		seen := pinnedSeen[i]
		still := false
		var sigs []string
		for s := range seen {
			sigs = append(sigs, s)
			if s == p.Sig || (p.Watchdog > 0 && strings.HasPrefix(s, "hang:")) {
				still = true
			}
		}
		sort.Strings(sigs)
		r.Eval(1)
		r.Pinned(p.Sig, p.What, still, map[string]any{"pinned": p, "observed_signatures": sigs})
		// a pinned witness that now fails differently is a different violation
		for _, s := range sigs {
			if s != p.Sig && !(p.Watchdog > 0 && strings.HasPrefix(s, "hang:")) {
				r.Violation(s, map[string]any{"pinned_witness_of": p.Sig, "statements": p.Stmts, "observed": seen[s].Detail})
			}
		}
	}

	// ---- mechanism floors ----
	r.Extra("registry.functions", len(registryFunctions()))
	r.Extra("registry.functions.evaluated-ok", len(fnOK))
	if os.Getenv("C10_ONLY") == "" {
		r.Floor(len(fnOK) >= len(registryFunctions())*8/10, fmt.Sprintf("only %d of %d registry functions ever returned a result through Engine.Query", len(fnOK), len(registryFunctions())))
		r.Floor(r.Counter("canary.rounds") > 100, "the canary query/DML ran fewer than 100 times")
		r.Floor(reencodeOK > 50, "fewer than 50 statements with COLLATE / CHARACTER SET / CONVERT USING decorations were evaluated (re-encoding path)")
		r.Floor(r.Counter("mutate.statements") > 100 && r.Counter("hostile.statements") > 100, "mutated / hostile-operand generators did not run")
	}
	r.Finish()
}
