package main

import (
	"fmt"
	"os"
	"regexp"
	"runtime"
	"strconv"
	"strings"

	"verif/harness/core"
	"verif/harness/g12lib"
)

// event is something a worker saw that the supervisor must judge.
type event struct {
	Kind   string   `json:"kind"` // panic | canary | timeout | memory
	Sig    string   `json:"sig"`
	Stmt   int      `json:"stmt"`
	SQL    string   `json:"sql"`
	Detail string   `json:"detail,omitempty"`
	Stmts  []string `json:"stmts,omitempty"`
}

// caseResult is one result line.
type caseResult struct {
	I  int      `json:"i"`
	K  string   `json:"k"`
	O  []string `json:"o"`            // outcome class per executed statement
	C  int      `json:"c,omitempty"`  // canary rounds run
	RO int      `json:"ro,omitempty"` // canary DML legitimately refused (read-only transaction)
	Ev []event  `json:"ev,omitempty"`
}

// generator is the interface of the four workloads and the pinned list.
type generator interface {
	Len() int
	Case(i int) genCase
}

func makeGenerator(name string, seed int64, tier string) generator {
	switch name {
	case "sweep":
		return newSweepGen(seed, tier)
	case "hostile":
		return newHostileGen(seed, tier)
	case "mutate":
		return newMutateGen(seed, tier)
	case "collate":
		return newCollateGen(seed, tier)
	case "pinned":
		return pinnedGen{}
	}
	panic("unknown generator " + name)
}

// Input classes outside the domain (decided on the statement text only).
var (
	reHandlerSqlexception = regexp.MustCompile(`(?i)HANDLER\s+FOR\s+SQLEXCEPTION`)
	reGlobalState         = regexp.MustCompile(`(?i)\b(GLOBAL|PERSIST|PERSIST_ONLY)\b|@@global\.`)
	reLoop                = regexp.MustCompile(`(?i)\b(WHILE|LOOP|REPEAT\s|ITERATE|UNTIL)\b`)
	reFiles               = regexp.MustCompile(`(?i)\b(OUTFILE|DUMPFILE|INFILE)\b`)
	reWait                = regexp.MustCompile(`(?i)\b(SLEEP|GET_LOCK|BENCHMARK)\s*\(`)
	reAmplifier           = regexp.MustCompile(`(?i)\b(REPEAT|SPACE|LPAD|RPAD)\s*\(`)
)

// domainExcluded names the reason a statement is outside the generated domain, or "".
func domainExcluded(gen string, q string) string {
	if gen == "pinned" {
		return ""
	}
	if reHandlerSqlexception.MatchString(q) {
		return "F31-handler-for-sqlexception" // known hang, replayed as a pinned witness
	}
	if selfNamedAlias(q) {
		return "self-named-table-alias" // known hang (join planning never returns), replayed as a pinned witness
	}
	if reGlobalState.MatchString(q) {
		return "process-global-setting" // would make later cases of the worker irreproducible
	}
	if reFiles.MatchString(q) {
		return "file-io"
	}
	if gen != "sweep" {
		// mutated / spliced loops and waits do not terminate by design
		if reLoop.MatchString(q) && gen == "mutate" {
			return "mutated-loop-construct"
		}
		if reWait.MatchString(q) {
			return "by-design-waiting-call"
		}
		if gen != "collate" && reAmplifier.MatchString(q) {
			return "amplifier-call" // REPEAT/SPACE/LPAD/RPAD with a mutated or hostile count (known finding, via=domain)
		}
	}
	return ""
}

// selfNamedAlias reports a table reference aliased by its own name (FROM u u / JOIN u AS u).
func selfNamedAlias(q string) bool {
	toks := g12lib.Tokens(q)
	for i := 0; i+2 < len(toks); i++ {
		k := strings.ToUpper(toks[i])
		if k != "FROM" && k != "JOIN" && k != "," {
			continue
		}
		a, b := toks[i+1], toks[i+2]
		if strings.ToUpper(b) == "AS" && i+3 < len(toks) {
			b = toks[i+3]
		}
		if len(a) > 0 && (a[0] == '_' || (a[0] >= 'a' && a[0] <= 'z') || (a[0] >= 'A' && a[0] <= 'Z')) && strings.EqualFold(strings.Trim(a, "`"), strings.Trim(b, "`")) {
			return true
		}
	}
	return false
}

var readOnlyFirst = map[string]bool{"SELECT": true, "WITH": true, "EXPLAIN": true, "SHOW": true, "DESCRIBE": true, "DESC": true, "TABLE": true, "VALUES": true, "": true}

func dirties(q string) bool {
	if !readOnlyFirst[g12lib.FirstWord(q)] {
		return true
	}
	return strings.Contains(strings.ToUpper(q), "INTO")
}

// panicSig is panic:<frame that raised the panic>:<stripped message>.
func panicSig(p *core.PanicInfo) string {
	return g12lib.PanicSig(p.Stack, p.Value, core.StripVolatile)
}

func clip(s string) string { return core.Clip(s, 4000) }

func workerMain(ch *g12lib.Child) {
	seed, _ := strconv.ParseInt(os.Getenv("C10_SEED"), 10, 64)
	tier := os.Getenv("C10_TIER")
	core.StmtTimeout = ch.Watchdog
	gen := makeGenerator(ch.Gen, seed, tier)

	var cur struct {
		i, k int
		key  string
		sql  string
	}
	memLimit := int64(6) << 30
	if v, err := strconv.ParseInt(os.Getenv("C10_MEM_GIB"), 10, 64); err == nil && v > 0 {
		memLimit = v << 30
	}
	ch.MemoryGuard(memLimit, func(rss int64) {
		ch.Emit(caseResult{I: cur.i, K: cur.key, O: []string{"memory"}, Ev: []event{{Kind: "memory", Sig: "memory-exhaustion:" + ch.Gen + ":" + cur.key, Stmt: cur.k, SQL: clip(cur.sql),
			Detail: fmt.Sprintf("resident set %d MiB exceeded the worker limit %d MiB", rss>>20, memLimit>>20)}}})
	})

	var eng *core.Eng
	dirty := true
	for i := ch.Lo; i < ch.Hi; i++ {
		c := gen.Case(i)
		res := caseResult{I: i, K: c.Key}
		if c.Skip != "" {
			res.O = []string{"skip:" + c.Skip}
			ch.Emit(res)
			continue
		}
		skip := ""
		for _, q := range c.Stmts {
			if r := domainExcluded(ch.Gen, q); r != "" {
				skip = r
			}
		}
		if skip != "" {
			res.O = []string{"skip:" + skip}
			ch.Emit(res)
			continue
		}
		if dirty || eng == nil {
			if eng != nil {
				eng.Close()
			}
			eng = core.NewEng("d")
			buildFixture(eng)
			dirty = false
		}
		s := eng.NewSess()
		usedLocks := false
		for k, q := range c.Stmts {
			cur.i, cur.k, cur.key, cur.sql = i, k, c.Key, q
			ch.Journal(i, k, q)
			mayDirty := dirties(q)
			if strings.Contains(strings.ToLower(q), "lock") {
				usedLocks = true
			}
			r := s.Exec(q)
			if mayDirty && !(r.Err != nil && r.ErrClass() == "1064") { // a parse error cannot have changed anything
				dirty = true
			}
			switch {
			case r.TimedOut:
				res.O = append(res.O, "timeout")
				res.Ev = append(res.Ev, event{Kind: "timeout", Sig: "hang:" + ch.Gen + ":" + c.Key, Stmt: k, SQL: clip(q), Stmts: clipAll(c.Stmts), Detail: spinningStack()})
				ch.Emit(res)
				os.Exit(g12lib.ExitWatchdog) // the statement's goroutine is still running: this process is spent
			case r.Panic != nil:
				res.O = append(res.O, "panic")
				res.Ev = append(res.Ev, event{Kind: "panic", Sig: panicSig(r.Panic), Stmt: k, SQL: clip(q), Stmts: clipAll(c.Stmts), Detail: r.Panic.Value + "\n" + core.Clip(r.Panic.Stack, 3000)})
				dirty = true // a panic may have left engine locks held
			case r.Err != nil:
				res.O = append(res.O, "e:"+r.ErrClass())
				res.C++
				if ev := canary(s, &res); ev != nil {
					ev.Stmt, ev.SQL, ev.Stmts = k, clip(q), clipAll(c.Stmts)
					ev.Detail = "after error: " + core.Clip(r.Err.Error(), 300) + "\n" + ev.Detail
					res.Ev = append(res.Ev, *ev)
					if ev.Kind == "timeout" {
						ch.Emit(res)
						os.Exit(g12lib.ExitWatchdog)
					}
					dirty = true
				}
			default:
				res.O = append(res.O, "ok")
			}
			if dirty && len(res.Ev) > 0 && res.Ev[len(res.Ev)-1].Kind == "panic" {
				break // do not continue a case on an engine that panicked
			}
		}
		if usedLocks && !dirty {
			s.Exec("SELECT RELEASE_ALL_LOCKS()")
		}
		ch.Emit(res)
	}
	ch.Done()
}

func clipAll(a []string) []string {
	out := make([]string, len(a))
	for i, s := range a {
		out[i] = clip(s)
	}
	return out
}

// canary checks that the session is still usable after an error: a query and a DML.
func canary(s *core.Sess, res *caseResult) *event {
	bad := func(step string, r *core.Result, why string) *event {
		switch {
		case r.TimedOut:
			return &event{Kind: "timeout", Sig: "hang:canary:" + step, Detail: "canary " + step + " exceeded the watchdog"}
		case r.Panic != nil:
			return &event{Kind: "panic", Sig: panicSig(r.Panic), Detail: "canary " + step + " panicked: " + r.Panic.Value + "\n" + core.Clip(r.Panic.Stack, 3000)}
		case r.Err != nil:
			return &event{Kind: "canary", Sig: g12lib.NoSpace("session-unusable:" + step + ":" + r.ErrClass() + ":" + core.StripVolatile(r.Err.Error())), Detail: "canary " + step + " failed: " + r.Err.Error()}
		}
		return &event{Kind: "canary", Sig: "session-unusable:" + step + ":" + why, Detail: "canary " + step + ": " + why + " rows=" + strings.Join(core.CanonRows(r.Rows), ";")}
	}
	r := s.Exec("SELECT 1")
	if r.Failed() || len(r.Rows) != 1 || core.CanonRow(r.Rows[0]) != "1" {
		return bad("select", r, "wrong-result")
	}
	r = s.Exec("UPDATE zc.canary SET v = v + 1 WHERE id = 1")
	if r.Err != nil && r.ErrClass() == "1792" {
		res.RO++ // the case itself opened a read-only transaction: refusal is the specified behaviour
		return nil
	}
	if r.Failed() {
		return bad("dml", r, "")
	}
	if ok, is := r.Ok(); !is || ok.RowsAffected != 1 {
		return bad("dml", r, "wrong-affected-rows")
	}
	return nil
}

// spinningStack returns the frames of the goroutine still executing the statement (diagnosis only).
func spinningStack() string {
	buf := make([]byte, 1<<20)
	n := runtime.Stack(buf, true)
	for _, g := range strings.Split(string(buf[:n]), "\n\n") {
		if strings.Contains(g, "core.(*Sess).ExecCtx.func1") {
			return core.Clip(g, 3000)
		}
	}
	return ""
}
