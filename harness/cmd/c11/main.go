// C11 — repeated queries reflect the current data; no stale results.
//
// One case = one history of 25–60 steps over tables t, u, plog in 1–3 sessions. Steps mix DML, DDL,
// explicit transactions, effectful procedure calls and re-executions of a fixed set of query objects
// (each through plain text, SQL PREPARE/EXECUTE, and QueryWithBindings on the session's cached
// prepared statement). Two oracles look at every query step:
//
//	M  the harness keeps a small reference model of the table contents (the DML is deliberately
//	   simple: keyed inserts, updates and deletes with literal values; procedure and trigger effects
//	   are computed by hand-written Go twins). A full scan of every table in the querying session must
//	   equal the model — this catches stale session snapshots and lost or resurrected writes.
//	F  the query's result must equal the result of the same query (parameter inlined) evaluated on a
//	   fresh engine that was built from the DDL log and loaded with the model's current rows — this
//	   catches results cached from an earlier state inside plans, subqueries, views, CTEs, joins.
//
// A read-only query run twice in a row must also return the same result.
package main

import (
	"context"
	dsql "database/sql"
	"fmt"
	"math/rand"
	"sort"
	"strings"

	"github.com/dolthub/go-mysql-server/sql"
	"github.com/dolthub/go-mysql-server/verifhook"
	"github.com/dolthub/vitess/go/sqltypes"
	"github.com/dolthub/vitess/go/vt/sqlparser"

	"verif/harness/core"
	"verif/harness/g10lib"
)

// ---------- reference model ----------

type cell struct {
	null bool
	v    int64
}

func iv(v int64) cell { return cell{v: v} }

var nullCell = cell{null: true}

func (c cell) String() string {
	if c.null {
		return "NULL"
	}
	return fmt.Sprint(c.v)
}

type mtable struct {
	cols []string
	rows map[int64][]cell // keyed by column 0 (id)
}

func (t *mtable) clone() *mtable {
	n := &mtable{cols: append([]string{}, t.cols...), rows: map[int64][]cell{}}
	for k, r := range t.rows {
		n.rows[k] = append([]cell{}, r...)
	}
	return n
}

func (t *mtable) col(name string) int {
	for i, c := range t.cols {
		if c == name {
			return i
		}
	}
	return -1
}

type model struct {
	tabs     map[string]*mtable
	ddl      []string // every successful non-trigger DDL statement, in order
	triggers []string // CREATE TRIGGER statements (replayed after loading data)
	trigKind string   // "", "before-u", "before-self", "after-u"
	version  int
}

func (m *model) clone() *model {
	n := &model{tabs: map[string]*mtable{}, ddl: m.ddl, triggers: m.triggers, trigKind: m.trigKind, version: m.version}
	for k, t := range m.tabs {
		n.tabs[k] = t.clone()
	}
	return n
}

// dump renders a table exactly like g10lib.Dump renders the engine's.
func (m *model) dump(tb string) []string {
	t := m.tabs[tb]
	out := make([]string, 0, len(t.rows))
	for _, r := range t.rows {
		parts := make([]string, len(r))
		for i, c := range r {
			parts[i] = c.String()
		}
		out = append(out, strings.Join(parts, "|"))
	}
	sort.Strings(out)
	return append([]string{"#" + strings.Join(t.cols, ",")}, out...)
}

func (m *model) countWhere(tb, col string, v int64) int64 {
	t := m.tabs[tb]
	ci := t.col(col)
	n := int64(0)
	for _, r := range t.rows {
		if !r[ci].null && r[ci].v == v {
			n++
		}
	}
	return n
}

// insertT models INSERT INTO t (id, v, w) VALUES (id, v, w) including the trigger on t. ok=false
// when the key exists (the statement fails and nothing changes).
func (m *model) insertT(id, v int64, w cell) bool {
	t := m.tabs["t"]
	if _, dup := t.rows[id]; dup {
		return false
	}
	switch m.trigKind {
	case "before-u":
		w = iv(m.countWhere("u", "v", v))
	case "before-self":
		w = iv(int64(len(t.rows)))
	}
	r := make([]cell, len(t.cols))
	r[0], r[1], r[2] = iv(id), iv(v), w
	for i := 3; i < len(r); i++ {
		r[i] = iv(5) // ADD COLUMN x INT DEFAULT 5
	}
	t.rows[id] = r
	if m.trigKind == "after-u" {
		m.tabs["plog"].rows[id+5000] = []cell{iv(id + 5000), iv(m.countWhere("u", "v", v))}
	}
	m.version++
	return true
}

func (m *model) insertPlain(tb string, id, v int64, w cell) bool {
	if tb == "t" {
		return m.insertT(id, v, w)
	}
	t := m.tabs[tb]
	if _, dup := t.rows[id]; dup {
		return false
	}
	t.rows[id] = []cell{iv(id), iv(v), w}
	m.version++
	return true
}

// ---------- query objects ----------

type qobj struct {
	name string
	sql  string // exactly one ? (an INT parameter)
}

var qobjs = []qobj{
	{"in-subquery", "SELECT id, v FROM t WHERE v IN (SELECT v FROM u WHERE w >= ?)"},
	{"in-subquery-self", "SELECT id FROM t WHERE v IN (SELECT v FROM t WHERE w > ?)"},
	{"scalar-subquery-proj", "SELECT id, (SELECT MAX(w) FROM u WHERE v <> ?) FROM t"},
	{"scalar-subquery-where", "SELECT id, w FROM t WHERE w >= (SELECT MIN(w) FROM u WHERE id <> ?)"},
	{"scalar-count", "SELECT id, (SELECT COUNT(*) FROM u) + ? FROM t"},
	{"hash-join", "SELECT t.id, u.id FROM t JOIN u ON t.v = u.v WHERE u.id <> ?"},
	{"join-derived", "SELECT a.id, b.c FROM t a JOIN (SELECT v, COUNT(*) c FROM u GROUP BY v) b ON a.v = b.v WHERE a.id <> ?"},
	{"left-join", "SELECT t.id, u.id FROM t LEFT JOIN u ON t.v = u.v AND u.w > ?"},
	{"cte-twice", "WITH x AS (SELECT v, COUNT(*) c FROM t GROUP BY v) SELECT x1.v, x2.c FROM x x1 JOIN x x2 ON x1.v = x2.v WHERE x1.c <> ?"},
	{"cte-twice-union", "WITH x AS (SELECT id, v FROM t WHERE v <> ?) SELECT id FROM x UNION ALL SELECT v FROM x"},
	{"view-join", "SELECT * FROM vw_join WHERE tid <> ?"},
	{"view-agg", "SELECT * FROM vw_agg WHERE c >= ?"},
	{"view-in-subquery", "SELECT id FROM u WHERE v IN (SELECT v FROM vw_agg WHERE c > ?)"},
	{"exists", "SELECT id FROM t WHERE EXISTS (SELECT 1 FROM u WHERE u.v = t.v AND u.w <> ?)"},
	{"agg", "SELECT v, COUNT(*), SUM(w) FROM t WHERE id <> ? GROUP BY v"},
	{"star", "SELECT * FROM t WHERE id <> ?"},
	{"self-join", "SELECT a.id, b.id FROM t a JOIN t b ON a.v = b.v AND a.id < b.id WHERE a.w <> ? OR a.w IS NULL"},
	{"three-way", "SELECT t.id, u.id, p.n FROM t JOIN u ON t.v = u.v JOIN plog p ON p.n = t.v WHERE p.id <> ?"},
	{"proc-read", "CALL p_read(?)"},
	{"plog", "SELECT id, n FROM plog WHERE n <> ?"},
}

func (q qobj) inline(p int64) string { return strings.Replace(q.sql, "?", fmt.Sprint(p), 1) }

// ---------- a history ----------

type sessState struct {
	s           *core.Sess
	idx         int
	prepared    map[int]bool // SQL PREPARE done for object k
	apiPrepared map[int]bool
	inTx        bool
}

type hist struct {
	r       *core.Run
	rnd     *rand.Rand
	caseNo  int
	eng     *core.Eng
	sess    []*sessState
	m       *model
	txSave  *model // model at BEGIN, for ROLLBACK
	txOwner int    // session index holding the open transaction, -1 none
	log     []string
	nextID  int64
	objs    []int // indexes into qobjs used by this history
	loopVar int   // p_loop variant
	feat    map[string]bool

	viewExcl   int64 // id excluded by the current definition of vw_agg (-1: none)
	lastLoop   *loopCall
	hasIndex   map[string]bool
	lastChange string

	freshEng  *core.Eng
	freshSess *core.Sess
	freshVer  int
	dead      bool
}

func (h *hist) logf(sess int, q string) { h.log = append(h.log, fmt.Sprintf("s%d: %s", sess, q)) }

func (h *hist) witness(what string, extra map[string]any) map[string]any {
	w := map[string]any{"case": h.caseNo, "what": what, "history": h.log}
	for k, v := range extra {
		w[k] = v
	}
	return w
}

const createT = "CREATE TABLE t (id INT PRIMARY KEY, v INT NOT NULL, w INT)"
const createU = "CREATE TABLE u (id INT PRIMARY KEY, v INT NOT NULL, w INT)"
const createPlog = "CREATE TABLE plog (id INT PRIMARY KEY, n INT)"

var loopBodies = []string{
	// V0: the F40 shape — uncorrelated IN subquery inside a loop body
	"SELECT COUNT(*) INTO n FROM t WHERE v IN (SELECT v FROM t WHERE v = c)",
	// V1: no subquery
	"SELECT COUNT(*) INTO n FROM t WHERE v = c",
	// V2: scalar subquery in SET
	"SET n = (SELECT COUNT(*) FROM t WHERE v = c)",
}

func procLoop(variant int) string {
	return "CREATE PROCEDURE p_loop(base INT, c INT, k INT) BEGIN DECLARE i INT DEFAULT 0; DECLARE n INT DEFAULT -1; " +
		"WHILE i < k DO INSERT INTO t (id, v, w) VALUES (base + i, c, 0); " + loopBodies[variant] + "; " +
		"INSERT INTO plog VALUES (base + i, n); SET i = i + 1; END WHILE; END"
}

const procSIS = "CREATE PROCEDURE p_sis(nid INT, c INT) BEGIN DECLARE n1 INT; DECLARE n2 INT; " +
	"SELECT COUNT(*) INTO n1 FROM t WHERE v = c; INSERT INTO t (id, v, w) VALUES (nid, c, 1); " +
	"SELECT COUNT(*) INTO n2 FROM t WHERE v = c; INSERT INTO plog VALUES (nid, n1), (nid + 1, n2); END"

const procRead = "CREATE PROCEDURE p_read(x INT) BEGIN SELECT id, v FROM t WHERE v IN (SELECT v FROM u WHERE w >= x); END"

var triggerDefs = map[string]string{
	"before-u":    "CREATE TRIGGER trg BEFORE INSERT ON t FOR EACH ROW SET NEW.w = (SELECT COUNT(*) FROM u WHERE u.v = NEW.v)",
	"before-self": "CREATE TRIGGER trg BEFORE INSERT ON t FOR EACH ROW SET NEW.w = (SELECT COUNT(*) FROM t)",
	"after-u":     "CREATE TRIGGER trg AFTER INSERT ON t FOR EACH ROW BEGIN DECLARE n INT; SET n = (SELECT COUNT(*) FROM u WHERE u.v = NEW.v); INSERT INTO plog VALUES (NEW.id + 5000, n); END",
}

func (h *hist) ddl(sess int, q string, trigger bool) bool {
	h.logf(sess, q)
	res := h.sess[sess].s.Exec(q)
	if res.Failed() {
		h.r.Inconclusive("ddl-failed:" + res.ErrClass())
		h.dead = true
		return false
	}
	if trigger {
		h.m.triggers = append(h.m.triggers, q)
	} else {
		h.m.ddl = append(append([]string{}, h.m.ddl...), q)
	}
	h.m.version++
	return true
}

func newHist(r *core.Run, i int) *hist {
	rnd := r.Rand("hist", i)
	h := &hist{r: r, rnd: rnd, caseNo: i, eng: core.NewEng("d"), txOwner: -1, nextID: 100, feat: map[string]bool{}, freshVer: -1, hasIndex: map[string]bool{}, lastChange: "setup", viewExcl: -1}
	ns := 1 + rnd.Intn(3)
	for k := 0; k < ns; k++ {
		h.sess = append(h.sess, &sessState{s: h.eng.NewSess(), idx: k, prepared: map[int]bool{}, apiPrepared: map[int]bool{}})
	}
	h.m = &model{tabs: map[string]*mtable{
		"t":    {cols: []string{"id", "v", "w"}, rows: map[int64][]cell{}},
		"u":    {cols: []string{"id", "v", "w"}, rows: map[int64][]cell{}},
		"plog": {cols: []string{"id", "n"}, rows: map[int64][]cell{}},
	}}
	for _, q := range []string{createT, createU, createPlog,
		"CREATE VIEW vw_join AS SELECT t.id AS tid, t.v AS tv, u.id AS uid, u.w AS uw FROM t JOIN u ON t.v = u.v",
		"CREATE VIEW vw_agg AS SELECT v, COUNT(*) AS c FROM t GROUP BY v",
		procRead, procSIS} {
		if !h.ddl(0, q, false) {
			return h
		}
	}
	h.loopVar = rnd.Intn(len(loopBodies))
	if !h.ddl(0, procLoop(h.loopVar), false) {
		return h
	}
	if rnd.Intn(3) == 0 {
		h.ddl(0, "CREATE INDEX iv ON "+pickS(rnd, "t", "u")+" (v)", false)
	}
	// initial rows (before the trigger exists)
	nt, nu := 3+rnd.Intn(6), 2+rnd.Intn(5)
	for k := 1; k <= nt; k++ {
		h.dmlInsert(0, "t", int64(k), int64(rnd.Intn(5)), randW(rnd))
	}
	for k := 1; k <= nu; k++ {
		h.dmlInsert(0, "u", int64(k), int64(rnd.Intn(5)), randW(rnd))
	}
	for k := 1; k <= 2; k++ {
		h.dmlInsert(0, "plog", int64(k), int64(rnd.Intn(5)), nullCell)
	}
	if p := rnd.Intn(10); p < 5 {
		kind := []string{"before-u", "before-self", "after-u"}[rnd.Intn(3)]
		if h.ddl(0, triggerDefs[kind], true) {
			h.m.trigKind = kind
			h.feat["trigger:"+kind] = true
		}
	}
	// query objects of this history
	perm := rnd.Perm(len(qobjs))
	h.objs = perm[:4+rnd.Intn(3)]
	return h
}

func pickS(rnd *rand.Rand, xs ...string) string { return xs[rnd.Intn(len(xs))] }

func randW(rnd *rand.Rand) cell {
	if rnd.Intn(6) == 0 {
		return nullCell
	}
	return iv(int64(rnd.Intn(6)))
}

func (h *hist) close() {
	h.eng.Close()
	if h.freshEng != nil {
		h.freshEng.Close()
	}
}

// ---------- DML steps (engine + model) ----------

// expectOK checks a DML outcome against the model's verdict (ok / duplicate key).
func (h *hist) expectDML(sess int, q string, wantOK bool, wantAffected int64) bool {
	h.logf(sess, q)
	res := h.sess[sess].s.Exec(q)
	if res.TimedOut {
		h.r.Inconclusive("timeout")
		h.dead = true
		return false
	}
	if res.Panic != nil {
		h.r.Violation("dml:"+res.Panic.Sig(), h.witness("panic in DML", map[string]any{"stmt": q, "panic": res.Panic.Value}))
		h.dead = true
		return false
	}
	h.r.Eval(1)
	if wantOK != !res.Failed() {
		// the DML fragment is chosen so that success/failure is certain (unique or known-duplicate keys)
		h.r.Violation(fmt.Sprintf("dml-outcome:wantok=%v:got=%s", wantOK, res.ErrClass()), h.witness("DML outcome differs from the model", map[string]any{"stmt": q, "err": fmt.Sprint(res.Err)}))
		h.dead = true
		return false
	}
	if wantOK && wantAffected >= 0 {
		if ok, is := res.Ok(); is && int64(ok.RowsAffected) != wantAffected {
			h.r.Violation("dml-affected-rows", h.witness("affected rows differ from the model", map[string]any{"stmt": q, "want": wantAffected, "got": ok.RowsAffected}))
			h.dead = true
			return false
		}
	}
	return true
}

func (h *hist) dmlInsert(sess int, tb string, id, v int64, w cell) {
	var q string
	if tb == "plog" {
		q = fmt.Sprintf("INSERT INTO plog VALUES (%d, %d)", id, v)
		_, dup := h.m.tabs["plog"].rows[id]
		if h.expectDML(sess, q, !dup, 1) && !dup {
			h.m.tabs["plog"].rows[id] = []cell{iv(id), iv(v)}
			h.m.version++
		}
		return
	}
	q = fmt.Sprintf("INSERT INTO %s (id, v, w) VALUES (%d, %d, %s)", tb, id, v, w)
	_, dup := h.m.tabs[tb].rows[id]
	if h.expectDML(sess, q, !dup, 1) && !dup {
		h.m.insertPlain(tb, id, v, w)
	}
}

func (h *hist) someID(tb string) (int64, bool) {
	t := h.m.tabs[tb]
	if len(t.rows) == 0 {
		return 0, false
	}
	ids := make([]int64, 0, len(t.rows))
	for k := range t.rows {
		ids = append(ids, k)
	}
	sort.Slice(ids, func(a, b int) bool { return ids[a] < ids[b] })
	return ids[h.rnd.Intn(len(ids))], true
}

func (h *hist) stepDML(sess int) {
	rnd := h.rnd
	tb := pickS(rnd, "t", "t", "u")
	t := h.m.tabs[tb]
	if rnd.Intn(10) == 0 && !h.sess[sess].inTx {
		// a statement the engine rejects while planning, after it has already resolved the table (unknown
		// column, wrong value count): it must fail, change nothing, and must not leave this session with a
		// private copy of the table that later statements keep reading
		q := pickS(rnd, "SELECT nosuchcol FROM "+tb, "UPDATE "+tb+" SET nosuchcol = 1", "INSERT INTO "+tb+" VALUES (1, 2, 3, 4, 5, 6, 7, 8, 9, 10, 11)",
			"SELECT * FROM "+tb+" WHERE nosuchcol = 1", "DELETE FROM "+tb+" WHERE nosuchcol = 1")
		h.expectDML(sess, q, false, -1)
		h.feat["dml:rejected-in-planning"] = true
		return
	}
	switch p := rnd.Intn(100); {
	case p < 30: // insert a fresh key
		h.nextID++
		h.dmlInsert(sess, tb, h.nextID, int64(rnd.Intn(5)), randW(rnd))
		h.feat["dml:insert"] = true
	case p < 38: // insert an existing key: must fail and change nothing
		if id, ok := h.someID(tb); ok {
			h.dmlInsert(sess, tb, id, int64(rnd.Intn(5)), randW(rnd))
			h.feat["dml:insert-dup-fails"] = true
		}
	case p < 46 && (tb == "u" || h.m.trigKind == ""): // multi-row insert (not on a triggered table)
		a, b := h.nextID+1, h.nextID+2
		h.nextID += 2
		v1, v2, w1, w2 := int64(rnd.Intn(5)), int64(rnd.Intn(5)), randW(rnd), randW(rnd)
		q := fmt.Sprintf("INSERT INTO %s (id, v, w) VALUES (%d, %d, %s), (%d, %d, %s)", tb, a, v1, w1, b, v2, w2)
		if h.expectDML(sess, q, true, 2) {
			h.m.insertPlain(tb, a, v1, w1)
			h.m.insertPlain(tb, b, v2, w2)
		}
		h.feat["dml:insert-multi"] = true
	case p < 62: // update by key
		if id, ok := h.someID(tb); ok {
			nv := int64(rnd.Intn(5))
			q := fmt.Sprintf("UPDATE %s SET v = %d WHERE id = %d", tb, nv, id)
			aff := int64(1)
			if t.rows[id][1].v == nv {
				aff = 0
			}
			if h.expectDML(sess, q, true, aff) {
				t.rows[id][1] = iv(nv)
				h.m.version++
			}
			h.feat["dml:update-key"] = true
		}
	case p < 72: // update by value
		c := int64(rnd.Intn(5))
		nw := int64(rnd.Intn(6))
		q := fmt.Sprintf("UPDATE %s SET w = %d WHERE v = %d", tb, nw, c)
		aff := int64(0)
		for _, r := range t.rows {
			if r[1].v == c && (r[2].null || r[2].v != nw) {
				aff++
			}
		}
		if h.expectDML(sess, q, true, aff) {
			for _, r := range t.rows {
				if r[1].v == c {
					r[2] = iv(nw)
				}
			}
			h.m.version++
		}
		h.feat["dml:update-value"] = true
	case p < 86: // delete by key
		if id, ok := h.someID(tb); ok {
			q := fmt.Sprintf("DELETE FROM %s WHERE id = %d", tb, id)
			if h.expectDML(sess, q, true, 1) {
				delete(t.rows, id)
				h.m.version++
			}
			h.feat["dml:delete-key"] = true
		}
	default: // delete by value
		c := int64(rnd.Intn(5))
		q := fmt.Sprintf("DELETE FROM %s WHERE v = %d", tb, c)
		aff := h.m.countWhere(tb, "v", c)
		if h.expectDML(sess, q, true, aff) {
			for k, r := range t.rows {
				if r[1].v == c {
					delete(t.rows, k)
				}
			}
			h.m.version++
		}
		h.feat["dml:delete-value"] = true
	}
}

// stepCall runs an effectful procedure and applies its Go twin to the model.
func (h *hist) stepCall(sess int) {
	rnd := h.rnd
	c := int64(rnd.Intn(5))
	if rnd.Intn(3) == 0 {
		h.nextID += 2
		nid := h.nextID - 1
		q := fmt.Sprintf("CALL p_sis(%d, %d)", nid, c)
		n1 := h.m.countWhere("t", "v", c)
		if !h.expectDML(sess, q, true, -1) {
			return
		}
		h.m.insertT(nid, c, iv(1))
		n2 := h.m.countWhere("t", "v", c)
		h.m.tabs["plog"].rows[nid] = []cell{iv(nid), iv(n1)}
		h.m.tabs["plog"].rows[nid+1] = []cell{iv(nid + 1), iv(n2)}
		h.m.version++
		h.feat["call:select-insert-select"] = true
		return
	}
	k := int64(1 + rnd.Intn(3))
	base := h.nextID + 1
	h.nextID += k
	q := fmt.Sprintf("CALL p_loop(%d, %d, %d)", base, c, k)
	if !h.expectDML(sess, q, true, -1) {
		return
	}
	for i := int64(0); i < k; i++ {
		h.m.insertT(base+i, c, iv(0))
		h.m.tabs["plog"].rows[base+i] = []cell{iv(base + i), iv(h.m.countWhere("t", "v", c))}
	}
	h.m.version++
	h.feat[fmt.Sprintf("call:loop-v%d", h.loopVar)] = true
	h.lastLoop = &loopCall{base: base, c: c, k: k, first: h.m.countWhere("t", "v", c) - k + 1}
}

func (h *hist) stepDDL(sess int) {
	rnd := h.rnd
	t := h.m.tabs["t"]
	switch rnd.Intn(6) {
	case 0:
		if t.col("x") < 0 {
			if h.ddl(sess, "ALTER TABLE t ADD COLUMN x INT DEFAULT 5", false) {
				t.cols = append(t.cols, "x")
				for k := range t.rows {
					t.rows[k] = append(t.rows[k], iv(5))
				}
			}
		} else if h.ddl(sess, "ALTER TABLE t DROP COLUMN x", false) {
			t.cols = t.cols[:3]
			for k := range t.rows {
				t.rows[k] = t.rows[k][:3]
			}
		}
		h.feat["ddl:add-drop-column"] = true
	case 1:
		tb := pickS(rnd, "t", "u")
		if h.hasIndex[tb] {
			if h.ddl(sess, "DROP INDEX ix2 ON "+tb, false) {
				h.hasIndex[tb] = false
			}
		} else if h.ddl(sess, "CREATE INDEX ix2 ON "+tb+" (v)", false) {
			h.hasIndex[tb] = true
		}
		h.feat["ddl:index"] = true
	case 2, 3:
		// drop and re-create a table that views, prepared statements and procedures reference
		if !h.ddl(sess, "DROP TABLE u", false) || !h.ddl(sess, createU, false) {
			return
		}
		h.hasIndex["u"] = false
		h.m.tabs["u"].rows = map[int64][]cell{}
		n := rnd.Intn(4)
		for k := 1; k <= n; k++ {
			h.dmlInsert(sess, "u", int64(k), int64(rnd.Intn(5)), randW(rnd))
		}
		h.feat["ddl:recreate-referenced-table"] = true
	case 4:
		tb := pickS(rnd, "t", "u", "plog")
		if h.ddl(sess, "TRUNCATE TABLE "+tb, false) {
			h.m.tabs[tb].rows = map[int64][]cell{}
		}
		h.feat["ddl:truncate"] = true
	default:
		ex := int64(rnd.Intn(4))
		if h.ddl(sess, "CREATE OR REPLACE VIEW vw_agg AS SELECT v, COUNT(*) AS c FROM t WHERE id <> "+fmt.Sprint(ex)+" GROUP BY v", false) {
			h.viewExcl = ex
		}
		h.feat["ddl:replace-view"] = true
	}
}

// ---------- fresh engine ----------

func (h *hist) fresh() *core.Sess {
	if h.freshEng != nil && h.freshVer == h.m.version {
		return h.freshSess
	}
	if h.freshEng != nil {
		h.freshEng.Close()
		h.freshEng = nil
	}
	e := core.NewEng("d")
	s := e.NewSess()
	for _, q := range h.m.ddl {
		if r := s.Exec(q); r.Failed() {
			e.Close()
			h.r.Inconclusive("fresh-engine-ddl-replay:" + r.ErrClass())
			return nil
		}
	}
	for _, tb := range []string{"t", "u", "plog"} {
		t := h.m.tabs[tb]
		ids := make([]int64, 0, len(t.rows))
		for k := range t.rows {
			ids = append(ids, k)
		}
		sort.Slice(ids, func(a, b int) bool { return ids[a] < ids[b] })
		for _, id := range ids {
			parts := make([]string, len(t.cols))
			for i, c := range t.rows[id] {
				parts[i] = c.String()
			}
			q := fmt.Sprintf("INSERT INTO %s (%s) VALUES (%s)", tb, strings.Join(t.cols, ", "), strings.Join(parts, ", "))
			if r := s.Exec(q); r.Failed() {
				e.Close()
				h.r.Inconclusive("fresh-engine-load:" + r.ErrClass())
				return nil
			}
		}
	}
	for _, q := range h.m.triggers {
		if r := s.Exec(q); r.Failed() {
			e.Close()
			h.r.Inconclusive("fresh-engine-trigger:" + r.ErrClass())
			return nil
		}
	}
	h.freshEng, h.freshSess, h.freshVer = e, s, h.m.version
	h.r.Count("fresh-engines-built", 1)
	return s
}

// ---------- query step ----------

func intBinding(p int64) map[string]sqlparser.Expr {
	bv, _ := sqltypes.BuildBindVariable(p)
	v, _ := sqltypes.BindVariableToValue(bv)
	e, _ := sqlparser.ExprFromValue(v)
	return map[string]sqlparser.Expr{"v1": e}
}

// checkTables is oracle M.
func (h *hist) checkTables(sess int, ctxWhat string) bool {
	for _, tb := range []string{"t", "u", "plog"} {
		got := g10lib.Dump(h.sess[sess].s, tb)
		want := h.m.dump(tb)
		h.r.Eval(1)
		if !core.SameStrings(got, want) {
			sig, known := h.classifyTableDiff(tb, got, want)
			if known && h.r.IsKnown(sig) {
				// known finding: count it, adopt the engine's (first-iteration) values and go on with the history
				h.r.Violation(sig, nil)
				lc := h.lastLoop
				for i := int64(0); i < lc.k; i++ {
					h.m.tabs["plog"].rows[lc.base+i] = []cell{iv(lc.base + i), iv(lc.first)}
				}
				h.m.version++
				h.lastLoop = nil
				continue
			}
			h.r.Violation(sig, h.witness("full scan of "+tb+" in session "+fmt.Sprint(sess)+" differs from the reference model ("+ctxWhat+")",
				map[string]any{"table": tb, "model": core.ClipStrings(want, 60), "engine": core.ClipStrings(got, 60), "session": sess}))
			h.dead = true
			return false
		}
	}
	return true
}

type loopCall struct {
	base, c, k int64
	first      int64 // the count the first iteration must record
}

// classifyTableDiff gives the narrow signature of a table/model disagreement.
func (h *hist) classifyTableDiff(tb string, got, want []string) (string, bool) {
	// F40: the only wrong rows are plog rows written by the last p_loop call whose body evaluates an
	// uncorrelated subquery, and every iteration recorded the count of the FIRST iteration.
	if tb == "plog" && h.lastLoop != nil && h.loopVar != 2 && len(got) == len(want) {
		lc := h.lastLoop
		exp := map[string]bool{}
		for i := int64(0); i < lc.k; i++ {
			exp[fmt.Sprintf("%d|%d", lc.base+i, lc.first)] = true
		}
		wantSet := map[string]bool{}
		for _, w := range want {
			wantSet[w] = true
		}
		all := true
		for _, g := range got {
			if !wantSet[g] && !exp[g] {
				all = false
			}
		}
		if all {
			return "proc-loop-select-into-keeps-first-iteration-value", true
		}
	}
	kind := "rows-differ"
	if len(got) > 0 && strings.HasPrefix(got[0], "ERR:") {
		kind = "scan-error:" + got[0]
	} else if len(got) > 0 && len(want) > 0 && got[0] != want[0] {
		kind = "columns-differ"
	} else if len(got) < len(want) {
		kind = "rows-missing"
	} else if len(got) > len(want) {
		kind = "rows-extra"
	}
	return fmt.Sprintf("table-state:%s:%s:%s", tb, kind, h.contextClass()), false
}

// contextClass names the history features that matter for session-level staleness.
func (h *hist) contextClass() string {
	var fs []string
	if len(h.sess) > 1 {
		fs = append(fs, "multi-session")
	}
	if h.feat["tx"] {
		fs = append(fs, "tx")
	}
	if h.feat["dml:insert-dup-fails"] {
		fs = append(fs, "failed-stmt")
	}
	if h.m.trigKind != "" {
		fs = append(fs, "trigger:"+h.m.trigKind)
	}
	if h.feat["call:select-insert-select"] || h.lastLoop != nil {
		fs = append(fs, "proc")
	}
	if len(fs) == 0 {
		return "plain"
	}
	return strings.Join(fs, "+")
}

func (h *hist) stepQuery(sess int) {
	rnd := h.rnd
	ss := h.sess[sess]
	k := h.objs[rnd.Intn(len(h.objs))]
	q := qobjs[k]
	for h.txOwner >= 0 && (strings.HasPrefix(q.sql, "CALL") || strings.Contains(q.sql, "vw_")) {
		// domain exclusions call-in-open-transaction and view-query-in-open-transaction (known findings): pick another object
		k = rnd.Intn(len(qobjs))
		q = qobjs[k]
	}
	p := int64(rnd.Intn(6)) - 1
	mode := []string{"text", "sqlprepare", "api", "text-twice"}[rnd.Intn(4)]
	inl := q.inline(p)

	if !h.checkTables(sess, "before query "+q.name) {
		return
	}
	before := verifhook.Counters()

	var res *core.Result
	switch mode {
	case "text", "text-twice":
		h.logf(sess, inl)
		res = ss.s.Exec(inl)
	case "sqlprepare":
		if !ss.prepared[k] {
			pq := fmt.Sprintf("PREPARE q%d FROM %s", k, g10lib.QuoteStr(q.sql))
			h.logf(sess, pq)
			if r := ss.s.Exec(pq); r.Failed() {
				h.r.Inconclusive("prepare-failed:" + r.ErrClass())
				return
			}
			ss.prepared[k] = true
		}
		h.logf(sess, fmt.Sprintf("SET @p = %d", p))
		h.logf(sess, fmt.Sprintf("EXECUTE q%d USING @p", k))
		ss.s.Exec(fmt.Sprintf("SET @p = %d", p))
		res = ss.s.Exec(fmt.Sprintf("EXECUTE q%d USING @p", k))
	case "api":
		if len(h.sess) == 1 && !ss.apiPrepared[k] {
			// what COM_STMT_PREPARE does; only in single-session histories (known finding
			// prepare-pins-session-snapshot, via=domain)
			h.logf(sess, "PREP: "+q.sql)
			if _, err := ss.s.Eng.E.PrepareQuery(ss.s.Ctx(), q.sql); err != nil {
				h.r.Inconclusive("api-prepare-failed")
				return
			}
			ss.apiPrepared[k] = true
			h.r.Count("api.explicit-prepare", 1)
		}
		h.logf(sess, fmt.Sprintf("API: %s ## %d", q.sql, p))
		res = g10lib.Run(ss.s, q.sql, func(ctx *sql.Context) (sql.Schema, sql.RowIter, error) {
			sch, it, _, err := ss.s.Eng.E.QueryWithBindings(ctx, q.sql, nil, intBinding(p), nil)
			return sch, it, err
		})
	}
	if res.TimedOut {
		h.r.Inconclusive("timeout")
		h.dead = true
		return
	}
	got := g10lib.Observe(res, false, false)

	fs := h.fresh()
	if fs == nil {
		h.dead = true
		return
	}
	ref := g10lib.Observe(fs.Exec(inl), false, false)
	if strings.HasPrefix(q.sql, "CALL") {
		// p_read has no effects, but keep the fresh engine honest
	}
	h.r.Eval(1)
	after := verifhook.Counters()
	for _, c := range []string{"rowexec.cachedresults.hit", "rowexec.cachedresults.fill", "plan.subquery.cache.hit", "plan.subquery.hashcache.hit"} {
		if after[c] > before[c] {
			h.feat["cache:"+c] = true
		}
	}
	if res.Panic != nil {
		h.r.Violation("query:"+res.Panic.Sig(), h.witness("panic in query", map[string]any{"query": inl, "mode": mode, "panic": res.Panic.Value}))
		h.dead = true
		return
	}
	if d := g10lib.Diff(ref, got, false); d != "" {
		if ref.Err != "" && got.Err == "" {
			// the fresh engine cannot evaluate what the used engine can: nothing to compare against
			h.r.Inconclusive("fresh-engine-error:" + ref.Err)
			return
		}
		sig := fmt.Sprintf("stale-or-wrong-result:%s:%s:%s:%s", q.name, mode, d, h.contextClass())
		h.r.Violation(sig, h.witness("query result differs from the same query on a fresh engine loaded with the current (model) data",
			map[string]any{"query": inl, "object": q.sql, "mode": mode, "session": sess, "fresh": ref.Rows, "fresh_err": ref.ErrText, "engine": got.Rows, "engine_err": got.ErrText,
				"model_t": h.m.dump("t"), "model_u": h.m.dump("u"), "plan": ss.s.Plan(inl)}))
		h.dead = true
		return
	}
	if want, ok := h.refEval(q.name, p); ok && got.Err == "" {
		h.r.Eval(1)
		if !core.SameStrings(got.Rows, want) {
			sig := fmt.Sprintf("result-differs-from-reference-model:%s:%s:%s", q.name, mode, h.contextClass())
			h.r.Violation(sig, h.witness("query result differs from the direct evaluation of the query over the reference model (the fresh engine agrees with the used one: a wrong-but-fresh result or a cache shared across engines)",
				map[string]any{"query": inl, "object": q.sql, "mode": mode, "session": sess, "reference": want, "engine": got.Rows, "fresh_engine": ref.Rows,
					"model_t": h.m.dump("t"), "model_u": h.m.dump("u"), "model_plog": h.m.dump("plog"), "plan": ss.s.Plan(inl)}))
			h.dead = true
			return
		}
		h.r.Count("reference-evaluations", 1)
	}
	if mode == "text-twice" {
		res2 := ss.s.Exec(inl)
		got2 := g10lib.Observe(res2, false, false)
		h.r.Eval(1)
		if d := g10lib.Diff(got, got2, false); d != "" {
			h.r.Violation("same-query-twice-differs:"+q.name+":"+d, h.witness("a read-only query run twice on unchanged data differs",
				map[string]any{"query": inl, "first": got.Rows, "second": got2.Rows}))
			h.dead = true
			return
		}
	}
	nonEmpty := "empty"
	if len(got.Rows) > 0 {
		nonEmpty = "rows"
		h.r.Count("nonempty-results", 1)
	} else if got.Err != "" {
		nonEmpty = "error:" + got.Err
	}
	h.r.Distinct(fmt.Sprintf("%s|%s|%s|after:%s|sessions=%d|tx=%v", q.name, mode, nonEmpty, h.lastChange, len(h.sess), ss.inTx))
	h.r.Count("query."+mode, 1)
	if h.caseNo%25 == 0 && rnd.Intn(6) == 0 {
		h.r.Sample(map[string]any{"query": inl, "mode": mode, "session": sess, "rows": core.ClipStrings(got.Rows, 8), "fresh_engine_rows": core.ClipStrings(ref.Rows, 8), "history_len": len(h.log), "last_change": h.lastChange})
	}
}

func main() {
	r := core.NewRun("C11", "exploration",
		"one case = one history (25-60 steps, 1-3 sessions, optional explicit transactions) mixing simple keyed DML, DDL (add/drop column, index, drop+recreate of a referenced table, truncate, replace view), effectful procedure calls and trigger-firing inserts with re-executions of 4-6 fixed query objects through text, PREPARE/EXECUTE and QueryWithBindings; at each query step a full scan of every table must equal the harness's reference model and the query result must equal the same query on a fresh engine rebuilt from the DDL log and the model rows; distinct = (query object, execution mode, result class, kind of the last change, sessions, in-transaction); a trigger case = one BEFORE/AFTER INSERT row trigger whose body tests a subquery over a table the body itself changes, fired for 3-12 rows by one or two multi-row INSERTs, final tables compared with a row-by-row Go twin")
	r.Fold(8, 3)
	r.Assume("only one explicit transaction is open at a time and no other session writes while it is open (isolation between overlapping writers is C17's subject and documented as unsupported by the memory backend)")
	r.Assume("multi-row inserts are not issued against the table that carries the subquery trigger; trigger and procedure effects are predicted by hand-written Go twins")
	r.Assume("the fresh engine runs the same planner, so a wrong-but-fresh result (C01/C02) is not reported here; only divergence between the used engine and a fresh one on identical data is")

	c0 := verifhook.Counters()
	n := r.N(400, 5000)
	r.Parallel("hist", n, func(i int) { runHist(r, i) })
	nw := r.N(60, 900)
	r.Parallel("wire", nw, func(i int) { runWire(r, i) })
	trigBattery(r)
	pinned(r)
	c1 := verifhook.Counters()
	for _, c := range []string{"rowexec.cachedresults.hit", "rowexec.cachedresults.fill", "plan.subquery.cache.hit", "plan.subquery.hashcache.hit"} {
		r.Count("hook."+c, c1[c]-c0[c])
	}
	r.Floor(c1["rowexec.cachedresults.fill"]-c0["rowexec.cachedresults.fill"] > 0, "CachedResults never filled")
	r.Floor(c1["plan.subquery.cache.hit"]-c0["plan.subquery.cache.hit"]+c1["plan.subquery.hashcache.hit"]-c0["plan.subquery.hashcache.hit"] > 0, "subquery result cache never hit")
	r.Floor(r.Counter("query.sqlprepare") > 0 && r.Counter("query.api") > 0 && r.Counter("query.text") > 0, "an execution mode was never used")
	r.Floor(r.Counter("step.tx-commit") > 0 && r.Counter("step.ddl") > 0 && r.Counter("step.call") > 0, "transactions, DDL or procedure calls never exercised")
	r.Floor(r.Counter("trig.firings") > 0, "no trigger fired more than once in a statement")
	r.Floor(r.Counter("nonempty-results") > int64(n), "too few non-empty query results")
	r.Finish()
}

func runHist(r *core.Run, i int) {
	h := newHist(r, i)
	defer h.close()
	if h.dead {
		return
	}
	rnd := h.rnd
	steps := 25 + rnd.Intn(36)
	txLeft := 0
	for st := 0; st < steps && !h.dead; st++ {
		sess := rnd.Intn(len(h.sess))
		if h.txOwner >= 0 {
			sess = h.txOwner // while a transaction is open only its owner runs
		}
		p := rnd.Intn(100)
		switch {
		case h.txOwner >= 0 && txLeft <= 0:
			// end the transaction
			ss := h.sess[sess]
			if rnd.Intn(3) == 0 {
				h.logf(sess, "ROLLBACK")
				if ss.s.Exec("ROLLBACK").Failed() {
					r.Inconclusive("rollback-failed")
					return
				}
				h.txSave.version = h.m.version + 1
				h.m = h.txSave
				h.lastChange = "rollback"
				r.Count("step.tx-rollback", 1)
			} else {
				h.logf(sess, "COMMIT")
				if ss.s.Exec("COMMIT").Failed() {
					r.Inconclusive("commit-failed")
					return
				}
				h.lastChange = "commit"
				r.Count("step.tx-commit", 1)
			}
			ss.inTx = false
			h.txOwner = -1
			h.lastLoop = nil
			// every session must now see the outcome
			for k := range h.sess {
				if !h.checkTables(k, "after end of transaction") {
					return
				}
			}
		case p < 45:
			h.stepQuery(sess)
		case p < 75:
			h.lastLoop = nil
			h.stepDML(sess)
			h.lastChange = "dml"
			r.Count("step.dml", 1)
			txLeft--
		case p < 83 && h.txOwner < 0:
			h.lastLoop = nil
			h.stepCall(sess)
			h.lastChange = "call"
			r.Count("step.call", 1)
			txLeft--
			if !h.dead {
				h.checkTables(sess, "after procedure call")
			}
		case p < 92 && h.txOwner < 0:
			h.lastLoop = nil
			h.stepDDL(sess)
			h.lastChange = "ddl"
			r.Count("step.ddl", 1)
		case h.txOwner < 0:
			ss := h.sess[sess]
			q := pickS(rnd, "BEGIN", "START TRANSACTION")
			h.logf(sess, q)
			if ss.s.Exec(q).Failed() {
				r.Inconclusive("begin-failed")
				return
			}
			h.txSave = h.m.clone()
			h.txOwner = sess
			ss.inTx = true
			txLeft = 1 + rnd.Intn(4)
			h.feat["tx"] = true
		default:
			h.stepQuery(sess)
		}
	}
	if !h.dead && h.txOwner >= 0 {
		h.sess[h.txOwner].s.Exec("COMMIT")
	}
	if !h.dead {
		for k := range h.sess {
			if !h.checkTables(k, "end of history") {
				break
			}
		}
	}
	for f := range h.feat {
		r.Count("feature."+f, 1)
	}
}

// ---------- wire family: several real connections, autocommit, model oracle only ----------

type wconn struct {
	db *dsql.DB
}

func wireDump(db *dsql.DB, tb string) []string {
	ctx, cancel := context.WithTimeout(context.Background(), core.StmtTimeout)
	defer cancel()
	rows, err := db.QueryContext(ctx, "SELECT * FROM "+tb)
	if err != nil {
		return []string{"ERR:" + err.Error()}
	}
	defer rows.Close()
	cols, _ := rows.Columns()
	out := []string{}
	for rows.Next() {
		cells := make([]dsql.NullString, len(cols))
		ptrs := make([]any, len(cols))
		for i := range cells {
			ptrs[i] = &cells[i]
		}
		if err := rows.Scan(ptrs...); err != nil {
			return []string{"ERR:" + err.Error()}
		}
		parts := make([]string, len(cells))
		for i, c := range cells {
			if c.Valid {
				parts[i] = c.String
			} else {
				parts[i] = "NULL"
			}
		}
		out = append(out, strings.Join(parts, "|"))
	}
	sort.Strings(out)
	return append([]string{"#" + strings.Join(cols, ",")}, out...)
}

func wireExec(db *dsql.DB, q string) error {
	ctx, cancel := context.WithTimeout(context.Background(), core.StmtTimeout)
	defer cancel()
	_, err := db.ExecContext(ctx, q)
	return err
}

// runWire: 2-3 connections to one server, every statement autocommitted and succeeding by
// construction; after every step a randomly chosen connection must see exactly the model.
func runWire(r *core.Run, i int) {
	rnd := r.Rand("wire", i)
	e := core.NewEng("d")
	defer e.Close()
	srv, db0, err := g10lib.StartServer(e, "")
	if err != nil {
		r.Inconclusive("server-start")
		return
	}
	defer srv.Close()
	conns := []*dsql.DB{db0}
	nc := 2 + rnd.Intn(2)
	for k := 1; k < nc; k++ {
		db, err := srv.Open("root", "", "")
		if err != nil {
			r.Inconclusive("server-open")
			return
		}
		conns = append(conns, db)
	}
	defer func() {
		for _, c := range conns {
			c.Close()
		}
	}()
	m := &model{tabs: map[string]*mtable{"t": {cols: []string{"id", "v", "w"}, rows: map[int64][]cell{}}}}
	var log []string
	do := func(c int, q string) bool {
		log = append(log, fmt.Sprintf("w%d: %s", c, q))
		if err := wireExec(conns[c], q); err != nil {
			r.Violation("wire:statement-failed-unexpectedly", map[string]any{"case": i, "history": log, "err": err.Error()})
			return false
		}
		return true
	}
	if !do(0, createT) {
		return
	}
	next := int64(0)
	steps := 15 + rnd.Intn(25)
	for st := 0; st < steps; st++ {
		c := rnd.Intn(nc)
		t := m.tabs["t"]
		switch p := rnd.Intn(10); {
		case p < 4 || len(t.rows) == 0:
			next++
			v, w := int64(rnd.Intn(5)), randW(rnd)
			if !do(c, fmt.Sprintf("INSERT INTO t (id, v, w) VALUES (%d, %d, %s)", next, v, w)) {
				return
			}
			t.rows[next] = []cell{iv(next), iv(v), w}
			if t.col("x") >= 0 {
				t.rows[next] = append(t.rows[next], iv(5))
			}
		case p < 7:
			ids := make([]int64, 0, len(t.rows))
			for k := range t.rows {
				ids = append(ids, k)
			}
			sort.Slice(ids, func(a, b int) bool { return ids[a] < ids[b] })
			id, nv := ids[rnd.Intn(len(ids))], int64(rnd.Intn(5))
			if !do(c, fmt.Sprintf("UPDATE t SET v = %d WHERE id = %d", nv, id)) {
				return
			}
			t.rows[id][1] = iv(nv)
		case p < 9:
			cv := int64(rnd.Intn(5))
			if !do(c, fmt.Sprintf("DELETE FROM t WHERE v = %d", cv)) {
				return
			}
			for k, row := range t.rows {
				if row[1].v == cv {
					delete(t.rows, k)
				}
			}
		default:
			if t.col("x") < 0 {
				if !do(c, "ALTER TABLE t ADD COLUMN x INT DEFAULT 5") {
					return
				}
				t.cols = append(t.cols, "x")
				for k := range t.rows {
					t.rows[k] = append(t.rows[k], iv(5))
				}
			} else {
				if !do(c, "ALTER TABLE t DROP COLUMN x") {
					return
				}
				t.cols = t.cols[:3]
				for k := range t.rows {
					t.rows[k] = t.rows[k][:3]
				}
			}
		}
		// observe on a random connection
		oc := rnd.Intn(nc)
		got, want := wireDump(conns[oc], "t"), m.dump("t")
		r.Eval(1)
		log = append(log, fmt.Sprintf("w%d: SELECT * FROM t", oc))
		if !core.SameStrings(got, want) {
			r.Violation("wire:table-state-differs-from-model:autocommit-multi-connection", map[string]any{"case": i, "history": log, "model": want, "engine": got, "observer": oc})
			return
		}
		r.Distinct(fmt.Sprintf("wire|writer=%d|observer=%d|conns=%d|rows=%d", c, oc, nc, min(len(t.rows), 3)))
	}
	r.Count("wire.histories", 1)
}

// ---------- pinned witnesses of known findings ----------

func pinned(r *core.Run) {
	script := func(e *core.Eng, stmts ...string) map[string]*core.Sess {
		ss := map[string]*core.Sess{}
		for _, line := range stmts {
			tag, q := line[:2], line[4:]
			if ss[tag] == nil {
				ss[tag] = e.NewSess()
			}
			ss[tag].Exec(q)
		}
		return ss
	}
	// 1. SELECT ... INTO inside a loop assigns only in the first iteration
	{
		e := core.NewEng("d")
		ss := script(e, "s0: "+createT, "s0: "+createPlog, "s0: "+procLoop(1), "s0: INSERT INTO t VALUES (1, 2, 0), (2, 2, 0)", "s0: CALL p_loop(100, 2, 3)")
		got := g10lib.Dump(ss["s0"], "plog")
		want := []string{"#id,n", "100|3", "101|4", "102|5"}
		r.Pinned("proc-loop-select-into-keeps-first-iteration-value", fmt.Sprintf("SELECT COUNT(*) INTO n re-executed by a WHILE loop keeps the first iteration's value: plog=%v, expected %v", got, want),
			!core.SameStrings(got, want), map[string]any{"procedure": procLoop(1), "call": "CALL p_loop(100, 2, 3)", "plog": got, "expected": want})
		e.Close()
	}
	// 2. CALL inside an open transaction discards the session's uncommitted writes
	{
		e := core.NewEng("d")
		ss := script(e, "s0: "+createT, "s0: "+createU, "s0: "+procRead, "s0: INSERT INTO u VALUES (2, 2, 3)", "s0: START TRANSACTION",
			"s0: INSERT INTO u (id, v, w) VALUES (101, 0, 2)", "s0: CALL p_read(2)")
		got := g10lib.Dump(ss["s0"], "u")
		want := []string{"#id,v,w", "101|0|2", "2|2|3"}
		r.Pinned("call-in-open-transaction-discards-uncommitted-writes", fmt.Sprintf("after START TRANSACTION; INSERT INTO u ...; CALL p_read(2) the session no longer sees its own uncommitted row: u=%v, expected %v", got, want),
			!core.SameStrings(got, want), map[string]any{"u": got, "expected": want})
		e.Close()
	}
	// 3. a query on a view inside an open transaction commits it
	{
		e := core.NewEng("d")
		ss := script(e, "s0: "+createT, "s0: CREATE VIEW vw AS SELECT v FROM t", "s0: INSERT INTO t VALUES (3, 1, NULL)", "s1: START TRANSACTION",
			"s1: UPDATE t SET v = 3 WHERE id = 3", "s1: SELECT * FROM vw", "s1: ROLLBACK")
		got := g10lib.Dump(ss["s0"], "t")
		want := []string{"#id,v,w", "3|1|NULL"}
		r.Pinned("view-query-in-open-transaction-commits", fmt.Sprintf("START TRANSACTION; UPDATE t ...; SELECT * FROM vw; ROLLBACK leaves the update in place: t=%v, expected %v", got, want),
			!core.SameStrings(got, want), map[string]any{"t": got, "expected": want})
		e.Close()
	}
	// 4. PrepareQuery (= COM_STMT_PREPARE) leaves a transaction open that pins the session's table snapshots
	{
		e := core.NewEng("d")
		ss := script(e, "s0: "+createT, "s0: INSERT INTO t VALUES (1, 1, NULL)")
		s1 := e.NewSess()
		_, _ = s1.Eng.E.PrepareQuery(s1.Ctx(), "SELECT id, v FROM t WHERE id <> ?")
		ss["s0"].Exec("INSERT INTO t VALUES (2, 2, NULL)")
		got := g10lib.Dump(s1, "t")
		want := []string{"#id,v,w", "1|1|NULL", "2|2|NULL"}
		r.Pinned("prepare-pins-session-snapshot", fmt.Sprintf("session 1 prepares a statement on t, session 0 then commits a row, session 1's next statement does not see it (and its commit removes it for everyone): t=%v, expected %v", got, want),
			!core.SameStrings(got, want), map[string]any{"t_seen_by_session1": got, "expected": want, "t_seen_by_session0_afterwards": g10lib.Dump(ss["s0"], "t")})
		e.Close()
	}
	// 5. over the wire a failed autocommit statement leaves its transaction (and snapshots) open
	{
		e := core.NewEng("d")
		s0 := e.NewSess()
		s0.Exec(createT)
		s0.Exec("INSERT INTO t VALUES (1, 1, NULL)")
		srv, db, err := g10lib.StartServer(e, "")
		if err == nil {
			wireDump(db, "t")
			ferr := wireExec(db, "INSERT INTO t VALUES (1, 9, 9)") // duplicate key
			s0.Exec("INSERT INTO t VALUES (2, 2, NULL)")
			got := wireDump(db, "t")
			want := []string{"#id,v,w", "1|1|NULL", "2|2|NULL"}
			r.Pinned("wire-failed-statement-keeps-transaction-open", fmt.Sprintf("connection A: INSERT fails (%v); another session commits a row; connection A's next SELECT does not see it: t=%v, expected %v", ferr, got, want),
				ferr != nil && !core.SameStrings(got, want), map[string]any{"t_seen_by_connection": got, "expected": want})
			db.Close()
			srv.Close()
		}
		e.Close()
	}
}
