package main

import (
	"fmt"
	"sort"
	"strings"
)

// Reference evaluation of the fixed query objects directly over the model (independent of the engine,
// so that even a process-wide cache cannot fool it). w and plog.n are nullable; id and v are not.

type mrow struct {
	id, v int64
	w     cell
	rest  []cell
}

func (h *hist) rowsOf(tb string) []mrow {
	t := h.m.tabs[tb]
	out := make([]mrow, 0, len(t.rows))
	for _, r := range t.rows {
		if tb == "plog" {
			out = append(out, mrow{id: r[0].v, w: r[1]})
			continue
		}
		out = append(out, mrow{id: r[0].v, v: r[1].v, w: r[2], rest: r[3:]})
	}
	return out
}

func fmtRow(cs ...any) string {
	parts := make([]string, len(cs))
	for i, c := range cs {
		switch x := c.(type) {
		case cell:
			parts[i] = x.String()
		default:
			parts[i] = fmt.Sprint(x)
		}
	}
	return strings.Join(parts, "|")
}

// viewAggRows evaluates vw_agg (v, c) with the current definition's excluded id (-1: none).
func (h *hist) viewAggRows() map[int64]int64 {
	g := map[int64]int64{}
	for _, r := range h.rowsOf("t") {
		if h.viewExcl >= 0 && r.id == h.viewExcl {
			continue
		}
		g[r.v]++
	}
	return g
}

// refEval returns the sorted canonical rows the query object must return on the model's data, or
// ok=false when the object has no reference twin.
func (h *hist) refEval(name string, p int64) ([]string, bool) {
	T, U, P := h.rowsOf("t"), h.rowsOf("u"), h.rowsOf("plog")
	var out []string
	switch name {
	case "in-subquery", "proc-read":
		s := map[int64]bool{}
		for _, u := range U {
			if !u.w.null && u.w.v >= p {
				s[u.v] = true
			}
		}
		for _, t := range T {
			if s[t.v] {
				out = append(out, fmtRow(t.id, t.v))
			}
		}
	case "in-subquery-self":
		s := map[int64]bool{}
		for _, t := range T {
			if !t.w.null && t.w.v > p {
				s[t.v] = true
			}
		}
		for _, t := range T {
			if s[t.v] {
				out = append(out, fmtRow(t.id))
			}
		}
	case "scalar-subquery-proj":
		m := nullCell
		for _, u := range U {
			if u.v != p && !u.w.null && (m.null || u.w.v > m.v) {
				m = u.w
			}
		}
		for _, t := range T {
			out = append(out, fmtRow(t.id, m))
		}
	case "scalar-subquery-where":
		m := nullCell
		for _, u := range U {
			if u.id != p && !u.w.null && (m.null || u.w.v < m.v) {
				m = u.w
			}
		}
		for _, t := range T {
			if !m.null && !t.w.null && t.w.v >= m.v {
				out = append(out, fmtRow(t.id, t.w))
			}
		}
	case "scalar-count":
		for _, t := range T {
			out = append(out, fmtRow(t.id, int64(len(U))+p))
		}
	case "hash-join":
		for _, t := range T {
			for _, u := range U {
				if t.v == u.v && u.id != p {
					out = append(out, fmtRow(t.id, u.id))
				}
			}
		}
	case "join-derived":
		g := map[int64]int64{}
		for _, u := range U {
			g[u.v]++
		}
		for _, t := range T {
			if c := g[t.v]; c > 0 && t.id != p {
				out = append(out, fmtRow(t.id, c))
			}
		}
	case "left-join":
		for _, t := range T {
			n := 0
			for _, u := range U {
				if t.v == u.v && !u.w.null && u.w.v > p {
					out = append(out, fmtRow(t.id, u.id))
					n++
				}
			}
			if n == 0 {
				out = append(out, fmtRow(t.id, nullCell))
			}
		}
	case "cte-twice":
		g := map[int64]int64{}
		for _, t := range T {
			g[t.v]++
		}
		for v, c := range g {
			if c != p {
				out = append(out, fmtRow(v, c))
			}
		}
	case "cte-twice-union":
		for _, t := range T {
			if t.v != p {
				out = append(out, fmtRow(t.id), fmtRow(t.v))
			}
		}
	case "view-join":
		for _, t := range T {
			for _, u := range U {
				if t.v == u.v && t.id != p {
					out = append(out, fmtRow(t.id, t.v, u.id, u.w))
				}
			}
		}
	case "view-agg":
		for v, c := range h.viewAggRows() {
			if c >= p {
				out = append(out, fmtRow(v, c))
			}
		}
	case "view-in-subquery":
		s := map[int64]bool{}
		for v, c := range h.viewAggRows() {
			if c > p {
				s[v] = true
			}
		}
		for _, u := range U {
			if s[u.v] {
				out = append(out, fmtRow(u.id))
			}
		}
	case "exists":
		for _, t := range T {
			for _, u := range U {
				if u.v == t.v && !u.w.null && u.w.v != p {
					out = append(out, fmtRow(t.id))
					break
				}
			}
		}
	case "agg":
		type acc struct {
			n   int64
			sum cell
		}
		g := map[int64]*acc{}
		for _, t := range T {
			if t.id == p {
				continue
			}
			a := g[t.v]
			if a == nil {
				a = &acc{sum: nullCell}
				g[t.v] = a
			}
			a.n++
			if !t.w.null {
				if a.sum.null {
					a.sum = iv(0)
				}
				a.sum.v += t.w.v
			}
		}
		for v, a := range g {
			out = append(out, fmtRow(v, a.n, a.sum))
		}
	case "star":
		for _, t := range T {
			if t.id != p {
				cs := []any{t.id, t.v, t.w}
				for _, c := range t.rest {
					cs = append(cs, c)
				}
				out = append(out, fmtRow(cs...))
			}
		}
	case "self-join":
		for _, a := range T {
			for _, b := range T {
				if a.v == b.v && a.id < b.id && (a.w.null || a.w.v != p) {
					out = append(out, fmtRow(a.id, b.id))
				}
			}
		}
	case "three-way":
		for _, t := range T {
			for _, u := range U {
				if t.v != u.v {
					continue
				}
				for _, pl := range P {
					if !pl.w.null && pl.w.v == t.v && pl.id != p {
						out = append(out, fmtRow(t.id, u.id, pl.w))
					}
				}
			}
		}
	case "plog":
		for _, pl := range P {
			if !pl.w.null && pl.w.v != p {
				out = append(out, fmtRow(pl.id, pl.w))
			}
		}
	default:
		return nil, false
	}
	if out == nil {
		out = []string{}
	}
	sort.Strings(out)
	return out, true
}
