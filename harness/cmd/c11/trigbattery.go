package main

// Row triggers fired several times by one statement. The trigger body is planned once per statement and executed once
// per row; its subqueries read a table the body itself changes, so every firing must see the rows the earlier firings
// left, not the result (IN hash table, scalar value, row count) computed for the first one. The reference is a Go twin
// that runs the body row by row over a set of integers.

import (
	"fmt"
	"math/rand"
	"sort"
	"strings"

	"verif/harness/core"
)

type trigCond struct {
	name string
	sql  string
	eval func(id int64, blocked map[int64]bool) bool
}

func maxOf(b map[int64]bool) (int64, bool) {
	var m int64
	ok := false
	for k := range b {
		if !ok || k > m {
			m, ok = k, true
		}
	}
	return m, ok
}

var trigConds = []trigCond{
	{"in", "new.id in (select id from blocked)", func(id int64, b map[int64]bool) bool { return b[id] }},
	{"not-in", "new.id not in (select id from blocked)", func(id int64, b map[int64]bool) bool { return !b[id] }},
	{"in-expr", "new.id in (select id + 1 from blocked where id > 0)", func(id int64, b map[int64]bool) bool { return id-1 > 0 && b[id-1] }},
	{"exists", "exists (select 1 from blocked where id = new.id)", func(id int64, b map[int64]bool) bool { return b[id] }},
	{"not-exists", "not exists (select 1 from blocked where id = new.id)", func(id int64, b map[int64]bool) bool { return !b[id] }},
	{"count-star", "(select count(*) from blocked) >= 2", func(id int64, b map[int64]bool) bool { return len(b) >= 2 }},
	{"count-in", "(select count(*) from blocked) in (select id from blocked)", func(id int64, b map[int64]bool) bool { return b[int64(len(b))] }},
	{"max", "(select max(id) from blocked) >= new.id", func(id int64, b map[int64]bool) bool { m, ok := maxOf(b); return ok && m >= id }},
	{"filtered-count", "(select count(*) from blocked where id < new.id) = 1", func(id int64, b map[int64]bool) bool {
		n := 0
		for k := range b {
			if k < id {
				n++
			}
		}
		return n == 1
	}},
}

func trigBattery(r *core.Run) {
	n := r.N(150, 1500)
	r.Parallel("trig", n, func(i int) {
		rnd := r.Rand("trig", i)
		c := trigConds[i%len(trigConds)]
		after := rnd.Intn(3) == 0 // AFTER INSERT trigger writing a log row instead of BEFORE INSERT changing NEW.v
		valueKind := rnd.Intn(3)  // what NEW.v becomes when the condition holds: -1, count(*), max(id)
		d := int64(1 + rnd.Intn(2))
		sideKind := rnd.Intn(3) // insert; move the matching row then insert; delete the matching row then insert
		var body []string
		then := "set new.v = -1"
		switch {
		case after:
			then = "insert into tlog values (new.id)"
		case valueKind == 1:
			then = "set new.v = (select count(*) from blocked)"
		case valueKind == 2:
			then = "set new.v = (select max(id) from blocked)"
		}
		body = append(body, "if "+c.sql+" then "+then+"; end if")
		switch sideKind {
		case 1:
			body = append(body, "update blocked set id = id + 1000 where id = new.id")
		case 2:
			body = append(body, "delete from blocked where id = new.id")
		}
		body = append(body, fmt.Sprintf("insert into blocked values (new.id + %d)", d))
		timing := "before"
		if after {
			timing = "after"
		}
		trg := "create trigger trg " + timing + " insert on t for each row begin " + strings.Join(body, "; ") + "; end"

		// the twin
		blocked := map[int64]bool{}
		type trow struct{ id, v int64; null bool }
		var tRows []trow
		var tlog []int64
		var setup []string
		for k := 0; k < rnd.Intn(3); k++ {
			b := int64(1 + rnd.Intn(12))
			if !blocked[b] {
				blocked[b] = true
				setup = append(setup, fmt.Sprintf("insert into blocked values (%d)", b))
			}
		}
		fire := func(id int64) bool {
			v, null := int64(0), false
			if c.eval(id, blocked) {
				switch {
				case after:
					tlog = append(tlog, id)
				case valueKind == 1:
					v = int64(len(blocked))
				case valueKind == 2:
					m, ok := maxOf(blocked)
					v, null = m, !ok
				default:
					v = -1
				}
			}
			switch sideKind {
			case 1:
				if blocked[id] {
					if blocked[id+1000] {
						return false
					}
					delete(blocked, id)
					blocked[id+1000] = true
				}
			case 2:
				delete(blocked, id)
			}
			if blocked[id+d] {
				return false
			}
			blocked[id+d] = true
			tRows = append(tRows, trow{id, v, null})
			return true
		}
		var stmts []string
		next := int64(1)
		for s := 0; s < 1+rnd.Intn(2); s++ {
			var vals []string
			for k := 0; k < 3+rnd.Intn(4); k++ {
				next += int64(rnd.Intn(3))
				if !fire(next) {
					r.Count("trig.case-dropped:duplicate-key-predicted", 1)
					return
				}
				vals = append(vals, fmt.Sprintf("(%d, 0)", next))
				next++
			}
			stmts = append(stmts, "insert into t values "+strings.Join(vals, ", "))
		}

		e := core.NewEng("d")
		defer e.Close()
		ss := e.NewSess()
		script := append([]string{"create table t (id int primary key, v int)", "create table blocked (id int primary key)", "create table tlog (id int primary key)"}, setup...)
		script = append(script, trg)
		script = append(script, stmts...)
		for _, q := range script {
			res := ss.Exec(q)
			if res.TimedOut {
				r.Inconclusive("trig-watchdog")
				return
			}
			if res.Failed() {
				r.Inconclusive("trig-statement-failed:" + res.ErrClass())
				return
			}
		}
		var wantT, wantB, wantL []string
		for _, x := range tRows {
			if x.null {
				wantT = append(wantT, fmt.Sprintf("%d|NULL", x.id))
			} else {
				wantT = append(wantT, fmt.Sprintf("%d|%d", x.id, x.v))
			}
		}
		for k := range blocked {
			wantB = append(wantB, fmt.Sprint(k))
		}
		for _, k := range tlog {
			wantL = append(wantL, fmt.Sprint(k))
		}
		sort.Strings(wantT)
		sort.Strings(wantB)
		sort.Strings(wantL)
		gotT := core.SortedRows(ss.Exec("select id, v from t").Rows)
		gotB := core.SortedRows(ss.Exec("select id from blocked").Rows)
		gotL := core.SortedRows(ss.Exec("select id from tlog").Rows)
		r.Eval(3)
		r.Count("trig.firings", int64(len(tRows)))
		if !core.SameStrings(gotT, wantT) || !core.SameStrings(gotB, wantB) || !core.SameStrings(gotL, wantL) {
			r.Violation("trigger-firing-reads-earlier-state:"+c.name, map[string]any{"script": script, "t": gotT, "t-expected": wantT,
				"blocked": gotB, "blocked-expected": wantB, "tlog": gotL, "tlog-expected": wantL, "seed": r.Seed, "case": i})
			return
		}
		r.Distinct(fmt.Sprintf("trig|%s|%s|value=%d|side=%d", c.name, timing, valueKind, sideKind))
	})
}

var _ = rand.Int
