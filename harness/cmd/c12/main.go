// C12 — prepared statements behave like the inlined statement text.
//
// One case = one parameterised statement, prepared once on each of three paths and executed 3–6 times
// with fresh typed values, interleaved with literal DML and DDL applied identically everywhere:
//
//	L   literal text through Engine.Query                                   (reference side of A and B)
//	A   Engine.QueryWithBindings, bindings built exactly as the server does  (BuildBindVariable →
//	    BindVariableToValue → ExprFromValue), with and without a preceding PrepareQuery
//	B   SQL PREPARE ps FROM '…' / SET @vN = literal / EXECUTE ps USING @v1, …
//	WL  go-sql-driver with interpolateParams=true (client-side literals)      (reference side of WP)
//	WP  go-sql-driver server-side prepare: COM_STMT_PREPARE / COM_STMT_EXECUTE over a real connection
//
// Every world is its own engine holding the same data. After each execution the outcome (rows,
// affected rows, error class) and the resulting contents of both tables are compared with the
// reference side.
package main

import (
	"context"
	dsql "database/sql"
	"errors"
	"fmt"
	"math/rand"
	"sort"
	"strconv"
	"strings"
	"time"

	"github.com/dolthub/go-mysql-server/sql"
	"github.com/dolthub/vitess/go/sqltypes"
	"github.com/dolthub/vitess/go/vt/sqlparser"
	"github.com/go-sql-driver/mysql"

	"verif/harness/core"
	"verif/harness/g10lib"
)

// ---------- values ----------

type val struct {
	Kind string // null int uint float str bytes time dec
	I    int64
	U    uint64
	F    float64
	S    string
	B    []byte
}

func (v val) String() string { return v.Kind + ":" + v.lit() }

// lit is the value written as a literal in statement text.
func (v val) lit() string {
	switch v.Kind {
	case "null":
		return "NULL"
	case "int":
		return fmt.Sprintf("%d", v.I)
	case "uint":
		return fmt.Sprintf("%d", v.U)
	case "float":
		// exponent form: the engine (like MySQL) types only literals with an exponent as DOUBLE
		return fmtFloatLit(v.F)
	case "str", "time":
		return g10lib.QuoteStr(v.S)
	case "dec":
		return v.S
	case "bytes":
		return g10lib.HexLit(v.B)
	}
	panic("kind")
}

func fmtFloatLit(f float64) string {
	return strings.Replace(strconv.FormatFloat(f, 'e', -1, 64), "e+", "e", 1)
}

// bind is the binding the server would hand to QueryWithBindings for this value.
func (v val) bind() (sqlparser.Expr, error) {
	var in any
	switch v.Kind {
	case "null":
		in = nil
	case "int":
		in = v.I
	case "uint":
		in = v.U
	case "float":
		in = v.F
	case "str":
		in = v.S
	case "bytes":
		in = v.B
	case "time":
		in = sqltypes.MakeTrusted(sqltypes.Datetime, []byte(v.S))
	case "dec":
		in = sqltypes.MakeTrusted(sqltypes.Decimal, []byte(v.S))
	}
	bv, err := sqltypes.BuildBindVariable(in)
	if err != nil {
		return nil, err
	}
	sv, err := sqltypes.BindVariableToValue(bv)
	if err != nil {
		return nil, err
	}
	return sqlparser.ExprFromValue(sv)
}

// goArg is the database/sql argument.
func (v val) goArg() any {
	switch v.Kind {
	case "null":
		return nil
	case "int":
		return v.I
	case "uint":
		return v.U
	case "float":
		return v.F
	case "str", "dec":
		return v.S
	case "bytes":
		return v.B
	case "time":
		t, err := time.Parse("2006-01-02 15:04:05", v.S)
		if err != nil {
			panic(err)
		}
		return t
	}
	panic("kind")
}

var strPool = []string{"", "a", "A", "ab", "abc", "b", "x y", "it's", `back\slash`, "pct%", "und_r", "ünï", "日本", "a ", " a", "12", "007", "1e2", "NULL", "\"dq\"", "new\nline", "q?mark", "semi;colon", "--c"}
var likePool = []string{"a%", "%b%", "_", "%", "a_", "ab%", "%c", "x%y", "pct\\%", "ünï"}
var intPool = []int64{0, 1, 2, 3, 4, 5, 7, 10, -1, -3, 100, 127, 128, 255, 65535, 2147483647, -2147483648, 4294967296, 9223372036854775807, -9223372036854775808}
var smallInts = []int64{0, 1, 2, 3, 4, 5, 6, 7, 8, 10, 12, -1}
var decPool = []string{"0.000", "1.500", "2.250", "10.125", "-3.750", "1.5", "2", "99999.999", "0.001", "123456789.123", "-0.5", "7.10"}
var floatPool = []float64{0, 1.5, 2.25, -0.125, 10, 1e10, 3.0, 0.1, 2.2, -7.7, 1e-3, 123456.789}
var dyadic = []float64{0, 1.5, 2.25, -0.125, 10, 3.0, 1024.5, -8, 0.5}
var timePool = []string{"2020-01-01 00:00:00", "2021-03-04 05:06:07", "1999-12-31 23:59:59", "2024-02-29 12:00:00", "2021-03-04 00:00:00", "2038-01-19 03:14:08"}
var bytesPool = [][]byte{{}, []byte("a"), []byte("abc"), {0x00}, {0x00, 0x01, 0x02}, {0xff}, {0xc3, 0x28}, {0x27, 0x5c}, []byte("A"), {0x80, 0x81, 0xfe}}
var uintPool = []uint64{0, 1, 5, 255, 4294967295, 9223372036854775807, 9223372036854775808, 18446744073709551615}

func pick[T any](rnd *rand.Rand, p []T) T { return p[rnd.Intn(len(p))] }

// genVal draws a value for a slot class. wire restricts floats to dyadic rationals (exact both as a
// DECIMAL literal — what the driver's interpolation writes — and as the DOUBLE the binary protocol
// carries), which keeps the two wire sides comparable exactly.
func genVal(rnd *rand.Rand, slot string) val {
	k := slot
	if slot != "limit" && slot != "smallint" {
		p := rnd.Intn(100)
		switch {
		case p < 8:
			k = "null"
		case p < 15:
			k = pick(rnd, []string{"int", "str", "dec", "float", "time", "uint"})
		}
	}
	switch k {
	case "null":
		return val{Kind: "null"}
	case "limit":
		return val{Kind: "int", I: int64(rnd.Intn(6))}
	case "smallint":
		return val{Kind: "int", I: pick(rnd, smallInts)}
	case "int":
		if rnd.Intn(3) == 0 {
			return val{Kind: "int", I: pick(rnd, intPool)}
		}
		return val{Kind: "int", I: pick(rnd, smallInts)}
	case "uint":
		return val{Kind: "uint", U: pick(rnd, uintPool)}
	case "float":
		if rnd.Intn(2) == 0 {
			return val{Kind: "float", F: pick(rnd, dyadic)}
		}
		return val{Kind: "float", F: pick(rnd, floatPool)}
	case "str":
		return val{Kind: "str", S: pick(rnd, strPool)}
	case "like":
		return val{Kind: "str", S: pick(rnd, likePool)}
	case "dec":
		return val{Kind: "dec", S: pick(rnd, decPool)}
	case "time":
		return val{Kind: "time", S: pick(rnd, timePool)}
	case "bytes":
		return val{Kind: "bytes", B: pick(rnd, bytesPool)}
	}
	panic("slot " + slot)
}

func isDyadic(f float64) bool {
	for _, d := range dyadic {
		if d == f {
			return true
		}
	}
	return false
}

// ---------- statement templates ----------

type tmpl struct {
	name    string
	sql     string   // with ? placeholders
	slots   []string // slot class per placeholder
	sel     bool
	ordered bool // result order is total → compare as a sequence
}

var tmpls = []tmpl{
	// SELECT: parameters in WHERE
	{"sel-eq-int", "SELECT id, a, b FROM t WHERE a = ?", []string{"smallint"}, true, false},
	{"sel-cmp-int", "SELECT id, a FROM t WHERE a < ? ORDER BY id", []string{"int"}, true, true},
	{"sel-between", "SELECT id FROM t WHERE a BETWEEN ? AND ?", []string{"smallint", "smallint"}, true, false},
	{"sel-eq-str", "SELECT id, b FROM t WHERE b = ?", []string{"str"}, true, false},
	{"sel-like", "SELECT id, b FROM t WHERE b LIKE ?", []string{"like"}, true, false},
	{"sel-dec", "SELECT id, c FROM t WHERE c >= ?", []string{"dec"}, true, false},
	{"sel-float", "SELECT id, d FROM t WHERE d < ?", []string{"float"}, true, false},
	{"sel-time", "SELECT id, e FROM t WHERE e >= ?", []string{"time"}, true, false},
	{"sel-bytes", "SELECT id, f FROM t WHERE f = ?", []string{"bytes"}, true, false},
	{"sel-uint", "SELECT id, u FROM t WHERE u > ?", []string{"uint"}, true, false},
	{"sel-in-list", "SELECT id, a FROM t WHERE a IN (?, ?, ?)", []string{"smallint", "smallint", "int"}, true, false},
	{"sel-in-str", "SELECT id FROM t WHERE b IN (?, ?)", []string{"str", "str"}, true, false},
	{"sel-or", "SELECT id FROM t WHERE a = ? OR b = ?", []string{"smallint", "str"}, true, false},
	{"sel-nullsafe", "SELECT id FROM t WHERE a <=> ?", []string{"smallint"}, true, false},
	{"sel-isnull", "SELECT id FROM t WHERE ? IS NULL AND id > ?", []string{"int", "smallint"}, true, false},
	{"sel-pk", "SELECT * FROM t WHERE id = ?", []string{"smallint"}, true, false},
	{"sel-pk-range", "SELECT * FROM t WHERE id >= ? AND id < ? ORDER BY id", []string{"smallint", "int"}, true, true},
	// SELECT: parameters in the projection
	{"proj-arith", "SELECT id, a + ?, a * ? FROM t WHERE id <= ?", []string{"smallint", "smallint", "smallint"}, true, false},
	{"proj-concat", "SELECT id, CONCAT(b, ?) FROM t WHERE id <> ?", []string{"str", "smallint"}, true, false},
	{"proj-bare", "SELECT ?, ?", []string{"int", "str"}, true, true},
	{"proj-bare-mixed", "SELECT ?, ?, ?", []string{"dec", "float", "time"}, true, true},
	{"proj-bare-bytes", "SELECT ?, LENGTH(?), HEX(?)", []string{"bytes", "bytes", "bytes"}, true, true},
	{"proj-bare-uint", "SELECT ?, ? + 1", []string{"uint", "int"}, true, true},
	{"proj-coalesce", "SELECT id, COALESCE(?, a) FROM t", []string{"int"}, true, false},
	{"proj-case", "SELECT id, CASE WHEN a > ? THEN ? ELSE b END FROM t", []string{"smallint", "str"}, true, false},
	{"proj-dec-arith", "SELECT id, c + ? FROM t WHERE id < ?", []string{"dec", "smallint"}, true, false},
	// LIMIT / OFFSET
	{"limit", "SELECT id FROM t ORDER BY id LIMIT ?", []string{"limit"}, true, true},
	{"limit-offset", "SELECT id, a FROM t ORDER BY id LIMIT ? OFFSET ?", []string{"limit", "limit"}, true, true},
	{"limit-where", "SELECT id FROM t WHERE a >= ? ORDER BY id DESC LIMIT ?", []string{"smallint", "limit"}, true, true},
	// subqueries, derived tables, joins, aggregation
	{"sub-in", "SELECT id FROM t WHERE a IN (SELECT a FROM s WHERE id > ?)", []string{"smallint"}, true, false},
	{"sub-scalar", "SELECT id, (SELECT COUNT(*) FROM s WHERE s.a = t.a AND s.id <> ?) FROM t", []string{"smallint"}, true, false},
	{"sub-exists", "SELECT id FROM t WHERE EXISTS (SELECT 1 FROM s WHERE s.a = t.a AND s.b = ?)", []string{"str"}, true, false},
	{"derived", "SELECT * FROM (SELECT id, a FROM t WHERE a > ?) x WHERE x.id < ?", []string{"smallint", "int"}, true, false},
	{"join", "SELECT t.id, s.id FROM t JOIN s ON t.a = s.a WHERE s.id >= ? AND t.b <> ?", []string{"smallint", "str"}, true, false},
	{"left-join", "SELECT t.id, s.id FROM t LEFT JOIN s ON t.a = s.a AND s.id > ? WHERE t.id < ?", []string{"smallint", "int"}, true, false},
	{"group-having", "SELECT a, COUNT(*) FROM t WHERE id > ? GROUP BY a HAVING COUNT(*) >= ?", []string{"smallint", "limit"}, true, false},
	{"union", "SELECT id FROM t WHERE a = ? UNION SELECT id FROM s WHERE a = ?", []string{"smallint", "smallint"}, true, false},
	{"cte", "WITH x AS (SELECT id, a FROM t WHERE a <> ?) SELECT x1.id, x2.id FROM x x1 JOIN x x2 ON x1.a = x2.a WHERE x1.id < ?", []string{"smallint", "int"}, true, false},
	// DML
	{"ins-full", "INSERT INTO t (id, a, b, c, d, e, f, u) VALUES (?, ?, ?, ?, ?, ?, ?, ?)", []string{"smallint", "int", "str", "dec", "float", "time", "bytes", "uint"}, false, false},
	{"ins-two", "INSERT INTO t (id, a, b) VALUES (?, ?, ?), (?, ?, ?)", []string{"smallint", "smallint", "str", "smallint", "smallint", "str"}, false, false},
	{"ins-s", "INSERT INTO s VALUES (?, ?, ?)", []string{"smallint", "smallint", "str"}, false, false},
	{"upd-pk", "UPDATE t SET a = ?, b = ? WHERE id = ?", []string{"smallint", "str", "smallint"}, false, false},
	{"upd-range", "UPDATE t SET a = a + ? WHERE a < ?", []string{"smallint", "smallint"}, false, false},
	{"upd-dec", "UPDATE t SET c = ?, d = ? WHERE id >= ?", []string{"dec", "float", "smallint"}, false, false},
	{"upd-time-bytes", "UPDATE t SET e = ?, f = ? WHERE id = ?", []string{"time", "bytes", "smallint"}, false, false},
	{"del-eq", "DELETE FROM t WHERE a = ?", []string{"smallint"}, false, false},
	{"del-in", "DELETE FROM t WHERE id IN (?, ?)", []string{"smallint", "smallint"}, false, false},
	{"del-str", "DELETE FROM s WHERE b = ? OR id = ?", []string{"str", "smallint"}, false, false},
	{"odku", "INSERT INTO t (id, a, b) VALUES (?, ?, ?) ON DUPLICATE KEY UPDATE a = ?, b = VALUES(b)", []string{"smallint", "smallint", "str", "smallint"}, false, false},
	{"replace", "REPLACE INTO s VALUES (?, ?, ?)", []string{"smallint", "smallint", "str"}, false, false},
	{"ins-select", "INSERT INTO s SELECT id + ?, a, b FROM t WHERE a > ?", []string{"int", "smallint"}, false, false},
	{"ins-ignore", "INSERT IGNORE INTO t (id, a, b) VALUES (?, ?, ?)", []string{"smallint", "int", "str"}, false, false},
}

func (t tmpl) inline(vs []val) string {
	var b strings.Builder
	k := 0
	for i := 0; i < len(t.sql); i++ {
		if t.sql[i] == '?' {
			b.WriteString(vs[k].lit())
			k++
		} else {
			b.WriteByte(t.sql[i])
		}
	}
	return b.String()
}

// ---------- schema and interleaved statements ----------

var createT = []string{
	"CREATE TABLE t (id INT PRIMARY KEY, a INT, b VARCHAR(32), c DECIMAL(14,3), d DOUBLE, e DATETIME, f VARBINARY(32), u BIGINT UNSIGNED)",
	"CREATE TABLE t (id INT PRIMARY KEY, a INT, b VARCHAR(32), c DECIMAL(14,3), d DOUBLE, e DATETIME, f VARBINARY(32), u BIGINT UNSIGNED, KEY ia (a))",
	"CREATE TABLE t (id INT PRIMARY KEY, a INT, b VARCHAR(32), c DECIMAL(14,3), d DOUBLE, e DATETIME, f VARBINARY(32), u BIGINT UNSIGNED, KEY ia (a), KEY ib (b), KEY ie (e))",
	"CREATE TABLE t (id BIGINT PRIMARY KEY, a BIGINT, b TEXT, c DECIMAL(20,5), d DOUBLE, e DATETIME, f BLOB, u BIGINT UNSIGNED, KEY iab (a, id))",
}

// recreate variants used by the drop+recreate DDL step (column set kept, types changed)
var recreateT = []string{
	"CREATE TABLE t (id INT PRIMARY KEY, a BIGINT, b VARCHAR(64), c DECIMAL(16,4), d DOUBLE, e DATETIME, f VARBINARY(40), u BIGINT UNSIGNED)",
	"CREATE TABLE t (id INT PRIMARY KEY, a DECIMAL(12,2), b VARCHAR(32), c DECIMAL(14,3), d DOUBLE, e DATETIME, f VARBINARY(32), u BIGINT UNSIGNED, KEY ia (a))",
	"CREATE TABLE t (id INT PRIMARY KEY, a INT, b VARCHAR(32), c DOUBLE, d DECIMAL(20,6), e DATETIME, f VARBINARY(32), u BIGINT UNSIGNED)",
	"CREATE TABLE t (a INT, id INT PRIMARY KEY, b VARCHAR(32), c DECIMAL(14,3), d DOUBLE, e DATETIME, f VARBINARY(32), u BIGINT UNSIGNED)",
}

const createS = "CREATE TABLE s (id INT PRIMARY KEY, a INT, b VARCHAR(32))"

func genRowT(rnd *rand.Rand, id int) string {
	col := func(slot string) string {
		v := genVal(rnd, slot)
		for v.Kind != slot && v.Kind != "null" && !(slot == "smallint" && v.Kind == "int") {
			v = genVal(rnd, slot)
		}
		return v.lit()
	}
	return fmt.Sprintf("INSERT INTO t (id, a, b, c, d, e, f, u) VALUES (%d, %s, %s, %s, %s, %s, %s, %s)", id,
		col("smallint"), col("str"), col("dec"), col("float"), col("time"), col("bytes"), col("uint"))
}

func genSetup(rnd *rand.Rand) []string {
	out := []string{pick(rnd, createT), createS}
	n := 5 + rnd.Intn(8)
	for i := 1; i <= n; i++ {
		out = append(out, genRowT(rnd, i))
	}
	m := 3 + rnd.Intn(5)
	for i := 1; i <= m; i++ {
		out = append(out, fmt.Sprintf("INSERT INTO s VALUES (%d, %d, %s)", i, pick(rnd, smallInts), g10lib.QuoteStr(pick(rnd, strPool))))
	}
	return out
}

// genInterleave returns literal statements applied to every world between two executions.
func genInterleave(rnd *rand.Rand, st *caseState) (kind string, stmts []string) {
	p := rnd.Intn(100)
	switch {
	case p < 30:
		return "none", nil
	case p < 65: // DML
		switch rnd.Intn(5) {
		case 0:
			st.nextID++
			return "dml-insert", []string{genRowT(rnd, 20+st.nextID)}
		case 1:
			return "dml-update", []string{fmt.Sprintf("UPDATE t SET a = %d WHERE id = %d", pick(rnd, smallInts), 1+rnd.Intn(8))}
		case 2:
			return "dml-delete", []string{fmt.Sprintf("DELETE FROM t WHERE id = %d", 1+rnd.Intn(8))}
		case 3:
			st.nextID++
			return "dml-insert-s", []string{fmt.Sprintf("INSERT INTO s VALUES (%d, %d, %s)", 20+st.nextID, pick(rnd, smallInts), g10lib.QuoteStr(pick(rnd, strPool)))}
		default:
			return "dml-update-all", []string{fmt.Sprintf("UPDATE t SET a = a + %d, b = CONCAT(b, 'z') WHERE id > %d", 1+rnd.Intn(3), rnd.Intn(6))}
		}
	}
	// DDL
	switch rnd.Intn(10) {
	case 8:
		// schema changes on s, the table targeted by the column-list-free INSERT / REPLACE templates: a
		// prepared statement must follow the new column set exactly like the literal text does
		if st.sHasX {
			st.sHasX = false
			return "ddl-s-drop-col", []string{"ALTER TABLE s DROP COLUMN x"}
		}
		st.sHasX = true
		return "ddl-s-add-col", []string{"ALTER TABLE s ADD COLUMN x INT DEFAULT 7"}
	case 9:
		if st.sReordered {
			st.sReordered = false
			return "ddl-s-reorder-back", []string{"ALTER TABLE s MODIFY COLUMN a INT AFTER id"}
		}
		st.sReordered = true
		return "ddl-s-reorder", []string{"ALTER TABLE s MODIFY COLUMN a INT AFTER b"}
	case 0:
		if st.hasG {
			st.hasG = false
			return "ddl-drop-col", []string{"ALTER TABLE t DROP COLUMN g"}
		}
		st.hasG = true
		return "ddl-add-col", []string{"ALTER TABLE t ADD COLUMN g INT DEFAULT 7"}
	case 1:
		if !st.hasG {
			st.hasG = true
			return "ddl-add-col-first", []string{"ALTER TABLE t ADD COLUMN g VARCHAR(8) DEFAULT 'gg' FIRST"}
		}
		st.hasG = false
		return "ddl-drop-col", []string{"ALTER TABLE t DROP COLUMN g"}
	case 2:
		// drop + recreate with changed column types, then reload a few rows
		out := []string{"DROP TABLE t", pick(rnd, recreateT)}
		st.hasG = false
		st.hasIx = false
		st.droppedB = false
		n := 3 + rnd.Intn(5)
		for i := 1; i <= n; i++ {
			out = append(out, genRowT(rnd, i))
		}
		return "ddl-recreate", out
	case 3:
		if st.hasIx {
			st.hasIx = false
			return "ddl-drop-index", []string{"DROP INDEX ixn ON t"}
		}
		st.hasIx = true
		return "ddl-create-index", []string{"CREATE INDEX ixn ON t (" + pick(rnd, []string{"a", "b", "c", "a, b", "e", "u"}) + ")"}
	case 4:
		return "ddl-modify", []string{"ALTER TABLE t MODIFY a " + pick(rnd, []string{"BIGINT", "INT", "DECIMAL(12,2)", "DOUBLE"})}
	case 5:
		if !st.droppedB {
			st.droppedB = true
			return "ddl-drop-used-col", []string{"ALTER TABLE t DROP COLUMN b"}
		}
		st.droppedB = false
		return "ddl-readd-col", []string{"ALTER TABLE t ADD COLUMN b VARCHAR(32) DEFAULT 'nb'"}
	case 6:
		return "ddl-truncate", []string{"TRUNCATE TABLE t", genRowT(rnd, 1), genRowT(rnd, 2), genRowT(rnd, 3)}
	default:
		st.sHasX, st.sReordered = false, false
		return "ddl-recreate-s", []string{"DROP TABLE s", createS, fmt.Sprintf("INSERT INTO s VALUES (1, %d, 'a'), (2, %d, 'b')", pick(rnd, smallInts), pick(rnd, smallInts))}
	}
}

type caseState struct {
	nextID     int
	hasG       bool
	hasIx      bool
	droppedB   bool
	sHasX      bool
	sReordered bool
}

// ---------- worlds ----------

type world struct {
	name string
	eng  *core.Eng
	s    *core.Sess
	srv  *core.Srv
	db   *dsql.DB
	stmt *dsql.Stmt
}

func (w *world) close() {
	if w.stmt != nil {
		w.stmt.Close()
	}
	if w.db != nil {
		w.db.Close()
	}
	if w.srv != nil {
		w.srv.Close()
	}
	w.eng.Close()
}

func newWorld(name string, setup []string, wire string) (*world, error) {
	w := &world{name: name, eng: core.NewEng("d")}
	w.s = w.eng.NewSess()
	if wire != "" {
		params := ""
		if wire == "interpolate" {
			params = "interpolateParams=true"
		}
		srv, db, err := g10lib.StartServer(w.eng, params)
		if err != nil {
			w.eng.Close()
			return nil, err
		}
		w.srv, w.db = srv, db
	}
	for _, q := range setup {
		if c := w.execLit(q); c != "" {
			panic("setup statement failed in world " + name + ": " + c + ": " + q)
		}
	}
	return w, nil
}

// execLit runs a literal statement in the world's only session (the wire connection for wire
// worlds, so that a world never has two sessions) and returns its error class.
func (w *world) execLit(q string) string {
	if w.db == nil {
		return w.s.Exec(q).ErrClass()
	}
	ctx, cancel := context.WithTimeout(context.Background(), core.StmtTimeout)
	defer cancel()
	if _, err := w.db.ExecContext(ctx, q); err != nil {
		return wireErrClass(err)
	}
	return ""
}

// dump reads a table through the world's only session.
func (w *world) dump(tb string) []string {
	if w.db == nil {
		return g10lib.Dump(w.s, tb)
	}
	o := wireRun(tmpl{sql: "SELECT * FROM " + tb, sel: true}, w.db, nil, nil)
	if o.Err != "" {
		return []string{"ERR:" + o.Err}
	}
	return o.Rows
}

func wireErrClass(err error) string {
	var me *mysql.MySQLError
	if errors.As(err, &me) {
		return fmt.Sprintf("%d", me.Number)
	}
	if errors.Is(err, context.DeadlineExceeded) {
		return "timeout"
	}
	return "err"
}

// wireRun executes through database/sql; q is either the DB (interpolating side) or the prepared Stmt.
func wireRun(t tmpl, db *dsql.DB, stmt *dsql.Stmt, args []any) g10lib.Outcome {
	ctx, cancel := context.WithTimeout(context.Background(), core.StmtTimeout)
	defer cancel()
	o := g10lib.Outcome{}
	if !t.sel {
		var res dsql.Result
		var err error
		if stmt != nil {
			res, err = stmt.ExecContext(ctx, args...)
		} else {
			res, err = db.ExecContext(ctx, t.sql, args...)
		}
		if err != nil {
			o.Err, o.ErrText = wireErrClass(err), core.Clip(err.Error(), 200)
			return o
		}
		o.IsOK = true
		o.Affected, _ = res.RowsAffected()
		o.InsertID, _ = res.LastInsertId()
		return o
	}
	var rows *dsql.Rows
	var err error
	if stmt != nil {
		rows, err = stmt.QueryContext(ctx, args...)
	} else {
		rows, err = db.QueryContext(ctx, t.sql, args...)
	}
	if err != nil {
		o.Err, o.ErrText = wireErrClass(err), core.Clip(err.Error(), 200)
		return o
	}
	defer rows.Close()
	cols, _ := rows.Columns()
	cts, _ := rows.ColumnTypes()
	for _, ct := range cts {
		o.Types = append(o.Types, wireTypeClass(ct.DatabaseTypeName()))
	}
	o.Rows = []string{}
	for rows.Next() {
		cells := make([]dsql.NullString, len(cols))
		ptrs := make([]any, len(cols))
		for i := range cells {
			ptrs[i] = &cells[i]
		}
		if err := rows.Scan(ptrs...); err != nil {
			o.Err, o.ErrText = "scan", err.Error()
			return o
		}
		parts := make([]string, len(cells))
		for i, c := range cells {
			if !c.Valid {
				parts[i] = "NULL"
			} else {
				parts[i] = fmt.Sprintf("%x", c.String)
			}
		}
		o.Rows = append(o.Rows, strings.Join(parts, "|"))
	}
	if err := rows.Err(); err != nil {
		o.Err, o.ErrText = wireErrClass(err), core.Clip(err.Error(), 200)
		o.Rows = nil
		return o
	}
	if !t.ordered {
		sort.Strings(o.Rows)
	}
	return o
}

func wireTypeClass(n string) string {
	n = strings.TrimPrefix(n, "UNSIGNED ")
	switch n {
	case "TINYINT", "SMALLINT", "MEDIUMINT", "INT", "BIGINT", "YEAR", "BIT":
		return "int"
	case "FLOAT", "DOUBLE":
		return "float"
	case "DECIMAL":
		return "decimal"
	case "DATE", "DATETIME", "TIMESTAMP":
		return "temporal"
	case "TIME":
		return "time"
	case "NULL":
		return "null"
	}
	return "string"
}

// ---------- the monitor ----------

func main() {
	r := core.NewRun("C12", "exploration",
		"one case = one parameterised statement prepared once per path (QueryWithBindings with server-built bindings; SQL PREPARE/EXECUTE USING @v; go-sql-driver server-side prepare over TCP) and executed 3-6 times with fresh typed values, interleaved with literal DML/DDL; each execution's rows / affected rows / error class and the resulting contents of both tables are compared with the literal text (Engine.Query, resp. the driver's client-side interpolation); distinct = (template, path, value kinds, outcome class, preceding interleave kind)")
	r.Fold(8, 3)
	r.Assume("float parameters on the wire path are dyadic rationals so that the driver's decimal rendering and the binary DOUBLE denote the same number; non-dyadic floats are compared on the in-process paths only, against an exponent-form (DOUBLE) literal")
	r.Assume("character strings and byte strings are compared by content; the coarse type class of result columns is compared, not the exact type")
	r.Assume("datetime values are written as quoted 'YYYY-MM-DD hh:mm:ss' literals (what a bound DATETIME becomes), binary values as X'..' literals")

	n := r.N(900, 12000)
	r.Parallel("case", n, func(i int) { runCase(r, i) })
	pinned(r)

	r.Floor(r.Counter("exec.api") > 0 && r.Counter("exec.sqlprepare") > 0 && r.Counter("exec.wire") > 0, "a prepared path was never executed")
	r.Floor(r.Counter("api.prepare-branch") > 0 && r.Counter("api.cached-ast") > 0, "QueryWithBindings: PrepareQuery branch or cached-AST branch not reached")
	r.Floor(r.Counter("after-ddl.exec") > 0, "no re-execution after DDL")
	r.Floor(r.Counter("nonempty-results") > int64(n), "too few non-empty results")
	r.Finish()
}

type execRecord struct {
	Step    int      `json:"step"`
	Values  []string `json:"values"`
	Inlined string   `json:"inlined"`
	Between []string `json:"interleaved_before,omitempty"`
}

func runCase(r *core.Run, i int) {
	rnd := r.Rand("case", i)
	setup := genSetup(rnd)
	t := tmpls[rnd.Intn(len(tmpls))]
	if i < len(tmpls) { // every template at least once per stream
		t = tmpls[i]
	}
	useWire := true
	L, _ := newWorld("L", setup, "")
	A, _ := newWorld("A", setup, "")
	B, _ := newWorld("B", setup, "")
	defer L.close()
	defer A.close()
	defer B.close()
	var WL, WP *world
	if useWire {
		var err error
		WL, err = newWorld("WL", setup, "interpolate")
		if err != nil {
			r.Inconclusive("server-start")
			useWire = false
		} else {
			defer WL.close()
			WP, err = newWorld("WP", setup, "prepare")
			if err != nil {
				r.Inconclusive("server-start")
				useWire = false
			} else {
				defer WP.close()
			}
		}
	}
	worlds := []*world{L, A, B}
	if useWire {
		worlds = append(worlds, WL, WP)
	}

	history := []string{}
	witness := func(path, what string, exp, got any, rec execRecord) map[string]any {
		return map[string]any{"case": i, "template": t.name, "statement": t.sql, "path": path, "what": what,
			"setup": setup, "history": history, "execution": rec, "reference": exp, "prepared": got}
	}

	// --- prepare once on every path
	apiPrepareFirst := rnd.Intn(2) == 0
	if apiPrepareFirst {
		ctx := A.s.Ctx()
		if _, err := A.s.Eng.E.PrepareQuery(ctx, t.sql); err != nil {
			// the literal text is judged at execution time; a statement the engine cannot prepare is not comparable
			r.Inconclusive("api-prepare-error")
			return
		}
	}
	if res := B.s.Exec("PREPARE ps FROM " + g10lib.QuoteStr(t.sql)); res.Failed() {
		r.Inconclusive("sql-prepare-error:" + res.ErrClass())
		return
	}
	if useWire {
		ctx, cancel := context.WithTimeout(context.Background(), core.StmtTimeout)
		st, err := WP.db.PrepareContext(ctx, t.sql)
		cancel()
		if err != nil {
			r.Inconclusive("wire-prepare-error:" + wireErrClass(err))
			useWire = false
		} else {
			WP.stmt = st
		}
	}

	st := &caseState{}
	nexec := 3 + rnd.Intn(4)
	afterDDL := false
	lastInter := "none"
	for k := 0; k < nexec; k++ {
		vs := make([]val, len(t.slots))
		kinds := make([]string, len(vs))
		wireOK := useWire
		for j, sl := range t.slots {
			vs[j] = genVal(rnd, sl)
			kinds[j] = vs[j].Kind
			// wire sides are comparable exactly only for dyadic floats in positions typed DOUBLE anyway: the
			// interpolating client writes 1.5 (a DECIMAL literal), the binary protocol carries a DOUBLE
			if vs[j].Kind == "float" && (!isDyadic(vs[j].F) || sl != "float") {
				wireOK = false
			}
		}
		inl := t.inline(vs)
		rec := execRecord{Step: k, Inlined: inl}
		for _, v := range vs {
			rec.Values = append(rec.Values, v.String())
		}
		history = append(history, "EXEC "+inl)
		kindKey := strings.Join(kinds, ",")

		// L: literal text
		resL := L.s.Exec(inl)
		if resL.TimedOut {
			r.Inconclusive("timeout")
			return
		}
		oL := g10lib.Observe(resL, t.ordered, true)
		if resL.Panic != nil {
			// a panic on the literal text is not this property's business (C10); nothing to compare against
			r.Inconclusive("literal-panics")
			return
		}
		if len(oL.Rows) > 0 || oL.Affected > 0 {
			r.Count("nonempty-results", 1)
		}
		class := outcomeClass(oL)

		// A: QueryWithBindings with server-built bindings
		bind := map[string]sqlparser.Expr{}
		bindErr := false
		for j, v := range vs {
			ex, err := v.bind()
			if err != nil {
				bindErr = true
				break
			}
			bind[fmt.Sprintf("v%d", j+1)] = ex
		}
		if bindErr {
			r.Inconclusive("binding-not-buildable")
		} else {
			_, cached := A.s.S.GetPreparedQuery(t.sql)
			if cached {
				r.Count("api.cached-ast", 1)
			} else {
				r.Count("api.prepare-branch", 1)
			}
			resA := g10lib.Run(A.s, t.sql, func(ctx *sql.Context) (sql.Schema, sql.RowIter, error) {
				sch, it, _, err := A.s.Eng.E.QueryWithBindings(ctx, t.sql, nil, bind, nil)
				return sch, it, err
			})
			r.Count("exec.api", 1)
			if !judge(r, "api", t, kindKey, class, lastInter, oL, resA, L, A, rec, witness) {
				return
			}
		}

		// B: PREPARE / EXECUTE USING @v
		{
			using := make([]string, len(vs))
			setOK := true
			for j, v := range vs {
				name := fmt.Sprintf("@v%d", j+1)
				using[j] = name
				if res := B.s.Exec("SET " + name + " = " + v.lit()); res.Failed() {
					setOK = false
				}
			}
			if !setOK {
				r.Inconclusive("set-uservar-failed")
			} else {
				resB := B.s.Exec("EXECUTE ps USING " + strings.Join(using, ", "))
				r.Count("exec.sqlprepare", 1)
				if !judge(r, "sqlprepare", t, kindKey, class, lastInter, oL, resB, L, B, rec, witness) {
					return
				}
			}
		}

		// WL / WP
		if useWire && wireOK {
			args := make([]any, len(vs))
			for j, v := range vs {
				args[j] = v.goArg()
			}
			oWL := wireRun(t, WL.db, nil, args)
			oWP := wireRun(t, nil, WP.stmt, args)
			r.Count("exec.wire", 1)
			if oWL.Err == "timeout" || oWP.Err == "timeout" {
				r.Inconclusive("timeout")
			} else {
				r.Eval(1)
				// the interpolating side writes a float as a decimal literal: types differ by the client's doing
				d := g10lib.Diff(oWL, oWP, !strings.Contains(kindKey, "float"))
				dumpOK := true
				var dl, dp []string
				if d == "" {
					for _, tb := range []string{"t", "s"} {
						dl, dp = WL.dump(tb), WP.dump(tb)
						if !core.SameStrings(dl, dp) {
							dumpOK = false
							d = "table-state:" + tb
							break
						}
					}
				}
				if d != "" {
					w := witness("wire", d, oWL, oWP, rec)
					if !dumpOK {
						w["table_reference"], w["table_prepared"] = core.ClipStrings(dl, 40), core.ClipStrings(dp, 40)
					}
					r.Violation(sigOf("wire", t, d, kinds, oWL, oWP), w)
					return
				} else {
					r.Distinct(fmt.Sprintf("%s|wire|%s|%s|%s", t.name, kindKey, outcomeClass(oWL), lastInter))
					if i%40 == 0 && k == 1 {
						r.Sample(map[string]any{"path": "wire", "statement": t.sql, "args": rec.Values, "interpolated_side": clipOutcome(oWL), "server_prepared_side": clipOutcome(oWP)})
					}
				}
			}
		}
		if useWire && !wireOK && !t.sel {
			// not comparable on the wire (see wireOK): keep the two wire worlds in step with each other
			cl, cp := WL.execLit(inl), WP.execLit(inl)
			if cl != cp {
				r.Violation("interleaved-literal-diverges:skipped-exec", map[string]any{"case": i, "setup": setup, "history": history, "stmt": inl, "class_WL": cl, "class_WP": cp})
				return
			}
		}
		if afterDDL {
			r.Count("after-ddl.exec", 1)
		}
		if i%37 == 0 && k == 0 {
			r.Sample(map[string]any{"statement": t.sql, "values": rec.Values, "inlined": inl, "literal_outcome": clipOutcome(oL)})
		}

		// interleave literal DML / DDL identically in every world
		kind, stmts := genInterleave(rnd, st)
		lastInter = kind
		if strings.HasPrefix(kind, "ddl") {
			afterDDL = true
		}
		for _, q := range stmts {
			history = append(history, q)
			var first string
			for wi, w := range worlds {
				c := w.execLit(q)
				if wi == 0 || wi == 3 { // reference groups: {L, A, B} and {WL, WP}
					first = c
				} else if c != first {
					// same literal statement, same state: must behave alike; if not the worlds have already diverged
					r.Violation("interleaved-literal-diverges:"+kind, map[string]any{"case": i, "setup": setup, "history": history, "stmt": q, "world": w.name, "class": c, "class_L": first})
					return
				}
			}
		}
		r.Count("interleave."+kind, 1)
	}
}

func clipOutcome(o g10lib.Outcome) map[string]any {
	return map[string]any{"err": o.Err, "errtext": o.ErrText, "ok": o.IsOK, "affected": o.Affected, "rows": core.ClipStrings(o.Rows, 12), "types": o.Types}
}

func outcomeClass(o g10lib.Outcome) string {
	switch {
	case o.Err != "":
		return "error:" + o.Err
	case o.IsOK && o.Affected == 0:
		return "ok-0"
	case o.IsOK:
		return "ok-n"
	case len(o.Rows) == 0:
		return "rows-0"
	}
	return "rows-n"
}

// judge compares one in-process prepared execution with the literal outcome and the table states.
func judge(r *core.Run, path string, t tmpl, kindKey, class, lastInter string, oL g10lib.Outcome, res *core.Result, L, W *world, rec execRecord,
	witness func(path, what string, exp, got any, rec execRecord) map[string]any) bool {
	if res.TimedOut {
		r.Inconclusive("timeout")
		return false
	}
	r.Eval(1)
	o := g10lib.Observe(res, t.ordered, true)
	if res.Panic != nil {
		w := witness(path, "panic", clipOutcome(oL), res.Panic.Value, rec)
		w["stack"] = core.Clip(res.Panic.Stack, 3000)
		r.Violation(path+":"+res.Panic.Sig(), w)
		return false
	}
	d := g10lib.Diff(oL, o, true)
	var dl, dw []string
	if d == "" {
		for _, tb := range []string{"t", "s"} {
			dl, dw = g10lib.Dump(L.s, tb), g10lib.Dump(W.s, tb)
			if !core.SameStrings(dl, dw) {
				d = "table-state:" + tb
				break
			}
		}
	}
	if d != "" {
		w := witness(path, d, clipOutcome(oL), clipOutcome(o), rec)
		if strings.HasPrefix(d, "table-state") {
			w["table_reference"], w["table_prepared"] = core.ClipStrings(dl, 40), core.ClipStrings(dw, 40)
		}
		r.Violation(sigOf(path, t, d, strings.Split(kindKey, ","), oL, o), w)
		return false
	}
	r.Distinct(fmt.Sprintf("%s|%s|%s|%s|%s", t.name, path, kindKey, class, lastInter))
	return true
}

// sigOf builds the narrow signature of a disagreement: path, template, failure mode, the kinds of the
// bound values, and the two error classes when errors are involved.
func sigOf(path string, t tmpl, d string, kinds []string, ref, got g10lib.Outcome) string {
	ks := append([]string{}, kinds...)
	sig := fmt.Sprintf("%s:%s:%s:kinds=%s", path, t.name, d, strings.Join(ks, ","))
	if ref.Err != "" || got.Err != "" {
		sig += fmt.Sprintf(":ref=%s:prepared=%s", orOK(ref.Err), orOK(got.Err))
	}
	return sig
}

func orOK(s string) string {
	if s == "" {
		return "ok"
	}
	return s
}

func pinned(r *core.Run) {}
