// C13 — DML statements match a reference table model.
//
// Oracle: g8alib's reference table (rows as a multiset; PK / unique / NOT NULL; MySQL statement
// semantics for INSERT, INSERT IGNORE, REPLACE, INSERT … ON DUPLICATE KEY UPDATE, UPDATE and DELETE
// with WHERE / ORDER BY / LIMIT, INSERT … SELECT). After EVERY statement of a generated history the
// engine's table contents (SELECT *, sorted in the harness), the OK packet's affected-row count, the
// UPDATE "matched" count, ROW_COUNT() and the error class (duplicate key / NOT NULL / out of range)
// must equal the reference's. A failed statement must leave the table unchanged.
package main

import (
	"fmt"
	"strings"

	"verif/harness/core"
	"verif/harness/g8alib"
)

// classify names the failure class of a mismatch. Known defects get the narrow signature that
// encodes input class and observed failure mode; everything else is <statement kind>:<mode>.
func classify(sc *g8alib.Schema, pre *g8alib.Table, st *g8alib.Stmt, exp *g8alib.Outcome, expRows []string, obs *g8alib.Observed, mode string) string {
	// F15: REPLACE that deletes two or more rows for one new row; contents right; the engine counts
	// at most one deleted row per replaced row.
	if st.Kind == g8alib.SReplace && exp.MultiDelete && mode == "affected-count" && obs.Aff == exp.AffCapped {
		return "replace-multi-conflict:counts-one-deleted-row-per-new-row"
	}
	// the statement processes a row whose unique-key value equals that of a row version deleted or
	// updated earlier in the same statement: the engine's edit accumulator then consults the dead
	// version (abandons the check, or sees it as a conflict). Matched only when the engine did exactly
	// what an emulation of that accumulator does.
	if exp.Shadowed {
		if o, rows, ok := pre.ApplyLikeAccumulator(st, g8alib.EmulOpts{}); ok && g8alib.Mismatch(o, rows, obs) == "" {
			return "unique-check-consults-row-deleted-earlier-in-statement"
		}
	}
	// DELETE without WHERE: ROW_COUNT() stays 0 although the OK packet carries the count
	if st.Kind == g8alib.SDelete && st.Where == nil && mode == "row_count()-differs-from-ok-packet" {
		return "delete-without-where:row_count()-not-set"
	}
	// ON DUPLICATE KEY UPDATE col = NULL on a NOT NULL column fails, but as an internal type error
	if st.Kind == g8alib.SInsertODKU && exp.Err == g8alib.ErrNotNull && strings.HasPrefix(obs.Err, "other:1105:invalid type") {
		return "odku-null-into-not-null:reported-as-invalid-type"
	}
	return st.Kind.String() + ":" + mode
}

func main() {
	r := core.NewRun("C13", "exploration",
		"each evaluation is one DML statement of a generated history whose error class, affected/matched counts and resulting table contents are compared with the reference table model; distinct = (schema shape, statement kind, reference outcome class)")
	r.Fold(8, 3)
	r.Assume("column types INT/BIGINT/TINYINT/DECIMAL(4,1)/VARCHAR(4) utf8mb4_0900_bin; PK none/single/composite, 0-2 unique keys, 0-2 secondary indexes; small key spaces")
	r.Assume("not generated (MySQL leaves the outcome open or the semantics are not fixed here): LIMIT or multi-row key updates without a total ORDER BY, ON DUPLICATE KEY UPDATE with more than one conflicting row, unstorable values under IGNORE, two unstorable values in one row, assignments reading a column assigned earlier in the statement")
	r.Assume("input classes of known findings via=domain are excluded only while their pinned witness still fails (see excluded_input_classes_still_defective)")
	r.Assume("excluded input class (known finding unique-check-consults-row-deleted-earlier-in-statement, via=domain): statements that process a row agreeing on a unique (non-primary) key with a row version deleted or updated earlier in the same statement")
	r.Assume("excluded input class (known finding update-int-out-of-range-clamped, via=domain): UPDATE / ON DUPLICATE KEY UPDATE assignments whose value is outside the integer column's range")
	r.Assume("excluded input class (known finding where-ne-fractional-literal-on-indexed-decimal, via=domain): WHERE col <> literal with a fractional literal on a DECIMAL column that is part of an index")
	r.Assume("expressions that overflow 64 bits are not generated (exact 64-bit arithmetic is C25's property)")
	r.Assume("REPLACE of a row identical to the single row it replaces may report 1 or 2 affected rows (MySQL's handler reports 1, the documented sum is 2)")

	// the pinned witnesses of the known findings are replayed first: the input classes excluded
	// via=domain stay excluded only while their witness still fails
	excl := pinned(r)
	r.Extra("excluded_input_classes_still_defective", fmt.Sprintf("%+v", excl))

	n := r.N(300, 8000)
	cfg := &g8alib.HistoryCfg{Classify: classify}
	r.Parallel("hist", n, func(i int) {
		rnd := r.Rand("hist", i)
		sc := g8alib.GenSchemaC13(rnd)
		sc.T.Excl = excl
		c := *cfg
		c.Steps = 30 + rnd.Intn(51)
		g8alib.RunHistory(r, rnd, sc, &c, "hist", i)
	})

	// mechanism-reached floors: every statement kind and the outcome classes the property names
	for _, k := range []string{"insert", "insert-ignore", "replace", "insert-odku", "update", "delete", "insert-select"} {
		r.Floor(r.Counter("stmt."+k) >= int64(r.N(200, 4000)), "fewer than the floor of judged statements of kind "+k)
	}
	for _, c := range []string{"error-dup", "error-notnull", "error-range", "ignore-skipped", "replace-one", "replace-multi", "odku-updated", "odku-unchanged", "update-keys-ordered", "delete-limit"} {
		r.Floor(r.Counter("outcome."+c) >= 10, "reference outcome class "+c+" reached fewer than 10 times")
	}
	r.Floor(r.Counter("plan.source-indexed") >= 5, "no UPDATE/DELETE read its rows through an index")
	r.Finish()
}

// pinned replays the witnesses of the known findings on every run.
func pinned(r *core.Run) (excl g8alib.Known) {
	// F15
	{
		e := core.NewEng("d")
		s := e.NewSess()
		s.MustExec("CREATE TABLE u (id INT PRIMARY KEY, k INT, v INT, UNIQUE KEY uk (k))")
		s.MustExec("INSERT INTO u VALUES (1,10,0),(2,20,0),(3,30,0)")
		res := s.Exec("REPLACE INTO u VALUES (1,20,5)")
		ok, _ := res.Ok()
		rows := core.SortedRows(s.Exec("SELECT * FROM u").Rows)
		right := core.SameStrings(rows, []string{"1|20|5", "3|30|0"})
		fails := !res.Failed() && right && ok.RowsAffected == 2
		if res.Failed() || !right || (ok.RowsAffected != 2 && ok.RowsAffected != 3) {
			r.Violation("replace:pinned-witness-behaves-differently", map[string]any{"sql": "REPLACE INTO u VALUES (1,20,5)", "affected": ok.RowsAffected, "rows": rows, "err": fmt.Sprint(res.Err)})
		}
		r.Pinned("replace-multi-conflict:counts-one-deleted-row-per-new-row",
			fmt.Sprintf("REPLACE INTO u VALUES (1,20,5) deleting rows (1,10,0) and (2,20,0) reports affected=%d, reference 3", ok.RowsAffected), fails,
			map[string]any{"setup": "CREATE TABLE u (id INT PRIMARY KEY, k INT, v INT, UNIQUE KEY uk (k)); INSERT INTO u VALUES (1,10,0),(2,20,0),(3,30,0)", "sql": "REPLACE INTO u VALUES (1,20,5)", "affected": ok.RowsAffected, "expected": 3})
		e.Close()
	}
	// UPDATE storing an out-of-range integer: clamped silently instead of error 1264 (domain exclusion)
	{
		e := core.NewEng("d")
		s := e.NewSess()
		s.MustExec("CREATE TABLE t (id INT PRIMARY KEY, ti TINYINT)")
		s.MustExec("INSERT INTO t VALUES (1,100)")
		res := s.Exec("UPDATE t SET ti = ti + 100 WHERE id = 1")
		rows := core.SortedRows(s.Exec("SELECT * FROM t").Rows)
		fails := !res.Failed()
		excl.IntAssignClamp = fails
		r.Pinned("update-int-out-of-range-clamped",
			fmt.Sprintf("UPDATE t SET ti = ti + 100 on TINYINT 100 succeeds and stores %v (strict mode: error 1264, row unchanged)", rows), fails,
			map[string]any{"setup": "CREATE TABLE t (id INT PRIMARY KEY, ti TINYINT); INSERT INTO t VALUES (1,100)", "sql": "UPDATE t SET ti = ti + 100 WHERE id = 1", "rows": rows, "expected": "error out-of-range; rows 1|100"})
		e.Close()
	}
	script := func(setup []string) (*core.Eng, *core.Sess) {
		e := core.NewEng("d")
		s := e.NewSess()
		for _, q := range setup {
			s.MustExec(q)
		}
		return e, s
	}
	// a unique-key check is skipped when a row deleted/updated earlier in the statement has the same key value
	{
		setup := []string{"CREATE TABLE u (id INT PRIMARY KEY, k INT, v INT, UNIQUE KEY uk (k))", "INSERT INTO u VALUES (1,10,0),(2,20,0)"}
		e, s := script(setup)
		q := "UPDATE u SET k = 10, v = v + 1 ORDER BY id"
		res := s.Exec(q)
		rows := core.SortedRows(s.Exec("SELECT * FROM u").Rows)
		fails := !res.Failed() && core.SameStrings(rows, []string{"1|10|1", "2|10|1"})
		if !fails && !(res.ErrClass() == "1062" && core.SameStrings(rows, []string{"1|10|0", "2|20|0"})) {
			r.Violation("update:pinned-witness-behaves-differently", map[string]any{"setup": setup, "sql": q, "rows": rows, "err": fmt.Sprint(res.Err)})
		}
		excl.UniqueCheckDeadRow = fails
		r.Pinned("unique-check-consults-row-deleted-earlier-in-statement",
			fmt.Sprintf("%s succeeds and leaves two rows with k=10 in UNIQUE KEY uk: %v (reference: duplicate-key error, rows unchanged)", q, rows), fails,
			map[string]any{"setup": setup, "sql": q, "rows": rows, "expected": "error 1062; rows 1|10|0 ; 2|20|0"})
		e.Close()
	}
	// DELETE without WHERE leaves ROW_COUNT() at 0
	{
		setup := []string{"CREATE TABLE u (id INT PRIMARY KEY, v INT)", "INSERT INTO u VALUES (1,1),(2,2),(3,3)"}
		e, s := script(setup)
		res := s.Exec("DELETE FROM u")
		ok, _ := res.Ok()
		rc := s.Exec("SELECT ROW_COUNT()")
		got := ""
		if !rc.Failed() && len(rc.Rows) == 1 {
			got = core.Canon(rc.Rows[0][0])
		}
		fails := !res.Failed() && ok.RowsAffected == 3 && got == "0"
		if !fails && !(ok.RowsAffected == 3 && got == "3") {
			r.Violation("delete:pinned-witness-behaves-differently", map[string]any{"setup": setup, "sql": "DELETE FROM u; SELECT ROW_COUNT()", "affected": ok.RowsAffected, "row_count": got})
		}
		r.Pinned("delete-without-where:row_count()-not-set", "DELETE FROM u (3 rows, OK packet says 3) is followed by ROW_COUNT() = "+got, fails,
			map[string]any{"setup": setup, "sql": "DELETE FROM u; SELECT ROW_COUNT()", "row_count": got, "expected": "3"})
		e.Close()
	}
	// ON DUPLICATE KEY UPDATE col = NULL on a NOT NULL column
	{
		setup := []string{"CREATE TABLE u (id INT PRIMARY KEY, v INT NOT NULL)", "INSERT INTO u VALUES (1,1)"}
		e, s := script(setup)
		q := "INSERT INTO u VALUES (1,2) ON DUPLICATE KEY UPDATE v = NULL"
		res := s.Exec(q)
		cls, _ := g8alib.ErrClassOf(res)
		rows := core.SortedRows(s.Exec("SELECT * FROM u").Rows)
		fails := strings.HasPrefix(cls, "other:1105:invalid type") && core.SameStrings(rows, []string{"1|1"})
		if !fails && !(cls == g8alib.ErrNotNull && core.SameStrings(rows, []string{"1|1"})) {
			r.Violation("insert-odku:pinned-witness-behaves-differently", map[string]any{"setup": setup, "sql": q, "rows": rows, "err": fmt.Sprint(res.Err)})
		}
		r.Pinned("odku-null-into-not-null:reported-as-invalid-type", q+" fails with \""+fmt.Sprint(res.Err)+"\" instead of error 1048 (column cannot be null)", fails,
			map[string]any{"setup": setup, "sql": q, "error": fmt.Sprint(res.Err), "expected": "error 1048"})
		e.Close()
	}
	// `<>` with a fractional literal on an indexed DECIMAL column selects the equal rows too (domain exclusion)
	{
		setup := []string{"CREATE TABLE u (id INT PRIMARY KEY, d DECIMAL(4,1), KEY (d))", "INSERT INTO u VALUES (1,2.5),(2,1.0),(3,NULL)"}
		e, s := script(setup)
		q := "DELETE FROM u WHERE d <> 2.5"
		res := s.Exec(q)
		ok, _ := res.Ok()
		rows := core.SortedRows(s.Exec("SELECT * FROM u").Rows)
		fails := !res.Failed() && !core.SameStrings(rows, []string{"1|2.5", "3|NULL"})
		excl.NeFractionalDecimal = fails
		r.Pinned("where-ne-fractional-literal-on-indexed-decimal", fmt.Sprintf("%s deletes %d rows and leaves %v (reference: 1 row deleted, rows 1|2.5 ; 3|NULL)", q, ok.RowsAffected, rows), fails,
			map[string]any{"setup": setup, "sql": q, "rows": rows, "expected": "1|2.5 ; 3|NULL"})
		e.Close()
	}
	return excl
}
