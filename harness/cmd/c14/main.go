// C14 — primary and unique keys are enforced exactly.
//
// Two oracles over generated DML histories on key domains built to collide only under a wrong key
// comparison (g8alib.C14Domains):
//
//	invariant  after EVERY statement the rows read back from the engine are checked by an independent
//	           comparator (exact integers/decimals; bytes for _bin/_as_cs; case+accent folding over a
//	           closed alphabet for _ai_ci/_general_ci; first n CHARACTERS for prefix keys; NULL never
//	           equal): no two stored rows may agree on the primary key or on a unique key.
//	exactness  a statement is rejected as duplicate iff the reference model finds a conflict, and
//	           INSERT IGNORE / REPLACE / ON DUPLICATE KEY UPDATE take the reference's branch (error class,
//	           affected rows and table contents compared after every statement, as in C13).
package main

import (
	"fmt"
	"strings"

	"verif/harness/core"
	"verif/harness/g8alib"
)

const (
	sigConcat = "composite-pk-printed-concatenation-collides:handled-as-same-key"
	sigShadow = "unique-check-consults-row-deleted-earlier-in-statement"
	sigCI     = "ci-collation-key:compared-bytewise"
	sigPrefix = "prefix-key:prefix-cut-in-bytes-not-characters"
)

// engineCmp is how the engine's editor compares key parts (raw values, byte prefixes).
var engineCmp = g8alib.KeyCmp{IgnoreCollation: true, PrefixInBytes: true}

// deadRowsSkipped: the engine's unique-key lookup no longer consults rows deleted earlier in the
// statement (set from the probe of that known defect; selects the matching editor emulation).
var deadRowsSkipped bool

func hasFoldingKey(t *g8alib.Table) bool {
	for _, k := range t.Keys {
		if !k.Unique {
			continue
		}
		for _, c := range k.Cols {
			ct := t.Cols[c].Type
			if ct.Kind == g8alib.KStr && (ct.Coll == g8alib.CollAiCi || ct.Coll == g8alib.CollGeneralCi) {
				return true
			}
		}
	}
	return false
}

func hasPrefixKey(t *g8alib.Table) bool {
	for _, k := range t.Keys {
		for _, p := range k.Prefix {
			if k.Unique && p > 0 {
				return true
			}
		}
	}
	return false
}

// sameOutcome: the engine did exactly what this alternative execution prescribes (error-or-not,
// duplicate class, resulting rows).
func sameOutcome(st *g8alib.Stmt, o *g8alib.Outcome, rows []string, obs *g8alib.Observed) bool {
	return g8alib.MismatchKeysOnly(o, rows, obs) == ""
}

func altModel(pre *g8alib.Table, st *g8alib.Stmt, obs *g8alib.Observed, kc g8alib.KeyCmp) bool {
	alt := pre.Clone()
	o := alt.Apply(st, kc)
	return o.Unspecified == "" && sameOutcome(st, o, alt.CanonRows(), obs)
}

// classify names the failure class of a mismatch between engine and reference.
func classify(sc *g8alib.Schema, pre *g8alib.Table, st *g8alib.Stmt, exp *g8alib.Outcome, expRows []string, obs *g8alib.Observed, mode string) string {
	ci, px := hasFoldingKey(pre), hasPrefixKey(pre)
	// one wrong comparison rule alone explains the engine
	if ci && altModel(pre, st, obs, g8alib.KeyCmp{IgnoreCollation: true}) {
		return sigCI
	}
	if px && altModel(pre, st, obs, g8alib.KeyCmp{PrefixInBytes: true}) {
		return sigPrefix
	}
	// … or the engine did exactly what its row editor does when it compares key parts as raw values
	// (pending-edit maps, primary key before unique keys, collation-aware "row changed" test)
	if ci || px {
		if o, rows, ok := pre.ApplyLikeAccumulator(st, g8alib.EmulOpts{Cmp: engineCmp, DeadRowsSkipped: deadRowsSkipped}); ok && sameOutcome(st, o, rows, obs) {
			switch {
			case ci && px:
				return sigCI + "+" + sigPrefix
			case ci:
				return sigCI
			}
			return sigPrefix
		}
	}
	// defects of the per-statement edit accumulator, recognised by emulating it
	raw := pre.Clone()
	rawOut := raw.Apply(st, engineCmp)
	shadow := exp.Shadowed || rawOut.Shadowed
	if exp.ConcatCollide {
		if o, rows, ok := pre.ApplyLikeAccumulator(st, g8alib.EmulOpts{Cmp: engineCmp, ConcatKeys: true, DeadRowsSkipped: deadRowsSkipped}); ok && sameOutcome(st, o, rows, obs) {
			return sigConcat
		}
	}
	if shadow {
		if o, rows, ok := pre.ApplyLikeAccumulator(st, g8alib.EmulOpts{Cmp: engineCmp, DeadRowsSkipped: deadRowsSkipped}); ok && sameOutcome(st, o, rows, obs) {
			switch {
			case ci && !altModelAgrees(pre, st, engineCmp):
				return sigShadow + "+" + sigCI
			case px && !altModelAgrees(pre, st, engineCmp):
				return sigShadow + "+" + sigPrefix
			}
			return sigShadow
		}
	}
	dom := sc.Domain
	if k := strings.IndexByte(dom, '/'); k > 0 {
		dom = dom[:k]
	}
	kind := "other"
	switch {
	case exp.Err == "" && obs.Err == g8alib.ErrDup:
		kind = "false-duplicate"
	case exp.Err == g8alib.ErrDup && obs.Err == "":
		kind = "missed-duplicate"
	case mode == "rows-differ":
		kind = "wrong-branch-rows-differ"
	default:
		kind = mode
	}
	return dom + ":" + st.Kind.String() + ":" + kind
}

// altModelAgrees: under the engine's comparison rule the statement has the same reference outcome as
// under the right rule (i.e. the comparison rule plays no role in this statement).
func altModelAgrees(pre *g8alib.Table, st *g8alib.Stmt, kc g8alib.KeyCmp) bool {
	a, b := pre.Clone(), pre.Clone()
	oa, ob := a.Apply(st, g8alib.RightCmp), b.Apply(st, kc)
	return oa.Err == ob.Err && oa.AffMin == ob.AffMin && oa.AffMax == ob.AffMax && core.SameStrings(a.CanonRows(), b.CanonRows())
}

func main() {
	r := core.NewRun("C14", "exploration",
		"each evaluation is one DML statement of a generated history over a key-hostile domain: (i) duplicate rejection / IGNORE / REPLACE / ODKU branch, affected rows and contents equal the reference model's, (ii) no two rows read back agree on a primary or unique key under an independent comparator; distinct = (domain and key shape, statement kind, reference outcome class)")
	r.Fold(8, 3)
	r.Assume("folding collations are modelled over the closed alphabet a A á Á ä Ä b B c C e E é É x X (no trailing spaces); prefix lengths count characters")
	r.Assume("WHERE / ORDER BY never compare a string column with a non-binary collation (only key equality is modelled for those); LIMIT and multi-row key updates only with a total ORDER BY; ODKU only with at most one conflicting row")
	r.Assume("prefix PRIMARY KEYs are not generated (the engine rejects them as unsupported)")

	// input classes of known findings via=domain stay excluded only while their witness still fails
	excl := g8alib.ProbeKnown()
	deadRowsSkipped = !excl.UniqueCheckDeadRow
	r.Extra("excluded_input_classes_still_defective", fmt.Sprintf("%+v", excl))
	r.Assume("excluded while their pinned witnesses fail (known findings via=domain, see findings/C13.txt, C14.txt): statements that process a row agreeing on a unique key with a row version deleted/updated earlier in the same statement; col <> fractional literal on an indexed DECIMAL column; out-of-range integer assignments")
	r.Assume("affected/matched counts, ROW_COUNT() and the class of non-duplicate errors are not judged here (C13 does)")

	n := r.N(400, 10000)
	r.Parallel("hist", n, func(i int) {
		rnd := r.Rand("hist", i)
		dom := g8alib.C14Domains[i%len(g8alib.C14Domains)]
		sc := g8alib.GenSchemaC14(rnd, dom)
		sc.T.Excl = excl
		cfg := &g8alib.HistoryCfg{Classify: classify, Invariant: true, KeysOnly: true, Steps: 25 + rnd.Intn(36)}
		if rnd.Intn(3) == 0 {
			cfg.Txn = 6
		}
		cfg.InvariantSig = func(sc *g8alib.Schema, key string, a, b g8alib.Row) string {
			return invariantSig(sc, key, a, b)
		}
		v := g8alib.RunHistory(r, rnd, sc, cfg, "hist", i)
		r.Count("domain."+dom+".verdicts", int64(v))
	})

	pinned(r)

	for _, d := range g8alib.C14Domains {
		r.Floor(r.Counter("domain."+d+".verdicts") >= int64(r.N(300, 6000)), "domain "+d+" reached fewer verdicts than its floor")
	}
	for _, c := range []string{"error-dup", "ignore-skipped", "replace-one", "odku-updated", "update-keys-ordered", "inserted"} {
		r.Floor(r.Counter("outcome."+c) >= 20, "reference outcome class "+c+" reached fewer than 20 times")
	}
	r.Floor(r.Counter("invariant.evaluations") >= int64(r.N(3000, 60000)), "stored-rows invariant evaluated too rarely")
	r.Finish()
}

// invariantSig names a breach of the stored-rows invariant by what kind of key comparison it needs.
func invariantSig(sc *g8alib.Schema, key string, a, b g8alib.Row) string {
	t := sc.T
	kind := "unique"
	if key == "PRIMARY" {
		kind = "primary"
	}
	// does the pair also agree under the engine's raw comparison? then no comparison rule is to blame
	for i := range t.Keys {
		k := &t.Keys[i]
		if !k.Unique {
			continue
		}
		name := k.Name
		if k.Primary {
			name = "PRIMARY"
		}
		if name != key {
			continue
		}
		switch {
		case t.KeyEq(k, a, b, engineCmp):
			return "invariant:two-rows-equal-on-" + kind + "-key:even-bytewise"
		case t.KeyEq(k, a, b, g8alib.KeyCmp{PrefixInBytes: true}):
			return "invariant:two-rows-equal-on-" + kind + "-key:under-collation"
		default:
			return "invariant:two-rows-equal-on-" + kind + "-key:under-character-prefix"
		}
	}
	return "invariant:two-rows-equal-on-" + kind + "-key"
}

type script struct {
	setup []string
	sql   string
}

func run(sc script) (*core.Result, []string, func()) {
	e := core.NewEng("d")
	s := e.NewSess()
	for _, q := range sc.setup {
		s.MustExec(q)
	}
	res := s.Exec(sc.sql)
	rows := core.SortedRows(s.Exec("SELECT * FROM t").Rows)
	return res, rows, e.Close
}

// pinned replays the witnesses of the known findings on every run.
func pinned(r *core.Run) {
	// F2: same-statement composite keys whose printed concatenation collides
	{
		sc := script{[]string{"CREATE TABLE t (a INT, b INT, v INT, PRIMARY KEY (a, b))"}, "INSERT INTO t VALUES (1,23,0),(12,3,0)"}
		res, rows, done := run(sc)
		fails := res.ErrClass() == "1062"
		if !fails && !(res.Err == nil && core.SameStrings(rows, []string{"12|3|0", "1|23|0"})) {
			r.Violation("concat-int:pinned-witness-behaves-differently", map[string]any{"script": sc, "rows": rows, "err": fmt.Sprint(res.Err)})
		}
		r.Pinned(sigConcat, fmt.Sprintf("%s on PRIMARY KEY (a,b) is rejected: %v (the keys (1,23) and (12,3) differ)", sc.sql, res.Err), fails,
			map[string]any{"setup": sc.setup, "sql": sc.sql, "error": fmt.Sprint(res.Err), "expected": "2 rows inserted"})
		done()
	}
	// F3: key on a case-insensitive collation compared bytewise
	{
		sc := script{[]string{"CREATE TABLE t (s VARCHAR(8) COLLATE utf8mb4_0900_ai_ci PRIMARY KEY, v INT)", "INSERT INTO t VALUES ('a',1)"}, "INSERT INTO t VALUES ('A',2)"}
		res, rows, done := run(sc)
		fails := res.Err == nil && len(rows) == 2
		if !fails && res.ErrClass() != "1062" {
			r.Violation("ci:pinned-witness-behaves-differently", map[string]any{"script": sc, "rows": rows, "err": fmt.Sprint(res.Err)})
		}
		r.Pinned(sigCI, fmt.Sprintf("PRIMARY KEY on utf8mb4_0900_ai_ci holding 'a' accepts 'A': rows %v", rows), fails,
			map[string]any{"setup": sc.setup, "sql": sc.sql, "rows": rows, "expected": "error 1062"})
		done()
	}
	// prefix unique key cut in bytes
	{
		sc := script{[]string{"CREATE TABLE t (id INT PRIMARY KEY, s VARCHAR(10) COLLATE utf8mb4_0900_bin, UNIQUE KEY ps (s(3)))", "INSERT INTO t VALUES (1,'ééé1')"}, "INSERT INTO t VALUES (2,'ééx')"}
		res, rows, done := run(sc)
		fails := res.ErrClass() == "1062"
		if !fails && !(res.Err == nil && len(rows) == 2) {
			r.Violation("prefix:pinned-witness-behaves-differently", map[string]any{"script": sc, "rows": rows, "err": fmt.Sprint(res.Err)})
		}
		r.Pinned(sigPrefix, fmt.Sprintf("UNIQUE KEY (s(3)) holding 'ééé1' rejects 'ééx': %v (the 3-character prefixes 'ééé' and 'ééx' differ; their first 3 bytes agree)", res.Err), fails,
			map[string]any{"setup": sc.setup, "sql": sc.sql, "error": fmt.Sprint(res.Err), "expected": "row inserted"})
		done()
	}
	// both comparison defects in one statement: prefix unique key on a case-insensitive column
	{
		sc := script{[]string{"CREATE TABLE t (id INT PRIMARY KEY, s VARCHAR(8) COLLATE utf8mb4_0900_ai_ci, UNIQUE KEY ps (s(2)))", "INSERT INTO t VALUES (1,'ab'),(2,'éa')"},
			"INSERT IGNORE INTO t VALUES (3,'AB'),(4,'éb')"}
		res, rows, done := run(sc)
		right := core.SameStrings(rows, []string{"1|'ab'", "2|'éa'", "4|'éb'"})
		fails := res.Err == nil && core.SameStrings(rows, []string{"1|'ab'", "2|'éa'", "3|'AB'"})
		if !fails && !(res.Err == nil && right) {
			// one of the two defects alone may have been repaired: then the single-defect witnesses above tell
			r.Count("pinned.combined-witness-other-outcome", 1)
		}
		r.Pinned(sigCI+"+"+sigPrefix, fmt.Sprintf("UNIQUE KEY (s(2)) on utf8mb4_0900_ai_ci holding 'ab','éa': INSERT IGNORE ('AB'),('éb') stores %v (reference: 'AB' skipped as duplicate of 'ab', 'éb' stored)", rows), fails,
			map[string]any{"setup": sc.setup, "sql": sc.sql, "rows": rows, "expected": "1|'ab' ; 2|'éa' ; 4|'éb'"})
		done()
	}
	// unique check consults a row deleted earlier in the statement
	{
		sc := script{[]string{"CREATE TABLE t (id INT PRIMARY KEY, k INT, v INT, UNIQUE KEY uk (k))", "INSERT INTO t VALUES (1,10,0)"}, "REPLACE INTO t VALUES (1,10,1),(2,10,2)"}
		res, rows, done := run(sc)
		fails := res.Err == nil && core.SameStrings(rows, []string{"1|10|1", "2|10|2"})
		if !fails && !(res.Err == nil && core.SameStrings(rows, []string{"2|10|2"})) {
			r.Violation("shadow:pinned-witness-behaves-differently", map[string]any{"script": sc, "rows": rows, "err": fmt.Sprint(res.Err)})
		}
		r.Pinned(sigShadow, fmt.Sprintf("%s leaves two rows with k=10 in UNIQUE KEY uk: %v", sc.sql, rows), fails,
			map[string]any{"setup": sc.setup, "sql": sc.sql, "rows": rows, "expected": "2|10|2"})
		done()
	}
}
