package main

import (
	"fmt"
	"sort"
	"strings"

	"github.com/dolthub/go-mysql-server/verifhook"

	"verif/harness/core"
	"verif/harness/g8blib"
)

var faultPoints = []string{"memory.edit.insert", "memory.edit.update", "memory.edit.delete", "memory.apply.row"}

// injectedCase: fault-free counting run, then one run per hit of every fault point.
func injectedCase(r *core.Run, out g8blib.Sink, i int) {
	rd := r.Rand("inject", i)
	tables := schema()
	class := injectClasses[i%len(injectClasses)]
	n := 2 + rd.Intn(4)
	db := g8blib.NewDB(tables, rd, true)
	sc := genCase(rd, tables, class, n, 0)

	// counting run
	e, s := build(sc)
	pre0 := db.Fingerprint(s)
	verifhook.FaultsOn()
	res := s.Exec(sc.SQL)
	hits := verifhook.FaultHits()
	verifhook.FaultsOff()
	if res.Panic != nil {
		out.Violation(res.Panic.Sig(), witness(sc, map[string]any{"panic": res.Panic.Value, "stack": core.Clip(res.Panic.Stack, 3000)}))
		e.Close()
		return
	}
	if res.TimedOut {
		out.Inconclusive("watchdog")
		e.Close()
		return
	}
	if res.Failed() {
		out.Inconclusive("fault-free-run-failed:" + class + ":" + res.ErrClass())
		e.Close()
		return
	}
	// success half on the fault-free run: explicit post-conditions
	out.Eval(1)
	if ok, why := checkPost(s, sc); !ok {
		out.Violation("successful-stmt-incomplete:"+class, witness(sc, map[string]any{"postcondition": why}))
		e.Close()
		return
	}
	fok := db.Fingerprint(s)
	if incons := db.SelfConsistent(s); len(incons) > 0 {
		out.Violation("index-read-differs-from-scan-after-successful-stmt:"+class, witness(sc, map[string]any{"first_diff": incons[0], "diffs": len(incons)}))
		e.Close()
		return
	}
	e.Close()
	out.Distinct(class + "|fault-free|complete")
	total := int64(0)
	for _, pt := range faultPoints {
		total += hits[pt]
	}
	out.Count("fault-positions", total)
	if i < 2 {
		out.Sample(map[string]any{"class": class, "statement": sc.SQL, "in_transaction": len(sc.InTxn) > 0, "fault_hits_counted": hits,
			"runs": "one per hit: arm, run, compare fingerprint with pre-statement snapshot, re-run without fault, compare with fault-free final state"})
	}

	for _, pt := range faultPoints {
		for j := int64(1); j <= hits[pt]; j++ {
			if !injectedRun(out, db, sc, pt, j, hits[pt], pre0, fok) {
				return
			}
		}
	}
}

// injectedRun re-creates the state, arms hit j of the point and judges the run. It returns false when
// the case should stop (violation reported).
func injectedRun(out g8blib.Sink, db *g8blib.DB, sc *stmtCase, pt string, j, nHits int64, pre0, fok *g8blib.FP) bool {
	e, s := build(sc)
	defer e.Close()
	pre := db.Fingerprint(s)
	if d := pre0.Diff(pre); !d.Same() || pre.Err != "" {
		out.Inconclusive("rebuild-not-deterministic")
		return false
	}
	verifhook.FaultsOn()
	verifhook.Arm(pt, j)
	res := s.Exec(sc.SQL)
	trips := verifhook.FaultTrips()
	verifhook.FaultsOff()
	pos := posClass(int(j), int(nHits))
	kind := "inject:" + pt
	extra := map[string]any{"fault_point": pt, "hit": j, "of": nHits}
	if res.Panic != nil {
		sig := res.Panic.Sig()
		if isFKNil(res, pt) {
			sig = sigFKNil
		}
		out.Violation(sig, witness(sc, map[string]any{"fault_point": pt, "hit": j, "panic": res.Panic.Value, "stack": core.Clip(res.Panic.Stack, 3000)}))
		return true // other hits of the same statement are still judged
	}
	if res.TimedOut {
		out.Inconclusive("watchdog")
		return false
	}
	if trips[pt] == 0 {
		out.Inconclusive("armed-fault-not-reached")
		return true
	}
	out.Count("tripped:"+pt, 1)
	post := db.Fingerprint(s)
	if post.Err != "" {
		out.Violation("fingerprint-failed", witness(sc, map[string]any{"error": post.Err, "fault_point": pt, "hit": j}))
		return false
	}
	if !res.Failed() {
		// the statement reports success although a storage error was injected: then it must have applied
		// all of its row changes
		out.Eval(1)
		d := fok.Diff(post)
		if d.Same() {
			out.Count("succeeded-despite-fault-complete", 1)
			out.Distinct(sc.Class + "|" + kind + "|" + pos + "|succeeded-complete")
			return true
		}
		extra["diff_to_fault_free_final_state"] = d
		extra["diff_to_pre_statement_state"] = pre.Diff(post)
		if pt == "memory.apply.row" {
			out.Violation(sigSwallowed, witness(sc, extra))
		} else {
			out.Violation("stmt-reports-success-partially-applied:"+sc.Class+":"+kind, witness(sc, extra))
		}
		return true // a different hit may show something else; go on
	}
	if !judgeFailed(out, sc, kind, pos, res, pre, post, extra) {
		return true
	}
	// after the failed attempt the same statement, without fault, must succeed completely
	out.Eval(1)
	res2 := s.Exec(sc.SQL)
	if res2.Failed() {
		extra["retry_error"] = fmt.Sprint(res2.Err)
		if res2.Panic != nil {
			extra["retry_error"] = "panic: " + res2.Panic.Value
		}
		out.Violation("retry-after-failed-attempt-fails:"+sc.Class+":"+kind, witness(sc, extra))
		return false
	}
	post2 := db.Fingerprint(s)
	if d := fok.Diff(post2); !d.Same() {
		extra["diff_to_fault_free_final_state"] = d
		out.Violation("retry-after-failed-attempt-incomplete:"+sc.Class+":"+kind+":"+d.Class(), witness(sc, extra))
		return false
	}
	out.Count("retries-complete", 1)
	return true
}

// isFKNil matches the known panic class: nil-pointer dereference in ForeignKeyRowMapper.GetIter while a
// storage error was injected at memory.apply.row (tableEditor.IndexedAccess returned nil).
func isFKNil(res *core.Result, pt string) bool {
	return res.Panic != nil && pt == "memory.apply.row" && res.Panic.Site == "sql/plan.(*ForeignKeyRowMapper).GetIter" &&
		strings.Contains(res.Panic.Value, "nil pointer dereference")
}

// pinned witnesses of the known findings.
func pinned(r *core.Run) {
	// F4: AFTER INSERT trigger rows survive the failed INSERT
	{
		e := core.NewEng("d")
		s := e.NewSess()
		script := []string{
			"CREATE TABLE g (id INT PRIMARY KEY, x TINYINT, y INT)",
			"CREATE TABLE log (n INT, what VARCHAR(20))",
			"CREATE TRIGGER g_ai AFTER INSERT ON g FOR EACH ROW INSERT INTO log VALUES (NEW.id, 'ins')",
		}
		for _, q := range script {
			s.MustExec(q)
		}
		res := s.Exec("INSERT INTO g VALUES (1,1,1),(2,1,1),(3,300,1)")
		logRows := core.SortedRows(s.Exec("SELECT n, what FROM log").Rows)
		gRows := core.SortedRows(s.Exec("SELECT id FROM g").Rows)
		still := res.Failed() && len(logRows) > 0
		r.Pinned(sigTrigger, fmt.Sprintf("AFTER INSERT trigger on g writes log; INSERT INTO g VALUES (1,1,1),(2,1,1),(3,300,1) fails on row 3; g = %v, log keeps %v", gRows, logRows), still,
			map[string]any{"script": script, "statement": "INSERT INTO g VALUES (1,1,1),(2,1,1),(3,300,1)", "log": logRows, "g": gRows})
		r.Eval(1)
		e.Close()
	}
	// F4 family: storage error inside the trigger's own INSERT — the outer statement keeps its earlier rows
	{
		e := core.NewEng("d")
		s := e.NewSess()
		script := []string{
			"CREATE TABLE g (id INT PRIMARY KEY, x TINYINT, y INT)",
			"CREATE TABLE log (n INT, what VARCHAR(20))",
			"CREATE TRIGGER g_ai AFTER INSERT ON g FOR EACH ROW INSERT INTO log VALUES (NEW.id, 'ins')",
		}
		for _, q := range script {
			s.MustExec(q)
		}
		verifhook.FaultsOn()
		verifhook.Arm("memory.edit.insert", 4) // g row 1, log row 1, g row 2, log row 2 <- fails
		res := s.Exec("INSERT INTO g VALUES (1,1,1),(2,1,1),(3,1,1)")
		trips := verifhook.FaultTrips()
		verifhook.FaultsOff()
		gRows := core.SortedRows(s.Exec("SELECT id FROM g").Rows)
		logRows := core.SortedRows(s.Exec("SELECT n FROM log").Rows)
		still := res.Failed() && trips["memory.edit.insert"] > 0 && len(gRows) > 0
		r.Pinned(sigTrigBody, fmt.Sprintf("AFTER INSERT trigger on g writes log; storage error injected at the trigger's 2nd INSERT INTO log during INSERT INTO g VALUES (1,1,1),(2,1,1),(3,1,1): statement fails, g keeps %v, log keeps %v", gRows, logRows), still,
			map[string]any{"script": script, "fault": "memory.edit.insert hit 4", "g": gRows, "log": logRows})
		r.Eval(1)
		e.Close()
	}
	// nil table from tableEditor.IndexedAccess after a failed ApplyEdits
	{
		e := core.NewEng("d")
		s := e.NewSess()
		script := []string{
			"CREATE TABLE p (id INT PRIMARY KEY, v INT)",
			"CREATE TABLE c (id INT PRIMARY KEY, pid INT, KEY ipid(pid), CONSTRAINT fkc FOREIGN KEY (pid) REFERENCES p(id) ON DELETE CASCADE)",
			"INSERT INTO p VALUES (1,1),(2,2),(3,3)",
			"INSERT INTO c VALUES (10,1),(11,1),(20,2),(30,3)",
		}
		for _, q := range script {
			s.MustExec(q)
		}
		verifhook.FaultsOn()
		verifhook.Arm("memory.apply.row", 1)
		res := s.Exec("DELETE FROM p WHERE id IN (1,2,3) ORDER BY id")
		verifhook.FaultsOff()
		still := isFKNil(res, "memory.apply.row")
		what := "storage error injected at the first row applied during DELETE FROM p WHERE id IN (1,2,3) (ON DELETE CASCADE child c): "
		if res.Panic != nil {
			what += "panic " + res.Panic.Value + " at " + res.Panic.Site
		} else {
			what += fmt.Sprintf("err=%v", res.Err)
		}
		r.Pinned(sigFKNil, what, still, map[string]any{"script": script, "fault": "memory.apply.row hit 1", "statement": "DELETE FROM p WHERE id IN (1,2,3) ORDER BY id"})
		r.Eval(1)
		e.Close()
	}
	// swallowed apply error
	{
		e := core.NewEng("d")
		s := e.NewSess()
		script := []string{"CREATE TABLE t (id INT PRIMARY KEY, v INT, KEY iv(v))", "INSERT INTO t VALUES (1,1),(2,2)"}
		for _, q := range script {
			s.MustExec(q)
		}
		verifhook.FaultsOn()
		verifhook.Arm("memory.apply.row", 2)
		res := s.Exec("INSERT INTO t VALUES (10,1),(11,1),(12,1)")
		trips := verifhook.FaultTrips()
		verifhook.FaultsOff()
		rows := core.SortedRows(s.Exec("SELECT id FROM t").Rows)
		sort.Strings(rows)
		still := !res.Failed() && trips["memory.apply.row"] > 0 && len(rows) != 5
		r.Pinned(sigSwallowed, fmt.Sprintf("storage error injected at the 2nd row applied by INSERT INTO t VALUES (10,1),(11,1),(12,1): statement reports success (err=%v), table ids = %v", res.Err, rows), still,
			map[string]any{"script": script, "fault": "memory.apply.row hit 2", "statement": "INSERT INTO t VALUES (10,1),(11,1),(12,1)", "ids_after": rows})
		r.Eval(1)
		e.Close()
	}
}
