// C15 — a failed data-modifying statement has no effect (level: fault_enumeration).
//
// Two enumerations over generated statements on a parent / cascading child / restricting child /
// triggered table / trigger-written log / source schema:
//   - natural failures: an n-row statement whose k-th row breaks a PK / unique / NOT NULL / CHECK / FK /
//     conversion / range rule or makes a trigger SIGNAL, for EVERY k in 1..n;
//   - injected storage errors: the statement is run once with the verifhook fault points counting
//     (memory.edit.insert|update|delete, memory.apply.row), the database is re-created from the
//     recorded script, and the statement is re-run once for EVERY hit j of every point with that hit
//     returning an injected error.
// Oracle: after a statement that returned an error the full database fingerprint (sorted rows of
// every table + every index-driven read of a fixed probe set) equals the snapshot taken before it;
// a statement that reports success has applied all of its row changes (explicit post-conditions on the
// fault-free run; equality with the fault-free final state for a run that succeeds although a fault
// was injected); after a failed attempt the same statement without fault succeeds completely.
// The fault state is process-global, so the cases run in worker child processes, one at a time each.
package main

import (
	"fmt"
	"os"
	"runtime"
	"strings"

	"verif/harness/core"
	"verif/harness/g8blib"
)

const (
	sigTrigger   = "trigger-side-effect-survives-failed-stmt"
	sigSwallowed = "apply-error-swallowed-at-statement-complete:stmt-reports-success-partially-applied"
	sigTrigBody  = "triggered-stmt-keeps-earlier-rows-when-storage-error-hits-inside-trigger-run"
	sigFKNil     = "panic:sql/plan.(*ForeignKeyRowMapper).GetIter:nil-indexed-table-after-injected-apply-error"
)

func main() {
	r := core.NewRun("C15", "fault_enumeration",
		"a case is one generated statement (class × target table × row count × in/outside a transaction); natural-failure cases enumerate the failing row position k = 1..n, injected cases enumerate every hit of every fault point counted in a fault-free run; each run compares the full database fingerprint incl. index-driven reads with the pre-statement snapshot; distinct = (statement class, fault kind, position class first/middle/last, outcome)")
	r.Assume("schema: p(id,v,u; UNIQUE u, KEY v) ← c(pid → p ON DELETE/UPDATE CASCADE; CHECK w<100; NOT NULL w; KEY pid, KEY w), r(pid → p RESTRICT), g(x TINYINT, y; BEFORE INSERT SIGNAL trigger, AFTER INSERT/UPDATE triggers writing log), src (INSERT…SELECT source)")
	r.Assume("auto-increment counters and LAST_INSERT_ID are not part of the fingerprint")
	r.Assume("the state is re-created from the recorded DDL+data script for every run; determinism of that rebuild is checked by comparing the pre-statement fingerprints of all runs of a case")
	nInj := r.N(70, 700)
	nNat := r.N(50, 450)
	if v := os.Getenv("C15_N"); v != "" {
		fmt.Sscan(v, &nInj)
		nNat = nInj
	}
	if _, _, child := g8blib.ChildSpec(); child {
		defer os.RemoveAll(r.Scratch())
		g8blib.RunChild(nInj+nNat, func(i int, out g8blib.Sink) {
			if i < nInj {
				injectedCase(r, out, i)
			} else {
				naturalCase(r, out, i-nInj)
			}
		})
		os.RemoveAll(r.Scratch())
		return
	}
	w := runtime.NumCPU() / 2
	if v := os.Getenv("VERIF_WORKERS"); v != "" {
		fmt.Sscan(v, &w)
	}
	if w > 8 {
		w = 8
	}
	if w < 1 {
		w = 1
	}
	g8blib.Supervise(r, w, "cases")
	pinned(r)
	for _, pt := range []string{"memory.edit.insert", "memory.edit.update", "memory.edit.delete", "memory.apply.row"} {
		r.Floor(r.Counter("tripped:"+pt) > 0, "no injected fault tripped at "+pt)
	}
	r.Floor(r.Counter("natural-failures-checked") > 0, "no natural failure was checked")
	r.Floor(r.Counter("failed-runs-state-unchanged") > 0, "no failed run left the state verifiably unchanged")
	r.Floor(r.Counter("retries-complete") > 0, "no retry after a failed attempt was verified complete")
	r.Finish()
}

// ---- schema ----

func nums(vs ...int) []string {
	out := make([]string, len(vs))
	for i, v := range vs {
		out[i] = fmt.Sprint(v)
	}
	return out
}

func rng(lo, hi int) []string {
	var out []string
	for i := lo; i <= hi; i++ {
		out = append(out, fmt.Sprint(i))
	}
	return out
}

func schema() []*g8blib.Table {
	p := &g8blib.Table{Name: "p", PK: []string{"id"},
		Cols: []g8blib.Col{{Name: "id", Type: "INT", NotNull: true}, {Name: "v", Type: "INT", Dom: rng(0, 4)}, {Name: "u", Type: "INT", Dom: append(rng(11, 18), rng(31, 38)...)}},
		Indexes: []g8blib.Index{{Name: "uu", Cols: []string{"u"}, Unique: true}, {Name: "iv", Cols: []string{"v"}}}}
	c := &g8blib.Table{Name: "c", PK: []string{"id"},
		Cols: []g8blib.Col{{Name: "id", Type: "INT", NotNull: true}, {Name: "pid", Type: "INT", Dom: append(rng(1, 8), rng(101, 108)...)}, {Name: "w", Type: "INT", NotNull: true, Dom: nums(5, 10, 15, 20, 50, 70)}},
		Indexes: []g8blib.Index{{Name: "ipid", Cols: []string{"pid"}}, {Name: "iw", Cols: []string{"w"}}, {Name: "ipw", Cols: []string{"pid", "w"}}},
		Extra: []string{"CONSTRAINT fkc FOREIGN KEY (pid) REFERENCES p(id) ON DELETE CASCADE ON UPDATE CASCADE", "CONSTRAINT ckw CHECK (w < 100)"}}
	rr := &g8blib.Table{Name: "r", PK: []string{"id"},
		Cols:    []g8blib.Col{{Name: "id", Type: "INT", NotNull: true}, {Name: "pid", Type: "INT", Dom: rng(1, 8)}},
		Indexes: []g8blib.Index{{Name: "irp", Cols: []string{"pid"}}},
		Extra:   []string{"CONSTRAINT fkr FOREIGN KEY (pid) REFERENCES p(id)"}}
	g := &g8blib.Table{Name: "g", PK: []string{"id"},
		Cols:    []g8blib.Col{{Name: "id", Type: "INT", NotNull: true}, {Name: "x", Type: "TINYINT", Dom: rng(0, 3)}, {Name: "y", Type: "INT", Dom: rng(0, 3)}},
		Indexes: []g8blib.Index{{Name: "ix", Cols: []string{"x"}}, {Name: "ixy", Cols: []string{"x", "y"}}}}
	lg := &g8blib.Table{Name: "log", Cols: []g8blib.Col{{Name: "n", Type: "INT"}, {Name: "what", Type: "VARCHAR(20)", Str: true}}}
	src := &g8blib.Table{Name: "src", PK: []string{"id"},
		Cols: []g8blib.Col{{Name: "id", Type: "INT", NotNull: true}, {Name: "a", Type: "INT"}, {Name: "b", Type: "VARCHAR(8)", Str: true}}}
	return []*g8blib.Table{p, c, rr, g, lg, src}
}

var triggers = []string{
	"CREATE TRIGGER g_bi BEFORE INSERT ON g FOR EACH ROW BEGIN IF NEW.y = 99 THEN SIGNAL SQLSTATE '45000' SET MESSAGE_TEXT = 'no 99'; END IF; END",
	"CREATE TRIGGER g_ai AFTER INSERT ON g FOR EACH ROW INSERT INTO log VALUES (NEW.id, 'ins')",
	"CREATE TRIGGER g_bu BEFORE UPDATE ON g FOR EACH ROW BEGIN IF NEW.y = 99 THEN SIGNAL SQLSTATE '45000' SET MESSAGE_TEXT = 'no 99'; END IF; END",
	"CREATE TRIGGER g_au AFTER UPDATE ON g FOR EACH ROW INSERT INTO log VALUES (NEW.id, 'upd')",
	"CREATE TRIGGER g_ad AFTER DELETE ON g FOR EACH ROW INSERT INTO log VALUES (OLD.id, 'del')",
}

// ---- statement cases ----

type post struct {
	Query  string `json:"query"`
	Expect string `json:"expect"`
}

type stmtCase struct {
	Class     string   `json:"class"`
	Target    string   `json:"target"`
	Setup     []string `json:"setup"` // whole script: DDL, triggers, data, case-specific preparation
	InTxn     []string `json:"in_txn,omitempty"`
	SQL       string   `json:"sql"`
	N         int      `json:"n"`
	K         int      `json:"k,omitempty"`
	Post      []post   `json:"post,omitempty"`
	Triggered bool     `json:"triggered"`
}

func in(ids []int) string {
	s := make([]string, len(ids))
	for i, v := range ids {
		s[i] = fmt.Sprint(v)
	}
	return strings.Join(s, ",")
}

func posClass(k, n int) string {
	switch {
	case k == 1:
		return "first"
	case k == n:
		return "last"
	}
	return "middle"
}

type rnd interface {
	Intn(int) int
	Perm(int) []int
}

// baseData renders the data part of the script: 8 parents, 0–3 cascading children each, a few
// restricting children, 5 triggered rows.
func baseData(rd rnd, restrictOn map[int]bool) []string {
	var out []string
	var prow, crow, rrow, grow []string
	for id := 1; id <= 8; id++ {
		prow = append(prow, fmt.Sprintf("(%d, %d, %d)", id, rd.Intn(5), 10+id))
		for j := 0; j < rd.Intn(4); j++ {
			crow = append(crow, fmt.Sprintf("(%d, %d, %d)", id*10+j, id, []int{10, 20}[rd.Intn(2)]))
		}
		if restrictOn[id] {
			rrow = append(rrow, fmt.Sprintf("(%d, %d)", id, id))
		}
	}
	for id := 1; id <= 5; id++ {
		grow = append(grow, fmt.Sprintf("(%d, %d, %d)", id, rd.Intn(4), rd.Intn(4)))
	}
	out = append(out, "INSERT INTO p VALUES "+strings.Join(prow, ", "))
	if len(crow) > 0 {
		out = append(out, "INSERT INTO c VALUES "+strings.Join(crow, ", "))
	}
	if len(rrow) > 0 {
		out = append(out, "INSERT INTO r VALUES "+strings.Join(rrow, ", "))
	}
	out = append(out, "INSERT INTO g VALUES "+strings.Join(grow, ", "))
	return out
}

func ddl(tables []*g8blib.Table) []string {
	var out []string
	for _, t := range tables {
		out = append(out, t.CreateSQL(t.Name, true))
	}
	return append(out, triggers...)
}

// genCase builds one statement case. k = 0: the statement must succeed (injected-fault cases);
// k in 1..n: the k-th row (in the statement's processing order) fails naturally.
func genCase(rd rnd, tables []*g8blib.Table, class string, n, k int) *stmtCase {
	sc := &stmtCase{Class: class, N: n, K: k}
	restrict := map[int]bool{}
	pick := rd.Perm(8)[:n] // parents concerned, in processing order after sorting
	ids := append([]int{}, pick...)
	for i := range ids {
		ids[i]++
	}
	sortInts(ids)
	var prep []string
	fresh := func(i int) int { return 20 + i }
	switch class {
	case "insert-p:dup-pk", "insert-p:dup-unique", "insert-p:conversion", "insert-p":
		sc.Target = "p"
		rows := make([]string, n)
		for i := range rows {
			id, v, u := fmt.Sprint(fresh(i)), fmt.Sprint(rd.Intn(5)), fmt.Sprint(31+i)
			if i+1 == k {
				switch class {
				case "insert-p:dup-pk":
					id = fmt.Sprint(1 + rd.Intn(8))
				case "insert-p:dup-unique":
					u = fmt.Sprint(11 + rd.Intn(8))
				case "insert-p:conversion":
					v = "'abc'"
				}
			}
			rows[i] = fmt.Sprintf("(%s, %s, %s)", id, v, u)
		}
		sc.SQL = "INSERT INTO p VALUES " + strings.Join(rows, ", ")
		sc.Post = []post{{fmt.Sprintf("SELECT COUNT(*) FROM p WHERE id >= 20 AND id < %d", 20+n), fmt.Sprint(n)}, {"SELECT COUNT(*) FROM p", fmt.Sprint(8 + n)}}
	case "insert-c:not-null", "insert-c:check", "insert-c:fk", "insert-c", "replace-c:check", "replace-c":
		sc.Target = "c"
		rows := make([]string, n)
		for i := range rows {
			id, pid, w := fmt.Sprint(200+i), fmt.Sprint(1+rd.Intn(8)), "15"
			if strings.HasPrefix(class, "replace") && i%2 == 0 {
				id = fmt.Sprint(300 + i) // prepared below: replaces an existing row
				prep = append(prep, fmt.Sprintf("INSERT INTO c VALUES (%d, %d, 20)", 300+i, 1+rd.Intn(8)))
			}
			if i+1 == k {
				switch {
				case strings.HasSuffix(class, ":not-null"):
					w = "NULL"
				case strings.HasSuffix(class, ":check"):
					w = "100"
				case strings.HasSuffix(class, ":fk"):
					pid = "99"
				}
			}
			rows[i] = fmt.Sprintf("(%s, %s, %s)", id, pid, w)
		}
		verb := "INSERT"
		if strings.HasPrefix(class, "replace") {
			verb = "REPLACE"
		}
		sc.SQL = verb + " INTO c VALUES " + strings.Join(rows, ", ")
		sc.Post = []post{{"SELECT COUNT(*) FROM c WHERE id >= 200 AND w = 15", fmt.Sprint(n)}}
	case "insert-g:range", "insert-g:signal", "insert-g":
		sc.Target, sc.Triggered = "g", true
		rows := make([]string, n)
		for i := range rows {
			x, y := fmt.Sprint(rd.Intn(4)), fmt.Sprint(rd.Intn(4))
			if i+1 == k {
				if class == "insert-g:range" {
					x = "300"
				} else {
					y = "99"
				}
			}
			rows[i] = fmt.Sprintf("(%d, %s, %s)", fresh(i), x, y)
		}
		sc.SQL = "INSERT INTO g VALUES " + strings.Join(rows, ", ")
		sc.Post = []post{{"SELECT COUNT(*) FROM g WHERE id >= 20", fmt.Sprint(n)}, {"SELECT COUNT(*) FROM log WHERE n >= 20 AND what = 'ins'", fmt.Sprint(n)}}
	case "update-g:signal", "update-g":
		sc.Target, sc.Triggered = "g", true
		gids := append([]int{}, rd.Perm(5)[:min(n, 5)]...)
		for i := range gids {
			gids[i]++
		}
		sortInts(gids)
		sc.N = len(gids)
		n = sc.N
		if k > n {
			k, sc.K = n, n
		}
		for i, id := range gids {
			y := 1
			if i+1 == k {
				y = 94
			}
			prep = append(prep, fmt.Sprintf("UPDATE g SET y = %d WHERE id = %d", y, id))
		}
		sc.SQL = fmt.Sprintf("UPDATE g SET y = y + 5, x = 2 WHERE id IN (%s) ORDER BY id", in(gids))
		sc.Post = []post{{fmt.Sprintf("SELECT COUNT(*) FROM g WHERE id IN (%s) AND y = 6 AND x = 2", in(gids)), fmt.Sprint(n)}}
	case "update-c:check", "update-c":
		sc.Target = "c"
		var cids []int
		for i := 0; i < n; i++ {
			cids = append(cids, 400+i)
			w := 10
			if i+1 == k {
				w = 50
			}
			prep = append(prep, fmt.Sprintf("INSERT INTO c VALUES (%d, %d, %d)", 400+i, 1+rd.Intn(8), w))
		}
		sc.SQL = fmt.Sprintf("UPDATE c SET w = w + 60 WHERE id IN (%s) ORDER BY id", in(cids))
		sc.Post = []post{{fmt.Sprintf("SELECT COUNT(*) FROM c WHERE id IN (%s) AND w = 70", in(cids)), fmt.Sprint(n)}}
	case "update-p-key:dup-pk", "update-p-key":
		// key update with ON UPDATE CASCADE into c; the k-th new key already exists
		sc.Target = "p"
		if k > 0 {
			prep = append(prep, fmt.Sprintf("INSERT INTO p VALUES (%d, 0, 40)", ids[k-1]+100))
		}
		sc.SQL = fmt.Sprintf("UPDATE p SET id = id + 100 WHERE id IN (%s) ORDER BY id", in(ids))
		var nids []int
		for _, id := range ids {
			nids = append(nids, id+100)
		}
		sc.Post = []post{{fmt.Sprintf("SELECT COUNT(*) FROM p WHERE id IN (%s)", in(nids)), fmt.Sprint(n)},
			{fmt.Sprintf("SELECT COUNT(*) FROM p WHERE id IN (%s)", in(ids)), "0"},
			{fmt.Sprintf("SELECT COUNT(*) FROM c WHERE pid IN (%s)", in(ids)), "0"}}
	case "update-p:dup-unique":
		sc.Target = "p"
		// the k-th row is given a u that another (untouched) row holds
		other := 0
		for id := 1; id <= 8; id++ {
			found := false
			for _, x := range ids {
				if x == id {
					found = true
				}
			}
			if !found {
				other = id
				break
			}
		}
		if other == 0 { // all 8 concerned: shrink
			ids = ids[:7]
			other = 8
			sc.N = 7
			if k > 7 {
				k, sc.K = 7, 7
			}
		}
		prep = append(prep, fmt.Sprintf("UPDATE p SET u = %d WHERE id = %d", 50+ids[k-1], other))
		sc.SQL = fmt.Sprintf("UPDATE p SET u = id + 50 WHERE id IN (%s) ORDER BY id", in(ids))
	case "delete-p:fk-restrict", "delete-p":
		sc.Target = "p"
		if k > 0 {
			restrict[ids[k-1]] = true
		}
		sc.SQL = fmt.Sprintf("DELETE FROM p WHERE id IN (%s) ORDER BY id", in(ids))
		sc.Post = []post{{fmt.Sprintf("SELECT COUNT(*) FROM p WHERE id IN (%s)", in(ids)), "0"},
			{fmt.Sprintf("SELECT COUNT(*) FROM c WHERE pid IN (%s)", in(ids)), "0"}}
	case "delete-multi:fk-restrict", "delete-multi":
		// multi-table DELETE: one statement, two target tables, one editor per target; a failure (the RESTRICT
		// child pins one p row) must undo what was already deleted from BOTH targets, whichever is listed first
		sc.Target = "p"
		rows := make([]string, len(ids))
		for i, id := range ids {
			rows[i] = fmt.Sprintf("(%d, %d, 'm%d')", id, rd.Intn(5), id)
		}
		prep = append(prep, "INSERT INTO src VALUES "+strings.Join(rows, ", "))
		if k > 0 {
			restrict[ids[k-1]] = true
		}
		targets := "src, p"
		if rd.Intn(2) == 0 {
			targets = "p, src"
		}
		sc.SQL = fmt.Sprintf("DELETE %s FROM src JOIN p ON src.id = p.id WHERE p.id IN (%s)", targets, in(ids))
		sc.Post = []post{{fmt.Sprintf("SELECT COUNT(*) FROM p WHERE id IN (%s)", in(ids)), "0"},
			{fmt.Sprintf("SELECT COUNT(*) FROM src WHERE id IN (%s)", in(ids)), "0"},
			{fmt.Sprintf("SELECT COUNT(*) FROM c WHERE pid IN (%s)", in(ids)), "0"}}
	case "delete-g":
		sc.Target, sc.Triggered = "g", true
		sc.SQL = "DELETE FROM g WHERE id <= " + fmt.Sprint(min(n, 5))
		sc.N = min(n, 5)
		sc.Post = []post{{"SELECT COUNT(*) FROM g WHERE id <= " + fmt.Sprint(sc.N), "0"}, {"SELECT COUNT(*) FROM log WHERE what = 'del'", fmt.Sprint(sc.N)}}
	case "insert-select-p:conversion", "insert-select-p:dup-unique", "insert-select-p":
		sc.Target = "p"
		rows := make([]string, n)
		for i := range rows {
			b := fmt.Sprint(31 + i)
			if i+1 == k {
				if class == "insert-select-p:conversion" {
					b = "x"
				} else {
					b = fmt.Sprint(11 + rd.Intn(8))
				}
			}
			rows[i] = fmt.Sprintf("(%d, %d, '%s')", i+1, rd.Intn(5), b)
		}
		prep = append(prep, "INSERT INTO src VALUES "+strings.Join(rows, ", "))
		sc.SQL = "INSERT INTO p (id, v, u) SELECT id + 19, a, b FROM src ORDER BY id"
		sc.Post = []post{{fmt.Sprintf("SELECT COUNT(*) FROM p WHERE id >= 20 AND id < %d", 20+n), fmt.Sprint(n)}}
	default:
		panic("unknown class " + class)
	}
	sc.Setup = append(ddl(tables), baseData(rd, restrict)...)
	sc.Setup = append(sc.Setup, prep...)
	if rd.Intn(10) < 3 {
		// inside an explicit transaction, after an earlier statement of the same transaction: the failed
		// statement must leave that earlier change in place too
		sc.InTxn = []string{"BEGIN", "UPDATE p SET v = v + 1 WHERE id = 8", "INSERT INTO c VALUES (990, 8, 5)"}
	}
	return sc
}

func sortInts(a []int) {
	for i := 1; i < len(a); i++ {
		for j := i; j > 0 && a[j] < a[j-1]; j-- {
			a[j], a[j-1] = a[j-1], a[j]
		}
	}
}

var injectClasses = []string{"insert-p", "insert-c", "replace-c", "insert-g", "update-g", "update-c", "update-p-key", "delete-p", "delete-g", "insert-select-p", "delete-multi"}

var naturalClasses = []string{"insert-p:dup-pk", "insert-p:dup-unique", "insert-p:conversion", "insert-c:not-null", "insert-c:check", "insert-c:fk",
	"replace-c:check", "insert-g:range", "insert-g:signal", "update-g:signal", "update-c:check", "update-p-key:dup-pk", "update-p:dup-unique",
	"delete-p:fk-restrict", "insert-select-p:conversion", "insert-select-p:dup-unique", "delete-multi:fk-restrict"}

// build re-creates the database from the script.
func build(sc *stmtCase) (*core.Eng, *core.Sess) {
	e := core.NewEng("d")
	s := e.NewSess()
	for _, q := range sc.Setup {
		s.MustExec(q)
	}
	for _, q := range sc.InTxn {
		s.MustExec(q)
	}
	return e, s
}

func witness(sc *stmtCase, extra map[string]any) map[string]any {
	w := map[string]any{"case": sc}
	for k, v := range extra {
		w[k] = v
	}
	return w
}

// judgeFailed handles a run whose statement returned an error: the state must equal the snapshot.
func judgeFailed(out g8blib.Sink, sc *stmtCase, kind, pos string, res *core.Result, pre, postFP *g8blib.FP, extra map[string]any) bool {
	out.Eval(1)
	d := pre.Diff(postFP)
	if d.Same() {
		out.Count("failed-runs-state-unchanged", 1)
		out.Distinct(sc.Class + "|" + kind + "|" + pos + "|failed-no-effect")
		return true
	}
	ex := map[string]any{"fault": kind, "position": pos, "error": fmt.Sprint(res.Err), "diff": d}
	for k, v := range extra {
		ex[k] = v
	}
	// F4: rows written by a trigger into another table survive; the statement's own table and everything
	// else is as before
	if sc.Triggered && len(d.IndexTables) == 0 && len(d.RowTables) == 1 && d.RowTables[0] == "log" && len(d.OnlyA["log"]) == 0 {
		out.Violation(sigTrigger, witness(sc, ex))
		return false
	}
	// F4 family under injected storage errors: the statement on a triggered table keeps the rows it had
	// changed before the error (its own table and the trigger-written log), nothing else differs
	if sc.Triggered && strings.HasPrefix(kind, "inject:") && len(d.IndexTables) == 0 && subsetOf(d.RowTables, sc.Target, "log") {
		out.Violation(sigTrigBody, witness(sc, ex))
		return false
	}
	out.Violation("failed-stmt-has-effect:"+sc.Class+":"+kind+":"+d.Class(), witness(sc, ex))
	return false
}

func subsetOf(xs []string, allowed ...string) bool {
	for _, x := range xs {
		ok := false
		for _, a := range allowed {
			if x == a {
				ok = true
			}
		}
		if !ok {
			return false
		}
	}
	return true
}

func checkPost(s *core.Sess, sc *stmtCase) (bool, string) {
	for _, p := range sc.Post {
		r := s.Exec(p.Query)
		got := "ERR"
		if !r.Failed() && len(r.Rows) == 1 {
			got = core.Canon(r.Rows[0][0])
		}
		if got != p.Expect {
			return false, fmt.Sprintf("%s -> %s, expected %s", p.Query, got, p.Expect)
		}
	}
	return true, ""
}

func naturalCase(r *core.Run, out g8blib.Sink, i int) {
	rd := r.Rand("natural", i)
	tables := schema()
	class := naturalClasses[i%len(naturalClasses)]
	n := 3 + rd.Intn(4)
	db := g8blib.NewDB(tables, rd, true)
	seedState := rd.Int63()
	for k := 1; k <= n; k++ {
		sc := genCase(core.RandFor(seedState, "C15", "nat-state", 0), tables, class, n, k)
		if k > sc.N {
			break
		}
		e, s := build(sc)
		pre := db.Fingerprint(s)
		res := s.Exec(sc.SQL)
		switch {
		case res.Panic != nil:
			out.Violation(res.Panic.Sig(), witness(sc, map[string]any{"panic": res.Panic.Value, "stack": core.Clip(res.Panic.Stack, 3000)}))
		case res.TimedOut:
			out.Inconclusive("watchdog")
		case !res.Failed():
			out.Inconclusive("expected-natural-failure-did-not-fail:" + class)
		default:
			out.Count("natural-failures-checked", 1)
			post := db.Fingerprint(s)
			if pre.Err != "" || post.Err != "" {
				out.Violation("fingerprint-failed", witness(sc, map[string]any{"error": pre.Err + " / " + post.Err}))
			} else if judgeFailed(out, sc, "natural:"+res.ErrClass(), posClass(k, sc.N), res, pre, post, nil) && i < 2 && k == 2 {
				out.Sample(map[string]any{"class": class, "statement": sc.SQL, "failing_row": k, "error": fmt.Sprint(res.Err), "compared": "fingerprint before vs after (6 tables, index-driven reads)", "equal": true})
			}
		}
		e.Close()
	}
}
