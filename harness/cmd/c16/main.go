// C16 — indexes stay consistent with table data across histories.
//
// Oracle (metamorphic, over histories): after EVERY step of a seeded DML/DDL/transaction history on a
// table t with secondary / unique / multi-column / prefix indexes, each index-driven read of a probe
// set (point lookups for every key value ever seen and NULL, ranges between adjacent keys, open
// ranges, prefix and full-key lookups on multi-column indexes, LIKE on string keys, ordered scans in
// both directions with and without LIMIT, COUNT(*)) must return exactly the rows for which the same
// predicate is TRUE in the scan-driven evaluation `SELECT cols, (p) IS TRUE FROM t` — and the same
// again on an index-free twin table n that received the same statements. Everything is compared as
// sorted multisets in the harness; ordered scans are additionally compared on their key sequence.
package main

import (
	"fmt"
	"math/rand"
	"os"
	"strings"

	"verif/harness/core"
	"verif/harness/g8blib"
)

const (
	sigRollback = "index-rowloc-stale-after-rollback"
	sigPKOrder  = "ordered-scan-unordered:primary-key-index:multi-partition-table"
	sigUnbuilt  = "failed-unique-prefix-index-build-leaves-empty-index"
)

type applied struct {
	SQL     string `json:"sql"`
	Kind    string `json:"kind"`
	Outcome string `json:"outcome"`
	Twin    string `json:"twin,omitempty"`
}

type histCase struct {
	r      *core.Run
	i      int
	rnd    *rand.Rand
	pkMode string
	parts  int
	setup  []string
	log    []applied
	s      *core.Sess
	h      *g8blib.Hist
	seen   *g8blib.Seen
	// classification state
	pkOrderSeen   bool
	txnOpenBefore bool // an explicit transaction was open when the current step started
	// evidence
	probed, indexDriven, planChecked int64
}

func main() {
	r := core.NewRun("C16", "exploration",
		"a case is one seeded history (schema: key mode × partitions × index set; 30 (quick) / 40 (thorough) steps of INSERT/IGNORE/REPLACE/ODKU/UPDATE incl. key updates/DELETE first-middle-last/TRUNCATE/CREATE+DROP INDEX/ALTER rewrites/BEGIN-COMMIT-ROLLBACK); after every step every probe's index-driven read is compared with the scan-driven evaluation of the same predicate on the table and on an index-free twin; distinct = (index shape, probe kind, kind of the preceding step) with a non-empty index-driven result")
	r.Assume("value domains: INT columns and VARCHAR under utf8mb4_0900_bin without trailing spaces; literals always inside the column domain (out-of-domain index literals are C03's known class F11)")
	r.Assume("statements whose semantics depend on which keys are unique (INSERT IGNORE, REPLACE, ON DUPLICATE KEY UPDATE) are generated only while the indexed table has no unique secondary index, because the twin shares only the primary key")
	r.Assume("a statement that fails with a duplicate-key error on the indexed table is not given to the twin; a twin-only duplicate-key failure (row-order dependent multi-row key update) is inconclusive")
	r.Assume("the structural H3 walk of DESIGN §4 (witness finder only, no verdict) is not available in /repo and is left out")

	n := r.N(200, 2000)
	if os.Getenv("C16_N") != "" {
		fmt.Sscan(os.Getenv("C16_N"), &n) // development aid: shorter runs
	}
	steps := r.N(30, 40)
	r.Parallel("hist", n, func(i int) {
		hc := &histCase{r: r, i: i, rnd: r.Rand("hist", i)}
		hc.run(steps)
		r.Count("probes", hc.probed)
		r.Count("plans-checked", hc.planChecked)
		r.Count("plans-index-driven", hc.indexDriven)
	})
	pinned(r)
	r.Floor(r.Counter("plans-checked") > 0 && r.Counter("plans-index-driven")*2 > r.Counter("plans-checked"),
		"fewer than half of the sampled probe reads were index-driven (IndexedTableAccess)")
	r.Floor(r.Counter("steps-ok") > int64(n)*10, "too few successful history steps")
	r.Floor(r.Counter("rollbacks-checked")+r.Counter("failed-stmts-checked") > 0, "no rollback / failed statement was followed by a check")
	r.Finish()
}

func (hc *histCase) exec(q string) *core.Result {
	return hc.s.Exec(q)
}

func outcome(res *core.Result) string {
	if res.Failed() {
		return "ERR " + res.ErrClass()
	}
	return "ok"
}

func (hc *histCase) witness(extra map[string]any) map[string]any {
	w := map[string]any{"case": hc.i, "seed": hc.r.Seed, "tier": hc.r.Tier, "pk_mode": hc.pkMode, "partitions": hc.parts,
		"setup": hc.setup, "history": hc.log}
	for k, v := range extra {
		w[k] = v
	}
	return w
}

func (hc *histCase) run(steps int) {
	r, rnd := hc.r, hc.rnd
	hc.pkMode = []string{"id", "aid", "none"}[hc.i%3]
	hc.parts = 1
	if rnd.Intn(3) == 0 {
		hc.parts = 3
	}
	// 1–3 palette indexes to start with
	perm := rnd.Perm(len(g8blib.IndexPalette))
	var idx []g8blib.Index
	for _, k := range perm[:1+rnd.Intn(3)] {
		idx = append(idx, g8blib.IndexPalette[k])
	}
	t := g8blib.StdTable("t", hc.pkMode, hc.parts, idx)
	useTxn := rnd.Intn(100) < 45
	e := core.NewEng("d")
	defer e.Close()
	hc.s = e.NewSess()
	t.Create(hc.s, "n")
	hc.setup = []string{t.CreateSQL("t", true), t.CreateSQL("n", false)}
	hc.h = g8blib.NewHist(t, hc.pkMode, rnd, useTxn)
	hc.seen = g8blib.NewSeen()

	// initial population through the same statement generator (insert steps only)
	for k := 0; k < 3; k++ {
		st := hc.h.Next()
		for !strings.HasPrefix(st.Kind, "insert") || st.Kind == "insert-select" {
			if st.Session {
				hc.h.InTxn = false
			}
			st = hc.h.Next()
		}
		if !hc.apply(st) {
			return
		}
	}
	if !hc.check(g8blib.Step{Kind: "populate"}, false) {
		return
	}
	for k := 0; k < steps; k++ {
		hc.txnOpenBefore = hc.h.InTxn
		st := hc.h.Next()
		failed, cont := hc.applyStep(st)
		if !cont {
			return
		}
		if st.DDL || st.Kind == "rollback" || st.Kind == "commit" {
			if err := hc.h.Sync(hc.s); err != nil {
				r.Inconclusive("sync-failed")
				return
			}
		}
		if !hc.check(st, failed) {
			return
		}
	}
	if hc.h.InTxn {
		st := g8blib.Step{Kind: "commit", SQL: "COMMIT", Session: true}
		if _, cont := hc.applyStep(st); cont {
			hc.check(st, false)
		}
	}
}

// apply runs a population step and insists on nothing but "no panic".
func (hc *histCase) apply(st g8blib.Step) bool {
	_, cont := hc.applyStep(st)
	return cont
}

// applyStep gives the step to t and (when it applies) to the twin n. It returns whether the statement
// failed on t and whether the history can continue.
func (hc *histCase) applyStep(st g8blib.Step) (failed bool, cont bool) {
	r := hc.r
	if st.Session {
		res := hc.exec(st.SQL)
		hc.log = append(hc.log, applied{SQL: st.SQL, Kind: st.Kind, Outcome: outcome(res)})
		if res.Panic != nil {
			r.Violation(res.Panic.Sig(), hc.witness(map[string]any{"statement": st.SQL, "panic": res.Panic.Value, "stack": core.Clip(res.Panic.Stack, 3000)}))
			return true, false
		}
		if res.TimedOut {
			r.Inconclusive("watchdog")
			return true, false
		}
		if res.Failed() {
			r.Violation("txn-statement-failed:"+st.Kind, hc.witness(map[string]any{"statement": st.SQL, "error": fmt.Sprint(res.Err)}))
			return true, false
		}
		return false, true
	}
	qt := st.For("t")
	rt := hc.exec(qt)
	ap := applied{SQL: qt, Kind: st.Kind, Outcome: outcome(rt)}
	defer func() { hc.log = append(hc.log, ap) }()
	if rt.Panic != nil {
		r.Violation(rt.Panic.Sig(), hc.witness(map[string]any{"statement": qt, "panic": rt.Panic.Value, "stack": core.Clip(rt.Panic.Stack, 3000)}))
		return true, false
	}
	if rt.TimedOut {
		r.Inconclusive("watchdog")
		return true, false
	}
	if rt.Failed() {
		r.Count("steps-failed", 1)
		r.Count("failed:"+st.Kind+":"+rt.ErrClass(), 1)
	} else {
		r.Count("steps-ok", 1)
	}
	if !st.Twin {
		return rt.Failed(), true
	}
	if rt.Failed() && rt.ErrClass() == "1062" {
		ap.Twin = "skipped (duplicate key on t)"
		return true, true
	}
	qn := st.For("n")
	rn := hc.exec(qn)
	ap.Twin = outcome(rn)
	switch {
	case rn.Panic != nil:
		r.Violation(rn.Panic.Sig(), hc.witness(map[string]any{"statement": qn, "panic": rn.Panic.Value, "stack": core.Clip(rn.Panic.Stack, 3000)}))
		return rt.Failed(), false
	case rn.TimedOut:
		r.Inconclusive("watchdog")
		return rt.Failed(), false
	case rt.Failed() && !rn.Failed():
		// not a duplicate-key failure: the twin differs from t only in its secondary indexes, so a statement
		// rejected on t alone was rejected because of an index
		r.Violation("stmt-fails-on-indexed-table-only:"+st.Kind+":"+rt.ErrClass(), hc.witness(map[string]any{"statement": qt, "error": fmt.Sprint(rt.Err)}))
		return true, false
	case !rt.Failed() && rn.Failed():
		if rn.ErrClass() == "1062" {
			r.Inconclusive("twin-duplicate-key-row-order-dependent")
			return false, false
		}
		r.Violation("stmt-fails-on-twin-only:"+st.Kind+":"+rn.ErrClass(), hc.witness(map[string]any{"statement": qn, "error": fmt.Sprint(rn.Err)}))
		return false, false
	}
	return rt.Failed(), true
}

// check compares index-driven and scan-driven evaluation of the whole probe set. It returns false when
// the history must stop (divergence reported, or no verdict possible).
func (hc *histCase) check(st g8blib.Step, stmtFailed bool) bool {
	r := hc.r
	t := hc.h.T
	cols := t.ColNames()
	// a first plain scan feeds "values ever written" and the generator's list of ids
	pre := g8blib.ScanEval(hc.s, "t", cols, nil)
	if pre.Err != "" {
		r.Violation("scan-failed", hc.witness(map[string]any{"error": pre.Err}))
		return false
	}
	hc.seen.AddRows(t, cols, pre.Rows)
	hc.h.IDs = hc.h.IDs[:0]
	for _, row := range pre.Rows {
		var id int
		fmt.Sscan(row[0], &id)
		hc.h.IDs = append(hc.h.IDs, id)
	}
	probes := g8blib.Probes(t, hc.seen, hc.rnd)
	scT := g8blib.ScanEval(hc.s, "t", cols, probes)
	scN := g8blib.ScanEval(hc.s, "n", cols, probes)
	if scT.Err != "" || scN.Err != "" {
		r.Violation("scan-failed", hc.witness(map[string]any{"error": scT.Err + " / " + scN.Err}))
		return false
	}
	after := st.Kind
	if stmtFailed {
		after += "(failed)"
	}
	if st.Kind == "rollback" {
		r.Count("rollbacks-checked", 1)
	}
	if stmtFailed {
		r.Count("failed-stmts-checked", 1)
	}
	tableOK := core.SameStrings(scT.RowKeys(), scN.RowKeys())
	r.Eval(1)
	if !tableOK {
		r.Violation("table-differs-from-twin:after-"+after, hc.witness(map[string]any{
			"after": after, "t_rows": core.ClipStrings(scT.RowKeys(), 40), "n_rows": core.ClipStrings(scN.RowKeys(), 40)}))
		return false
	}
	var diffs []*g8blib.Diff
	for i, p := range probes {
		d, failedRes := g8blib.ReadProbe(hc.s, t, "t", scT, i, p)
		hc.probed++
		r.Eval(1)
		if failedRes != nil && failedRes.TimedOut {
			r.Inconclusive("watchdog")
			return false
		}
		checkPlan := d != nil || hc.rnd.Intn(12) == 0
		if checkPlan {
			drv, pl := g8blib.IndexDriven(hc.s, p.Query("t", cols), "t")
			hc.planChecked++
			if drv {
				hc.indexDriven++
			}
			if d != nil {
				d.Plan = pl
			}
		}
		if d != nil {
			diffs = append(diffs, d)
			continue
		}
		exp, _ := scT.Expected(t, i, p)
		if len(exp) > 0 {
			r.Distinct(p.Shape + "|" + p.Kind + "|" + after)
		}
		if hc.i < 3 && len(exp) > 1 && hc.rnd.Intn(40) == 0 {
			r.Sample(map[string]any{"case": hc.i, "after_step": after, "index": p.Index, "probe": p.Query("t", cols),
				"scan_evaluation": "SELECT …, (" + p.Pred() + ") IS TRUE FROM t / FROM n", "rows_matching": len(exp), "agree": true})
		}
	}
	// Known class 1 (kept apart, the history goes on): ordered scans served by the PRIMARY KEY index of a
	// table with several partitions return the right rows partition by partition, each partition sorted,
	// not merged — the key sequence is not ordered although the plan dropped the Sort.
	var rest []*g8blib.Diff
	pkIdx := "index: [t." + strings.Join(t.PK, ",t.") + "]"
	for _, d := range diffs {
		if d.Why == g8blib.WhyKeySequence && hc.parts > 1 && len(t.PK) > 0 && strings.Contains(d.Plan, pkIdx) {
			if !hc.pkOrderSeen {
				hc.pkOrderSeen = true
				r.Violation(sigPKOrder, hc.witness(map[string]any{"after": after, "first_diff": d}))
			}
			continue
		}
		rest = append(rest, d)
	}
	diffs = rest
	if len(diffs) == 0 {
		return true
	}
	// classification of the first divergence of this history
	d := diffs[0]
	var kinds []string
	seenKind := map[string]bool{}
	missingOnly := true
	for _, x := range diffs {
		if !seenKind[x.Probe.Shape+"/"+x.Probe.Kind] {
			seenKind[x.Probe.Shape+"/"+x.Probe.Kind] = true
			kinds = append(kinds, x.Probe.Shape+"/"+x.Probe.Kind)
		}
		if !(x.MissingOnly() || x.Why == "count") {
			missingOnly = false
		}
	}
	w := hc.witness(map[string]any{"after": after, "first_diff": d, "diff_count": len(diffs), "diff_kinds": kinds,
		"table_equals_twin": tableOK})
	readErr := strings.HasPrefix(d.Why, "index-driven read failed")
	switch {
	case readErr:
		r.Violation("index-read-error:"+d.Probe.Shape+":"+d.Probe.Kind, w)
	case stmtFailed && strings.HasPrefix(st.Kind, "create-index-uniq") && strings.Contains(st.Kind, "prefix") && missingOnly:
		// Known class 2: a CREATE UNIQUE INDEX over a prefix column fails in the index build (duplicate
		// prefixes pass the whole-value pre-check) and leaves the index registered with empty storage —
		// inside an explicit transaction always, with autocommit when the table already has a secondary
		// index (the indexes map is shared between TableData copies): reads planned through it miss rows.
		r.Violation(sigUnbuilt, w)
	case st.Kind == "rollback":
		// F24 (fixed in /repo by "TableData.copy copies secondary index rows"): kept as its own class
		r.Violation(sigRollback, w)
	default:
		r.Violation("index-read-differs-from-scan:"+d.Probe.Shape+":"+classOf(d.Probe.Kind)+":after-"+after, w)
	}
	return false
}

func classOf(kind string) string {
	switch {
	case strings.HasPrefix(kind, "ordered"):
		return "ordered"
	case strings.HasPrefix(kind, "count"):
		return "count"
	}
	return "lookup"
}

// pinned replays the minimal F24 witness: delete of a non-last row inside a transaction, ROLLBACK,
// then a range read through the secondary index.
func pinned(r *core.Run) {
	e := core.NewEng("d")
	defer e.Close()
	s := e.NewSess()
	script := []string{
		"CREATE TABLE t (id INT PRIMARY KEY, a INT, b INT, KEY ib(b))",
		"INSERT INTO t VALUES (21,1,0),(22,1,5),(23,1,1),(24,1,1),(25,2,7)",
		"BEGIN",
		"DELETE FROM t WHERE id = 22",
		"ROLLBACK",
	}
	for _, q := range script {
		s.MustExec(q)
	}
	viaIndex := core.SortedRows(s.Exec("SELECT id FROM t WHERE b <= 1").Rows)
	var viaScan []string
	for _, row := range s.Exec("SELECT id, (b <= 1) IS TRUE FROM t").Rows {
		if core.Canon(row[1]) == "1" {
			viaScan = append(viaScan, core.Canon(row[0]))
		}
	}
	still := !core.SameStrings(viaIndex, viaScan)
	r.Pinned(sigRollback, fmt.Sprintf("BEGIN; DELETE FROM t WHERE id=22; ROLLBACK; SELECT id FROM t WHERE b<=1 (KEY ib(b)) -> %v via index, %v via scan", viaIndex, viaScan), still,
		map[string]any{"script": script, "via_index": viaIndex, "via_scan": viaScan})
	r.Eval(1)

	pinnedPKOrder(r)
	pinnedUnbuilt(r)
}
