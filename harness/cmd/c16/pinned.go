package main

import (
	"fmt"
	"sort"
	"strings"

	"verif/harness/core"
	"verif/harness/g8blib"
)

// pinnedPKOrder replays the pinned witness of the known class "ordered scan through the PRIMARY KEY
// index of a multi-partition table is not ordered": three single-row inserts into a 3-partition table
// with PRIMARY KEY (a,id), then SELECT … ORDER BY a, which the plan serves from the key index
// without a Sort.
func pinnedPKOrder(r *core.Run) {
	e := core.NewEng("d")
	defer e.Close()
	s := e.NewSess()
	t := g8blib.StdTable("t", "aid", 3, nil)
	t.Create(s, "")
	script := []string{
		"INSERT INTO t (id, a, b, c, s) VALUES (19, 2, 1, 2, NULL)",
		"INSERT INTO t (id, a, b, c, s) VALUES (24, 0, NULL, 1, 'a')",
		"INSERT INTO t (id, a, b, c, s) VALUES (21, 2, 14, NULL, 'Ab')",
		"INSERT INTO t (id, a, b, c, s) VALUES (5, 1, 14, NULL, 'Ab')",
		"INSERT INTO t (id, a, b, c, s) VALUES (7, 3, 1, NULL, 'b')",
		"INSERT INTO t (id, a, b, c, s) VALUES (8, 4, 1, NULL, 'b')",
	}
	for _, q := range script {
		s.MustExec(q)
	}
	q := "SELECT a, id FROM t ORDER BY a"
	res := s.Exec(q)
	var got []string
	for _, row := range res.Rows {
		got = append(got, core.Canon(row[0]))
	}
	want := append([]string{}, got...)
	sort.Slice(want, func(i, j int) bool { return g8blib.CmpVal(false, want[i], want[j]) < 0 })
	plan := s.Plan(q)
	still := !res.Failed() && !core.SameStrings(got, want) && !strings.Contains(plan, "Sort")
	r.Pinned(sigPKOrder, fmt.Sprintf("3-partition table (memory.NewPartitionedTable), PRIMARY KEY (a,id): %s returns a = %v (plan: IndexedTableAccess on [t.a,t.id], no Sort)", q, got), still,
		map[string]any{"create": t.CreateSQL("t", true), "partitions": 3, "script": script, "query": q, "a_sequence": got, "plan": plan})
	r.Eval(1)
}

// pinnedUnbuilt replays the pinned witness of the known class "a CREATE UNIQUE INDEX over a prefix
// column that fails during the build leaves a registered, empty index".
func pinnedUnbuilt(r *core.Run) {
	e := core.NewEng("d")
	defer e.Close()
	s := e.NewSess()
	script := []string{
		"CREATE TABLE t (id INT PRIMARY KEY, s VARCHAR(12), b INT, KEY ib(b))",
		"INSERT INTO t VALUES (1,'abcd',1),(2,'abce',1),(3,'x',1)",
	}
	for _, q := range script {
		s.MustExec(q)
	}
	cr := s.Exec("CREATE UNIQUE INDEX us ON t (s(3))")
	viaIndex := core.SortedRows(s.Exec("SELECT id FROM t WHERE s = 'x'").Rows)
	var viaScan []string
	for _, row := range s.Exec("SELECT id, (s = 'x') IS TRUE FROM t").Rows {
		if core.Canon(row[1]) == "1" {
			viaScan = append(viaScan, core.Canon(row[0]))
		}
	}
	still := cr.Failed() && !core.SameStrings(viaIndex, viaScan)
	r.Pinned(sigUnbuilt, fmt.Sprintf("table with KEY ib(b): CREATE UNIQUE INDEX us ON t (s(3)) fails (1062, 'abcd'/'abce'); SELECT id FROM t WHERE s='x' -> %v via index us, %v via scan", viaIndex, viaScan), still,
		map[string]any{"script": append(script, "CREATE UNIQUE INDEX us ON t (s(3))  -- fails with 1062"), "via_index": viaIndex, "via_scan": viaScan})
	r.Eval(1)
}
