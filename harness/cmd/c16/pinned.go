package main

// pinnedFailed replays the pinned witness of the failed-statement member of F24.
func pinnedFailed() (bool, string, any) {
	return false, "", nil
}
