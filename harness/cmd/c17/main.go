// C17 — transactions commit or roll back exactly their own changes.
//
// Deterministic multi-session histories: 2–4 sessions of one engine are driven by ONE scheduler
// goroutine (the sessions are logically concurrent, physically sequential — what the in-memory
// backend supports). Statements: BEGIN / START TRANSACTION [READ ONLY] / COMMIT / ROLLBACK /
// SET autocommit=0|1 / single- and multi-row INSERT, UPDATE, DELETE on two tables (some failing on a
// duplicate key) / DDL with its implicit commit. A reference model (committed state + the working
// copy of the one session that holds a transaction) prescribes what every session must read after
// every step, through table scans and through secondary indexes, and the final state.
// Guards (DESIGN §4 C17): explicit transactions of different sessions are disjoint in time (token
// passing), other sessions only issue autocommit READS while a transaction is open; nothing is said
// about overlapping transactions, which the backend documents as unsupported.
package main

import (
	"fmt"
	"math/rand"
	"os"
	"sort"
	"strings"

	"verif/harness/core"
)

const sigF33 = "panic:sql/analyzer.validateReadOnlyTransaction:nil-deref-on-write-in-read-only-transaction"

type trow struct {
	a *int
	b int
}

// state is the content of the two tables: t(id, a, b) and u(id, v).
type state struct {
	t map[int]trow
	u map[int]int
}

func (s *state) clone() *state {
	c := &state{t: make(map[int]trow, len(s.t)), u: make(map[int]int, len(s.u))}
	for k, v := range s.t {
		c.t[k] = v
	}
	for k, v := range s.u {
		c.u[k] = v
	}
	return c
}

func istr(p *int) string {
	if p == nil {
		return "NULL"
	}
	return fmt.Sprint(*p)
}

func (s *state) rowsT(pred func(id int, r trow) bool) []string {
	var out []string
	for id, r := range s.t {
		if pred == nil || pred(id, r) {
			out = append(out, fmt.Sprintf("%d|%s|%d", id, istr(r.a), r.b))
		}
	}
	sort.Strings(out)
	return out
}

func (s *state) rowsU(pred func(id, v int) bool) []string {
	var out []string
	for id, v := range s.u {
		if pred == nil || pred(id, v) {
			out = append(out, fmt.Sprintf("%d|%d", id, v))
		}
	}
	sort.Strings(out)
	return out
}

type msess struct {
	s          *core.Sess
	autocommit bool
	work       *state // non-nil: a transaction is open (explicit, or implicit under autocommit=0)
	explicit   bool   // opened by BEGIN / START TRANSACTION
	readOnly   bool
}

type event struct {
	Sess    int    `json:"session"`
	SQL     string `json:"sql"`
	Kind    string `json:"kind"`
	Outcome string `json:"outcome"`
}

type hist struct {
	r     *core.Run
	i     int
	rnd   *rand.Rand
	e     *core.Eng
	ss    []*msess
	comm  *state
	token int // index of the session holding the transaction token, -1 = free
	log   []event
	nextX int
	uIdx  bool
	stop  bool
}

func main() {
	r := core.NewRun("C17", "exploration",
		"a case is one seeded multi-session history (2–4 sessions, ~45 steps, interleaving chosen by the PRNG) of transactional statements on two tables; after every step the acting session, one other session and periodically all sessions read both tables by scan and through secondary indexes and are compared with the model (committed state, or the working copy for the session holding the open transaction); distinct = (step kind, reader role, whether uncommitted changes existed, read path)")
	r.Assume("explicit transactions (and autocommit=0 phases) of different sessions never overlap in time; while one is open other sessions only read in autocommit mode — overlapping transactions, including read-only ones, are documented as unsupported by the in-memory backend and not asserted")
	r.Assume("after a DDL statement inside an explicit transaction the generator issues COMMIT at once: MySQL ends the transaction at the implicit commit, this engine keeps the session in transaction mode; the difference is never exercised")
	r.Assume("likewise SET autocommit = 1 is only issued outside an explicit BEGIN block (COMMIT first): MySQL commits and leaves the transaction, this engine stays in the BEGIN block; with autocommit = 0 and no BEGIN the switch commits in both and is generated and judged")
	r.Assume("TRUNCATE and multi-statement DDL are not generated inside transactions; row counts / affected rows are C13's subject and not judged here")
	r.Assume("the race-detector mode of DESIGN §4 (free-running readers under -race) is left out; this monitor is the deterministic single-scheduler part")
	n := r.N(300, 6000)
	if v := os.Getenv("C17_N"); v != "" {
		fmt.Sscan(v, &n)
	}
	steps := 45
	r.Parallel("hist", n, func(i int) {
		h := &hist{r: r, i: i, rnd: r.Rand("hist", i), token: -1}
		h.run(steps)
	})
	pinned(r)
	r.Floor(r.Counter("commits") > 0 && r.Counter("rollbacks") > 0, "no COMMIT or no ROLLBACK of a non-empty transaction was checked")
	r.Floor(r.Counter("reads-by-other-session-while-uncommitted-changes") > 0, "no other session read while a transaction had uncommitted changes")
	r.Floor(r.Counter("implicit-commits") > 0, "no implicit commit (DDL / BEGIN / SET autocommit=1 inside a transaction) was checked")
	r.Floor(r.Counter("autocommit-writes") > 0, "no autocommit write was checked")
	r.Floor(r.Counter("failed-stmts-in-txn") > 0, "no failed statement inside a transaction was checked")
	r.Finish()
}

func ip(v int) *int { return &v }

func (h *hist) witness(extra map[string]any) map[string]any {
	w := map[string]any{"case": h.i, "seed": h.r.Seed, "tier": h.r.Tier, "sessions": len(h.ss), "history": h.log,
		"setup": []string{"CREATE TABLE t (id INT PRIMARY KEY, a INT, b INT, KEY ia(a), KEY ib(b))", "CREATE TABLE u (id INT PRIMARY KEY, v INT)", "(initial rows are the first statements of the history)"}}
	for k, v := range extra {
		w[k] = v
	}
	return w
}

// exec runs a statement on session k and logs it.
func (h *hist) exec(k int, kind, q string) *core.Result {
	res := h.ss[k].s.Exec(q)
	out := "ok"
	if res.Panic != nil {
		out = "PANIC " + res.Panic.Value
	} else if res.Failed() {
		out = "ERR " + res.ErrClass()
	}
	h.log = append(h.log, event{Sess: k, SQL: q, Kind: kind, Outcome: out})
	return res
}

// must runs a statement that the model expects to succeed.
func (h *hist) must(k int, kind, q string) bool {
	res := h.exec(k, kind, q)
	return h.expectOK(k, kind, q, res)
}

func (h *hist) expectOK(k int, kind, q string, res *core.Result) bool {
	switch {
	case res.Panic != nil:
		h.r.Violation(res.Panic.Sig(), h.witness(map[string]any{"statement": q, "session": k, "panic": res.Panic.Value, "stack": core.Clip(res.Panic.Stack, 3000)}))
	case res.TimedOut:
		h.r.Inconclusive("watchdog")
	case res.Failed():
		h.r.Violation("unexpected-error:"+kind+":"+res.ErrClass(), h.witness(map[string]any{"statement": q, "session": k, "error": fmt.Sprint(res.Err)}))
	default:
		return true
	}
	h.stop = true
	return false
}

// view is the state session k must see.
func (h *hist) view(k int) *state {
	if h.ss[k].work != nil {
		return h.ss[k].work
	}
	return h.comm
}

// target is the state a write of session k goes to; it opens the implicit transaction of an
// autocommit=0 session.
func (h *hist) target(k int) *state {
	m := h.ss[k]
	if m.work != nil {
		return m.work
	}
	if !m.autocommit {
		m.work = h.comm.clone()
		return m.work
	}
	return h.comm
}

func (h *hist) run(steps int) {
	r, rnd := h.r, h.rnd
	h.e = core.NewEng("d")
	defer h.e.Close()
	ns := 2 + rnd.Intn(3)
	for k := 0; k < ns; k++ {
		h.ss = append(h.ss, &msess{s: h.e.NewSess(), autocommit: true})
	}
	h.comm = &state{t: map[int]trow{}, u: map[int]int{}}
	s0 := h.ss[0].s
	s0.MustExec("CREATE TABLE t (id INT PRIMARY KEY, a INT, b INT, KEY ia(a), KEY ib(b))")
	s0.MustExec("CREATE TABLE u (id INT PRIMARY KEY, v INT)")
	// initial rows through the ordinary (autocommit) path
	for id := 1; id <= 5; id++ {
		if !h.write(0, "insert", id, false) {
			return
		}
	}
	for id := 1; id <= 3; id++ {
		h.comm.u[id] = id
		if !h.must(0, "insert-u", fmt.Sprintf("INSERT INTO u VALUES (%d, %d)", id, id)) {
			return
		}
	}
	if !h.readAll("populate") {
		return
	}
	for step := 0; step < steps && !h.stop; step++ {
		k := rnd.Intn(ns)
		kind := h.step(k)
		if h.stop {
			return
		}
		// reads: the acting session, one other, and every 6th step everybody
		if step%6 == 5 {
			if !h.readAll(kind) {
				return
			}
			continue
		}
		if !h.read(k, kind) {
			return
		}
		if o := rnd.Intn(ns); o != k {
			if !h.read(o, kind) {
				return
			}
		}
	}
	// wind down: every open transaction is committed or rolled back, then the final state is read by
	// every session and by a fresh one
	for k := range h.ss {
		m := h.ss[k]
		if m.work != nil || !m.autocommit {
			if rnd.Intn(2) == 0 {
				h.doCommit(k, "final-commit")
			} else {
				h.doRollback(k, "final-rollback")
			}
			if h.stop {
				return
			}
			if !m.autocommit {
				if !h.must(k, "set-autocommit-1", "SET autocommit = 1") {
					return
				}
				m.autocommit = true
			}
			h.token = -1
		}
	}
	h.ss = append(h.ss, &msess{s: h.e.NewSess(), autocommit: true})
	h.readAll("final")
	r.Count("histories-completed", 1)
}

// write performs one DML statement of session k and applies it to the model. which: insert, insert-dup,
// insert-multi, insert-multi-dup, update-id, update-a, delete-id, delete-a, u-*.
func (h *hist) write(k int, which string, id int, inTxn bool) bool {
	rnd := h.rnd
	st := h.target(k)
	val := func() *int {
		if rnd.Intn(8) == 0 {
			return nil
		}
		return ip(rnd.Intn(4))
	}
	var q string
	expectDup := false
	apply := func() {}
	switch which {
	case "insert":
		a, b := val(), rnd.Intn(6)
		q = fmt.Sprintf("INSERT INTO t VALUES (%d, %s, %d)", id, istr(a), b)
		if _, has := st.t[id]; has {
			expectDup = true
		} else {
			apply = func() { st.t[id] = trow{a: a, b: b} }
		}
	case "insert-multi":
		// three rows; ids id, id+1 and a third that may collide
		ids := []int{id, id + 1, id + 2}
		if rnd.Intn(3) == 0 && len(st.t) > 0 {
			ids[2] = h.someID(st)
		}
		var vals []string
		rows := map[int]trow{}
		for _, x := range ids {
			a, b := val(), rnd.Intn(6)
			vals = append(vals, fmt.Sprintf("(%d, %s, %d)", x, istr(a), b))
			if _, has := st.t[x]; has {
				expectDup = true
			}
			if _, twice := rows[x]; twice {
				expectDup = true
			}
			rows[x] = trow{a: a, b: b}
		}
		q = "INSERT INTO t VALUES " + strings.Join(vals, ", ")
		if !expectDup {
			apply = func() {
				for x, rw := range rows {
					st.t[x] = rw
				}
			}
		}
	case "update-id":
		a := val()
		q = fmt.Sprintf("UPDATE t SET a = %s WHERE id = %d", istr(a), id)
		apply = func() {
			if rw, has := st.t[id]; has {
				rw.a = a
				st.t[id] = rw
			}
		}
	case "update-a":
		v := rnd.Intn(4)
		q = fmt.Sprintf("UPDATE t SET b = b + 1 WHERE a = %d", v)
		apply = func() {
			for x, rw := range st.t {
				if rw.a != nil && *rw.a == v {
					rw.b++
					st.t[x] = rw
				}
			}
		}
	case "delete-id":
		q = fmt.Sprintf("DELETE FROM t WHERE id = %d", id)
		apply = func() { delete(st.t, id) }
	case "delete-a":
		v := rnd.Intn(4)
		q = fmt.Sprintf("DELETE FROM t WHERE a = %d", v)
		apply = func() {
			for x, rw := range st.t {
				if rw.a != nil && *rw.a == v {
					delete(st.t, x)
				}
			}
		}
	case "u-insert":
		v := rnd.Intn(5)
		q = fmt.Sprintf("INSERT INTO u VALUES (%d, %d)", id, v)
		if _, has := st.u[id]; has {
			expectDup = true
		} else {
			apply = func() { st.u[id] = v }
		}
	case "u-update":
		q = "UPDATE u SET v = v + 1 WHERE id <= " + fmt.Sprint(id)
		apply = func() {
			for x, v := range st.u {
				if x <= id {
					st.u[x] = v + 1
				}
			}
		}
	case "u-delete":
		q = fmt.Sprintf("DELETE FROM u WHERE id = %d", id)
		apply = func() { delete(st.u, id) }
	default:
		panic("unknown write " + which)
	}
	res := h.exec(k, which, q)
	if res.Panic != nil || res.TimedOut {
		return h.expectOK(k, which, q, res)
	}
	if expectDup {
		if !res.Failed() {
			h.r.Violation("duplicate-key-accepted:"+which, h.witness(map[string]any{"statement": q, "session": k}))
			h.stop = true
			return false
		}
		if res.ErrClass() != "1062" {
			h.r.Violation("unexpected-error:"+which+":"+res.ErrClass(), h.witness(map[string]any{"statement": q, "session": k, "error": fmt.Sprint(res.Err)}))
			h.stop = true
			return false
		}
		if inTxn {
			h.r.Count("failed-stmts-in-txn", 1)
		} else {
			h.r.Count("failed-stmts-autocommit", 1)
		}
		return true
	}
	if !h.expectOK(k, which, q, res) {
		return false
	}
	apply()
	return true
}

func (h *hist) someID(st *state) int {
	var ids []int
	for id := range st.t {
		ids = append(ids, id)
	}
	if len(ids) == 0 {
		return 1 + h.rnd.Intn(20)
	}
	sort.Ints(ids)
	return ids[h.rnd.Intn(len(ids))]
}

func (h *hist) someUID(st *state) int {
	var ids []int
	for id := range st.u {
		ids = append(ids, id)
	}
	if len(ids) == 0 {
		return 1 + h.rnd.Intn(8)
	}
	sort.Ints(ids)
	return ids[h.rnd.Intn(len(ids))]
}

// randomWrite picks a DML statement for session k.
func (h *hist) randomWrite(k int, inTxn bool) string {
	rnd := h.rnd
	st := h.view(k)
	kinds := []string{"insert", "insert", "insert-multi", "update-id", "update-id", "update-a", "delete-id", "delete-a", "u-insert", "u-update", "u-delete"}
	which := kinds[rnd.Intn(len(kinds))]
	id := 0
	switch which {
	case "insert", "insert-multi":
		id = 1 + rnd.Intn(40)
		if rnd.Intn(4) == 0 {
			id = h.someID(st) // duplicate
		}
	case "u-insert":
		id = 1 + rnd.Intn(10)
	case "u-update", "u-delete":
		id = h.someUID(st)
	default:
		id = h.someID(st)
	}
	h.write(k, which, id, inTxn)
	return which
}

func (h *hist) hasUncommitted(k int) bool {
	m := h.ss[k]
	if m.work == nil {
		return false
	}
	return !core.SameStrings(m.work.rowsT(nil), h.comm.rowsT(nil)) || !core.SameStrings(m.work.rowsU(nil), h.comm.rowsU(nil))
}

func (h *hist) doCommit(k int, kind string) {
	m := h.ss[k]
	nonEmpty := h.hasUncommitted(k)
	if !h.must(k, kind, "COMMIT") {
		return
	}
	if m.work != nil {
		h.comm = m.work
		m.work = nil
		if nonEmpty {
			h.r.Count("commits", 1)
		}
	}
	m.explicit, m.readOnly = false, false
	if m.autocommit {
		h.token = -1
	}
}

func (h *hist) doRollback(k int, kind string) {
	m := h.ss[k]
	nonEmpty := h.hasUncommitted(k)
	if !h.must(k, kind, "ROLLBACK") {
		return
	}
	if m.work != nil && nonEmpty {
		h.r.Count("rollbacks", 1)
	}
	m.work = nil
	m.explicit, m.readOnly = false, false
	if m.autocommit {
		h.token = -1
	}
}

// implicitCommit applies the model effect of a statement that commits the open transaction first.
func (h *hist) implicitCommit(k int) {
	m := h.ss[k]
	if m.work != nil {
		if h.hasUncommitted(k) {
			h.r.Count("implicit-commits", 1)
		}
		h.comm = m.work
		m.work = nil
	}
}

func (h *hist) ddl(k int) bool {
	h.nextX++
	var q string
	switch h.rnd.Intn(3) {
	case 0:
		q = fmt.Sprintf("CREATE TABLE x%d (i INT)", h.nextX)
	case 1:
		if h.uIdx {
			q = "DROP INDEX iv ON u"
		} else {
			q = "CREATE INDEX iv ON u (v)"
		}
		h.uIdx = !h.uIdx
	default:
		q = fmt.Sprintf("CREATE TABLE y%d (i INT PRIMARY KEY, j INT)", h.nextX)
	}
	h.implicitCommit(k)
	return h.must(k, "ddl", q)
}

// step lets session k do one thing that the guards allow in the current situation; it returns the
// kind of step for evidence keys.
func (h *hist) step(k int) string {
	rnd := h.rnd
	m := h.ss[k]
	if h.token >= 0 && h.token != k {
		// another session holds a transaction: this one may only read in autocommit mode
		return "read-only-turn"
	}
	w := rnd.Intn(100)
	if h.token == k {
		if m.readOnly {
			switch {
			case w < 8:
				// write attempt inside START TRANSACTION READ ONLY: must be rejected without effect (F33: panics)
				q := fmt.Sprintf("INSERT INTO t VALUES (%d, 1, 1)", 90+rnd.Intn(9))
				res := h.exec(k, "write-in-read-only-txn", q)
				if res.Panic != nil {
					if res.Panic.Site == "sql/analyzer.validateReadOnlyTransaction.func1" && strings.Contains(res.Panic.Value, "nil pointer") {
						h.r.Violation(sigF33, h.witness(map[string]any{"statement": q, "session": k, "panic": res.Panic.Value}))
					} else {
						h.r.Violation(res.Panic.Sig(), h.witness(map[string]any{"statement": q, "session": k, "panic": res.Panic.Value, "stack": core.Clip(res.Panic.Stack, 3000)}))
						h.stop = true
					}
				} else if !res.Failed() {
					h.r.Violation("write-accepted-in-read-only-transaction", h.witness(map[string]any{"statement": q, "session": k}))
					h.stop = true
				}
				h.r.Eval(1)
				return "write-in-read-only-txn"
			case w < 45:
				h.doCommit(k, "commit")
				return "commit-read-only"
			case w < 60:
				h.doRollback(k, "rollback")
				return "rollback-read-only"
			}
			return "read-in-read-only-txn"
		}
		switch {
		case w < 6:
			// a statement the engine rejects before executing anything (syntax error, unknown table, unknown
			// column) inside the open transaction - explicit, or the implicit one of an autocommit=0 session:
			// it must fail and leave the transaction, with everything it has written so far, as it is
			q := []string{"SELECT nosuchcol FROM t", "INSERT INTO nosuchtable VALUES (1, 2, 3)", "SELEC 1 FROM t", "UPDATE t SET nosuchcol = 1", "DELETE FROM t WHERE nosuchcol = 1"}[rnd.Intn(5)]
			res := h.exec(k, "rejected-before-execution", q)
			h.r.Eval(1)
			if res.Panic != nil || res.TimedOut {
				h.expectOK(k, "rejected-before-execution", q, res)
				return "txn-rejected-before-execution"
			}
			if !res.Failed() {
				h.r.Violation("invalid-statement-accepted", h.witness(map[string]any{"statement": q, "session": k}))
				h.stop = true
			}
			h.r.Count("rejected-before-execution-in-txn", 1)
			return "txn-rejected-before-execution"
		case w < 55:
			return "txn-" + h.randomWrite(k, true)
		case w < 68:
			h.doCommit(k, "commit")
			return "commit"
		case w < 81:
			h.doRollback(k, "rollback")
			return "rollback"
		case w < 86:
			if !h.ddl(k) {
				return "ddl"
			}
			if m.explicit {
				// see Assume: leave transaction mode at once
				if h.must(k, "commit-after-ddl", "COMMIT") {
					m.explicit = false
					if m.autocommit {
						h.token = -1
					}
				}
			}
			return "ddl-in-txn"
		case w < 90:
			// BEGIN inside a transaction commits it and opens a new one
			h.implicitCommit(k)
			if h.must(k, "begin-in-txn", "BEGIN") {
				m.work = h.comm.clone()
				m.explicit = true
			}
			return "begin-in-txn"
		default:
			if !m.autocommit {
				if m.explicit {
					// see Assume: an explicit transaction is ended by COMMIT before autocommit is switched on
					h.doCommit(k, "commit")
					if h.stop {
						return "commit"
					}
				}
				h.implicitCommit(k)
				if h.must(k, "set-autocommit-1", "SET autocommit = 1") {
					m.autocommit = true
					m.explicit = false
					h.token = -1
				}
				return "set-autocommit-1"
			}
			return "txn-" + h.randomWrite(k, true)
		}
	}
	// token free
	switch {
	case w < 40:
		h.r.Count("autocommit-writes", 1)
		return "auto-" + h.randomWrite(k, false)
	case w < 62:
		q := []string{"BEGIN", "START TRANSACTION", "START TRANSACTION READ WRITE"}[rnd.Intn(3)]
		if h.must(k, "begin", q) {
			m.work = h.comm.clone()
			m.explicit = true
			h.token = k
		}
		return "begin"
	case w < 68:
		if h.must(k, "begin-read-only", "START TRANSACTION READ ONLY") {
			m.work = h.comm.clone()
			m.explicit, m.readOnly = true, true
			h.token = k
		}
		return "begin-read-only"
	case w < 78:
		if h.must(k, "set-autocommit-0", "SET autocommit = 0") {
			m.autocommit = false
			h.token = k
		}
		return "set-autocommit-0"
	case w < 84:
		h.ddl(k)
		return "ddl-autocommit"
	case w < 90:
		// COMMIT / ROLLBACK without a transaction are no-ops
		if rnd.Intn(2) == 0 {
			h.must(k, "commit-noop", "COMMIT")
		} else {
			h.must(k, "rollback-noop", "ROLLBACK")
		}
		return "noop-commit-rollback"
	}
	return "read-turn"
}
