package main

import (
	"fmt"
	"sort"
	"strings"

	"verif/harness/core"
)

type readSpec struct {
	q      string
	path   string
	expect func(st *state) []string
	keys   func(st *state) []string // non-nil: expected key sequence (ordered index scan)
}

func (h *hist) readSpecs() []readSpec {
	rnd := h.rnd
	specs := []readSpec{
		{q: "SELECT id, a, b FROM t", path: "scan", expect: func(st *state) []string { return st.rowsT(nil) }},
		{q: "SELECT id, v FROM u", path: "scan", expect: func(st *state) []string { return st.rowsU(nil) }},
	}
	for n := 0; n < 2; n++ {
		v := rnd.Intn(4)
		switch rnd.Intn(6) {
		case 0:
			specs = append(specs, readSpec{q: fmt.Sprintf("SELECT id, a, b FROM t WHERE a = %d", v), path: "index",
				expect: func(st *state) []string { return st.rowsT(func(_ int, r trow) bool { return r.a != nil && *r.a == v }) }})
		case 1:
			specs = append(specs, readSpec{q: "SELECT id, a, b FROM t WHERE a IS NULL", path: "index",
				expect: func(st *state) []string { return st.rowsT(func(_ int, r trow) bool { return r.a == nil }) }})
		case 2:
			specs = append(specs, readSpec{q: fmt.Sprintf("SELECT id, a, b FROM t WHERE b >= %d", v), path: "index",
				expect: func(st *state) []string { return st.rowsT(func(_ int, r trow) bool { return r.b >= v }) }})
		case 3:
			specs = append(specs, readSpec{q: fmt.Sprintf("SELECT COUNT(*) FROM t WHERE a = %d", v), path: "index",
				expect: func(st *state) []string {
					return []string{fmt.Sprint(len(st.rowsT(func(_ int, r trow) bool { return r.a != nil && *r.a == v })))}
				}})
		case 4:
			specs = append(specs, readSpec{q: fmt.Sprintf("SELECT id, v FROM u WHERE v = %d", v), path: "index-u",
				expect: func(st *state) []string { return st.rowsU(func(_, x int) bool { return x == v }) }})
		case 5:
			specs = append(specs, readSpec{q: "SELECT id, a, b FROM t WHERE b >= 0 ORDER BY b", path: "index-ordered",
				expect: func(st *state) []string { return st.rowsT(nil) },
				keys: func(st *state) []string {
					var bs []int
					for _, r := range st.t {
						bs = append(bs, r.b)
					}
					sort.Ints(bs)
					out := make([]string, len(bs))
					for i, b := range bs {
						out[i] = fmt.Sprint(b)
					}
					return out
				}})
		}
	}
	return specs
}

func kindClass(kind string) string {
	switch {
	case strings.HasPrefix(kind, "txn-"):
		return "write-in-txn"
	case strings.HasPrefix(kind, "auto-"):
		return "autocommit-write"
	}
	return kind
}

// read lets session k read both tables and compares with the model. It returns false when the history
// must stop.
func (h *hist) read(k int, after string) bool {
	r := h.r
	m := h.ss[k]
	exp := h.view(k)
	role := "session-without-open-txn"
	uncommitted := false
	if h.token == k {
		role = "txn-holder"
		uncommitted = h.hasUncommitted(k)
	} else if h.token >= 0 {
		role = "other-session-during-open-txn"
		uncommitted = h.hasUncommitted(h.token)
		if uncommitted {
			r.Count("reads-by-other-session-while-uncommitted-changes", 1)
		}
	}
	if !m.autocommit && m.work == nil {
		// the read itself opens the implicit transaction of an autocommit=0 session
		m.work = h.comm.clone()
		exp = m.work
	}
	for _, sp := range h.readSpecs() {
		res := h.exec(k, "read", sp.q)
		h.log = h.log[:len(h.log)-1] // reads are not part of the recorded history (they are listed in the witness when they differ)
		if res.Panic != nil || res.TimedOut || res.Failed() {
			return h.expectOK(k, "read", sp.q, res)
		}
		got := core.SortedRows(res.Rows)
		want := sp.expect(exp)
		r.Eval(1)
		ok := core.SameStrings(got, want)
		if ok && sp.keys != nil {
			var gk []string
			for _, row := range res.Rows {
				gk = append(gk, core.Canon(row[2]))
			}
			ok = core.SameStrings(gk, sp.keys(exp))
		}
		if ok {
			if len(want) > 0 {
				r.Distinct(fmt.Sprintf("%s|%s|uncommitted=%v|%s", kindClass(after), role, uncommitted, sp.path))
			}
			continue
		}
		diag := "mismatch"
		if role == "other-session-during-open-txn" && h.ss[h.token].work != nil && core.SameStrings(got, sp.expect(h.ss[h.token].work)) {
			diag = "sees-uncommitted-changes-of-open-txn"
		} else if role != "other-session-during-open-txn" && after == "rollback" {
			diag = "after-rollback"
		}
		r.Violation(fmt.Sprintf("read-differs:%s:%s:%s:after-%s", role, sp.path, diag, kindClass(after)), h.witness(map[string]any{
			"reader_session": k, "query": sp.q, "expected": core.ClipStrings(want, 40), "actual": core.ClipStrings(got, 40), "after": after, "role": role}))
		h.stop = true
		return false
	}
	if h.i < 2 && uncommitted && h.rnd.Intn(6) == 0 {
		r.Sample(map[string]any{"case": h.i, "after_step": after, "reader_session": k, "role": role, "uncommitted_changes_exist": uncommitted,
			"compared": "SELECT * FROM t / u and two index-driven reads vs model view", "agree": true})
	}
	return true
}

func (h *hist) readAll(after string) bool {
	for k := range h.ss {
		if !h.read(k, after) {
			return false
		}
	}
	return true
}

// pinned witnesses.
func pinned(r *core.Run) {
	// F33: write inside START TRANSACTION READ ONLY dereferences nil instead of returning the read-only error
	{
		e := core.NewEng("d")
		s := e.NewSess()
		s.MustExec("CREATE TABLE t (id INT PRIMARY KEY, a INT)")
		s.MustExec("INSERT INTO t VALUES (1,1)")
		s.MustExec("START TRANSACTION READ ONLY")
		res := s.Exec("INSERT INTO t VALUES (3,3)")
		still := res.Panic != nil && res.Panic.Site == "sql/analyzer.validateReadOnlyTransaction.func1"
		what := "START TRANSACTION READ ONLY; INSERT INTO t VALUES (3,3) -> "
		if res.Panic != nil {
			what += "panic " + res.Panic.Value + " at " + res.Panic.Site
		} else {
			what += fmt.Sprintf("err=%v", res.Err)
		}
		s.Exec("COMMIT")
		rows := core.SortedRows(s.Exec("SELECT id FROM t").Rows)
		what += fmt.Sprintf(" (table afterwards: %v)", rows)
		r.Pinned(sigF33, what, still, map[string]any{"script": []string{"CREATE TABLE t (id INT PRIMARY KEY, a INT)", "INSERT INTO t VALUES (1,1)", "START TRANSACTION READ ONLY", "INSERT INTO t VALUES (3,3)"}})
		r.Eval(1)
		if len(rows) != 1 {
			r.Violation("write-in-read-only-transaction-has-effect", map[string]any{"rows": rows})
		}
		e.Close()
	}
	// F24 (fixed in /repo): regression witness in its two-session form — not listed as known
	{
		e := core.NewEng("d")
		s1, s2 := e.NewSess(), e.NewSess()
		s1.MustExec("CREATE TABLE t (id INT PRIMARY KEY, a INT, b INT, KEY ib(b))")
		s1.MustExec("INSERT INTO t VALUES (21,1,0),(22,1,5),(23,1,1),(24,1,1),(25,2,7)")
		s1.MustExec("BEGIN")
		s1.MustExec("DELETE FROM t WHERE id = 22")
		during := core.SortedRows(s2.Exec("SELECT id FROM t WHERE b <= 1").Rows)
		s1.MustExec("ROLLBACK")
		after := core.SortedRows(s1.Exec("SELECT id FROM t WHERE b <= 1").Rows)
		want := []string{"21", "23", "24"}
		still := !core.SameStrings(during, want) || !core.SameStrings(after, want)
		r.Pinned("index-read-stale-during-or-after-rolled-back-delete", fmt.Sprintf("[1] BEGIN; DELETE FROM t WHERE id=22; [2] SELECT id FROM t WHERE b<=1 -> %v; [1] ROLLBACK; SELECT … -> %v (expected %v both times)", during, after, want), still,
			map[string]any{"during": during, "after": after, "expected": want})
		r.Eval(1)
		e.Close()
	}
}
