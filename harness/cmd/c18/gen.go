package main

import (
	"fmt"
	"math/rand"
	"strings"

	g "verif/harness/g9alib"
)

// genSchema builds a foreign-key graph: chain, diamond or random DAG over 2..5 tables, optional self
// references, single-column and composite keys, keys that are themselves referenced (multi-level
// ON UPDATE propagation). Guards (DESIGN C18): all keys referencing one table share the
// restrictive / non-restrictive class per event, self references carry ON DELETE actions only, the
// graph without self references is acyclic (no ON UPDATE CASCADE cycles).
func genSchema(rnd *rand.Rand) (*schema, string) {
	sc := &schema{}
	shape := []string{"chain", "diamond", "dag", "dag"}[rnd.Intn(4)]
	nT := 2 + rnd.Intn(4)
	if shape == "diamond" {
		nT = 4 + rnd.Intn(2)
	}
	for i := 0; i < nT; i++ {
		t := &tdef{name: fmt.Sprintf("t%d", i)}
		t.cols = append(t.cols, column{"id", false}, column{"v", true})
		if rnd.Intn(100) < 60 {
			t.cols = append(t.cols, column{"u", rnd.Intn(100) < 75})
			t.uniques = append(t.uniques, []int{len(t.cols) - 1})
		}
		if rnd.Intn(100) < 30 {
			nl := rnd.Intn(100) < 60
			t.cols = append(t.cols, column{"k1", nl}, column{"k2", nl})
			t.uniques = append(t.uniques, []int{len(t.cols) - 2, len(t.cols) - 1})
		}
		sc.tabs = append(sc.tabs, t)
	}
	nfk := 0
	usedAsFK := map[string]bool{} // table.col already a child column of some key
	addFK := func(child, parent int) {
		ct, pt := sc.tabs[child], sc.tabs[parent]
		// parent key
		type pk struct{ cols []int }
		keys := []pk{{[]int{0}}}
		for _, u := range pt.uniques {
			keys = append(keys, pk{u})
		}
		key := keys[rnd.Intn(len(keys))]
		if child == parent {
			key = keys[0] // self references point at the primary key
		}
		nfk++
		f := &fkey{name: fmt.Sprintf("fk%d", nfk), child: child, parent: parent, pcols: key.cols}
		// child columns: reuse the child's own unique key of the same width (so the key is itself
		// referenced further down), else fresh columns
		reused := false
		if child != parent && rnd.Intn(100) < 30 {
			for _, u := range ct.uniques {
				if len(u) != len(key.cols) {
					continue
				}
				free := true
				for _, ci := range u {
					if usedAsFK[fmt.Sprintf("%d.%d", child, ci)] {
						free = false
					}
				}
				if free {
					f.ccols = append([]int{}, u...)
					reused = true
					break
				}
			}
		}
		if !reused {
			nl := rnd.Intn(100) < 70
			for j := range key.cols {
				name := fmt.Sprintf("f%d", nfk)
				if len(key.cols) > 1 {
					name = fmt.Sprintf("f%d%c", nfk, 'a'+j)
				}
				ct.cols = append(ct.cols, column{name, nl})
				f.ccols = append(f.ccols, len(ct.cols)-1)
			}
		}
		for _, ci := range f.ccols {
			usedAsFK[fmt.Sprintf("%d.%d", child, ci)] = true
		}
		sc.fks = append(sc.fks, f)
	}
	switch shape {
	case "chain":
		for i := 1; i < nT; i++ {
			addFK(i, i-1)
		}
	case "diamond":
		addFK(1, 0)
		addFK(2, 0)
		addFK(3, 1)
		addFK(3, 2)
		if nT > 4 {
			addFK(4, 3)
		}
	default:
		for i := 1; i < nT; i++ {
			n := 1
			if rnd.Intn(100) < 40 {
				n = 2
			}
			for k := 0; k < n; k++ {
				addFK(i, rnd.Intn(i))
			}
		}
	}
	for i := 0; i < nT; i++ {
		if rnd.Intn(100) < 25 {
			addFK(i, i)
			shape += "+self"
		}
	}
	// actions, per referencing table: one class per event
	pickR := func() action { return []action{aOmitted, aRestrict, aNoAction}[rnd.Intn(3)] }
	for ci := range sc.tabs {
		var in []*fkey
		for _, f := range sc.fks {
			if f.child == ci {
				in = append(in, f)
			}
		}
		delRestrict := rnd.Intn(100) < 35
		updRestrict := rnd.Intn(100) < 35
		for _, f := range in {
			nullable := true
			for _, c := range f.ccols {
				if !sc.tabs[ci].cols[c].nullable {
					nullable = false
				}
			}
			pickN := func() action {
				if nullable && rnd.Intn(100) < 45 {
					return aSetNull
				}
				return aCascade
			}
			if delRestrict {
				f.onDel = pickR()
			} else {
				f.onDel = pickN()
			}
			if f.self() || updRestrict {
				f.onUpd = pickR()
			} else {
				f.onUpd = pickN()
			}
		}
	}
	return sc, shape
}

func fkClause(sc *schema, f *fkey) string {
	ct, pt := sc.tabs[f.child], sc.tabs[f.parent]
	cn := make([]string, len(f.ccols))
	pn := make([]string, len(f.pcols))
	for i := range f.ccols {
		cn[i] = ct.cols[f.ccols[i]].name
		pn[i] = pt.cols[f.pcols[i]].name
	}
	s := fmt.Sprintf("CONSTRAINT %s FOREIGN KEY (%s) REFERENCES %s (%s)", g.Q(f.name), g.QuoteList(cn), g.Q(pt.name), g.QuoteList(pn))
	if f.onDel != aOmitted {
		s += " ON DELETE " + f.onDel.String()
	}
	if f.onUpd != aOmitted {
		s += " ON UPDATE " + f.onUpd.String()
	}
	return s
}

// ddl renders the schema; keys are declared inline or added by ALTER TABLE (seeded choice).
func ddl(sc *schema, rnd *rand.Rand) []string {
	var out, later []string
	for ti, t := range sc.tabs {
		var parts []string
		for i, c := range t.cols {
			d := g.Q(c.name) + " INT"
			if i == 0 {
				d += " PRIMARY KEY"
			} else if !c.nullable {
				d += " NOT NULL"
			}
			parts = append(parts, d)
		}
		for k, u := range t.uniques {
			names := make([]string, len(u))
			for i, ci := range u {
				names[i] = t.cols[ci].name
			}
			parts = append(parts, fmt.Sprintf("UNIQUE KEY %s (%s)", g.Q(fmt.Sprintf("uq%d", k)), g.QuoteList(names)))
		}
		for _, f := range sc.fks {
			if f.child != ti {
				continue
			}
			if rnd.Intn(100) < 70 {
				parts = append(parts, fkClause(sc, f))
			} else {
				later = append(later, "ALTER TABLE "+g.Q(t.name)+" ADD "+fkClause(sc, f))
			}
		}
		out = append(out, "CREATE TABLE "+g.Q(t.name)+" ("+strings.Join(parts, ", ")+")")
	}
	return append(out, later...)
}

// ---- statement generation (uses the model state so that references mostly hit) ----

type hist struct {
	sc     *schema
	st     *mstate
	checks bool
	rnd    *rand.Rand
}

func (h *hist) poolVal(t, col int) g.V {
	name := h.sc.tabs[t].cols[col].name
	if name == "k1" || name == "k2" {
		return g.Int(int64(1 + h.rnd.Intn(3)))
	}
	return g.Int(int64(1 + h.rnd.Intn(8)))
}

// existingKey picks the key values of a random existing parent row for f (nil when none).
func (h *hist) existingKey(f *fkey) []g.V {
	var cands [][]g.V
	for _, p := range h.st.rows[f.parent] {
		k := make([]g.V, len(f.pcols))
		ok := true
		for i, ci := range f.pcols {
			k[i] = p.vals[ci]
			if k[i].IsNull() {
				ok = false
			}
		}
		if ok {
			cands = append(cands, k)
		}
	}
	if len(cands) == 0 {
		return nil
	}
	return cands[h.rnd.Intn(len(cands))]
}

func (h *hist) fkOfCol(t, col int) (*fkey, int) {
	for _, f := range h.sc.fks {
		if f.child != t {
			continue
		}
		for i, ci := range f.ccols {
			if ci == col {
				return f, i
			}
		}
	}
	return nil, 0
}

func (h *hist) freshID(t int) g.V {
	used := map[int64]bool{}
	for _, r := range h.st.rows[t] {
		used[r.vals[0].Int64()] = true
	}
	var free []int64
	for i := int64(1); i <= 8; i++ {
		if !used[i] {
			free = append(free, i)
		}
	}
	if len(free) == 0 || h.rnd.Intn(100) < 8 {
		return g.Int(int64(1 + h.rnd.Intn(8)))
	}
	return g.Int(free[h.rnd.Intn(len(free))])
}

func (h *hist) genRow(t int) []g.V {
	td := h.sc.tabs[t]
	row := make([]g.V, len(td.cols))
	row[0] = h.freshID(t)
	for ci := 1; ci < len(td.cols); ci++ {
		row[ci] = g.Null // placeholder
	}
	done := map[int]bool{0: true}
	for _, f := range h.sc.fks {
		if f.child != t {
			continue
		}
		p := h.rnd.Intn(100)
		nullable := true
		for _, ci := range f.ccols {
			if !td.cols[ci].nullable {
				nullable = false
			}
		}
		var key []g.V
		switch {
		case p < 80:
			key = h.existingKey(f)
			if key == nil && f.self() && h.rnd.Intn(100) < 15 {
				key = []g.V{row[0]} // a row that is its own parent
			}
		case p < 90 && nullable:
			key = nil
		}
		for i, ci := range f.ccols {
			done[ci] = true
			switch {
			case key != nil:
				row[ci] = key[i]
			case p >= 80 && p < 90 && nullable:
				// all NULL, or a partially NULL composite key (MATCH SIMPLE: exempt)
				if len(f.ccols) > 1 && i == 1 && h.rnd.Intn(2) == 0 {
					row[ci] = h.poolVal(t, ci)
				} else {
					row[ci] = g.Null
				}
			default:
				row[ci] = h.poolVal(t, ci)
			}
		}
	}
	for ci := 1; ci < len(td.cols); ci++ {
		if done[ci] {
			continue
		}
		if td.cols[ci].nullable && h.rnd.Intn(100) < 12 {
			row[ci] = g.Null
		} else {
			row[ci] = h.poolVal(t, ci)
		}
	}
	return row
}

func (h *hist) genPred(t int) pred {
	td := h.sc.tabs[t]
	p := h.rnd.Intn(100)
	rows := h.st.rows[t]
	pickID := func() int64 {
		if len(rows) > 0 && h.rnd.Intn(100) < 85 {
			return rows[h.rnd.Intn(len(rows))].vals[0].Int64()
		}
		return int64(1 + h.rnd.Intn(8))
	}
	switch {
	case p < 45:
		return pred{kind: "eq", col: 0, vals: []int64{pickID()}}
	case p < 60:
		n := 2 + h.rnd.Intn(2)
		var vs []int64
		for i := 0; i < n; i++ {
			vs = append(vs, pickID())
		}
		return pred{kind: "in", col: 0, vals: vs}
	case p < 72:
		c := 1 + h.rnd.Intn(len(td.cols)-1)
		return pred{kind: "eq", col: c, vals: []int64{h.poolVal(t, c).Int64()}}
	case p < 80:
		c := 1 + h.rnd.Intn(len(td.cols)-1)
		return pred{kind: "isnull", col: c}
	case p < 88:
		return pred{kind: []string{"lt", "gt"}[h.rnd.Intn(2)], col: h.rnd.Intn(len(td.cols)), vals: []int64{int64(2 + h.rnd.Intn(6))}}
	}
	return pred{kind: "all"}
}

func (h *hist) isKeyCol(t, col int) bool {
	if col == 0 {
		return true
	}
	for _, u := range h.sc.tabs[t].uniques {
		for _, ci := range u {
			if ci == col {
				return true
			}
		}
	}
	return false
}

func (h *hist) genStmt() *stmt {
	nT := len(h.sc.tabs)
	t := h.rnd.Intn(nT)
	td := h.sc.tabs[t]
	total := 0
	for _, rs := range h.st.rows {
		total += len(rs)
	}
	p := h.rnd.Intn(100)
	if total < 2*nT {
		p = h.rnd.Intn(40)
	}
	switch {
	case p < 3:
		return &stmt{kind: "fkc", on: !h.checks}
	case !h.checks && p < 12:
		return &stmt{kind: "fkc", on: true}
	case p < 40:
		// inserts go to tables in dependency order more often while the database is empty
		if total < 2*nT {
			for k := 0; k < nT; k++ {
				if len(h.st.rows[k]) < 2 {
					t = k
					break
				}
			}
		}
		n := 1
		if h.rnd.Intn(100) < 45 {
			n = 2 + h.rnd.Intn(3)
		}
		s := &stmt{kind: "insert", t: t}
		// later rows of one statement may reference earlier ones: generate against a scratch state
		save := h.st
		h.st = h.st.clone()
		for i := 0; i < n; i++ {
			row := h.genRow(t)
			s.rows = append(s.rows, row)
			h.st.rows[t] = append(h.st.rows[t], &mrow{vals: row})
		}
		h.st = save
		return s
	case p < 47:
		return &stmt{kind: "replace", t: t, rows: [][]g.V{h.genRow2(t)}}
	case p < 70:
		return &stmt{kind: "delete", t: t, where: h.genPred(t)}
	}
	// update
	col := 1 + h.rnd.Intn(len(td.cols)-1)
	if h.rnd.Intn(100) < 25 {
		col = 0
	} else if us := td.uniques; len(us) > 0 && h.rnd.Intn(100) < 30 {
		u := us[h.rnd.Intn(len(us))]
		col = u[h.rnd.Intn(len(u))]
	}
	s := &stmt{kind: "update", t: t}
	if h.isKeyCol(t, col) {
		// key columns: one row, addressed by id
		s.where = pred{kind: "eq", col: 0, vals: []int64{h.rnd.Int63n(8) + 1}}
		if rows := h.st.rows[t]; len(rows) > 0 {
			s.where.vals[0] = rows[h.rnd.Intn(len(rows))].vals[0].Int64()
		}
	} else {
		s.where = h.genPred(t)
	}
	var val g.V
	f, pos := h.fkOfCol(t, col)
	q := h.rnd.Intn(100)
	switch {
	case td.cols[col].nullable && q < 15:
		val = g.Null
	case !td.cols[col].nullable && q < 4:
		val = g.Null // NOT NULL violation
	case f != nil && q < 75:
		if key := h.existingKey(f); key != nil {
			val = key[pos]
			// composite keys: set both columns consistently half of the time
			if len(f.ccols) > 1 && h.rnd.Intn(2) == 0 {
				for i, ci := range f.ccols {
					if ci != col {
						s.sets = append(s.sets, assign{ci, key[i]})
					}
				}
			}
		} else {
			val = h.poolVal(t, col)
		}
	default:
		val = h.poolVal(t, col)
	}
	s.sets = append(s.sets, assign{col, val})
	return s
}

// genRow2 is a row for REPLACE: more often than not it collides with an existing row.
func (h *hist) genRow2(t int) []g.V {
	row := h.genRow(t)
	if rows := h.st.rows[t]; len(rows) > 0 && h.rnd.Intn(100) < 70 {
		row[0] = rows[h.rnd.Intn(len(rows))].vals[0]
	}
	return row
}
