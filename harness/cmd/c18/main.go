// C18 — foreign keys keep referential integrity.
//
// Two oracles over generated DML histories on generated foreign-key graphs:
//  1. invariant (harness side, full scans after every statement): every child row whose key columns
//     are all non-NULL has a parent row with equal key — suspended inside SET foreign_key_checks=0
//     windows; orphans written inside a window are grandfathered, new ones are not;
//  2. reference model of MATCH SIMPLE keys with immediate row-by-row checks and recursive
//     RESTRICT / NO ACTION / CASCADE / SET NULL actions: the statement must fail exactly when the
//     model says so, a failed statement leaves every table unchanged, a successful one leaves
//     exactly the model's contents. The model is evaluated under 16 processing orders (statement row
//     order, key order, child row order, check-before/after-change); a statement whose outcome
//     depends on the order is judged only against the set of outcomes (MySQL leaves it open).
//
// After every statement each secondary index that backs a key is read through a range predicate
// and compared with the scan (the keys are enforced through those indexes).
package main

import (
	"fmt"
	"math/rand"
	"os"
	"sort"
	"strings"

	"verif/harness/core"
	g "verif/harness/g9alib"
)

func main() {
	r := core.NewRun("C18", "exploration",
		"one evaluation = one statement of a generated DML history on a generated FK graph (chain / diamond / DAG / self reference; single and composite keys; RESTRICT, NO ACTION, CASCADE, SET NULL) judged by the orphan invariant on full scans and by the recursive reference model; distinct = (statement kind, outcome class, actions fired, cascade depth)")
	r.Assume("all key columns are INT; MATCH SIMPLE; keys reference the primary key or a UNIQUE key of the parent")
	r.Assume("guards: keys referencing one table share the restrictive/non-restrictive class per event; self references carry ON DELETE actions only; statements whose outcome depends on MySQL's unspecified processing order (16 orders evaluated) are judged against the set of outcomes only")
	r.Assume("key-changing UPDATEs address one row by id; multi-row UPDATEs assign constants to non-key columns")
	n := r.N(250, 6000)
	if c := os.Getenv("VERIF_CASE"); c != "" { // debugging aid: run one case of the list
		var k int
		fmt.Sscan(c, &k)
		runCase(r, k)
		r.Finish()
	}
	r.Parallel("hist", n, func(i int) { runCase(r, i) })
	ddlReject(r)
	pinned(r)
	r.Floor(r.Counter("fired.cascade-delete") > 0, "no ON DELETE CASCADE executed")
	r.Floor(r.Counter("fired.cascade-update") > 0, "no ON UPDATE CASCADE executed")
	r.Floor(r.Counter("fired.set-null") > 0, "no SET NULL executed")
	r.Floor(r.Counter("fired.restrict-block") > 0, "no RESTRICT/NO ACTION rejection")
	r.Floor(r.Counter("fired.child-reject") > 0, "no child-row rejection")
	r.Floor(r.Counter("fired.depth>=2") > 0, "no multi-level propagation")
	r.Floor(r.Counter("fired.self-reference") > 0, "no self-referencing action")
	r.Floor(r.Counter("fired.composite") > 0, "no composite-key action")
	r.Finish()
}

type step struct {
	SQL      string `json:"sql"`
	Outcome  string `json:"engine"`
	Expected string `json:"model"`
}

type witness struct {
	Case     int                 `json:"case"`
	Seed     int64               `json:"seed"`
	Shape    string              `json:"shape"`
	Setup    []string            `json:"setup"`
	Steps    []step              `json:"steps"`
	What     string              `json:"what"`
	Expected map[string][]string `json:"expected_tables,omitempty"`
	Actual   map[string][]string `json:"actual_tables,omitempty"`
	Detail   any                 `json:"detail,omitempty"`
}

func firedKey(f fired) string {
	var parts []string
	if f.cascDel > 0 {
		parts = append(parts, "cd")
	}
	if f.cascUpd > 0 {
		parts = append(parts, "cu")
	}
	if f.setNullDel > 0 {
		parts = append(parts, "nd")
	}
	if f.setNullUpd > 0 {
		parts = append(parts, "nu")
	}
	if f.restrictBlock > 0 {
		parts = append(parts, "rb")
	}
	if f.childReject > 0 {
		parts = append(parts, "cr")
	}
	if f.selfCascade {
		parts = append(parts, "self")
	}
	if f.composite {
		parts = append(parts, "comp")
	}
	return strings.Join(parts, "+") + fmt.Sprintf("@%d", f.maxDepth)
}

func countFired(r *core.Run, f fired) {
	r.Count("fired.cascade-delete", int64(f.cascDel))
	r.Count("fired.cascade-update", int64(f.cascUpd))
	r.Count("fired.set-null", int64(f.setNullDel+f.setNullUpd))
	r.Count("fired.restrict-block", int64(f.restrictBlock))
	r.Count("fired.child-reject", int64(f.childReject))
	if f.maxDepth >= 2 {
		r.Count("fired.depth>=2", 1)
	}
	if f.selfCascade {
		r.Count("fired.self-reference", 1)
	}
	if f.composite {
		r.Count("fired.composite", 1)
	}
}

// observe scans every table; nil when a scan failed.
func observe(s *core.Sess, sc *schema) ([][][]string, *core.Result) {
	obs := make([][][]string, len(sc.tabs))
	for i, t := range sc.tabs {
		rows, res := g.Scan(s, t.name, t.colNames())
		if rows == nil && res.Failed() {
			return nil, res
		}
		obs[i] = rows
	}
	return obs, nil
}

func tablesOf(sc *schema, obs [][][]string) map[string][]string {
	out := map[string][]string{}
	for i, t := range sc.tabs {
		out[t.name] = g.Lines(obs[i])
	}
	return out
}

func modelTables(sc *schema, st *mstate) map[string][]string {
	out := map[string][]string{}
	for i, t := range sc.tabs {
		out[t.name] = st.lines(i)
	}
	return out
}

func obsFingerprint(obs [][][]string) string {
	var b strings.Builder
	for _, rows := range obs {
		b.WriteString(strings.Join(g.Lines(rows), ";"))
		b.WriteString("#")
	}
	return b.String()
}

// stateFromObs rebuilds a model state from observed contents (all columns are integers).
func stateFromObs(obs [][][]string) *mstate {
	st := &mstate{rows: make([][]*mrow, len(obs))}
	for t, rows := range obs {
		for _, cells := range rows {
			vals := make([]g.V, len(cells))
			for i, c := range cells {
				if c == "NULL" {
					vals[i] = g.Null
				} else {
					var n int64
					fmt.Sscan(c, &n)
					vals[i] = g.Int(n)
				}
			}
			st.rows[t] = append(st.rows[t], &mrow{vals: vals})
		}
	}
	return st
}

// indexProbe reads every unique / key-backing index through a range predicate and compares the
// result with the scan. Returns a description of the first disagreement.
func indexProbe(s *core.Sess, sc *schema, obs [][][]string) (string, any) {
	for ti, t := range sc.tabs {
		cols := map[int]bool{}
		for _, u := range t.uniques {
			cols[u[0]] = true
		}
		for _, f := range sc.fks {
			if f.child == ti {
				cols[f.ccols[0]] = true
			}
		}
		var cl []int
		for c := range cols {
			cl = append(cl, c)
		}
		sort.Ints(cl)
		for _, c := range cl {
			q := fmt.Sprintf("SELECT %s FROM %s WHERE %s > -1", g.QuoteList(t.colNames()), g.Q(t.name), g.Q(t.cols[c].name))
			res := s.Exec(q)
			if res.Failed() {
				return "index-read-failed", map[string]any{"sql": q, "outcome": g.Outcome(res)}
			}
			got := core.SortedRows(res.Rows)
			var want []string
			for _, row := range obs[ti] {
				if row[c] != "NULL" {
					want = append(want, strings.Join(row, "|"))
				}
			}
			sort.Strings(want)
			if !core.SameStrings(got, want) {
				return "index-read-differs-from-scan", map[string]any{"sql": q, "via_index": got, "via_scan": want}
			}
		}
	}
	return "", nil
}

func runCase(r *core.Run, i int) {
	rnd := r.Rand("hist", i)
	sc, shape := genSchema(rnd)
	setup := ddl(sc, rnd)
	e := core.NewEng("d")
	defer e.Close()
	s := e.NewSess()
	w := &witness{Case: i, Seed: r.Seed, Shape: shape, Setup: setup}
	for _, q := range setup {
		res := s.Exec(q)
		if res.Failed() {
			if res.Panic != nil {
				r.Violation(res.Panic.Sig(), map[string]any{"setup": setup, "failed": q, "outcome": g.Outcome(res)})
			} else if g.Unsupported(res) {
				r.Inconclusive("ddl-unsupported")
			} else {
				// every generated graph is valid MySQL DDL
				r.Violation("valid-fk-ddl-rejected:"+res.ErrClass(), map[string]any{"setup": setup, "failed": q, "outcome": g.Outcome(res)})
			}
			return
		}
	}
	h := &hist{sc: sc, st: &mstate{rows: make([][]*mrow, len(sc.tabs))}, checks: true, rnd: rnd}
	allowedOrphans := map[string]int{}
	nSteps := 25 + rnd.Intn(20)
	for k := 0; k < nSteps; k++ {
		st := h.genStmt()
		q := st.sql(sc)
		res := s.Exec(q)
		stp := step{SQL: q, Outcome: g.Outcome(res)}
		w.Steps = append(w.Steps, stp)
		last := &w.Steps[len(w.Steps)-1]
		if res.Panic != nil {
			w.What = "panic"
			r.Violation(res.Panic.Sig(), w)
			return
		}
		if res.TimedOut {
			r.Inconclusive("timeout")
			return
		}
		if st.kind == "fkc" {
			if res.Failed() {
				r.Inconclusive("set-foreign_key_checks-failed")
				return
			}
			h.checks = st.on
			r.Distinct(fmt.Sprintf("fkc|%v", st.on))
			continue
		}
		if res.Failed() && g.Unsupported(res) {
			r.Inconclusive("stmt-unsupported")
			return
		}
		obs, bad := observe(s, sc)
		if obs == nil {
			w.What = "scan failed after statement: " + g.Outcome(bad)
			r.Violation("scan-failed-after-"+st.kind, w)
			return
		}
		ocs := outcomes(sc, h.st, h.checks, st)
		var exp []string
		for _, oc := range ocs {
			if oc.failed {
				exp = append(exp, "FAIL("+oc.class+")")
			} else {
				exp = append(exp, "OK")
			}
		}
		last.Expected = strings.Join(exp, " or ")
		r.Eval(1)
		actions := actionsOf(sc, st)

		// oracle 1: orphan invariant
		orph := orphans(sc, obs)
		if h.checks {
			for key, cnt := range orph {
				if cnt > allowedOrphans[key] {
					w.What = fmt.Sprintf("orphan child row after %s: key %s has %d parentless rows (allowed from foreign_key_checks=0 windows: %d)", st.kind, key, cnt, allowedOrphans[key])
					w.Actual = tablesOf(sc, obs)
					r.Violation("orphan-after-"+st.kind+":"+actions, w)
					return
				}
			}
		}
		allowedOrphans = orph

		// oracle 2: reference model
		fp := obsFingerprint(obs)
		pre := h.st.fingerprint()
		var hit *outcome
		for k := range ocs {
			oc := &ocs[k]
			if oc.failed == res.Failed() && (oc.failed && fp == pre || !oc.failed && "OK:"+fp == oc.fp) {
				hit = oc
				break
			}
		}
		ambiguous := len(ocs) > 1
		if hit == nil && (fp == pre) == res.Failed() {
			want := "OK:" + fp
			if res.Failed() {
				want = "FAIL"
			}
			if oc := exhaustive(sc, h.st, h.checks, st, want); oc != nil {
				hit = oc
				ambiguous = true
				r.Count("order-dependent-found-by-exhaustive-search", 1)
			}
		}
		if hit == nil {
			w.Actual = tablesOf(sc, obs)
			switch {
			case res.Failed() && fp != pre:
				w.What = "failed statement changed table contents"
				w.Expected = modelTables(sc, h.st)
				r.Violation("failed-"+st.kind+"-left-effect:"+actions, w)
				return
			case ambiguous:
				// order-dependent in MySQL and the engine took an order the model did not enumerate:
				// judged on the invariant and on atomicity only; follow the engine
				r.Count("order-dependent-unmatched", 1)
				h.st = stateFromObs(obs)
				continue
			case res.Failed() && !ocs[0].failed:
				w.What = "valid statement rejected"
				w.Expected = modelTables(sc, ocs[0].st)
				r.Violation("valid-"+st.kind+"-rejected:"+res.ErrClass()+":"+actions, w)
				return
			case !res.Failed() && ocs[0].failed:
				w.What = "violating statement accepted (model: " + ocs[0].class + ")"
				w.Expected = modelTables(sc, h.st)
				if mode := staleSelfRefScan(sc, h, st, fp); mode != "" {
					w.What += " (multi-row " + st.kind + " with a WHERE clause on a table with a self-referencing key: " + mode + ")"
					r.Violation("selfref-table-multirow-"+st.kind+"-where:"+mode, w)
					return
				}
				if deleteAllAsTruncate(sc, h, st, fp) {
					w.What += " (DELETE without WHERE on a table whose only referencing key is its own: executed as TRUNCATE, the row-by-row RESTRICT/NO ACTION checks are skipped; no order of the rows passes them)"
					r.Violation("selfref-delete-without-where-skips-restrict", w)
					return
				}
				r.Violation("violating-"+st.kind+"-accepted:"+ocs[0].class+":"+actions, w)
				return
			default:
				w.What = "statement succeeded with contents different from the model"
				w.Expected = modelTables(sc, ocs[0].st)
				if mode := staleSelfRefScan(sc, h, st, fp); mode != "" {
					w.What += " (multi-row " + st.kind + " with a WHERE clause on a table with a self-referencing key: " + mode + ")"
					r.Violation("selfref-table-multirow-"+st.kind+"-where:"+mode, w)
					return
				}
				if replaceVictimSurvives(sc, h, st, obs) {
					w.What += " (REPLACE whose new row conflicts with two rows of a table with a self-referencing key; the table is left with a duplicate unique key)"
					r.Violation("selfref-replace-two-victims-leaves-duplicate-key", w)
					return
				}
				r.Violation("wrong-effect-"+st.kind+":"+firedKey(ocs[0].f)+":"+actions, w)
				return
			}
		}
		if ambiguous {
			r.Count("order-dependent-matched", 1)
		}
		if !hit.failed {
			h.st = hit.st
		}
		countFired(r, hit.f)
		outc := "ok"
		if hit.failed {
			outc = "fail-" + hit.class
		}
		chk := "on"
		if !h.checks {
			chk = "off"
		}
		r.Distinct(fmt.Sprintf("%s|%s|%s|checks-%s", st.kind, outc, firedKey(hit.f), chk))
		if hit.f.cascDel+hit.f.cascUpd+hit.f.setNullDel+hit.f.setNullUpd > 0 && hit.f.maxDepth >= 2 {
			r.Sample(map[string]any{"shape": shape, "sql": q, "fired": firedKey(hit.f), "tables_after": tablesOf(sc, obs)})
		}

		// the indexes that back the keys must agree with the scans
		if what, detail := indexProbe(s, sc, obs); what != "" {
			w.What = what
			w.Detail = detail
			after := "ok"
			if res.Failed() {
				after = "failed"
			}
			r.Violation(fmt.Sprintf("%s-after-%s-%s", what, after, st.kind), w)
			return
		}
		r.Count("index-probes", 1)
	}
}

// actionsOf names the referential actions reachable from the statement's table (part of narrow signatures).
func actionsOf(sc *schema, st *stmt) string {
	set := map[string]bool{}
	seen := map[int]bool{}
	var walk func(t int)
	walk = func(t int) {
		if seen[t] {
			return
		}
		seen[t] = true
		for _, f := range sc.fks {
			if f.parent == t {
				if st.kind == "update" {
					set["upd-"+f.onUpd.String()] = true
				} else {
					set["del-"+f.onDel.String()] = true
				}
				if f.onDel == aSetNull && st.kind != "update" {
					set["upd-"+f.onUpd.String()] = true
				}
				walk(f.child)
			}
		}
	}
	if st.kind != "insert" {
		walk(st.t)
	}
	var out []string
	for k := range set {
		out = append(out, strings.ReplaceAll(k, " ", ""))
	}
	sort.Strings(out)
	return strings.Join(out, ",")
}

// ddlReject: SET NULL on a NOT NULL child column must be rejected when the key is declared, and the
// rejected statement must not leave a table or a key behind.
func ddlReject(r *core.Run) {
	e := core.NewEng("d")
	defer e.Close()
	s := e.NewSess()
	s.MustExec("CREATE TABLE p (id INT PRIMARY KEY, u INT UNIQUE)")
	s.MustExec("CREATE TABLE c0 (id INT PRIMARY KEY, f INT NOT NULL)")
	cases := []struct{ sql, table string }{
		{"CREATE TABLE c1 (id INT PRIMARY KEY, f INT NOT NULL, CONSTRAINT k1 FOREIGN KEY (f) REFERENCES p (id) ON DELETE SET NULL)", "c1"},
		{"CREATE TABLE c2 (id INT PRIMARY KEY, f INT NOT NULL, CONSTRAINT k2 FOREIGN KEY (f) REFERENCES p (u) ON UPDATE SET NULL)", "c2"},
		{"CREATE TABLE c3 (id INT PRIMARY KEY, f INT, g INT NOT NULL, CONSTRAINT k3 FOREIGN KEY (f, g) REFERENCES p (id, u) ON DELETE SET NULL)", "c3"},
		{"ALTER TABLE c0 ADD CONSTRAINT k4 FOREIGN KEY (f) REFERENCES p (id) ON DELETE SET NULL", ""},
	}
	for _, c := range cases {
		res := s.Exec(c.sql)
		r.Eval(1)
		if res.Panic != nil {
			r.Violation(res.Panic.Sig(), map[string]any{"sql": c.sql})
			continue
		}
		if !res.Failed() {
			r.Violation("set-null-on-not-null-column-accepted", map[string]any{"sql": c.sql, "outcome": g.Outcome(res)})
			continue
		}
		if c.table != "" {
			if chk := s.Exec("SELECT * FROM " + c.table); !chk.Failed() {
				r.Pinned("rejected-create-table-left-table",
					"CREATE TABLE whose FOREIGN KEY clause is rejected (SET NULL on a NOT NULL column) fails but leaves the table behind, without the key",
					true, map[string]any{"sql": c.sql, "then": "SELECT * FROM " + c.table + " succeeds"})
				continue
			}
		} else {
			// the rejected ALTER must not have installed the key
			s.MustExec("INSERT INTO c0 VALUES (1, 99)")
			s.MustExec("DELETE FROM c0")
		}
		r.Distinct("ddl-reject|" + c.table)
	}
}

// staleSelfRefScan is the matcher of known finding selfref-table-multirow-delete-where: a
// DELETE ... WHERE selecting >= 2 rows of a table that has a self-referencing key, with checks on,
// that succeeds, and whose observed effect on ALL tables is exactly the model's effect of deleting
// a different set D of rows of that table (with all referential actions). D a proper subset of the
// selected rows: "selected-rows-survive"; otherwise "unselected-rows-deleted".
func staleSelfRefScan(sc *schema, h *hist, st *stmt, fp string) string {
	if (st.kind != "delete" && st.kind != "update") || !h.checks || st.where.kind == "all" || targetCount(h.st, st) < 2 {
		return ""
	}
	self := false
	for _, f := range sc.fks {
		if f.self() && f.child == st.t {
			self = true
		}
	}
	rows := h.st.rows[st.t]
	if !self || len(rows) > 10 {
		return ""
	}
	for mask := 0; mask < 1<<len(rows); mask++ {
		var ids []int64
		subset, same := true, true
		for i, r := range rows {
			in := mask&(1<<i) != 0
			sel := st.where.eval(r.vals)
			if in {
				ids = append(ids, r.vals[0].Int64())
				if !sel {
					subset = false
				}
			}
			if in != sel {
				same = false
			}
		}
		if same {
			continue
		}
		alt := &stmt{kind: st.kind, t: st.t, sets: st.sets, where: pred{kind: "in", col: 0, vals: ids}}
		for _, oc := range outcomes(sc, h.st, true, alt) {
			if !oc.failed && oc.fp == "OK:"+fp {
				switch {
				case subset && st.kind == "delete":
					return "selected-rows-survive"
				case st.kind == "delete":
					return "unselected-rows-deleted"
				case subset:
					return "selected-rows-not-updated"
				}
				return "unselected-rows-updated"
			}
		}
	}
	return ""
}

// replaceVictimSurvives is the matcher of known finding selfref-replace-two-victims-leaves-duplicate-key:
// a REPLACE (checks on) into a table with a CASCADE / SET NULL self reference whose new row
// conflicts with >= 2 existing rows, after which the table holds two rows with the same primary or
// unique key.
func replaceVictimSurvives(sc *schema, h *hist, st *stmt, obs [][][]string) bool {
	if st.kind != "replace" || !h.checks {
		return false
	}
	self := false
	for _, f := range sc.fks {
		if f.self() && f.child == st.t && !f.onDel.restrictive() {
			self = true
		}
	}
	if !self {
		return false
	}
	m := &mexec{sc: sc, st: h.st, checks: true}
	victims := 0
	for _, x := range h.st.rows[st.t] {
		if m.conflicts(st.t, x.vals, st.rows[0]) {
			victims++
		}
	}
	if victims < 2 {
		return false
	}
	keys := append([][]int{{0}}, sc.tabs[st.t].uniques...)
	for _, k := range keys {
		seen := map[string]bool{}
		for _, row := range obs[st.t] {
			parts := make([]string, len(k))
			null := false
			for i, ci := range k {
				parts[i] = row[ci]
				if row[ci] == "NULL" {
					null = true
				}
			}
			if null {
				continue
			}
			key := strings.Join(parts, ",")
			if seen[key] {
				return true
			}
			seen[key] = true
		}
	}
	return false
}

// deleteAllAsTruncate is the matcher of known finding selfref-delete-without-where-skips-restrict:
// DELETE without WHERE, checks on, on a table with a restrictive self-referencing key, which the
// model rejects under every row order, and which the engine executes with exactly the effect of
// checking the self reference only at the end of the statement.
func deleteAllAsTruncate(sc *schema, h *hist, st *stmt, fp string) bool {
	if st.kind != "delete" || st.where.kind != "all" || !h.checks {
		return false
	}
	self := false
	for _, f := range sc.fks {
		if f.self() && f.child == st.t && f.onDel.restrictive() {
			self = true
		}
	}
	if !self {
		return false
	}
	m := &mexec{sc: sc, st: h.st.clone(), o: ord{deferSelf: true}, checks: true}
	if err := m.apply(st); err != nil {
		if os.Getenv("VERIF_DEBUG") != "" {
			fmt.Println("DEBUG deferSelf err", err)
		}
		return false
	}
	if os.Getenv("VERIF_DEBUG") != "" {
		fmt.Println("DEBUG deferSelf", m.st.fingerprint(), "engine", fp)
	}
	return "OK:"+m.st.fingerprint() == "OK:"+fp
}

// pinned replays the minimal witnesses of the known findings on every run. The engine's index scan
// order is not deterministic, so the witness is tried on several fresh engines.
func pinned(r *core.Run) {
	setup := []string{
		"CREATE TABLE t3 (id INT PRIMARY KEY, f1 INT, f5 INT, KEY (f1), CONSTRAINT fk6 FOREIGN KEY (f5) REFERENCES t3 (id) ON DELETE CASCADE)",
		"INSERT INTO t3 VALUES (1,3,NULL),(2,3,NULL),(3,3,NULL),(4,3,NULL),(5,3,NULL),(6,3,NULL),(7,3,NULL),(8,3,NULL)",
		"DELETE FROM t3 WHERE f1 < 4",
	}
	fails := false
	var left []string
	for try := 0; try < 12 && !fails; try++ {
		e := core.NewEng("d")
		s := e.NewSess()
		for _, q := range setup {
			s.MustExec(q)
		}
		rows, _ := g.Scan(s, "t3", []string{"id", "f1", "f5"})
		if len(rows) != 0 {
			fails = true
			left = g.Lines(rows)
		}
		e.Close()
	}
	{
		e := core.NewEng("d")
		s := e.NewSess()
		setup2 := []string{
			"CREATE TABLE t4 (id INT PRIMARY KEY, f6 INT, CONSTRAINT fk6 FOREIGN KEY (f6) REFERENCES t4 (id) ON DELETE RESTRICT)",
			"SET foreign_key_checks = 0",
			"INSERT INTO t4 VALUES (4,8),(7,4),(8,7)",
			"SET foreign_key_checks = 1",
		}
		for _, q := range setup2 {
			s.MustExec(q)
		}
		res := s.Exec("DELETE FROM t4")
		r.Eval(1)
		r.Pinned("selfref-delete-without-where-skips-restrict",
			"DELETE FROM t (no WHERE) on a table with an ON DELETE RESTRICT self reference whose rows form a reference cycle succeeds (executed as TRUNCATE); with WHERE id > 0 it is rejected",
			!res.Failed(), map[string]any{"setup": setup2, "stmt": "DELETE FROM t4", "expected": "ERR 1451", "actual": g.Outcome(res)})
		e.Close()
	}
	{
		e := core.NewEng("d")
		s := e.NewSess()
		setup3 := []string{
			"CREATE TABLE t5 (id INT PRIMARY KEY, k INT NOT NULL, f INT, UNIQUE KEY uq (k), CONSTRAINT fk5 FOREIGN KEY (f) REFERENCES t5 (id) ON DELETE SET NULL)",
			"INSERT INTO t5 VALUES (3,2,NULL),(6,1,3),(8,4,6)",
			"REPLACE INTO t5 VALUES (3,1,NULL)",
		}
		for _, q := range setup3 {
			s.MustExec(q)
		}
		rows, _ := g.Scan(s, "t5", []string{"id", "k", "f"})
		r.Eval(1)
		r.Pinned("selfref-replace-two-victims-leaves-duplicate-key",
			"REPLACE whose new row conflicts with two rows (primary key 3, unique key 1) of a self-referencing table, the second victim referencing the first with ON DELETE SET NULL, leaves the second victim in place: two rows with unique key 1",
			len(rows) != 2, map[string]any{"setup": setup3, "expected": []string{"3|1|NULL", "8|4|NULL"}, "actual": g.Lines(rows)})
		e.Close()
	}
	{
		e := core.NewEng("d")
		s := e.NewSess()
		setup4 := []string{
			"CREATE TABLE t6 (id INT PRIMARY KEY, f INT, CONSTRAINT fk6 FOREIGN KEY (f) REFERENCES t6 (id) ON DELETE CASCADE)",
			"INSERT INTO t6 VALUES (1,NULL),(9,NULL),(2,1),(3,1),(4,1),(5,1),(6,1),(7,1),(8,1)",
			"UPDATE t6 SET f = 9 WHERE f = 1",
		}
		for _, q := range setup4 {
			s.MustExec(q)
		}
		res := s.Exec("SELECT id FROM t6 WHERE f = 1")
		r.Eval(1)
		r.Pinned("selfref-table-multirow-update-where:selected-rows-not-updated",
			"UPDATE t SET f = 9 WHERE f = 1 selecting 7 rows of a self-referencing table updates only some of them",
			len(res.Rows) != 0, map[string]any{"setup": setup4, "expected_rows_with_f=1": 0, "actual": core.SortedRows(res.Rows)})
		e.Close()
	}
	r.Eval(1)
	r.Pinned("selfref-table-multirow-delete-where:selected-rows-survive",
		"DELETE ... WHERE <indexed column> on a table with a self-referencing foreign key leaves selected rows in place (8 rows with f1=3, DELETE WHERE f1 < 4 does not remove all)",
		fails, map[string]any{"setup": setup, "expected_rows": 0, "actual": left})
}

var _ = rand.Int
