package main

import (
	"fmt"
	"sort"
	"strings"

	g "verif/harness/g9alib"
)

// ---- schema ----

type action int

const (
	aOmitted action = iota
	aRestrict
	aNoAction
	aCascade
	aSetNull
)

func (a action) restrictive() bool { return a == aOmitted || a == aRestrict || a == aNoAction }

func (a action) String() string {
	return [...]string{"omitted", "RESTRICT", "NO ACTION", "CASCADE", "SET NULL"}[a]
}

type column struct {
	name     string
	nullable bool
}

type fkey struct {
	name          string
	child, parent int
	ccols, pcols  []int
	onDel, onUpd  action
}

func (f *fkey) self() bool { return f.child == f.parent }

type tdef struct {
	name    string
	cols    []column // column 0 is `id`, the primary key
	uniques [][]int  // unique keys besides the primary key
}

func (t *tdef) colNames() []string {
	out := make([]string, len(t.cols))
	for i, c := range t.cols {
		out[i] = c.name
	}
	return out
}

func (t *tdef) col(name string) int {
	for i, c := range t.cols {
		if c.name == name {
			return i
		}
	}
	return -1
}

type schema struct {
	tabs []*tdef
	fks  []*fkey
}

// ---- state ----

type mrow struct {
	vals []g.V
	dead bool
}

type mstate struct {
	rows [][]*mrow // per table
}

func (s *mstate) clone() *mstate {
	out := &mstate{rows: make([][]*mrow, len(s.rows))}
	for i, rs := range s.rows {
		out.rows[i] = make([]*mrow, len(rs))
		for j, r := range rs {
			out.rows[i][j] = &mrow{vals: g.CopyRow(r.vals)}
		}
	}
	return out
}

func (s *mstate) lines(t int) []string {
	out := make([]string, 0, len(s.rows[t]))
	for _, r := range s.rows[t] {
		out = append(out, g.CanonRow(r.vals))
	}
	sort.Strings(out)
	return out
}

func (s *mstate) fingerprint() string {
	var b strings.Builder
	for t := range s.rows {
		b.WriteString(strings.Join(s.lines(t), ";"))
		b.WriteString("#")
	}
	return b.String()
}

// ---- execution of one statement under one processing order ----

// ord selects one of the processing orders MySQL leaves open: the order in which the rows selected
// by a statement are processed, the order of the foreign keys referencing a table, the order of the
// child rows of one key, and whether RESTRICT checks of all keys precede the row change (as this
// engine does) or every key is handled in turn after the row change (as InnoDB does).
type ord struct {
	stmtRev, edgeRev, rowRev, interleave bool
	perm                                 []int // explicit order of the statement's target rows (exhaustive fallback)
	deferSelf                            bool  // restrictive self references are checked at the end of the statement (known-finding matcher only)
}

type merr struct{ class string }

func (e *merr) Error() string { return e.class }

type fired struct {
	cascDel, cascUpd, setNullDel, setNullUpd, restrictBlock, childReject int
	maxDepth                                                        int
	selfCascade, composite                                          bool
}

type mexec struct {
	sc     *schema
	st     *mstate
	o      ord
	checks bool
	f      fired
}

func eqNN(a, b g.V) bool { return !a.IsNull() && !b.IsNull() && a.I.Cmp(b.I) == 0 }

// matches reports whether child row c references parent row p through key f (all columns non-NULL and equal).
func matches(f *fkey, c, p []g.V) bool {
	for i := range f.ccols {
		if !eqNN(c[f.ccols[i]], p[f.pcols[i]]) {
			return false
		}
	}
	return true
}

func (m *mexec) live(t int) []*mrow {
	out := make([]*mrow, 0, len(m.st.rows[t]))
	for _, r := range m.st.rows[t] {
		if !r.dead {
			out = append(out, r)
		}
	}
	return out
}

func (m *mexec) remove(t int, r *mrow) {
	r.dead = true
	rs := m.st.rows[t]
	for i, x := range rs {
		if x == r {
			m.st.rows[t] = append(append([]*mrow{}, rs[:i]...), rs[i+1:]...)
			return
		}
	}
}

func (m *mexec) edgesOf(parent int) []*fkey {
	var out []*fkey
	for _, f := range m.sc.fks {
		if f.parent == parent {
			out = append(out, f)
		}
	}
	if m.o.edgeRev {
		for i, j := 0, len(out)-1; i < j; i, j = i+1, j-1 {
			out[i], out[j] = out[j], out[i]
		}
	}
	return out
}

// children returns the live rows of f's child table that reference key values `pv` (a parent row).
func (m *mexec) children(f *fkey, pv []g.V) []*mrow {
	var out []*mrow
	for _, c := range m.live(f.child) {
		if matches(f, c.vals, pv) {
			out = append(out, c)
		}
	}
	if m.o.rowRev {
		for i, j := 0, len(out)-1; i < j; i, j = i+1, j-1 {
			out[i], out[j] = out[j], out[i]
		}
	}
	return out
}

func (m *mexec) depth(d int) error {
	if d > m.f.maxDepth {
		m.f.maxDepth = d
	}
	if d > 14 {
		return &merr{"depth"}
	}
	return nil
}

func (m *mexec) checkNotNull(t int, vals []g.V) error {
	for i, c := range m.sc.tabs[t].cols {
		if !c.nullable && vals[i].IsNull() {
			return &merr{"notnull"}
		}
	}
	return nil
}

// checkUnique: no other live row equals vals on the primary key or on a unique key (NULLs never conflict).
func (m *mexec) checkUnique(t int, vals []g.V, self *mrow) error {
	keys := append([][]int{{0}}, m.sc.tabs[t].uniques...)
	for _, r := range m.live(t) {
		if r == self {
			continue
		}
		for _, k := range keys {
			all := true
			for _, ci := range k {
				if !eqNN(r.vals[ci], vals[ci]) {
					all = false
					break
				}
			}
			if all {
				return &merr{"dup"}
			}
		}
	}
	return nil
}

// checkRefs: for every key of table t among `which` (nil = all), a row with all-non-NULL key
// columns needs a parent; a row may be its own parent in a self reference.
func (m *mexec) checkRefs(t int, vals []g.V, changed func(f *fkey) bool) error {
	for _, f := range m.sc.fks {
		if f.child != t || (changed != nil && !changed(f)) {
			continue
		}
		anyNull := false
		for _, ci := range f.ccols {
			if vals[ci].IsNull() {
				anyNull = true
			}
		}
		if anyNull {
			continue
		}
		found := false
		for _, p := range m.live(f.parent) {
			if matches(f, vals, p.vals) {
				found = true
				break
			}
		}
		if !found && f.self() && matches(f, vals, vals) {
			found = true
		}
		if !found {
			m.f.childReject++
			return &merr{"child"}
		}
	}
	return nil
}

func (m *mexec) insertRow(t int, vals []g.V) error {
	if err := m.checkNotNull(t, vals); err != nil {
		return err
	}
	if err := m.checkUnique(t, vals, nil); err != nil {
		return err
	}
	if m.checks {
		if err := m.checkRefs(t, vals, nil); err != nil {
			return err
		}
	}
	m.st.rows[t] = append(m.st.rows[t], &mrow{vals: g.CopyRow(vals)})
	return nil
}

func (m *mexec) deleteRow(t int, r *mrow, depth int) error {
	if r.dead {
		return nil
	}
	if err := m.depth(depth); err != nil {
		return err
	}
	if !m.checks {
		m.remove(t, r)
		return nil
	}
	edges := m.edgesOf(t)
	old := g.CopyRow(r.vals)
	act := func(f *fkey) error {
		if f.onDel.restrictive() {
			if m.o.deferSelf && f.self() {
				return nil
			}
			if len(m.children(f, old)) > 0 {
				m.f.restrictBlock++
				return &merr{"parent"}
			}
			return nil
		}
		for _, c := range m.children(f, old) {
			if c.dead || !matches(f, c.vals, old) {
				continue
			}
			if len(f.ccols) > 1 {
				m.f.composite = true
			}
			if f.self() {
				m.f.selfCascade = true
			}
			if f.onDel == aCascade {
				m.f.cascDel++
				if err := m.deleteRow(f.child, c, depth+1); err != nil {
					return err
				}
			} else {
				m.f.setNullDel++
				nv := g.CopyRow(c.vals)
				for _, ci := range f.ccols {
					nv[ci] = g.Null
				}
				if err := m.updateRow(f.child, c, nv, depth+1); err != nil {
					return err
				}
			}
		}
		return nil
	}
	if m.o.interleave {
		m.remove(t, r)
		for _, f := range edges {
			if err := act(f); err != nil {
				return err
			}
		}
		return nil
	}
	for _, f := range edges {
		if f.onDel.restrictive() {
			if err := act(f); err != nil {
				return err
			}
		}
	}
	m.remove(t, r)
	for _, f := range edges {
		if !f.onDel.restrictive() {
			if err := act(f); err != nil {
				return err
			}
		}
	}
	return nil
}

func sameVals(a, b []g.V) bool {
	for i := range a {
		if !a[i].Equal(b[i]) {
			return false
		}
	}
	return true
}

func (m *mexec) updateRow(t int, r *mrow, nv []g.V, depth int) error {
	if r.dead {
		return nil
	}
	if err := m.depth(depth); err != nil {
		return err
	}
	old := g.CopyRow(r.vals)
	if sameVals(old, nv) {
		return nil
	}
	if err := m.checkNotNull(t, nv); err != nil {
		return err
	}
	if !m.checks {
		if err := m.checkUnique(t, nv, r); err != nil {
			return err
		}
		r.vals = g.CopyRow(nv)
		return nil
	}
	colsChanged := func(cols []int) bool {
		for _, ci := range cols {
			if !old[ci].Equal(nv[ci]) {
				return true
			}
		}
		return false
	}
	// the row as a child: changed keys need a parent
	if err := m.checkRefs(t, nv, func(f *fkey) bool { return colsChanged(f.ccols) }); err != nil {
		return err
	}
	var edges []*fkey
	for _, f := range m.edgesOf(t) {
		if colsChanged(f.pcols) {
			edges = append(edges, f)
		}
	}
	act := func(f *fkey) error {
		if f.onUpd.restrictive() {
			for _, c := range m.children(f, old) {
				if c == r && m.o.interleave {
					continue // whether a row blocks the update of its own key is left open (self-pointing row)
				}
				m.f.restrictBlock++
				return &merr{"parent"}
			}
			return nil
		}
		for _, c := range m.children(f, old) {
			if c.dead || !matches(f, c.vals, old) {
				continue
			}
			if len(f.ccols) > 1 {
				m.f.composite = true
			}
			cv := g.CopyRow(c.vals)
			for i, ci := range f.ccols {
				if f.onUpd == aCascade {
					cv[ci] = nv[f.pcols[i]]
				} else {
					cv[ci] = g.Null
				}
			}
			if f.onUpd == aCascade {
				m.f.cascUpd++
			} else {
				m.f.setNullUpd++
			}
			if err := m.updateRow(f.child, c, cv, depth+1); err != nil {
				return err
			}
		}
		return nil
	}
	if m.o.interleave {
		if err := m.checkUnique(t, nv, r); err != nil {
			return err
		}
		r.vals = g.CopyRow(nv)
		for _, f := range edges {
			if err := act(f); err != nil {
				return err
			}
		}
		return nil
	}
	for _, f := range edges {
		if f.onUpd.restrictive() {
			if err := act(f); err != nil {
				return err
			}
		}
	}
	if err := m.checkUnique(t, nv, r); err != nil {
		return err
	}
	r.vals = g.CopyRow(nv)
	for _, f := range edges {
		if !f.onUpd.restrictive() {
			if err := act(f); err != nil {
				return err
			}
		}
	}
	return nil
}

// ---- statements ----

type pred struct {
	kind string // all | eq | in | lt | gt | isnull
	col  int
	vals []int64
}

func (p *pred) eval(row []g.V) bool {
	switch p.kind {
	case "all":
		return true
	case "isnull":
		return row[p.col].IsNull()
	}
	if row[p.col].IsNull() {
		return false
	}
	x := row[p.col].Int64()
	switch p.kind {
	case "eq":
		return x == p.vals[0]
	case "lt":
		return x < p.vals[0]
	case "gt":
		return x > p.vals[0]
	case "in":
		for _, v := range p.vals {
			if x == v {
				return true
			}
		}
	}
	return false
}

func (p *pred) sql(t *tdef) string {
	c := g.Q(t.cols[p.col].name)
	switch p.kind {
	case "all":
		return ""
	case "isnull":
		return " WHERE " + c + " IS NULL"
	case "eq":
		return fmt.Sprintf(" WHERE %s = %d", c, p.vals[0])
	case "lt":
		return fmt.Sprintf(" WHERE %s < %d", c, p.vals[0])
	case "gt":
		return fmt.Sprintf(" WHERE %s > %d", c, p.vals[0])
	case "in":
		parts := make([]string, len(p.vals))
		for i, v := range p.vals {
			parts[i] = fmt.Sprint(v)
		}
		return fmt.Sprintf(" WHERE %s IN (%s)", c, strings.Join(parts, ", "))
	}
	return ""
}

type assign struct {
	col int
	val g.V
}

type stmt struct {
	kind string // insert | delete | update | replace | fkc
	t    int
	rows [][]g.V // insert / replace
	where pred
	sets []assign
	on   bool // fkc
}

func (s *stmt) sql(sc *schema) string {
	switch s.kind {
	case "fkc":
		if s.on {
			return "SET foreign_key_checks = 1"
		}
		return "SET foreign_key_checks = 0"
	}
	t := sc.tabs[s.t]
	switch s.kind {
	case "insert", "replace":
		var tuples []string
		for _, r := range s.rows {
			parts := make([]string, len(r))
			for i, v := range r {
				parts[i] = v.SQL()
			}
			tuples = append(tuples, "("+strings.Join(parts, ", ")+")")
		}
		verb := "INSERT"
		if s.kind == "replace" {
			verb = "REPLACE"
		}
		return fmt.Sprintf("%s INTO %s (%s) VALUES %s", verb, g.Q(t.name), g.QuoteList(t.colNames()), strings.Join(tuples, ", "))
	case "delete":
		return "DELETE FROM " + g.Q(t.name) + s.where.sql(t)
	case "update":
		var parts []string
		for _, a := range s.sets {
			parts = append(parts, g.Q(t.cols[a.col].name)+" = "+a.val.SQL())
		}
		return "UPDATE " + g.Q(t.name) + " SET " + strings.Join(parts, ", ") + s.where.sql(t)
	}
	return ""
}

// apply runs the statement on the executor's state; an error means "statement fails, no effect".
func (m *mexec) apply(s *stmt) error {
	targets := func() []*mrow {
		var out []*mrow
		for _, r := range m.live(s.t) {
			if s.where.eval(r.vals) {
				out = append(out, r)
			}
		}
		sort.SliceStable(out, func(a, b int) bool { return out[a].vals[0].Int64() < out[b].vals[0].Int64() })
		if m.o.perm != nil && len(m.o.perm) == len(out) {
			p := make([]*mrow, len(out))
			for i, k := range m.o.perm {
				p[i] = out[k]
			}
			return p
		}
		if m.o.stmtRev {
			for i, j := 0, len(out)-1; i < j; i, j = i+1, j-1 {
				out[i], out[j] = out[j], out[i]
			}
		}
		return out
	}
	switch s.kind {
	case "insert":
		for _, r := range s.rows {
			if err := m.insertRow(s.t, r); err != nil {
				return err
			}
		}
	case "replace":
		for _, r := range s.rows {
			if err := m.checkNotNull(s.t, r); err != nil {
				return err
			}
			for {
				var victim *mrow
				for _, x := range m.live(s.t) {
					if m.conflicts(s.t, x.vals, r) {
						victim = x
						if !m.o.rowRev {
							break
						}
					}
				}
				if victim == nil {
					break
				}
				if err := m.deleteRow(s.t, victim, 0); err != nil {
					return err
				}
			}
			if err := m.insertRow(s.t, r); err != nil {
				return err
			}
		}
	case "delete":
		for _, r := range targets() {
			if err := m.deleteRow(s.t, r, 0); err != nil {
				return err
			}
		}
		if m.o.deferSelf {
			for _, f := range m.sc.fks {
				if !f.self() || f.child != s.t {
					continue
				}
				for _, c := range m.live(f.child) {
					if err := m.checkRefs(f.child, c.vals, func(x *fkey) bool { return x == f }); err != nil {
						return &merr{"parent"}
					}
				}
			}
		}
	case "update":
		for _, r := range targets() {
			if r.dead {
				continue
			}
			nv := g.CopyRow(r.vals)
			for _, a := range s.sets {
				nv[a.col] = a.val
			}
			if err := m.updateRow(s.t, r, nv, 0); err != nil {
				return err
			}
		}
	}
	return nil
}

func (m *mexec) conflicts(t int, a, b []g.V) bool {
	keys := append([][]int{{0}}, m.sc.tabs[t].uniques...)
	for _, k := range keys {
		all := true
		for _, ci := range k {
			if !eqNN(a[ci], b[ci]) {
				all = false
				break
			}
		}
		if all {
			return true
		}
	}
	return false
}

// outcome of a statement under one order.
type outcome struct {
	failed bool
	class  string
	st     *mstate
	fp     string
	f      fired
}

var allOrders = func() []ord {
	var out []ord
	for i := 0; i < 16; i++ {
		out = append(out, ord{stmtRev: i&1 != 0, edgeRev: i&2 != 0, rowRev: i&4 != 0, interleave: i&8 != 0})
	}
	return out
}()

// outcomes evaluates the statement under every processing order and returns the distinct outcomes
// (the first one is the engine-like order).
func outcomes(sc *schema, st *mstate, checks bool, s *stmt) []outcome {
	var out []outcome
	seen := map[string]bool{}
	for _, o := range allOrders {
		m := &mexec{sc: sc, st: st.clone(), o: o, checks: checks}
		err := m.apply(s)
		oc := outcome{f: m.f}
		if err != nil {
			oc.failed = true
			oc.class = err.Error()
			oc.st = st
			oc.fp = "FAIL"
		} else {
			oc.st = m.st
			oc.fp = "OK:" + m.st.fingerprint()
		}
		if !seen[oc.fp] {
			seen[oc.fp] = true
			out = append(out, oc)
		}
	}
	return out
}

// targetCount is the number of rows a DELETE/UPDATE selects in the given state.
func targetCount(st *mstate, s *stmt) int {
	if s.kind != "delete" && s.kind != "update" {
		return 0
	}
	n := 0
	for _, r := range st.rows[s.t] {
		if s.where.eval(r.vals) {
			n++
		}
	}
	return n
}

// exhaustive looks for a processing order (every permutation of the statement's target rows, times
// the other order choices) whose outcome has fingerprint want. Used only when the 16 standard
// orders do not explain the engine's outcome.
func exhaustive(sc *schema, st *mstate, checks bool, s *stmt, want string) *outcome {
	n := targetCount(st, s)
	if n < 3 || n > 8 {
		return nil
	}
	perm := make([]int, n)
	for i := range perm {
		perm[i] = i
	}
	var found *outcome
	var rec func(k int)
	rec = func(k int) {
		if found != nil {
			return
		}
		if k == n {
			for v := 0; v < 8 && found == nil; v++ {
				o := ord{edgeRev: v&1 != 0, rowRev: v&2 != 0, interleave: v&4 != 0, perm: append([]int{}, perm...)}
				m := &mexec{sc: sc, st: st.clone(), o: o, checks: checks}
				err := m.apply(s)
				if err != nil {
					if want == "FAIL" {
						found = &outcome{failed: true, class: err.Error(), st: st, fp: "FAIL", f: m.f}
					}
				} else if fp := "OK:" + m.st.fingerprint(); fp == want {
					found = &outcome{st: m.st, fp: fp, f: m.f}
				}
			}
			return
		}
		for i := k; i < n; i++ {
			perm[k], perm[i] = perm[i], perm[k]
			rec(k + 1)
			perm[k], perm[i] = perm[i], perm[k]
		}
	}
	rec(0)
	return found
}

// orphans lists, for every foreign key, the key tuples of child rows (all columns non-NULL) that
// have no parent, computed from observed table contents (canonical cells).
func orphans(sc *schema, obs [][][]string) map[string]int {
	out := map[string]int{}
	for _, f := range sc.fks {
		parents := map[string]bool{}
		for _, p := range obs[f.parent] {
			key := make([]string, len(f.pcols))
			null := false
			for i, ci := range f.pcols {
				key[i] = p[ci]
				if p[ci] == "NULL" {
					null = true
				}
			}
			if !null {
				parents[strings.Join(key, ",")] = true
			}
		}
		for _, c := range obs[f.child] {
			key := make([]string, len(f.ccols))
			null := false
			for i, ci := range f.ccols {
				key[i] = c[ci]
				if c[ci] == "NULL" {
					null = true
				}
			}
			if null {
				continue
			}
			k := strings.Join(key, ",")
			if !parents[k] {
				out[f.name+":"+k]++
			}
		}
	}
	return out
}
