package main

import (
	"fmt"
	"math/rand"
	"sort"

	g "verif/harness/g9alib"
)

func lit(n int64) g.Expr  { return g.Lit{V: g.Int(n)} }
func col(n string) g.Expr { return g.Col{Name: n} }

var cmps = []string{"<", "<=", ">", ">=", "<>", "="}

// genBool builds a boolean expression over the given integer / string columns.
func genBool(rnd *rand.Rand, ints, strs []string, depth int) g.Expr {
	pick := func() g.Expr { return col(ints[rnd.Intn(len(ints))]) }
	k := func() g.Expr { return lit(int64(rnd.Intn(12))) }
	if len(strs) > 0 && rnd.Intn(100) < 15 {
		s := col(strs[rnd.Intn(len(strs))])
		if rnd.Intn(2) == 0 {
			return g.Bin{Op: "<>", L: s, R: g.Lit{V: g.Str("bad")}}
		}
		return g.In{E: s, List: []g.V{g.Str("x"), g.Str("y"), g.Str("z")}}
	}
	p := rnd.Intn(100)
	if depth > 0 && p < 22 {
		op := []string{"AND", "OR"}[rnd.Intn(2)]
		return g.Bin{Op: op, L: genBool(rnd, ints, strs, depth-1), R: genBool(rnd, ints, strs, depth-1)}
	}
	switch {
	case p < 40:
		return g.Bin{Op: cmps[rnd.Intn(4)], L: pick(), R: k()}
	case p < 52:
		return g.Bin{Op: cmps[rnd.Intn(len(cmps))], L: pick(), R: pick()}
	case p < 62:
		op := []string{"+", "-", "*"}[rnd.Intn(3)]
		var l g.Expr = g.Bin{Op: op, L: pick(), R: pick()}
		if op == "*" {
			l = g.Bin{Op: "*", L: pick(), R: lit(2)}
		}
		return g.Bin{Op: []string{"<=", "<", ">=", "<>"}[rnd.Intn(4)], L: l, R: lit(int64(rnd.Intn(24)))}
	case p < 72:
		n := 2 + rnd.Intn(3)
		var l []g.V
		for i := 0; i < n; i++ {
			l = append(l, g.Int(int64(rnd.Intn(12))))
		}
		return g.In{E: pick(), List: l, Neg: rnd.Intn(100) < 50}
	case p < 80:
		lo := int64(rnd.Intn(6))
		return g.Between{E: pick(), Lo: lit(lo), Hi: lit(lo + int64(2+rnd.Intn(8)))}
	case p < 86:
		return g.Bin{Op: "OR", L: g.IsNull{E: pick(), Neg: true}, R: g.IsNull{E: pick(), Neg: true}}
	case p < 91:
		x := pick()
		return g.Bin{Op: "OR", L: g.IsNull{E: x}, R: g.Bin{Op: ">", L: x, R: k()}}
	case p < 95:
		return g.Not{E: g.Bin{Op: "=", L: pick(), R: k()}}
	}
	return g.Bin{Op: "<", L: g.Coalesce{Args: []g.Expr{pick(), lit(0)}}, R: lit(int64(4 + rnd.Intn(10)))}
}

// genArith builds an integer expression over the given columns.
func genArith(rnd *rand.Rand, ints []string) g.Expr {
	pick := func() g.Expr { return col(ints[rnd.Intn(len(ints))]) }
	switch rnd.Intn(6) {
	case 0:
		return g.Bin{Op: "+", L: pick(), R: pick()}
	case 1:
		return g.Bin{Op: "*", L: pick(), R: lit(2)}
	case 2:
		return g.Bin{Op: "-", L: pick(), R: pick()}
	case 3:
		return g.Bin{Op: "+", L: g.Coalesce{Args: []g.Expr{pick(), lit(0)}}, R: lit(1)}
	case 4:
		return g.Bin{Op: "+", L: pick(), R: lit(int64(1 + rnd.Intn(5)))}
	}
	return g.Bin{Op: "+", L: g.Bin{Op: "*", L: pick(), R: lit(3)}, R: pick()}
}

// minPos is the first position a generated column may take. Domain exclusion (known finding
// generated-column-evaluated-before-computed-input): a generated column is placed after
// every expression-default base column that it reads, directly or through another generated column.
func minPos(t *table, gc *column) int {
	reads := g.ColsOf(gc.gen)
	for changed := true; changed; {
		changed = false
		for _, c := range t.cols {
			if c.gen != nil && reads[c.name] {
				for x := range g.ColsOf(c.gen) {
					if !reads[x] {
						reads[x] = true
						changed = true
					}
				}
			}
		}
	}
	pos := 1
	for i, c := range t.cols {
		if c.gen == nil && c.defExpr && reads[c.name] && i+1 > pos {
			pos = i + 1
		}
	}
	return pos
}

func genTable(rnd *rand.Rand) *table {
	t := &table{}
	t.cols = append(t.cols, &column{name: "id", notNull: true})
	nb := 2 + rnd.Intn(3)
	var ints []string
	for i := 0; i < nb; i++ {
		c := &column{name: string(rune('a' + i)), notNull: rnd.Intn(100) < 35, indexed: rnd.Intn(100) < 25}
		switch p := rnd.Intn(100); {
		case p < 35:
			c.def = lit(int64(rnd.Intn(10)))
		case p < 55 && len(ints) > 0:
			c.def = genArith(rnd, ints)
			c.defExpr = true
		case p < 60:
			c.def = g.Bin{Op: "+", L: lit(5), R: lit(2)}
			c.defExpr = true
		}
		ints = append(ints, c.name)
		t.cols = append(t.cols, c)
	}
	var strs []string
	if rnd.Intn(100) < 30 {
		c := &column{name: "s", str: true, notNull: rnd.Intn(100) < 30}
		if rnd.Intn(100) < 60 {
			c.def = g.Lit{V: g.Str("x")}
		}
		strs = append(strs, "s")
		t.cols = append(t.cols, c)
	}
	// generated columns, inserted at random positions after id
	insertAt := func(c *column, min int) int {
		pos := min + rnd.Intn(len(t.cols)-min+1)
		t.cols = append(t.cols, nil)
		copy(t.cols[pos+1:], t.cols[pos:])
		t.cols[pos] = c
		return pos
	}
	all := append([]string{}, ints...)
	if rnd.Intn(100) < 75 {
		gc := &column{name: "g", gen: genArith(rnd, ints), virtual: rnd.Intn(100) < 35, notNull: rnd.Intn(100) < 15, indexed: rnd.Intn(100) < 50}
		if gc.virtual {
			gc.notNull = false // domain exclusion: known finding virtual-not-null-generated-column-replace-odku-error
		}
		pos := insertAt(gc, minPos(t, gc))
		all = append(all, "g")
		if rnd.Intn(100) < 45 {
			hc := &column{name: "h", gen: genArith(rnd, append([]string{"g"}, ints[:1]...)), virtual: rnd.Intn(100) < 35, indexed: rnd.Intn(100) < 40}
			mp := minPos(t, hc)
			if mp < pos+1 {
				mp = pos + 1
			}
			insertAt(hc, mp)
			all = append(all, "h")
		}
	}
	nck := 1 + rnd.Intn(3)
	for i := 0; i < nck; i++ {
		t.checks = append(t.checks, &check{name: fmt.Sprintf("ck%d", i+1), e: genBool(rnd, all, strs, 1), enforced: rnd.Intn(100) >= 15})
	}
	return t
}

// ---- statements ----

type hist struct {
	t    *table
	st   *state
	rnd  *rand.Rand
	nck  int
	noCk bool // known finding: this table's CHECKs are not enforced by the engine (virtual column table)
}

func (h *hist) enforce() bool { return !h.noCk }

func (h *hist) val(c *column) g.V {
	if c.str {
		return g.Str([]string{"x", "y", "z", "bad", "q"}[h.rnd.Intn(5)])
	}
	if h.rnd.Intn(100) < 6 {
		return g.Int(int64(-1 - h.rnd.Intn(3)))
	}
	return g.Int(int64(h.rnd.Intn(13)))
}

func (h *hist) freshID() g.V {
	used := map[int64]bool{}
	for _, r := range h.st.rows {
		used[r["id"].Int64()] = true
	}
	var free []int64
	for i := int64(1); i <= 12; i++ {
		if !used[i] {
			free = append(free, i)
		}
	}
	if len(free) == 0 || h.rnd.Intn(100) < 7 {
		return g.Int(int64(1 + h.rnd.Intn(12)))
	}
	return g.Int(free[h.rnd.Intn(len(free))])
}

func (h *hist) existingID() g.V {
	if len(h.st.rows) > 0 && h.rnd.Intn(100) < 85 {
		return h.st.rows[h.rnd.Intn(len(h.st.rows))]["id"]
	}
	return g.Int(int64(1 + h.rnd.Intn(12)))
}

// colList picks the column list of an INSERT: a subset in random order.
func (h *hist) colList(allowGen bool) []string {
	var out []string
	for _, c := range h.t.cols {
		switch {
		case c.name == "id":
			if h.rnd.Intn(100) < 97 {
				out = append(out, c.name)
			}
		case c.gen != nil:
			if allowGen && h.rnd.Intn(100) < 10 {
				out = append(out, c.name)
			}
		default:
			if h.rnd.Intn(100) < 65 {
				out = append(out, c.name)
			}
		}
	}
	h.rnd.Shuffle(len(out), func(i, j int) { out[i], out[j] = out[j], out[i] })
	return out
}

func (h *hist) tuple(cols []string, id g.V, strictGen bool) []cell {
	tup := make([]cell, len(cols))
	for i, name := range cols {
		c := h.t.col(name)
		switch {
		case name == "id":
			tup[i] = cell{v: id}
		case c.gen != nil:
			if strictGen || h.rnd.Intn(100) < 60 {
				tup[i] = cell{def: true}
			} else {
				tup[i] = cell{v: h.val(c)}
			}
		default:
			p := h.rnd.Intn(100)
			switch {
			case p < 9:
				tup[i] = cell{v: g.Null}
			case p < 19:
				tup[i] = cell{def: true}
			default:
				tup[i] = cell{v: h.val(c)}
			}
		}
	}
	return tup
}

// readsOf lists the columns X reads, following generated columns.
func (h *hist) readsOf(c *column) map[string]bool {
	e := c.gen
	if e == nil {
		e = c.def
	}
	reads := g.ColsOf(e)
	for changed := true; changed; {
		changed = false
		for _, x := range h.t.cols {
			if x.gen != nil && reads[x.name] {
				for y := range g.ColsOf(x.gen) {
					if !reads[y] {
						reads[y] = true
						changed = true
					}
				}
			}
		}
	}
	return reads
}

// defaultKeywordOK applies the statement-level domain rules for DEFAULT-keyword cells:
//   - a generated column may not be listed before an expression-default or generated column it reads
//     that also takes DEFAULT (known finding generated-column-evaluated-before-computed-input);
//   - an expression-default column must find every listed column it reads earlier in the list
//     (MySQL assigns in list order; the value is open otherwise);
//   - reading an unlisted column is allowed only rarely (known finding D4: internal error).
func (h *hist) defaultKeywordOK(cols []string, tup []cell) bool {
	pos := map[string]int{}
	for i, c := range cols {
		pos[c] = i
	}
	for i, cl := range tup {
		if !cl.def {
			continue
		}
		x := h.t.col(cols[i])
		if x.gen == nil && !x.defExpr {
			continue
		}
		reads := h.readsOf(x)
		var names []string
		for y := range reads {
			names = append(names, y)
		}
		sort.Strings(names) // map order must not steer the PRNG
		for _, y := range names {
			yc := h.t.col(y)
			j, listed := pos[y]
			switch {
			case !listed:
				if yc.gen == nil && h.rnd.Intn(100) < 85 {
					return false
				}
			case j > i && x.gen == nil:
				return false
			case j > i && tup[j].def && (yc.gen != nil || yc.defExpr):
				return false
			}
		}
	}
	return true
}

// nullWrites lists the NOT NULL base columns to which the tuple writes NULL (explicitly, through
// the DEFAULT keyword without a default, or by omission without a default).
func (h *hist) nullWrites(cols []string, tup []cell) []string {
	gv := given(cols, tup)
	var out []string
	r := row{}
	for _, c := range h.t.cols {
		if c.gen != nil {
			continue
		}
		cl, ok := gv[c.name]
		var v g.V
		switch {
		case ok && !cl.def:
			v = cl.v
		case c.def != nil:
			v = c.def.Eval(r)
		default:
			v = g.Null
		}
		r[c.name] = v
		if c.notNull && v.IsNull() {
			out = append(out, c.name)
		}
	}
	return out
}

// genNotNullIsNull: some NOT NULL generated column evaluates to NULL for this tuple.
func (h *hist) genNotNullIsNull(cols []string, tup []cell) bool {
	gv := given(cols, tup)
	r := row{}
	for _, c := range h.t.cols {
		if c.gen != nil {
			continue
		}
		cl, ok := gv[c.name]
		switch {
		case ok && !cl.def:
			r[c.name] = cl.v
		case c.def != nil:
			r[c.name] = c.def.Eval(r)
		default:
			r[c.name] = g.Null
		}
	}
	for _, c := range h.t.cols {
		if c.gen != nil {
			r[c.name] = c.gen.Eval(r)
			if c.notNull && r[c.name].IsNull() {
				return true
			}
		}
	}
	return false
}

// goodTuple tries a few candidates and prefers one that the model accepts.
func (h *hist) goodTuple(cols []string, id g.V, strictGen bool, wantValid int) []cell {
	var tup []cell
	for try := 0; try < 12; try++ {
		cand := h.tuple(cols, id, strictGen)
		if !h.defaultKeywordOK(cols, cand) {
			continue
		}
		tup = cand
		if h.rnd.Intn(100) >= wantValid {
			return tup
		}
		if _, err := h.t.build(given(cols, tup), h.enforce()); err == nil {
			return tup
		}
	}
	if tup == nil {
		// give up on DEFAULT keywords for this tuple
		tup = h.tuple(cols, id, true)
		for i := range tup {
			c := h.t.col(cols[i])
			if tup[i].def && c.gen == nil {
				tup[i] = cell{v: h.val(c)}
			}
		}
		if !h.defaultKeywordOK(cols, tup) {
			return nil
		}
	}
	return tup
}

func (h *hist) genWhere() g.Expr {
	p := h.rnd.Intn(100)
	var ints []string
	for _, c := range h.t.cols {
		if !c.str {
			ints = append(ints, c.name)
		}
	}
	switch {
	case p < 45:
		return g.Bin{Op: "=", L: col("id"), R: g.Lit{V: h.existingID()}}
	case p < 60:
		return g.In{E: col("id"), List: []g.V{h.existingID(), h.existingID(), h.existingID()}}
	case p < 80:
		return g.Bin{Op: cmps[h.rnd.Intn(4)], L: col(ints[h.rnd.Intn(len(ints))]), R: lit(int64(h.rnd.Intn(12)))}
	case p < 90:
		return g.IsNull{E: col(ints[h.rnd.Intn(len(ints))]), Neg: h.rnd.Intn(2) == 0}
	}
	return nil
}

func (h *hist) genAssign(allowGen bool) assign {
	var base, gens []*column
	for _, c := range h.t.cols[1:] {
		if c.gen != nil {
			gens = append(gens, c)
		} else {
			base = append(base, c)
		}
	}
	if allowGen && len(gens) > 0 && h.rnd.Intn(100) < 5 {
		return assign{col: gens[h.rnd.Intn(len(gens))].name, e: lit(int64(h.rnd.Intn(10)))}
	}
	c := base[h.rnd.Intn(len(base))]
	if c.str {
		if h.rnd.Intn(100) < 12 {
			return assign{col: c.name, e: g.Lit{V: g.Null}}
		}
		return assign{col: c.name, e: g.Lit{V: h.val(c)}}
	}
	var ints []string
	for _, b := range base {
		if !b.str {
			ints = append(ints, b.name)
		}
	}
	switch p := h.rnd.Intn(100); {
	case p < 45:
		return assign{col: c.name, e: g.Lit{V: h.val(c)}}
	case p < 60:
		return assign{col: c.name, e: g.Bin{Op: []string{"+", "-"}[h.rnd.Intn(2)], L: col(c.name), R: lit(int64(1 + h.rnd.Intn(3)))}}
	case p < 72:
		return assign{col: c.name, e: col(ints[h.rnd.Intn(len(ints))])}
	case p < 82:
		return assign{col: c.name, e: g.Lit{V: g.Null}}
	case p < 92:
		return assign{col: c.name, e: nil}
	}
	return assign{col: c.name, e: g.Bin{Op: "*", L: col(c.name), R: lit(2)}}
}

func (h *hist) genStmt() *stmt {
	p := h.rnd.Intn(100)
	if len(h.st.rows) < 3 {
		p = h.rnd.Intn(45)
	}
	if len(h.st.rows) >= 11 && p < 45 {
		p = 88
	}
	s := &stmt{}
	switch {
	case p < 30:
		s.kind = "insert"
		s.cols = h.colList(true)
		n := 1
		if h.rnd.Intn(100) < 35 {
			n = 2 + h.rnd.Intn(2)
		}
		used := map[int64]bool{}
		for i := 0; i < n; i++ {
			id := h.freshID()
			for k := 0; k < 5 && used[id.Int64()]; k++ {
				id = h.freshID()
			}
			used[id.Int64()] = true
			// domain exclusion (known finding explicit-generated-value-in-later-tuple-stored): only the
			// first tuple may carry an explicit value for a generated column
			if tup := h.goodTuple(s.cols, id, i > 0, 75); tup != nil {
				s.tuples = append(s.tuples, tup)
			}
		}
		if len(s.tuples) == 0 {
			return h.genStmt()
		}
	case p < 40:
		s.kind = "ignore"
		s.cols = h.colList(false)
		hasID := false
		for _, c := range s.cols {
			if c == "id" {
				hasID = true
			}
		}
		if !hasID {
			s.cols = append(s.cols, "id")
		}
		n := 1 + h.rnd.Intn(4)
		used := map[int64]bool{}
		for i := 0; i < n; i++ {
			id := h.freshID()
			if h.rnd.Intn(100) < 12 {
				id = h.existingID()
			}
			if used[id.Int64()] {
				continue
			}
			used[id.Int64()] = true
			var tup []cell
			for try := 0; try < 8; try++ {
				tup = h.goodTuple(s.cols, id, true, 40)
				if tup == nil {
					continue
				}
				// core domain: no NULL written under IGNORE into a NOT NULL column that a CHECK or a
				// generated column reads (known finding ignore-null-adjusted-after-check-and-generated-eval)
				ok := true
				gv := given(s.cols, tup)
				for _, c := range h.nullWrites(s.cols, tup) {
					cl, listed := gv[c]
					if h.t.dependents(c) || (h.t.col(c).defExpr && (!listed || cl.def)) {
						ok = false // also: an expression default yielding NULL for a NOT NULL column (open in MySQL)
					}
				}
				if h.genNotNullIsNull(s.cols, tup) {
					ok = false // a NOT NULL generated column evaluating to NULL under IGNORE (open in MySQL)
				}
				if ok {
					break
				}
				tup = nil
			}
			if tup != nil {
				s.tuples = append(s.tuples, tup)
			}
		}
		if len(s.tuples) == 0 {
			return h.genStmt()
		}
	case p < 45:
		s.kind = "replace"
		s.cols = h.colList(false)
		id := h.existingID()
		tup := h.goodTuple(s.cols, id, true, 70)
		if tup == nil {
			return h.genStmt()
		}
		s.tuples = [][]cell{tup}
	case p < 50:
		s.kind = "odku"
		s.cols = h.colList(false)
		id := h.existingID()
		tup := h.goodTuple(s.cols, id, true, 100)
		if tup == nil {
			return h.genStmt()
		}
		if _, err := h.t.build(given(s.cols, tup), h.enforce()); err != nil {
			return h.genStmt() // the row to insert must itself be valid (order of checks vs. duplicate detection is open)
		}
		s.tuples = [][]cell{tup}
		a := h.genAssign(false)
		for a.e == nil {
			a = h.genAssign(false)
		}
		s.sets = []assign{a}
	case p < 82:
		s.kind = "update"
		s.where = h.genWhere()
		s.sets = []assign{h.genAssign(true)}
		if h.rnd.Intn(100) < 20 {
			// a second assignment, literal right-hand sides only (left-to-right evaluation is MySQL-specific)
			a, b := h.genAssign(false), h.genAssign(false)
			if a.col != b.col {
				if _, isLit := a.e.(g.Lit); isLit {
					if _, isLit2 := b.e.(g.Lit); isLit2 {
						s.sets = []assign{a, b}
					}
				}
			}
		}
		if h.rnd.Intn(100) < 15 {
			// an explicit `g = DEFAULT` for a generated column (legal) ahead of a literal assignment to a base
			// column: the generated column must still be recomputed from the row's final base values
			var gens []string
			for _, c := range h.t.cols {
				if c.gen != nil {
					gens = append(gens, c.name)
				}
			}
			if b := h.genAssign(false); len(gens) > 0 && b.e != nil {
				if _, isLit := b.e.(g.Lit); isLit && h.t.col(b.col).gen == nil {
					s.sets = []assign{{col: gens[h.rnd.Intn(len(gens))]}, b}
					s.genDefault = true
				}
			}
		}
		// prefer updates that the model accepts, most of the time
		for try := 0; try < 4 && !s.genDefault && h.rnd.Intn(100) < 60; try++ {
			if _, err := h.t.apply(h.st, s, h.enforce()); err == nil {
				break
			}
			s.sets = []assign{h.genAssign(false)}
		}
	case p < 90:
		s.kind = "delete"
		s.where = h.genWhere()
		if s.where == nil && h.rnd.Intn(100) < 70 {
			s.where = g.Bin{Op: "=", L: col("id"), R: g.Lit{V: h.existingID()}}
		}
	case p < 96:
		s.kind = "addcheck"
		var all, strs []string
		for _, c := range h.t.cols[1:] {
			if c.str {
				strs = append(strs, c.name)
			} else {
				all = append(all, c.name)
			}
		}
		h.nck++
		s.ck = &check{name: fmt.Sprintf("ckx%d", h.nck), e: genBool(h.rnd, all, strs, 1), enforced: h.rnd.Intn(100) >= 15}
	default:
		if len(h.t.checks) == 0 {
			return h.genStmt()
		}
		s.kind = "dropcheck"
		s.ck = h.t.checks[h.rnd.Intn(len(h.t.checks))]
	}
	s.sql = s.render()
	return s
}
