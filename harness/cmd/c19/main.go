// C19 — CHECK, NOT NULL, defaults and generated columns hold for stored rows.
//
// Two oracles over generated DML/DDL histories on generated schemas:
//  1. invariant (harness side, after every statement, over every stored row read back by a full
//     scan): no NULL in a NOT NULL column; every generated column equals its expression evaluated by
//     the harness's reference evaluator over the row; no enforced CHECK evaluates to FALSE;
//  2. exactness: the statement fails exactly when the reference model says it must (strict mode), a
//     failed statement leaves the table unchanged, a successful one leaves exactly the model's rows
//     (omitted columns hold their declared default, DEFAULT keyword, expression defaults, generated
//     columns recomputed on UPDATE of a base column). INSERT IGNORE: valid rows are inserted exactly,
//     violating rows are skipped or stored in an adjusted form that satisfies oracle 1, with a
//     warning. ALTER TABLE ADD CHECK fails on violating data; NOT ENFORCED checks are ignored.
//
// Indexed (generated) columns are also read through their index and compared with the scan.
package main

import (
	"fmt"
	"os"
	"sort"
	"strings"

	"verif/harness/core"
	g "verif/harness/g9alib"
)

func main() {
	r := core.NewRun("C19", "exploration",
		"one evaluation = one statement of a generated history (INSERT with column subsets / DEFAULT keyword / multi-row, INSERT IGNORE, REPLACE, ON DUPLICATE KEY UPDATE, UPDATE, DELETE, ALTER ADD/DROP CHECK) on a generated table (NOT NULL, literal and expression defaults, STORED/VIRTUAL generated columns incl. generated-from-generated, indexes on them, 1-3 CHECKs incl. NOT ENFORCED) judged by the stored-row invariant and by the reference model; distinct = (statement kind, outcome class, schema features)")
	r.Assume("INT and VARCHAR(8) columns, small values (no overflow, no conversion); expressions use + - * comparisons AND OR NOT IN BETWEEN IS NULL COALESCE; strict sql_mode (the engine's default)")
	r.Assume("not judged: which of several violated constraints is reported; affected-row counts; UPDATE with several non-literal assignments (left-to-right evaluation is MySQL-specific); ON DUPLICATE KEY UPDATE whose row-to-insert is itself invalid")
	r.Assume("domain exclusion (known finding ignore-null-adjusted-after-check-and-generated-eval): INSERT IGNORE does not write NULL into a NOT NULL column that an enforced CHECK or a generated column reads")
	r.Assume("domain exclusions: VIRTUAL generated columns are never NOT NULL (virtual-not-null-generated-column-replace-odku-error); only the first tuple of a multi-row INSERT may give an explicit value for a generated column (explicit-generated-value-in-later-tuple-stored); generated columns are defined after the expression-default columns they read and a DEFAULT-keyword generated column is not listed before a DEFAULT-keyword expression-default column it reads (generated-column-evaluated-before-computed-input)")
	r.Assume("not generated (open in MySQL): DEFAULT keyword for an expression-default column listed before a column it reads; INSERT IGNORE rows whose NOT NULL generated column or NOT NULL expression default evaluates to NULL")
	n := r.N(300, 6000)
	if c := os.Getenv("VERIF_CASE"); c != "" {
		var k int
		fmt.Sscan(c, &k)
		runCase(r, k)
		r.Finish()
	}
	r.Parallel("hist", n, func(i int) { runCase(r, i) })
	pinned(r)
	for _, f := range []string{"reject.check", "reject.notnull", "reject.no-default", "reject.gen-value", "ok.default-expr", "ok.generated-recomputed", "ok.check-null", "ignore.skipped", "addcheck.rejected", "not-enforced-ignored", "index-probes"} {
		r.Floor(r.Counter(f) > 0, "never observed: "+f)
	}
	r.Finish()
}

type step struct {
	SQL      string `json:"sql"`
	Outcome  string `json:"engine"`
	Expected string `json:"model"`
}

type witness struct {
	Case     int      `json:"case"`
	Seed     int64    `json:"seed"`
	Setup    []string `json:"setup"`
	Steps    []step   `json:"steps"`
	What     string   `json:"what"`
	Expected []string `json:"expected_rows,omitempty"`
	Actual   []string `json:"actual_rows,omitempty"`
	Detail   any      `json:"detail,omitempty"`
}

// parseRows turns observed cells into model rows.
func parseRows(t *table, obs [][]string) []row {
	out := make([]row, len(obs))
	for i, cells := range obs {
		r := row{}
		for j, c := range t.cols {
			r[c.name] = g.ParseCell(cells[j])
		}
		out[i] = r
	}
	return out
}

// invariant checks every stored row; returns (kind, description) of the first break.
func invariant(t *table, rows []row, enforce bool) (string, string) {
	for _, r := range rows {
		for _, c := range t.cols {
			if c.notNull && r[c.name].IsNull() {
				return "null-in-not-null-column", fmt.Sprintf("row %s: column %s is NULL", t.line(r), c.name)
			}
		}
		for _, c := range t.cols {
			if c.gen != nil {
				want := c.gen.Eval(r)
				if !want.Equal(r[c.name]) {
					kind := "stored"
					if c.virtual {
						kind = "virtual"
					}
					return "generated-column-stale:" + kind, fmt.Sprintf("row %s: %s = %s but %s evaluates to %s", t.line(r), c.name, r[c.name].Canon(), c.gen.SQL(), want.Canon())
				}
			}
		}
		if enforce {
			for _, ck := range t.checks {
				if ck.enforced && g.Truth(ck.e.Eval(r)) == 0 {
					return "stored-row-makes-check-false", fmt.Sprintf("row %s: CHECK %s %s is FALSE", t.line(r), ck.name, ck.e.SQL())
				}
			}
		}
	}
	return "", ""
}

func features(t *table) string {
	var f []string
	for _, c := range t.cols {
		switch {
		case c.gen != nil && c.virtual:
			f = append(f, "virt")
		case c.gen != nil:
			f = append(f, "stored")
		case c.defExpr:
			f = append(f, "defexpr")
		}
		if c.gen != nil && c.indexed {
			f = append(f, "genidx")
		}
	}
	sort.Strings(f)
	var u []string
	for i, x := range f {
		if i == 0 || f[i-1] != x {
			u = append(u, x)
		}
	}
	return strings.Join(u, "+")
}

func indexProbe(s *core.Sess, t *table, obs [][]string) (string, map[string]any) {
	for ci, c := range t.cols {
		if !c.indexed || c.str || c.indexDead {
			continue
		}
		q := fmt.Sprintf("SELECT %s FROM t WHERE %s > -100000", g.QuoteList(t.colNames()), g.Q(c.name))
		res := s.Exec(q)
		if res.Failed() {
			return "index-read-failed", map[string]any{"sql": q, "outcome": g.Outcome(res)}
		}
		got := core.SortedRows(res.Rows)
		var want []string
		for _, cells := range obs {
			if cells[ci] != "NULL" {
				want = append(want, strings.Join(cells, "|"))
			}
		}
		sort.Strings(want)
		if !core.SameStrings(got, want) {
			gen := "base"
			if c.gen != nil {
				gen = "generated"
			}
			return "index-read-differs-from-scan:" + gen, map[string]any{"sql": q, "via_index": got, "via_scan": want, "column": c}
		}
	}
	return "", nil
}

func runCase(r *core.Run, i int) {
	rnd := r.Rand("hist", i)
	t := genTable(rnd)
	create := t.createSQL()
	e := core.NewEng("d")
	defer e.Close()
	s := e.NewSess()
	w := &witness{Case: i, Seed: r.Seed, Setup: []string{create}}
	res := s.Exec(create)
	if res.Failed() {
		switch {
		case res.Panic != nil:
			r.Violation(res.Panic.Sig(), map[string]any{"sql": create, "outcome": g.Outcome(res)})
		case g.Unsupported(res):
			r.Inconclusive("create-unsupported")
		default:
			r.Violation("valid-create-table-rejected:"+res.ErrClass(), map[string]any{"sql": create, "outcome": g.Outcome(res)})
		}
		return
	}
	h := &hist{t: t, st: &state{}, rnd: rnd}
	nSteps := 25 + rnd.Intn(16)
	for k := 0; k < nSteps; k++ {
		st := h.genStmt()
		res := s.Exec(st.sql)
		w.Steps = append(w.Steps, step{SQL: st.sql, Outcome: g.Outcome(res)})
		last := &w.Steps[len(w.Steps)-1]
		if len(res.Warnings) > 0 {
			last.Outcome += fmt.Sprintf(" warnings=%d", len(res.Warnings))
		}
		if res.Panic != nil {
			w.What = "panic"
			r.Violation(res.Panic.Sig(), w)
			return
		}
		if res.TimedOut {
			r.Inconclusive("timeout")
			return
		}
		obs, sres := g.Scan(s, "t", t.colNames())
		if obs == nil && sres.Failed() {
			w.What = "scan failed after statement: " + g.Outcome(sres)
			r.Violation("scan-failed-after-"+st.kind, w)
			return
		}
		actual := g.Lines(obs)
		pre := h.st.lines(t)
		rows := parseRows(t, obs)
		r.Eval(1)

		if res.Failed() && g.Unsupported(res) {
			// the engine declines the statement: it must have no effect; not a verdict on the statement
			r.Inconclusive("stmt-unsupported:" + st.kind)
			if !core.SameStrings(actual, pre) {
				w.What = "declined statement changed the table"
				w.Expected, w.Actual = pre, actual
				r.Violation("failed-"+st.kind+"-left-effect", w)
				return
			}
			continue
		}

		// known finding D4: DEFAULT keyword for an expression-default / generated column whose expression
		// reads a column that is not in the INSERT column list -> internal error
		if res.Failed() && defaultKeywordInternalError(t, st, res) {
			w.What = "valid INSERT rejected with an internal error (DEFAULT keyword for a column whose expression reads a column missing from the column list)"
			r.Violation("insert-default-keyword-expr-reads-unlisted-column:internal-error", cloneW(w))
			if !core.SameStrings(actual, pre) {
				w.What = "failed statement changed the table"
				w.Expected, w.Actual = pre, actual
				r.Violation("failed-"+st.kind+"-left-effect", w)
				return
			}
			continue
		}

		v := evalStep(h, st, res, rows, actual, pre, h.enforce())
		if v.sig != "" && t.hasVirtual() && !h.noCk {
			// known finding D1: the CHECKs of a table with a VIRTUAL column are not enforced. Matched only
			// when the step is exactly right for the same table with every CHECK switched off.
			if v2 := evalStep(h, st, res, rows, actual, pre, false); v2.sig == "" {
				w.What = "CHECK not enforced on a table with a VIRTUAL generated column: " + v.what
				w.Expected, w.Actual = v.expected, actual
				r.Violation("virtual-column-table-check-not-enforced", cloneW(w))
				h.noCk = true
				v = v2
			}
		}
		last.Expected = v.model
		if v.sig != "" {
			if st.kind == "addcheck" && !st.ck.enforced && res.Failed() && core.SameStrings(actual, pre) {
				// known finding D3: ADD CHECK ... NOT ENFORCED is validated against the stored rows
				w.What = "ALTER TABLE ADD CHECK ... NOT ENFORCED rejected because existing rows violate it"
				r.Violation("add-check-not-enforced-validated-against-rows", cloneW(w))
				continue
			}
			w.What = v.what
			w.Expected, w.Actual = v.expected, actual
			r.Violation(v.sig, w)
			return
		}
		v.commit(r)

		if what, detail := indexProbe(s, t, obs); what != "" {
			c, _ := detail["column"].(*column)
			delete(detail, "column")
			w.What = what
			w.Detail = detail
			if c != nil && st.kind == "odku" && c.gen != nil && c.virtual && !res.Failed() && onlyMissing(detail, st) {
				// known finding D8: an ON DUPLICATE KEY UPDATE that finds the duplicate drops the row from
				// the index of a VIRTUAL generated column; that index is not probed again in this history
				// (the index stays wrong, so the history ends here)
				r.Violation("virtual-generated-column-index-loses-row-after-odku", cloneW(w))
				return
			}
			r.Violation(what+":after-"+st.kind, w)
			return
		}
		r.Count("index-probes", 1)
		if k == nSteps-1 && len(actual) > 0 && i%40 == 0 {
			r.Sample(map[string]any{"create": create, "last_statement": st.sql, "rows": core.ClipStrings(actual, 6)})
		}
	}
}

// classify counts which mechanisms a successful statement exercised.
func classify(r *core.Run, h *hist, st *stmt, ns *state) {
	t := h.t
	switch st.kind {
	case "insert", "replace", "odku":
		for _, tup := range st.tuples {
			gv := given(st.cols, tup)
			for _, c := range t.cols {
				cl, ok := gv[c.name]
				if c.gen == nil && c.defExpr && (!ok || cl.def) {
					r.Count("ok.default-expr", 1)
				}
				if c.gen == nil && c.def != nil && !c.defExpr && (!ok || cl.def) {
					r.Count("ok.default-literal", 1)
				}
			}
		}
	case "update":
		for _, a := range st.sets {
			for _, c := range t.cols {
				if c.gen != nil && g.ColsOf(c.gen)[a.col] && len(ns.rows) > 0 {
					r.Count("ok.generated-recomputed", 1)
				}
			}
		}
	}
	for _, row := range ns.rows {
		for _, ck := range t.checks {
			if ck.enforced && g.Truth(ck.e.Eval(row)) < 0 {
				r.Count("ok.check-null", 1)
			}
			if !ck.enforced && g.Truth(ck.e.Eval(row)) == 0 {
				r.Count("not-enforced-ignored", 1)
			}
		}
	}
}

type verdict struct {
	sig, what, model string
	expected         []string
	commit           func(r *core.Run)
}

func cloneW(w *witness) *witness {
	c := *w
	c.Steps = append([]step{}, w.Steps...)
	return &c
}

// evalStep judges one executed statement under the given CHECK enforcement; it changes nothing.
func evalStep(h *hist, st *stmt, res *core.Result, rows []row, actual, pre []string, enforce bool) verdict {
	t := h.t
	feat := features(t)
	// oracle 1: stored-row invariant (on what the scan returns, independent of the model)
	if kind, desc := invariant(t, rows, enforce); kind != "" {
		return verdict{sig: kind + ":after-" + st.kind, what: desc}
	}
	if st.kind == "ignore" {
		return judgeIgnore(h, st, res, rows, actual, pre, enforce)
	}
	ns, err := t.apply(h.st, st, enforce)
	v := verdict{model: "OK"}
	if err != nil {
		v.model = "FAIL(" + err.Error() + ")"
	}
	switch {
	case res.Failed() && !core.SameStrings(actual, pre):
		v.sig, v.what, v.expected = "failed-"+st.kind+"-left-effect", "failed statement changed the table", pre
	case res.Failed() && err == nil:
		v.sig, v.what, v.expected = "valid-"+st.kind+"-rejected:"+res.ErrClass()+":"+feat, "valid statement rejected", ns.lines(t)
	case !res.Failed() && err != nil:
		v.sig, v.what, v.expected = "violating-"+st.kind+"-accepted:"+err.Error()+":"+feat, "violating statement accepted (model: "+err.Error()+")", pre
	case !res.Failed() && !core.SameStrings(ns.lines(t), actual):
		v.sig, v.what, v.expected = "wrong-effect-"+st.kind+":"+feat, "statement succeeded with contents different from the model", ns.lines(t)
	}
	if v.sig != "" {
		return v
	}
	v.commit = func(r *core.Run) {
		if err != nil {
			r.Count("reject."+err.Error(), 1)
			if st.kind == "addcheck" {
				r.Count("addcheck.rejected", 1)
			}
			r.Distinct(fmt.Sprintf("%s|fail-%s|%s", st.kind, err.Error(), feat))
			return
		}
		classify(r, h, st, ns)
		h.st = ns
		switch st.kind {
		case "addcheck":
			t.checks = append(t.checks, st.ck)
		case "dropcheck":
			var keep []*check
			for _, ck := range t.checks {
				if ck != st.ck {
					keep = append(keep, ck)
				}
			}
			t.checks = keep
		}
		r.Distinct(fmt.Sprintf("%s|ok|%s", st.kind, feat))
	}
	return v
}

// defaultKeywordInternalError is the matcher of known finding D4.
func defaultKeywordInternalError(t *table, st *stmt, res *core.Result) bool {
	if res.Err == nil || !strings.Contains(res.Err.Error(), "unable to find field with index") {
		return false
	}
	listed := map[string]bool{}
	for _, c := range st.cols {
		listed[c] = true
	}
	for _, tup := range st.tuples {
		for i, cl := range tup {
			c := t.col(st.cols[i])
			if !cl.def {
				continue
			}
			e := c.gen
			if e == nil && c.defExpr {
				e = c.def
			}
			for x := range g.ColsOf(e) {
				if !listed[x] {
					return true
				}
			}
		}
	}
	return false
}

// judgeIgnore applies the INSERT IGNORE rule: valid rows inserted exactly; violating rows skipped, or
// (only when the violation is a NULL in a NOT NULL column) stored adjusted; a warning when anything
// was skipped or adjusted. The model then follows the engine.
func judgeIgnore(h *hist, st *stmt, res *core.Result, rows []row, actual, pre []string, enforce bool) verdict {
	t := h.t
	if res.Failed() {
		return verdict{sig: "insert-ignore-failed:" + res.ErrClass(), what: "INSERT IGNORE failed", model: "OK (IGNORE downgrades constraint errors to warnings)"}
	}
	need := map[string]int{}
	for _, l := range pre {
		need[l]++
	}
	ids := map[string]bool{}
	for _, rr := range h.st.rows {
		ids[rr["id"].Canon()] = true
	}
	adjustable := map[string]bool{}
	violating := 0
	var classes []string
	for _, tup := range st.tuples {
		gv := given(st.cols, tup)
		id := gv["id"].v
		rw, err := t.build(gv, enforce)
		switch {
		case err == nil && !ids[id.Canon()]:
			need[t.line(rw)]++
			ids[id.Canon()] = true
			classes = append(classes, "valid")
		case ids[id.Canon()]:
			violating++
			classes = append(classes, "dup")
		default:
			violating++
			classes = append(classes, err.Error())
			if len(h.nullWrites(st.cols, tup)) > 0 {
				adjustable[id.Canon()] = true
			}
		}
	}
	v := verdict{model: "IGNORE rows: " + strings.Join(classes, ",")}
	have := map[string]int{}
	for _, l := range actual {
		have[l]++
	}
	for l, n := range need {
		if have[l] < n {
			v.sig, v.what = "insert-ignore-valid-row-missing", "INSERT IGNORE lost or changed a row that had to be stored unchanged: "+l
			return v
		}
	}
	adjusted := 0
	for _, rr := range rows {
		l := t.line(rr)
		if need[l] > 0 {
			need[l]--
			continue
		}
		id := rr["id"].Canon()
		if !adjustable[id] {
			v.sig, v.what = "insert-ignore-stored-violating-row", "INSERT IGNORE stored a row that is neither a valid row of the statement nor an adjustable one: "+l
			return v
		}
		adjustable[id] = false
		adjusted++
	}
	if violating > 0 && len(res.Warnings) == 0 {
		v.sig, v.what = "insert-ignore-no-warning", "INSERT IGNORE skipped or adjusted rows without a warning"
		return v
	}
	v.commit = func(r *core.Run) {
		if violating > adjusted {
			r.Count("ignore.skipped", int64(violating-adjusted))
		}
		if adjusted > 0 {
			r.Count("ignore.adjusted", int64(adjusted))
		}
		h.st = &state{rows: rows}
		r.Distinct(fmt.Sprintf("ignore|%s|%s", strings.Join(uniq(classes), "+"), features(t)))
	}
	return v
}

func uniq(a []string) []string {
	b := append([]string{}, a...)
	sort.Strings(b)
	var out []string
	for i, x := range b {
		if i == 0 || b[i-1] != x {
			out = append(out, x)
		}
	}
	return out
}

// onlyMissing: the index read lacks exactly the row addressed by the ODKU statement and has nothing extra.
func onlyMissing(detail map[string]any, st *stmt) bool {
	got, _ := detail["via_index"].([]string)
	want, _ := detail["via_scan"].([]string)
	id := ""
	for i, c := range st.cols {
		if c == "id" {
			id = st.tuples[0][i].v.Canon()
		}
	}
	have := map[string]bool{}
	for _, l := range got {
		have[l] = true
	}
	missing := 0
	for _, l := range want {
		if !have[l] {
			missing++
			if !strings.HasPrefix(l, id+"|") {
				return false
			}
		}
	}
	return missing == 1 && len(got) == len(want)-1
}

type pin struct {
	sig, what string
	setup     []string
	probe     string
	bad       func(res *core.Result) bool
}

// pinned replays the minimal witness of every known finding on every run.
func pinned(r *core.Run) {
	rowsAre := func(want ...string) func(*core.Result) bool {
		return func(res *core.Result) bool { return res.Failed() || !core.SameStrings(core.SortedRows(res.Rows), want) }
	}
	pins := []pin{
		{"virtual-column-table-check-not-enforced", "a table with a VIRTUAL generated column does not enforce its CHECK constraints (INSERT of a = 0 under CHECK (a > 0) is accepted)",
			[]string{"CREATE TABLE p1 (id INT PRIMARY KEY, a INT, g INT AS (a + 1) VIRTUAL, CONSTRAINT ck1 CHECK (a > 0))", "INSERT INTO p1 (id, a) VALUES (1, 0)"},
			"SELECT id FROM p1", func(res *core.Result) bool { return len(res.Rows) != 0 }},
		{"ignore-null-adjusted-after-check-and-generated-eval", "INSERT IGNORE of NULL into a NOT NULL column stores 0 but leaves the dependent STORED generated column NULL; UPDATE IGNORE a = NULL stores a = 0 under CHECK (a > 0)",
			[]string{"CREATE TABLE p2 (id INT PRIMARY KEY, a INT NOT NULL DEFAULT 5, g INT AS (a + 1) STORED)", "INSERT IGNORE INTO p2 (id, a) VALUES (1, NULL)"},
			"SELECT id, a, g FROM p2", func(res *core.Result) bool {
				return len(res.Rows) == 1 && core.CanonRow(res.Rows[0]) != "1|0|1" && core.CanonRow(res.Rows[0]) != "1|5|6"
			}},
		{"add-check-not-enforced-validated-against-rows", "ALTER TABLE ADD CHECK ... NOT ENFORCED is rejected because a stored row violates it",
			[]string{"CREATE TABLE p3 (id INT PRIMARY KEY, a INT)", "INSERT INTO p3 VALUES (1, 0)"},
			"ALTER TABLE p3 ADD CONSTRAINT ckx CHECK (a > 0) NOT ENFORCED", func(res *core.Result) bool { return res.Failed() }},
		{"insert-default-keyword-expr-reads-unlisted-column:internal-error", "INSERT INTO t (id, g) VALUES (1, DEFAULT) with g AS (a + 1) and a not in the column list fails with 'unable to find field with index -1'",
			[]string{"CREATE TABLE p4 (id INT PRIMARY KEY, a INT DEFAULT 3, g INT AS (a + 1) STORED)"},
			"INSERT INTO p4 (id, g) VALUES (1, DEFAULT)", func(res *core.Result) bool { return res.Failed() }},
		{"virtual-not-null-generated-column-replace-odku-error", "REPLACE / ON DUPLICATE KEY UPDATE on a table with a VIRTUAL NOT NULL generated column fail with 'invalid type: <nil>' when the key exists",
			[]string{"CREATE TABLE p5 (id INT PRIMARY KEY, a INT NOT NULL, g INT AS (a + 1) VIRTUAL NOT NULL)", "INSERT INTO p5 (id, a) VALUES (1, 1)"},
			"REPLACE INTO p5 (id, a) VALUES (1, 2)", func(res *core.Result) bool { return res.Failed() }},
		{"explicit-generated-value-in-later-tuple-stored", "multi-row INSERT whose second tuple gives an explicit value for a STORED generated column is accepted and stores that value (g = 10 for a = 2, g AS (a + 1))",
			[]string{"CREATE TABLE p6 (id INT PRIMARY KEY, a INT, g INT AS (a + 1) STORED)", "INSERT INTO p6 (id, a, g) VALUES (1, 1, DEFAULT), (2, 2, 10)"},
			"SELECT id, a, g FROM p6", func(res *core.Result) bool { return len(res.Rows) != 0 }},
		{"generated-column-evaluated-before-computed-input", "a STORED generated column defined before the base column it reads is NULL when that column is omitted and filled from an expression default (g AS (c * 2) STORED, c DEFAULT (3 + 4): g = NULL, c = 7)",
			[]string{"CREATE TABLE p7 (id INT PRIMARY KEY, g INT AS (c * 2) STORED, c INT DEFAULT (3 + 4))", "INSERT INTO p7 (id) VALUES (1)"},
			"SELECT id, g, c FROM p7", rowsAre("1|14|7")},
		{"generated-column-evaluated-before-computed-input", "INSERT INTO t (g, id, a) VALUES (DEFAULT, 2, DEFAULT) with a DEFAULT (5 + 2), g AS (a + 5) STORED stores g = NULL (g listed before a)",
			[]string{"CREATE TABLE p9 (id INT PRIMARY KEY, a INT DEFAULT (5 + 2), g INT AS (a + 5) STORED)", "INSERT INTO p9 (g, id, a) VALUES (DEFAULT, 2, DEFAULT)"},
			"SELECT id, a, g FROM p9", rowsAre("2|7|12")},
		{"generated-column-evaluated-before-computed-input", "INSERT INTO t (h, g, a, id) VALUES (DEFAULT, DEFAULT, 7, 2) with g AS (a + 1), h AS (g + 1) STORED stores h = NULL (h listed before g)",
			[]string{"CREATE TABLE p10 (id INT PRIMARY KEY, a INT, g INT AS (a + 1) STORED, h INT AS (g + 1) STORED)", "INSERT INTO p10 (h, g, a, id) VALUES (DEFAULT, DEFAULT, 7, 2)"},
			"SELECT id, a, g, h FROM p10", rowsAre("2|7|8|9")},
		{"virtual-generated-column-index-loses-row-after-odku", "after INSERT ... ON DUPLICATE KEY UPDATE s = NULL on an existing row whose s is already NULL, the row is missing from the index on a VIRTUAL generated column",
			[]string{"CREATE TABLE p8 (id INT PRIMARY KEY, a INT, s INT, g INT AS (a + 1) VIRTUAL, KEY (g))", "INSERT INTO p8 (id, a, s) VALUES (5, 10, NULL), (6, 8, 2)", "INSERT INTO p8 (id, a, s) VALUES (5, 5, 4) ON DUPLICATE KEY UPDATE s = NULL"},
			"SELECT id FROM p8 WHERE g > 0", rowsAre("5", "6")},
	}
	for _, p := range pins {
		e := core.NewEng("d")
		s := e.NewSess()
		ok := true
		for _, q := range p.setup {
			if res := s.Exec(q); res.Panic != nil || res.TimedOut {
				ok = false
			}
		}
		res := s.Exec(p.probe)
		r.Eval(1)
		r.Pinned(p.sig, p.what, ok && p.bad(res), map[string]any{"setup": p.setup, "probe": p.probe, "outcome": g.Outcome(res), "rows": core.SortedRows(res.Rows)})
		e.Close()
	}
}
