package main

import (
	"fmt"
	"sort"
	"strings"

	g "verif/harness/g9alib"
)

// ---- schema ----

type column struct {
	name      string
	str       bool // VARCHAR(8) instead of INT
	notNull   bool
	def       g.Expr // nil: no DEFAULT clause
	defExpr   bool   // default is a parenthesised expression
	gen       g.Expr // nil: base column
	virtual   bool   // generated column is VIRTUAL (else STORED)
	indexed   bool
	indexDead bool // known finding D8 hit: this column's index is no longer probed
}

type check struct {
	name     string
	e        g.Expr
	enforced bool
}

type table struct {
	cols   []*column // cols[0] is `id INT PRIMARY KEY`
	checks []*check
}

func (t *table) col(name string) *column {
	for _, c := range t.cols {
		if c.name == name {
			return c
		}
	}
	return nil
}

func (t *table) colNames() []string {
	out := make([]string, len(t.cols))
	for i, c := range t.cols {
		out[i] = c.name
	}
	return out
}

func (t *table) hasVirtual() bool {
	for _, c := range t.cols {
		if c.gen != nil && c.virtual {
			return true
		}
	}
	return false
}

// dependents reports whether an enforced CHECK or a generated column reads the column (directly,
// or through a generated column).
func (t *table) dependents(name string) bool {
	reach := map[string]bool{name: true}
	for changed := true; changed; {
		changed = false
		for _, c := range t.cols {
			if c.gen == nil || reach[c.name] {
				continue
			}
			for x := range g.ColsOf(c.gen) {
				if reach[x] {
					reach[c.name] = true
					changed = true
				}
			}
		}
	}
	if len(reach) > 1 {
		return true
	}
	for _, ck := range t.checks {
		if !ck.enforced {
			continue
		}
		for x := range g.ColsOf(ck.e) {
			if reach[x] {
				return true
			}
		}
	}
	return false
}

func (t *table) createSQL() string {
	var parts []string
	for i, c := range t.cols {
		typ := "INT"
		if c.str {
			typ = "VARCHAR(8)"
		}
		d := g.Q(c.name) + " " + typ
		switch {
		case i == 0:
			d += " PRIMARY KEY"
		case c.gen != nil:
			d += " AS " + paren(c.gen.SQL())
			if c.virtual {
				d += " VIRTUAL"
			} else {
				d += " STORED"
			}
			if c.notNull {
				d += " NOT NULL"
			}
		default:
			if c.notNull {
				d += " NOT NULL"
			}
			if c.def != nil {
				if c.defExpr {
					d += " DEFAULT " + paren(c.def.SQL())
				} else {
					d += " DEFAULT " + c.def.SQL()
				}
			}
		}
		parts = append(parts, d)
	}
	for _, c := range t.cols {
		if c.indexed {
			parts = append(parts, "KEY "+g.Q("ix_"+c.name)+" ("+g.Q(c.name)+")")
		}
	}
	for _, ck := range t.checks {
		parts = append(parts, checkClause(ck))
	}
	return "CREATE TABLE t (" + strings.Join(parts, ", ") + ")"
}

func paren(s string) string {
	if strings.HasPrefix(s, "(") && strings.HasSuffix(s, ")") {
		return s
	}
	return "(" + s + ")"
}

func checkClause(ck *check) string {
	s := "CONSTRAINT " + g.Q(ck.name) + " CHECK " + paren(ck.e.SQL())
	if !ck.enforced {
		s += " NOT ENFORCED"
	}
	return s
}

// ---- rows ----

type row map[string]g.V

func (t *table) line(r row) string {
	vals := make([]g.V, len(t.cols))
	for i, c := range t.cols {
		vals[i] = r[c.name]
	}
	return g.CanonRow(vals)
}

type state struct{ rows []row }

func (s *state) clone() *state {
	out := &state{}
	for _, r := range s.rows {
		c := row{}
		for k, v := range r {
			c[k] = v
		}
		out.rows = append(out.rows, c)
	}
	return out
}

func (s *state) lines(t *table) []string {
	out := make([]string, len(s.rows))
	for i, r := range s.rows {
		out[i] = t.line(r)
	}
	sort.Strings(out)
	return out
}

func (s *state) byID(id g.V) int {
	for i, r := range s.rows {
		if r["id"].Equal(id) {
			return i
		}
	}
	return -1
}

type merr struct{ class string }

func (e *merr) Error() string { return e.class }

// cell is what an INSERT supplies for a column: a value or the DEFAULT keyword.
type cell struct {
	v   g.V
	def bool
}

// finish computes generated columns and validates a row whose base columns are set.
func (t *table) finish(r row, enforce bool) error {
	for _, c := range t.cols {
		if c.gen == nil && c.notNull && r[c.name].IsNull() {
			return &merr{"notnull"}
		}
	}
	for _, c := range t.cols {
		if c.gen != nil {
			r[c.name] = c.gen.Eval(r)
			if c.notNull && r[c.name].IsNull() {
				return &merr{"notnull"}
			}
		}
	}
	if enforce {
		for _, ck := range t.checks {
			if ck.enforced && g.Truth(ck.e.Eval(r)) == 0 {
				return &merr{"check"}
			}
		}
	}
	return nil
}

// build makes the row an INSERT of the given cells stores. nullAdjust lists NOT NULL columns that
// received NULL (what INSERT IGNORE may adjust).
func (t *table) build(given map[string]cell, enforce bool) (row, error) {
	r := row{}
	for _, c := range t.cols {
		cl, ok := given[c.name]
		if c.gen != nil {
			if ok && !cl.def {
				return nil, &merr{"gen-value"}
			}
			continue
		}
		switch {
		case ok && !cl.def:
			r[c.name] = cl.v
		case c.def != nil:
			r[c.name] = c.def.Eval(r)
		case !c.notNull:
			r[c.name] = g.Null
		default:
			return nil, &merr{"no-default"}
		}
	}
	if err := t.finish(r, enforce); err != nil {
		return nil, err
	}
	return r, nil
}

// ---- statements ----

type assign struct {
	col string
	e   g.Expr // nil: DEFAULT keyword
}

type stmt struct {
	kind   string // insert | ignore | replace | odku | update | delete | addcheck | dropcheck
	cols   []string
	tuples [][]cell
	where  g.Expr
	sets   []assign
	ck     *check
	sql    string
	// genDefault: the SET list starts with `<generated column> = DEFAULT`
	genDefault bool
}

func renderInsert(verb string, s *stmt) string {
	var tuples []string
	for _, tup := range s.tuples {
		parts := make([]string, len(tup))
		for i, c := range tup {
			if c.def {
				parts[i] = "DEFAULT"
			} else {
				parts[i] = c.v.SQL()
			}
		}
		tuples = append(tuples, "("+strings.Join(parts, ", ")+")")
	}
	q := fmt.Sprintf("%s INTO t (%s) VALUES %s", verb, g.QuoteList(s.cols), strings.Join(tuples, ", "))
	if s.kind == "odku" {
		var parts []string
		for _, a := range s.sets {
			parts = append(parts, g.Q(a.col)+" = "+a.e.SQL())
		}
		q += " ON DUPLICATE KEY UPDATE " + strings.Join(parts, ", ")
	}
	return q
}

func (s *stmt) render() string {
	switch s.kind {
	case "insert", "odku":
		return renderInsert("INSERT", s)
	case "ignore":
		return renderInsert("INSERT IGNORE", s)
	case "replace":
		return renderInsert("REPLACE", s)
	case "update":
		var parts []string
		for _, a := range s.sets {
			if a.e == nil {
				parts = append(parts, g.Q(a.col)+" = DEFAULT")
			} else {
				parts = append(parts, g.Q(a.col)+" = "+a.e.SQL())
			}
		}
		q := "UPDATE t SET " + strings.Join(parts, ", ")
		if s.where != nil {
			q += " WHERE " + s.where.SQL()
		}
		return q
	case "delete":
		q := "DELETE FROM t"
		if s.where != nil {
			q += " WHERE " + s.where.SQL()
		}
		return q
	case "addcheck":
		return "ALTER TABLE t ADD " + checkClause(s.ck)
	case "dropcheck":
		return "ALTER TABLE t DROP CHECK " + g.Q(s.ck.name)
	}
	return ""
}

func given(cols []string, tup []cell) map[string]cell {
	m := map[string]cell{}
	for i, c := range cols {
		m[c] = tup[i]
	}
	return m
}

// applyUpdate computes the new version of one row.
func (t *table) applyUpdate(old row, sets []assign, enforce bool) (row, error) {
	nr := row{}
	for k, v := range old {
		nr[k] = v
	}
	for _, a := range sets {
		c := t.col(a.col)
		if c.gen != nil {
			if a.e == nil {
				continue // SET g = DEFAULT on a generated column is legal and changes nothing by itself
			}
			return nil, &merr{"gen-value"}
		}
		switch {
		case a.e != nil:
			nr[a.col] = a.e.Eval(old)
		case c.def != nil:
			nr[a.col] = c.def.Eval(old)
		case !c.notNull:
			nr[a.col] = g.Null
		default:
			return nil, &merr{"no-default"}
		}
	}
	if err := t.finish(nr, enforce); err != nil {
		return nil, err
	}
	return nr, nil
}

// apply returns the state after the statement, or an error ("statement fails without effect").
// INSERT IGNORE is not handled here (see judgeIgnore).
func (t *table) apply(st *state, s *stmt, enforce bool) (*state, error) {
	ns := st.clone()
	switch s.kind {
	case "insert", "replace", "odku":
		for _, tup := range s.tuples {
			r, err := t.build(given(s.cols, tup), enforce)
			if err != nil {
				return nil, err
			}
			if k := ns.byID(r["id"]); k >= 0 {
				switch s.kind {
				case "insert":
					return nil, &merr{"dup"}
				case "replace":
					ns.rows = append(ns.rows[:k], ns.rows[k+1:]...)
					ns.rows = append(ns.rows, r)
				case "odku":
					nr, err := t.applyUpdate(ns.rows[k], s.sets, enforce)
					if err != nil {
						return nil, err
					}
					ns.rows[k] = nr
				}
				continue
			}
			ns.rows = append(ns.rows, r)
		}
	case "update":
		for _, a := range s.sets {
			if t.col(a.col).gen != nil && a.e != nil {
				return nil, &merr{"gen-value"}
			}
		}
		for k, r := range ns.rows {
			if s.where != nil && g.Truth(s.where.Eval(r)) != 1 {
				continue
			}
			nr, err := t.applyUpdate(r, s.sets, enforce)
			if err != nil {
				return nil, err
			}
			ns.rows[k] = nr
		}
	case "delete":
		var keep []row
		for _, r := range ns.rows {
			if s.where != nil && g.Truth(s.where.Eval(r)) != 1 {
				keep = append(keep, r)
			}
		}
		ns.rows = keep
	case "addcheck":
		if s.ck.enforced {
			for _, r := range ns.rows {
				if g.Truth(s.ck.e.Eval(r)) == 0 {
					return nil, &merr{"check"}
				}
			}
		}
	}
	return ns, nil
}
