package main

import (
	"fmt"
	"strings"

	"verif/harness/core"
)

// enumRedefinitions: MODIFY COLUMN from one ENUM to another that keeps every member in use - members
// appended, inserted in front of or between existing ones, permuted, unused members dropped. Every row must
// keep its member (read as text), and equality filters on each member must select the same ids before and
// after. Stored ENUM values are ordinals, so a redefinition that moves members has to remap the rows.
func enumRedefinitions(r *core.Run) {
	n := r.N(40, 800)
	pool := []string{"low", "mid", "high", "top", "x", "y", "z", "none"}
	r.Parallel("enum-redef", n, func(i int) {
		rnd := r.Rand("enum-redef", i)
		e := core.NewEng("d")
		defer e.Close()
		s := e.NewSess()
		perm := rnd.Perm(len(pool))
		k := 2 + rnd.Intn(4)
		var members []string
		for _, p := range perm[:k] {
			members = append(members, pool[p])
		}
		spare := []string{}
		for _, p := range perm[k:] {
			spare = append(spare, pool[p])
		}
		q := func(ms []string) string { return "ENUM('" + strings.Join(ms, "','") + "')" }
		nullable := rnd.Intn(2) == 0
		colDef := q(members)
		s.MustExec(fmt.Sprintf("CREATE TABLE et (id INT PRIMARY KEY, e %s, v INT)", colDef))
		used := map[string]bool{}
		rows := 3 + rnd.Intn(6)
		for id := 1; id <= rows; id++ {
			m := members[rnd.Intn(len(members))]
			lit := "'" + m + "'"
			if nullable && rnd.Intn(5) == 0 {
				lit = "NULL"
			} else {
				used[m] = true
			}
			s.MustExec(fmt.Sprintf("INSERT INTO et VALUES (%d, %s, %d)", id, lit, id*10))
		}
		snapshot := func() []string {
			return core.SortedRows(s.Exec("SELECT id, CAST(e AS CHAR), v FROM et").Rows)
		}
		for step := 0; step < 3; step++ {
			before := snapshot()
			var next []string
			kind := ""
			switch rnd.Intn(4) {
			case 0:
				kind = "append"
				next = append(append([]string{}, members...), spare[0])
				spare = spare[1:]
			case 1:
				kind = "insert-before"
				pos := rnd.Intn(len(members))
				next = append(append(append([]string{}, members[:pos]...), spare[0]), members[pos:]...)
				spare = spare[1:]
			case 2:
				kind = "permute"
				next = append([]string{}, members...)
				rnd.Shuffle(len(next), func(a, b int) { next[a], next[b] = next[b], next[a] })
			default:
				kind = "drop-unused"
				for _, m := range members {
					if used[m] || len(next) == 0 && m == members[len(members)-1] {
						next = append(next, m)
					}
				}
				if len(next) == len(members) {
					kind = "same"
				}
			}
			if len(spare) == 0 {
				break
			}
			alter := fmt.Sprintf("ALTER TABLE et MODIFY COLUMN e %s", q(next))
			res := s.Exec(alter)
			if res.Panic != nil {
				r.Violation(res.Panic.Sig(), map[string]any{"create": colDef, "alter": alter, "panic": res.Panic.Value})
				return
			}
			r.Eval(1)
			r.Count("enum-redef.alters", 1)
			after := snapshot()
			if res.Failed() {
				// every member in use is kept, so the ALTER has no reason to fail; if it does it must at least have no effect
				r.Count("enum-redef.alter-failed", 1)
				if !core.SameStrings(before, after) {
					r.Violation("enum-redef:failed-alter-changed-rows:"+kind, map[string]any{"from": q(members), "alter": alter, "error": fmt.Sprint(res.Err), "before": before, "after": after})
					return
				}
				continue
			}
			if !core.SameStrings(before, after) {
				r.Violation("enum-redef:rows-read-as-other-members:"+kind, map[string]any{"from": q(members), "alter": alter, "before": before, "after": after})
				return
			}
			for _, m := range next {
				got := core.SortedRows(s.Exec(fmt.Sprintf("SELECT id FROM et WHERE e = '%s'", m)).Rows)
				var want []string
				for _, row := range before {
					parts := strings.Split(row, "|")
					if parts[1] == "'"+m+"'" {
						want = append(want, parts[0])
					}
				}
				if !core.SameStrings(got, want) {
					r.Violation("enum-redef:member-filter-selects-other-rows:"+kind, map[string]any{"from": q(members), "alter": alter, "member": m, "ids": got, "expected_ids": want})
					return
				}
			}
			r.Distinct(fmt.Sprintf("enum-redef|%s|members=%d->%d", kind, len(members), len(next)))
			members = next
			if i == 0 && step == 0 {
				r.Sample(map[string]any{"law": "enum-redefinition", "alter": alter, "rows": before})
			}
		}
	})
	r.Floor(r.Counter("enum-redef.alters") > 0, "no ENUM redefinition was executed")
}
