package main

import (
	"fmt"
	"math/big"
	"math/rand"
	"strings"

	g "verif/harness/g9alib"
)

type hist struct {
	t    *mtable
	rnd  *rand.Rand
	ncol int
	nidx int
	nren int
}

var intTypes = []typ{
	{kind: "int", bits: 8}, {kind: "int", bits: 8, unsigned: true}, {kind: "int", bits: 16}, {kind: "int", bits: 16, unsigned: true},
	{kind: "int", bits: 32}, {kind: "int", bits: 32, unsigned: true}, {kind: "int", bits: 64},
}
var strTypes = []typ{{kind: "str", n: 2}, {kind: "str", n: 4}, {kind: "str", n: 8}, {kind: "str", n: 16}}
var decTypes = []typ{{kind: "dec", p: 4, s: 1}, {kind: "dec", p: 6, s: 2}, {kind: "dec", p: 8, s: 3}, {kind: "dec", p: 5, s: 0}, {kind: "dec", p: 10, s: 4}}

func (h *hist) randType() typ {
	switch p := h.rnd.Intn(100); {
	case p < 50:
		return intTypes[h.rnd.Intn(len(intTypes))]
	case p < 78:
		return strTypes[h.rnd.Intn(len(strTypes))]
	}
	return decTypes[h.rnd.Intn(len(decTypes))]
}

var words = []string{"a", "b", "ab", "x1", "12", "-5", "7", "300", "007", "1e2", "abc", "zz", "hello", "70000", "longerword", "q", "-128", "0", "4.5", "mno"}

// value draws a value that fits the type (small pool so that duplicates and boundary cases occur).
func (h *hist) value(t typ) g.V {
	switch t.kind {
	case "int":
		lo, hi := t.intRange()
		cands := []int64{0, 1, 2, 3, 5, 7, 12, 100, 127, 128, 200, 255, 256, 300, 1000, 32767, 40000, 65535, 70000, -1, -5, -128, -129, -300}
		for try := 0; try < 8; try++ {
			v := big.NewInt(cands[h.rnd.Intn(len(cands))])
			if v.Cmp(lo) >= 0 && v.Cmp(hi) <= 0 {
				return g.BigInt(v)
			}
		}
		if h.rnd.Intn(2) == 0 {
			return g.BigInt(hi)
		}
		return g.BigInt(lo)
	case "str":
		for try := 0; try < 8; try++ {
			w := words[h.rnd.Intn(len(words))]
			if len(w) <= t.n {
				return g.Str(w)
			}
		}
		return g.Str("a")
	}
	// decimal: an integer part within range, a fraction of at most s digits, often ending in 5
	scale := new(big.Int).Exp(big.NewInt(10), big.NewInt(int64(t.s)), nil)
	intMax := new(big.Int).Exp(big.NewInt(10), big.NewInt(int64(t.p-t.s)), nil).Int64()
	ip := []int64{0, 1, 2, 9, 10, 12, 99, 100, 999}[h.rnd.Intn(9)] % intMax
	fr := int64(0)
	if t.s > 0 {
		fr = []int64{0, 5, 25, 45, 50, 55, 95, 125, 995, 5555}[h.rnd.Intn(10)] % scale.Int64()
	}
	num := new(big.Int).Add(new(big.Int).Mul(big.NewInt(ip), scale), big.NewInt(fr))
	if h.rnd.Intn(100) < 25 {
		num.Neg(num)
	}
	return g.Dec(new(big.Rat).SetFrac(num, scale))
}

// badValue draws a value of the right family that does not fit the type.
func (h *hist) badValue(t typ) (g.V, bool) {
	switch t.kind {
	case "int":
		lo, hi := t.intRange()
		if t.bits == 64 {
			return g.Null, false
		}
		if h.rnd.Intn(2) == 0 {
			return g.BigInt(new(big.Int).Add(hi, big.NewInt(1))), true
		}
		return g.BigInt(new(big.Int).Sub(lo, big.NewInt(1))), true
	case "str":
		return g.Str(strings.Repeat("w", t.n+1)), true
	}
	return g.BigInt(new(big.Int).Exp(big.NewInt(10), big.NewInt(int64(t.p-t.s)), nil)), true
}

func (h *hist) defaultFor(t typ) *g.V {
	if h.rnd.Intn(100) < 55 {
		return nil
	}
	var v g.V
	switch t.kind {
	case "int":
		v = g.Int(int64(h.rnd.Intn(100)))
	case "str":
		w := []string{"d", "dd"}[h.rnd.Intn(2)]
		v = g.Str(w[:min(t.n, len(w))])
	default:
		v = g.Dec(big.NewRat(int64(h.rnd.Intn(18)), 2)) // halves: representable at every palette scale >= 1
		if t.s == 0 {
			v = g.Dec(big.NewRat(int64(h.rnd.Intn(9)), 1))
		}
	}
	return &v
}

func (h *hist) newColName() string {
	h.ncol++
	return fmt.Sprintf("c%d", h.ncol)
}

func (h *hist) genTable() (*mtable, []string) {
	t := &mtable{name: "t"}
	h.t = t
	t.cols = append(t.cols, &mcol{name: "id", t: typ{kind: "int", bits: 32}})
	n := 2 + h.rnd.Intn(3)
	for i := 0; i < n; i++ {
		ty := h.randType()
		t.cols = append(t.cols, &mcol{name: h.newColName(), t: ty, nullable: h.rnd.Intn(100) < 70, def: h.defaultFor(ty)})
	}
	switch p := h.rnd.Intn(100); {
	case p < 60:
		t.pk = []string{"id"}
	case p < 75:
		c := t.cols[1+h.rnd.Intn(n)]
		c.nullable = false
		t.pk = []string{"id", c.name}
	}
	nix := 0
	if h.rnd.Intn(100) < 45 {
		nix = 1 + h.rnd.Intn(2)
	}
	for i := 0; i < nix; i++ {
		h.nidx++
		ix := &mindex{name: fmt.Sprintf("ix%d", h.nidx), unique: h.rnd.Intn(100) < 35}
		ix.cols = []string{t.cols[1+h.rnd.Intn(n)].name}
		if h.rnd.Intn(100) < 35 {
			o := t.cols[h.rnd.Intn(n+1)].name
			if o != ix.cols[0] {
				ix.cols = append(ix.cols, o)
			}
		}
		t.idx = append(t.idx, ix)
	}
	return t, []string{t.createSQL()}
}

func (h *hist) freshID() g.V {
	used := map[string]bool{}
	idAt := h.t.colIndex("id")
	for _, r := range h.t.rows {
		used[r[idAt].Canon()] = true
	}
	for try := 0; try < 20; try++ {
		v := g.Int(int64(1 + h.rnd.Intn(30)))
		if !used[v.Canon()] {
			return v
		}
	}
	return g.Int(int64(31 + h.rnd.Intn(1000)))
}

func (h *hist) existingID() (g.V, bool) {
	if len(h.t.rows) == 0 {
		return g.Null, false
	}
	return h.t.rows[h.rnd.Intn(len(h.t.rows))][h.t.colIndex("id")], true
}

func (h *hist) genInsert(wantValid bool) *dml {
	d := &dml{kind: "insert"}
	for _, c := range h.t.cols {
		switch {
		case c.name == "id":
			d.row = append(d.row, h.freshID())
		case c.nullable && h.rnd.Intn(100) < 15:
			d.row = append(d.row, g.Null)
		case !wantValid && !c.nullable && h.rnd.Intn(100) < 6:
			d.row = append(d.row, g.Null)
		default:
			d.row = append(d.row, h.value(c.t))
		}
	}
	return d
}

func (h *hist) genDML() *dml {
	p := h.rnd.Intn(100)
	if len(h.t.rows) < 3 {
		p = 0
	}
	if h.t.colIndex("id") < 0 {
		return nil
	}
	switch {
	case p < 55 || len(h.t.cols) < 2:
		return h.genInsert(false)
	case p < 85:
		id, ok := h.existingID()
		if !ok {
			return h.genInsert(false)
		}
		var cands []*mcol
		for _, c := range h.t.cols {
			if c.name != "id" {
				cands = append(cands, c)
			}
		}
		c := cands[h.rnd.Intn(len(cands))]
		d := &dml{kind: "update", col: c.name, id: id, val: h.value(c.t)}
		switch q := h.rnd.Intn(100); {
		case q < 12:
			d.val = g.Null
		}
		return d
	}
	id, ok := h.existingID()
	if !ok {
		return h.genInsert(false)
	}
	return &dml{kind: "delete", id: id}
}

func (h *hist) otherCols() []*mcol {
	var out []*mcol
	for _, c := range h.t.cols {
		if c.name != "id" {
			out = append(out, c)
		}
	}
	return out
}

// Domain exclusion (known finding reposition-then-add-unique-index-uses-stale-positions): FIRST / AFTER
// are generated only when noMove is false (hunt mode); the registered streams do not move columns.
var noMove = true

func (h *hist) position(exclude string) (string, string) {
	if noMove {
		return "", ""
	}
	switch p := h.rnd.Intn(100); {
	case p < 55:
		return "", ""
	case p < 70:
		return "FIRST", ""
	}
	var cands []string
	for _, c := range h.t.cols {
		if c.name != exclude {
			cands = append(cands, c.name)
		}
	}
	if len(cands) == 0 {
		return "", ""
	}
	return "AFTER", cands[h.rnd.Intn(len(cands))]
}

// targetType picks the new type of a MODIFY: the conversion pairs listed in the C21 plan.
func (h *hist) targetType(from typ) typ {
	p := h.rnd.Intn(100)
	switch from.kind {
	case "int":
		switch {
		case p < 55:
			return intTypes[h.rnd.Intn(len(intTypes))]
		case p < 80:
			return strTypes[h.rnd.Intn(len(strTypes))]
		}
		return decTypes[h.rnd.Intn(len(decTypes))]
	case "str":
		switch {
		case p < 60:
			return strTypes[h.rnd.Intn(len(strTypes))]
		case p < 92:
			return intTypes[h.rnd.Intn(len(intTypes))]
		}
		return decTypes[h.rnd.Intn(len(decTypes))]
	}
	switch {
	case p < 60:
		return decTypes[h.rnd.Intn(len(decTypes))]
	case p < 92:
		return intTypes[h.rnd.Intn(len(intTypes))]
	}
	return strTypes[h.rnd.Intn(len(strTypes))]
}

// Domain exclusion (known finding alter-reshape-leaves-stale-secondary-index-metadata): ALTERs that
// shift the ordinal position of a column covered by a secondary index, or that change / drop a member
// of a multi-column secondary index, are outside the core domain.
func (h *hist) lastIndexedPos() int {
	last := -1
	for _, ix := range h.t.idx {
		for _, x := range ix.cols {
			if p := h.t.colIndex(x); p > last {
				last = p
			}
		}
	}
	return last
}

func (h *hist) inMultiColIndex(col string) bool {
	for _, ix := range h.t.idx {
		if len(ix.cols) < 2 {
			continue
		}
		for _, x := range ix.cols {
			if x == col {
				return true
			}
		}
	}
	return false
}

// shapeOK: column-shape ALTERs (ADD COLUMN with FIRST/AFTER, DROP / MODIFY / CHANGE / RENAME COLUMN)
// are in the core domain only while the table has no secondary index and no composite primary key
// (known finding alter-reshape-leaves-stale-key-metadata, via=domain).
func (h *hist) shapeOK() bool { return len(h.t.idx) == 0 && len(h.t.pk) <= 1 }

func (h *hist) genClause() *clause {
	t := h.t
	others := h.otherCols()
	p := h.rnd.Intn(100)
	if !h.shapeOK() {
		// only: ADD COLUMN at the end, key / index changes, RENAME TABLE
		switch {
		case p < 20:
			ty := h.randType()
			return &clause{kind: "add", nc: &mcol{name: h.newColName(), t: ty, nullable: h.rnd.Intn(100) < 55, def: h.defaultFor(ty)}}
		case p < 27:
			p = 66 + h.rnd.Intn(8) // addpk
		case p < 42:
			p = 74 + h.rnd.Intn(6) // droppk
		case p < 60:
			p = 80 + h.rnd.Intn(10) // addidx
		case p < 92:
			p = 90 + h.rnd.Intn(5) // dropidx
		default:
			p = 95
		}
	}
	switch {
	case p < 17:
		ty := h.randType()
		nc := &mcol{name: h.newColName(), t: ty, nullable: h.rnd.Intn(100) < 55, def: h.defaultFor(ty)}
		pos, after := h.position("")
		if pos == "FIRST" && h.lastIndexedPos() >= 0 {
			pos = ""
		}
		if pos == "AFTER" && t.colIndex(after) < h.lastIndexedPos() {
			pos, after = "", ""
		}
		return &clause{kind: "add", nc: nc, pos: pos, after: after}
	case p < 27:
		if len(others) == 0 {
			return nil
		}
		c := others[h.rnd.Intn(len(others))]
		if h.inMultiColIndex(c.name) {
			return nil
		}
		if lp := h.lastIndexedPos(); t.colIndex(c.name) < lp {
			return nil // dropping it would shift an indexed column
		}
		return &clause{kind: "drop", col: c.name}
	case p < 60:
		if len(others) == 0 {
			return nil
		}
		c := others[h.rnd.Intn(len(others))]
		if h.inMultiColIndex(c.name) {
			return nil
		}
		nc := &mcol{name: c.name, t: c.t, nullable: c.nullable, def: c.def}
		switch q := h.rnd.Intn(100); {
		case q < 70:
			nc.t = h.targetType(c.t)
			nc.def = h.defaultFor(nc.t)
		case q < 85:
			nc.nullable = !c.nullable
		}
		if h.rnd.Intn(100) < 20 {
			nc.nullable = h.rnd.Intn(2) == 0
		}
		if t.inPK(c.name) {
			nc.nullable = false
		}
		cl := &clause{kind: "modify", col: c.name, nc: nc}
		keyed := t.inPK(c.name)
		for _, ix := range t.idx {
			for _, x := range ix.cols {
				if x == c.name {
					keyed = true
				}
			}
		}
		if h.rnd.Intn(100) < 25 {
			nc.name = h.newColName()
			if keyed {
				// domain exclusion (known finding change-rename-of-key-column-with-rewrite): renaming a key /
				// indexed column through CHANGE is generated only as a pure rename
				nc.t, nc.nullable, nc.def = c.t, c.nullable, c.def
				return cl
			}
		} else if h.rnd.Intn(100) < 15 {
			cl.useChange = true
		}
		// domain exclusion (known finding reposition-leaves-stale-index-field-positions): MODIFY/CHANGE
		// ... FIRST/AFTER only on tables without secondary indexes
		if len(t.idx) == 0 {
			cl.pos, cl.after = h.position(c.name)
		}
		return cl
	case p < 66:
		if len(others) == 0 {
			return nil
		}
		return &clause{kind: "rename", col: others[h.rnd.Intn(len(others))].name, newName: h.newColName()}
	case p < 74:
		cols := []string{"id"}
		if h.rnd.Intn(100) < 50 && len(others) > 0 {
			c := others[h.rnd.Intn(len(others))].name
			if h.rnd.Intn(2) == 0 {
				cols = []string{c}
			} else {
				cols = append(cols, c)
			}
		}
		return &clause{kind: "addpk", cols: cols}
	case p < 80:
		return &clause{kind: "droppk"}
	case p < 90:
		h.nidx++
		cl := &clause{kind: "addidx", ixname: fmt.Sprintf("ix%d", h.nidx), unique: h.rnd.Intn(100) < 45}
		c := t.cols[h.rnd.Intn(len(t.cols))].name
		cl.cols = []string{c}
		if h.rnd.Intn(100) < 35 {
			o := t.cols[h.rnd.Intn(len(t.cols))].name
			if o != c {
				cl.cols = append(cl.cols, o)
			}
		}
		return cl
	case p < 95:
		if len(t.idx) == 0 || h.rnd.Intn(100) < 10 {
			return &clause{kind: "dropidx", ixname: "nosuchix"}
		}
		return &clause{kind: "dropidx", ixname: t.idx[h.rnd.Intn(len(t.idx))].name}
	}
	if len(t.idx) > 0 {
		return nil // domain exclusion (known finding secondary-index-not-maintained-after-table-rename)
	}
	h.nren++
	return &clause{kind: "renametable", newName: fmt.Sprintf("t_r%d", h.nren)}
}

type alter struct {
	clauses []*clause
	asRenameTable bool // RENAME TABLE a TO b instead of ALTER TABLE a RENAME TO b
}

func (a *alter) sql(t *mtable) string {
	if a.asRenameTable {
		return "RENAME TABLE " + g.Q(t.name) + " TO " + g.Q(a.clauses[0].newName)
	}
	parts := make([]string, len(a.clauses))
	for i, c := range a.clauses {
		parts[i] = c.sql()
	}
	return "ALTER TABLE " + g.Q(t.name) + " " + strings.Join(parts, ", ")
}

func (h *hist) genAlter() *alter {
	for try := 0; try < 10; try++ {
		c := h.genClause()
		if c == nil {
			continue
		}
		a := &alter{clauses: []*clause{c}}
		if c.kind == "renametable" {
			a.asRenameTable = h.rnd.Intn(2) == 0
			return a
		}
		// two independent clauses in one statement (atomicity of a failing second clause)
		if c.kind == "add" && c.pos == "" && h.rnd.Intn(100) < 45 {
			for k := 0; k < 5; k++ {
				c2 := h.genClause()
				if c2 != nil && c2.kind == "modify" && c2.pos == "" && c2.nc.name == c2.col {
					a.clauses = append(a.clauses, c2)
					break
				}
			}
		}
		return a
	}
	return nil
}
