// C21 — schema changes preserve existing data.
//
// Histories of ALTER TABLE (ADD / DROP / MODIFY / CHANGE / RENAME COLUMN with FIRST / AFTER,
// ADD / DROP PRIMARY KEY, ADD / DROP [UNIQUE] INDEX, RENAME TABLE, two-clause ALTERs) interleaved
// with INSERT / UPDATE / DELETE, on generated tables (integer widths and signedness, VARCHAR(n),
// DECIMAL(p,s); with and without primary key; secondary and unique indexes). After every statement
// the harness reads back, order-normalised:
//   - SELECT * (column names in order, all rows)            vs. the reference model,
//   - DESCRIBE, information_schema.COLUMNS and .STATISTICS  vs. the model's schema,
//   - every indexed column through a range predicate        vs. the scan.
// The model converts stored values with the reference conversion for the pairs whose MySQL result
// is certain (integer widening/narrowing/sign change with range check, INT<->DECIMAL and
// DECIMAL scale change with round-half-away-from-zero, INT->VARCHAR, VARCHAR of canonical integer
// text->INT, VARCHAR length change, NULL->NOT NULL): the ALTER must fail exactly when a value is
// not representable / a key would be violated, a failed ALTER must leave rows and all metadata
// unchanged, a successful one must leave exactly the converted rows. Other conversions
// (non-numeric text->number, DECIMAL->VARCHAR, VARCHAR->DECIMAL) are judged weakly: row count and
// every other column preserved per id and the new schema reported, or failed without effect.
package main

import (
	"fmt"
	"os"
	"sort"
	"strings"

	"verif/harness/core"
	g "verif/harness/g9alib"
)

func main() {
	r := core.NewRun("C21", "exploration",
		"one evaluation = one statement of a generated ALTER/DML history judged against a typed table model (rows after reference conversion, column order, DESCRIBE, information_schema.COLUMNS/STATISTICS, index reads = scan, failed statement = no change); distinct = (clause kind, conversion pair or key shape, outcome)")
	r.Fold(8, 3)
	r.Assume("reference conversions only where MySQL's strict-mode result is certain; text->number for non-canonical text, DECIMAL->VARCHAR and VARCHAR->DECIMAL are judged on: statement failed without effect, or row count + all other columns preserved + new schema reported")
	r.Assume("string data is lower-case ASCII without trailing spaces (collations play no role); DESCRIBE's Key column is compared for PRI only")
	n := r.N(300, 4000)
	if c := os.Getenv("VERIF_CASE"); c != "" {
		var k int
		fmt.Sscan(c, &k)
		runCase(r, k)
		r.Finish()
	}
	r.Parallel("hist", n, func(i int) { runCase(r, i) })
	enumRedefinitions(r)
	pinned(r)
	for _, f := range []string{"alter.ok", "alter.fail", "conv.ok-changed", "conv.fail", "conv.weak", "fail.duplicate-key", "index-probes", "alter.two-clause-fail"} {
		r.Floor(r.Counter(f) > 0, "never observed: "+f)
	}
	r.Finish()
}

type step struct {
	SQL      string `json:"sql"`
	Outcome  string `json:"engine"`
	Expected string `json:"model"`
}

type witness struct {
	Case     int      `json:"case"`
	Seed     int64    `json:"seed"`
	Stream   int64    `json:"stream"`
	Steps    []step   `json:"steps"`
	What     string   `json:"what"`
	Expected []string `json:"expected,omitempty"`
	Actual   []string `json:"actual,omitempty"`
}

// snapshot is everything observable about the table.
type snapshot struct {
	cols    []string
	rows    [][]string
	desc    []string
	iscols  []string
	stats   []string
	err     string
}

func observe(s *core.Sess, name string) *snapshot {
	sn := &snapshot{}
	res := s.Exec("SELECT * FROM " + g.Q(name))
	if res.Failed() {
		sn.err = "SELECT * failed: " + g.Outcome(res)
		return sn
	}
	for _, c := range res.Schema {
		sn.cols = append(sn.cols, c.Name)
	}
	for _, row := range res.Rows {
		cells := make([]string, len(row))
		for i, v := range row {
			cells[i] = core.Canon(v)
		}
		sn.rows = append(sn.rows, cells)
	}
	sort.Slice(sn.rows, func(a, b int) bool { return strings.Join(sn.rows[a], "|") < strings.Join(sn.rows[b], "|") })
	res = s.Exec("DESCRIBE " + g.Q(name))
	if res.Failed() {
		sn.err = "DESCRIBE failed: " + g.Outcome(res)
		return sn
	}
	for _, row := range res.Rows {
		pri := "-"
		if core.Canon(row[3]) == "'PRI'" {
			pri = "PRI"
		}
		def := core.Canon(row[4])
		if strings.HasPrefix(def, "''") && strings.HasSuffix(def, "''") && len(def) >= 4 {
			def = def[1 : len(def)-1] // the engine's DESCRIBE quotes string defaults ('dd' instead of dd): not this property's business
		}
		sn.desc = append(sn.desc, fmt.Sprintf("%s|%s|%s|%s|%s", core.Canon(row[0]), core.Canon(row[1]), core.Canon(row[2]), pri, def))
	}
	res = s.Exec("SELECT COLUMN_NAME, ORDINAL_POSITION, IS_NULLABLE, DATA_TYPE, COLUMN_TYPE, COLUMN_DEFAULT FROM information_schema.COLUMNS WHERE TABLE_SCHEMA = 'd' AND TABLE_NAME = '" + name + "' ORDER BY ORDINAL_POSITION")
	if res.Failed() {
		sn.err = "information_schema.COLUMNS failed: " + g.Outcome(res)
		return sn
	}
	sn.iscols = core.CanonRows(res.Rows)
	res = s.Exec("SELECT INDEX_NAME, SEQ_IN_INDEX, COLUMN_NAME, NON_UNIQUE FROM information_schema.STATISTICS WHERE TABLE_SCHEMA = 'd' AND TABLE_NAME = '" + name + "'")
	if res.Failed() {
		sn.err = "information_schema.STATISTICS failed: " + g.Outcome(res)
		return sn
	}
	sn.stats = core.SortedRows(res.Rows)
	return sn
}

func (sn *snapshot) text() []string {
	out := []string{"columns: " + strings.Join(sn.cols, ",")}
	for _, r := range sn.rows {
		out = append(out, "row: "+strings.Join(r, "|"))
	}
	for _, d := range sn.desc {
		out = append(out, "describe: "+d)
	}
	for _, d := range sn.iscols {
		out = append(out, "is.columns: "+d)
	}
	for _, d := range sn.stats {
		out = append(out, "is.statistics: "+d)
	}
	return out
}

func modelText(t *mtable, withRows bool) []string {
	out := []string{"columns: " + strings.Join(t.colNames(), ",")}
	if withRows {
		for _, l := range t.lines() {
			out = append(out, "row: "+l)
		}
	}
	for _, d := range t.expectDescribe() {
		out = append(out, "describe: "+d)
	}
	for _, d := range t.expectISColumns() {
		out = append(out, "is.columns: "+d)
	}
	for _, d := range t.expectStatistics() {
		out = append(out, "is.statistics: "+d)
	}
	return out
}

// diffKind names the first part of the snapshot that differs from the model ("" when equal).
// weakCol != "": the values of that column are not compared.
func diffKind(sn *snapshot, t *mtable, weakCol string) string {
	if sn.err != "" {
		return "unreadable"
	}
	if !core.SameStrings(sn.cols, t.colNames()) {
		return "column-order"
	}
	if weakCol == "" {
		if !core.SameStrings(g.Lines(sn.rows), t.lines()) {
			if len(sn.rows) != len(t.rows) {
				return "row-count"
			}
			return "row-values"
		}
	} else {
		if len(sn.rows) != len(t.rows) {
			return "row-count"
		}
		wi := t.colIndex(weakCol)
		mask := func(cells []string) string {
			c := append([]string{}, cells...)
			c[wi] = "?"
			return strings.Join(c, "|")
		}
		var a, b []string
		for _, r := range sn.rows {
			a = append(a, mask(r))
		}
		for _, r := range t.rows {
			cells := make([]string, len(r))
			for i, v := range r {
				cells[i] = v.Canon()
			}
			b = append(b, mask(cells))
		}
		sort.Strings(a)
		sort.Strings(b)
		if !core.SameStrings(a, b) {
			return "other-columns-changed"
		}
	}
	desc := sn.desc
	if len(t.pk) == 0 {
		// without a primary key MySQL shows PRI for a NOT NULL UNIQUE key: the Key column is not compared
		desc = nil
		for _, l := range sn.desc {
			desc = append(desc, strings.Replace(l, "|PRI|", "|-|", 1))
		}
	}
	if !core.SameStrings(desc, t.expectDescribe()) {
		return "describe"
	}
	if !core.SameStrings(sn.iscols, t.expectISColumns()) {
		return "information_schema.columns"
	}
	if !core.SameStrings(sn.stats, t.expectStatistics()) {
		return "information_schema.statistics"
	}
	return ""
}

// indexProbe reads through every index (first key column, range predicate) and compares with the scan.
func indexProbe(s *core.Sess, t *mtable, sn *snapshot) (string, []string) {
	seen := map[string]bool{}
	var firsts []string
	if len(t.pk) > 0 {
		firsts = append(firsts, t.pk[0])
	}
	for _, ix := range t.idx {
		firsts = append(firsts, ix.cols[0])
	}
	for _, cname := range firsts {
		if seen[cname] {
			continue
		}
		seen[cname] = true
		ci := t.colIndex(cname)
		// the bound is the smallest value of the column's own type (out-of-domain literals in index
		// filters are a known defect class of another property, F11)
		// (strictly above the minimum: a closed range starting at the type's minimum returns NULL keys
		// too, an index-range defect that belongs to C03)
		var pred, minText string
		switch ty := t.cols[ci].t; ty.kind {
		case "str":
			pred = g.Q(cname) + " >= ''"
		case "int":
			lo, _ := ty.intRange()
			minText = lo.String()
			pred = g.Q(cname) + " > " + minText
		default:
			minText = "-" + strings.Repeat("9", ty.p-ty.s)
			if ty.s > 0 {
				minText += "." + strings.Repeat("9", ty.s)
			}
			pred = g.Q(cname) + " > " + minText
		}
		q := "SELECT * FROM " + g.Q(t.name) + " WHERE " + pred
		res := s.Exec(q)
		if res.Failed() {
			return "index-read-failed", []string{q, g.Outcome(res)}
		}
		got := core.SortedRows(res.Rows)
		var want []string
		for _, r := range sn.rows {
			if r[ci] != "NULL" && r[ci] != minText {
				want = append(want, strings.Join(r, "|"))
			}
		}
		sort.Strings(want)
		if !core.SameStrings(got, want) {
			return "index-read-differs-from-scan", append(append([]string{q, "via index:"}, got...), append([]string{"via scan:"}, want...)...)
		}
	}
	return "", nil
}

func convPair(t *mtable, c *clause) string {
	if c.kind != "modify" {
		return ""
	}
	old := t.cols[t.colIndex(c.col)]
	s := old.t.desc() + "->" + c.nc.t.desc()
	if old.nullable && !c.nc.nullable {
		s += "+notnull"
	}
	return s
}

func clauseClass(t *mtable, c *clause) string {
	switch c.kind {
	case "modify":
		old := t.cols[t.colIndex(c.col)]
		s := "modify:" + old.t.kind + ">" + c.nc.t.kind
		if old.t.kind == c.nc.t.kind {
			switch {
			case old.t == c.nc.t:
				s += ":same"
			case old.t.kind == "int" && c.nc.t.bits >= old.t.bits && c.nc.t.unsigned == old.t.unsigned:
				s += ":widen"
			case old.t.kind == "int":
				s += ":narrow-or-sign"
			case old.t.kind == "str" && c.nc.t.n >= old.t.n:
				s += ":longer"
			case old.t.kind == "str":
				s += ":shorter"
			case c.nc.t.s < old.t.s:
				s += ":scale-down"
			default:
				s += ":scale-up"
			}
		}
		if old.nullable && !c.nc.nullable {
			s += "+notnull"
		}
		if c.nc.name != c.col {
			s += "+rename"
		}
		if c.pos != "" {
			s += "+" + strings.ToLower(c.pos)
		}
		if t.inPK(c.col) {
			s += "+pkcol"
		}
		for _, ix := range t.idx {
			for _, x := range ix.cols {
				if x == c.col {
					if ix.unique {
						s += "+uniqcol"
					} else {
						s += "+idxcol"
					}
				}
			}
		}
		return s
	case "drop":
		s := "drop"
		if t.inPK(c.col) {
			s += "+pkcol"
		}
		for _, ix := range t.idx {
			for _, x := range ix.cols {
				if x == c.col {
					if ix.unique {
						s += "+uniqcol"
					} else {
						s += "+idxcol"
					}
				}
			}
		}
		return s
	case "add":
		s := "add:" + c.nc.t.kind
		if !c.nc.nullable {
			s += "+notnull"
		}
		if c.nc.def != nil {
			s += "+default"
		}
		if c.pos != "" {
			s += "+" + strings.ToLower(c.pos)
		}
		return s
	case "addidx":
		if c.unique {
			return fmt.Sprintf("addunique:%d", len(c.cols))
		}
		return fmt.Sprintf("addindex:%d", len(c.cols))
	case "addpk":
		return fmt.Sprintf("addpk:%d", len(c.cols))
	}
	return c.kind
}

// keyRole says how a column takes part in keys: "", "+pk", "+uniq", "+idx" (concatenated).
func keyRole(t *mtable, col string) string {
	s := ""
	if t.inPK(col) {
		s += "+pk"
	}
	u, n := false, false
	for _, ix := range t.idx {
		for _, x := range ix.cols {
			if x == col {
				if ix.unique {
					u = true
				} else {
					n = true
				}
			}
		}
	}
	if u {
		s += "+uniq"
	}
	if n {
		s += "+idx"
	}
	return s
}

// reducedClass is the clause description used in signatures: clause kind, conversion family and key role.
func reducedClass(t *mtable, c *clause) string {
	switch c.kind {
	case "modify":
		old := t.cols[t.colIndex(c.col)]
		s := "modify:" + old.t.kind + ">" + c.nc.t.kind
		if c.nc.name != c.col {
			s += "+rename"
		}
		if c.pos != "" {
			s += "+move"
		}
		return s + keyRole(t, c.col)
	case "drop", "rename":
		return c.kind + keyRole(t, c.col)
	case "add":
		if c.pos != "" {
			return "add+move"
		}
		return "add"
	case "addidx":
		if c.unique {
			return "addunique"
		}
		return "addindex"
	}
	return c.kind
}

func runCase(r *core.Run, i int) {
	rnd := r.Rand("hist", i)
	h := &hist{rnd: rnd}
	model, setup := h.genTable()
	e := core.NewEng("d")
	defer e.Close()
	s := e.NewSess()
	w := &witness{Case: i, Seed: r.Seed, Stream: r.CaseSeed()}
	for _, q := range setup {
		res := s.Exec(q)
		w.Steps = append(w.Steps, step{SQL: q, Outcome: g.Outcome(res)})
		if res.Failed() {
			switch {
			case res.Panic != nil:
				w.What = "panic in CREATE TABLE"
				r.Violation(res.Panic.Sig(), w)
			case g.Unsupported(res):
				r.Inconclusive("create-unsupported")
			default:
				w.What = "valid CREATE TABLE rejected"
				r.Violation("valid-create-table-rejected:"+res.ErrClass(), w)
			}
			return
		}
	}
	nSteps := 14 + rnd.Intn(12)
	nInit := 3 + rnd.Intn(5)
	for k := 0; k < nSteps; k++ {
		var q, class, sigClass, expect string
		var next *mtable
		var oc outcome
		var al *alter
		isAlter := k >= nInit && rnd.Intn(100) < 62
		if isAlter {
			al = h.genAlter()
		}
		if al != nil {
			q = al.sql(model)
			next = model.clone()
			var classes, reduced []string
			for ci, c := range al.clauses {
				classes = append(classes, clauseClass(next, c))
				reduced = append(reduced, reducedClass(next, c))
				o := next.apply(c)
				if o.fail {
					oc = o
					if ci > 0 {
						oc.why = "second clause: " + oc.why
					}
					break
				}
				if o.weak {
					oc.weak, oc.weakCol = true, o.weakCol
				}
			}
			class = strings.Join(classes, ",")
			sigClass = strings.Join(reduced, ",")
		} else {
			var d *dml
			if k < nInit {
				d = h.genInsert(true)
			} else {
				d = h.genDML()
			}
			if d == nil {
				continue
			}
			q = d.sql(model)
			next = model.clone()
			oc = next.applyDML(d)
			class = "dml:" + d.kind
			sigClass = class
		}
		switch {
		case oc.fail:
			expect = "FAIL (" + oc.why + ")"
		case oc.weak:
			expect = "OK or FAIL (conversion of " + oc.weakCol + " not judged)"
		default:
			expect = "OK"
		}
		res := s.Exec(q)
		w.Steps = append(w.Steps, step{SQL: q, Outcome: g.Outcome(res), Expected: expect})
		if res.TimedOut {
			r.Inconclusive("timeout")
			return
		}
		r.Eval(1)
		// what the table looks like now, under whichever name it has
		name := model.name
		if !res.Failed() && al != nil && al.clauses[0].kind == "renametable" {
			name = next.name
		}
		sn := observe(s, name)
		if name != model.name {
			// the old name must be gone
			if chk := s.Exec("SELECT 1 FROM " + g.Q(model.name)); !chk.Failed() {
				w.What = "after RENAME the table is still reachable under its old name"
				r.Violation("rename-table-old-name-still-resolves", w)
				return
			}
		}
		same := diffKind(sn, model, "") == "" // unchanged w.r.t. the state before the statement
		report := func(sig, what string, exp *mtable) {
			w.What = what
			w.Expected = modelText(exp, true)
			w.Actual = sn.text()
			if sn.err != "" {
				w.Actual = []string{sn.err}
			}
			r.Violation(sig, w)
		}
		if res.Panic != nil {
			// a panic is a violation of the property for the statement at hand; known panic classes are
			// matched by their signature, and the history goes on only if nothing changed
			w.What = "panic: " + res.Panic.Value
			sig := strings.ReplaceAll(res.Panic.Sig(), " ", "_") + "|" + sigClass // no blanks: the findings file is token based
			pw := *w
			pw.Steps = append([]step{}, w.Steps...)
			pw.Expected = modelText(next, true)
			r.Violation(sig, &pw)
			if !r.IsKnown(sig) || !same {
				return
			}
			continue
		}
		if res.Failed() && g.Unsupported(res) {
			r.Inconclusive("unsupported:" + class)
			if !same {
				report("failed-statement-left-effect:"+sigClass, "declined statement changed the table or its metadata: "+diffKind(sn, model, ""), model)
				return
			}
			continue
		}
		switch {
		case res.Failed() && !same:
			report("failed-statement-left-effect:"+sigClass+":"+diffKind(sn, model, ""), "failed statement changed the table or its metadata ("+diffKind(sn, model, "")+")", model)
			return
		case res.Failed() && oc.fail, res.Failed() && oc.weak:
			// as prescribed (or weakly judged): failed without effect
		case res.Failed():
			if al != nil && strings.Contains(res.Err.Error(), "unable to find field with index") && dropBeforeUnique(model, al) {
				// known finding: DROP COLUMN in front of a column of a UNIQUE index -> internal error (no effect)
				w.What = "valid DROP COLUMN rejected with an internal error (a UNIQUE index covers a column positioned after the dropped one)"
				pw := *w
				pw.Steps = append([]step{}, w.Steps...)
				r.Violation("drop-column-before-unique-index-column:internal-error-field-index", &pw)
				continue
			}
			if al != nil && multiColUniqueConversionError(al, res) {
				// known finding: ADD UNIQUE INDEX over >= 2 columns validates the existing rows with the
				// types of the wrong columns and fails with a conversion error (no effect)
				w.What = "valid ADD UNIQUE INDEX (>= 2 columns) rejected with a conversion error that belongs to another column's type: " + core.Clip(res.Err.Error(), 120)
				pw := *w
				pw.Steps = append([]step{}, w.Steps...)
				r.Violation("add-multicolumn-unique-index-spurious-conversion-error", &pw)
				continue
			}
			report("valid-statement-rejected:"+sigClass+":"+res.ErrClass(), "valid statement rejected: "+core.Clip(res.Err.Error(), 160), next)
			return
		case oc.fail:
			d := diffKind(sn, next, "")
			if al != nil && d == "" && strings.Contains(oc.why, "duplicate key after conversion") {
				// known finding: unique keys are not re-validated after a lossy conversion; the table now
				// violates its key, so the history ends
				w.What = "MODIFY/CHANGE accepted although the converted values collide in a PRIMARY/UNIQUE key"
				w.Expected = modelText(model, true)
				w.Actual = sn.text()
				r.Violation("unique-key-not-revalidated-after-lossy-conversion", w)
				return
			}
			report("violating-statement-accepted:"+sigClass, "statement accepted although "+oc.why+" (state vs. model of the accepted statement: "+d+")", model)
			return
		default:
			weakCol := ""
			if oc.weak {
				weakCol = oc.weakCol
			}
			if d := diffKind(sn, next, weakCol); d != "" {
				if d == "information_schema.statistics" && al != nil && pkReordered(sn, next) {
					// known finding: renaming a member of a composite primary key re-orders the key
					w.What = "renaming a column of a composite PRIMARY KEY changed the order of the key columns"
					w.Expected = next.expectStatistics()
					w.Actual = sn.stats
					pw := *w
					pw.Steps = append([]step{}, w.Steps...)
					r.Violation("rename-of-composite-pk-member-reorders-pk", &pw)
					adoptPK(sn, next)
					if diffKind(sn, next, weakCol) != "" {
						return
					}
				} else {
					report("wrong-result:"+sigClass+":"+d, "statement succeeded but "+d+" differs from the model", next)
					return
				}
			}
			if oc.weak {
				// follow the engine for the weakly judged column
				wi := next.colIndex(oc.weakCol)
				idAt := next.colIndex("id")
				byID := map[string]string{}
				for _, cells := range sn.rows {
					byID[cells[idAt]] = cells[wi]
				}
				for _, row := range next.rows {
					row[wi] = g.ParseCell(byID[row[idAt].Canon()])
				}
			}
			model = next
			h.t = model
		}
		// evidence
		outc := "ok"
		if res.Failed() {
			outc = "fail"
		}
		if oc.weak {
			outc += "-weak"
			r.Count("conv.weak", 1)
		}
		if al != nil {
			r.Count("alter."+outc, 1)
			for _, c := range al.clauses {
				if c.kind == "modify" {
					if res.Failed() && strings.Contains(oc.why, "not representable") {
						r.Count("conv.fail", 1)
					}
					if !res.Failed() && !oc.weak && c.nc.t != (typ{}) && strings.Contains(class, ">") && !strings.Contains(class, ":same") {
						r.Count("conv.ok-changed", 1)
					}
					if c.pos != "" && !res.Failed() {
						r.Count("alter.reorder", 1)
					}
				}
			}
			if res.Failed() && strings.Contains(oc.why, "duplicate") {
				r.Count("fail.duplicate-key", 1)
			}
			if res.Failed() && len(al.clauses) > 1 && strings.HasPrefix(oc.why, "second clause") {
				r.Count("alter.two-clause-fail", 1)
			}
		}
		r.Distinct(class + "|" + outc)
		if what, detail := indexProbe(s, model, sn); what != "" {
			w.What = what
			w.Actual = detail
			r.Violation(what+":after:"+class, w)
			return
		}
		r.Count("index-probes", 1)
		if al != nil && !res.Failed() && len(model.rows) > 0 && i%50 == 0 {
			r.Sample(map[string]any{"statement": q, "class": class, "table_after": core.ClipStrings(sn.text(), 12)})
		}
	}
}

// dropBeforeUnique: the statement drops a column that stands before a column of some UNIQUE index.
func dropBeforeUnique(t *mtable, al *alter) bool {
	for _, c := range al.clauses {
		if c.kind != "drop" {
			continue
		}
		at := t.colIndex(c.col)
		for _, ix := range t.idx {
			if !ix.unique {
				continue
			}
			for _, x := range ix.cols {
				if t.colIndex(x) > at {
					return true
				}
			}
		}
	}
	return false
}

// multiColUniqueConversionError is the matcher of known finding
// add-multicolumn-unique-index-spurious-conversion-error.
func multiColUniqueConversionError(al *alter, res *core.Result) bool {
	if len(al.clauses) != 1 || al.clauses[0].kind != "addidx" || !al.clauses[0].unique || len(al.clauses[0].cols) < 2 || res.Err == nil {
		return false
	}
	m := res.Err.Error()
	return strings.Contains(m, "is too large for column") || strings.Contains(m, "Truncated incorrect") || strings.Contains(m, "out of range") || strings.Contains(m, "Out of range")
}

// pkReordered: STATISTICS differs from the model only in the order of the PRIMARY key's columns.
func pkReordered(sn *snapshot, t *mtable) bool {
	if len(t.pk) < 2 {
		return false
	}
	strip := func(rows []string) (pk []string, rest []string) {
		for _, l := range rows {
			if strings.HasPrefix(l, "'PRIMARY'|") {
				parts := strings.Split(l, "|")
				pk = append(pk, parts[2])
			} else {
				rest = append(rest, l)
			}
		}
		sort.Strings(pk)
		return
	}
	apk, arest := strip(sn.stats)
	epk, erest := strip(t.expectStatistics())
	return core.SameStrings(apk, epk) && core.SameStrings(arest, erest)
}

// adoptPK makes the model follow the engine's order of primary-key columns.
func adoptPK(sn *snapshot, t *mtable) {
	type ent struct {
		seq int
		col string
	}
	var ents []ent
	for _, l := range sn.stats {
		if strings.HasPrefix(l, "'PRIMARY'|") {
			parts := strings.Split(l, "|")
			var seq int
			fmt.Sscan(parts[1], &seq)
			ents = append(ents, ent{seq, strings.Trim(parts[2], "'")})
		}
	}
	sort.Slice(ents, func(a, b int) bool { return ents[a].seq < ents[b].seq })
	t.pk = nil
	for _, e := range ents {
		t.pk = append(t.pk, e.col)
	}
}

type pin struct {
	sig, what string
	setup     []string
	probe     string
	bad       func(res *core.Result) bool
}

// pinned replays the minimal witness of every known finding on every run.
func pinned(r *core.Run) {
	rowsAre := func(want ...string) func(*core.Result) bool {
		return func(res *core.Result) bool { return res.Failed() || !core.SameStrings(core.SortedRows(res.Rows), want) }
	}
	failed := func(res *core.Result) bool { return res.Failed() }
	const reshape = "alter-reshape-leaves-stale-key-metadata"
	const move = "reposition-leaves-stale-column-positions"
	pins := []pin{
		{"panic:sql/fulltext.GetKeyColumns:runtime_error:_index_out_of_range_[-]|drop+pk", "DROP COLUMN of a PRIMARY KEY member panics",
			[]string{"CREATE TABLE k1 (id INT NOT NULL, c INT NOT NULL, PRIMARY KEY (id, c))"}, "ALTER TABLE k1 DROP COLUMN c", failed},
		{"add-multicolumn-unique-index-spurious-conversion-error", "ADD UNIQUE INDEX (c1, c4) fails: string '-999.55' is too large for column 'varchar(2)'",
			[]string{"CREATE TABLE k2 (id INT NOT NULL, c1 VARCHAR(2), c2 INT, c4 DECIMAL(6,2), PRIMARY KEY (id))", "INSERT INTO k2 VALUES (8, 'q', 1, -999.55)"},
			"ALTER TABLE k2 ADD UNIQUE INDEX ix1 (c1, c4)", failed},
		{"unique-key-not-revalidated-after-lossy-conversion", "MODIFY c TINYINT on UNIQUE DECIMAL values 1.0055, 1.0125 is accepted: two rows with c = 1",
			[]string{"CREATE TABLE k3 (id INT NOT NULL, c DECIMAL(10,4), UNIQUE KEY u (c))", "INSERT INTO k3 VALUES (1, 1.0055), (2, 1.0125)"},
			"ALTER TABLE k3 MODIFY c TINYINT", func(res *core.Result) bool { return !res.Failed() }},
		{reshape, "(a) CHANGE c5 c10 INT NOT NULL on an indexed column drops the index",
			[]string{"CREATE TABLE k4a (id INT NOT NULL, c5 INT, PRIMARY KEY (id), KEY ix4 (c5))", "INSERT INTO k4a VALUES (1, 1)", "ALTER TABLE k4a CHANGE c5 c10 INT NOT NULL"},
			"SELECT INDEX_NAME FROM information_schema.STATISTICS WHERE TABLE_SCHEMA = 'd' AND TABLE_NAME = 'k4a'", rowsAre("'PRIMARY'", "'ix4'")},
		{reshape, "(b) DROP COLUMN of a member of a UNIQUE index panics",
			[]string{"CREATE TABLE k4b (id INT NOT NULL, a INT, UNIQUE KEY u (id, a))"}, "ALTER TABLE k4b DROP COLUMN a", failed},
		{reshape, "(c) DROP COLUMN in front of a UNIQUE-indexed column: unable to find field with index",
			[]string{"CREATE TABLE k4c (id INT NOT NULL, c1 DECIMAL(4,1) DEFAULT 7, c2 INT, c3 INT NOT NULL, PRIMARY KEY (id, c3), KEY ix1 (c2))", "INSERT INTO k4c VALUES (1, 1, 1, 1), (2, 2, 2, 2)", "ALTER TABLE k4c ADD UNIQUE INDEX ix2 (c3)"},
			"ALTER TABLE k4c DROP COLUMN c1", failed},
		{reshape, "(d) RENAME COLUMN of a composite-PK member re-orders the key",
			[]string{"CREATE TABLE k4d (id INT NOT NULL, c1 INT, c2 INT NOT NULL, PRIMARY KEY (id, c2))", "ALTER TABLE k4d RENAME COLUMN c2 TO c4"},
			"SELECT SEQ_IN_INDEX, COLUMN_NAME FROM information_schema.STATISTICS WHERE TABLE_SCHEMA = 'd' AND TABLE_NAME = 'k4d'", rowsAre("1|'id'", "2|'c4'")},
		{reshape, "(e) MODIFY of a member of a multi-column UNIQUE index: a later UPDATE panics in sortSecondaryIndexes",
			[]string{"CREATE TABLE k4e (id INT NOT NULL, c1 VARCHAR(8) NOT NULL, c2 DECIMAL(10,4), PRIMARY KEY (id, c1), UNIQUE KEY ix1 (c1, c2))", "INSERT INTO k4e VALUES (16, 'abc', 9.0045), (21, 'zz', -1.0025)", "ALTER TABLE k4e MODIFY c1 VARCHAR(16) NOT NULL"},
			"UPDATE k4e SET c1 = 'zz' WHERE id = 16", failed},
		{move, "(a) MODIFY c2 VARCHAR(8) NOT NULL AFTER id on an indexed SMALLINT column: index range read misses rows",
			[]string{"CREATE TABLE k5a (id INT NOT NULL, c1 INT NOT NULL, c2 SMALLINT NOT NULL, PRIMARY KEY (id), KEY ix1 (c2))", "INSERT INTO k5a VALUES (1, -300, 128), (2, 100, -128), (22, -129, -128)", "ALTER TABLE k5a MODIFY c2 VARCHAR(8) NOT NULL AFTER id"},
			"SELECT id FROM k5a WHERE c2 >= ''", rowsAre("1", "2", "22")},
		{move, "(b) ADD COLUMN c0 VARCHAR(8) FIRST, then ADD UNIQUE INDEX (c2, c3) fails with a conversion error of c0's type",
			[]string{"CREATE TABLE k5b (id INT NOT NULL, c1 TINYINT UNSIGNED NOT NULL, c2 VARCHAR(16), c3 BIGINT, PRIMARY KEY (id))", "INSERT INTO k5b VALUES (8, 128, 'longerword', 100)", "ALTER TABLE k5b ADD COLUMN c0 VARCHAR(8) FIRST"},
			"ALTER TABLE k5b ADD UNIQUE INDEX ix1 (c2, c3)", failed},
		{"secondary-index-not-maintained-after-table-rename", "after ALTER TABLE ... RENAME TO, INSERT of NULL into an indexed column is returned by WHERE c5 > -5 through the index",
			[]string{"CREATE TABLE k6 (id INT NOT NULL, c5 INT NULL, KEY ix1 (c5))", "INSERT INTO k6 VALUES (1, 100)", "ALTER TABLE k6 RENAME TO k6b", "INSERT INTO k6b VALUES (26, NULL)"},
			"SELECT id FROM k6b WHERE c5 > -5", rowsAre("1")},
	}
	for _, p := range pins {
		e := core.NewEng("d")
		s := e.NewSess()
		for _, q := range p.setup {
			s.Exec(q)
		}
		res := s.Exec(p.probe)
		r.Eval(1)
		r.Pinned(p.sig, p.what, p.bad(res), map[string]any{"setup": p.setup, "probe": p.probe, "outcome": g.Outcome(res), "rows": core.SortedRows(res.Rows)})
		e.Close()
	}
}
