package main

import (
	"fmt"
	"sort"
	"strings"

	g "verif/harness/g9alib"
)

type mcol struct {
	name     string
	t        typ
	nullable bool
	def      *g.V // literal default; nil: none
}

type mindex struct {
	name   string
	cols   []string
	unique bool
}

type mtable struct {
	name string
	cols []*mcol
	pk   []string
	idx  []*mindex
	rows [][]g.V
}

func (t *mtable) clone() *mtable {
	n := &mtable{name: t.name, pk: append([]string{}, t.pk...), rows: g.CopyRows(t.rows)}
	for _, c := range t.cols {
		cc := *c
		n.cols = append(n.cols, &cc)
	}
	for _, ix := range t.idx {
		n.idx = append(n.idx, &mindex{name: ix.name, cols: append([]string{}, ix.cols...), unique: ix.unique})
	}
	return n
}

func (t *mtable) colIndex(name string) int {
	for i, c := range t.cols {
		if c.name == name {
			return i
		}
	}
	return -1
}

func (t *mtable) colNames() []string {
	out := make([]string, len(t.cols))
	for i, c := range t.cols {
		out[i] = c.name
	}
	return out
}

func (t *mtable) lines() []string { return g.ModelLines(t.rows) }

func (t *mtable) inPK(name string) bool {
	for _, c := range t.pk {
		if c == name {
			return true
		}
	}
	return false
}

func (t *mtable) index(name string) *mindex {
	for _, ix := range t.idx {
		if strings.EqualFold(ix.name, name) {
			return ix
		}
	}
	return nil
}

// dupOn reports whether two rows agree on all the named columns with no NULL among them
// (pk=true: NULLs are not allowed at all and count as a violation).
func (t *mtable) dupOn(cols []string) bool {
	seen := map[string]bool{}
	for _, r := range t.rows {
		parts := make([]string, len(cols))
		null := false
		for i, c := range cols {
			v := r[t.colIndex(c)]
			if v.IsNull() {
				null = true
			}
			parts[i] = v.Canon()
		}
		if null {
			continue
		}
		k := strings.Join(parts, "\x00")
		if seen[k] {
			return true
		}
		seen[k] = true
	}
	return false
}

func (t *mtable) hasNull(cols []string) bool {
	for _, r := range t.rows {
		for _, c := range cols {
			if r[t.colIndex(c)].IsNull() {
				return true
			}
		}
	}
	return false
}

// keysOK checks the primary key and every unique index on the current rows.
func (t *mtable) keysOK() bool {
	if len(t.pk) > 0 && (t.dupOn(t.pk) || t.hasNull(t.pk)) {
		return false
	}
	for _, ix := range t.idx {
		if ix.unique && t.dupOn(ix.cols) {
			return false
		}
	}
	return true
}

func colDef(c *mcol) string {
	s := g.Q(c.name) + " " + c.t.sql()
	if c.nullable {
		s += " NULL"
	} else {
		s += " NOT NULL"
	}
	if c.def != nil {
		s += " DEFAULT " + c.def.SQL()
	}
	return s
}

func (t *mtable) createSQL() string {
	var parts []string
	for _, c := range t.cols {
		parts = append(parts, colDef(c))
	}
	if len(t.pk) > 0 {
		parts = append(parts, "PRIMARY KEY ("+g.QuoteList(t.pk)+")")
	}
	for _, ix := range t.idx {
		kw := "KEY"
		if ix.unique {
			kw = "UNIQUE KEY"
		}
		parts = append(parts, kw+" "+g.Q(ix.name)+" ("+g.QuoteList(ix.cols)+")")
	}
	return "CREATE TABLE " + g.Q(t.name) + " (" + strings.Join(parts, ", ") + ")"
}

// ---- ALTER clauses ----

type clause struct {
	kind    string // add | drop | modify | rename | addpk | droppk | addidx | dropidx | renametable
	col     string // target column (drop / modify / rename)
	nc      *mcol  // new column definition (add / modify; nc.name is the new name for CHANGE)
	pos     string // "", "FIRST", "AFTER x"
	after   string
	cols    []string // addpk / addidx
	ixname  string
	unique  bool
	newName string // rename column / table
	useChange bool  // render MODIFY as CHANGE old new
}

func (c *clause) sql() string {
	pos := ""
	switch c.pos {
	case "FIRST":
		pos = " FIRST"
	case "AFTER":
		pos = " AFTER " + g.Q(c.after)
	}
	switch c.kind {
	case "add":
		return "ADD COLUMN " + colDef(c.nc) + pos
	case "drop":
		return "DROP COLUMN " + g.Q(c.col)
	case "modify":
		if c.useChange || c.nc.name != c.col {
			return "CHANGE " + g.Q(c.col) + " " + colDef(c.nc) + pos
		}
		return "MODIFY " + colDef(c.nc) + pos
	case "rename":
		return "RENAME COLUMN " + g.Q(c.col) + " TO " + g.Q(c.newName)
	case "addpk":
		return "ADD PRIMARY KEY (" + g.QuoteList(c.cols) + ")"
	case "droppk":
		return "DROP PRIMARY KEY"
	case "addidx":
		kw := "INDEX"
		if c.unique {
			kw = "UNIQUE INDEX"
		}
		return "ADD " + kw + " " + g.Q(c.ixname) + " (" + g.QuoteList(c.cols) + ")"
	case "dropidx":
		return "DROP INDEX " + g.Q(c.ixname)
	case "renametable":
		return "RENAME TO " + g.Q(c.newName)
	}
	return ""
}

type outcome struct {
	fail  bool
	why   string
	weak  bool   // the converted values of weakCol are not certain: judged weakly
	weakCol string
}

func renameIn(list []string, old, new string) {
	for i, x := range list {
		if x == old {
			list[i] = new
		}
	}
}

func (t *mtable) place(c *mcol, vals []g.V, pos, after string) {
	at := len(t.cols)
	switch pos {
	case "FIRST":
		at = 0
	case "AFTER":
		at = t.colIndex(after) + 1
	}
	t.cols = append(t.cols, nil)
	copy(t.cols[at+1:], t.cols[at:])
	t.cols[at] = c
	for i, r := range t.rows {
		nr := make([]g.V, 0, len(r)+1)
		nr = append(nr, r[:at]...)
		nr = append(nr, vals[i])
		nr = append(nr, r[at:]...)
		t.rows[i] = nr
	}
}

func (t *mtable) remove(name string) []g.V {
	at := t.colIndex(name)
	vals := make([]g.V, len(t.rows))
	t.cols = append(t.cols[:at:at], t.cols[at+1:]...)
	for i, r := range t.rows {
		vals[i] = r[at]
		nr := make([]g.V, 0, len(r)-1)
		nr = append(nr, r[:at]...)
		nr = append(nr, r[at+1:]...)
		t.rows[i] = nr
	}
	return vals
}

// apply performs one clause on the table in place (call on a clone) and reports the outcome.
func (t *mtable) apply(c *clause) outcome {
	switch c.kind {
	case "add":
		if t.colIndex(c.nc.name) >= 0 {
			return outcome{fail: true, why: "duplicate column"}
		}
		if c.pos == "AFTER" && t.colIndex(c.after) < 0 {
			return outcome{fail: true, why: "unknown AFTER column"}
		}
		v := g.Null
		switch {
		case c.nc.def != nil:
			v = *c.nc.def
		case !c.nc.nullable:
			v = c.nc.t.zero()
		}
		vals := make([]g.V, len(t.rows))
		for i := range vals {
			vals[i] = v
		}
		nc := *c.nc
		t.place(&nc, vals, c.pos, c.after)
	case "drop":
		if t.colIndex(c.col) < 0 {
			return outcome{fail: true, why: "unknown column"}
		}
		if len(t.cols) == 1 {
			return outcome{fail: true, why: "cannot drop the only column"}
		}
		t.remove(c.col)
		var pk []string
		for _, x := range t.pk {
			if x != c.col {
				pk = append(pk, x)
			}
		}
		t.pk = pk
		var keep []*mindex
		for _, ix := range t.idx {
			var cols []string
			for _, x := range ix.cols {
				if x != c.col {
					cols = append(cols, x)
				}
			}
			if len(cols) > 0 {
				ix.cols = cols
				keep = append(keep, ix)
			}
		}
		t.idx = keep
		if !t.keysOK() {
			return outcome{fail: true, why: "duplicate key after dropping a key column"}
		}
	case "modify":
		at := t.colIndex(c.col)
		if at < 0 {
			return outcome{fail: true, why: "unknown column"}
		}
		if c.nc.name != c.col && t.colIndex(c.nc.name) >= 0 {
			return outcome{fail: true, why: "duplicate column"}
		}
		if c.pos == "AFTER" && (t.colIndex(c.after) < 0 || c.after == c.col) {
			return outcome{fail: true, why: "bad AFTER column"}
		}
		old := t.cols[at]
		out := outcome{}
		vals := make([]g.V, len(t.rows))
		for i, r := range t.rows {
			nv, cl := conv(r[at], old.t, c.nc.t)
			switch cl {
			case convFail:
				return outcome{fail: true, why: "value not representable in the new type"}
			case convWeak:
				out.weak, out.weakCol = true, c.nc.name
			}
			if nv.IsNull() && !c.nc.nullable {
				return outcome{fail: true, why: "NULL in a column made NOT NULL"}
			}
			vals[i] = nv
		}
		nc := *c.nc
		if c.pos == "" {
			t.cols[at] = &nc
			for i, r := range t.rows {
				r[at] = vals[i]
			}
		} else {
			t.remove(c.col)
			t.place(&nc, vals, c.pos, c.after)
		}
		if nc.name != c.col {
			renameIn(t.pk, c.col, nc.name)
			for _, ix := range t.idx {
				renameIn(ix.cols, c.col, nc.name)
			}
		}
		if !out.weak && !t.keysOK() {
			return outcome{fail: true, why: "duplicate key after conversion"}
		}
		return out
	case "rename":
		at := t.colIndex(c.col)
		if at < 0 || t.colIndex(c.newName) >= 0 {
			return outcome{fail: true, why: "bad rename"}
		}
		t.cols[at].name = c.newName
		renameIn(t.pk, c.col, c.newName)
		for _, ix := range t.idx {
			renameIn(ix.cols, c.col, c.newName)
		}
	case "addpk":
		if len(t.pk) > 0 {
			return outcome{fail: true, why: "multiple primary keys"}
		}
		if t.hasNull(c.cols) {
			return outcome{fail: true, why: "NULL in a primary key column"}
		}
		if t.dupOn(c.cols) {
			return outcome{fail: true, why: "duplicate primary key"}
		}
		t.pk = append([]string{}, c.cols...)
		for _, x := range c.cols {
			t.cols[t.colIndex(x)].nullable = false
		}
	case "droppk":
		if len(t.pk) == 0 {
			return outcome{fail: true, why: "no primary key"}
		}
		t.pk = nil
	case "addidx":
		if t.index(c.ixname) != nil {
			return outcome{fail: true, why: "duplicate index name"}
		}
		if c.unique && t.dupOn(c.cols) {
			return outcome{fail: true, why: "duplicate unique key"}
		}
		t.idx = append(t.idx, &mindex{name: c.ixname, cols: append([]string{}, c.cols...), unique: c.unique})
	case "dropidx":
		ix := t.index(c.ixname)
		if ix == nil {
			return outcome{fail: true, why: "no such index"}
		}
		var keep []*mindex
		for _, x := range t.idx {
			if x != ix {
				keep = append(keep, x)
			}
		}
		t.idx = keep
	case "renametable":
		t.name = c.newName
	}
	return outcome{}
}

// ---- DML ----

type dml struct {
	kind string // insert | update | delete
	row  []g.V  // insert: one value per column
	col  string // update
	val  g.V
	id   g.V // update / delete: WHERE id = ...
}

func (d *dml) sql(t *mtable) string {
	switch d.kind {
	case "insert":
		parts := make([]string, len(d.row))
		for i, v := range d.row {
			parts[i] = v.SQL()
		}
		return fmt.Sprintf("INSERT INTO %s (%s) VALUES (%s)", g.Q(t.name), g.QuoteList(t.colNames()), strings.Join(parts, ", "))
	case "update":
		return fmt.Sprintf("UPDATE %s SET %s = %s WHERE %s = %s", g.Q(t.name), g.Q(d.col), d.val.SQL(), g.Q("id"), d.id.SQL())
	}
	return fmt.Sprintf("DELETE FROM %s WHERE %s = %s", g.Q(t.name), g.Q("id"), d.id.SQL())
}

// applyDML: strict mode; values that do not fit the column type make the statement fail.
func (t *mtable) applyDML(d *dml) outcome {
	idAt := t.colIndex("id")
	match := func(r []g.V) bool { return !r[idAt].IsNull() && r[idAt].Canon() == d.id.Canon() }
	switch d.kind {
	case "insert":
		for i, c := range t.cols {
			if d.row[i].IsNull() && !c.nullable {
				return outcome{fail: true, why: "NULL in NOT NULL column"}
			}
			if !c.t.fits(d.row[i]) {
				return outcome{fail: true, why: "value does not fit"}
			}
		}
		t.rows = append(t.rows, g.CopyRow(d.row))
	case "update":
		at := t.colIndex(d.col)
		c := t.cols[at]
		any := false
		for _, r := range t.rows {
			if match(r) {
				any = true
			}
		}
		if !any {
			return outcome{}
		}
		if d.val.IsNull() && !c.nullable {
			return outcome{fail: true, why: "NULL in NOT NULL column"}
		}
		if !c.t.fits(d.val) {
			return outcome{fail: true, why: "value does not fit"}
		}
		for _, r := range t.rows {
			if match(r) {
				r[at] = d.val
			}
		}
	case "delete":
		var keep [][]g.V
		for _, r := range t.rows {
			if !match(r) {
				keep = append(keep, r)
			}
		}
		t.rows = keep
	}
	if !t.keysOK() {
		return outcome{fail: true, why: "duplicate key"}
	}
	return outcome{}
}

// ---- expected metadata ----

func (t *mtable) expectDescribe() []string {
	var out []string
	for _, c := range t.cols {
		null := "NO"
		if c.nullable {
			null = "YES"
		}
		def := "NULL"
		if c.def != nil {
			def = "'" + c.t.defaultText(*c.def) + "'"
		}
		pri := "-"
		if t.inPK(c.name) {
			pri = "PRI"
		}
		out = append(out, fmt.Sprintf("'%s'|'%s'|'%s'|%s|%s", c.name, c.t.desc(), null, pri, def))
	}
	return out
}

func (t *mtable) expectISColumns() []string {
	var out []string
	for i, c := range t.cols {
		null := "NO"
		if c.nullable {
			null = "YES"
		}
		def := "NULL"
		if c.def != nil {
			def = "'" + c.t.defaultText(*c.def) + "'"
		}
		out = append(out, fmt.Sprintf("'%s'|%d|'%s'|'%s'|'%s'|%s", c.name, i+1, null, c.t.dataType(), c.t.desc(), def))
	}
	return out
}

func (t *mtable) expectStatistics() []string {
	var out []string
	for i, c := range t.pk {
		out = append(out, fmt.Sprintf("'PRIMARY'|%d|'%s'|0", i+1, c))
	}
	for _, ix := range t.idx {
		nu := 1
		if ix.unique {
			nu = 0
		}
		for i, c := range ix.cols {
			out = append(out, fmt.Sprintf("'%s'|%d|'%s'|%d", ix.name, i+1, c, nu))
		}
	}
	sort.Strings(out)
	return out
}
