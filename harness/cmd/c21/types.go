package main

import (
	"fmt"
	"math/big"
	"regexp"
	"strings"

	g "verif/harness/g9alib"
)

// typ is a column type of the C21 palette.
type typ struct {
	kind     string // int | str | dec
	bits     int    // int: 8 16 32 64
	unsigned bool
	n        int // varchar length
	p, s     int // decimal precision / scale
}

var intNames = map[int]string{8: "tinyint", 16: "smallint", 32: "int", 64: "bigint"}

// desc is the type text of DESCRIBE / information_schema.COLUMNS.COLUMN_TYPE.
func (t typ) desc() string {
	switch t.kind {
	case "int":
		s := intNames[t.bits]
		if t.unsigned {
			s += " unsigned"
		}
		return s
	case "str":
		return fmt.Sprintf("varchar(%d)", t.n)
	}
	return fmt.Sprintf("decimal(%d,%d)", t.p, t.s)
}

func (t typ) sql() string { return strings.ToUpper(t.desc()) }

// dataType is information_schema.COLUMNS.DATA_TYPE.
func (t typ) dataType() string {
	switch t.kind {
	case "int":
		return intNames[t.bits]
	case "str":
		return "varchar"
	}
	return "decimal"
}

func (t typ) intRange() (*big.Int, *big.Int) {
	one := big.NewInt(1)
	if t.unsigned {
		return big.NewInt(0), new(big.Int).Sub(new(big.Int).Lsh(one, uint(t.bits)), one)
	}
	h := new(big.Int).Lsh(one, uint(t.bits-1))
	return new(big.Int).Neg(h), new(big.Int).Sub(h, one)
}

func (t typ) zero() g.V {
	switch t.kind {
	case "int":
		return g.Int(0)
	case "str":
		return g.Str("")
	}
	return g.Dec(new(big.Rat))
}

// defaultText is how DESCRIBE / COLUMN_DEFAULT print a literal default of this type.
func (t typ) defaultText(v g.V) string {
	switch t.kind {
	case "int":
		return v.I.String()
	case "str":
		return v.S
	}
	return ratOf(v).FloatString(t.s)
}

func ratOf(v g.V) *big.Rat {
	if v.K == g.KDec {
		return v.R
	}
	return new(big.Rat).SetInt(v.I)
}

// fits reports whether a value of the right family is storable without change.
func (t typ) fits(v g.V) bool {
	if v.IsNull() {
		return true
	}
	switch t.kind {
	case "int":
		if v.K != g.KInt {
			return false
		}
		lo, hi := t.intRange()
		return v.I.Cmp(lo) >= 0 && v.I.Cmp(hi) <= 0
	case "str":
		return v.K == g.KStr && len(v.S) <= t.n
	}
	if v.K == g.KStr {
		return false
	}
	r := ratOf(v)
	if roundRat(r, t.s).Cmp(r) != 0 {
		return false
	}
	return decInRange(r, t)
}

func decInRange(r *big.Rat, t typ) bool {
	limit := new(big.Rat).SetInt(new(big.Int).Exp(big.NewInt(10), big.NewInt(int64(t.p-t.s)), nil))
	return new(big.Rat).Abs(r).Cmp(limit) < 0
}

// roundRat rounds half away from zero to the given number of decimal places.
func roundRat(r *big.Rat, scale int) *big.Rat {
	pow := new(big.Int).Exp(big.NewInt(10), big.NewInt(int64(scale)), nil)
	x := new(big.Rat).Mul(r, new(big.Rat).SetInt(pow))
	neg := x.Sign() < 0
	x.Abs(x)
	x.Add(x, big.NewRat(1, 2))
	q := new(big.Int).Quo(x.Num(), x.Denom())
	if neg {
		q.Neg(q)
	}
	return new(big.Rat).SetFrac(q, pow)
}

type convClass int

const (
	convOK   convClass = iota // the reference conversion is certain
	convFail                  // the value is not representable: the ALTER must fail (strict mode)
	convWeak                  // MySQL's result is not certain to the harness: judged weakly
)

var canonInt = regexp.MustCompile(`^(0|-?[1-9][0-9]*)$`)

// conv is the reference conversion of one stored value for MODIFY / CHANGE.
func conv(v g.V, from, to typ) (g.V, convClass) {
	if v.IsNull() {
		return v, convOK
	}
	switch from.kind + ">" + to.kind {
	case "int>int":
		if to.fits(v) {
			return v, convOK
		}
		return v, convFail
	case "int>dec":
		r := new(big.Rat).SetInt(v.I)
		if decInRange(r, to) {
			return decV(r), convOK
		}
		return v, convFail
	case "int>str":
		s := v.I.String()
		if len(s) <= to.n {
			return g.Str(s), convOK
		}
		return v, convFail
	case "dec>dec":
		r := roundRat(ratOf(v), to.s)
		if decInRange(r, to) {
			return decV(r), convOK
		}
		return v, convFail
	case "dec>int":
		r := roundRat(ratOf(v), 0)
		iv := g.BigInt(r.Num())
		if to.fits(iv) {
			return iv, convOK
		}
		return v, convFail
	case "dec>str":
		return v, convWeak
	case "str>int":
		if canonInt.MatchString(v.S) {
			n, _ := new(big.Int).SetString(v.S, 10)
			iv := g.BigInt(n)
			if to.fits(iv) {
				return iv, convOK
			}
			return v, convFail
		}
		return v, convWeak
	case "str>dec":
		return v, convWeak
	case "str>str":
		if len(v.S) <= to.n {
			return v, convOK
		}
		return v, convFail
	}
	return v, convWeak
}

// decV makes the model value of an exact decimal: core.Canon prints decimals without trailing
// zeros, and an integral decimal prints like an integer, so the canonical text is the same.
func decV(r *big.Rat) g.V { return g.Dec(r) }
