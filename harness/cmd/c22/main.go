// C22 — SHOW CREATE output recreates an identical object.
//
// Oracle (metamorphic): a generated object x is created in engine A; S1 = SHOW CREATE x is executed
// in an empty database of a fresh engine B; then
//
//	(1) S1 must be accepted by B,
//	(2) S2 = SHOW CREATE x on B must equal S1 byte for byte,
//	(3) the two objects must agree structurally through the Go catalog API (columns: type,
//	    nullability, default, generated expression, auto-increment, comment, collation; PK ordinals;
//	    indexes; checks; foreign keys; table collation and comment),
//	(4) behaviour probes agree: a defaults-only INSERT (tables), SELECT * (views), one DML statement
//	    (triggers), one CALL with OUT values (procedures).
//
// A generated CREATE that engine A rejects is inconclusive (counted by error class).
package main

import (
	"fmt"
	"math/rand"
	"sort"
	"strings"

	"github.com/dolthub/go-mysql-server/sql"
	"github.com/dolthub/go-mysql-server/sql/types"

	"verif/harness/core"
	"verif/harness/g9blib"
)

type ctxT struct {
	r *core.Run
}

func main() {
	r := core.NewRun("C22", "exploration",
		"each case = one generated CREATE TABLE/VIEW/TRIGGER/PROCEDURE; S1 = SHOW CREATE in engine A is executed in an empty engine B; "+
			"S2 must equal S1 byte for byte and both objects must agree in schema/indexes/checks/FKs and on a behaviour probe; "+
			"distinct = feature tags (type class, default kind, index kind, option) of objects that completed the round trip")
	r.Fold(8, 3)
	r.Assume("a generated CREATE statement that engine A itself rejects is inconclusive, not a verdict")
	r.Assume("structural comparison uses sql.Table.Schema(), GetIndexes, GetChecks, GetDeclaredForeignKeys, Collation, Comment of the memory tables in A and B")
	n := r.N(1000, 25000)
	c := &ctxT{r: r}
	r.Parallel("obj", n, func(i int) {
		rnd := r.Rand("obj", i)
		switch k := rnd.Intn(100); {
		case k < 70:
			c.tableCase(rnd, i)
		case k < 82:
			c.viewCase(rnd, i)
		case k < 91:
			c.triggerCase(rnd, i)
		default:
			c.procCase(rnd, i)
		}
	})
	pinned(c)
	r.Floor(r.Counter("roundtrip-ok:table") >= int64(n/4), "fewer than a quarter of the cases were tables that completed the round trip")
	r.Floor(r.Counter("roundtrip-ok:view") >= int64(n/40), "too few views completed the round trip")
	r.Floor(r.Counter("roundtrip-ok:trigger") >= int64(n/40), "too few triggers completed the round trip")
	r.Floor(r.Counter("roundtrip-ok:procedure") >= int64(n/40), "too few procedures completed the round trip")
	r.Finish()
}

func showCreate(s *core.Sess, kind, name string, col string) (string, *core.Result) {
	res := s.Exec("SHOW CREATE " + kind + " " + g9blib.Q(name))
	if res.Failed() || len(res.Rows) != 1 {
		return "", res
	}
	idx := -1
	for i, c := range res.Schema {
		if strings.EqualFold(c.Name, col) {
			idx = i
		}
	}
	if idx < 0 {
		idx = 1
	}
	return fmt.Sprint(res.Rows[0][idx]), res
}

func errOf(res *core.Result) string {
	switch {
	case res == nil:
		return ""
	case res.Panic != nil:
		return "PANIC " + res.Panic.Value + " @ " + res.Panic.Site
	case res.TimedOut:
		return "TIMEOUT"
	case res.Err != nil:
		return res.Err.Error()
	}
	return ""
}

// errSig is a blank-free signature fragment for an error.
func errSig(res *core.Result) string {
	if res.Panic != nil {
		return strings.ReplaceAll(res.Panic.Sig(), " ", "-")
	}
	return res.ErrClass() + ":" + strings.ReplaceAll(core.StripVolatile(errOf(res)), " ", "-")
}

// describeTable renders everything the catalog API says about a table, one line per fact.
func describeTable(s *core.Sess, name string) ([]string, error) {
	ctx := s.Ctx()
	db, err := s.Eng.Pro.Database(ctx, s.Eng.DB)
	if err != nil {
		return nil, err
	}
	tbl, ok, err := db.GetTableInsensitive(ctx, name)
	if err != nil || !ok {
		return nil, fmt.Errorf("table %q not found: %v", name, err)
	}
	var out []string
	out = append(out, "table-collation "+tbl.Collation().Name())
	if ct, ok := tbl.(sql.CommentedTable); ok {
		out = append(out, fmt.Sprintf("table-comment %q", ct.Comment()))
	}
	ds := func(d *sql.ColumnDefaultValue) string {
		if d == nil {
			return "<nil>"
		}
		return fmt.Sprintf("%s literal=%v parens=%v", d.String(), d.IsLiteral(), d.IsParenthesized())
	}
	for i, c := range tbl.Schema(ctx) {
		coll := ""
		if tc, ok := c.Type.(sql.TypeWithCollation); ok {
			coll = tc.Collation().Name()
		}
		srid := ""
		if sp, ok := c.Type.(sql.SpatialColumnType); ok {
			if v, def := sp.GetSpatialTypeSRID(); def {
				srid = fmt.Sprint(v)
			}
		}
		out = append(out, fmt.Sprintf("column %d %q type=%s coll=%s srid=%s nullable=%v default=[%s] generated=[%s] virtual=%v onupdate=[%s] autoinc=%v pk=%v comment=%q extra=%q hidden=%v",
			i, c.Name, c.Type.String(), coll, srid, c.Nullable, ds(c.Default), ds(c.Generated), c.Virtual, ds(c.OnUpdate), c.AutoIncrement, c.PrimaryKey, c.Comment, c.Extra, c.HiddenSystem))
	}
	if pt, ok := tbl.(sql.PrimaryKeyTable); ok {
		out = append(out, fmt.Sprintf("pk-ordinals %v", pt.PrimaryKeySchema(ctx).PkOrdinals))
	}
	if it, ok := tbl.(sql.IndexAddressable); ok {
		idxs, err := it.GetIndexes(ctx)
		if err != nil {
			return nil, err
		}
		var lines []string
		for _, ix := range idxs {
			lines = append(lines, fmt.Sprintf("index %q unique=%v spatial=%v fulltext=%v exprs=%v prefix=%v comment=%q type=%s", ix.ID(), ix.IsUnique(), ix.IsSpatial(), ix.IsFullText(), ix.Expressions(), ix.PrefixLengths(), ix.Comment(), ix.IndexType()))
		}
		sort.Strings(lines)
		out = append(out, lines...)
	}
	if ct, ok := tbl.(sql.CheckTable); ok {
		cks, err := ct.GetChecks(ctx)
		if err != nil {
			return nil, err
		}
		var lines []string
		for _, ck := range cks {
			lines = append(lines, fmt.Sprintf("check %q expr=[%s] enforced=%v", ck.Name, ck.CheckExpression, ck.Enforced))
		}
		sort.Strings(lines)
		out = append(out, lines...)
	}
	if ft, ok := tbl.(sql.ForeignKeyTable); ok {
		fks, err := ft.GetDeclaredForeignKeys(ctx)
		if err != nil {
			return nil, err
		}
		var lines []string
		for _, fk := range fks {
			lines = append(lines, fmt.Sprintf("fk %q cols=%v parent=%s.%s%v ondelete=%s onupdate=%s", fk.Name, fk.Columns, fk.ParentDatabase, fk.ParentTable, fk.ParentColumns, fk.OnDelete, fk.OnUpdate))
		}
		sort.Strings(lines)
		out = append(out, lines...)
	}
	if at, ok := tbl.(sql.AutoIncrementTable); ok {
		if v, err := at.PeekNextAutoIncrementValue(ctx); err == nil {
			out = append(out, fmt.Sprintf("next-auto-increment %d", v))
		}
	}
	_ = types.Null
	return out, nil
}

func diffLines(a, b []string) []string {
	var out []string
	n := len(a)
	if len(b) > n {
		n = len(b)
	}
	for i := 0; i < n; i++ {
		x, y := "<missing>", "<missing>"
		if i < len(a) {
			x = a[i]
		}
		if i < len(b) {
			y = b[i]
		}
		if x != y {
			out = append(out, "A: "+core.Clip(x, 400), "B: "+core.Clip(y, 400))
			if len(out) >= 8 {
				break
			}
		}
	}
	return out
}

// firstDiffFact names the kind of the first differing catalog fact (column, index, check, fk, …).
func firstDiffFact(a, b []string) string {
	for i := 0; i < len(a) || i < len(b); i++ {
		x, y := "", ""
		if i < len(a) {
			x = a[i]
		}
		if i < len(b) {
			y = b[i]
		}
		if x != y {
			w := x
			if w == "" {
				w = y
			}
			f := strings.Fields(w)
			if len(f) == 0 {
				return "?"
			}
			if f[0] == "column" {
				// name the differing attribute
				fx, fy := strings.Fields(x), strings.Fields(y)
				for k := 0; k < len(fx) && k < len(fy); k++ {
					if fx[k] != fy[k] {
						if eq := strings.Index(fx[k], "="); eq > 0 {
							return "column." + fx[k][:eq]
						}
						return "column"
					}
				}
			}
			return f[0]
		}
	}
	return "none"
}

type tableWitness struct {
	Case     int      `json:"case"`
	Setup    []string `json:"setup"`
	Create   string   `json:"create"`
	S1       string   `json:"show_create_A"`
	S2       string   `json:"show_create_B,omitempty"`
	Error    string   `json:"error,omitempty"`
	Diff     []string `json:"diff,omitempty"`
	Features []string `json:"features"`
}

func (c *ctxT) tableCase(rnd *rand.Rand, i int) {
	name := fmt.Sprintf("t%d", i%50)
	if rnd.Intn(12) == 0 {
		name = []string{"my tbl", "select", "t`q", "Ünï", "order"}[rnd.Intn(5)]
	}
	withFK := rnd.Intn(3) == 0
	t := g9blib.GenTable(rnd, name, g9blib.GenOpts{Rich: true, WithFK: withFK})
	var setup []string
	if withFK {
		setup = append(setup, g9blib.ParentDDL)
	}
	c.roundTripTable(t, setup, t.SQL(), i, false)
}

// tableSig decides the signature of a failed table round trip. Known classes (findings/C22.md) are
// recognised by the input feature AND the failure mode observed in S1; anything else gets a
// signature made of the failure mode and the (number-stripped) error or the first differing fact.
func tableSig(t *g9blib.Table, mode string, res *core.Result, s1 string, fact string) string {
	// F26: an ENUM/SET literal default printed as its internal index / bit mask
	for _, col := range t.Cols {
		if (col.T.Class == "enum" || col.T.Class == "set") && col.DefaultLit {
			for _, line := range strings.Split(s1, "\n") {
				if strings.HasPrefix(line, "  "+g9blib.Q(col.Name)+" ") {
					if k := strings.Index(line, " DEFAULT '"); k >= 0 {
						v := line[k+len(" DEFAULT '"):]
						if e := strings.Index(v, "'"); e > 0 && v[:e] != col.DefaultVal && strings.Trim(v[:e], "0123456789") == "" {
							return "enum-set-default-printed-as-index"
						}
					}
				}
			}
		}
	}
	// F27: CHECK over an identifier containing a backtick, printed unescaped -> syntax error
	if mode == "recreate-fails" && res != nil && res.Err != nil && strings.Contains(res.Err.Error(), "syntax error") {
		for _, ck := range t.Checks {
			for _, id := range ck.Idents {
				if strings.Contains(id, "`") {
					return "check-identifier-backtick-unescaped"
				}
			}
		}
	}
	// index comments are printed without escaping
	for _, ix := range t.Indexes {
		if strings.ContainsAny(ix.Comment, "'\\") && strings.Contains(s1, " COMMENT '"+ix.Comment+"'") &&
			(mode == "recreate-fails" || (mode == "show-create-not-fixpoint" && fact == "index")) {
			return "index-comment-unescaped"
		}
	}
	// tables with a VIRTUAL generated column are shown through the VirtualColumnTable wrapper, which
	// hides the table comment, the checks and the primary-key order
	hasVirtual := false
	for _, col := range t.Cols {
		if col.Generated != "" && !col.Stored {
			hasVirtual = true
		}
	}
	if hasVirtual && (mode == "catalog-differs" || mode == "show-create-not-fixpoint") {
		// (a wrong key order can also surface as S2 != S1: an index that a foreign key needs is led by
		// another column after the re-creation, so the engine adds one)
		if t.Comment != "" && !strings.Contains(s1, " COMMENT=") {
			return "virtual-generated-column:show-create-loses-table-comment"
		}
		if pk := t.PKCols(); len(pk) > 1 && fact == "pk-ordinals" {
			var q []string
			for _, c := range pk {
				q = append(q, g9blib.Q(c))
			}
			if !strings.Contains(s1, "PRIMARY KEY ("+strings.Join(q, ",")+")") {
				return "virtual-generated-column:show-create-loses-pk-order"
			}
		}
		if len(t.Checks) > 0 && !strings.Contains(s1, " CHECK (") {
			return "virtual-generated-column:show-create-loses-checks"
		}
	}
	switch mode {
	case "recreate-fails", "show-create-fails":
		return "table:" + mode + ":" + errSig(res)
	}
	return "table:" + mode + ":" + fact
}

// roundTripTable runs the oracle for one table. pinnedRun suppresses counters/violations and
// returns the signature of the failure ("" = held).
func (c *ctxT) roundTripTable(t *g9blib.Table, setup []string, create string, i int, pinnedRun bool) (sig string, wit *tableWitness) {
	r := c.r
	wit = &tableWitness{Case: i, Setup: setup, Create: create, Features: t.Features()}
	a := g9blib.NewEngNamed("d")
	defer a.Close()
	sa := a.NewSess()
	for _, q := range setup {
		sa.MustExec(q)
	}
	res := sa.Exec(create)
	if res.Failed() {
		if res.Panic != nil {
			// a panic on CREATE TABLE is not this property's failure (C10 owns crashes); record it
			if !pinnedRun {
				r.Inconclusive("create-panics")
				r.Count("create-panic:"+res.Panic.Site, 1)
			}
			return "", wit
		}
		if !pinnedRun {
			r.Inconclusive("create-rejected")
			r.Count("create-rejected:"+core.Clip(core.StripVolatile(errOf(res)), 70), 1)
		}
		return "", wit
	}
	fail := func(mode string, res *core.Result, fact string) (string, *tableWitness) {
		s := tableSig(t, mode, res, wit.S1, fact)
		if res != nil {
			wit.Error = errOf(res)
		}
		if !pinnedRun {
			r.Eval(1)
			r.Violation(s, wit)
		}
		return s, wit
	}
	s1, sres := showCreate(sa, "TABLE", t.Name, "Create Table")
	if sres.Failed() {
		return fail("show-create-fails", sres, "")
	}
	wit.S1 = s1
	b := g9blib.NewEngNamed("d")
	defer b.Close()
	sb := b.NewSess()
	for _, q := range setup {
		sb.MustExec(q)
	}
	rb := sb.Exec(s1)
	if rb.TimedOut {
		if !pinnedRun {
			r.Inconclusive("watchdog")
		}
		return "", wit
	}
	if rb.Failed() {
		return fail("recreate-fails", rb, "")
	}
	s2, sres2 := showCreate(sb, "TABLE", t.Name, "Create Table")
	if sres2.Failed() {
		return fail("show-create-fails", sres2, "")
	}
	wit.S2 = s2
	da, errA := describeTable(sa, t.Name)
	db, errB := describeTable(sb, t.Name)
	if errA != nil || errB != nil {
		if !pinnedRun {
			r.Inconclusive("describe-failed")
		}
		return "", wit
	}
	if s1 != s2 {
		wit.Diff = diffLines(strings.Split(s1, "\n"), strings.Split(s2, "\n"))
		return fail("show-create-not-fixpoint", nil, firstDiffFact(da, db))
	}
	if !core.SameStrings(da, db) {
		wit.Diff = diffLines(da, db)
		return fail("catalog-differs", nil, firstDiffFact(da, db))
	}
	// behaviour probe: a defaults-only row (skipped when a default depends on the clock)
	clock := false
	for _, col := range t.Cols {
		if strings.Contains(col.Default, "CURRENT_TIMESTAMP") || col.OnUpdate != "" {
			clock = true
		}
	}
	if !clock {
		q := "INSERT INTO " + g9blib.Q(t.Name) + " () VALUES ()"
		ra, rb2 := sa.Exec(q), sb.Exec(q)
		if ra.Panic == nil && rb2.Panic == nil && !ra.TimedOut && !rb2.TimedOut {
			if (ra.Err == nil) != (rb2.Err == nil) {
				wit.Diff = []string{"A: " + q + " -> " + errOf(ra), "B: " + q + " -> " + errOf(rb2)}
				return fail("default-row-probe-differs", nil, "outcome")
			}
			if ra.Err == nil {
				sel := "SELECT * FROM " + g9blib.Q(t.Name)
				xa, xb := sa.Exec(sel), sb.Exec(sel)
				if !xa.Failed() && !xb.Failed() && !core.SameStrings(core.SortedRows(xa.Rows), core.SortedRows(xb.Rows)) {
					wit.Diff = []string{"A: " + strings.Join(core.SortedRows(xa.Rows), " ; "), "B: " + strings.Join(core.SortedRows(xb.Rows), " ; ")}
					return fail("default-row-probe-differs", nil, "row")
				}
				if !pinnedRun {
					r.Count("default-row-probes", 1)
				}
			}
		}
	}
	if !pinnedRun {
		r.Eval(1)
		r.Count("roundtrip-ok:table", 1)
		for _, f := range t.Features() {
			r.Distinct("table|" + f)
		}
		if i%97 == 0 {
			r.Sample(map[string]any{"kind": "table", "create": create, "show_create": s1, "compared": "S2 == S1, catalog facts equal (" + fmt.Sprint(len(da)) + " lines), defaults-only row equal"})
		}
	}
	return "", wit
}

// ---- views, triggers, procedures ----

type objWitness struct {
	Case   int      `json:"case"`
	Kind   string   `json:"kind"`
	Setup  []string `json:"setup"`
	Create string   `json:"create"`
	S1     string   `json:"show_create_A"`
	S2     string   `json:"show_create_B,omitempty"`
	Error  string   `json:"error,omitempty"`
	Diff   []string `json:"diff,omitempty"`
}

func baseEngine(extra []string) (*core.Eng, *core.Sess) {
	e := g9blib.NewEngNamed("d")
	s := e.NewSess()
	for _, q := range g9blib.BaseDDL {
		s.MustExec(q)
	}
	for _, q := range g9blib.BaseRows {
		s.MustExec(q)
	}
	for _, q := range extra {
		s.MustExec(q)
	}
	return e, s
}

func dumpTables(s *core.Sess) []string {
	var out []string
	// log rows are compared without the auto-increment number: row processing order inside one
	// statement is not defined, so the numbering may legitimately differ between two engines
	for _, t := range []string{"base", "log"} {
		q := "SELECT * FROM base"
		if t == "log" {
			q = "SELECT msg FROM log"
		}
		r := s.Exec(q)
		if r.Failed() {
			out = append(out, t+": ERROR "+r.ErrClass())
			continue
		}
		for _, l := range core.SortedRows(r.Rows) {
			out = append(out, t+": "+l)
		}
	}
	return out
}

// roundTripObj is the oracle for views / triggers / procedures. probe runs the behaviour probe on a
// session and returns its observation.
func (c *ctxT) roundTripObj(kind, showKind, showCol, name string, setup []string, create string, i int, exotic bool, probe func(s *core.Sess) []string, tags []string, pinnedRun bool) (string, *objWitness) {
	r := c.r
	wit := &objWitness{Case: i, Kind: kind, Setup: setup, Create: create}
	a, sa := baseEngine(nil)
	defer a.Close()
	for _, q := range setup {
		if res := sa.Exec(q); res.Failed() {
			if !pinnedRun {
				r.Inconclusive("setup-rejected")
			}
			return "", wit
		}
	}
	res := sa.Exec(create)
	if res.Failed() {
		if !pinnedRun {
			if res.Panic != nil {
				r.Inconclusive("create-panics")
				r.Count("create-panic:"+res.Panic.Site, 1)
			} else {
				r.Inconclusive("create-rejected")
				r.Count("create-rejected:"+kind+":"+core.Clip(core.StripVolatile(errOf(res)), 60), 1)
			}
		}
		return "", wit
	}
	idClass := "plain-name"
	if exotic {
		idClass = "exotic-name"
	}
	fail := func(mode string, res *core.Result, what string) (string, *objWitness) {
		s := kind + ":" + mode + ":" + idClass
		if res != nil {
			wit.Error = errOf(res)
			s += ":" + errSig(res)
		} else if what != "" {
			s += ":" + what
		}
		// known class: SHOW CREATE VIEW prints the view name between backticks without doubling a backtick inside it
		if kind == "view" && strings.Contains(name, "`") && mode == "recreate-fails" && res != nil && res.Err != nil && strings.Contains(res.Err.Error(), "syntax error") {
			s = "view-name-backtick-unescaped"
		}
		if !pinnedRun {
			r.Eval(1)
			r.Violation(s, wit)
		}
		return s, wit
	}
	s1, sres := showCreate(sa, showKind, name, showCol)
	if sres.Failed() {
		return fail("show-create-fails", sres, "")
	}
	wit.S1 = s1
	// B: same base tables and prerequisite objects, then S1
	b, sb := baseEngine(nil)
	defer b.Close()
	for _, q := range setup {
		if res := sb.Exec(q); res.Failed() {
			if !pinnedRun {
				r.Inconclusive("setup-rejected")
			}
			return "", wit
		}
	}
	rb := sb.Exec(s1)
	if rb.TimedOut {
		if !pinnedRun {
			r.Inconclusive("watchdog")
		}
		return "", wit
	}
	if rb.Failed() {
		return fail("recreate-fails", rb, "")
	}
	s2, sres2 := showCreate(sb, showKind, name, showCol)
	if sres2.Failed() {
		return fail("show-create-fails-on-recreated", sres2, "")
	}
	wit.S2 = s2
	if s1 != s2 {
		wit.Diff = diffLines(strings.Split(s1, "\n"), strings.Split(s2, "\n"))
		return fail("show-create-not-fixpoint", nil, "")
	}
	pa, pb := probe(sa), probe(sb)
	if !core.SameStrings(pa, pb) {
		wit.Diff = diffLines(pa, pb)
		return fail("behaviour-probe-differs", nil, "")
	}
	if !pinnedRun {
		r.Eval(1)
		r.Count("roundtrip-ok:"+kind, 1)
		for _, t := range tags {
			r.Distinct(kind + "|" + t)
		}
		if i%211 == 0 {
			r.Sample(map[string]any{"kind": kind, "create": create, "show_create": s1, "probe": core.ClipStrings(pa, 4)})
		}
	}
	return "", wit
}

func resLines(res *core.Result) []string {
	if res.Panic != nil {
		return []string{"PANIC " + res.Panic.Site}
	}
	if res.TimedOut {
		return []string{"TIMEOUT"}
	}
	if res.Err != nil {
		return []string{"ERROR " + res.ErrClass() + " " + core.StripVolatile(res.Err.Error())}
	}
	var cols []string
	for _, c := range res.Schema {
		cols = append(cols, c.Name+":"+c.Type.String())
	}
	return append([]string{"schema " + strings.Join(cols, ",")}, core.SortedRows(res.Rows)...)
}

func exoticName(rnd *rand.Rand, base string, exotic []string) (string, bool) {
	if rnd.Intn(8) == 0 {
		return exotic[rnd.Intn(len(exotic))], true
	}
	return base, false
}

func (c *ctxT) viewCase(rnd *rand.Rand, i int) {
	name, ex := exoticName(rnd, fmt.Sprintf("v%d", i%20), []string{"my view", "select", "v-w", "Vü"}) // a backtick in a view name is a known defect class (pinned)
	v := g9blib.GenView(rnd, name, true)
	tags := []string{"cols=" + fmt.Sprint(len(v.Columns)), "prefix=" + v.Prefix}
	for _, kw := range []string{"WHERE", "UNION", "GROUP BY", "ORDER BY", "(SELECT", "CASE", "COLLATE", "CAST"} {
		if strings.Contains(v.Select, kw) {
			tags = append(tags, kw)
		}
	}
	c.roundTripObj("view", "VIEW", "Create View", v.Name, nil, v.SQL(), i, ex, func(s *core.Sess) []string {
		return resLines(s.Exec("SELECT * FROM " + g9blib.Q(v.Name)))
	}, tags, false)
}

func (c *ctxT) triggerCase(rnd *rand.Rand, i int) {
	name, ex := exoticName(rnd, fmt.Sprintf("trg%d", i%20), []string{"my trg", "select", "t`g", "Tü"})
	timing := []string{"BEFORE", "AFTER"}[rnd.Intn(2)]
	event := []string{"INSERT", "UPDATE", "DELETE"}[rnd.Intn(3)]
	var setup []string
	other := ""
	if rnd.Intn(2) == 0 {
		other = "first_trg"
		o := g9blib.GenTrigger(rnd, other, timing, event, "", false)
		setup = append(setup, o.SQL())
	}
	t := g9blib.GenTrigger(rnd, name, timing, event, other, true)
	dml := map[string]string{
		"INSERT": "INSERT INTO base VALUES (10, 7, 'new', 2.50), (11, 2, NULL, NULL)",
		"UPDATE": "UPDATE base SET a = a + 10, s = concat(coalesce(s, ''), '!') WHERE id <= 3",
		"DELETE": "DELETE FROM base WHERE id >= 3",
	}[event]
	tags := []string{timing + " " + event, "order=" + strings.SplitN(t.Order+" ", " ", 2)[0]}
	if strings.HasPrefix(t.Body, "BEGIN") {
		tags = append(tags, "block-body")
	}
	c.roundTripObj("trigger", "TRIGGER", "SQL Original Statement", t.Name, setup, t.SQL(), i, ex, func(s *core.Sess) []string {
		out := resLines(s.Exec(dml))
		return append(out, dumpTables(s)...)
	}, tags, false)
}

func (c *ctxT) procCase(rnd *rand.Rand, i int) {
	name, ex := exoticName(rnd, fmt.Sprintf("proc%d", i%20), []string{"my proc", "select", "p`q", "Pü"})
	p := g9blib.GenProc(rnd, name, true)
	tags := []string{"params=" + fmt.Sprint(len(p.Params))}
	for _, a := range p.Params {
		tags = append(tags, "mode="+a.Mode)
	}
	for _, ch := range p.Chars {
		tags = append(tags, strings.SplitN(ch, " '", 2)[0])
	}
	c.roundTripObj("procedure", "PROCEDURE", "Create Procedure", p.Name, nil, p.SQL(), i, ex, func(s *core.Sess) []string {
		pre, call, post := p.CallSQL()
		var out []string
		for _, q := range pre {
			s.Exec(q)
		}
		out = append(out, resLines(s.Exec(call))...)
		if post != "" {
			out = append(out, resLines(s.Exec(post))...)
		}
		return append(out, dumpTables(s)...)
	}, tags, false)
}
