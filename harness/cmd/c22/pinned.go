package main

import (
	"fmt"
	"strings"

	"verif/harness/core"
	"verif/harness/g9blib"
)

func intT() g9blib.TypeSpec {
	return g9blib.TypeSpec{SQL: "INT", Class: "int", ColType: "int", DataType: "int", SRID: -1}
}

// pinned replays one hand-written witness per known finding (findings/C22.txt) on every run.
func pinned(c *ctxT) {
	r := c.r
	r.Assume("excluded from the generator's core domain (known findings, pinned witnesses replayed every run): literal DEFAULT on ENUM/SET columns; CHECK over a column whose name contains a backtick; index COMMENT containing a quote or backslash; view names containing a backtick")
	type pw struct {
		sig, what string
		t         *g9blib.Table
	}
	enumT := g9blib.TypeSpec{SQL: "ENUM('a','b,c','d')", Class: "enum", Members: []string{"a", "b,c", "d"}, SRID: -1}
	setT := g9blib.TypeSpec{SQL: "SET('x','y','z')", Class: "set", Members: []string{"x", "y", "z"}, SRID: -1}
	gen := func() *g9blib.Col {
		return &g9blib.Col{Name: "g", T: g9blib.TypeSpec{SQL: "BIGINT", Class: "int", SRID: -1}, Generated: "`a` + 1"}
	}
	for k, w := range []pw{
		{"enum-set-default-printed-as-index", "ENUM/SET literal default is printed as the internal index/bit mask and then rejected or misread",
			&g9blib.Table{Name: "p26", Cols: []*g9blib.Col{{Name: "id", T: intT(), NotNull: true, InlinePK: true},
				{Name: "e", T: enumT, Default: "'b,c'", DefaultVal: "b,c", DefaultLit: true},
				{Name: "s", T: setT, Default: "'x,y'", DefaultVal: "x,y", DefaultLit: true}}}},
		{"check-identifier-backtick-unescaped", "CHECK expression prints a column name containing a backtick without doubling it",
			&g9blib.Table{Name: "p27", Cols: []*g9blib.Col{{Name: "x`y", T: intT()}},
				Checks: []*g9blib.Check{{Name: "ck", Expr: "`x``y` > 0", Idents: []string{"x`y"}}}}},
		{"index-comment-unescaped", "index COMMENT is printed without escaping quotes/backslashes",
			&g9blib.Table{Name: "pic", Cols: []*g9blib.Col{{Name: "a", T: intT()}},
				Indexes: []*g9blib.Index{{Name: "ix", Cols: []g9blib.IdxCol{{Col: "a"}}, Comment: "it's"}}}},
		{"virtual-generated-column:show-create-loses-table-comment", "SHOW CREATE TABLE of a table with a VIRTUAL generated column omits the table comment",
			&g9blib.Table{Name: "pv1", Cols: []*g9blib.Col{{Name: "a", T: intT()}, gen()}, Comment: "hello"}},
		{"virtual-generated-column:show-create-loses-pk-order", "SHOW CREATE TABLE of a table with a VIRTUAL generated column prints the primary key in column order instead of key order",
			&g9blib.Table{Name: "pv2", Cols: []*g9blib.Col{{Name: "a", T: intT(), NotNull: true}, {Name: "b", T: intT(), NotNull: true}, gen()}, PK: []string{"b", "a"}}},
		{"virtual-generated-column:show-create-loses-checks", "SHOW CREATE TABLE of a table with a VIRTUAL generated column omits the CHECK constraints",
			&g9blib.Table{Name: "pv3", Cols: []*g9blib.Col{{Name: "a", T: intT()}, gen()},
				Checks: []*g9blib.Check{{Name: "ck", Expr: "`a` > 0", Idents: []string{"a"}}}}},
	} {
		sig, wit := c.roundTripTable(w.t, nil, w.t.SQL(), 2_000_000+k, true)
		what := fmt.Sprintf("%s [%s -> SHOW CREATE: %s; %s]", w.what, core.Clip(w.t.SQL(), 160), core.Clip(wit.S1, 220), core.Clip(wit.Error, 80))
		what = strings.Join(strings.Fields(what), " ")
		r.Pinned(w.sig, what, sig == w.sig, wit)
		if sig != "" && sig != w.sig {
			r.Violation(sig, wit) // the pinned witness now fails differently
		}
	}
	// view whose name contains a backtick
	v := &g9blib.View{Name: "v`w", Select: "SELECT id, a FROM base"}
	sig, wit := c.roundTripObj("view", "VIEW", "Create View", v.Name, nil, v.SQL(), 2_000_100, true, func(s *core.Sess) []string {
		return resLines(s.Exec("SELECT * FROM " + g9blib.Q(v.Name)))
	}, nil, true)
	r.Pinned("view-name-backtick-unescaped", fmt.Sprintf("SHOW CREATE VIEW prints a view name containing a backtick without doubling it [%s -> %s; %s]", v.SQL(), core.Clip(wit.S1, 120), core.Clip(wit.Error, 80)),
		sig == "view-name-backtick-unescaped", wit)
	if sig != "" && sig != "view-name-backtick-unescaped" {
		r.Violation(sig, wit)
	}
}
