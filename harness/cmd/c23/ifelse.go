package main

// Trigger bodies with IF / ELSEIF / ELSE whose branches mix SET NEW, DML on another table and user-variable
// assignments. The generated trigger sets of runCase use straight-line bodies (plus IF..SIGNAL); here the branch taken
// differs from row to row inside one multi-row INSERT, and every row must be stored with the value its own branch gave
// it, the side table must hold exactly the rows the taken branches wrote, once per row.

import (
	"fmt"
	"sort"
	"strings"

	"verif/harness/core"
)

type ifAct struct {
	kind string // set ins del upd uvar
	k    int64
}

func (a ifAct) sql() string {
	switch a.kind {
	case "set":
		return fmt.Sprintf("SET NEW.v = NEW.id + %d", a.k)
	case "ins":
		return fmt.Sprintf("INSERT INTO side VALUES (NEW.id + %d)", a.k)
	case "del":
		return "DELETE FROM side WHERE id < NEW.id"
	case "upd":
		return "UPDATE side SET id = id + 1000 WHERE id = NEW.id - 1"
	}
	return "SET @c23x = NEW.id"
}

// apply runs the action in the twin; false = a duplicate key is predicted (the case is dropped).
func (a ifAct) apply(id int64, v *int64, side map[int64]bool) bool {
	switch a.kind {
	case "set":
		*v = id + a.k
	case "ins":
		if side[id+a.k] {
			return false
		}
		side[id+a.k] = true
	case "del":
		for k := range side {
			if k < id {
				delete(side, k)
			}
		}
	case "upd":
		if side[id-1] {
			if side[id-1+1000] {
				return false
			}
			delete(side, id-1)
			side[id-1+1000] = true
		}
	}
	return true
}

func ifElseBattery(r *core.Run) {
	n := r.N(120, 1200)
	kinds := []string{"set", "ins", "del", "upd", "uvar", "set", "ins"}
	r.Parallel("ifelse", n, func(i int) {
		rnd := r.Rand("ifelse", i)
		after := rnd.Intn(4) == 0
		nb := 2 + rnd.Intn(2) // IF + ELSE, or IF + ELSEIF + ELSE
		hasElse := rnd.Intn(4) > 0
		var acts []ifAct
		for b := 0; b < nb; b++ {
			k := kinds[rnd.Intn(len(kinds))]
			for after && k == "set" {
				k = kinds[rnd.Intn(len(kinds))]
			}
			acts = append(acts, ifAct{k, int64(100 * (b + 1))})
		}
		thr1, thr2 := int64(3+rnd.Intn(6)), int64(10+rnd.Intn(6))
		var tail *ifAct
		if rnd.Intn(2) == 0 {
			tail = &ifAct{"ins", 500}
		}
		var sb strings.Builder
		timing := "BEFORE"
		if after {
			timing = "AFTER"
		}
		fmt.Fprintf(&sb, "CREATE TRIGGER trg %s INSERT ON t FOR EACH ROW BEGIN IF NEW.id > %d THEN %s; ", timing, thr2, acts[0].sql())
		if nb == 3 {
			fmt.Fprintf(&sb, "ELSEIF NEW.id > %d THEN %s; ", thr1, acts[1].sql())
		}
		if hasElse {
			fmt.Fprintf(&sb, "ELSE %s; ", acts[nb-1].sql())
		}
		sb.WriteString("END IF; ")
		if tail != nil {
			sb.WriteString(tail.sql() + "; ")
		}
		sb.WriteString("END")
		branch := func(id int64) *ifAct {
			switch {
			case id > thr2:
				return &acts[0]
			case nb == 3 && id > thr1:
				return &acts[1]
			case hasElse:
				return &acts[nb-1]
			}
			return nil
		}
		anySet, anyOther := false, false
		used := acts
		if !hasElse {
			used = acts[:nb-1]
		}
		for _, a := range used {
			anySet = anySet || a.kind == "set"
			anyOther = anyOther || a.kind != "set"
		}

		// the twin
		side := map[int64]bool{}
		var setup, vals []string
		for k := 0; k < rnd.Intn(4); k++ {
			b := int64(1 + rnd.Intn(18))
			if !side[b] {
				side[b] = true
				setup = append(setup, fmt.Sprintf("INSERT INTO side VALUES (%d)", b))
			}
		}
		var wantT []string
		id := int64(0)
		taken := map[string]bool{}
		for k := 0; k < 4+rnd.Intn(5); k++ {
			id += int64(1 + rnd.Intn(4))
			v := int64(0)
			if a := branch(id); a != nil {
				taken[a.kind] = true
				if !a.apply(id, &v, side) {
					r.Count("ifelse.case-dropped:duplicate-key-predicted", 1)
					return
				}
			}
			if tail != nil && !tail.apply(id, &v, side) {
				r.Count("ifelse.case-dropped:duplicate-key-predicted", 1)
				return
			}
			vals = append(vals, fmt.Sprintf("(%d, 0)", id))
			wantT = append(wantT, fmt.Sprintf("%d|%d", id, v))
		}
		script := append([]string{"CREATE TABLE t (id INT PRIMARY KEY, v INT)", "CREATE TABLE side (id INT PRIMARY KEY)"}, setup...)
		script = append(script, sb.String(), "INSERT INTO t VALUES "+strings.Join(vals, ", "))

		// a body in which one branch of the IF sets NEW and a sibling branch does something else is the known class
		class := "ifelse-trigger-body"
		if anySet && anyOther {
			class = "ifelse-branch-without-set-new-beside-set-new-branch"
		}
		e := core.NewEng("d")
		defer e.Close()
		ss := e.NewSess()
		outcome := ""
		for k, q := range script {
			res := ss.Exec(q)
			if res.TimedOut {
				r.Inconclusive("ifelse-watchdog")
				return
			}
			if k < len(script)-1 {
				if res.Failed() {
					r.Inconclusive("ifelse-setup-failed:" + res.ErrClass())
					return
				}
				continue
			}
			if res.Panic != nil {
				outcome = "panic"
			} else if res.Err != nil {
				outcome = "statement-failed"
			}
		}
		var wantS []string
		for k := range side {
			wantS = append(wantS, fmt.Sprint(k))
		}
		sort.Strings(wantS)
		sort.Strings(wantT)
		gotT := core.SortedRows(ss.Exec("SELECT id, v FROM t").Rows)
		gotS := core.SortedRows(ss.Exec("SELECT id FROM side").Rows)
		r.Eval(2)
		r.Count("ifelse.rows", int64(len(vals)))
		if outcome == "" && (!core.SameStrings(gotT, wantT) || !core.SameStrings(gotS, wantS)) {
			outcome = "rows-differ"
		}
		if outcome != "" {
			r.Violation(class+":"+outcome, map[string]any{"script": script, "t": gotT, "t-expected": wantT, "side": gotS, "side-expected": wantS, "seed": r.Seed, "case": i})
			return
		}
		var tk []string
		for k := range taken {
			tk = append(tk, k)
		}
		sort.Strings(tk)
		r.Distinct(fmt.Sprintf("ifelse|%s|branches=%d|else=%v|taken=%s|tail=%v", timing, nb, hasElse, strings.Join(tk, "+"), tail != nil))
	})
}
