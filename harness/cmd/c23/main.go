// C23 — triggers fire exactly once per affected row, in order, inside the statement.
//
// One case = a generated trigger set over tables m (user key), m2, m3 (auto-increment keys; written by
// nested statements in trigger bodies: m -> m2 -> m3, depth <= 3) and optionally c (FK child of m, ON
// DELETE CASCADE), followed by ~10 DML statements. Every trigger body first writes one row to the audit
// table (auto-increment sequence, trigger name, OLD/NEW values as it sees them), then optionally
// SETs NEW columns, runs a nested INSERT/UPDATE/DELETE on the next table, or SIGNALs when a value is
// over a threshold. A reference interpreter (model.go) executes the same statement over its own copy
// of the tables and predicts the exact audit sequence, the stored rows, and success/failure.
//
// FOLLOWS/PRECEDES are only a partial order: the order of the triggers of one (table, time, event)
// class is read back from the audit rows of the statement, checked to be a linear extension of
// {creation order among triggers without a clause, a FOLLOWS b => b<a, a PRECEDES b => a<b}, and then
// given to the model, which predicts everything else (every row, nested firings, values).
package main

import (
	"fmt"
	"os"
	"math/rand"
	"strings"

	"verif/harness/core"
)

func main() {
	r := core.NewRun("C23", "exploration",
		"one case = a generated trigger set (0-3 triggers per (table, BEFORE/AFTER, INSERT/UPDATE/DELETE), bodies = audit row + SET NEW / nested DML on the next table / IF..SIGNAL, FOLLOWS/PRECEDES) and 10 DML statements (multi-row, ORDER BY, failing at row k by duplicate key or SIGNAL, FK cascades); after each statement the audit sequence, all tables and the outcome are compared with a reference interpreter; distinct = (statement kind, classes of triggers fired, nesting depth reached, outcome); an IF/ELSE case = one BEFORE/AFTER INSERT trigger whose IF / ELSEIF / ELSE branches mix SET NEW, DML on a side table and user-variable assignments, fired by one multi-row INSERT in which the branch taken varies by row, compared with a row-by-row twin")
	r.Fold(8, 3)
	if d := os.Getenv("C23_DEPTH"); d != "" {
		fmt.Sscan(d, &chainDepth)
	}
	r.Assume("trigger order inside a class is asserted as a partial order (creation order among clause-less triggers, FOLLOWS/PRECEDES pairs); the observed linear extension is fed to the model")
	r.Assume("UPDATEs always change every matched row (MySQL's treatment of no-op row updates is not asserted); every multi-row UPDATE/DELETE carries ORDER BY on the key; all data columns are NOT NULL integers")
	r.Assume("the audit sequence is compared by order and content, not by the absolute auto-increment values (MySQL does not roll the counter back after a failed statement)")
	r.Assume("INSERT .. ON DUPLICATE KEY UPDATE and REPLACE on tables with triggers are outside the core domain (known finding odku-replace-trigger-selection), their pinned witnesses are replayed every run")

	n := r.N(500, 9000)
	r.Parallel("case", n, func(i int) { runCase(r, i) })
	ifElseBattery(r)
	pinned(r)
	r.Floor(r.Counter("ifelse.rows") > 0, "no IF/ELSE trigger body fired")
	r.Floor(r.Counter("fired.nested-depth-2") > 0, "no nested statement of a trigger body fired triggers itself")
	r.Floor(r.Counter("stmt.failed-as-predicted") > 0, "no failing statement")
	r.Floor(r.Counter("order.follows-precedes-checked") > 0, "FOLLOWS/PRECEDES never exercised")
	r.Floor(r.Counter("fired.before-set-new") > 0 && r.Counter("fired.multi-row") > 0, "BEFORE SET NEW or multi-row statements never fired triggers")
	r.Floor(r.Counter("fk-cascade.rows") > 0, "no FK cascade over a table with triggers")
	r.Finish()
}

// ---------- generation ----------

var events = []string{"INSERT", "UPDATE", "DELETE"}
var times = []string{"BEFORE", "AFTER"}

var chainDepth = 3

func nextTable(t string) string {
	switch t {
	case "m":
		return "m2"
	case "m2":
		if chainDepth >= 3 {
			return "m3"
		}
	}
	return ""
}

func genTriggers(rnd *rand.Rand, withC bool) []*trig {
	var out []*trig
	tables := []string{"m", "m2", "m3"}
	if withC {
		tables = append(tables, "c")
	}
	created := 0
	for _, tb := range tables {
		for _, tm := range times {
			for _, ev := range events {
				var n int
				switch p := rnd.Intn(10); {
				case p < 4:
					n = 0
				case p < 7:
					n = 1
				case p < 9:
					n = 2
				default:
					n = 3
				}
				if tb == "m3" && n > 1 {
					n = 1
				}
				var class []*trig
				for j := 0; j < n; j++ {
					created++
					t := &trig{name: fmt.Sprintf("%s_%c%c%d", tb, tm[0], ev[0], j+1), table: tb, time: tm, event: ev, created: created}
					t.name = strings.ToLower(t.name)
					if len(class) > 0 && rnd.Intn(3) == 0 {
						ref := class[rnd.Intn(len(class))].name
						if rnd.Intn(2) == 0 {
							t.follows = ref
						} else {
							t.precedes = ref
						}
					}
					// actions
					na := rnd.Intn(3)
					for k := 0; k < na; k++ {
						t.actions = append(t.actions, genAction(rnd, t))
					}
					class = append(class, t)
					out = append(out, t)
				}
			}
		}
	}
	if os.Getenv("C23_NOFILTER") == "" {
		restrictNesting(out)
	}
	return out
}

// restrictNesting keeps the generated trigger set inside the core domain (known finding
// nested-trigger-firing-corrupts-outer-row-context, via=domain): a nested statement that can itself
// fire triggers (its target table has a trigger for that event) is only kept when nothing of the outer
// row's processing runs after it — it is the last action of an AFTER trigger that is the only trigger
// of its (table, event), BEFORE and AFTER together — and when the triggers it fires do not nest
// further (trigger-firing depth <= 2). Nested statements on tables without a matching trigger are
// unrestricted except inside triggers that are themselves fired by a nested statement.
func restrictNesting(ts []*trig) {
	count := map[string]int{}
	for _, t := range ts {
		count[t.table+"|"+t.event]++
	}
	ev := map[string]string{"insert": "INSERT", "update": "UPDATE", "delete": "DELETE"}
	for _, t := range ts {
		var kept []action
		for i, a := range t.actions {
			if e, nested := ev[a.kind]; nested {
				if t.table != "m" {
					continue // m2's and c's triggers never nest: depth <= 2
				}
				if count[a.target+"|"+e] > 0 && (t.time != "AFTER" || count[t.table+"|"+t.event] != 1 || i != len(t.actions)-1) {
					continue
				}
			}
			if a.kind == "setnew" && t.table == "c" && a.col == "a" {
				continue // c.a is the foreign key column
			}
			if a.kind == "signal" && t.table != "m" && t.table != "c" {
				// triggers that can be fired by a nested statement never fail: a failure inside a nested trigger
				// leaves yet another partial state (same root cause as the F4 findings), outside the two matchers
				continue
			}
			// known finding set-new-not-visible-later-in-same-body (via=domain): after SET NEW.x no later
			// action of the same body reads NEW.x (another SET NEW.x = NEW.x + k included)
			stale := false
			for _, p := range kept {
				if p.kind == "setnew" && (a.e.ref == "new."+p.col || a.e2.ref == "new."+p.col) {
					stale = true
				}
			}
			if stale {
				continue
			}
			kept = append(kept, a)
		}
		t.actions = kept
	}
}

func genRef(rnd *rand.Rand, t *trig) expr {
	var pool []string
	if t.event != "INSERT" {
		pool = append(pool, "old.a", "old.b")
	}
	if t.event != "DELETE" {
		pool = append(pool, "new.a", "new.b")
	}
	return expr{ref: pool[rnd.Intn(len(pool))], k: int64(rnd.Intn(3))}
}

func genAction(rnd *rand.Rand, t *trig) action {
	nt := nextTable(t.table)
	for {
		switch rnd.Intn(6) {
		case 0, 1:
			if t.time == "BEFORE" && t.event != "DELETE" {
				col := "b"
				if rnd.Intn(3) == 0 {
					col = "a"
				}
				e := expr{ref: "new." + col, k: int64(1 + rnd.Intn(3))}
				if rnd.Intn(4) == 0 && t.event == "UPDATE" && col == "b" {
					e = expr{ref: "old.b", k: int64(100 + rnd.Intn(3))}
				}
				return action{kind: "setnew", col: col, e: e}
			}
		case 2:
			if nt != "" {
				return action{kind: "insert", target: nt, e: genRef(rnd, t), e2: genRef(rnd, t)}
			}
		case 3:
			if nt != "" {
				return action{kind: "update", target: nt, e: genRef(rnd, t), k: int64(1 + rnd.Intn(2))}
			}
		case 4:
			if nt != "" && rnd.Intn(2) == 0 {
				return action{kind: "delete", target: nt, e: genRef(rnd, t)}
			}
		case 5:
			if rnd.Intn(3) == 0 {
				return action{kind: "signal", e: genRef(rnd, t), k: int64(6 + rnd.Intn(6))}
			}
		}
	}
}

func (e expr) sql() string {
	if e.ref == "" {
		return fmt.Sprint(e.k)
	}
	r := strings.ToUpper(e.ref[:3]) + e.ref[3:]
	if e.k == 0 {
		return r
	}
	return fmt.Sprintf("%s + %d", r, e.k)
}

func (t *trig) createSQL() string {
	keyed := t.table == "m" || t.table == "c"
	col := func(prefix, c string) string {
		if (prefix == "OLD" && t.event == "INSERT") || (prefix == "NEW" && t.event == "DELETE") {
			return "NULL"
		}
		if c == "id" && !keyed {
			return "NULL"
		}
		return prefix + "." + c
	}
	var b strings.Builder
	fmt.Fprintf(&b, "CREATE TRIGGER %s %s %s ON %s FOR EACH ROW ", t.name, t.time, t.event, t.table)
	if t.follows != "" {
		fmt.Fprintf(&b, "FOLLOWS %s ", t.follows)
	}
	if t.precedes != "" {
		fmt.Fprintf(&b, "PRECEDES %s ", t.precedes)
	}
	fmt.Fprintf(&b, "BEGIN INSERT INTO aud (trg, oid, oa, ob, nid, na, nb) VALUES ('%s', %s, %s, %s, %s, %s, %s); ", t.name,
		col("OLD", "id"), col("OLD", "a"), col("OLD", "b"), col("NEW", "id"), col("NEW", "a"), col("NEW", "b"))
	for _, a := range t.actions {
		switch a.kind {
		case "setnew":
			fmt.Fprintf(&b, "SET NEW.%s = %s; ", a.col, a.e.sql())
		case "insert":
			fmt.Fprintf(&b, "INSERT INTO %s (a, b) VALUES (%s, %s); ", a.target, a.e.sql(), a.e2.sql())
		case "update":
			fmt.Fprintf(&b, "UPDATE %s SET b = b + %d WHERE a = %s ORDER BY k; ", a.target, a.k, a.e.sql())
		case "delete":
			fmt.Fprintf(&b, "DELETE FROM %s WHERE a = %s ORDER BY k; ", a.target, a.e.sql())
		case "signal":
			fmt.Fprintf(&b, "IF %s > %d THEN SIGNAL SQLSTATE '45000' SET MESSAGE_TEXT = 'boom'; END IF; ", a.e.sql(), a.k)
		}
	}
	b.WriteString("END")
	return b.String()
}

// genStmt draws one top-level DML statement given the model's current state.
func genStmt(rnd *rand.Rand, m *model, withC bool) *stmt {
	mt := m.tabs["m"]
	for {
		switch p := rnd.Intn(100); {
		case p < 34: // INSERT INTO m, 1-3 rows, sometimes with a duplicate key at row j
			n := 1 + rnd.Intn(3)
			s := &stmt{kind: "insert", table: "m"}
			used := map[int64]bool{}
			for j := 0; j < n; j++ {
				id := m.freshID()
				for used[id] {
					id++
				}
				if rnd.Intn(9) == 0 && len(mt.rows) > 0 {
					id = mt.rows[rnd.Intn(len(mt.rows))].key // existing key: fails here
				} else if rnd.Intn(14) == 0 && j > 0 {
					id = s.rows[0][0] // duplicate inside the statement
				}
				used[id] = true
				s.rows = append(s.rows, []int64{id, int64(rnd.Intn(9)), int64(rnd.Intn(9))})
			}
			return s
		case p < 52 && len(mt.rows) > 0: // UPDATE m
			s := &stmt{kind: "update", table: "m", setA: int64(1 + rnd.Intn(2)), desc: rnd.Intn(2) == 0}
			if rnd.Intn(2) == 0 {
				s.setB, s.hasSetB = int64(20+rnd.Intn(5)), true
			}
			s.where = genWhere(rnd, mt, true)
			return s
		case p < 66 && len(mt.rows) > 0: // DELETE FROM m
			return &stmt{kind: "delete", table: "m", where: genWhere(rnd, mt, true), desc: rnd.Intn(2) == 0}
		case p < 76: // direct DML on m2
			t2 := m.tabs["m2"]
			switch rnd.Intn(3) {
			case 0:
				s := &stmt{kind: "insert", table: "m2"}
				for j := 0; j <= rnd.Intn(2); j++ {
					s.rows = append(s.rows, []int64{0, int64(rnd.Intn(9)), int64(rnd.Intn(9))})
				}
				return s
			case 1:
				if len(t2.rows) > 0 {
					return &stmt{kind: "update", table: "m2", setBInc: int64(1 + rnd.Intn(2)), where: genWhere(rnd, t2, false)}
				}
			default:
				if len(t2.rows) > 0 {
					return &stmt{kind: "delete", table: "m2", where: genWhere(rnd, t2, false)}
				}
			}
		case p < 86 && withC: // direct DML on the FK child
			tc := m.tabs["c"]
			switch rnd.Intn(3) {
			case 0:
				if len(mt.rows) > 0 {
					return &stmt{kind: "insert", table: "c", rows: [][]int64{{m.freshCID(), mt.rows[rnd.Intn(len(mt.rows))].key, int64(rnd.Intn(9))}}}
				}
			case 1:
				if len(tc.rows) > 0 {
					return &stmt{kind: "update", table: "c", setBInc: int64(1 + rnd.Intn(2)), where: genWhere(rnd, tc, true), desc: rnd.Intn(2) == 0}
				}
			default:
				if len(tc.rows) > 0 {
					return &stmt{kind: "delete", table: "c", where: genWhere(rnd, tc, true), desc: rnd.Intn(2) == 0}
				}
			}
		case p < 100 && len(mt.rows) > 0 && p >= 92: // single-row update by key
			return &stmt{kind: "update", table: "m", setA: 1, where: where{col: "id", op: "=", v: mt.rows[rnd.Intn(len(mt.rows))].key}}
		}
	}
}

func genWhere(rnd *rand.Rand, t *tbl, keyed bool) where {
	r := t.rows[rnd.Intn(len(t.rows))]
	switch rnd.Intn(4) {
	case 0:
		if keyed {
			return where{col: "id", op: ">=", v: r.key}
		}
		return where{col: "a", op: "=", v: r.a}
	case 1:
		return where{col: "a", op: "=", v: r.a}
	case 2:
		return where{col: "a", op: ">=", v: r.a}
	default:
		return where{col: "b", op: "<=", v: r.b}
	}
}

func (w where) sql() string { return fmt.Sprintf("%s %s %d", w.col, w.op, w.v) }

func (s *stmt) sql() string {
	keyCol := "id"
	if s.table == "m2" || s.table == "m3" {
		keyCol = "k"
	}
	switch s.kind {
	case "insert":
		var vs []string
		for _, r := range s.rows {
			if keyCol == "k" {
				vs = append(vs, fmt.Sprintf("(%d, %d)", r[1], r[2]))
			} else {
				vs = append(vs, fmt.Sprintf("(%d, %d, %d)", r[0], r[1], r[2]))
			}
		}
		if keyCol == "k" {
			return fmt.Sprintf("INSERT INTO %s (a, b) VALUES %s", s.table, strings.Join(vs, ", "))
		}
		return fmt.Sprintf("INSERT INTO %s (id, a, b) VALUES %s", s.table, strings.Join(vs, ", "))
	case "update":
		var sets []string
		if s.setA != 0 {
			sets = append(sets, fmt.Sprintf("a = a + %d", s.setA))
		}
		if s.hasSetB {
			sets = append(sets, fmt.Sprintf("b = %d", s.setB))
		}
		if s.setBInc != 0 {
			sets = append(sets, fmt.Sprintf("b = b + %d", s.setBInc))
		}
		return fmt.Sprintf("UPDATE %s SET %s WHERE %s ORDER BY %s%s", s.table, strings.Join(sets, ", "), s.where.sql(), keyCol, descSQL(s.desc))
	default:
		return fmt.Sprintf("DELETE FROM %s WHERE %s ORDER BY %s%s", s.table, s.where.sql(), keyCol, descSQL(s.desc))
	}
}

func descSQL(d bool) string {
	if d {
		return " DESC"
	}
	return ""
}

// ---------- one case ----------

const (
	ddlM   = "CREATE TABLE m (id INT PRIMARY KEY, a INT NOT NULL, b INT NOT NULL)"
	ddlM2  = "CREATE TABLE m2 (k INT AUTO_INCREMENT PRIMARY KEY, a INT NOT NULL, b INT NOT NULL)"
	ddlM3  = "CREATE TABLE m3 (k INT AUTO_INCREMENT PRIMARY KEY, a INT NOT NULL, b INT NOT NULL)"
	ddlC   = "CREATE TABLE c (id INT PRIMARY KEY, a INT NOT NULL, b INT NOT NULL, FOREIGN KEY (a) REFERENCES m (id) ON DELETE CASCADE)"
	ddlAud = "CREATE TABLE aud (seq INT AUTO_INCREMENT PRIMARY KEY, trg VARCHAR(20), oid INT, oa INT, ob INT, nid INT, na INT, nb INT)"
)

type engState struct {
	s       *core.Sess
	lastSeq int64
}

func readAud(s *core.Sess, after int64) ([]audRow, int64, bool) {
	res := s.Exec(fmt.Sprintf("SELECT seq, trg, oid, oa, ob, nid, na, nb FROM aud WHERE seq > %d ORDER BY seq", after))
	if res.Failed() {
		return nil, after, false
	}
	var out []audRow
	last := after
	for _, row := range res.Rows {
		var a audRow
		a.trg = fmt.Sprint(row[1])
		for i := 0; i < 6; i++ {
			a.v[i] = core.Canon(row[2+i])
		}
		out = append(out, a)
		fmt.Sscan(core.Canon(row[0]), &last)
	}
	return out, last, true
}

func readTbl(s *core.Sess, name string) ([]string, bool) {
	key := "k"
	if name == "m" || name == "c" {
		key = "id"
	}
	sel := "a, b"
	if key == "id" {
		sel = "id, a, b"
	}
	res := s.Exec(fmt.Sprintf("SELECT %s FROM %s ORDER BY %s", sel, name, key))
	if res.Failed() {
		return nil, false
	}
	return core.CanonRows(res.Rows), true
}

func runCase(r *core.Run, i int) {
	rnd := r.Rand("case", i)
	withC := rnd.Intn(4) == 0
	e := core.NewEng("d")
	defer e.Close()
	s := e.NewSess()
	setup := []string{ddlM, ddlM2, ddlM3, ddlAud}
	if withC {
		setup = append(setup, ddlC)
	}
	m := newModel(withC)
	// initial rows before any trigger exists
	for id := int64(1); id <= int64(2+rnd.Intn(4)); id++ {
		a, b := int64(rnd.Intn(9)), int64(rnd.Intn(9))
		setup = append(setup, fmt.Sprintf("INSERT INTO m (id, a, b) VALUES (%d, %d, %d)", id, a, b))
		m.tabs["m"].rows = append(m.tabs["m"].rows, &trow{key: id, a: a, b: b})
	}
	for j := 0; j < rnd.Intn(4); j++ {
		a, b := int64(rnd.Intn(9)), int64(rnd.Intn(9))
		setup = append(setup, fmt.Sprintf("INSERT INTO m2 (a, b) VALUES (%d, %d)", a, b))
		m.insertAuto("m2", a, b)
	}
	if withC {
		for id := int64(1); id <= int64(1+rnd.Intn(4)); id++ {
			par := m.tabs["m"].rows[rnd.Intn(len(m.tabs["m"].rows))].key
			b := int64(rnd.Intn(9))
			setup = append(setup, fmt.Sprintf("INSERT INTO c (id, a, b) VALUES (%d, %d, %d)", id, par, b))
			m.tabs["c"].rows = append(m.tabs["c"].rows, &trow{key: id, a: par, b: b})
		}
	}
	trigs := genTriggers(rnd, withC)
	for _, t := range trigs {
		setup = append(setup, t.createSQL())
	}
	for _, q := range setup {
		if res := s.Exec(q); res.Failed() {
			if res.Panic != nil {
				r.Violation("setup:"+res.Panic.Sig(), map[string]any{"case": i, "stmt": q, "panic": res.Panic.Value})
			} else {
				r.Inconclusive("setup-failed:" + res.ErrClass())
			}
			return
		}
	}
	m.setTriggers(trigs)
	es := &engState{s: s}
	var history []string
	nst := 10
	for k := 0; k < nst; k++ {
		st := genStmt(rnd, m, withC)
		q := st.sql()
		history = append(history, q)
		res := s.Exec(q)
		if res.TimedOut {
			r.Inconclusive("timeout")
			return
		}
		wit := func(what string, extra map[string]any) map[string]any {
			w := map[string]any{"case": i, "what": what, "setup": setup, "history": history}
			for k, v := range extra {
				w[k] = v
			}
			return w
		}
		if res.Panic != nil {
			sig := res.Panic.Sig()
			if res.Panic.Site == "sql/plan.OrderTriggers" && m.hasClauses {
				sig = "follows-precedes-misorders-triggers" // same defect: the re-ordering loses a trigger it then cannot find
			}
			r.Violation(sig, wit("panic", map[string]any{"panic": res.Panic.Value, "stack": core.Clip(res.Panic.Stack, 2500)}))
			return
		}
		newAud, lastSeq, ok := readAud(s, es.lastSeq)
		if !ok {
			r.Inconclusive("audit-unreadable")
			return
		}
		es.lastSeq = lastSeq

		// trigger order inside each class: read back, check against the partial order, give it to the model
		if g := m.misordered(newAud); g != "" {
			r.Eval(1)
			r.Violation("follows-precedes-misorders-triggers", wit("in group "+g+" (which contains a FOLLOWS/PRECEDES trigger) the triggers fired per row are not each BEFORE trigger once then each AFTER trigger once", map[string]any{"audit": fmtAud(newAud)}))
			return
		}
		if bad := m.adoptOrders(st.table, newAud); bad != "" {
			r.Eval(1)
			sig := "trigger-order-violates-creation-order"
			if m.groupHasClause(bad) {
				sig = "follows-precedes-misorders-triggers"
			}
			r.Violation(sig, wit("observed trigger order is not a linear extension of the declared partial order: "+bad, map[string]any{"audit": fmtAud(newAud)}))
			return
		}

		out := m.exec(st)
		r.Eval(1)

		// outcome
		gotErr := res.ErrClass()
		if (out.err != "") != (gotErr != "") || (out.err != "" && out.err != gotErr) {
			r.Violation(fmt.Sprintf("outcome:%s:model=%s:engine=%s", st.kind, orOK(out.err), orOK(gotErr)), wit("statement outcome differs from the model",
				map[string]any{"model_err": out.err, "engine_err": fmt.Sprint(res.Err), "audit": fmtAud(newAud), "model_audit": fmtAud(out.aud)}))
			return
		}

		// audit sequence and tables
		stateDiff := func(cand *model, audWant []audRow) string {
			if d := diffAud(audWant, newAud); d != "" {
				return "audit:" + d
			}
			for _, tb := range m.tableNames() {
				got, ok := readTbl(s, tb)
				if !ok {
					return "table-unreadable:" + tb
				}
				if !core.SameStrings(got, cand.dump(tb)) {
					return "table:" + tb
				}
			}
			return ""
		}
		ideal := out.after
		idealAud := out.aud
		if out.err != "" {
			idealAud = nil // a failed statement leaves no trigger effects
		}
		d := stateDiff(ideal, idealAud)
		if d != "" && out.err != "" {
			// F4: is the engine exactly in the state "target table restored, trigger side effects kept", or
			// exactly in the state reached at the point of failure (nothing undone)?
			for _, mode := range []struct {
				sig   string
				state *model
			}{{"trigger-side-effect-survives-failed-stmt", out.sideEffectsKept}, {"failed-stmt-nothing-rolled-back", out.tentative}} {
				if d2 := stateDiff(mode.state, out.aud); d2 == "" {
					r.Violation(mode.sig, wit("the statement failed but effects of it are still there ("+mode.sig+")", map[string]any{"audit_kept": fmtAud(newAud), "first_difference_from_full_rollback": d}))
					if !r.IsKnown(mode.sig) {
						return
					}
					m.become(mode.state)
					r.Count("stmt.failed-as-predicted", 1)
					d = "adopted"
					break
				}
			}
			if d == "adopted" {
				continue
			}
		}
		if d != "" {
			feat := out.features()
			sig := fmt.Sprintf("%s:%s-on-%s:%s", strings.SplitN(d, ":", 2)[0], st.kind, st.table, feat)
			if strings.HasPrefix(d, "table:") {
				sig = fmt.Sprintf("%s:%s-on-%s:%s", d, st.kind, st.table, feat)
			}
			tables := map[string]any{}
			for _, tb := range m.tableNames() {
				got, _ := readTbl(s, tb)
				tables[tb] = map[string]any{"engine": got, "model": ideal.dump(tb)}
			}
			r.Violation(sig, wit("state after the statement differs from the model: "+d, map[string]any{"audit_engine": fmtAud(newAud), "audit_model": fmtAud(idealAud), "tables": tables, "model_err": out.err}))
			return
		}
		m.become(ideal)
		if out.err != "" {
			r.Count("stmt.failed-as-predicted", 1)
		}
		// evidence
		for f, n := range out.counts {
			r.Count(f, int64(n))
		}
		if m.hasClauses {
			r.Count("order.follows-precedes-checked", int64(out.counts["order.classes-with-clause-fired"]))
		}
		r.Distinct(fmt.Sprintf("%s-on-%s|%s|err=%s", st.kind, st.table, out.features(), orOK(out.err)))
		if i%60 == 0 && k == 3 {
			r.Sample(map[string]any{"statement": q, "audit_rows": fmtAud(newAud), "outcome": orOK(gotErr), "triggers": len(trigs)})
		}
	}
}

func orOK(s string) string {
	if s == "" {
		return "ok"
	}
	return s
}

func fmtAud(a []audRow) []string {
	out := make([]string, len(a))
	for i, x := range a {
		out[i] = x.String()
	}
	return core.ClipStrings(out, 60)
}

func diffAud(want, got []audRow) string {
	for i := 0; i < len(want) && i < len(got); i++ {
		if want[i] != got[i] {
			return fmt.Sprintf("entry %d: model %s, engine %s", i, want[i], got[i])
		}
	}
	if len(want) != len(got) {
		return fmt.Sprintf("length: model %d, engine %d", len(want), len(got))
	}
	return ""
}

// ---------- pinned witnesses of known findings ----------

func pinned(r *core.Run) {
	audOf := func(s *core.Sess) []string {
		rows, _, _ := readAud(s, 0)
		out := make([]string, len(rows))
		for i, a := range rows {
			out[i] = a.trg
		}
		return out
	}
	mk := func() (*core.Eng, *core.Sess) {
		e := core.NewEng("d")
		s := e.NewSess()
		s.Exec(ddlM)
		s.Exec(ddlAud)
		for _, tm := range times {
			for _, ev := range events {
				t := &trig{name: strings.ToLower(fmt.Sprintf("%c%c", tm[0], ev[0])), table: "m", time: tm, event: ev}
				s.Exec(t.createSQL())
			}
		}
		s.Exec("INSERT INTO m VALUES (1, 1, 1)")
		s.Exec("DELETE FROM aud")
		return e, s
	}
	// F4: trigger side effects survive a failed statement
	{
		e, s := mk()
		res := s.Exec("INSERT INTO m VALUES (2, 2, 2), (3, 3, 3), (1, 9, 9)")
		got := audOf(s)
		r.Pinned("trigger-side-effect-survives-failed-stmt", fmt.Sprintf("INSERT of 3 rows fails on the 3rd (duplicate key, err=%v) yet the audit rows written by the triggers for rows 1-2 stay: %v", res.Err, got),
			res.Err != nil && len(got) > 0, map[string]any{"audit": got})
		e.Close()
	}
	// F30: ODKU taking the update branch / REPLACE of an existing row select the wrong triggers
	{
		e, s := mk()
		s.Exec("INSERT INTO m VALUES (1, 5, 5) ON DUPLICATE KEY UPDATE a = a + 1")
		got := audOf(s)
		want := []string{"bi", "bu", "au"}
		s.Exec("DELETE FROM aud")
		s.Exec("REPLACE INTO m VALUES (1, 7, 7)")
		got2 := audOf(s)
		want2 := []string{"bi", "bd", "ad", "ai"}
		r.Pinned("odku-replace-trigger-selection", fmt.Sprintf("INSERT .. ON DUPLICATE KEY UPDATE (update branch) fired %v, expected %v; REPLACE of an existing row fired %v, expected %v", got, want, got2, want2),
			!core.SameStrings(got, want) || !core.SameStrings(got2, want2), map[string]any{"odku": got, "replace": got2})
		e.Close()
	}
	run := func(stmts ...string) (*core.Eng, *core.Sess, *core.Result) {
		e := core.NewEng("d")
		s := e.NewSess()
		var last *core.Result
		for _, q := range stmts {
			last = s.Exec(q)
		}
		return e, s, last
	}
	audTrg := "INSERT INTO aud (trg, oid, oa, ob) VALUES "
	// F4, second mode: nothing rolled back
	{
		e, s, res := run(ddlM, ddlAud, "INSERT INTO m VALUES (1, 1, 1), (2, 9, 1)",
			"CREATE TRIGGER ad AFTER DELETE ON m FOR EACH ROW BEGIN "+audTrg+"('ad', OLD.id, OLD.a, OLD.b); IF OLD.a > 5 THEN SIGNAL SQLSTATE '45000' SET MESSAGE_TEXT = 'boom'; END IF; END",
			"DELETE FROM m WHERE id >= 1 ORDER BY id")
		got, _ := readTbl(s, "m")
		want := []string{"1|1|1", "2|9|1"}
		r.Pinned("failed-stmt-nothing-rolled-back", fmt.Sprintf("2-row DELETE whose AFTER DELETE trigger signals on the 2nd row fails (%v) but m is %v, expected %v", res.Err, got, want),
			res.Err != nil && !core.SameStrings(got, want), map[string]any{"m": got})
		e.Close()
	}
	// OrderTriggers
	{
		mkT := func(name, time, clause string) string {
			return "CREATE TRIGGER " + name + " " + time + " DELETE ON m FOR EACH ROW " + clause + " BEGIN " + audTrg + "('" + name + "', OLD.id, OLD.a, OLD.b); END"
		}
		e, s, _ := run(ddlM, ddlAud, "INSERT INTO m VALUES (1, 1, 1)", mkT("bd1", "BEFORE", ""), mkT("bd2", "BEFORE", "PRECEDES bd1"),
			mkT("ad1", "AFTER", ""), mkT("ad2", "AFTER", "FOLLOWS ad1"), mkT("ad3", "AFTER", ""), "DELETE FROM m WHERE id = 1")
		got := audOf(s)
		want := []string{"bd2", "bd1", "ad1", "ad2", "ad3"}
		r.Pinned("follows-precedes-misorders-triggers", fmt.Sprintf("DELETE of one row with bd1, bd2 PRECEDES bd1, ad1, ad2 FOLLOWS ad1, ad3 fired %v, expected %v", got, want),
			!core.SameStrings(got, want), map[string]any{"fired": got})
		e.Close()
	}
	// nested trigger firing corrupts the outer row context (three faces)
	{
		e1, s1, _ := run(ddlM, ddlM2, ddlAud, "INSERT INTO m VALUES (103, 5, 1)", "INSERT INTO m2 (a, b) VALUES (3, 1)",
			"CREATE TRIGGER m_ad1 AFTER DELETE ON m FOR EACH ROW BEGIN "+audTrg+"('m_ad1', OLD.id, OLD.a, OLD.b); UPDATE m2 SET b = b + 1 WHERE a = OLD.b + 2 ORDER BY k; END",
			"CREATE TRIGGER m_ad2 AFTER DELETE ON m FOR EACH ROW BEGIN "+audTrg+"('m_ad2', OLD.id, OLD.a, OLD.b); END",
			"CREATE TRIGGER m2_bu1 BEFORE UPDATE ON m2 FOR EACH ROW BEGIN "+audTrg+"('m2_bu1', NULL, OLD.a, OLD.b); SET NEW.b = OLD.b + 100; END",
			"CREATE TRIGGER m2_au1 AFTER UPDATE ON m2 FOR EACH ROW BEGIN "+audTrg+"('m2_au1', NULL, OLD.a, OLD.b); END",
			"DELETE FROM m WHERE id = 103")
		rows, _, _ := readAud(s1, 0)
		face1 := "missing"
		for _, a := range rows {
			if a.trg == "m_ad2" {
				face1 = a.v[0] + "," + a.v[1] + "," + a.v[2]
			}
		}
		e1.Close()
		e2, _, res2 := run(ddlM, ddlM2, ddlM3, "INSERT INTO m VALUES (2, 1, 5)", "INSERT INTO m2 (a, b) VALUES (5, 0)", "INSERT INTO m2 (a, b) VALUES (3, 7)",
			"CREATE TRIGGER m_bi1 BEFORE INSERT ON m FOR EACH ROW BEGIN UPDATE m2 SET b = b + 2 WHERE a = NEW.a ORDER BY k; END",
			"CREATE TRIGGER m2_au1 AFTER UPDATE ON m2 FOR EACH ROW BEGIN UPDATE m3 SET b = b + 2 WHERE a = OLD.b + 2 ORDER BY k; END",
			"CREATE TRIGGER m3_bu1 BEFORE UPDATE ON m3 FOR EACH ROW BEGIN SET NEW.b = NEW.b + 3; END",
			"INSERT INTO m (id, a, b) VALUES (101, 7, 2), (102, 3, 6), (103, 7, 2)")
		e2.Close()
		e3, _, res3 := run(ddlM, ddlM2, ddlM3, ddlAud,
			"CREATE TRIGGER m_ai1 AFTER INSERT ON m FOR EACH ROW BEGIN INSERT INTO m2 (a, b) VALUES (NEW.b, NEW.b + 2); END",
			"CREATE TRIGGER m_ai2 AFTER INSERT ON m FOR EACH ROW BEGIN "+audTrg+"('m_ai2', NEW.id, NEW.a, NEW.b); END",
			"CREATE TRIGGER m2_ai1 AFTER INSERT ON m2 FOR EACH ROW BEGIN INSERT INTO m3 (a, b) VALUES (NEW.b + 2, NEW.a + 1); END",
			"CREATE TRIGGER m2_ai2 AFTER INSERT ON m2 FOR EACH ROW PRECEDES m2_ai1 BEGIN UPDATE m3 SET b = b + 2 WHERE a = NEW.a ORDER BY k; END",
			"CREATE TRIGGER m3_bu1 BEFORE UPDATE ON m3 FOR EACH ROW BEGIN SET NEW.b = OLD.b + 100; END",
			"INSERT INTO m (id, a, b) VALUES (101, 8, 5), (102, 7, 5)")
		e3.Close()
		fails := face1 != "103,5,1" || res2.Failed() || res3.Failed()
		r.Pinned("nested-trigger-firing-corrupts-outer-row-context", fmt.Sprintf("(1) after m_ad1's nested UPDATE m2 fired m2_bu1 and m2_au1, m_ad2 logs OLD = (%s), expected (103,5,1); (2) 3-row INSERT whose BEFORE trigger updates m2 (whose AFTER UPDATE trigger updates m3) fails: %v; (3) depth-3 chain fails: %v",
			face1, errText(res2), errText(res3)), fails, map[string]any{"face1": face1, "face2": errText(res2), "face3": errText(res3)})
	}
	// SET NEW.x not visible to later statements of the same body
	{
		e, s, _ := run(ddlM, ddlM2, "INSERT INTO m2 (a, b) VALUES (7, 7), (9, 9)",
			"CREATE TRIGGER bi BEFORE INSERT ON m FOR EACH ROW BEGIN SET NEW.b = NEW.b + 2; UPDATE m2 SET b = b + 2 WHERE a = NEW.b ORDER BY k; END",
			"INSERT INTO m VALUES (101, 8, 7)")
		got, _ := readTbl(s, "m2")
		want := []string{"7|7", "9|11"}
		r.Pinned("set-new-not-visible-later-in-same-body", fmt.Sprintf("SET NEW.b = NEW.b + 2; UPDATE m2 .. WHERE a = NEW.b for NEW.b = 7 leaves m2 = %v, expected %v", got, want),
			!core.SameStrings(got, want), map[string]any{"m2": got})
		e.Close()
	}
	// IF block in which one branch sets NEW and the branch taken for a row does not
	for _, c := range []struct{ sig, body, ins string }{
		{"panic", "IF NEW.id > 100 THEN SET NEW.v = 1; ELSE INSERT INTO side VALUES (NEW.id + 50); END IF", "INSERT INTO t VALUES (1, 0), (2, 0)"},
		{"rows-differ", "IF NEW.id > 11 THEN DELETE FROM side WHERE id < NEW.id; ELSEIF NEW.id > 4 THEN SET NEW.v = NEW.id + 200; ELSE SET NEW.v = NEW.id + 300; END IF", "INSERT INTO t VALUES (1, 0), (8, 0), (12, 0)"},
		{"statement-failed", "IF NEW.id > 100 THEN SET NEW.v = -1; ELSE DELETE FROM side WHERE id < NEW.id; END IF; INSERT INTO side VALUES (NEW.id + 1)", "INSERT INTO t VALUES (1, 0), (2, 0), (4, 0), (5, 0)"},
	} {
		e := core.NewEng("d")
		s := e.NewSess()
		s.Exec("CREATE TABLE t (id INT PRIMARY KEY, v INT)")
		s.Exec("CREATE TABLE side (id INT PRIMARY KEY)")
		s.Exec("CREATE TRIGGER trg BEFORE INSERT ON t FOR EACH ROW BEGIN " + c.body + "; END")
		res := s.Exec(c.ins)
		got := core.SortedRows(s.Exec("SELECT id, v FROM t").Rows)
		fails := false
		switch c.sig {
		case "panic":
			fails = res.Panic != nil
		case "statement-failed":
			fails = res.Panic == nil && res.Err != nil
		case "rows-differ":
			fails = res.Panic == nil && res.Err == nil && !core.SameStrings(got, []string{"1|301", "12|0", "8|208"})
		}
		r.Pinned("ifelse-branch-without-set-new-beside-set-new-branch:"+c.sig, fmt.Sprintf("BEFORE INSERT trigger body `%s`; %s: %s, t = %v", c.body, c.ins, orOK(errText(res)), got),
			fails, map[string]any{"body": c.body, "insert": c.ins, "t": got, "outcome": errText(res)})
		e.Close()
	}
}

func errText(r *core.Result) string {
	if r.Panic != nil {
		return "panic: " + r.Panic.Value
	}
	if r.Err != nil {
		return core.Clip(strings.Join(strings.Fields(r.Err.Error()), " "), 90)
	}
	return "ok"
}
