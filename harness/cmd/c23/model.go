package main

import (
	"fmt"
	"sort"
	"strings"
)

// The reference interpreter for C23: tables as ordered row lists, triggers as data, statements as
// data. Per affected row: BEFORE triggers in class order (each sees NEW as left by the previous one),
// the row change, AFTER triggers in class order. A failing row (duplicate key, SIGNAL) fails the whole
// top-level statement, which then has no effect anywhere.

type expr struct {
	ref string // "", "new.a", "new.b", "old.a", "old.b"
	k   int64
}

type action struct {
	kind   string // setnew insert update delete signal
	col    string
	target string
	e, e2  expr
	k      int64
}

type trig struct {
	name, table, time, event string
	actions                  []action
	follows, precedes        string
	created                  int
}

type where struct {
	col, op string
	v       int64
}

type stmt struct {
	kind, table string
	rows        [][]int64 // insert: id, a, b
	setA        int64     // update: a = a + setA
	hasSetB     bool
	setB        int64
	setBInc     int64
	where       where
	desc        bool
}

type trow struct{ key, a, b int64 }

type tbl struct {
	name string
	auto bool
	rows []*trow
	next int64
}

type audRow struct {
	trg string
	v   [6]string // oid oa ob nid na nb (canonical text, NULL for absent)
}

func (a audRow) String() string { return a.trg + "(" + strings.Join(a.v[:], ",") + ")" }

type model struct {
	tabs       map[string]*tbl
	withC      bool
	trigs      []*trig
	order      map[string][]*trig // class "table|time|event" -> firing order
	hasClauses bool
	fresh      int64
	freshC     int64
}

func newModel(withC bool) *model {
	m := &model{tabs: map[string]*tbl{
		"m":  {name: "m"},
		"m2": {name: "m2", auto: true, next: 1},
		"m3": {name: "m3", auto: true, next: 1},
	}, withC: withC, order: map[string][]*trig{}, fresh: 100, freshC: 100}
	if withC {
		m.tabs["c"] = &tbl{name: "c"}
	}
	return m
}

func (m *model) tableNames() []string {
	if m.withC {
		return []string{"m", "m2", "m3", "c"}
	}
	return []string{"m", "m2", "m3"}
}

func (m *model) freshID() int64  { m.fresh++; return m.fresh }
func (m *model) freshCID() int64 { m.freshC++; return m.freshC }

func (m *model) insertAuto(tb string, a, b int64) {
	t := m.tabs[tb]
	t.rows = append(t.rows, &trow{key: t.next, a: a, b: b})
	t.next++
}

func (m *model) clone() *model {
	n := &model{tabs: map[string]*tbl{}, withC: m.withC, trigs: m.trigs, order: m.order, hasClauses: m.hasClauses, fresh: m.fresh, freshC: m.freshC}
	for k, t := range m.tabs {
		nt := &tbl{name: t.name, auto: t.auto, next: t.next}
		for _, r := range t.rows {
			c := *r
			nt.rows = append(nt.rows, &c)
		}
		n.tabs[k] = nt
	}
	return n
}

// become takes over the table state of another model instance.
func (m *model) become(o *model) {
	c := o.clone()
	m.tabs = c.tabs
}

func (m *model) dump(tb string) []string {
	t := m.tabs[tb]
	rows := append([]*trow{}, t.rows...)
	sort.SliceStable(rows, func(i, j int) bool { return rows[i].key < rows[j].key })
	out := make([]string, len(rows))
	for i, r := range rows {
		if t.auto {
			out[i] = fmt.Sprintf("%d|%d", r.a, r.b)
		} else {
			out[i] = fmt.Sprintf("%d|%d|%d", r.key, r.a, r.b)
		}
	}
	return out
}

func classKey(table, time, event string) string { return table + "|" + time + "|" + event }

// setTriggers installs the triggers with MySQL's default placement (creation order; FOLLOWS x right
// after x; PRECEDES x right before x). The actual order used is the one observed (adoptOrders).
func (m *model) setTriggers(ts []*trig) {
	m.trigs = ts
	for _, t := range ts {
		k := classKey(t.table, t.time, t.event)
		cur := m.order[k]
		pos := len(cur)
		if t.follows != "" || t.precedes != "" {
			m.hasClauses = true
			for i, o := range cur {
				if o.name == t.follows {
					pos = i + 1
				}
				if o.name == t.precedes {
					pos = i
				}
			}
		}
		cur = append(cur[:pos:pos], append([]*trig{t}, cur[pos:]...)...)
		m.order[k] = cur
	}
}

// adoptOrders reads, per trigger class, the order of the first firing from the statement's audit rows,
// checks it against the declared partial order and makes it the model's order. Returns a description
// of the violated constraint, or "".
func (m *model) adoptOrders(_ string, aud []audRow) string {
	byName := map[string]*trig{}
	for _, t := range m.trigs {
		byName[t.name] = t
	}
	newOrder := map[string][]*trig{}
	for k, v := range m.order {
		newOrder[k] = v
	}
	seen := map[string]map[string]bool{}
	obs := map[string][]*trig{}
	for _, a := range aud {
		t := byName[a.trg]
		if t == nil {
			return "audit row from unknown trigger " + a.trg
		}
		k := classKey(t.table, t.time, t.event)
		if seen[k] == nil {
			seen[k] = map[string]bool{}
		}
		if !seen[k][t.name] {
			seen[k][t.name] = true
			obs[k] = append(obs[k], t)
		}
	}
	for k, o := range obs {
		// triggers of the class that did not fire (statement aborted mid-row) keep their relative default order at the end
		for _, t := range m.order[k] {
			if !seen[k][t.name] {
				o = append(o, t)
			}
		}
		pos := map[string]int{}
		for i, t := range o {
			pos[t.name] = i
		}
		var plainPrev *trig
		fired := func(t *trig) bool { return seen[k][t.name] }
		// creation order among clause-less triggers
		plain := []*trig{}
		for _, t := range o {
			if t.follows == "" && t.precedes == "" {
				plain = append(plain, t)
			}
		}
		sort.SliceStable(plain, func(i, j int) bool { return plain[i].created < plain[j].created })
		for _, t := range plain {
			if plainPrev != nil && fired(t) && fired(plainPrev) && pos[plainPrev.name] > pos[t.name] {
				return fmt.Sprintf("class %s: %s (created earlier, no clause) fired after %s", k, plainPrev.name, t.name)
			}
			plainPrev = t
		}
		for _, t := range o {
			if t.follows != "" && fired(t) && seen[k][t.follows] && pos[t.follows] > pos[t.name] {
				return fmt.Sprintf("class %s: %s FOLLOWS %s but fired before it", k, t.name, t.follows)
			}
			if t.precedes != "" && fired(t) && seen[k][t.precedes] && pos[t.precedes] < pos[t.name] {
				return fmt.Sprintf("class %s: %s PRECEDES %s but fired after it", k, t.name, t.precedes)
			}
		}
		newOrder[k] = o
	}
	m.order = newOrder
	return ""
}

// ---------- execution ----------

type outcome struct {
	err             string // "", "1062", "1644"
	aud             []audRow
	after           *model // state the statement must leave (the old state when it failed)
	sideEffectsKept *model // failed statement: target table restored, everything the triggers wrote kept (finding F4)
	tentative       *model // failed statement: the state at the point of failure, nothing undone (finding F4, second mode)
	counts          map[string]int
	maxDepth        int
	classes         map[string]bool
	rowsAffected    int
}

func (o *outcome) features() string {
	var cs []string
	for c := range o.classes {
		cs = append(cs, c)
	}
	sort.Strings(cs)
	rows := o.rowsAffected
	if rows > 2 {
		rows = 3
	}
	return fmt.Sprintf("depth=%d,rows=%d,fired=%s", o.maxDepth, rows, strings.Join(cs, "+"))
}

type execErr struct{ class string }

type run struct {
	w   *model
	out *outcome
}

func (m *model) exec(st *stmt) *outcome {
	out := &outcome{counts: map[string]int{}, classes: map[string]bool{}}
	w := m.clone()
	r := &run{w: w, out: out}
	err := r.execStmt(st, 1)
	if err != nil {
		out.err = err.class
		out.after = m.clone()
		kept := w.clone()
		// the failing statement's own target table is restored, the rest keeps what the triggers did
		orig := m.clone()
		kept.tabs[st.table] = orig.tabs[st.table]
		if st.table == "m" && m.withC {
			kept.tabs["c"] = orig.tabs["c"]
		}
		out.sideEffectsKept = kept
		out.tentative = w
		return out
	}
	out.after = w
	return out
}

func cellText(v int64) string { return fmt.Sprint(v) }

func (r *run) audit(t *trig, old, nw *trow) {
	keyed := t.table == "m" || t.table == "c"
	a := audRow{trg: t.name}
	for i := range a.v {
		a.v[i] = "NULL"
	}
	if old != nil {
		if keyed {
			a.v[0] = cellText(old.key)
		}
		a.v[1], a.v[2] = cellText(old.a), cellText(old.b)
	}
	if nw != nil {
		if keyed {
			a.v[3] = cellText(nw.key)
		}
		a.v[4], a.v[5] = cellText(nw.a), cellText(nw.b)
	}
	r.out.aud = append(r.out.aud, a)
}

func eval(e expr, old, nw *trow) int64 {
	switch e.ref {
	case "":
		return e.k
	case "new.a":
		return nw.a + e.k
	case "new.b":
		return nw.b + e.k
	case "old.a":
		return old.a + e.k
	case "old.b":
		return old.b + e.k
	}
	panic("expr " + e.ref)
}

func (r *run) fire(table, time, event string, old, nw *trow, depth int) *execErr {
	k := classKey(table, time, event)
	ts := r.w.order[k]
	if len(ts) == 0 {
		return nil
	}
	if depth > r.out.maxDepth {
		r.out.maxDepth = depth
	}
	r.out.classes[fmt.Sprintf("%s:%c%c", table, time[0], event[0])] = true
	if depth >= 2 {
		r.out.counts[fmt.Sprintf("fired.nested-depth-%d", depth)]++
	}
	clause := false
	for _, t := range ts {
		if t.follows != "" || t.precedes != "" {
			clause = true
		}
		r.audit(t, old, nw)
		r.out.counts["fired.triggers"]++
		for _, a := range t.actions {
			switch a.kind {
			case "setnew":
				v := eval(a.e, old, nw)
				if a.col == "a" {
					nw.a = v
				} else {
					nw.b = v
				}
				r.out.counts["fired.before-set-new"]++
			case "insert":
				st := &stmt{kind: "insert", table: a.target, rows: [][]int64{{0, eval(a.e, old, nw), eval(a.e2, old, nw)}}}
				if err := r.execStmt(st, depth+1); err != nil {
					return err
				}
			case "update":
				st := &stmt{kind: "update", table: a.target, setBInc: a.k, where: where{col: "a", op: "=", v: eval(a.e, old, nw)}}
				if err := r.execStmt(st, depth+1); err != nil {
					return err
				}
			case "delete":
				st := &stmt{kind: "delete", table: a.target, where: where{col: "a", op: "=", v: eval(a.e, old, nw)}}
				if err := r.execStmt(st, depth+1); err != nil {
					return err
				}
			case "signal":
				if eval(a.e, old, nw) > a.k {
					return &execErr{"1644"}
				}
			}
		}
	}
	if clause {
		r.out.counts["order.classes-with-clause-fired"]++
	}
	return nil
}

func (w where) match(r *trow) bool {
	var x int64
	switch w.col {
	case "id", "k":
		x = r.key
	case "a":
		x = r.a
	default:
		x = r.b
	}
	switch w.op {
	case "=":
		return x == w.v
	case ">=":
		return x >= w.v
	default:
		return x <= w.v
	}
}

func (r *run) matched(t *tbl, st *stmt) []*trow {
	var rows []*trow
	for _, x := range t.rows {
		if st.where.match(x) {
			rows = append(rows, x)
		}
	}
	sort.SliceStable(rows, func(i, j int) bool {
		if st.desc {
			return rows[i].key > rows[j].key
		}
		return rows[i].key < rows[j].key
	})
	return rows
}

func (r *run) execStmt(st *stmt, depth int) *execErr {
	t := r.w.tabs[st.table]
	switch st.kind {
	case "insert":
		if len(st.rows) > 1 {
			r.out.counts["fired.multi-row"] += len(r.w.order[classKey(st.table, "BEFORE", "INSERT")]) + len(r.w.order[classKey(st.table, "AFTER", "INSERT")])
		}
		for _, row := range st.rows {
			nw := &trow{key: row[0], a: row[1], b: row[2]}
			if err := r.fire(st.table, "BEFORE", "INSERT", nil, nw, depth); err != nil {
				return err
			}
			if t.auto {
				nw.key = t.next
				t.next++
			} else {
				for _, x := range t.rows {
					if x.key == nw.key {
						return &execErr{"1062"}
					}
				}
			}
			stored := *nw
			t.rows = append(t.rows, &stored)
			if depth == 1 {
				r.out.rowsAffected++
			}
			seen := stored
			if err := r.fire(st.table, "AFTER", "INSERT", nil, &seen, depth); err != nil {
				return err
			}
		}
	case "update":
		rows := r.matched(t, st)
		if len(rows) > 1 {
			r.out.counts["fired.multi-row"] += len(r.w.order[classKey(st.table, "BEFORE", "UPDATE")]) + len(r.w.order[classKey(st.table, "AFTER", "UPDATE")])
		}
		for _, x := range rows {
			old := *x
			nw := *x
			nw.a += st.setA
			if st.hasSetB {
				nw.b = st.setB
			}
			nw.b += st.setBInc
			if err := r.fire(st.table, "BEFORE", "UPDATE", &old, &nw, depth); err != nil {
				return err
			}
			*x = nw
			if depth == 1 {
				r.out.rowsAffected++
			}
			seen := nw
			if err := r.fire(st.table, "AFTER", "UPDATE", &old, &seen, depth); err != nil {
				return err
			}
		}
	case "delete":
		rows := r.matched(t, st)
		if len(rows) > 1 {
			r.out.counts["fired.multi-row"] += len(r.w.order[classKey(st.table, "BEFORE", "DELETE")]) + len(r.w.order[classKey(st.table, "AFTER", "DELETE")])
		}
		for _, x := range rows {
			old := *x
			if err := r.fire(st.table, "BEFORE", "DELETE", &old, nil, depth); err != nil {
				return err
			}
			for i, y := range t.rows {
				if y == x {
					t.rows = append(t.rows[:i:i], t.rows[i+1:]...)
					break
				}
			}
			if st.table == "m" && r.w.withC {
				// ON DELETE CASCADE: the child rows go away and fire no triggers
				c := r.w.tabs["c"]
				var keep []*trow
				for _, y := range c.rows {
					if y.a == old.key {
						if len(r.w.order[classKey("c", "BEFORE", "DELETE")])+len(r.w.order[classKey("c", "AFTER", "DELETE")]) > 0 {
							r.out.counts["fk-cascade.rows"]++
						}
						continue
					}
					keep = append(keep, y)
				}
				c.rows = keep
			}
			if depth == 1 {
				r.out.rowsAffected++
			}
			if err := r.fire(st.table, "AFTER", "DELETE", &old, nil, depth); err != nil {
				return err
			}
		}
	}
	return nil
}

// misordered looks for the failure mode of finding follows-precedes-misorders-triggers: in a (table,
// event) group that contains a FOLLOWS/PRECEDES trigger, the names fired per row are not "every BEFORE
// trigger once, then every AFTER trigger once" (some fire twice, others never). Returns the group.
func (m *model) misordered(aud []audRow) string {
	byName := map[string]*trig{}
	groups := map[string][]*trig{}
	for _, t := range m.trigs {
		byName[t.name] = t
		g := t.table + "|" + t.event
		groups[g] = append(groups[g], t)
	}
	for g, ts := range groups {
		clause := false
		nb := 0
		for _, t := range ts {
			if t.follows != "" || t.precedes != "" {
				clause = true
			}
			if t.time == "BEFORE" {
				nb++
			}
		}
		if !clause {
			continue
		}
		var names []*trig
		for _, a := range aud {
			if t := byName[a.trg]; t != nil && t.table+"|"+t.event == g {
				names = append(names, t)
			}
		}
		L := len(ts)
		for pos := 0; pos < len(names); pos += L {
			end := pos + L
			if end > len(names) {
				end = len(names)
			}
			seen := map[string]bool{}
			for i, t := range names[pos:end] {
				if seen[t.name] {
					return g
				}
				seen[t.name] = true
				if (i < nb) != (t.time == "BEFORE") {
					return g
				}
			}
		}
	}
	return ""
}

// groupHasClause tells whether the (table, event) group named in an adoptOrders complaint ("class
// table|TIME|EVENT: ...") contains a FOLLOWS/PRECEDES trigger (BEFORE and AFTER together, because
// plan.OrderTriggers orders them in one list).
func (m *model) groupHasClause(complaint string) bool {
	f := strings.Fields(complaint)
	if len(f) < 2 {
		return false
	}
	parts := strings.Split(strings.TrimSuffix(f[1], ":"), "|")
	if len(parts) != 3 {
		return false
	}
	for _, t := range m.trigs {
		if t.table == parts[0] && t.event == parts[2] && (t.follows != "" || t.precedes != "") {
			return true
		}
	}
	return false
}
