package main

import (
	"fmt"
	"os"
	"math/rand"
	"strings"
)

// ---------- procedure AST ----------

type pexpr struct {
	kind string // lit null var bin cmp and or not length
	op   string
	l, r *pexpr
	v    int64
	name string
}

type handler struct {
	exit    bool   // EXIT or CONTINUE
	cond    string // SQLEXCEPTION | NOT FOUND
	setVar  string
	setExpr *pexpr
}

type decl struct {
	name  string
	isStr bool
	def   *pexpr // nil: no DEFAULT (NULL)
	defS  string
}

type pstmt struct {
	kind string // set setstr if case csearch while repeat loop leave iterate block log logstr select signal kins call curloop

	name  string // set target / label / call target
	e     *pexpr
	sval  string // setstr: appended literal
	conds []*pexpr
	arms  [][]*pstmt // if/elseif arms, case arms
	vals  []int64    // simple case WHEN values
	els   []*pstmt
	hasEl bool
	body  []*pstmt

	// loops: counter variable and bound make progress certain
	cnt   string
	bound int64

	// block
	decls    []decl
	handlers []handler

	// call
	args    []*pexpr // IN: expression; OUT/INOUT: var
	preNull []string // variables handed to OUT parameters: set to NULL right before the CALL

	// curloop
	curDesc bool
	curMin  int64
	cx, cy  string
}

type param struct {
	name string
	mode string // IN OUT INOUT
}

type proc struct {
	name   string
	params []param
	body   *pstmt // a block
}

// ---------- rendering ----------

func (e *pexpr) sql() string {
	switch e.kind {
	case "lit":
		if e.v < 0 {
			return fmt.Sprintf("(%d)", e.v)
		}
		return fmt.Sprint(e.v)
	case "null":
		return "NULL"
	case "var":
		return e.name
	case "bin", "cmp":
		return "(" + e.l.sql() + " " + e.op + " " + e.r.sql() + ")"
	case "and":
		return "(" + e.l.sql() + " AND " + e.r.sql() + ")"
	case "or":
		return "(" + e.l.sql() + " OR " + e.r.sql() + ")"
	case "not":
		return "(NOT " + e.l.sql() + ")"
	case "length":
		return "LENGTH(" + e.name + ")"
	}
	panic("expr kind " + e.kind)
}

func renderStmts(ss []*pstmt) string {
	var b strings.Builder
	for _, s := range ss {
		b.WriteString(s.sql())
		b.WriteString("; ")
	}
	return b.String()
}

func (s *pstmt) sql() string {
	switch s.kind {
	case "set":
		return "SET " + s.name + " = " + s.e.sql()
	case "setstr":
		return "SET " + s.name + " = CONCAT(" + s.name + ", '" + s.sval + "')"
	case "log":
		return "INSERT INTO plog (v) VALUES (" + s.e.sql() + ")"
	case "logstr":
		return "INSERT INTO plog (v) VALUES (" + s.name + ")"
	case "select":
		// only the last result set of a CALL is observable in-process: mirror every SELECT into the log
		return "SELECT " + s.e.sql() + "; INSERT INTO plog (v) VALUES (" + s.e.sql() + ")"
	case "signal":
		return "SIGNAL SQLSTATE '45000' SET MESSAGE_TEXT = 'boom'"
	case "kins":
		return "INSERT INTO kt VALUES (" + s.e.sql() + ")"
	case "leave":
		return "LEAVE " + s.name
	case "iterate":
		return "ITERATE " + s.name
	case "if":
		var b strings.Builder
		for i, c := range s.conds {
			if i == 0 {
				b.WriteString("IF ")
			} else {
				b.WriteString("ELSEIF ")
			}
			b.WriteString(c.sql() + " THEN " + renderStmts(s.arms[i]))
		}
		if s.hasEl {
			b.WriteString("ELSE " + renderStmts(s.els))
		}
		b.WriteString("END IF")
		return b.String()
	case "case":
		var b strings.Builder
		b.WriteString("CASE " + s.e.sql() + " ")
		for i, v := range s.vals {
			b.WriteString(fmt.Sprintf("WHEN %d THEN %s", v, renderStmts(s.arms[i])))
		}
		if s.hasEl {
			b.WriteString("ELSE " + renderStmts(s.els))
		}
		b.WriteString("END CASE")
		return b.String()
	case "csearch":
		var b strings.Builder
		b.WriteString("CASE ")
		for i, c := range s.conds {
			b.WriteString("WHEN " + c.sql() + " THEN " + renderStmts(s.arms[i]))
		}
		if s.hasEl {
			b.WriteString("ELSE " + renderStmts(s.els))
		}
		b.WriteString("END CASE")
		return b.String()
	case "while":
		return fmt.Sprintf("%s: WHILE %s < %d DO SET %s = %s + 1; %sEND WHILE %s", s.name, s.cnt, s.bound, s.cnt, s.cnt, renderStmts(s.body), s.name)
	case "repeat":
		return fmt.Sprintf("%s: REPEAT SET %s = %s + 1; %sUNTIL %s >= %d END REPEAT %s", s.name, s.cnt, s.cnt, renderStmts(s.body), s.cnt, s.bound, s.name)
	case "loop":
		return fmt.Sprintf("%s: LOOP SET %s = %s + 1; IF %s > %d THEN LEAVE %s; END IF; %sEND LOOP %s", s.name, s.cnt, s.cnt, s.cnt, s.bound, s.name, renderStmts(s.body), s.name)
	case "block":
		var b strings.Builder
		b.WriteString("BEGIN ")
		for _, d := range s.decls {
			if d.isStr {
				b.WriteString(fmt.Sprintf("DECLARE %s VARCHAR(60) DEFAULT '%s'; ", d.name, d.defS))
			} else if d.def != nil {
				b.WriteString(fmt.Sprintf("DECLARE %s INT DEFAULT %s; ", d.name, d.def.sql()))
			} else {
				b.WriteString(fmt.Sprintf("DECLARE %s INT; ", d.name))
			}
		}
		for _, h := range s.handlers {
			k := "CONTINUE"
			if h.exit {
				k = "EXIT"
			}
			b.WriteString(fmt.Sprintf("DECLARE %s HANDLER FOR %s SET %s = %s; ", k, h.cond, h.setVar, h.setExpr.sql()))
		}
		b.WriteString(renderStmts(s.body))
		b.WriteString("END")
		return b.String()
	case "call":
		as := make([]string, len(s.args))
		for i, a := range s.args {
			as[i] = a.sql()
		}
		pre := ""
		for _, v := range s.preNull {
			pre += "SET " + v + " = NULL; " // see known finding out-param-not-reset-to-null
		}
		return pre + "CALL " + s.name + "(" + strings.Join(as, ", ") + ")"
	case "curloop":
		ord := ""
		if s.curDesc {
			ord = " DESC"
		}
		return fmt.Sprintf("BEGIN DECLARE %s_done INT DEFAULT 0; DECLARE %s INT; DECLARE %s INT; DECLARE %s_cur CURSOR FOR SELECT sid, sval FROM src WHERE sval >= %d ORDER BY sid%s; "+
			"DECLARE CONTINUE HANDLER FOR NOT FOUND SET %s_done = 1; OPEN %s_cur; %s: LOOP FETCH %s_cur INTO %s, %s; IF %s_done = 1 THEN LEAVE %s; END IF; %sEND LOOP %s; CLOSE %s_cur; END",
			s.name, s.cx, s.cy, s.name, s.curMin, ord, s.name, s.name, s.name, s.name, s.cx, s.cy, s.name, s.name, renderStmts(s.body), s.name, s.name)
	}
	panic("stmt kind " + s.kind)
}

func (p *proc) createSQL() string {
	ps := make([]string, len(p.params))
	for i, a := range p.params {
		ps[i] = a.mode + " " + a.name + " INT"
	}
	return "CREATE PROCEDURE " + p.name + "(" + strings.Join(ps, ", ") + ") " + p.body.sql()
}

// ---------- generation ----------

type gen struct {
	rnd      *rand.Rand
	pfx      string   // name prefix unique to the procedure (parameters of earlier CALLs leak into later name resolution)
	ints     []string // int variables in scope
	strs     []string
	labels   []string // enclosing loop labels
	lkinds   map[string]string
	nlabel   int
	nvar     int
	depth    int
	callees  []*proc
	inLoop   int
	feat     map[string]bool
	noSelect bool            // known finding nested-call-result-set-dropped: procedures that are CALLed by others have no SELECT
	noShadow map[string]bool // handler targets are never shadowed (known finding handler-body-resolves-names-in-raising-scope)
}

func lit(v int64) *pexpr       { return &pexpr{kind: "lit", v: v} }
func vr(n string) *pexpr       { return &pexpr{kind: "var", name: n} }
func (g *gen) pickInt() string { return g.ints[g.rnd.Intn(len(g.ints))] }

func (g *gen) intExpr(d int) *pexpr {
	r := g.rnd
	if d <= 0 || r.Intn(3) == 0 {
		switch p := r.Intn(10); {
		case p < 5 && len(g.ints) > 0:
			return vr(g.pickInt())
		case p < 6:
			return &pexpr{kind: "null"}
		case p < 7 && len(g.strs) > 0:
			return &pexpr{kind: "length", name: g.strs[r.Intn(len(g.strs))]}
		default:
			return lit(int64(r.Intn(7)) - 1)
		}
	}
	op := []string{"+", "-", "+", "*"}[r.Intn(4)]
	if op == "*" {
		return &pexpr{kind: "bin", op: "*", l: g.intExpr(d - 1), r: lit(int64(r.Intn(3)))}
	}
	return &pexpr{kind: "bin", op: op, l: g.intExpr(d - 1), r: g.intExpr(d - 1)}
}

func (g *gen) cond(d int) *pexpr {
	r := g.rnd
	if d > 0 && r.Intn(4) == 0 {
		switch r.Intn(3) {
		case 0:
			return &pexpr{kind: "and", l: g.cond(d - 1), r: g.cond(d - 1)}
		case 1:
			return &pexpr{kind: "or", l: g.cond(d - 1), r: g.cond(d - 1)}
		default:
			return &pexpr{kind: "not", l: g.cond(d - 1)}
		}
	}
	op := []string{"<", "<=", "=", "<>", ">", ">="}[r.Intn(6)]
	return &pexpr{kind: "cmp", op: op, l: g.intExpr(1), r: g.intExpr(1)}
}

func (g *gen) newVar() string { g.nvar++; return fmt.Sprintf("%sv%d", g.pfx, g.nvar) }
func (g *gen) newLabel() string {
	g.nlabel++
	return fmt.Sprintf("%sl%d", g.pfx, g.nlabel)
}

func (g *gen) stmts(n int) []*pstmt {
	var out []*pstmt
	for i := 0; i < n; i++ {
		out = append(out, g.stmt())
	}
	return out
}

// block generates BEGIN..END with declarations (possibly shadowing outer names), optional handlers, body.
func (g *gen) block(nbody int, top bool) *pstmt {
	r := g.rnd
	b := &pstmt{kind: "block"}
	saveI, saveS := len(g.ints), len(g.strs)
	nd := 1 + r.Intn(3)
	declared := map[string]bool{}
	for i := 0; i < nd; i++ {
		name := g.newVar()
		if !top && len(g.ints) > 0 && r.Intn(3) == 0 {
			if cand := g.pickInt(); !g.noShadow[cand] {
				name = cand // shadow an outer variable (or a parameter)
				g.feat["shadowing"] = true
			}
		}
		if declared[name] {
			continue
		}
		declared[name] = true
		d := decl{name: name}
		// always with DEFAULT: known finding declare-without-default-is-zero-not-null (via=domain)
		d.def = lit(int64(r.Intn(6)))
		b.decls = append(b.decls, d)
		g.ints = append(g.ints, name)
	}
	if r.Intn(3) == 0 {
		name := g.newVar()
		b.decls = append(b.decls, decl{name: name, isStr: true, defS: []string{"", "a", "xy"}[r.Intn(3)]})
		g.strs = append(g.strs, name)
		g.feat["string-var"] = true
	}
	// handlers only in the outermost block of a procedure: known finding handler-outlives-its-block (via=domain)
	if top && r.Intn(2) == 0 {
		h := handler{exit: r.Intn(2) == 0, cond: "SQLEXCEPTION", setVar: g.pickInt(), setExpr: lit(int64(40 + r.Intn(9)))}
		g.noShadow[h.setVar] = true
		b.handlers = append(b.handlers, h)
		if h.exit {
			g.feat["exit-handler"] = true
		} else {
			g.feat["continue-handler"] = true
		}
	}
	g.depth++
	b.body = g.stmts(nbody)
	g.depth--
	g.ints, g.strs = g.ints[:saveI], g.strs[:saveS]
	return b
}

func (g *gen) loopBody() []*pstmt {
	g.depth++
	g.inLoop++
	b := g.stmts(1 + g.rnd.Intn(3))
	g.inLoop--
	g.depth--
	return b
}

func (g *gen) stmt() *pstmt {
	r := g.rnd
	deep := g.depth >= 3 || (small && g.depth >= 2)
	for {
		switch p := r.Intn(100); {
		case p < 18:
			return &pstmt{kind: "set", name: g.pickInt(), e: g.intExpr(2)}
		case p < 30:
			return &pstmt{kind: "log", e: g.intExpr(2)}
		case p < 35 && !g.noSelect:
			g.feat["select-expr"] = true
			return &pstmt{kind: "select", e: g.intExpr(1)}
		case p < 40 && len(g.strs) > 0:
			s := g.strs[r.Intn(len(g.strs))]
			if r.Intn(2) == 0 {
				return &pstmt{kind: "setstr", name: s, sval: []string{"b", "cd", ""}[r.Intn(3)]}
			}
			return &pstmt{kind: "logstr", name: s}
		case p < 52 && !deep:
			s := &pstmt{kind: "if"}
			n := 1 + r.Intn(3)
			for i := 0; i < n; i++ {
				s.conds = append(s.conds, g.cond(1))
				g.depth++
				s.arms = append(s.arms, g.stmts(1+r.Intn(2)))
				g.depth--
			}
			if n > 1 {
				g.feat["elseif"] = true
			}
			if r.Intn(2) == 0 {
				s.hasEl = true
				g.depth++
				s.els = g.stmts(1 + r.Intn(2))
				g.depth--
			}
			return s
		case p < 58 && !deep:
			s := &pstmt{kind: "case", e: g.intExpr(1)}
			n := 1 + r.Intn(3)
			used := map[int64]bool{}
			for i := 0; i < n; i++ {
				v := int64(r.Intn(6))
				if used[v] {
					continue
				}
				used[v] = true
				s.vals = append(s.vals, v)
				g.depth++
				s.arms = append(s.arms, g.stmts(1))
				g.depth--
			}
			if r.Intn(3) != 0 {
				s.hasEl = true
				g.depth++
				s.els = g.stmts(1)
				g.depth--
			} else {
				g.feat["case-without-else"] = true
			}
			g.feat["simple-case"] = true
			return s
		case p < 63 && !deep:
			s := &pstmt{kind: "csearch"}
			n := 1 + r.Intn(2)
			for i := 0; i < n; i++ {
				s.conds = append(s.conds, g.cond(1))
				g.depth++
				s.arms = append(s.arms, g.stmts(1))
				g.depth--
			}
			if r.Intn(3) != 0 {
				s.hasEl = true
				g.depth++
				s.els = g.stmts(1)
				g.depth--
			} else {
				g.feat["case-without-else"] = true
			}
			g.feat["searched-case"] = true
			return s
		case p < 75 && !deep && g.inLoop < 3:
			// loops: wrapped in a block that owns the counter, so the counter cannot be touched from outside
			kind := []string{"while", "repeat", "loop"}[r.Intn(3)]
			lbl := g.newLabel()
			cnt := g.newVar()
			lp := &pstmt{kind: kind, name: lbl, cnt: cnt, bound: int64(1 + r.Intn(3))}
			g.labels = append(g.labels, lbl)
			g.lkinds[lbl] = kind
			g.ints = append(g.ints, cnt) // readable inside; the generator never SETs it (see "set" guard below)
			lp.body = g.loopBody()
			g.ints = g.ints[:len(g.ints)-1]
			g.labels = g.labels[:len(g.labels)-1]
			stripSets(lp.body, cnt)
			g.feat[kind] = true
			return &pstmt{kind: "block", decls: []decl{{name: cnt, def: lit(0)}}, body: []*pstmt{lp}}
		case p < 80 && len(g.labels) > 0:
			lbl := g.labels[r.Intn(len(g.labels))]
			k := "leave"
			if r.Intn(2) == 0 && g.lkinds[lbl] != "repeat" {
				k = "iterate" // never to a REPEAT label: ITERATE restarts the body without testing UNTIL
			}
			if lbl != g.labels[len(g.labels)-1] {
				g.feat[k+"-outer-label"] = true
			}
			g.feat[k] = true
			// always guarded, otherwise the rest of the body would be dead code
			return &pstmt{kind: "if", conds: []*pexpr{g.cond(1)}, arms: [][]*pstmt{{{kind: k, name: lbl}}}}
		case p < 86 && !deep:
			g.feat["nested-block"] = true
			return g.block(1+r.Intn(3), false)
		case p < 89:
			g.feat["signal"] = true
			return &pstmt{kind: "if", conds: []*pexpr{g.cond(1)}, arms: [][]*pstmt{{{kind: "signal"}}}}
		case p < 92:
			g.feat["duplicate-key-insert"] = true
			return &pstmt{kind: "kins", e: lit(int64(r.Intn(3)))}
		case p < 96 && len(g.callees) > 0 && g.inLoop == 0:
			c := g.callees[r.Intn(len(g.callees))]
			s := &pstmt{kind: "call", name: c.name}
			usedOut := map[string]bool{}
			aliased := false
			for _, pa := range c.params {
				if pa.mode == "IN" {
					a := g.intExpr(1)
					if a.kind == "var" {
						// known finding in-param-assignment-leaks-to-caller (via=domain): never a bare variable
						a = &pexpr{kind: "bin", op: "+", l: a, r: lit(0)}
					}
					s.args = append(s.args, a)
				} else {
					v := g.pickInt()
					for tries := 0; usedOut[v] && tries < 20; tries++ {
						v = g.pickInt()
					}
					if usedOut[v] {
						aliased = true // not enough distinct variables: passing one variable to two OUT/INOUT parameters is ambiguous
					}
					usedOut[v] = true
					s.args = append(s.args, vr(v))
					if pa.mode == "OUT" {
						s.preNull = append(s.preNull, v)
					}
				}
			}
			if aliased {
				continue
			}
			g.feat["nested-call"] = true
			return s
		case p < 100 && !deep && g.inLoop < 2:
			lbl := g.newLabel()
			s := &pstmt{kind: "curloop", name: lbl, curDesc: r.Intn(2) == 0, curMin: int64(r.Intn(25)), cx: g.newVar(), cy: g.newVar()}
			g.labels = append(g.labels, lbl)
			g.ints = append(g.ints, s.cx, s.cy)
			s.body = g.loopBody()
			g.ints = g.ints[:len(g.ints)-2]
			g.labels = g.labels[:len(g.labels)-1]
			stripSets(s.body, s.cx)
			g.feat["cursor-loop"] = true
			return s
		}
	}
}

// stripSets turns assignments to a protected variable (loop counter) into log statements, recursively.
func stripSets(ss []*pstmt, name string) {
	for _, s := range ss {
		if s.kind == "set" && s.name == name {
			s.kind = "log"
		}
		if s.kind == "call" {
			for i, a := range s.args {
				if a.kind == "var" && a.name == name {
					s.args[i] = lit(1) // would be an OUT argument: keep the counter out of it
					s.kind = "log"
					s.e = lit(1)
					s.preNull = nil
				}
			}
		}
		for _, h := range s.handlers {
			_ = h
		}
		for i := range s.handlers {
			if s.handlers[i].setVar == name {
				s.handlers = append(s.handlers[:i:i], s.handlers[i+1:]...)
				break
			}
		}
		for _, a := range s.arms {
			stripSets(a, name)
		}
		stripSets(s.els, name)
		stripSets(s.body, name)
		for _, d := range s.decls {
			_ = d
		}
	}
}

var small = os.Getenv("C24_SMALL") != ""

func genProc(rnd *rand.Rand, idx int, callees []*proc, feat map[string]bool, isCallee bool) *proc {
	g := &gen{rnd: rnd, pfx: fmt.Sprintf("p%d", idx), callees: callees, feat: feat, lkinds: map[string]string{}, noSelect: isCallee, noShadow: map[string]bool{}}
	p := &proc{name: fmt.Sprintf("proc%d", idx)}
	np := 1 + rnd.Intn(3)
	for i := 0; i < np; i++ {
		mode := []string{"IN", "IN", "OUT", "INOUT"}[rnd.Intn(4)]
		if isCallee {
			mode = "IN" // known finding nested-call-param-state-persists (via=domain): callees take IN parameters only
		}
		name := fmt.Sprintf("%sa%d", g.pfx, i+1)
		p.params = append(p.params, param{name: name, mode: mode})
		g.ints = append(g.ints, name)
		feat["param-"+mode] = true
	}
	nb := 2 + rnd.Intn(4)
	if small {
		nb = 1 + rnd.Intn(2)
	}
	p.body = g.block(nb, true)
	return p
}
