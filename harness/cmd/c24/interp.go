package main

import (
	"fmt"
	"sort"
)

// ---------- reference interpreter ----------

type value struct {
	null  bool
	isStr bool
	i     int64
	s     string
}

var vnull = value{null: true}

func vint(i int64) value { return value{i: i} }

func (v value) text() string {
	if v.null {
		return "NULL"
	}
	if v.isStr {
		return "'" + v.s + "'"
	}
	return fmt.Sprintf("'%d'", v.i) // plog.v is VARCHAR: integers are stored as their decimal text
}

func (v value) intText() string {
	if v.null {
		return "NULL"
	}
	return fmt.Sprint(v.i)
}

type frame struct {
	vars   map[string]*value
	parent *frame
}

func (f *frame) lookup(n string) *value {
	for x := f; x != nil; x = x.parent {
		if v, ok := x.vars[n]; ok {
			return v
		}
	}
	panic("reference interpreter: unknown variable " + n)
}

type world struct {
	plog       []string
	kt         map[int64]bool
	src        [][2]int64 // sid, sval sorted by sid
	procs      map[string]*proc
	lastSelect *value
	steps      int
	maxLoop    int
	blocks     int
	handled    map[string]int
}

// control outcomes of executing a statement
type ctl struct {
	kind  string // "" normal, leave, iterate, error, exitblock
	label string
	err   string // MySQL error number of the condition
	cond  string // SQLEXCEPTION | NOT FOUND
	block *pstmt // exitblock target
}

var normal = ctl{}

type blockCtx struct {
	st     *pstmt
	fr     *frame
	parent *blockCtx
}

func (w *world) eval(e *pexpr, f *frame) value {
	switch e.kind {
	case "lit":
		return vint(e.v)
	case "null":
		return vnull
	case "var":
		return *f.lookup(e.name)
	case "length":
		v := *f.lookup(e.name)
		if v.null {
			return vnull
		}
		return vint(int64(len(v.s)))
	case "bin":
		l, r := w.eval(e.l, f), w.eval(e.r, f)
		if l.null || r.null {
			return vnull
		}
		switch e.op {
		case "+":
			return vint(l.i + r.i)
		case "-":
			return vint(l.i - r.i)
		default:
			return vint(l.i * r.i)
		}
	case "cmp":
		l, r := w.eval(e.l, f), w.eval(e.r, f)
		if l.null || r.null {
			return vnull
		}
		var b bool
		switch e.op {
		case "<":
			b = l.i < r.i
		case "<=":
			b = l.i <= r.i
		case "=":
			b = l.i == r.i
		case "<>":
			b = l.i != r.i
		case ">":
			b = l.i > r.i
		default:
			b = l.i >= r.i
		}
		if b {
			return vint(1)
		}
		return vint(0)
	case "not":
		l := w.eval(e.l, f)
		if l.null {
			return vnull
		}
		if l.i == 0 {
			return vint(1)
		}
		return vint(0)
	case "and":
		l, r := w.eval(e.l, f), w.eval(e.r, f)
		if (!l.null && l.i == 0) || (!r.null && r.i == 0) {
			return vint(0)
		}
		if l.null || r.null {
			return vnull
		}
		return vint(1)
	case "or":
		l, r := w.eval(e.l, f), w.eval(e.r, f)
		if (!l.null && l.i != 0) || (!r.null && r.i != 0) {
			return vint(1)
		}
		if l.null || r.null {
			return vnull
		}
		return vint(0)
	}
	panic("eval " + e.kind)
}

func truthy(v value) bool { return !v.null && v.i != 0 }

// raise finds the innermost enclosing block (of the current procedure activation) with a handler for
// the condition, runs it, and says how execution goes on: CONTINUE -> normal (after the statement that
// raised), EXIT -> leave that block. No handler -> the error propagates.
func (w *world) raise(bc *blockCtx, errno, cond string) ctl {
	for b := bc; b != nil; b = b.parent {
		for _, h := range b.st.handlers {
			if h.cond != cond {
				continue
			}
			*b.fr.lookup(h.setVar) = w.eval(h.setExpr, b.fr)
			if h.exit {
				w.handled["exit:"+cond]++
				return ctl{kind: "exitblock", block: b.st}
			}
			w.handled["continue:"+cond]++
			return normal
		}
	}
	return ctl{kind: "error", err: errno, cond: cond}
}

func (w *world) execList(ss []*pstmt, f *frame, bc *blockCtx) ctl {
	for _, s := range ss {
		if c := w.exec(s, f, bc); c.kind != "" {
			return c
		}
	}
	return normal
}

func (w *world) exec(s *pstmt, f *frame, bc *blockCtx) ctl {
	w.steps++
	if w.steps > 20000 {
		panic("reference interpreter: step budget exceeded (generator must bound every loop)")
	}
	switch s.kind {
	case "set":
		*f.lookup(s.name) = w.eval(s.e, f)
	case "setstr":
		v := f.lookup(s.name)
		if !v.null {
			v.s += s.sval
		}
	case "log":
		v := w.eval(s.e, f)
		w.plog = append(w.plog, v.text())
	case "logstr":
		w.plog = append(w.plog, f.lookup(s.name).text())
	case "select":
		v := w.eval(s.e, f)
		w.lastSelect = &v
		w.plog = append(w.plog, v.text())
	case "signal":
		return w.raise(bc, "1644", "SQLEXCEPTION")
	case "kins":
		v := w.eval(s.e, f)
		if w.kt[v.i] {
			return w.raise(bc, "1062", "SQLEXCEPTION")
		}
		w.kt[v.i] = true
	case "leave", "iterate":
		return ctl{kind: s.kind, label: s.name}
	case "if":
		for i, c := range s.conds {
			if truthy(w.eval(c, f)) {
				return w.execList(s.arms[i], f, bc)
			}
		}
		if s.hasEl {
			return w.execList(s.els, f, bc)
		}
	case "case":
		v := w.eval(s.e, f)
		for i, x := range s.vals {
			if !v.null && v.i == x {
				return w.execList(s.arms[i], f, bc)
			}
		}
		if s.hasEl {
			return w.execList(s.els, f, bc)
		}
		return w.raise(bc, "1339", "SQLEXCEPTION")
	case "csearch":
		for i, c := range s.conds {
			if truthy(w.eval(c, f)) {
				return w.execList(s.arms[i], f, bc)
			}
		}
		if s.hasEl {
			return w.execList(s.els, f, bc)
		}
		return w.raise(bc, "1339", "SQLEXCEPTION")
	case "while", "repeat", "loop":
		cnt := f.lookup(s.cnt)
		iters := 0
		for {
			if s.kind == "while" && !(cnt.i < s.bound) {
				break
			}
			cnt.i++
			if s.kind == "loop" && cnt.i > s.bound {
				break
			}
			iters++
			if iters > w.maxLoop {
				w.maxLoop = iters
			}
			c := w.execList(s.body, f, bc)
			switch {
			case c.kind == "leave" && c.label == s.name:
				return normal
			case c.kind == "iterate" && c.label == s.name:
				continue // WHILE: back to the condition; LOOP: back to the body start (its first statements bound it)
			case c.kind != "":
				return c
			}
			if s.kind == "repeat" && cnt.i >= s.bound {
				break
			}
		}
	case "block":
		w.blocks++
		nf := &frame{vars: map[string]*value{}, parent: f}
		for _, d := range s.decls {
			v := vnull
			if d.isStr {
				v = value{isStr: true, s: d.defS}
			} else if d.def != nil {
				v = w.eval(d.def, nf)
			}
			vv := v
			nf.vars[d.name] = &vv
		}
		nbc := &blockCtx{st: s, fr: nf, parent: bc}
		c := w.execList(s.body, nf, nbc)
		if c.kind == "exitblock" && c.block == s {
			return normal
		}
		return c
	case "curloop":
		rows := [][2]int64{}
		for _, r := range w.src {
			if r[1] >= s.curMin {
				rows = append(rows, r)
			}
		}
		sort.Slice(rows, func(i, j int) bool {
			if s.curDesc {
				return rows[i][0] > rows[j][0]
			}
			return rows[i][0] < rows[j][0]
		})
		nf := &frame{vars: map[string]*value{}, parent: f}
		x, y := vnull, vnull
		nf.vars[s.cx], nf.vars[s.cy] = &x, &y
		inner := &pstmt{kind: "block"} // the cursor block has only the NOT FOUND handler, which FETCH consumes itself
		nbc := &blockCtx{st: inner, fr: nf, parent: bc}
		for _, r := range rows {
			x, y = vint(r[0]), vint(r[1])
			c := w.execList(s.body, nf, nbc)
			switch {
			case c.kind == "leave" && c.label == s.name:
				return normal
			case c.kind == "iterate" && c.label == s.name:
				continue
			case c.kind != "":
				return c
			}
		}
		w.handled["continue:NOT FOUND"]++
	case "call":
		callee := w.procs[s.name]
		for _, v := range s.preNull {
			*f.lookup(v) = vnull
		}
		args := make([]value, len(callee.params))
		for i, pa := range callee.params {
			switch pa.mode {
			case "IN":
				args[i] = w.eval(s.args[i], f)
			case "INOUT":
				args[i] = *f.lookup(s.args[i].name)
			default:
				args[i] = vnull
			}
		}
		c := w.callProc(callee, args)
		if c.kind == "error" {
			// the CALL statement raised the condition in the caller
			return w.raise(bc, c.err, c.cond)
		}
		for i, pa := range callee.params {
			if pa.mode != "IN" {
				*f.lookup(s.args[i].name) = args[i]
			}
		}
	default:
		panic("exec " + s.kind)
	}
	return normal
}

// callProc runs a procedure activation; args is updated in place for OUT/INOUT parameters.
func (w *world) callProc(p *proc, args []value) ctl {
	f := &frame{vars: map[string]*value{}}
	for i, pa := range p.params {
		v := args[i]
		f.vars[pa.name] = &v
	}
	c := w.exec(p.body, f, nil)
	if c.kind == "error" {
		return c
	}
	if c.kind != "" {
		panic("reference interpreter: control escaped the procedure: " + c.kind)
	}
	for i, pa := range p.params {
		if pa.mode != "IN" {
			args[i] = *f.vars[pa.name]
		}
	}
	return normal
}
