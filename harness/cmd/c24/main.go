// C24 — stored procedures follow structured-program semantics.
//
// One case = 1–3 generated procedures (later ones may CALL earlier ones) over tables plog (log,
// auto-increment), kt (keyed, for real duplicate-key errors) and src (cursor source), and 3 CALLs of
// the last procedure with different argument tuples. A reference interpreter (interp.go) runs the
// same AST: block-scoped DECLARE with shadowing, SET, IF/ELSEIF/ELSE, simple and searched CASE
// (no match -> 1339), labelled WHILE / REPEAT / LOOP with LEAVE and ITERATE to any enclosing label,
// IN / OUT / INOUT parameters, nested CALL, EXIT / CONTINUE handlers for SQLEXCEPTION (SIGNAL,
// duplicate key, CASE not found), cursor loops with a NOT FOUND handler. Compared after every CALL:
// error class, the log table (every `SELECT expr` of a body is mirrored by an INSERT into the log,
// because only the last result set of a CALL is observable in-process), that last result set, the
// keyed table, and the OUT/INOUT user variables.
package main

import (
	"encoding/json"
	"fmt"
	"os"
	"strings"
	"time"

	"verif/harness/core"
	"verif/harness/g10lib"
)

const (
	ddlPlog = "CREATE TABLE plog (id INT AUTO_INCREMENT PRIMARY KEY, v VARCHAR(64))"
	ddlKt   = "CREATE TABLE kt (k INT PRIMARY KEY)"
	ddlSrc  = "CREATE TABLE src (sid INT PRIMARY KEY, sval INT)"
)

func main() {
	if mode := os.Getenv("VERIF_CHILD"); mode != "" {
		child(mode)
		return
	}
	core.StmtTimeout = 30 * time.Second
	r := core.NewRun("C24", "exploration",
		"one case = 1-3 generated procedures (nesting depth <= 4, every loop owns a counter that makes progress by construction, nested CALLs, handlers, cursor loops) and 3 CALLs with different arguments, each compared with a reference interpreter over the same AST: error class, log table, last result set, keyed table, OUT/INOUT variables; distinct = (set of control-flow features of the case, outcome class)")
	r.Fold(8, 3)
	r.Assume("handler bodies are SET statements; handlers whose body is a DML statement are outside the core domain (known finding handler-with-dml-body-never-returns: CALL spins forever), its pinned witness runs in a child process that is killed after 10 s")
	r.Assume("SELECT .. INTO is not generated (known finding select-into-in-loop-assigns-once); variable, parameter and column names are unique per procedure (known finding proc-param-leaks-into-later-name-resolution); ITERATE never targets a REPEAT label (it would skip the UNTIL test)")
	r.Assume("after a failed CALL the statements executed before the failure keep their effects (each statement of a procedure is its own statement under autocommit); OUT/INOUT variables are compared only after a successful CALL")

	n := r.N(700, 9000)
	r.Parallel("case", n, func(i int) { runCase(r, i) })
	pinned(r)
	for _, f := range []string{"while", "repeat", "loop", "leave", "iterate", "nested-call", "exit-handler", "continue-handler", "cursor-loop", "simple-case", "searched-case", "shadowing", "param-OUT", "param-INOUT"} {
		r.Floor(r.Counter("feature."+f) > 0, "feature never generated: "+f)
	}
	r.Floor(r.Counter("handled.exit:SQLEXCEPTION") > 0 && r.Counter("handled.continue:SQLEXCEPTION") > 0, "no handler was ever invoked in the reference run")
	r.Floor(r.Counter("outcome.error:1339") > 0 && r.Counter("outcome.error:1644") > 0 && r.Counter("outcome.error:1062") > 0, "unhandled-condition outcomes missing")
	r.Floor(r.Counter("loop-iterations>=3") > 0, "no loop ran 3 iterations")
	r.Finish()
}

func canonPlog(s *core.Sess, after int64) ([]string, int64, bool) {
	res := s.Exec(fmt.Sprintf("SELECT id, v FROM plog WHERE id > %d ORDER BY id", after))
	if res.Failed() {
		return nil, after, false
	}
	out := make([]string, len(res.Rows))
	last := after
	for i, row := range res.Rows {
		out[i] = core.Canon(row[1])
		fmt.Sscan(core.Canon(row[0]), &last)
	}
	return out, last, true
}

type callSpec struct {
	args   []value
	argSQL []string
	pre    []string
	outs   []string
}

type mismatch struct {
	sig     string
	what    string
	detail  map[string]any
	history []string
	stop    string // non-empty: inconclusive reason
}

// checkProgram creates the procedures on a fresh engine, runs the CALLs and compares with the reference
// interpreter. It returns the first mismatch (nil when everything agrees).
func checkProgram(procs []*proc, src [][2]int64, calls []callSpec, stats func(w *world, outcome string, gotLog []string, call string)) *mismatch {
	top := procs[len(procs)-1]
	e := core.NewEng("d")
	defer e.Close()
	s := e.NewSess()
	setup := []string{ddlPlog, ddlKt, ddlSrc}
	w := &world{kt: map[int64]bool{}, procs: map[string]*proc{}, handled: map[string]int{}}
	for _, r := range src {
		setup = append(setup, fmt.Sprintf("INSERT INTO src VALUES (%d, %d)", r[0], r[1]))
		w.src = append(w.src, r)
	}
	for _, p := range procs {
		setup = append(setup, p.createSQL())
		w.procs[p.name] = p
	}
	mm := func(sig, what string, d map[string]any, hist []string) *mismatch {
		if d == nil {
			d = map[string]any{}
		}
		d["setup"] = setup
		return &mismatch{sig: sig, what: what, detail: d, history: hist}
	}
	for _, q := range setup {
		res := s.Exec(q)
		if res.Panic != nil {
			return mm("create:"+res.Panic.Sig(), "panic in CREATE PROCEDURE", map[string]any{"stmt": q, "panic": res.Panic.Value}, nil)
		}
		if res.Failed() {
			return &mismatch{stop: "create-rejected:" + res.ErrClass() + ":" + core.Clip(core.StripVolatile(fmt.Sprint(res.Err)), 60)}
		}
	}
	var lastID int64
	var history []string
	for _, c := range calls {
		args := append([]value{}, c.args...)
		call := fmt.Sprintf("CALL %s(%s)", top.name, strings.Join(c.argSQL, ", "))
		for _, q := range c.pre {
			s.Exec(q)
			history = append(history, q)
		}
		history = append(history, call)
		w.plog, w.lastSelect, w.steps = nil, nil, 0
		rc := w.callProc(top, args)
		res := s.Exec(call)
		if res.TimedOut {
			return mm("call-does-not-return", "CALL did not return within the watchdog; the reference interpreter terminates", nil, history)
		}
		if res.Panic != nil {
			return mm(res.Panic.Sig(), "panic", map[string]any{"panic": res.Panic.Value, "stack": core.Clip(res.Panic.Stack, 2500)}, history)
		}
		wantErr := ""
		if rc.kind == "error" {
			wantErr = rc.err
		}
		gotErr := res.ErrClass()
		outcome := "ok"
		if wantErr != "" {
			outcome = "error:" + wantErr
		}
		if wantErr != gotErr {
			return mm(fmt.Sprintf("outcome:reference=%s:engine=%s", orOK(wantErr), orOK(gotErr)), "CALL outcome differs from the reference interpreter",
				map[string]any{"engine_err": fmt.Sprint(res.Err), "reference_err": wantErr, "reference_log": w.plog}, history)
		}
		gotLog, nl, ok := canonPlog(s, lastID)
		if !ok {
			return &mismatch{stop: "log-unreadable"}
		}
		lastID = nl
		if !core.SameStrings(gotLog, w.plog) {
			return mm("log-differs:"+outcome, "the log table differs from the reference interpreter's log",
				map[string]any{"engine_log": core.ClipStrings(gotLog, 80), "reference_log": core.ClipStrings(w.plog, 80)}, history)
		}
		var wantKt []string
		for k := range w.kt {
			wantKt = append(wantKt, fmt.Sprint(k))
		}
		sortStrings(wantKt)
		ktRes := s.Exec("SELECT k FROM kt")
		if !ktRes.Failed() && !core.SameStrings(core.SortedRows(ktRes.Rows), wantKt) {
			return mm("keyed-table-differs:"+outcome, "table kt differs", map[string]any{"engine": core.SortedRows(ktRes.Rows), "reference": wantKt}, history)
		}
		if wantErr == "" {
			if w.lastSelect != nil {
				got := []string{}
				if _, isOK := res.Ok(); !isOK {
					got = core.CanonRows(res.Rows)
				}
				if len(got) != 1 || got[0] != w.lastSelect.intText() {
					return mm("last-result-set-differs", "the last result set of the CALL differs from the last SELECT the reference executed",
						map[string]any{"engine_rows": core.ClipStrings(got, 10), "reference_value": w.lastSelect.intText()}, history)
				}
			}
			if len(c.outs) > 0 {
				ov := s.Exec("SELECT " + strings.Join(c.outs, ", "))
				var want []string
				for k, pa := range top.params {
					if pa.mode != "IN" {
						want = append(want, args[k].intText())
					}
				}
				if !ov.Failed() && len(ov.Rows) == 1 {
					got := strings.Split(core.CanonRow(ov.Rows[0]), "|")
					if !core.SameStrings(got, want) {
						return mm("out-params-differ", "OUT/INOUT user variables differ after the CALL", map[string]any{"vars": c.outs, "engine": got, "reference": want}, history)
					}
				}
			}
		}
		if stats != nil {
			stats(w, outcome, gotLog, call)
		}
	}
	return nil
}

// shrink deletes statements from the procedure bodies while the same kind of mismatch persists.
func shrink(procs []*proc, src [][2]int64, calls []callSpec, sig string) {
	class := strings.SplitN(sig, ":", 2)[0]
	budget := 400
	still := func() bool {
		budget--
		m := checkProgram(procs, src, calls, nil)
		return m != nil && m.stop == "" && strings.SplitN(m.sig, ":", 2)[0] == class
	}
	var lists func(s *pstmt) []*[]*pstmt
	lists = func(s *pstmt) []*[]*pstmt {
		out := []*[]*pstmt{}
		if s.body != nil {
			out = append(out, &s.body)
		}
		for k := range s.arms {
			out = append(out, &s.arms[k])
		}
		if s.hasEl {
			out = append(out, &s.els)
		}
		for _, l := range append([]*[]*pstmt{}, out...) {
			for _, c := range *l {
				out = append(out, lists(c)...)
			}
		}
		return out
	}
	changed := true
	for changed && budget > 0 {
		changed = false
		for _, p := range procs {
			for _, l := range lists(p.body) {
				for k := 0; k < len(*l) && budget > 0; k++ {
					minLen := 1
					if l == &p.body.body {
						minLen = 0
					}
					if len(*l) <= minLen {
						break
					}
					old := *l
					cand := append(append([]*pstmt{}, old[:k]...), old[k+1:]...)
					*l = cand
					if still() {
						changed = true
						k--
					} else {
						*l = old
					}
				}
			}
		}
	}
}

func runCase(r *core.Run, i int) {
	rnd := r.Rand("case", i)
	feat := map[string]bool{}
	var procs []*proc
	np := 1
	if rnd.Intn(3) == 0 {
		np = 2 + rnd.Intn(2)
	}
	for k := 0; k < np; k++ {
		procs = append(procs, genProc(rnd, k, procs, feat, k < np-1))
	}
	top := procs[len(procs)-1]
	var src [][2]int64
	for k := 0; k < rnd.Intn(6); k++ {
		src = append(src, [2]int64{int64(k*2 + 1), int64(rnd.Intn(40))})
	}
	var calls []callSpec
	for c := 0; c < 3; c++ {
		cs := callSpec{args: make([]value, len(top.params))}
		for k, pa := range top.params {
			switch pa.mode {
			case "IN":
				if rnd.Intn(8) == 0 {
					cs.args[k] = vnull
					cs.argSQL = append(cs.argSQL, "NULL")
				} else {
					cs.args[k] = vint(int64(rnd.Intn(7)) - 1)
					cs.argSQL = append(cs.argSQL, cs.args[k].intText())
				}
			case "INOUT":
				cs.args[k] = vint(int64(rnd.Intn(7)) - 1)
				uv := fmt.Sprintf("@u%d", k)
				cs.pre = append(cs.pre, fmt.Sprintf("SET %s = %s", uv, cs.args[k].intText()))
				cs.argSQL = append(cs.argSQL, uv)
				cs.outs = append(cs.outs, uv)
			default:
				cs.args[k] = vnull
				uv := fmt.Sprintf("@u%d", k)
				// known finding out-param-not-reset-to-null (via=domain): the variable handed to an OUT
				// parameter is NULL beforehand, so that the body sees NULL either way
				cs.pre = append(cs.pre, fmt.Sprintf("SET %s = NULL", uv))
				cs.argSQL = append(cs.argSQL, uv)
				cs.outs = append(cs.outs, uv)
			}
		}
		calls = append(calls, cs)
	}
	ncall := 0
	m := checkProgram(procs, src, calls, func(w *world, outcome string, gotLog []string, call string) {
		r.Eval(1)
		ncall++
		r.Count("outcome."+outcome, 1)
		for h, n := range w.handled {
			r.Count("handled."+h, int64(n))
		}
		w.handled = map[string]int{}
		if w.maxLoop >= 3 {
			r.Count("loop-iterations>=3", 1)
		}
		if w.lastSelect != nil && outcome == "ok" {
			r.Count("last-result-set-compared", 1)
		}
		r.Distinct(featKey(feat) + "|" + outcome)
		if i%90 == 0 && ncall == 1 {
			r.Sample(map[string]any{"procedure": core.Clip(top.createSQL(), 700), "call": call, "outcome": outcome, "log": core.ClipStrings(gotLog, 12)})
		}
	})
	for f := range feat {
		r.Count("feature."+f, 1)
	}
	if m == nil {
		return
	}
	if m.stop != "" {
		r.Inconclusive(m.stop)
		return
	}
	r.Eval(1)
	wit := map[string]any{"case": i, "what": m.what, "history": m.history}
	for k, v := range m.detail {
		wit[k] = v
	}
	if m.sig != "call-does-not-return" {
		// delta-debug the procedures so that the witness is small
		shrink(procs, src, calls, m.sig)
		if m2 := checkProgram(procs, src, calls, nil); m2 != nil && m2.stop == "" {
			min := map[string]any{"signature": m2.sig, "history": m2.history}
			for k, v := range m2.detail {
				min[k] = v
			}
			wit["minimised"] = min
		}
	}
	viol(r, m.sig, wit)
}

// viol reports a violation; with C24_DUMP=<dir> every witness is also written there (triage aid).
func viol(r *core.Run, sig string, w any) {
	if d := os.Getenv("C24_DUMP"); d != "" {
		if m, ok := w.(map[string]any); ok {
			b, _ := json.MarshalIndent(map[string]any{"signature": sig, "witness": m}, "", " ")
			os.WriteFile(fmt.Sprintf("%s/%s-%v.json", d, strings.NewReplacer(":", "_", "/", "_", " ", "_").Replace(core.Clip(sig, 60)), m["case"]), b, 0o644)
		}
	}
	r.Violation(sig, w)
}

func sortStrings(a []string) {
	for i := 1; i < len(a); i++ {
		for j := i; j > 0 && a[j] < a[j-1]; j-- {
			a[j], a[j-1] = a[j-1], a[j]
		}
	}
}

func orOK(s string) string {
	if s == "" {
		return "ok"
	}
	return s
}

// featKey is the control-flow shape of a case: the sorted set of generated features.
func featKey(feat map[string]bool) string {
	var fs []string
	for f := range feat {
		if strings.HasPrefix(f, "param-") || f == "declare-without-default" || f == "elseif" || f == "string-var" {
			continue
		}
		fs = append(fs, f)
	}
	sortStrings(fs)
	return strings.Join(fs, "+")
}

// ---------- pinned witnesses ----------

const f31Proc = "CREATE PROCEDURE p5() BEGIN DECLARE CONTINUE HANDLER FOR SQLEXCEPTION INSERT INTO plog (v) VALUES ('handled'); INSERT INTO kt VALUES (1); INSERT INTO kt VALUES (1); INSERT INTO plog (v) VALUES ('after'); END"

const staleProc = "CREATE PROCEDURE h3() BEGIN DECLARE x INT DEFAULT 0; BEGIN DECLARE EXIT HANDLER FOR SQLEXCEPTION SET x = 1; SIGNAL SQLSTATE '45000'; SET x = 2; END; INSERT INTO plog (v) VALUES (x); INSERT INTO kt VALUES (1); INSERT INTO plog (v) VALUES ('after'); END"

// child runs a witness that may never return; the parent kills this process after its limit.
func child(mode string) {
	switch mode {
	case "f31":
		core.StmtTimeout = time.Hour
		e := core.NewEng("d")
		s := e.NewSess()
		s.Exec(ddlPlog)
		s.Exec(ddlKt)
		if r := s.Exec(f31Proc); r.Failed() {
			fmt.Println("create-failed")
			return
		}
		res := s.Exec("CALL p5()")
		fmt.Println("returned err=", res.Err)
	case "stale-handler":
		core.StmtTimeout = time.Hour
		e := core.NewEng("d")
		s := e.NewSess()
		s.Exec(ddlPlog)
		s.Exec(ddlKt)
		s.Exec("INSERT INTO kt VALUES (1)")
		if r := s.Exec(staleProc); r.Failed() {
			fmt.Println("create-failed")
			return
		}
		res := s.Exec("CALL h3()")
		fmt.Println("returned err=", res.Err)
	}
}

func pinned(r *core.Run) {
	// F31: a handler whose body is a DML statement makes CALL spin forever. Run in a child process.
	how, out := g10lib.ChildHangs("f31", 10*time.Second)
	r.Pinned("handler-with-dml-body-never-returns", "CALL of a procedure whose CONTINUE HANDLER FOR SQLEXCEPTION has an INSERT as its body, guarded statement failing with a duplicate key, did not return within 10 s (child process "+how+")",
		how == "killed", map[string]any{"procedure": f31Proc, "child": how, "output": core.Clip(out, 200)})
	if how != "killed" && !strings.Contains(out, "returned") {
		r.Inconclusive("pinned-f31-child:" + how)
	}

	how2, out2 := g10lib.ChildHangs("stale-handler", 10*time.Second)
	r.Pinned("handler-outlives-its-block", "after the EXIT handler of an inner block has run, a later unhandled error outside that block (duplicate key) is dispatched to it again and CALL never returns (child process "+how2+"); expected error 1062",
		how2 == "killed" || (how2 == "exit:0" && !strings.Contains(out2, "duplicate")), map[string]any{"procedure": staleProc, "child": how2, "output": core.Clip(out2, 200)})

	run := func(stmts ...string) (*core.Eng, *core.Sess) {
		e := core.NewEng("d")
		s := e.NewSess()
		for _, q := range stmts {
			s.Exec(q)
		}
		return e, s
	}
	// SELECT .. INTO inside a loop assigns only once
	{
		e, s := run(ddlPlog, "CREATE TABLE t (id INT PRIMARY KEY)",
			"CREATE PROCEDURE pl(k INT) BEGIN DECLARE i INT DEFAULT 0; DECLARE n INT DEFAULT -1; WHILE i < k DO INSERT INTO t VALUES (i); SELECT COUNT(*) INTO n FROM t; INSERT INTO plog (v) VALUES (n); SET i = i + 1; END WHILE; END",
			"CALL pl(3)")
		got, _, _ := canonPlog(s, 0)
		want := []string{"'1'", "'2'", "'3'"}
		r.Pinned("select-into-in-loop-assigns-once", fmt.Sprintf("WHILE loop with INSERT; SELECT COUNT(*) INTO n; log n — logged %v, expected %v", got, want), !core.SameStrings(got, want), map[string]any{"log": got})
		e.Close()
	}
	// a parameter of an earlier CALL captures a column name in a later procedure
	{
		e, s := run(ddlPlog, "CREATE TABLE src2 (id INT PRIMARY KEY, a INT)", "INSERT INTO src2 VALUES (1, 10), (2, 20)",
			"CREATE PROCEDURE pa(a INT) BEGIN INSERT INTO plog (v) VALUES (a); END",
			"CREATE PROCEDURE pb() BEGIN DECLARE x INT; DECLARE done INT DEFAULT 0; DECLARE cur CURSOR FOR SELECT a FROM src2 ORDER BY id; DECLARE CONTINUE HANDLER FOR NOT FOUND SET done = 1; OPEN cur; rl: LOOP FETCH cur INTO x; IF done = 1 THEN LEAVE rl; END IF; INSERT INTO plog (v) VALUES (x); END LOOP; CLOSE cur; END",
			"CALL pa(3)", "CALL pb()")
		got, _, _ := canonPlog(s, 0)
		want := []string{"'3'", "'10'", "'20'"}
		r.Pinned("proc-param-leaks-into-later-name-resolution", fmt.Sprintf("after CALL pa(3) (parameter a), pb's cursor SELECT a FROM src2 fetches %v, expected %v", got, want), !core.SameStrings(got, want), map[string]any{"log": got})
		e.Close()
	}
	// OUT parameters start with the caller's value instead of NULL
	{
		e, s := run(ddlPlog, "CREATE PROCEDURE po(OUT o INT) BEGIN INSERT INTO plog (v) VALUES (o); SET o = 1; END", "SET @u = 77", "CALL po(@u)")
		got, _, _ := canonPlog(s, 0)
		r.Pinned("out-param-not-reset-to-null", fmt.Sprintf("SET @u = 77; CALL po(@u) with OUT o: the body logs o = %v, expected [NULL]", got), !core.SameStrings(got, []string{"NULL"}), map[string]any{"log": got})
		e.Close()
	}
	// DECLARE without DEFAULT yields 0 instead of NULL (and DEFAULT NULL fails at run time)
	{
		e, s := run(ddlPlog, "CREATE PROCEDURE pd() BEGIN DECLARE y INT; INSERT INTO plog (v) VALUES (y); END", "CALL pd()")
		got, _, _ := canonPlog(s, 0)
		r.Pinned("declare-without-default-is-zero-not-null", fmt.Sprintf("DECLARE y INT; log y — logged %v, expected [NULL]", got), !core.SameStrings(got, []string{"NULL"}), map[string]any{"log": got})
		e.Close()
	}
	// a handler's statement resolves names in the scope where the condition was raised
	{
		e, s := run(ddlPlog, "CREATE PROCEDURE ph(OUT o INT) BEGIN DECLARE EXIT HANDLER FOR SQLEXCEPTION SET o = 46; SET o = 1; BEGIN DECLARE o INT DEFAULT 4; SIGNAL SQLSTATE '45000'; END; END", "SET @u = NULL", "CALL ph(@u)")
		res := s.Exec("SELECT @u")
		got := "?"
		if !res.Failed() && len(res.Rows) == 1 {
			got = core.Canon(res.Rows[0][0])
		}
		r.Pinned("handler-body-resolves-names-in-raising-scope", "outer EXIT HANDLER .. SET o = 46, condition raised in an inner block that shadows o: after CALL ph(@u), @u = "+got+", expected 46", got != "46", map[string]any{"u": got})
		e.Close()
	}
	// the result set of a nested CALL is dropped when the caller goes on with DML
	{
		e, s := run(ddlPlog, "CREATE PROCEDURE pi() BEGIN SELECT 4; END", "CREATE PROCEDURE po2() BEGIN CALL pi(); INSERT INTO plog (v) VALUES (1); END")
		res := s.Exec("CALL po2()")
		got := []string{}
		if _, isOK := res.Ok(); !isOK && !res.Failed() {
			got = core.CanonRows(res.Rows)
		}
		r.Pinned("nested-call-result-set-dropped", fmt.Sprintf("CALL po2() where po2 = CALL pi() (SELECT 4); INSERT ..: result rows %v, expected [4]", got), !core.SameStrings(got, []string{"4"}), map[string]any{"rows": got})
		e.Close()
	}
	// assignments to an IN parameter leak back into the caller's variable
	{
		e, s := run(ddlPlog, "CREATE PROCEDURE pin(IN a INT) BEGIN SET a = 1; END", "CREATE PROCEDURE pout() BEGIN DECLARE x INT DEFAULT 3; CALL pin(x); INSERT INTO plog (v) VALUES (x); END", "CALL pout()")
		got, _, _ := canonPlog(s, 0)
		r.Pinned("in-param-assignment-leaks-to-caller", fmt.Sprintf("pin(IN a) does SET a = 1; caller: x = 3; CALL pin(x); log x — logged %v, expected ['3']", got), !core.SameStrings(got, []string{"'3'"}), map[string]any{"log": got})
		e.Close()
	}
	// INOUT/OUT parameters of a callee keep their value from the previous activation
	{
		e, s := run(ddlPlog, "CREATE PROCEDURE pc(INOUT a INT) BEGIN INSERT INTO plog (v) VALUES (a); SET a = 4; END",
			"CREATE PROCEDURE pp() BEGIN DECLARE x INT DEFAULT 0; CALL pc(x); END", "CALL pp()", "CALL pp()")
		got, _, _ := canonPlog(s, 0)
		want := []string{"'0'", "'0'"}
		r.Pinned("nested-call-param-state-persists", fmt.Sprintf("pp() = DECLARE x INT DEFAULT 0; CALL pc(x) with pc(INOUT a) logging a then SET a = 4; two CALL pp() log %v, expected %v", got, want), !core.SameStrings(got, want), map[string]any{"log": got})
		e.Close()
	}
}
