package main

// The overflow frontier. For BIGINT and BIGINT UNSIGNED columns the operand pairs are steered so that the exact result
// lies just below, on and just above the end of the 64-bit range: for a magnitude a (powers of two and their neighbours,
// powers of ten, the square roots of 2^63 and 2^64, seeded values of every bit length) the partner is
// floor(limit / a) + {-1, 0, 1} for *, and limit - a + {-1, 0, 1} for + and -, in every sign combination. Pools of type
// minima/maxima and uniform random values almost never put a product next to the limit unless one factor is tiny.

import (
	"fmt"
	"math/big"

	"verif/harness/core"
)

func frontier(r *core.Run) {
	var mags []*big.Int
	one := big.NewInt(1)
	for k := 1; k <= 63; k++ {
		p := new(big.Int).Lsh(one, uint(k))
		mags = append(mags, p, new(big.Int).Add(p, one), new(big.Int).Sub(p, one))
	}
	for _, s := range []string{"3", "5", "7", "10", "1000", "1000000", "1000000000", "1000000000000", "3037000499", "3037000500", "4294967295", "2147483649", "6074001000", "2097152", "2642246"} {
		mags = append(mags, bi(s))
	}
	rnd := r.Rand("frontier", 0)
	for k := 0; k < r.N(40, 400); k++ {
		bits := 2 + rnd.Intn(61)
		x := new(big.Int).SetInt64(rnd.Int63())
		x.Rsh(x, uint(63-bits))
		if x.Sign() > 0 {
			mags = append(mags, x)
		}
	}
	limits := []*big.Int{new(big.Int).Set(maxI64), new(big.Int).Add(maxI64, one), new(big.Int).Sub(new(big.Int).Lsh(one, 64), one)}
	type pair struct {
		op   string
		a, b *big.Int
	}
	var signed, unsigned []pair
	fitsI := func(v *big.Int) bool { return v.Cmp(minI64) >= 0 && v.Cmp(maxI64) <= 0 }
	maxU := limits[2]
	fitsU := func(v *big.Int) bool { return v.Sign() >= 0 && v.Cmp(maxU) <= 0 }
	add := func(op string, a, b *big.Int) {
		for _, sa := range []int64{1, -1} {
			for _, sb := range []int64{1, -1} {
				x, y := new(big.Int).Mul(a, big.NewInt(sa)), new(big.Int).Mul(b, big.NewInt(sb))
				if fitsI(x) && fitsI(y) {
					signed = append(signed, pair{op, x, y})
				}
			}
		}
		if fitsU(a) && fitsU(b) {
			unsigned = append(unsigned, pair{op, a, b})
		}
	}
	for _, a := range mags {
		for _, l := range limits {
			q := new(big.Int).Quo(l, a)
			for d := int64(-1); d <= 1; d++ {
				add("*", a, new(big.Int).Add(q, big.NewInt(d)))
				s := new(big.Int).Sub(l, a)
				add("+", a, new(big.Int).Add(s, big.NewInt(d)))
				add("-", a, new(big.Int).Add(s, big.NewInt(d)))
			}
		}
	}
	ops := map[string]func(a, b *big.Int) *big.Int{}
	for _, o := range binops {
		ops[o.sym] = o.f
	}
	run := func(name, typ string, ps []pair) {
		const chunk = 400
		nchunks := (len(ps) + chunk - 1) / chunk
		r.Parallel("frontier-"+name, nchunks, func(c int) {
			e := core.NewEng("d")
			defer e.Close()
			s := e.NewSess()
			s.MustExec(fmt.Sprintf("CREATE TABLE f (id INT PRIMARY KEY, a %s, b %s)", typ, typ))
			lo, hi := c*chunk, (c+1)*chunk
			if hi > len(ps) {
				hi = len(ps)
			}
			for k := lo; k < hi; k++ {
				p := ps[k]
				if res := s.Exec(fmt.Sprintf("INSERT INTO f VALUES (%d, %s, %s)", k, p.a, p.b)); res.Failed() {
					r.Inconclusive("frontier-insert-failed")
					return
				}
			}
			for k := lo; k < hi; k++ {
				p := ps[k]
				q := fmt.Sprintf("SELECT a %s b FROM f WHERE id = %d", p.op, k)
				res := s.Exec(q)
				if res.Panic != nil {
					r.Violation(res.Panic.Sig(), map[string]any{"sql": q, "a": p.a.String(), "b": p.b.String(), "panic": res.Panic.Value})
					continue
				}
				if res.TimedOut {
					r.Inconclusive("timeout")
					continue
				}
				got := "ERR"
				if res.Err == nil {
					if len(res.Rows) != 1 {
						r.Violation("arith-row-lost", map[string]any{"sql": q, "rows": len(res.Rows)})
						continue
					}
					got = core.Canon(res.Rows[0][0])
				}
				r.Count("frontier.pairs", 1)
				judge(r, p.op, name, name, ops[p.op](p.a, p.b), got, "frontier col "+p.op+" col", p.a.String()+","+p.b.String())
			}
		})
	}
	run("i64", "BIGINT", signed)
	run("u64", "BIGINT UNSIGNED", unsigned)
}
