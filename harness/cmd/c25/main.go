// C25 — integer and decimal arithmetic is exact or reports out-of-range.
// Oracle: math/big. Every evaluation is one (operator, operand types, operand values) triple whose
// engine answer, read as an exact number, must equal the exact result, or the statement must fail
// with an error. Division/modulo by zero must be NULL; DIV and % truncate toward zero.
package main

import (
	"fmt"
	"math/big"
	"strings"

	"verif/harness/core"
)

type ityp struct {
	name, sql string
	min, max  *big.Int
}

func bi(s string) *big.Int { v, _ := new(big.Int).SetString(s, 10); return v }

var ityps = []ityp{
	{"i8", "TINYINT", bi("-128"), bi("127")},
	{"u8", "TINYINT UNSIGNED", bi("0"), bi("255")},
	{"i16", "SMALLINT", bi("-32768"), bi("32767")},
	{"u16", "SMALLINT UNSIGNED", bi("0"), bi("65535")},
	{"i24", "MEDIUMINT", bi("-8388608"), bi("8388607")},
	{"u24", "MEDIUMINT UNSIGNED", bi("0"), bi("16777215")},
	{"i32", "INT", bi("-2147483648"), bi("2147483647")},
	{"u32", "INT UNSIGNED", bi("0"), bi("4294967295")},
	{"i64", "BIGINT", bi("-9223372036854775808"), bi("9223372036854775807")},
	{"u64", "BIGINT UNSIGNED", bi("0"), bi("18446744073709551615")},
}

var (
	minI64 = bi("-9223372036854775808")
	maxI64 = bi("9223372036854775807")
	maxU64 = bi("18446744073709551615")
)

// classify says in which 64-bit containers the exact value fits.
func fitClass(v *big.Int) string {
	switch {
	case v.Cmp(minI64) < 0:
		return "below-int64"
	case v.Cmp(maxU64) > 0:
		return "above-uint64"
	case v.Cmp(maxI64) > 0:
		return "uint64-only"
	case v.Sign() < 0:
		return "int64-only"
	}
	return "both"
}

func main() {
	r := core.NewRun("C25", "exploration",
		"each evaluation is one (operator, operand SQL types, operand values) instance compared with math/big; distinct = (operator, left type, right type, fit class of the exact result, outcome class)")
	r.Assume("operands are columns of every integer width/signedness holding boundary and seeded random values, integer literals, and DECIMAL literals/columns")
	r.Assume("an evaluation is conclusive when the engine returns a number (compared exactly) or an error (accepted as out-of-range report)")

	intColumns(r)
	frontier(r)
	intLiterals(r)
	divMod(r)
	decimals(r)
	pinned(r)
	r.Finish()
}

func boundaryVals(t ityp, rnd interface{ Int63() int64 }, extra int) []*big.Int {
	one := big.NewInt(1)
	vs := []*big.Int{new(big.Int).Set(t.min), new(big.Int).Add(t.min, one), big.NewInt(0), big.NewInt(1),
		new(big.Int).Sub(t.max, one), new(big.Int).Set(t.max)}
	if t.min.Sign() < 0 {
		vs = append(vs, big.NewInt(-1))
	} else {
		vs = append(vs, big.NewInt(2))
	}
	span := new(big.Int).Sub(t.max, t.min)
	for i := 0; i < extra; i++ {
		x := new(big.Int).SetInt64(rnd.Int63())
		x.Mul(x, big.NewInt(4)) // reach beyond int63 for u64
		x.Mod(x, new(big.Int).Add(span, one))
		x.Add(x, t.min)
		vs = append(vs, x)
	}
	return vs
}

type binop struct {
	sym string
	f   func(a, b *big.Int) *big.Int
}

var binops = []binop{
	{"+", func(a, b *big.Int) *big.Int { return new(big.Int).Add(a, b) }},
	{"-", func(a, b *big.Int) *big.Int { return new(big.Int).Sub(a, b) }},
	{"*", func(a, b *big.Int) *big.Int { return new(big.Int).Mul(a, b) }},
}

// judge compares one engine answer with the exact value.
func judge(r *core.Run, op, lt, rt string, exact *big.Int, got string, expr string, args string) {
	r.Eval(1)
	fc := fitClass(exact)
	if got == "ERR" {
		r.Distinct(fmt.Sprintf("%s|%s|%s|%s|error", op, lt, rt, fc))
		if fc == "both" || fc == "int64-only" {
			// an error where the exact value fits BIGINT: the property allows "exact value or out-of-range
			// error"; an error for an in-range result is not the failure the property names, count it.
			r.Count("error-on-in-range-result", 1)
		}
		return
	}
	gr, ok := core.Rat(got)
	if ok && gr.IsInt() && gr.Num().Cmp(exact) == 0 {
		r.Distinct(fmt.Sprintf("%s|%s|%s|%s|exact", op, lt, rt, fc))
		return
	}
	sig := "arith-wrong-value"
	if fc != "both" && fc != "int64-only" && fc != "uint64-only" {
		sig = "arith-result-outside-64bit"
	} else if ok && gr.IsInt() {
		// wrapped modulo 2^64 / clamped: the exact result does not fit the Go type of the returned value
		d := new(big.Int).Sub(gr.Num(), exact)
		m := new(big.Int).Lsh(big.NewInt(1), 64)
		if new(big.Int).Mod(d, m).Sign() == 0 {
			sig = "arith-wrapped-mod-2^64"
		}
	}
	r.Violation(sig+":"+op, map[string]any{"expr": expr, "args": args, "types": lt + "," + rt, "exact": exact.String(), "engine": got})
}

func intColumns(r *core.Run) {
	extra := r.N(2, 12)
	type job struct{ a, b int }
	var jobs []job
	for a := range ityps {
		for b := range ityps {
			jobs = append(jobs, job{a, b})
		}
	}
	r.Parallel("intcols", len(jobs), func(i int) {
		j := jobs[i]
		ta, tb := ityps[j.a], ityps[j.b]
		rnd := r.Rand("intcols", i)
		va := boundaryVals(ta, rnd, extra)
		vb := boundaryVals(tb, rnd, extra)
		e := core.NewEng("d")
		defer e.Close()
		s := e.NewSess()
		s.MustExec(fmt.Sprintf("CREATE TABLE ta (id INT PRIMARY KEY, v %s)", ta.sql))
		s.MustExec(fmt.Sprintf("CREATE TABLE tb (id INT PRIMARY KEY, v %s)", tb.sql))
		for k, v := range va {
			s.MustExec(fmt.Sprintf("INSERT INTO ta VALUES (%d, %s)", k, v))
		}
		for k, v := range vb {
			s.MustExec(fmt.Sprintf("INSERT INTO tb VALUES (%d, %s)", k, v))
		}
		for _, op := range binops {
			q := fmt.Sprintf("SELECT ta.id, tb.id, ta.v %s tb.v FROM ta CROSS JOIN tb ORDER BY 1, 2", op.sym)
			res := s.Exec(q)
			if res.Panic != nil {
				r.Violation(res.Panic.Sig(), map[string]any{"sql": q, "panic": res.Panic.Value})
				continue
			}
			if res.TimedOut {
				r.Inconclusive("timeout")
				continue
			}
			if res.Err == nil && len(res.Rows) == len(va)*len(vb) {
				for _, row := range res.Rows {
					x, y := va[toInt(row[0])], vb[toInt(row[1])]
					judge(r, op.sym, ta.name, tb.name, op.f(x, y), core.Canon(row[2]), "col "+op.sym+" col", x.String()+","+y.String())
				}
				if i%17 == 0 {
					r.Sample(map[string]any{"sql": q, "types": ta.sql + " , " + tb.sql, "rows": len(res.Rows), "first": core.CanonRow(res.Rows[0])})
				}
				continue
			}
			// some row failed: evaluate pair by pair so one out-of-range report does not hide the others
			for ka, x := range va {
				for kb, y := range vb {
					q1 := fmt.Sprintf("SELECT ta.v %s tb.v FROM ta CROSS JOIN tb WHERE ta.id = %d AND tb.id = %d", op.sym, ka, kb)
					r1 := s.Exec(q1)
					got := "ERR"
					if r1.Panic != nil {
						r.Violation(r1.Panic.Sig(), map[string]any{"sql": q1, "panic": r1.Panic.Value})
						continue
					}
					if r1.TimedOut {
						r.Inconclusive("timeout")
						continue
					}
					if r1.Err == nil {
						if len(r1.Rows) != 1 {
							r.Violation("arith-row-lost", map[string]any{"sql": q1, "rows": len(r1.Rows)})
							continue
						}
						got = core.Canon(r1.Rows[0][0])
					}
					judge(r, op.sym, ta.name, tb.name, op.f(x, y), got, "col "+op.sym+" col", x.String()+","+y.String())
				}
			}
		}
		// DIV and % over the same typed columns: truncation toward zero, sign of the dividend, NULL for a zero divisor
		for _, dm := range []string{"DIV", "%"} {
			q := fmt.Sprintf("SELECT ta.id, tb.id, ta.v %s tb.v FROM ta CROSS JOIN tb ORDER BY 1, 2", dm)
			res := s.Exec(q)
			if res.Panic != nil {
				r.Violation(res.Panic.Sig(), map[string]any{"sql": q, "panic": res.Panic.Value})
				continue
			}
			if res.TimedOut {
				r.Inconclusive("timeout")
				continue
			}
			judgeDM := func(x, y *big.Int, got string, q string) {
				r.Eval(1)
				if y.Sign() == 0 {
					r.Distinct(fmt.Sprintf("%s|%s|%s|by-zero", dm, ta.name, tb.name))
					if got != "NULL" {
						r.Violation("div-by-zero-not-null:"+dm, map[string]any{"sql": q, "args": x.String() + "," + y.String(), "types": ta.name + "," + tb.name, "engine": got})
					}
					return
				}
				var exact *big.Int
				if dm == "DIV" {
					exact = new(big.Int).Quo(x, y)
				} else {
					exact = new(big.Int).Rem(x, y)
				}
				if got == "ERR" {
					r.Distinct(fmt.Sprintf("%s|%s|%s|%s|error", dm, ta.name, tb.name, fitClass(exact)))
					r.Count("divmod-error-on-typed-columns", 1)
					return
				}
				gr, ok := core.Rat(got)
				if ok && gr.IsInt() && gr.Num().Cmp(exact) == 0 {
					r.Distinct(fmt.Sprintf("%s|%s|%s|%s|exact", dm, ta.name, tb.name, fitClass(exact)))
					return
				}
				r.Violation("divmod-wrong-value:"+dm, map[string]any{"sql": q, "args": x.String() + "," + y.String(), "types": ta.name + "," + tb.name, "exact": exact.String(), "engine": got})
			}
			if res.Err == nil && len(res.Rows) == len(va)*len(vb) {
				for _, row := range res.Rows {
					judgeDM(va[toInt(row[0])], vb[toInt(row[1])], core.Canon(row[2]), q)
				}
				continue
			}
			for ka, x := range va {
				for kb, y := range vb {
					q1 := fmt.Sprintf("SELECT ta.v %s tb.v FROM ta CROSS JOIN tb WHERE ta.id = %d AND tb.id = %d", dm, ka, kb)
					got := one(r, s, q1)
					if got == "NOROW" {
						r.Violation("arith-row-lost", map[string]any{"sql": q1})
						continue
					}
					judgeDM(x, y, got, q1)
				}
			}
			// column DIV/% literal and literal DIV/% column (the literal is typed by the parser, not by a column)
			for ka, x := range va {
				for _, y := range []*big.Int{big.NewInt(2), big.NewInt(-5), big.NewInt(3), bi("9223372036854775807")} {
					q1 := fmt.Sprintf("SELECT v %s (%s) FROM ta WHERE id = %d", dm, y, ka)
					judgeDM(x, y, one(r, s, q1), q1)
					if x.Sign() != 0 {
						q2 := fmt.Sprintf("SELECT (%s) %s v FROM ta WHERE id = %d", y, dm, ka)
						got := one(r, s, q2)
						// operands swapped: y is the dividend
						func() {
							xx, yy := y, x
							r.Eval(1)
							var exact *big.Int
							if dm == "DIV" {
								exact = new(big.Int).Quo(xx, yy)
							} else {
								exact = new(big.Int).Rem(xx, yy)
							}
							if got == "ERR" {
								r.Count("divmod-error-on-typed-columns", 1)
								return
							}
							gr, ok := core.Rat(got)
							if ok && gr.IsInt() && gr.Num().Cmp(exact) == 0 {
								r.Distinct(fmt.Sprintf("%s|lit|%s|exact", dm, ta.name))
								return
							}
							r.Violation("divmod-wrong-value:"+dm, map[string]any{"sql": q2, "args": xx.String() + "," + yy.String(), "types": "lit," + ta.name, "exact": exact.String(), "engine": got})
						}()
					}
				}
			}
		}
		// unary minus on column and on literal, column op literal
		for k, x := range va {
			exact := new(big.Int).Neg(x)
			q1 := fmt.Sprintf("SELECT -v FROM ta WHERE id = %d", k)
			judge(r, "neg", ta.name, "-", exact, one(r, s, q1), "-col", x.String())
		}
		_ = tb
	})
}

func toInt(v any) int {
	var n int
	fmt.Sscan(core.Canon(v), &n)
	return n
}

// one runs a single-value query and returns the canonical value, "ERR" on error.
func one(r *core.Run, s *core.Sess, q string) string {
	res := s.Exec(q)
	if res.Panic != nil {
		r.Violation(res.Panic.Sig(), map[string]any{"sql": q, "panic": res.Panic.Value})
		return "ERR"
	}
	if res.TimedOut {
		r.Inconclusive("timeout")
		return "ERR"
	}
	if res.Err != nil {
		return "ERR"
	}
	if len(res.Rows) != 1 || len(res.Rows[0]) < 1 {
		return "NOROW"
	}
	return core.Canon(res.Rows[0][0])
}

func intLiterals(r *core.Run) {
	n := r.N(1500, 40000)
	pool := []*big.Int{}
	for _, t := range ityps {
		pool = append(pool, t.min, t.max, new(big.Int).Add(t.max, big.NewInt(1)), new(big.Int).Sub(t.min, big.NewInt(1)))
	}
	pool = append(pool, big.NewInt(0), big.NewInt(1), big.NewInt(-1), big.NewInt(2), big.NewInt(-2), bi("4294967296"), bi("3037000500"), bi("-3037000500"))
	r.Parallel("intlits", 16, func(w int) {
		e := core.NewEng("d")
		defer e.Close()
		s := e.NewSess()
		for i := w; i < n; i += 16 {
			rnd := r.Rand("intlits", i)
			pick := func() *big.Int {
				if rnd.Intn(4) > 0 {
					return pool[rnd.Intn(len(pool))]
				}
				x := new(big.Int).SetInt64(rnd.Int63())
				if rnd.Intn(2) == 0 {
					x.Neg(x)
				}
				x.Rsh(x, uint(rnd.Intn(40)))
				return x
			}
			a, b := pick(), pick()
			// literals are kept inside [minI64, maxU64] so the parser reads them as integers
			if a.Cmp(minI64) < 0 || a.Cmp(maxU64) > 0 || b.Cmp(minI64) < 0 || b.Cmp(maxU64) > 0 {
				continue
			}
			op := binops[rnd.Intn(3)]
			lit := func(v *big.Int) string {
				if v.Sign() < 0 {
					return "(" + v.String() + ")"
				}
				return v.String()
			}
			q := fmt.Sprintf("SELECT %s %s %s", lit(a), op.sym, lit(b))
			judge(r, op.sym, "lit:"+litClass(a), "lit:"+litClass(b), op.f(a, b), one(r, s, q), q, "")
			if i < 3 {
				r.Sample(map[string]any{"sql": q, "exact": op.f(a, b).String()})
			}
			// nested three-operand expression through a typed column-free CAST
			if rnd.Intn(3) == 0 && a.Cmp(maxI64) <= 0 && b.Cmp(maxI64) <= 0 {
				c := pick()
				if c.Cmp(minI64) >= 0 && c.Cmp(maxI64) <= 0 {
					op2 := binops[rnd.Intn(3)]
					q3 := fmt.Sprintf("SELECT (CAST(%s AS SIGNED) %s CAST(%s AS SIGNED)) %s CAST(%s AS SIGNED)", a, op.sym, b, op2.sym, c)
					inner := op.f(a, b)
					got := one(r, s, q3)
					if inner.Cmp(minI64) < 0 || inner.Cmp(maxI64) > 0 {
						// the inner result already exceeds BIGINT: any non-error answer must still be exact
					}
					judge(r, op.sym+op2.sym, "cast-signed", "cast-signed", op2.f(inner, c), got, q3, "")
				}
			}
		}
	})
}

func litClass(v *big.Int) string {
	switch {
	case v.Sign() < 0:
		return "neg"
	case v.Cmp(maxI64) > 0:
		return "big"
	}
	return "pos"
}

func divMod(r *core.Run) {
	n := r.N(1500, 40000)
	r.Parallel("divmod", 16, func(w int) {
		e := core.NewEng("d")
		defer e.Close()
		s := e.NewSess()
		for i := w; i < n; i += 16 {
			rnd := r.Rand("divmod", i)
			small := func() int64 {
				switch rnd.Intn(5) {
				case 0:
					return 0
				case 1:
					return int64(rnd.Intn(7)) - 3
				case 2:
					return rnd.Int63n(1<<40) - (1 << 39)
				}
				return int64(rnd.Intn(2001)) - 1000
			}
			a, b := small(), small()
			ops := []string{"DIV", "%", "MOD", "/"}
			op := ops[rnd.Intn(len(ops))]
			q := fmt.Sprintf("SELECT (%d) %s (%d)", a, op, b)
			got := one(r, s, q)
			r.Eval(1)
			if b == 0 {
				r.Distinct(op + "|by-zero")
				if got != "NULL" {
					r.Violation("div-by-zero-not-null:"+op, map[string]any{"sql": q, "engine": got})
				}
				continue
			}
			if got == "ERR" {
				r.Violation("divmod-error:"+op, map[string]any{"sql": q})
				continue
			}
			A, B := big.NewInt(a), big.NewInt(b)
			quo := new(big.Int).Quo(A, B) // truncated
			rem := new(big.Int).Rem(A, B) // sign of dividend
			gr, ok := core.Rat(got)
			sign := "pos"
			if (a < 0) != (b < 0) {
				sign = "negq"
			}
			r.Distinct(op + "|" + sign)
			switch op {
			case "DIV":
				if !ok || !gr.IsInt() || gr.Num().Cmp(quo) != 0 {
					r.Violation("div-not-truncated", map[string]any{"sql": q, "engine": got, "exact": quo.String()})
				}
			case "%", "MOD":
				if !ok || !gr.IsInt() || gr.Num().Cmp(rem) != 0 {
					r.Violation("mod-wrong", map[string]any{"sql": q, "engine": got, "exact": rem.String()})
				}
			case "/":
				// exact quotient rounded to the engine's printed scale, within one last-digit unit
				if !ok {
					r.Violation("div-not-number", map[string]any{"sql": q, "engine": got})
					continue
				}
				ex := new(big.Rat).SetFrac(A, B)
				diff := new(big.Rat).Sub(gr, ex)
				diff.Abs(diff)
				if diff.Cmp(big.NewRat(1, 10000)) > 0 { // default div scale is 4 fractional digits
					r.Violation("div-inexact", map[string]any{"sql": q, "engine": got, "exact": ex.FloatString(8)})
				}
			}
		}
	})
}

func randDec(rnd interface{ Intn(int) int }, maxInt, maxFrac int) (string, *big.Rat) {
	ni := rnd.Intn(maxInt) + 1
	nf := rnd.Intn(maxFrac + 1)
	var b strings.Builder
	if rnd.Intn(3) == 0 {
		b.WriteByte('-')
	}
	b.WriteByte(byte('1' + rnd.Intn(9)))
	for i := 1; i < ni; i++ {
		b.WriteByte(byte('0' + rnd.Intn(10)))
	}
	if nf > 0 {
		b.WriteByte('.')
		for i := 0; i < nf; i++ {
			b.WriteByte(byte('0' + rnd.Intn(10)))
		}
	}
	s := b.String()
	v, _ := new(big.Rat).SetString(s)
	return s, v
}

func decimals(r *core.Run) {
	n := r.N(2000, 60000)
	r.Parallel("decimals", 16, func(w int) {
		e := core.NewEng("d")
		defer e.Close()
		s := e.NewSess()
		s.MustExec("CREATE TABLE dt (id INT PRIMARY KEY, a DECIMAL(30,10), b DECIMAL(30,10))")
		for i := w; i < n; i += 16 {
			rnd := r.Rand("decimals", i)
			as, av := randDec(rnd, 18, 9)
			bs, bv := randDec(rnd, 18, 9)
			op := binops[rnd.Intn(3)]
			var exact *big.Rat
			switch op.sym {
			case "+":
				exact = new(big.Rat).Add(av, bv)
			case "-":
				exact = new(big.Rat).Sub(av, bv)
			case "*":
				exact = new(big.Rat).Mul(av, bv)
			}
			var q string
			mode := "lit"
			if rnd.Intn(2) == 0 {
				q = fmt.Sprintf("SELECT %s %s %s", wrapNeg(as), op.sym, wrapNeg(bs))
			} else {
				mode = "col"
				s.MustExec(fmt.Sprintf("REPLACE INTO dt VALUES (%d, %s, %s)", w, as, bs))
				q = fmt.Sprintf("SELECT a %s b FROM dt WHERE id = %d", op.sym, w)
			}
			got := one(r, s, q)
			r.Eval(1)
			if got == "ERR" {
				r.Distinct("dec|" + op.sym + "|" + mode + "|error")
				r.Count("decimal-error", 1)
				continue
			}
			gr, ok := core.Rat(got)
			if !ok || gr.Cmp(exact) != 0 {
				r.Violation("decimal-inexact:"+op.sym+":"+mode, map[string]any{"sql": q, "a": as, "b": bs, "engine": got, "exact": exact.FloatString(20)})
				continue
			}
			r.Distinct("dec|" + op.sym + "|" + mode + "|exact")
		}
	})
}

func wrapNeg(s string) string {
	if strings.HasPrefix(s, "-") {
		return "(" + s + ")"
	}
	return s
}

// pinned replays the witnesses of known findings (KNOWN_FINDINGS.txt) on every run.
func pinned(r *core.Run) {
	e := core.NewEng("d")
	defer e.Close()
	s := e.NewSess()
	type pw struct{ sig, sql, exact, what string }
	for _, p := range []pw{
		{"arith-wrapped-mod-2^64:+", "SELECT 9223372036854775807 + 1", "9223372036854775808", "BIGINT + wraps instead of reporting out-of-range"},
		{"arith-wrapped-mod-2^64:-", "SELECT (-9223372036854775807) - 2", "-9223372036854775809", "BIGINT - wraps instead of reporting out-of-range"},
		{"arith-wrapped-mod-2^64:*", "SELECT CAST(9223372036854775807 AS SIGNED) * 2", "18446744073709551614", "BIGINT * wraps instead of reporting out-of-range"},
	} {
		got := one(r, s, p.sql)
		fails := got != "ERR" && got != p.exact
		r.Pinned(p.sig, p.what+" ("+p.sql+" -> "+got+")", fails, map[string]any{"sql": p.sql, "engine": got, "exact": p.exact})
	}
}
