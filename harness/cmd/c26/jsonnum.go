package main

import (
	"context"
	"fmt"
	"math"
	"math/big"

	"github.com/dolthub/go-mysql-server/sql/types"

	"verif/harness/core"
)

// jsonNumberBattery compares JSON numbers in every Go representation a document can hold (int64, uint64,
// float64) around the places where a representation stops being exact (2^53, 2^63, 2^64) against the exact
// numeric order computed with math/big. Numeric JSON scalars have an unambiguous natural order; a random pool
// almost never puts the three values needed for a transitivity witness side by side, this battery does.
func jsonNumberBattery(r *core.Run) {
	p53 := int64(1) << 53
	vals := []any{
		int64(0), int64(1), int64(-1), int64(p53 - 1), int64(p53), int64(p53 + 1), int64(p53 + 2), int64(p53 + 3),
		int64(-p53), int64(-p53 - 1), int64(-p53 - 2), int64(math.MaxInt64), int64(math.MaxInt64 - 1), int64(math.MinInt64), int64(math.MinInt64 + 1),
		uint64(0), uint64(p53), uint64(p53 + 1), uint64(1) << 63, uint64(1)<<63 + 1, uint64(1)<<63 - 1, uint64(math.MaxUint64), uint64(math.MaxUint64 - 1),
		float64(0), float64(0.5), float64(-0.5), float64(p53 - 1), float64(p53), float64(p53 + 2), float64(-p53), float64(-p53 - 2),
		float64(4503599627370496.5), float64(-4503599627370496.5), math.Ldexp(1, 63), -math.Ldexp(1, 63), math.Nextafter(math.Ldexp(1, 63), 0), math.Ldexp(1, 64),
		math.Nextafter(math.Ldexp(1, 64), 0), float64(1e19), float64(1e30), float64(-1e30), float64(1e300),
	}
	exact := func(v any) *big.Rat {
		switch x := v.(type) {
		case int64:
			return new(big.Rat).SetInt64(x)
		case uint64:
			return new(big.Rat).SetInt(new(big.Int).SetUint64(x))
		case float64:
			q, _ := new(big.Rat).SetString(new(big.Float).SetFloat64(x).Text('f', 40))
			return q
		}
		return nil
	}
	e := core.NewEng("d")
	defer e.Close()
	var sctx context.Context = e.NewSess().Ctx()
	for i, a := range vals {
		for j, b := range vals {
			da, db := types.JSONDocument{Val: a}, types.JSONDocument{Val: b}
			want := exact(a).Cmp(exact(b))
			c, pan := safeCompare(sctx, types.JSON, da, db)
			if pan != nil {
				r.Violation(pan.Sig(), map[string]any{"law": "json-number-order", "a": fmt.Sprintf("%T(%v)", a, a), "b": fmt.Sprintf("%T(%v)", b, b), "panic": pan.Value})
				continue
			}
			if !c.ok {
				r.Count("json.battery.compare-errors", 1)
				continue
			}
			r.Eval(1)
			r.Count("json.battery.pairs", 1)
			r.Distinct(fmt.Sprintf("json-number-order|%T|%T|%d", a, b, want))
			if sign(c.c) != want {
				r.Violation(fmt.Sprintf("json-number-order:%T-vs-%T", a, b), map[string]any{
					"a": fmt.Sprintf("%T(%v)", a, a), "b": fmt.Sprintf("%T(%v)", b, b), "compare": c.c, "exact order": want, "i": i, "j": j})
			}
		}
	}
	r.Sample(map[string]any{"law": "json-number-order", "values": len(vals), "pairs": len(vals) * len(vals), "reference": "math/big exact comparison of the denoted numbers"})
}
