// C26 — comparison of values is a consistent total order per type.
//
// API layer (the verdict-carrying core): for every type of the catalogue a case draws a small pool of
// raw values in every Go representation the type accepts (plus NULL), fills the full matrix of
// sql.Type.Compare results on the real engine code, and checks on it
//   - reflexivity            cmp(a,a) = 0
//   - antisymmetry           sign cmp(a,b) = -sign cmp(b,a)
//   - transitivity           cmp(a,b)<=0 & cmp(b,c)<=0 => cmp(a,c)<=0 ; cmp(a,b)=0 & cmp(b,c)=0 => cmp(a,c)=0
//   - NULL                   cmp(NULL,NULL)=0, NULL below every non-NULL value (both argument orders)
//   - conversion coherence   cmp(a,b) = cmp(Convert a, Convert b) and cmp(a, Convert a) = 0, only for values the
//     reference marks Exact (lossless conversion) — for lossy conversions the law is false by construction
//   - natural order          for Exact values of numeric, temporal, binary, ENUM, SET and BIT types cmp agrees with the
//     numeric / chronological / bytewise order of the denoted values (not for collated strings and JSON)
//   - no panic
//
// SQL layer: stored column values: exactly one of a<b, a=b, a>b is TRUE for non-NULL pairs, the three agree with
// their mirrored pair, and ORDER BY v puts NULLs first and never puts a row before one it is '>' than.
package main

import (
	"context"
	"fmt"
	"math"
	"sort"
	"strings"

	"github.com/dolthub/go-mysql-server/sql"
	"github.com/dolthub/go-mysql-server/sql/types"

	"verif/harness/core"
	"verif/harness/g1lib"
)

func main() {
	r := core.NewRun("C26", "exploration",
		"a case is one (type, pool of 8 raw values + NULL): the full Compare matrix is checked for reflexivity, antisymmetry, transitivity (all triples), NULL ordering and conversion coherence on Exact values; distinct = (type, law, representation pair / outcome) reached with a conclusive verdict")
	r.Assume("raw values cover every Go representation Convert accepts; only values the reference marks Exact (lossless conversion) are judged on cmp(a,b)=cmp(conv a,conv b)")
	r.Assume("a Compare call that returns an error is not judged (counted); NaN is not a SQL value and is not generated")
	cat := g1lib.Catalog()
	apiLaws(r, cat)
	sqlLayer(r, cat)
	jsonNumberBattery(r)
	pinned(r)
	r.Floor(r.Counter("api.compare.calls") > 0, "Type.Compare never called")
	r.Floor(r.Counter("api.triples") > 0, "no triple evaluated")
	r.Floor(r.Counter("api.null.pairs") > 0, "NULL ordering never evaluated (CompareNulls not reached)")
	r.Floor(r.Counter("api.coherence.pairs") > 0, "conversion coherence never evaluated")
	r.Floor(r.Counter("sql.pairs") > 0, "SQL comparison operators never evaluated")
	r.Finish()
}

func sign(x int) int {
	switch {
	case x < 0:
		return -1
	case x > 0:
		return 1
	}
	return 0
}

type cell struct {
	c   int
	err error
	ok  bool
}

func safeCompare(ctx context.Context, t sql.Type, a, b any) (c cell, pan *core.PanicInfo) {
	defer func() {
		if rec := recover(); rec != nil {
			pan = core.CapturePanic(rec)
		}
	}()
	v, err := t.Compare(ctx, a, b)
	return cell{c: v, err: err, ok: err == nil}, nil
}

func safeConvert(ctx context.Context, t sql.Type, a any) (v any, err error, pan *core.PanicInfo) {
	defer func() {
		if rec := recover(); rec != nil {
			pan = core.CapturePanic(rec)
		}
	}()
	v, _, err = t.Convert(ctx, a)
	return v, err, nil
}

// ---- known-finding matchers: each returns a narrow signature or "" -------------------------------------

// JSON documents that contain both an integer-typed number (int64/uint64) and a double of magnitude >= 2^63:
// compareIntToFloat / compareUintToFloat convert the double with int64(f) / uint64(f), which is undefined
// there, so the integer compares as greater than a huge double.
func jsonHasIntAndHugeFloat(vals ...any) bool {
	hasInt, hasHuge := false, false
	var walk func(v any)
	walk = func(v any) {
		switch x := v.(type) {
		case types.JSONDocument:
			walk(x.Val)
		case int64, uint64, int, int8, int16, int32, uint, uint8, uint16, uint32:
			hasInt = true
		case float64:
			if math.Abs(x) >= 9.223372036854775807e18 {
				hasHuge = true
			}
		case []any:
			for _, e := range x {
				walk(e)
			}
		case map[string]any:
			for _, e := range x {
				walk(e)
			}
		}
	}
	for _, v := range vals {
		walk(v)
	}
	return hasInt && hasHuge
}

// SET types that have '' as a member: Compare treats the Go string "" as equal to both bit field 0 and the bit of
// the member ''.
func setEmptyMemberInvolved(s *g1lib.Spec, vals ...any) bool {
	if s.Kind != "set" || len(s.Members) == 0 || s.Members[0] != "" {
		return false
	}
	for _, v := range vals {
		if str, ok := v.(string); ok && str == "" {
			return true
		}
	}
	return false
}

func lawSig(law string, s *g1lib.Spec, raws []g1lib.Raw, vals ...any) string {
	if s.Kind == "json" && jsonHasIntAndHugeFloat(vals...) {
		return law + ":json:integer-vs-double-beyond-int64"
	}
	if setEmptyMemberInvolved(s, vals...) {
		return law + ":set-with-empty-member:empty-string-operand"
	}
	reprs := map[string]bool{}
	for _, rw := range raws {
		reprs[rw.Repr+"/"+rw.Class] = true
	}
	var rs []string
	for k := range reprs {
		rs = append(rs, k)
	}
	sort.Strings(rs)
	return law + ":" + s.Kind + ":" + strings.Join(rs, "|")
}

func apiLaws(r *core.Run, cat []*g1lib.Spec) {
	per := r.N(600, 6000)
	const pool = 8
	type job struct {
		s *g1lib.Spec
		k int
	}
	var jobs []job
	for _, s := range cat {
		for k := 0; k < per; k++ {
			jobs = append(jobs, job{s, k})
		}
	}
	eng := core.NewEng("d")
	defer eng.Close()
	r.Parallel("api", len(jobs), func(i int) {
		j := jobs[i]
		s := j.s
		rnd := r.Rand("api/"+s.Name, j.k)
		ctx := eng.NewSess().Ctx()
		raws := g1lib.Pool(s, rnd, pool)
		if s.Kind == "json" {
			// JSON operands are always already-converted documents: a raw Go string is ambiguous between JSON text
			// (what Convert reads) and a JSON string scalar (what Compare reads), so it has no single denotation
			kept := raws[:0]
			for _, rw := range raws {
				if rw.Repr == "json" {
					kept = append(kept, rw)
				}
			}
			raws = kept
		}
		raws = append(raws, g1lib.Raw{V: nil, Repr: "null", Class: "null"})
		n := len(raws)
		local := map[string]struct{}{}
		witness := func(idx ...int) map[string]any {
			w := map[string]any{"type": s.Name, "case": j.k, "seed": r.Seed}
			for p, ix := range idx {
				w[fmt.Sprintf("v%d", p)] = raws[ix].String()
			}
			return w
		}
		// matrix
		M := make([][]cell, n)
		var calls, errs int64
		for a := 0; a < n; a++ {
			M[a] = make([]cell, n)
			for b := 0; b < n; b++ {
				c, pan := safeCompare(ctx, s.T, raws[a].V, raws[b].V)
				calls++
				if pan != nil {
					w := witness(a, b)
					w["panic"] = pan.Value
					r.Violation(pan.Sig(), w)
					continue
				}
				if !c.ok {
					errs++
				}
				M[a][b] = c
			}
		}
		r.Count("api.compare.calls", calls)
		r.Count("api.compare.errors", errs)
		nul := n - 1
		var evals int
		// reflexivity, antisymmetry, error symmetry
		for a := 0; a < n; a++ {
			if M[a][a].ok {
				evals++
				if M[a][a].c != 0 {
					w := witness(a)
					w["cmp(a,a)"] = M[a][a].c
					r.Violation(lawSig("reflexivity", s, []g1lib.Raw{raws[a]}, raws[a].V), w)
				}
			}
			for b := a + 1; b < n; b++ {
				x, y := M[a][b], M[b][a]
				if x.ok != y.ok {
					w := witness(a, b)
					w["cmp(a,b)"], w["cmp(b,a)"] = fmt.Sprint(x.c, x.err), fmt.Sprint(y.c, y.err)
					r.Violation(lawSig("error-asymmetry", s, []g1lib.Raw{raws[a], raws[b]}, raws[a].V, raws[b].V), w)
					continue
				}
				if !x.ok {
					continue
				}
				evals++
				if a != nul && b != nul {
					local[s.Name+"|antisym|"+raws[a].Repr+"×"+raws[b].Repr+"|"+fmt.Sprint(sign(x.c))] = struct{}{}
				}
				if sign(x.c) != -sign(y.c) {
					w := witness(a, b)
					w["cmp(a,b)"], w["cmp(b,a)"] = x.c, y.c
					r.Violation(lawSig("antisymmetry", s, []g1lib.Raw{raws[a], raws[b]}, raws[a].V, raws[b].V), w)
				}
			}
		}
		// NULL ordering
		if M[nul][nul].ok {
			evals++
			if M[nul][nul].c != 0 {
				r.Violation("null-order:"+s.Kind+":cmp(NULL,NULL)!=0", witness(nul))
			}
		}
		for a := 0; a < nul; a++ {
			x, y := M[nul][a], M[a][nul]
			if !x.ok || !y.ok {
				continue
			}
			evals++
			r.Count("api.null.pairs", 1)
			if sign(x.c) == -1 && sign(y.c) == 1 {
				local[s.Name+"|null-first"] = struct{}{}
				continue
			}
			w := witness(a)
			w["cmp(NULL,a)"], w["cmp(a,NULL)"] = x.c, y.c
			if sign(x.c) == 1 && sign(y.c) == -1 {
				// the whole ordering of NULL is mirrored: CompareNulls returns +1 when the FIRST argument is NULL
				r.Violation("null-order:compare-puts-null-after-non-null", w)
			} else {
				r.Violation(fmt.Sprintf("null-order:%s:cmp(NULL,a)=%d,cmp(a,NULL)=%d", s.Kind, sign(x.c), sign(y.c)), w)
			}
		}
		// transitivity over all triples of non-NULL values (NULL is covered above: it is an extremum)
		var triples int64
		for a := 0; a < nul; a++ {
			for b := 0; b < nul; b++ {
				if !M[a][b].ok {
					continue
				}
				for c := 0; c < nul; c++ {
					if !M[b][c].ok || !M[a][c].ok {
						continue
					}
					triples++
					ab, bc, ac := sign(M[a][b].c), sign(M[b][c].c), sign(M[a][c].c)
					bad := ""
					switch {
					case ab == 0 && bc == 0 && ac != 0:
						bad = "eq-transitivity"
					case ab <= 0 && bc <= 0 && ac > 0:
						bad = "transitivity"
					}
					if bad != "" {
						w := witness(a, b, c)
						w["cmp(a,b)"], w["cmp(b,c)"], w["cmp(a,c)"] = ab, bc, ac
						r.Violation(lawSig(bad, s, []g1lib.Raw{raws[a], raws[b], raws[c]}, raws[a].V, raws[b].V, raws[c].V), w)
					} else if ab < 0 && bc < 0 {
						local[s.Name+"|strict-chain"] = struct{}{}
					} else if ab == 0 && bc == 0 && a != b && b != c {
						local[s.Name+"|eq-chain"] = struct{}{}
					}
				}
			}
		}
		r.Count("api.triples", triples)
		evals += int(triples)
		// conversion coherence on Exact values
		conv := make([]any, n)
		convOK := make([]bool, n)
		for a := 0; a < nul; a++ {
			if !raws[a].Exact {
				continue
			}
			v, err, pan := safeConvert(ctx, s.T, raws[a].V)
			if pan != nil {
				w := witness(a)
				w["panic"] = pan.Value
				r.Violation(pan.Sig(), w)
				continue
			}
			if err != nil || v == nil {
				continue // whether an Exact value must be accepted is C27's question, not C26's
			}
			conv[a], convOK[a] = v, true
			c, pan := safeCompare(ctx, s.T, raws[a].V, v)
			if pan != nil {
				w := witness(a)
				w["panic"] = pan.Value
				r.Violation(pan.Sig(), w)
				continue
			}
			if c.ok {
				evals++
				if c.c != 0 {
					w := witness(a)
					w["converted"], w["cmp(a,conv a)"] = g1lib.Show(v), c.c
					r.Violation(lawSig("value-differs-from-its-conversion", s, []g1lib.Raw{raws[a]}, raws[a].V), w)
				}
			}
		}
		var coh int64
		for a := 0; a < nul; a++ {
			for b := 0; b < nul; b++ {
				if !convOK[a] || !convOK[b] || !M[a][b].ok {
					continue
				}
				c, pan := safeCompare(ctx, s.T, conv[a], conv[b])
				if pan != nil {
					w := witness(a, b)
					w["panic"] = pan.Value
					r.Violation(pan.Sig(), w)
					continue
				}
				if !c.ok {
					continue
				}
				coh++
				if raws[a].Repr != raws[b].Repr {
					local[s.Name+"|coherence|"+raws[a].Repr+"×"+raws[b].Repr] = struct{}{}
				}
				// the natural order of the denoted values, for kinds that have one beyond doubt
				if raws[a].Accept > 0 && raws[b].Accept > 0 {
					if ref, ok := g1lib.RefCompare(s.Kind, raws[a].Want, raws[b].Want); ok {
						coh++
						local[s.Name+"|natural-order|"+fmt.Sprint(ref)] = struct{}{}
						if sign(M[a][b].c) != ref {
							w := witness(a, b)
							w["cmp(a,b)"], w["natural order"] = M[a][b].c, ref
							r.Violation(lawSig("natural-order", s, []g1lib.Raw{raws[a], raws[b]}, raws[a].V, raws[b].V), w)
						}
					}
				}
				if sign(c.c) != sign(M[a][b].c) {
					w := witness(a, b)
					w["cmp(a,b)"], w["cmp(conv a,conv b)"] = M[a][b].c, c.c
					w["conv a"], w["conv b"] = g1lib.Show(conv[a]), g1lib.Show(conv[b])
					r.Violation(lawSig("conversion-coherence", s, []g1lib.Raw{raws[a], raws[b]}, raws[a].V, raws[b].V), w)
				}
			}
		}
		r.Count("api.coherence.pairs", coh)
		evals += int(coh)
		r.Eval(evals)
		for k := range local {
			r.Distinct(k)
		}
		if j.k == 0 && (s.Kind == "json" || s.Name == "decimal(5,2)" || s.Name == "varchar(8)/utf8mb4_0900_ai_ci" || s.Name == "datetime(3)") {
			var vs []string
			for _, rw := range raws {
				vs = append(vs, rw.String())
			}
			r.Sample(map[string]any{"type": s.Name, "pool": vs, "compare_calls": calls, "triples": triples, "coherence_pairs": coh})
		}
	})
}

// ---- SQL layer -----------------------------------------------------------------------------------------

func sqlLayer(r *core.Run, cat []*g1lib.Spec) {
	per := r.N(2, 25)
	type job struct {
		s *g1lib.Spec
		k int
	}
	var jobs []job
	for _, s := range cat {
		for k := 0; k < per; k++ {
			jobs = append(jobs, job{s, k})
		}
	}
	r.Parallel("sql", len(jobs), func(i int) {
		j := jobs[i]
		s := j.s
		rnd := r.Rand("sql/"+s.Name, j.k)
		e := core.NewEng("d")
		defer e.Close()
		ss := e.NewSess()
		cr := ss.Exec("CREATE TABLE t (id INT PRIMARY KEY, v " + s.DDL + ")")
		if cr.Failed() {
			r.Inconclusive("create-table-failed:" + s.Kind)
			return
		}
		var setup []string
		id := 0
		for tries := 0; tries < 40 && id < 9; tries++ {
			rw := g1lib.Gen(s, rnd)
			if rw.Lit == "" || rw.Accept < 0 {
				continue
			}
			q := fmt.Sprintf("INSERT INTO t VALUES (%d, %s)", id, rw.Lit)
			if res := ss.Exec(q); res.Failed() {
				continue
			}
			setup = append(setup, q)
			id++
		}
		for k := 0; k < 2; k++ {
			q := fmt.Sprintf("INSERT INTO t VALUES (%d, NULL)", id)
			ss.MustExec(q)
			setup = append(setup, q)
			id++
		}
		n := id
		wit := func(extra map[string]any) map[string]any {
			w := map[string]any{"type": s.Name, "ddl": s.DDL, "setup": setup, "seed": r.Seed, "case": j.k}
			for k, v := range extra {
				w[k] = v
			}
			return w
		}
		// the stored values, as the engine holds them
		stored := make([]any, n)
		rd := ss.Exec("SELECT id, v FROM t")
		if rd.Failed() {
			r.Inconclusive("read-failed:" + s.Kind)
			return
		}
		for _, row := range rd.Rows {
			stored[toInt(row[0])] = row[1]
		}
		q := "SELECT x.id, y.id, x.v < y.v, x.v = y.v, x.v > y.v FROM t x CROSS JOIN t y"
		res := ss.Exec(q)
		if res.Panic != nil {
			r.Violation(res.Panic.Sig(), wit(map[string]any{"sql": q, "panic": res.Panic.Value}))
			return
		}
		if res.TimedOut {
			r.Inconclusive("timeout")
			return
		}
		if res.Err != nil {
			r.Inconclusive("comparison-operator-error:" + s.Kind)
			r.Count("sql.operator-error."+s.Kind, 1)
			return
		}
		type tri struct{ lt, eq, gt string }
		T := map[[2]int]tri{}
		for _, row := range res.Rows {
			T[[2]int{toInt(row[0]), toInt(row[1])}] = tri{core.Canon(row[2]), core.Canon(row[3]), core.Canon(row[4])}
		}
		evals := 0
		rel := func(a, b int) int { // -1, 0, +1 or 9 (not a total answer)
			t := T[[2]int{a, b}]
			switch {
			case t.lt == "1" && t.eq == "0" && t.gt == "0":
				return -1
			case t.lt == "0" && t.eq == "1" && t.gt == "0":
				return 0
			case t.lt == "0" && t.eq == "0" && t.gt == "1":
				return 1
			}
			return 9
		}
		for a := 0; a < n; a++ {
			for b := 0; b < n; b++ {
				t, ok := T[[2]int{a, b}]
				if !ok {
					r.Violation("sql-pair-missing:"+s.Kind, wit(map[string]any{"sql": q, "a": a, "b": b}))
					continue
				}
				evals++
				r.Count("sql.pairs", 1)
				if stored[a] == nil || stored[b] == nil {
					if t.lt != "NULL" || t.eq != "NULL" || t.gt != "NULL" {
						r.Violation("sql-null-comparison-not-null:"+s.Kind, wit(map[string]any{"sql": q, "a": core.Canon(stored[a]), "b": core.Canon(stored[b]), "lt,eq,gt": []string{t.lt, t.eq, t.gt}}))
					}
					continue
				}
				ra := rel(a, b)
				if ra == 9 {
					r.Violation("sql-trichotomy:"+s.Kind, wit(map[string]any{"sql": q, "a": core.Canon(stored[a]), "b": core.Canon(stored[b]), "lt,eq,gt": []string{t.lt, t.eq, t.gt}}))
					continue
				}
				r.Distinct(fmt.Sprintf("%s|sql|%d", s.Name, ra))
				if a == b && ra != 0 {
					r.Violation("sql-reflexivity:"+s.Kind, wit(map[string]any{"sql": q, "a": core.Canon(stored[a]), "rel": ra}))
				}
				if rb := rel(b, a); rb != 9 && rb != -ra {
					r.Violation("sql-antisymmetry:"+s.Kind, wit(map[string]any{"sql": q, "a": core.Canon(stored[a]), "b": core.Canon(stored[b]), "rel(a,b)": ra, "rel(b,a)": rb}))
				}
			}
		}
		// transitivity of the SQL operators
		for a := 0; a < n; a++ {
			for b := 0; b < n; b++ {
				for c := 0; c < n; c++ {
					if stored[a] == nil || stored[b] == nil || stored[c] == nil {
						continue
					}
					ab, bc, ac := rel(a, b), rel(b, c), rel(a, c)
					if ab == 9 || bc == 9 || ac == 9 {
						continue
					}
					evals++
					if (ab <= 0 && bc <= 0 && ac > 0) || (ab == 0 && bc == 0 && ac != 0) {
						sig := "sql-transitivity:" + s.Kind
						if s.Kind == "json" && jsonHasIntAndHugeFloat(unwrapJSON(stored[a]), unwrapJSON(stored[b]), unwrapJSON(stored[c])) {
							sig = "sql-transitivity:json:integer-vs-double-beyond-int64"
						}
						r.Violation(sig, wit(map[string]any{"a": core.Canon(stored[a]), "b": core.Canon(stored[b]), "c": core.Canon(stored[c]), "rels": []int{ab, bc, ac}}))
					}
				}
			}
		}
		// ORDER BY: NULLs first; never a row before one it is greater than. ENUM and SET sort by index / bit value
		// while their comparison operators compare the text (MySQL semantics), so for those ORDER BY is checked
		// against Type.Compare of the stored values instead.
		oq := "SELECT id FROM t ORDER BY v, id"
		ord := ss.Exec(oq)
		if ord.Failed() {
			r.Inconclusive("order-by-failed:" + s.Kind)
		} else if len(ord.Rows) != n {
			r.Violation("order-by-row-count:"+s.Kind, wit(map[string]any{"sql": oq, "rows": len(ord.Rows), "expected": n}))
		} else {
			ids := make([]int, n)
			for k, row := range ord.Rows {
				ids[k] = toInt(row[0])
			}
			seenNonNull := false
			ctx := ss.Ctx()
			colT := rd.Schema[1].Type
			for k := 0; k < n; k++ {
				if stored[ids[k]] == nil {
					evals++
					if seenNonNull {
						r.Violation("order-by-null-not-first:"+s.Kind, wit(map[string]any{"sql": oq, "order": ids}))
					}
					continue
				}
				seenNonNull = true
				if k+1 < n && stored[ids[k+1]] != nil {
					evals++
					a, b := ids[k], ids[k+1]
					if s.Kind == "enum" || s.Kind == "set" {
						c, pan := safeCompare(ctx, colT, stored[a], stored[b])
						if pan == nil && c.ok && c.c > 0 {
							r.Violation("order-by-disagrees-with-compare:"+s.Kind, wit(map[string]any{"sql": oq, "a": core.Canon(stored[a]), "b": core.Canon(stored[b])}))
						}
						continue
					}
					if rel(a, b) == 1 {
						sig := "order-by-disagrees-with-operators:" + s.Kind
						if s.Kind == "json" && jsonHasIntAndHugeFloat(unwrapJSON(stored[a]), unwrapJSON(stored[b])) {
							sig = "order-by-disagrees-with-operators:json:integer-vs-double-beyond-int64"
						}
						r.Violation(sig, wit(map[string]any{"sql": oq, "a": core.Canon(stored[a]), "b": core.Canon(stored[b]), "order": ids}))
					}
					if rel(a, b) == 0 && a > b {
						r.Violation("order-by-tiebreak:"+s.Kind, wit(map[string]any{"sql": oq, "a": a, "b": b, "order": ids}))
					}
				}
			}
			r.Distinct(s.Name + "|order-by")
		}
		r.Eval(evals)
		if j.k == 0 && (s.Name == "int" || s.Name == "json" || s.Name == "char(4)/utf8mb4_general_ci") {
			r.Sample(map[string]any{"type": s.Name, "setup": setup, "matrix_sql": q, "order_sql": oq})
		}
	})
}

func unwrapJSON(v any) any {
	if w, ok := v.(sql.JSONWrapper); ok {
		x, err := w.ToInterface(context.Background())
		if err == nil {
			return x
		}
	}
	return v
}

func toInt(v any) int {
	var n int
	fmt.Sscan(core.Canon(v), &n)
	return n
}

// pinned replays the witnesses of the known findings on every run.
func pinned(r *core.Run) {
	e := core.NewEng("d")
	defer e.Close()
	ctx := e.NewSess().Ctx()
	// 1. NULL ordering of Type.Compare
	{
		a, _ := types.Int64.Compare(ctx, nil, int64(5))
		b, _ := types.Int64.Compare(ctx, int64(5), nil)
		r.Pinned("null-order:compare-puts-null-after-non-null",
			fmt.Sprintf("types.Int64.Compare(NULL, 5) = %d and Compare(5, NULL) = %d: NULL is ordered after non-NULL values", a, b),
			a > 0 && b < 0, map[string]any{"cmp(NULL,5)": a, "cmp(5,NULL)": b})
	}
	// 2. JSON integer vs huge double
	{
		x, y, z := types.JSONDocument{Val: int64(5)}, types.JSONDocument{Val: float64(1e30)}, types.JSONDocument{Val: float64(6)}
		xy, _ := types.JSON.Compare(ctx, x, y)
		yz, _ := types.JSON.Compare(ctx, z, y)
		xz, _ := types.JSON.Compare(ctx, x, z)
		fails := xy > 0 // 5 > 1e30
		for _, law := range []string{"transitivity", "eq-transitivity", "conversion-coherence"} {
			_ = law
		}
		r.Pinned("transitivity:json:integer-vs-double-beyond-int64",
			fmt.Sprintf("JSON Compare(5 as int64, 1e30) = %d, Compare(6.0, 1e30) = %d, Compare(5, 6.0) = %d: an integer compares greater than a double beyond the int64 range", xy, yz, xz),
			fails, map[string]any{"cmp(int64 5, 1e30)": xy, "cmp(6.0, 1e30)": yz, "cmp(int64 5, 6.0)": xz})
	}
	// 2b. the same defect through SQL comparison operators and ORDER BY on a JSON column
	{
		ss := e.NewSess()
		ok := true
		for _, q := range []string{"CREATE TABLE pj (id INT PRIMARY KEY, v JSON)",
			"INSERT INTO pj VALUES (1, '1e300'), (2, '9007199254740993'), (3, '9223372036854775808')"} {
			if ss.Exec(q).Failed() {
				ok = false
			}
		}
		if ok {
			res := ss.Exec("SELECT x.v < y.v FROM pj x, pj y WHERE x.id = 1 AND y.id = 2")
			got := "?"
			if !res.Failed() && len(res.Rows) == 1 {
				got = core.Canon(res.Rows[0][0])
			}
			what := fmt.Sprintf("JSON column: (1e300 < 9007199254740993) evaluates to %s", got)
			r.Pinned("sql-transitivity:json:integer-vs-double-beyond-int64", what, got == "1", got)
			r.Pinned("order-by-disagrees-with-operators:json:integer-vs-double-beyond-int64", what+" (ORDER BY sorts with the same intransitive comparison)", got == "1", got)
		}
	}
	// 3. SET with '' as a member
	{
		st := types.MustCreateSetType([]string{"", "a", "b"}, sql.Collation_utf8mb4_0900_bin)
		a, _ := st.Compare(ctx, uint64(0), "")
		b, _ := st.Compare(ctx, "", uint64(1))
		c, _ := st.Compare(ctx, uint64(0), uint64(1))
		r.Pinned("eq-transitivity:set-with-empty-member:empty-string-operand",
			fmt.Sprintf("SET('','a','b'): Compare(0,'') = %d, Compare('',1) = %d but Compare(0,1) = %d", a, b, c),
			a == 0 && b == 0 && c != 0, map[string]any{"cmp(0,'')": a, "cmp('',1)": b, "cmp(0,1)": c})
	}
}
