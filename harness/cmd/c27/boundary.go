package main

import (
	"fmt"
	"math/big"

	"verif/harness/core"
)

// intStringBoundary stores, through strict INSERT and INSERT IGNORE, the *string* spellings of the first value
// outside each sub-64-bit integer type (max+1, min-1, also as '<n>.0') and of the last value inside: strings go
// through a different conversion path (ConvertRound) than integer literals, with its own per-type range
// checks, and a random generator hits the exact boundary of one particular type only rarely.
func intStringBoundary(r *core.Run) {
	type it struct {
		sql      string
		min, max int64
	}
	typs := []it{{"TINYINT", -128, 127}, {"TINYINT UNSIGNED", 0, 255}, {"SMALLINT", -32768, 32767}, {"SMALLINT UNSIGNED", 0, 65535},
		{"MEDIUMINT", -8388608, 8388607}, {"MEDIUMINT UNSIGNED", 0, 16777215}, {"INT", -2147483648, 2147483647}, {"INT UNSIGNED", 0, 4294967295}}
	e := core.NewEng("d")
	defer e.Close()
	s := e.NewSess()
	for ti, t := range typs {
		tb := fmt.Sprintf("ib%d", ti)
		s.MustExec(fmt.Sprintf("CREATE TABLE %s (id INT PRIMARY KEY, v %s)", tb, t.sql))
		id := 0
		for _, c := range []struct {
			v      int64
			inside bool
		}{{t.max, true}, {t.min, true}, {t.max + 1, false}, {t.min - 1, false}} {
			for _, form := range []string{"%d", "%d.0", " %d"} {
				lit := "'" + fmt.Sprintf(form, c.v) + "'"
				id++
				q := fmt.Sprintf("INSERT INTO %s VALUES (%d, %s)", tb, id, lit)
				res := s.Exec(q)
				if res.Panic != nil {
					r.Violation(res.Panic.Sig(), map[string]any{"sql": q, "panic": res.Panic.Value})
					continue
				}
				r.Eval(1)
				r.Count("int-string-boundary.evaluations", 1)
				cls := "outside"
				if c.inside {
					cls = "inside"
				}
				r.Distinct("int-string-boundary|" + t.sql + "|" + cls + "|" + form)
				stored := s.Exec(fmt.Sprintf("SELECT v FROM %s WHERE id = %d", tb, id))
				got := "none"
				if !stored.Failed() && len(stored.Rows) == 1 {
					got = core.Canon(stored.Rows[0][0])
				}
				if c.inside {
					if res.Failed() {
						if form == " %d" {
							continue // leading blank: accepted by MySQL, but rejection is not the failure this battery is about
						}
						r.Violation("int-string-boundary:in-range-string-rejected", map[string]any{"sql": q, "type": t.sql, "err": fmt.Sprint(res.Err)})
					} else if got != fmt.Sprint(c.v) {
						r.Violation("int-string-boundary:in-range-string-stored-as-other-value", map[string]any{"sql": q, "type": t.sql, "stored": got})
					}
					continue
				}
				// outside the type: strict mode must reject; nothing may be stored
				if !res.Failed() {
					gr, _ := new(big.Int).SetString(got, 10)
					_ = gr
					r.Violation("int-string-boundary:out-of-range-string-accepted", map[string]any{"sql": q, "type": t.sql, "stored": got})
				}
			}
		}
	}
	r.Floor(r.Counter("int-string-boundary.evaluations") > 0, "integer string boundary battery did not run")
}
