// C27 — storing a value keeps it exactly or reports the change.
//
// API layer (sql.Type.Convert, the mechanism of the property's first anchor): for every type of the catalogue and every
// generated raw value v
//   - no panic;
//   - idempotence: when Convert(v) = (c, InRange, nil) then Convert(c) = (c, InRange, nil), even the stored form
//     (scale of a decimal, padding of BINARY) must not move;
//   - representable (reference Accept=+1): no error, InRange, and c is exactly the value the reference expects;
//   - not representable (reference Accept=-1: out of range, over-long, malformed): an error or a non-InRange flag —
//     never InRange with some value.
//
// SQL layer (sql/rowexec/insert.go): strict INSERT of the literal then SELECT: a representable value is stored exactly,
// a non-representable one makes the statement fail; INSERT IGNORE of a non-representable value, when it succeeds,
// leaves >= 1 warning and (integers, decimals, character and binary strings) the reference clamp / truncation.
//
// Only same-kind (value, column) pairs carry Accept != 0; cross-kind and rounding inputs are judged on idempotence
// and no-panic only (MySQL itself rounds fraction -> INT or excess scale silently).
package main

import (
	"context"
	"fmt"
	"math"
	"math/big"
	"strings"
	"unicode/utf8"

	"github.com/cockroachdb/apd/v3"

	"github.com/dolthub/go-mysql-server/sql"
	"github.com/dolthub/go-mysql-server/sql/types"

	"verif/harness/core"
	"verif/harness/g1lib"
)

func main() {
	r := core.NewRun("C27", "exploration",
		"an evaluation is one (type, raw value) pair through Type.Convert (API) or INSERT / INSERT IGNORE + SELECT (SQL), judged against an independent reference of representability; distinct = (type, channel, input class, representation, outcome)")
	r.Fold(8, 3)
	r.Assume("exactness verdicts only for same-kind inputs (integers->integer columns, decimal text with <= s fractional digits->DECIMAL, strings without trailing spaces->CHAR/VARCHAR, ...); rounding / cross-kind inputs are judged on idempotence only")
	r.Assume("the reference of 'must be rejected' is MySQL 8 strict mode for inputs whose class is beyond doubt (beyond the type's range, longer than the column, not a number / date / member at all)")
	cat := g1lib.Catalog()
	apiLaws(r, cat)
	sqlLayer(r, cat)
	intStringBoundary(r)
	pinned(r)
	r.Floor(r.Counter("api.convert.calls") > 0, "Type.Convert never called")
	r.Floor(r.Counter("api.accept") > 0 && r.Counter("api.reject") > 0, "no representable or no non-representable input judged")
	r.Floor(r.Counter("api.idempotence") > 0, "idempotence never evaluated")
	r.Floor(r.Counter("sql.insert.strict") > 0, "no strict INSERT evaluated (rowexec/insert.go not reached)")
	r.Floor(r.Counter("sql.insert.ignore") > 0, "no INSERT IGNORE evaluated")
	r.Finish()
}

type conv struct {
	v   any
	rng sql.ConvertInRange
	err error
	pan *core.PanicInfo
}

func convert(ctx context.Context, t sql.Type, v any) (c conv) {
	defer func() {
		if rec := recover(); rec != nil {
			c.pan = core.CapturePanic(rec)
		}
	}()
	x, rng, err := t.Convert(ctx, v)
	return conv{v: x, rng: rng, err: err}
}

// reprGroup folds the Go representation into text / number / other.
func reprGroup(repr string) string {
	switch repr {
	case "string", "bytes":
		return "text"
	case "int", "int8", "int16", "int32", "int64", "uint8", "uint16", "uint32", "uint64", "float64", "float32", "decimal", "bool":
		return "number"
	}
	return repr
}

// kindDetail narrows the kind where the defects seen so far depend on it.
func kindDetail(s *g1lib.Spec) string {
	switch s.Kind {
	case "float":
		return s.Name
	case "int":
		d := "int"
		if s.Bits == 64 {
			d = "bigint"
		}
		if s.Min.Sign() == 0 {
			d += "-unsigned"
		}
		return d
	}
	return s.Kind
}

func sigOf(mode string, s *g1lib.Spec, rw g1lib.Raw) string {
	return mode + ":" + kindDetail(s) + ":" + rw.Class + ":" + reprGroup(rw.Repr)
}

// knownShape maps a failure onto the signature of a known defect when input class AND observed failure mode both
// match its description; "" otherwise (the generic signature is used). stored may be nil (API error paths).
func knownShape(mode string, s *g1lib.Spec, rw g1lib.Raw, stored any) string {
	silent := mode == "silently-accepted" || mode == "sql-strict-stored-silently" || mode == "sql-ignore-stored-without-warning"
	switch {
	case s.Kind == "decimal" && rw.Class == "nan-text" && silent:
		if d, ok := stored.(*apd.Decimal); ok && d.Form != apd.Finite {
			return "decimal-nan-text-stored-as-NaN"
		}
	case s.Kind == "decimal" && rw.Class == "hex-text" && silent:
		if d, ok := stored.(*apd.Decimal); ok && d.Form == apd.Finite {
			if f, err := d.Float64(); err == nil && f == 26 {
				return "decimal-hex-text-read-as-number"
			}
		}
	case s.Name == "double" && (rw.Class == "infinity" || rw.Class == "text-beyond-double") && silent:
		if f, ok := stored.(float64); ok && math.IsInf(f, 0) {
			return "double-beyond-range-stored-as-infinity"
		}
	case s.Kind == "time" && rw.Class == "above-838:59:59" && silent:
		if t, ok := stored.(types.Timespan); ok && (int64(t) == 3020399000000 || int64(t) == -3020399000000) {
			return "time-beyond-838:59:59-clamped-silently"
		}
	case s.Kind == "int" && s.Min.Sign() == 0 && rw.Class == "below-min" && mode == "sql-ignore-not-nearest":
		if fmt.Sprint(stored) != "0" {
			return "ignore-negative-into-unsigned-wraps"
		}
	case s.Kind == "char" && rw.Class == "over-long-multibyte" && mode == "sql-ignore-not-nearest":
		var txt string
		switch v := rw.V.(type) {
		case string:
			txt = v
		case []byte:
			txt = string(v)
		}
		// convertDataAndWarn cuts the Go string at MaxCharacterLength *bytes* (CHAR(4): 4 bytes; TINYTEXT utf8mb4: 63)
		n := s.Len
		if stt, ok := s.T.(sql.StringType); ok {
			n = int(stt.MaxCharacterLength())
		}
		if st, ok := stored.(string); ok && len(txt) >= n && st == txt[:n] {
			return "ignore-overlong-multibyte-text-truncated-by-bytes"
		}
	case s.Kind == "decimal" && rw.Class == "too-many-integer-digits" && mode == "sql-ignore-not-nearest":
		if d, ok := stored.(*apd.Decimal); ok && d.IsZero() {
			return "ignore-decimal-out-of-range-stores-zero"
		}
	case s.Kind == "int" && reprGroup(rw.Repr) == "text" && (rw.Class == "above-max" || rw.Class == "below-min") &&
		(silent || mode == "sql-ignore-not-nearest") && strings.HasPrefix(mode, "sql-"):
		if txt, ok := rw.V.(string); ok {
			if x, ok := new(big.Int).SetString(txt, 10); ok && (x.Cmp(big.NewInt(math.MaxInt64)) > 0 || x.Cmp(big.NewInt(math.MinInt64)) < 0) {
				return "integer-text-beyond-int64-converted-through-float"
			}
		}
	}
	return ""
}

func sigFor(mode string, s *g1lib.Spec, rw g1lib.Raw, stored any) string {
	if k := knownShape(mode, s, rw, stored); k != "" {
		return k
	}
	return sigOf(mode, s, rw)
}

// excluded: input classes kept out of the core domain because a known finding makes many different things fail
// there (via=domain); each has a pinned witness that is replayed every run.
func excluded(s *g1lib.Spec, rw g1lib.Raw) string {
	if s.Kind == "char" && s.Coll.CharacterSet().MaxLength() == 1 {
		var txt string
		switch v := rw.V.(type) {
		case string:
			txt = v
		case []byte:
			txt = string(v)
		}
		for i := 0; i < len(txt); i++ {
			if txt[i] >= 0x80 {
				return "non-ascii-text-in-single-byte-charset"
			}
		}
	}
	return ""
}

func apiLaws(r *core.Run, cat []*g1lib.Spec) {
	per := r.N(90, 2700)
	type job struct {
		s *g1lib.Spec
		k int
	}
	var jobs []job
	for _, s := range cat {
		for k := 0; k < per; k++ {
			jobs = append(jobs, job{s, k})
		}
	}
	eng := core.NewEng("d")
	defer eng.Close()
	r.Parallel("api", len(jobs), func(i int) {
		j := jobs[i]
		s := j.s
		rnd := r.Rand("api/"+s.Name, j.k)
		ctx := eng.NewSess().Ctx()
		local := map[string]struct{}{}
		var calls, acc, rej, idem int64
		evals := 0
		var battery []g1lib.Raw
		if j.k == 0 {
			battery = boundaryBattery(s)
		}
		for n := 0; n < 12+len(battery); n++ {
			var rw g1lib.Raw
			if n < 12 {
				rw = g1lib.Gen(s, rnd)
			} else {
				rw = battery[n-12]
			}
			if ex := excluded(s, rw); ex != "" {
				r.Count("excluded-domain."+ex, 1)
				continue
			}
			wit := map[string]any{"type": s.Name, "raw": rw.String(), "seed": r.Seed, "stream": r.CaseSeed(), "case": j.k}
			c1 := convert(ctx, s.T, rw.V)
			calls++
			if c1.pan != nil {
				wit["panic"] = c1.pan.Value
				r.Violation(c1.pan.Sig(), wit)
				continue
			}
			outcome := "error"
			if c1.err == nil {
				outcome = "in-range"
				if c1.rng != sql.InRange {
					outcome = "flagged"
				}
			}
			wit["convert"] = fmt.Sprintf("value=%s inRange=%d err=%v", g1lib.Show(c1.v), c1.rng, c1.err)
			// idempotence
			if c1.err == nil && c1.rng == sql.InRange && c1.v != nil {
				c2 := convert(ctx, s.T, c1.v)
				calls++
				idem++
				evals++
				switch {
				case c2.pan != nil:
					wit["panic"] = c2.pan.Value
					r.Violation(c2.pan.Sig(), wit)
				case c2.err != nil || c2.rng != sql.InRange:
					wit["second"] = fmt.Sprintf("value=%s inRange=%d err=%v", g1lib.Show(c2.v), c2.rng, c2.err)
					r.Violation(sigOf("stored-value-not-accepted-again", s, rw), wit)
				case g1lib.StoredText(s.Kind, c1.v) != g1lib.StoredText(s.Kind, c2.v):
					wit["second"] = g1lib.Show(c2.v)
					r.Violation(sigOf("not-idempotent", s, rw), wit)
				}
			}
			switch rw.Accept {
			case +1:
				acc++
				evals++
				switch {
				case c1.err != nil || c1.rng != sql.InRange:
					r.Violation(sigOf("representable-rejected", s, rw), wit)
				case rw.Want != nil && !g1lib.SameStored(s.Kind, c1.v, rw.Want):
					wit["expected"] = g1lib.Show(rw.Want)
					r.Violation(sigOf("stored-differs", s, rw), wit)
				default:
					local[s.Name+"|api|"+rw.Class+"|"+rw.Repr+"|kept"] = struct{}{}
				}
			case -1:
				rej++
				evals++
				if c1.err == nil && c1.rng == sql.InRange {
					r.Violation(sigFor("silently-accepted", s, rw, c1.v), wit)
				} else {
					local[s.Name+"|api|"+rw.Class+"|"+rw.Repr+"|"+outcome] = struct{}{}
				}
			default:
				local[s.Name+"|api|"+rw.Class+"|"+rw.Repr+"|unjudged-"+outcome] = struct{}{}
			}
			if j.k == 0 && n < 2 && (s.Name == "tinyint" || s.Name == "decimal(5,2)" || s.Name == "char(4)/utf8mb4_0900_ai_ci") {
				r.Sample(map[string]any{"type": s.Name, "raw": rw.String(), "reference_accept": rw.Accept, "expected": g1lib.Show(rw.Want), "convert": wit["convert"]})
			}
		}
		r.Count("api.convert.calls", calls)
		r.Count("api.accept", acc)
		r.Count("api.reject", rej)
		r.Count("api.idempotence", idem)
		r.Eval(evals)
		for k := range local {
			r.Distinct(k)
		}
	})
}

// boundaryBattery: the exact edges of a DECIMAL(p,s) (largest value, first value beyond it, both signs, as text and
// as decimal), run once per type in every stream so that the edge does not depend on the draw.
func boundaryBattery(s *g1lib.Spec) []g1lib.Raw {
	if s.Kind != "decimal" {
		return nil
	}
	var out []g1lib.Raw
	ip := s.Prec - s.Scale
	maxTxt := strings.Repeat("9", ip)
	if maxTxt == "" {
		maxTxt = "0"
	}
	if s.Scale > 0 {
		maxTxt += "." + strings.Repeat("9", s.Scale)
	}
	beyond := "1" + strings.Repeat("0", ip)
	for _, sign := range []string{"", "-"} {
		for _, repr := range []string{"string", "decimal"} {
			mk := func(txt, class string, accept int) g1lib.Raw {
				d, _, _ := apd.NewFromString(txt)
				rw := g1lib.Raw{Repr: repr, Class: class, Accept: accept, Lit: txt}
				if repr == "string" {
					rw.V, rw.Lit = txt, g1lib.Quote(txt)
				} else {
					rw.V = d
				}
				if accept > 0 {
					rw.Want, rw.Exact = d, true
				}
				return rw
			}
			out = append(out, mk(sign+maxTxt, "max-digits", +1), mk(sign+beyond, "too-many-integer-digits", -1))
		}
	}
	return out
}

// ---- reference clamp for INSERT IGNORE ------------------------------------------------------------------

// clampOf returns the nearest representable stored value for a non-representable raw value, for the kinds where
// that notion is beyond doubt; ok=false otherwise.
func clampOf(s *g1lib.Spec, rw g1lib.Raw) (any, bool) {
	switch s.Kind {
	case "int":
		var x *big.Int
		switch v := rw.V.(type) {
		case string:
			b, ok := new(big.Int).SetString(v, 10)
			if !ok {
				return nil, false
			}
			x = b
		case *apd.Decimal:
			b, ok := new(big.Int).SetString(v.Text('f'), 10)
			if !ok {
				return nil, false
			}
			x = b
		default:
			b, ok := new(big.Int).SetString(fmt.Sprint(v), 10)
			if !ok {
				return nil, false
			}
			x = b
		}
		if x.Cmp(s.Max) > 0 {
			return g1lib.StoredInt(s, s.Max), true
		}
		if x.Cmp(s.Min) < 0 {
			return g1lib.StoredInt(s, s.Min), true
		}
		return nil, false
	case "decimal":
		if rw.Class != "too-many-integer-digits" {
			return nil, false
		}
		txt := strings.Repeat("9", s.Prec-s.Scale)
		if txt == "" {
			txt = "0"
		}
		if s.Scale > 0 {
			txt += "." + strings.Repeat("9", s.Scale)
		}
		neg := strings.HasPrefix(fmt.Sprint(rw.V), "-")
		if d, ok := rw.V.(*apd.Decimal); ok {
			neg = d.Negative
		}
		if b, ok := rw.V.([]byte); ok {
			neg = strings.HasPrefix(string(b), "-")
		}
		if neg {
			txt = "-" + txt
		}
		d, _, err := apd.NewFromString(txt)
		return d, err == nil
	case "char":
		if rw.Class != "over-long" && rw.Class != "over-long-multibyte" {
			return nil, false
		}
		var txt string
		switch v := rw.V.(type) {
		case string:
			txt = v
		case []byte:
			txt = string(v)
		default:
			return nil, false
		}
		if s.Base == "tinytext" {
			cut := s.Len
			for cut > 0 && !utf8.RuneStart(txt[cut]) {
				cut--
			}
			return txt[:cut], true
		}
		rs := []rune(txt)
		return string(rs[:s.Len]), true
	case "binary":
		if rw.Class != "over-long" {
			return nil, false
		}
		switch v := rw.V.(type) {
		case string:
			return []byte(v)[:s.Len], true
		case []byte:
			return v[:s.Len], true
		}
	}
	return nil, false
}

// ---- SQL layer -----------------------------------------------------------------------------------------

func sqlLayer(r *core.Run, cat []*g1lib.Spec) {
	per := r.N(3, 55)
	type job struct {
		s *g1lib.Spec
		k int
	}
	var jobs []job
	for _, s := range cat {
		for k := 0; k < per; k++ {
			jobs = append(jobs, job{s, k})
		}
	}
	r.Parallel("sql", len(jobs), func(i int) {
		j := jobs[i]
		s := j.s
		rnd := r.Rand("sql/"+s.Name, j.k)
		e := core.NewEng("d")
		defer e.Close()
		ss := e.NewSess()
		ddl := "CREATE TABLE t (id INT PRIMARY KEY, v " + s.DDL + ")"
		if cr := ss.Exec(ddl); cr.Failed() {
			r.Inconclusive("create-table-failed:" + s.Kind)
			return
		}
		evals := 0
		id := 0
		readBack := func(id int) (any, bool) {
			res := ss.Exec(fmt.Sprintf("SELECT v FROM t WHERE id = %d", id))
			if res.Failed() || len(res.Rows) != 1 {
				return nil, false
			}
			v, err := sql.UnwrapAny(context.Background(), res.Rows[0][0])
			return v, err == nil
		}
		for n := 0; n < 12; n++ {
			rw := g1lib.Gen(s, rnd)
			if rw.Lit == "" {
				continue
			}
			if ex := excluded(s, rw); ex != "" {
				r.Count("excluded-domain."+ex, 1)
				continue
			}
			// ---- strict INSERT
			id++
			q := fmt.Sprintf("INSERT INTO t VALUES (%d, %s)", id, rw.Lit)
			res := ss.Exec(q)
			wit := map[string]any{"type": s.Name, "setup": []string{ddl}, "sql": q, "raw": rw.String(), "seed": r.Seed, "stream": r.CaseSeed(), "case": j.k}
			if res.Panic != nil {
				wit["panic"] = res.Panic.Value
				r.Violation(strings.ReplaceAll(res.Panic.Sig(), " ", "_"), wit)
				continue
			}
			if res.TimedOut {
				r.Inconclusive("timeout")
				continue
			}
			r.Count("sql.insert.strict", 1)
			if res.Err != nil {
				wit["error"] = res.Err.Error()
			}
			var stored any
			haveStored := false
			if res.Err == nil {
				stored, haveStored = readBack(id)
				if !haveStored {
					r.Inconclusive("read-back-failed:" + s.Kind)
					continue
				}
				wit["stored"] = g1lib.Show(stored)
				wit["warnings"] = len(res.Warnings)
			}
			switch rw.Accept {
			case +1:
				evals++
				switch {
				case res.Err != nil:
					r.Violation(sigOf("sql-representable-rejected", s, rw), wit)
				case rw.Want != nil && !g1lib.SameStored(s.Kind, stored, rw.Want):
					wit["expected"] = g1lib.Show(rw.Want)
					r.Violation(sigOf("sql-stored-differs", s, rw), wit)
				default:
					r.Distinct(s.Name + "|sql-strict|" + rw.Class + "|" + rw.Repr + "|kept")
				}
			case -1:
				evals++
				switch {
				case res.Err == nil && len(res.Warnings) == 0:
					r.Violation(sigFor("sql-strict-stored-silently", s, rw, stored), wit)
				case res.Err == nil:
					r.Violation(sigFor("sql-strict-stored-with-warning", s, rw, stored), wit)
				default:
					r.Distinct(s.Name + "|sql-strict|" + rw.Class + "|" + rw.Repr + "|rejected")
				}
			default:
				if res.Err == nil {
					r.Distinct(s.Name + "|sql-strict|" + rw.Class + "|" + rw.Repr + "|unjudged-stored")
				} else {
					r.Distinct(s.Name + "|sql-strict|" + rw.Class + "|" + rw.Repr + "|unjudged-rejected")
				}
			}
			if j.k == 0 && n < 2 && (s.Name == "smallint unsigned" || s.Name == "varchar(8)/utf8mb4_0900_bin" || s.Name == "time") {
				r.Sample(map[string]any{"type": s.Name, "sql": q, "reference_accept": rw.Accept, "error": fmt.Sprint(res.Err), "stored": wit["stored"]})
			}
			// ---- INSERT IGNORE of the same literal
			if rw.Accept == 0 {
				continue
			}
			id++
			qi := fmt.Sprintf("INSERT IGNORE INTO t VALUES (%d, %s)", id, rw.Lit)
			ri := ss.Exec(qi)
			wi := map[string]any{"type": s.Name, "setup": []string{ddl}, "sql": qi, "raw": rw.String(), "seed": r.Seed, "stream": r.CaseSeed(), "case": j.k}
			if ri.Panic != nil {
				wi["panic"] = ri.Panic.Value
				// signatures in the findings file cannot contain spaces
				sig := strings.ReplaceAll(ri.Panic.Sig(), " ", "_")
				if s.Kind == "binary" && strings.HasPrefix(rw.Class, "over-long") && ri.Panic.Site == "sql/rowexec.convertDataAndWarn" {
					sig = "ignore-overlong-binary-literal-panics-in-convertDataAndWarn"
				}
				r.Violation(sig, wi)
				continue
			}
			if ri.TimedOut {
				r.Inconclusive("timeout")
				continue
			}
			r.Count("sql.insert.ignore", 1)
			if ri.Err != nil {
				// the statement was rejected: nothing was stored silently. For representable values that is a violation.
				wi["error"] = ri.Err.Error()
				if rw.Accept > 0 {
					evals++
					r.Violation(sigOf("sql-ignore-representable-rejected", s, rw), wi)
				} else {
					r.Count("sql.ignore.still-rejected."+s.Kind, 1)
					r.Distinct(s.Name + "|sql-ignore|" + rw.Class + "|still-rejected")
				}
				continue
			}
			st, ok := readBack(id)
			if !ok {
				// INSERT IGNORE may skip the row altogether (with a warning)
				if rw.Accept < 0 && len(ri.Warnings) > 0 {
					evals++
					r.Distinct(s.Name + "|sql-ignore|" + rw.Class + "|row-skipped-with-warning")
					continue
				}
				r.Inconclusive("read-back-failed:" + s.Kind)
				continue
			}
			wi["stored"] = g1lib.Show(st)
			wi["warnings"] = len(ri.Warnings)
			evals++
			if rw.Accept > 0 {
				if rw.Want != nil && !g1lib.SameStored(s.Kind, st, rw.Want) {
					wi["expected"] = g1lib.Show(rw.Want)
					r.Violation(sigOf("sql-ignore-stored-differs", s, rw), wi)
				} else {
					r.Distinct(s.Name + "|sql-ignore|" + rw.Class + "|" + rw.Repr + "|kept")
				}
				continue
			}
			if len(ri.Warnings) == 0 {
				r.Violation(sigFor("sql-ignore-stored-without-warning", s, rw, st), wi)
				continue
			}
			if want, ok := clampOf(s, rw); ok {
				if !g1lib.SameStored(s.Kind, st, want) {
					wi["expected_clamp"] = g1lib.Show(want)
					r.Violation(sigFor("sql-ignore-not-nearest", s, rw, st), wi)
					continue
				}
				r.Distinct(s.Name + "|sql-ignore|" + rw.Class + "|" + rw.Repr + "|clamped")
			} else {
				r.Distinct(s.Name + "|sql-ignore|" + rw.Class + "|" + rw.Repr + "|warned")
			}
		}
		r.Eval(evals)
	})
}

// pinned replays the witnesses of the known findings on every run (see pins.go).
func pinned(r *core.Run) {
	e := core.NewEng("d")
	defer e.Close()
	for _, p := range pins {
		p(r, e)
	}
}

var pins []func(r *core.Run, e *core.Eng)
