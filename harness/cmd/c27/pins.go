package main

import (
	"fmt"
	"math"

	"github.com/cockroachdb/apd/v3"

	"github.com/dolthub/go-mysql-server/sql"
	"github.com/dolthub/go-mysql-server/sql/types"

	"verif/harness/core"
	"verif/harness/g1lib"
)

// Pinned witnesses of the known findings of C27 (findings/C27.txt), replayed on every run.
func init() {
	add := func(f func(r *core.Run, e *core.Eng)) { pins = append(pins, f) }
	// one table per witness, strict INSERT / INSERT IGNORE then read back
	run := func(e *core.Eng, ddl string, stmt string) (stored any, warnings int, err error, panicked string) {
		ss := e.NewSess()
		ss.Exec("DROP TABLE IF EXISTS p")
		if res := ss.Exec("CREATE TABLE p (id INT PRIMARY KEY, v " + ddl + ")"); res.Failed() {
			return nil, 0, fmt.Errorf("create failed"), ""
		}
		res := ss.Exec(stmt)
		if res.Panic != nil {
			return nil, 0, nil, res.Panic.Sig()
		}
		if res.Err != nil {
			return nil, 0, res.Err, ""
		}
		rd := ss.Exec("SELECT v FROM p WHERE id = 1")
		if rd.Failed() || len(rd.Rows) != 1 {
			return nil, len(res.Warnings), fmt.Errorf("no row"), ""
		}
		return rd.Rows[0][0], len(res.Warnings), nil, ""
	}
	add(func(r *core.Run, e *core.Eng) {
		ctx := e.NewSess().Ctx()
		// API: DECIMAL 'nan', '0x1A'; DOUBLE '1e400'; TIME '839:00:00'
		dt := types.MustCreateColumnDecimalType(5, 2)
		v, rng, err := dt.Convert(ctx, "nan")
		d, _ := v.(*apd.Decimal)
		r.Pinned("decimal-nan-text-stored-as-NaN", fmt.Sprintf("DECIMAL(5,2).Convert(\"nan\") = %v, inRange=%d, err=%v", v, rng, err),
			err == nil && rng == sql.InRange && d != nil && d.Form != apd.Finite, g1lib.Show(v))
		v, rng, err = dt.Convert(ctx, "0x1A")
		r.Pinned("decimal-hex-text-read-as-number", fmt.Sprintf("DECIMAL(5,2).Convert(\"0x1A\") = %v, inRange=%d, err=%v (MySQL: incorrect decimal value)", v, rng, err),
			err == nil && rng == sql.InRange && v != nil, g1lib.Show(v))
		v, rng, err = types.Float64.Convert(ctx, "1e400")
		f, _ := v.(float64)
		r.Pinned("double-beyond-range-stored-as-infinity", fmt.Sprintf("DOUBLE.Convert(\"1e400\") = %v, inRange=%d, err=%v", v, rng, err),
			err == nil && rng == sql.InRange && math.IsInf(f, 0), g1lib.Show(v))
		v, rng, err = types.Time.Convert(ctx, "839:00:00")
		r.Pinned("time-beyond-838:59:59-clamped-silently", fmt.Sprintf("TIME.Convert(\"839:00:00\") = %v, inRange=%d, err=%v", v, rng, err),
			err == nil && rng == sql.InRange && fmt.Sprint(v) == "838:59:59", g1lib.Show(v))
	})
	add(func(r *core.Run, e *core.Eng) {
		st, w, err, _ := run(e, "TINYINT UNSIGNED", "INSERT IGNORE INTO p VALUES (1, -1)")
		r.Pinned("ignore-negative-into-unsigned-wraps", fmt.Sprintf("INSERT IGNORE of -1 into TINYINT UNSIGNED stores %v (warnings=%d, err=%v); nearest value is 0", st, w, err),
			err == nil && fmt.Sprint(st) != "0", fmt.Sprint(st))
		st, w, err, _ = run(e, "CHAR(4) CHARACTER SET utf8mb4", "INSERT IGNORE INTO p VALUES (1, 'báAÁáä')")
		r.Pinned("ignore-overlong-multibyte-text-truncated-by-bytes", fmt.Sprintf("INSERT IGNORE of 'báAÁáä' into CHAR(4) stores %q (warnings=%d, err=%v); nearest value is 'báAÁ'", st, w, err),
			err == nil && fmt.Sprint(st) != "báAÁ", fmt.Sprint(st))
		st, w, err, _ = run(e, "DECIMAL(5,2)", "INSERT IGNORE INTO p VALUES (1, 499383.9)")
		r.Pinned("ignore-decimal-out-of-range-stores-zero", fmt.Sprintf("INSERT IGNORE of 499383.9 into DECIMAL(5,2) stores %v (warnings=%d, err=%v); nearest value is 999.99", st, w, err),
			err == nil && core.Canon(st) == "0", core.Canon(st))
		st, w, err, _ = run(e, "BIGINT", "INSERT INTO p VALUES (1, '9223372036854775808')")
		r.Pinned("integer-text-beyond-int64-converted-through-float", fmt.Sprintf("strict INSERT of '9223372036854775808' into BIGINT stores %v (warnings=%d, err=%v)", st, w, err),
			err == nil, fmt.Sprint(st))
		_, _, err, pan := run(e, "BINARY(4)", "INSERT IGNORE INTO p VALUES (1, X'ff0062ffaf00')")
		r.Pinned("ignore-overlong-binary-literal-panics-in-convertDataAndWarn",
			fmt.Sprintf("INSERT IGNORE of an over-long X'..' literal into BINARY(4) panics in convertDataAndWarn (%s)", pan), pan != "", pan)
		// via=domain: non-ASCII text in a single-byte character set column
		_, _, err, _ = run(e, "CHAR(4) CHARACTER SET latin1", "INSERT INTO p VALUES (1, 'aáá')")
		r.Pinned("non-ascii-text-in-single-byte-charset", fmt.Sprintf("strict INSERT of 'aáá' (3 characters) into CHAR(4) CHARACTER SET latin1 fails: %v", err), err != nil, fmt.Sprint(err))
	})
}
