package main

// Multi-row results. The handler writes the wire text of every value of a result into one pooled byte buffer
// (sql.ByteBuffer, 4096 bytes at first, doubled when full) and hands the client slices of it, so a value is only as
// good as the bookkeeping that protects its bytes until the batch is sent. The single-value reads of overTheWire never
// fill that buffer. Here a result has hundreds of values whose text lengths are steered so that the accumulated text
// ends exactly on (or one byte before / after) every power of two from 4096 up, wherever a value boundary can be put
// there; each value received in text and in binary mode must be the one inserted.

import (
	"fmt"
	"math/rand"
	"strconv"
	"strings"

	"verif/harness/core"
)

type bulkKind struct {
	ddl    string
	lo, hi int
	quote  bool
}

var bulkKinds = []bulkKind{
	{"VARCHAR(600)", 1, 600, true},
	{"VARCHAR(64)", 1, 64, true},
	{"TEXT", 1, 600, true},
	{"VARBINARY(600)", 1, 600, true},
	{"BLOB", 1, 300, true},
	{"CHAR(200)", 1, 200, true},
	{"DECIMAL(65,0)", 1, 65, false},
	{"BIGINT", 1, 18, false},
}

const letters = "abcdefghijklmnopqrstuvwxyzABCDEFGHIJKLMNOPQRSTUVWXYZ"

func bulkValue(k bulkKind, n int, row, col int, rnd *rand.Rand) string {
	var sb strings.Builder
	if k.quote {
		sb.WriteString(fmt.Sprintf("r%dc%d", row, col))
		for sb.Len() < n {
			sb.WriteByte(letters[rnd.Intn(len(letters))])
		}
		s := sb.String()
		if len(s) > n {
			s = s[len(s)-n:] // keep the distinguishing tail
			if s[0] == ' ' {
				s = "x" + s[1:]
			}
		}
		return s
	}
	sb.WriteByte("123456789"[rnd.Intn(9)])
	for sb.Len() < n {
		sb.WriteByte("0123456789"[rnd.Intn(10)])
	}
	return sb.String()
}

func bulkReads(r *core.Run) {
	cases := r.N(10, 120)
	r.Parallel("bulk", cases, func(i int) {
		rnd := r.Rand("bulk", i)
		e := core.NewEng("d")
		defer e.Close()
		ss := e.NewSess()
		ncols := 1 + rnd.Intn(3)
		kinds := make([]bulkKind, ncols)
		var cols, defs []string
		uniform := rnd.Intn(4) == 0 // every value the same length, a power of two: the plainest way onto the boundary
		for c := range kinds {
			kinds[c] = bulkKinds[rnd.Intn(len(bulkKinds))]
			if uniform {
				kinds[c] = bulkKinds[rnd.Intn(6)]
			}
			cols = append(cols, fmt.Sprintf("v%d", c))
			defs = append(defs, fmt.Sprintf("v%d %s", c, kinds[c].ddl))
		}
		tbl := fmt.Sprintf("c28b_%d_%d", r.Seed, i)
		if cr := ss.Exec("CREATE TABLE " + tbl + " (id INT PRIMARY KEY, " + strings.Join(defs, ", ") + ")"); cr.Failed() {
			r.Inconclusive("bulk-create-table-failed")
			return
		}
		// model of the buffer bookkeeping, used to steer lengths only (never as an oracle)
		pos, capNow := 0, 4096
		limit := 4096 << uint(1+rnd.Intn(4)) // stop after the boundary at 8192 .. 65536
		ulen := 1 << uint(rnd.Intn(7))       // 1 .. 64
		var want [][]string
		steered := 0
		for row := 0; pos < limit+200 && row < 4000; row++ {
			vals := make([]string, ncols)
			lits := make([]string, ncols)
			for c, k := range kinds {
				n := k.lo + rnd.Intn(k.hi-k.lo+1)
				if k.hi > 100 && rnd.Intn(2) == 0 {
					n = k.lo + rnd.Intn(100)
				}
				if uniform {
					n = ulen
					if n > k.hi {
						n = k.hi
					}
				} else if rem := capNow - pos; rem <= k.hi+1 {
					t := rem + []int{0, 0, 0, 0, -1, 1}[rnd.Intn(6)]
					if t >= k.lo && t <= k.hi {
						n = t
						if t == rem {
							steered++
						}
					}
				}
				vals[c] = bulkValue(k, n, row, c, rnd)
				if k.quote {
					lits[c] = "'" + vals[c] + "'"
				} else {
					lits[c] = vals[c]
				}
				if pos+n <= capNow {
					if pos+n == capNow && uniform {
						steered++
					}
					pos += n
					if pos == capNow {
						capNow *= 2
					}
				} else {
					capNow *= 2
				}
			}
			if res := ss.Exec(fmt.Sprintf("INSERT INTO %s VALUES (%d, %s)", tbl, row, strings.Join(lits, ", "))); res.Failed() {
				r.Inconclusive("bulk-insert-failed")
				return
			}
			want = append(want, vals)
		}
		r.Count("bulk.boundary-hits-steered", int64(steered))
		srvMu.Lock()
		srv, err := e.StartServer()
		srvMu.Unlock()
		if err != nil {
			r.Inconclusive("server-did-not-start")
			return
		}
		defer srv.Close()
		for _, mode := range []string{"text", "binary"} {
			params := ""
			if mode == "text" {
				params = "interpolateParams=true"
			}
			db, err := srv.Open("root", "", params)
			if err != nil {
				r.Inconclusive("client-open-failed")
				return
			}
			q := "SELECT " + strings.Join(cols, ", ") + " FROM " + tbl + " WHERE id >= ? ORDER BY id"
			rows, err := db.Query(q, 0)
			if err != nil {
				db.Close()
				if strings.Contains(err.Error(), "not found") || strings.Contains(err.Error(), "bad connection") || strings.Contains(err.Error(), "connection refused") {
					r.Inconclusive("bulk-connection-lost-or-foreign-server")
					continue
				}
				r.Violation("bulk-"+mode+"-query-failed", map[string]any{"query": q, "error": err.Error(), "seed": r.Seed, "case": i})
				continue
			}
			got := 0
			bad := false
			for rows.Next() {
				dest := make([]any, ncols)
				ptrs := make([]any, ncols)
				for c := range dest {
					ptrs[c] = &dest[c]
				}
				if err := rows.Scan(ptrs...); err != nil {
					r.Violation("bulk-"+mode+"-scan-failed", map[string]any{"query": q, "error": err.Error(), "seed": r.Seed, "case": i})
					bad = true
					break
				}
				if got >= len(want) {
					got++
					continue
				}
				for c := range dest {
					var s string
					switch v := dest[c].(type) {
					case []byte:
						s = string(v)
					case string:
						s = v
					case int64:
						s = strconv.FormatInt(v, 10)
					default:
						s = fmt.Sprint(v)
					}
					r.Count("bulk."+mode+".values", 1)
					if s != want[got][c] && !bad {
						bad = true
						r.Violation("bulk-"+mode+"-value-differs-in-multi-row-result", map[string]any{
							"table": "CREATE TABLE t (id INT PRIMARY KEY, " + strings.Join(defs, ", ") + ")", "rows": len(want), "row": got, "column": c,
							"inserted": core.Clip(want[got][c], 200), "received": core.Clip(s, 200), "protocol": mode,
							"text-bytes-before-this-value": textBefore(want, got, c), "seed": r.Seed, "case": i})
					}
				}
				got++
			}
			if err := rows.Err(); err != nil && !bad {
				r.Inconclusive("bulk-stream-error")
			} else if got != len(want) && !bad {
				r.Violation("bulk-"+mode+"-row-count-differs", map[string]any{"query": q, "inserted": len(want), "received": got, "seed": r.Seed, "case": i})
			}
			rows.Close()
			db.Close()
			r.Eval(got * ncols)
			if !bad {
				r.Distinct(fmt.Sprintf("bulk|%s|cols=%d|uniform=%v|upto=%d", mode, ncols, uniform, limit))
			}
		}
	})
}

func textBefore(want [][]string, row, col int) int {
	n := 0
	for i := 0; i <= row; i++ {
		for c := range want[i] {
			if i == row && c >= col {
				break
			}
			n += len(want[i][c])
		}
	}
	return n
}
