// C28 — values round-trip through their wire representation.
//
// In-process part: for a storable value v of type T (generated raw value -> T.Convert), b = T.SQL(ctx, nil, v) is the
// text-protocol representation. Checked: no error/panic; len(b) <= T.MaxTextResponseByteLength(ctx) (the length the
// server announces in the column definition, server/handler.go schemaToFields); T.Convert(b) succeeds and
// T.Compare(T.Convert(b), v) = 0 (for character and binary types additionally byte-for-byte equality).
//
// End-to-end part: a real TCP server (core.StartServer) and go-sql-driver. The stored value is read in-process (Go
// value held by the engine); the client reads the same row in text mode (client-side interpolation) and in binary mode
// (server-side prepared statement); whatever the driver hands back is converted into T and must compare equal to
// the stored value.
package main

import (
	"context"
	dsql "database/sql"
	"fmt"
	"io"
	"log"
	"strings"
	"sync"
	"time"

	"github.com/cockroachdb/apd/v3"
	"github.com/go-sql-driver/mysql"

	"github.com/dolthub/go-mysql-server/sql"
	"github.com/dolthub/go-mysql-server/sql/types"

	"verif/harness/core"
	"verif/harness/g1lib"
)

func main() {
	_ = mysql.SetLogger(log.New(io.Discard, "", 0)) // the driver logs every dropped connection (known finding) to stderr
	r := core.NewRun("C28", "exploration",
		"an evaluation is one (type, stored value, channel) round trip: channel = Type.SQL text in-process, text protocol over TCP, binary prepared protocol over TCP; the received representation is converted back into the type and compared with the stored value; the in-process text is also measured against MaxTextResponseByteLength; distinct = (type, channel, value class, received Go type)")
	r.Assume("stored values are produced by Type.Convert (in-process part) or INSERT (wire part) from generated raw values; what was stored is read back in-process and is the reference, so storage conversion (C27) is not judged here")
	r.Assume("the driver does not expose the announced column length; the length clause is checked in-process against Type.MaxTextResponseByteLength, the value server/handler.go schemaToFields sends")
	var cat []*g1lib.Spec
	for _, s := range g1lib.Catalog() {
		if s.Kind == "set" && s.Members[0] == "" {
			// a SET that has '' as a member has no injective text form (the set {''} and the empty set both print as
			// ''), in MySQL as well: the round trip the property asks for is impossible by construction, not a defect
			continue
		}
		cat = append(cat, s)
	}
	r.Assume("SET types with '' as a member are excluded: their text form is not injective by construction ({''} and {} both print as ''), also in MySQL")
	r.Assume("byte strings that are not valid UTF-8 are not used as stored values: utf8mb4 columns reject them, single-byte character sets read them as non-ASCII text, which C27's known finding non-ascii-text-in-single-byte-charset (length measured in UTF-8 bytes) keeps out of the core domain")
	inProcess(r, cat)
	overTheWire(r, cat)
	bulkReads(r)
	pinned(r)
	r.Floor(r.Counter("inproc.roundtrips") > 0, "Type.SQL never reached")
	r.Floor(r.Counter("inproc.length.checked") > 0, "MaxTextResponseByteLength never compared")
	r.Floor(r.Counter("wire.text.values") > 0, "no value received over the text protocol")
	r.Floor(r.Counter("wire.binary.values") > 0, "no value received over the binary protocol")
	r.Floor(r.Counter("bulk.text.values") > 0 && r.Counter("bulk.binary.values") > 0, "no multi-row result received")
	r.Floor(r.Counter("bulk.boundary-hits-steered") > 0, "no multi-row result was steered onto a buffer boundary")
	r.Finish()
}

// ---- signatures ----------------------------------------------------------------------------------------

// detail narrows a signature to the input class the failure is about.
func detail(s *g1lib.Spec, rw g1lib.Raw, stored any) string {
	switch s.Kind {
	case "float":
		return s.Name
	case "decimal":
		if d, ok := stored.(*apd.Decimal); ok && s.Prec == s.Scale && d.Negative {
			return "decimal-scale-equals-precision:negative"
		}
		return "decimal"
	case "date", "datetime", "timestamp":
		if t, ok := stored.(time.Time); ok {
			if t.Equal(types.ZeroTime) {
				return s.Kind + ":zero-date"
			}
			if y := t.Year(); y >= 0 && y < 1000 {
				return "year-below-1000"
			}
			if t.Nanosecond() != 0 {
				return s.Kind + ":fractional-seconds"
			}
		}
		return s.Kind
	case "time":
		if t, ok := stored.(types.Timespan); ok && int64(t)%1000000 != 0 {
			return "time:fractional-seconds"
		}
		return "time"
	case "year":
		if y, ok := stored.(int16); ok && y == 0 {
			return "year:zero"
		}
		return "year"
	case "char":
		return "char:" + s.Coll.Name()
	case "json":
		if jsonHasDoubleBetween63And64(stored) {
			return "json:double-in-[2^63,2^64)"
		}
		return "json"
	}
	return s.Kind
}

// a double in [2^63, 2^64): printed with its shortest digits padded by zeros (not the exact integer) and read back as
// an exact uint64
func jsonHasDoubleBetween63And64(v any) bool {
	switch x := v.(type) {
	case sql.JSONWrapper:
		in, err := x.ToInterface(context.Background())
		return err == nil && jsonHasDoubleBetween63And64(in)
	case float64:
		return x >= 9223372036854775808.0 && x < 18446744073709551616.0
	case []any:
		for _, e := range x {
			if jsonHasDoubleBetween63And64(e) {
				return true
			}
		}
	case map[string]any:
		for _, e := range x {
			if jsonHasDoubleBetween63And64(e) {
				return true
			}
		}
	}
	return false
}

type out struct {
	v   any
	err error
	pan *core.PanicInfo
}

func guard(f func() (any, error)) (o out) {
	defer func() {
		if rec := recover(); rec != nil {
			o.pan = core.CapturePanic(rec)
		}
	}()
	v, err := f()
	return out{v: v, err: err}
}

func sameBytes(kind string, a, b any) bool {
	a, _ = sql.UnwrapAny(context.Background(), a)
	b, _ = sql.UnwrapAny(context.Background(), b)
	switch kind {
	case "char":
		x, ok1 := a.(string)
		y, ok2 := b.(string)
		return ok1 && ok2 && x == y
	case "binary":
		x, ok1 := a.([]byte)
		y, ok2 := b.([]byte)
		return ok1 && ok2 && string(x) == string(y)
	}
	return true
}

// backInto converts a received representation into the type and compares it with the stored value.
// verdict: "" equal, otherwise the failure mode.
func backInto(ctx *sql.Context, s *g1lib.Spec, t sql.Type, received any, stored any) (mode string, info map[string]any) {
	in := received
	if b, ok := received.([]byte); ok && s.Kind != "binary" && s.Kind != "bit" {
		in = string(b)
	}
	rng := sql.InRange
	c := guard(func() (any, error) { v, ir, err := t.Convert(ctx, in); rng = ir; return v, err })
	if c.pan != nil {
		return c.pan.Sig(), map[string]any{"panic": c.pan.Value}
	}
	if c.err != nil {
		return "not-accepted-back", map[string]any{"convert_error": c.err.Error()}
	}
	if rng != sql.InRange && s.Kind == "int" {
		// the representation denotes a value outside the type and Convert wrapped it back (an int64 read without the
		// unsigned flag wraps to the original bits): not a faithful representation. Only for integers: for FLOAT the
		// shortest text of +-MaxFloat32 parses to a double just above MaxFloat32 and is clamped back to the same value.
		return "out-of-range-back", map[string]any{"converted_back": g1lib.Show(c.v), "in_range_flag": int(rng)}
	}
	k := guard(func() (any, error) { x, err := t.Compare(ctx, c.v, stored); return x, err })
	if k.pan != nil {
		return k.pan.Sig(), map[string]any{"panic": k.pan.Value}
	}
	if k.err != nil {
		return "compare-error", map[string]any{"compare_error": k.err.Error()}
	}
	if k.v.(int) != 0 {
		return "differs", map[string]any{"converted_back": g1lib.Show(c.v), "compare": k.v}
	}
	if !sameBytes(s.Kind, c.v, stored) {
		return "differs-bytewise", map[string]any{"converted_back": g1lib.Show(c.v)}
	}
	return "", nil
}

// ---- in-process ----------------------------------------------------------------------------------------

func inProcess(r *core.Run, cat []*g1lib.Spec) {
	per := r.N(85, 2200)
	type job struct {
		s *g1lib.Spec
		k int
	}
	var jobs []job
	for _, s := range cat {
		for k := 0; k < per; k++ {
			jobs = append(jobs, job{s, k})
		}
	}
	eng := core.NewEng("d")
	defer eng.Close()
	r.Parallel("inproc", len(jobs), func(i int) {
		j := jobs[i]
		s := j.s
		rnd := r.Rand("inproc/"+s.Name, j.k)
		ctx := eng.NewSess().Ctx()
		local := map[string]struct{}{}
		evals := 0
		var rts, lens int64
		for n := 0; n < 12; n++ {
			rw := g1lib.Gen(s, rnd)
			if rw.Accept < 0 || rw.Class == "invalid-utf8" {
				continue
			}
			st := guard(func() (any, error) { v, _, err := s.T.Convert(ctx, rw.V); return v, err })
			if st.pan != nil || st.err != nil || st.v == nil {
				continue // not storable (or C27's business)
			}
			stored := st.v
			wit := map[string]any{"type": s.Name, "raw": rw.String(), "stored": g1lib.Show(stored), "seed": r.Seed, "case": j.k}
			enc := guard(func() (any, error) { v, err := s.T.SQL(ctx, nil, stored); return v, err })
			if enc.pan != nil {
				wit["panic"] = enc.pan.Value
				r.Violation(enc.pan.Sig(), wit)
				continue
			}
			if enc.err != nil {
				wit["sql_error"] = enc.err.Error()
				r.Violation("text-encoding-error:"+detail(s, rw, stored), wit)
				evals++
				continue
			}
			b := enc.v.(interface{ Raw() []byte }).Raw()
			wit["text"] = core.Clip(fmt.Sprintf("%q", string(b)), 200)
			rts++
			// announced length
			max := s.T.MaxTextResponseByteLength(ctx)
			lens++
			evals++
			if uint32(len(b)) > max {
				wit["text_bytes"], wit["announced"] = len(b), max
				r.Violation("text-longer-than-announced:"+detail(s, rw, stored), wit)
			}
			// back
			evals++
			var received any = append([]byte{}, b...)
			mode, info := backInto(ctx, s, s.T, received, stored)
			if mode != "" {
				for k, v := range info {
					wit[k] = v
				}
				r.Violation("text-roundtrip-"+mode+":"+detail(s, rw, stored), wit)
			} else {
				local[s.Name+"|inproc|"+rw.Class] = struct{}{}
			}
			if j.k == 0 && n == 0 && (s.Name == "double" || s.Name == "time" || s.Name == "json" || s.Name == "bit(33)") {
				r.Sample(map[string]any{"type": s.Name, "stored": g1lib.Show(stored), "text": string(b), "announced_max": max, "verdict": "converted back and compared equal"})
			}
		}
		r.Count("inproc.roundtrips", rts)
		r.Count("inproc.length.checked", lens)
		r.Eval(evals)
		for k := range local {
			r.Distinct(k)
		}
	})
}

// ---- over the wire -------------------------------------------------------------------------------------

func overTheWire(r *core.Run, cat []*g1lib.Spec) {
	per := r.N(4, 60)
	type job struct {
		s *g1lib.Spec
		k int
	}
	var jobs []job
	for _, s := range cat {
		for k := 0; k < per; k++ {
			jobs = append(jobs, job{s, k})
		}
	}
	r.Parallel("wire", len(jobs), func(i int) {
		j := jobs[i]
		s := j.s
		rnd := r.Rand("wire/"+s.Name, j.k)
		e := core.NewEng("d")
		defer e.Close()
		ss := e.NewSess()
		// a table name unique to the case: core.StartServer picks a free port and binds it a moment later with
		// SO_REUSEPORT, so two servers (of this or of another monitor process) can end up sharing a port and a client
		// may reach the wrong one; with a unique name that shows as "table not found" instead of as foreign rows
		tbl := fmt.Sprintf("c28w_%d_%d", r.Seed, i)
		if cr := ss.Exec("CREATE TABLE " + tbl + " (id INT PRIMARY KEY, v " + s.DDL + ")"); cr.Failed() {
			r.Inconclusive("create-table-failed:" + s.Kind)
			return
		}
		var setup []string
		var raws []g1lib.Raw
		id := 0
		for tries := 0; tries < 50 && id < 11; tries++ {
			rw := g1lib.Gen(s, rnd)
			if rw.Lit == "" || rw.Accept < 0 || rw.Class == "invalid-utf8" {
				continue
			}
			q := fmt.Sprintf("INSERT INTO %s VALUES (%d, %s)", tbl, id, rw.Lit)
			if res := ss.Exec(q); res.Failed() {
				continue
			}
			setup = append(setup, q)
			raws = append(raws, rw)
			id++
		}
		ss.MustExec(fmt.Sprintf("INSERT INTO %s VALUES (%d, NULL)", tbl, id))
		raws = append(raws, g1lib.Raw{Class: "null", Repr: "null"})
		id++
		n := id
		rd := ss.Exec("SELECT id, v FROM " + tbl)
		if rd.Failed() || len(rd.Rows) != n {
			r.Inconclusive("in-process-read-failed:" + s.Kind)
			return
		}
		colT := rd.Schema[1].Type
		stored := make([]any, n)
		for _, row := range rd.Rows {
			var k int
			fmt.Sscan(core.Canon(row[0]), &k)
			v, err := sql.UnwrapAny(context.Background(), row[1])
			if err != nil {
				r.Inconclusive("unwrap-failed")
				return
			}
			stored[k] = v
		}
		srvMu.Lock()
		srv, err := e.StartServer()
		srvMu.Unlock()
		if err != nil {
			r.Inconclusive("server-did-not-start")
			return
		}
		defer srv.Close()
		dbT, err1 := srv.Open("root", "", "interpolateParams=true")
		dbB, err2 := srv.Open("root", "", "")
		if err1 != nil || err2 != nil {
			r.Inconclusive("client-open-failed")
			return
		}
		defer dbT.Close()
		defer dbB.Close()
		stmt, err := dbB.Prepare("SELECT v FROM " + tbl + " WHERE id = ?")
		if err != nil && strings.Contains(err.Error(), "not found") {
			r.Inconclusive("reached-a-foreign-server-on-a-shared-port")
			return
		}
		if err != nil {
			r.Violation("wire-prepare-failed:"+s.Kind, map[string]any{"type": s.Name, "error": err.Error(), "setup": setup})
			return
		}
		defer stmt.Close()
		ctx := ss.Ctx()
		evals := 0
		for k := 0; k < n; k++ {
			for _, mode := range []string{"text", "binary"} {
				var row *dsql.Row
				if mode == "text" {
					row = dbT.QueryRow("SELECT v FROM "+tbl+" WHERE id = ?", k)
				} else {
					row = stmt.QueryRow(k)
				}
				var got any
				err := row.Scan(&got)
				wit := map[string]any{"type": s.Name, "ddl": s.DDL, "setup": setup, "row": k, "protocol": mode,
					"stored": g1lib.Show(stored[k]), "raw": raws[k].String(), "seed": r.Seed, "case": j.k}
				evals++
				r.Count("wire."+mode+".values", 1)
				dt := detail(s, raws[k], stored[k])
				if err != nil {
					wit["error"] = err.Error()
					if strings.Contains(err.Error(), "not found") {
						r.Inconclusive("reached-a-foreign-server-on-a-shared-port")
						evals--
						continue
					}
					if strings.Contains(err.Error(), "connection refused") || strings.Contains(err.Error(), "bad connection") {
						r.Inconclusive("connection-lost")
						evals--
						continue
					}
					r.Violation("wire-"+mode+"-error:"+dt, wit)
					continue
				}
				wit["received"] = fmt.Sprintf("%T(%v)", got, clipAny(got))
				if stored[k] == nil || got == nil {
					if (stored[k] == nil) != (got == nil) {
						r.Violation("wire-"+mode+"-null-mismatch:"+dt, wit)
					} else {
						r.Distinct(s.Name + "|" + mode + "|null")
					}
					continue
				}
				m, info := backInto(ctx, s, colT, got, stored[k])
				if m != "" {
					for a, b := range info {
						wit[a] = b
					}
					r.Violation("wire-"+mode+"-"+m+":"+dt, wit)
					continue
				}
				r.Distinct(fmt.Sprintf("%s|%s|%s|%T", s.Name, mode, raws[k].Class, got))
				if j.k == 0 && k == 0 && mode == "binary" && (s.Name == "bigint unsigned" || s.Name == "time" || s.Name == "decimal(65,30)" || s.Name == "set(a,b,c,d)") {
					r.Sample(map[string]any{"type": s.Name, "insert": setup[0], "protocol": mode, "received": wit["received"], "stored": wit["stored"], "verdict": "converted back and compared equal"})
				}
			}
		}
		r.Eval(evals)
	})
}

var srvMu sync.Mutex

func clipAny(v any) any {
	if b, ok := v.([]byte); ok {
		return core.Clip(fmt.Sprintf("%q", string(b)), 120)
	}
	return v
}

// pinned replays the witnesses of the known findings.
func pinned(r *core.Run) {
	e := core.NewEng("d")
	defer e.Close()
	ctx := e.NewSess().Ctx()
	textOf := func(t sql.Type, v any) (string, uint32) {
		val, err := t.SQL(ctx, nil, v)
		if err != nil {
			return "ERR:" + err.Error(), 0
		}
		return string(val.Raw()), t.MaxTextResponseByteLength(ctx)
	}
	for _, p := range pins {
		p(r, ctx, textOf)
	}
}

var pins []func(r *core.Run, ctx *sql.Context, textOf func(t sql.Type, v any) (string, uint32))

func init() {
	type tf = func(t sql.Type, v any) (string, uint32)
	add := func(f func(r *core.Run, ctx *sql.Context, textOf tf)) { pins = append(pins, f) }
	// announced length
	add(func(r *core.Run, ctx *sql.Context, textOf tf) {
		txt, max := textOf(types.Float32, float32(-9.223372e+18))
		r.Pinned("text-longer-than-announced:float", fmt.Sprintf("FLOAT %q is %d bytes, announced maximum %d", txt, len(txt), max), uint32(len(txt)) > max, txt)
		txt, max = textOf(types.Float64, float64(-1.7976931348623157e+308))
		r.Pinned("text-longer-than-announced:double", fmt.Sprintf("DOUBLE %q is %d bytes, announced maximum %d", txt, len(txt), max), uint32(len(txt)) > max, txt)
		dt := types.MustCreateColumnDecimalType(3, 3)
		d, _, _ := apd.NewFromString("-0.004")
		txt, max = textOf(dt, d)
		r.Pinned("text-longer-than-announced:decimal-scale-equals-precision:negative", fmt.Sprintf("DECIMAL(3,3) %q is %d bytes, announced maximum %d", txt, len(txt), max), uint32(len(txt)) > max, txt)
	})
	// year zero and years below 1000, in-process
	add(func(r *core.Run, ctx *sql.Context, textOf tf) {
		txt, _ := textOf(types.Year, int16(0))
		back, _, err := types.Year.Convert(ctx, txt)
		r.Pinned("text-roundtrip-differs:year:zero", fmt.Sprintf("YEAR 0000 is sent as %q, which the type reads back as %v", txt, back), err == nil && fmt.Sprint(back) != "0", txt)
		tv := time.Date(999, 1, 1, 0, 0, 0, 0, time.UTC)
		txt, _ = textOf(types.Date, tv)
		_, _, err = types.Date.Convert(ctx, txt)
		r.Pinned("text-roundtrip-not-accepted-back:year-below-1000", fmt.Sprintf("DATE 0999-01-01 is sent as %q, which the type itself rejects (%v)", txt, err), err != nil, txt)
	})
	// JSON double in [2^63, 2^64)
	add(func(r *core.Run, ctx *sql.Context, textOf tf) {
		doc := types.JSONDocument{Val: float64(9223372036854775808)}
		txt, _ := textOf(types.JSON, doc)
		back, _, err := types.JSON.Convert(ctx, txt)
		c := 0
		if err == nil {
			c, _ = types.JSON.Compare(ctx, back, doc)
		}
		r.Pinned("text-roundtrip-differs:json:double-in-[2^63,2^64)", fmt.Sprintf("JSON double 2^63 is sent as %q, read back as a different number (compare=%d)", txt, c), err == nil && c != 0, txt)
	})
	// over the wire
	add(func(r *core.Run, _ *sql.Context, _ tf) {
		e := core.NewEng("d")
		defer e.Close()
		ss := e.NewSess()
		for _, q := range []string{
			"CREATE TABLE p (id INT PRIMARY KEY, d DATE, t TIME, ts TIMESTAMP(6), j JSON)",
			"INSERT INTO p VALUES (1, '0999-01-01', '12:34:56.250000', '2001-02-03 04:05:06.250000', '1')",
		} {
			if ss.Exec(q).Failed() {
				return
			}
		}
		srv, err := e.StartServer()
		if err != nil {
			return
		}
		defer srv.Close()
		get := func(params, col string, prepared bool) (string, error) {
			db, err := srv.Open("root", "", params)
			if err != nil {
				return "", err
			}
			defer db.Close()
			var got any
			if prepared {
				st, err := db.Prepare("SELECT " + col + " FROM p WHERE id = ?")
				if err != nil {
					return "", err
				}
				defer st.Close()
				err = st.QueryRow(1).Scan(&got)
				return fmt.Sprintf("%s", got), err
			}
			err = db.QueryRow("SELECT "+col+" FROM p WHERE id = ?", 1).Scan(&got)
			return fmt.Sprintf("%s", got), err
		}
		ctx := ss.Ctx()
		txt, err := get("interpolateParams=true", "d", false)
		_, _, cerr := types.Date.Convert(ctx, txt)
		r.Pinned("wire-text-not-accepted-back:year-below-1000", fmt.Sprintf("text protocol: DATE 0999-01-01 arrives as %q, rejected by the type (%v)", txt, cerr), err == nil && cerr != nil, txt)
		_, err = get("", "d", true)
		r.Pinned("wire-binary-error:year-below-1000", fmt.Sprintf("binary protocol: reading DATE 0999-01-01 fails: %v", err), err != nil, fmt.Sprint(err))
		txt, err = get("", "t", true)
		r.Pinned("wire-binary-differs:time:fractional-seconds", fmt.Sprintf("binary protocol: TIME 12:34:56.250000 arrives as %q (column definition announces 0 decimals)", txt), err == nil && !strings.Contains(txt, ".25"), txt)
		txt, err = get("", "ts", true)
		r.Pinned("wire-binary-differs:timestamp:fractional-seconds", fmt.Sprintf("binary protocol: TIMESTAMP(6) ...06.250000 arrives as %q (column definition announces 0 decimals)", txt), err == nil && !strings.Contains(txt, ".25"), txt)
	})
}
